package main

// Running the implementation: the five entry points, silent and verbose, with
// recover(); classification of errors; the poll-counting context.

import (
	"context"
	"encoding/json"
	"errors"
	"fmt"
	"strings"
	"time"

	"github.com/theory/sqljson/path"
	"github.com/theory/sqljson/path/ast"
	"github.com/theory/sqljson/path/exec"
	"github.com/theory/sqljson/path/types"
)

func classify(err error) string {
	switch {
	case err == nil:
		return "nil"
	case err == exec.NULL: //nolint:errorlint
		return "null"
	case errors.Is(err, exec.NULL):
		return "null-wrapped"
	case errors.Is(err, context.Canceled):
		if errors.Is(err, exec.ErrExecution) && !errors.Is(err, exec.ErrVerbose) {
			return "cancel"
		}
		return "cancel-misclassified"
	case errors.Is(err, context.DeadlineExceeded):
		if errors.Is(err, exec.ErrExecution) && !errors.Is(err, exec.ErrVerbose) {
			return "cancel"
		}
		return "cancel-misclassified"
	case errors.Is(err, exec.ErrVerbose):
		return "verbose"
	case errors.Is(err, exec.ErrInvalid):
		return "invalid"
	case errors.Is(err, exec.ErrExecution):
		return "exec"
	default:
		return "other"
	}
}

// pollCtx becomes done at its k-th poll (0-based); k < 0 = never.
type pollCtx struct {
	context.Context
	k         int
	n         int
	cause     error
	cancelled bool
	cancelFn  context.CancelCauseFunc // non-nil: cancel the embedded context (created by WithCancelCause) at poll k
}

var (
	closedChan = func() chan struct{} { c := make(chan struct{}); close(c); return c }()
	openChan   = make(chan struct{})
)

var errShutdown = errors.New("server is shutting down")

func (c *pollCtx) Done() <-chan struct{} {
	idx := c.n
	c.n++
	if c.k >= 0 && idx >= c.k {
		c.cancelled = true
		if c.cancelFn != nil {
			// a real cancellation with a cause: ctx.Err() is context.Canceled, context.Cause(ctx) is errShutdown
			c.cancelFn(errShutdown)
			return c.Context.Done()
		}
		return closedChan
	}
	return openChan
}

func (c *pollCtx) Err() error {
	if c.cancelled {
		if c.cancelFn != nil {
			return c.Context.Err()
		}
		return c.cause
	}
	return nil
}

func (c *pollCtx) Deadline() (time.Time, bool) { return time.Time{}, false }

type runOpts struct {
	vars   map[string]any
	silent bool
	useTZ  bool
	tz     *time.Location
	k      int // cancel at poll k; -1 never
	cause  error
}

// decoyVars is passed in a first WithVars that the real WithVars then replaces: an option given twice must
// behave like its last occurrence and must not write into the map of an earlier one (checked by decoyIntact).
var decoyVars = newDecoy()

func newDecoy() exec.Vars { return exec.Vars{"x": "decoy", "zz": int64(7), "tbl": []any{"decoy"}} }
func decoyIntact() bool {
	ok := len(decoyVars) == 3 && decoyVars["x"] == "decoy" && decoyVars["zz"] == int64(7)
	if t, isArr := decoyVars["tbl"].([]any); !isArr || len(t) != 1 || t[0] != "decoy" {
		ok = false
	}
	decoyVars = newDecoy()
	return ok
}

func (o runOpts) options() []exec.Option {
	var opts []exec.Option
	if o.vars != nil {
		opts = append(opts, exec.WithVars(decoyVars), exec.WithVars(o.vars))
	}
	if o.silent {
		opts = append(opts, exec.WithSilent())
	}
	if o.useTZ {
		opts = append(opts, exec.WithTZ())
	}
	return opts
}

func (o runOpts) ctx() *pollCtx {
	base := context.Background()
	if o.tz != nil {
		base = types.ContextWithTZ(base, o.tz)
	}
	cause := o.cause
	if cause == nil {
		cause = context.Canceled
	}
	if o.k >= 0 && cause == context.Canceled {
		inner, cancel := context.WithCancelCause(base)
		return &pollCtx{Context: inner, k: o.k, cause: cause, cancelFn: cancel}
	}
	return &pollCtx{Context: base, k: o.k, cause: cause}
}

// result strings: (items J...) | (err CLASS) | (bool B) | (item J) | (noitem) | (panic "msg")
func runQuery(p *path.Path, doc any, o runOpts) (res string, polls int) {
	c := o.ctx()
	defer func() {
		polls = c.n
		if r := recover(); r != nil {
			res = fmt.Sprintf("(panic %s)", qs(fmt.Sprint(r)))
		}
	}()
	items, err := p.Query(c, doc, o.options()...)
	if err != nil {
		if items != nil {
			return "(err-with-items " + classify(err) + ")", c.n
		}
		return "(err " + classify(err) + ")", c.n
	}
	var b strings.Builder
	b.WriteString("(items")
	for _, it := range items {
		b.WriteByte(' ')
		dumpJSON(&b, it)
	}
	b.WriteByte(')')
	return b.String(), c.n
}

func runFirst(p *path.Path, doc any, o runOpts) (res string, polls int) {
	c := o.ctx()
	defer func() {
		polls = c.n
		if r := recover(); r != nil {
			res = fmt.Sprintf("(panic %s)", qs(fmt.Sprint(r)))
		}
	}()
	it, err := p.First(c, doc, o.options()...)
	if err != nil {
		if it != nil {
			return "(err-with-items " + classify(err) + ")", c.n
		}
		return "(err " + classify(err) + ")", c.n
	}
	return "(first " + jsonS(it) + ")", c.n
}

func runBool(which string, p *path.Path, doc any, o runOpts) (res string, polls int) {
	c := o.ctx()
	defer func() {
		polls = c.n
		if r := recover(); r != nil {
			res = fmt.Sprintf("(panic %s)", qs(fmt.Sprint(r)))
		}
	}()
	var (
		v   bool
		err error
	)
	switch which {
	case "exists":
		v, err = p.Exists(c, doc, o.options()...)
	case "match":
		v, err = p.Match(c, doc, o.options()...)
	default:
		v, err = p.ExistsOrMatch(c, doc, o.options()...)
	}
	if err != nil {
		if v {
			return "(err-with-items " + classify(err) + ")", c.n
		}
		return "(err " + classify(err) + ")", c.n
	}
	return fmt.Sprintf("(bool %v)", v), c.n
}

// decodeDoc decodes JSON text either to float64 or to json.Number numbers.
func decodeDoc(text string, useNumber bool) (any, error) {
	if !useNumber {
		// out of float64 range: only representable as json.Number
		text = strings.ReplaceAll(text, "1e400", "1e308")
	}
	d := json.NewDecoder(strings.NewReader(text))
	if useNumber {
		d.UseNumber()
	}
	var v any
	if err := d.Decode(&v); err != nil {
		return nil, err
	}
	return v, nil
}

// deep copy for the purity check
func deepCopy(v any) any {
	switch v := v.(type) {
	case []any:
		out := make([]any, len(v))
		for i, e := range v {
			out[i] = deepCopy(e)
		}
		return out
	case map[string]any:
		out := make(map[string]any, len(v))
		for k, e := range v {
			out[k] = deepCopy(e)
		}
		return out
	default:
		return v
	}
}

func hasWildcard(n ast.Node) bool {
	for ; !isNilNode(n); n = n.Next() {
		switch n := n.(type) {
		case *ast.ConstNode:
			if n.Const() == ast.ConstAnyKey {
				return true
			}
		case *ast.AnyNode:
			return true
		case *ast.BinaryNode:
			if hasWildcard(n.Left()) || hasWildcard(n.Right()) {
				return true
			}
		case *ast.UnaryNode:
			if hasWildcard(n.Operand()) {
				return true
			}
		case *ast.RegexNode:
			if hasWildcard(n.Operand()) {
				return true
			}
		case *ast.ArrayIndexNode:
			for _, s := range n.Subscripts() {
				if hasWildcard(s) {
					return true
				}
			}
		}
	}
	return false
}

func hasMultiObject(v any) bool {
	switch v := v.(type) {
	case []any:
		for _, e := range v {
			if hasMultiObject(e) {
				return true
			}
		}
	case map[string]any:
		if len(v) >= 2 {
			return true
		}
		for _, e := range v {
			if hasMultiObject(e) {
				return true
			}
		}
	}
	return false
}
