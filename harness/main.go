package main

// sjharness: generates cases, runs the implementation in /repo on them and
// writes one s-expression per case for the OCaml driver.
//
//   sjharness gen -family F -n N -seed S -out FILE

import (
	"bufio"
	"context"
	"encoding/json"
	"flag"
	"fmt"
	"math/rand"
	"os"
	"sort"
	"strings"
	"time"

	"github.com/theory/sqljson/path"
	"github.com/theory/sqljson/path/ast"
)

type caseSpec struct {
	family string
	text   string // path text
	doc    any
	vars   map[string]any
	useTZ  bool
	tzOff  int  // context zone: fixed offset seconds (0 = UTC)
	cancel bool // run the cancellation sweep
	note   string
	group  string // cases related by a property (C09, C10, C11): group id and role
	role   string
	// probe: a relation a property states between several executions on the SAME values in memory
	// (which the case file cannot carry); each finding is {property, clause, detail}
	probe  func(p *path.Path, cs caseSpec) [][3]string
	share  bool // the document has shared sub-values (shareEqual): recorded in the replay line
	intDoc bool // integral numbers of the document are int64 (intify): recorded in the replay line
}

type emitter struct {
	w        *bufio.Writer
	id       int
	skipped  int
	families map[string]int
}

func tzOf(off int) *time.Location {
	if off == 0 {
		return nil
	}
	return time.FixedZone("", off)
}

func varsS(vars map[string]any) string {
	keys := make([]string, 0, len(vars))
	for k := range vars {
		keys = append(keys, k)
	}
	sort.Strings(keys)
	var b strings.Builder
	b.WriteString("(vars")
	for _, k := range keys {
		fmt.Fprintf(&b, " (%s %s)", qs(k), jsonS(vars[k]))
	}
	b.WriteByte(')')
	return b.String()
}

func regexTable(a *ast.AST, doc any, vars map[string]any) string {
	var nodes []*ast.RegexNode
	regexNodes(a.Root(), &nodes)
	if len(nodes) == 0 {
		return "(re)"
	}
	subj := map[string]bool{}
	collectStrings(doc, subj)
	for _, v := range vars {
		collectStrings(v, subj)
	}
	pathStrings(a.Root(), subj)
	for _, s := range []string{"object", "array", "string", "number", "boolean", "null", "true", "false"} {
		subj[s] = true
	}
	subjects := make([]string, 0, len(subj))
	for s := range subj {
		subjects = append(subjects, s)
	}
	sort.Strings(subjects)
	var b strings.Builder
	b.WriteString("(re")
	seen := map[string]bool{}
	for _, n := range nodes {
		var sb strings.Builder
		dumpStep(&sb, n)
		// pattern and flags are the last two atoms of the dump; recompute directly
		re := n.Regexp()
		key := re.String()
		if seen[key] {
			continue
		}
		seen[key] = true
		pat, flags := regexFields(n)
		for _, s := range subjects {
			fmt.Fprintf(&b, " (%s %d %s %v)", qs(pat), flags, qs(s), re.MatchString(s))
		}
	}
	b.WriteByte(')')
	return b.String()
}

func (e *emitter) emit(cs caseSpec) {
	p, err := path.Parse(cs.text)
	if err != nil {
		e.skipped++
		return
	}
	var pathDump string
	func() {
		defer func() {
			if r := recover(); r != nil {
				if de, ok := r.(dumpErr); ok {
					pathDump = ""
					_ = de
					return
				}
				panic(r)
			}
		}()
		pathDump = pathS(p.AST)
	}()
	if pathDump == "" {
		e.skipped++
		return
	}
	e.id++
	e.families[cs.family]++
	unordered := hasWildcard(p.Root()) && (hasMultiObject(cs.doc) || func() bool {
		for _, v := range cs.vars {
			if hasMultiObject(v) {
				return true
			}
		}
		return false
	}())
	w := e.w
	fmt.Fprintf(w, "(case %d %s (text %s) %s (doc %s) %s (usetz %v) (tz %d) (unordered %v) %s (replay %s)",
		e.id, cs.family, qs(cs.text), pathDump, jsonS(cs.doc), varsS(cs.vars), cs.useTZ, cs.tzOff, unordered,
		regexTable(p.AST, cs.doc, cs.vars), qs(replayLine(cs)))
	if cs.group != "" {
		fmt.Fprintf(w, " (group %s %s)", qs(cs.group), qs(cs.role))
	}
	if cs.probe != nil {
		fmt.Fprintf(w, " (hprops")
		for _, f := range cs.probe(p, cs) {
			fmt.Fprintf(w, " (%s %s %s)", qs(f[0]), qs(f[1]), qs(f[2]))
		}
		fmt.Fprintf(w, ")")
	}
	fmt.Fprintf(w, " (runs")

	snapshot := jsonS(cs.doc) + varsS(cs.vars)
	oneRun := func(silent bool, k int, cause error) int {
		o := runOpts{vars: cs.vars, silent: silent, useTZ: cs.useTZ, tz: tzOf(cs.tzOff), k: k, cause: cause}
		causeName := "canceled"
		if cause == context.DeadlineExceeded {
			causeName = "deadline"
		}
		q, qp := runQuery(p, cs.doc, o)
		f, _ := runFirst(p, cs.doc, o)
		x, xp := runBool("exists", p, cs.doc, o)
		m, _ := runBool("match", p, cs.doc, o)
		em, _ := runBool("eom", p, cs.doc, o)
		fmt.Fprintf(w, " (run %v %d %s (query %s %d) (first %s) (exists %s %d) (match %s) (eom %s))",
			silent, k, causeName, q, qp, f, x, xp, m, em)
		if qp > xp {
			return qp
		}
		return xp
	}
	maxPolls := oneRun(false, -1, nil)
	oneRun(true, -1, nil)
	if cs.cancel {
		for k := 0; k <= maxPolls; k++ {
			oneRun(false, k, context.Canceled)
			oneRun(true, k, context.DeadlineExceeded)
		}
	}
	pure := snapshot == jsonS(cs.doc)+varsS(cs.vars)
	if !decoyIntact() {
		pure = false // the map of an earlier WithVars was written to
	}
	fmt.Fprintf(w, ") (pure %v))\n", pure)
}

func regexFields(n *ast.RegexNode) (string, uint64) {
	var sb strings.Builder
	_ = sb
	rv := reflectElem(n)
	return rv.FieldByName("pattern").String(), rv.FieldByName("flags").Uint()
}

func main() {
	if len(os.Args) < 2 || os.Args[1] != "gen" {
		fmt.Fprintln(os.Stderr, "usage: sjharness gen -family F -n N -seed S -out FILE")
		os.Exit(2)
	}
	fs := flag.NewFlagSet("gen", flag.ExitOnError)
	family := fs.String("family", "rand", "case family")
	n := fs.Int("n", 1000, "number of cases (random families)")
	seed := fs.Int64("seed", 1, "PRNG seed")
	out := fs.String("out", "cases.sexp", "output file")
	_ = fs.Parse(os.Args[2:])

	f, err := os.Create(*out)
	if err != nil {
		fmt.Fprintln(os.Stderr, err)
		os.Exit(2)
	}
	defer f.Close()
	w := bufio.NewWriterSize(f, 1<<20)
	defer w.Flush()

	e := &emitter{w: w, families: map[string]int{}}
	g := &gen{r: rand.New(rand.NewSource(*seed))}
	for _, fam := range strings.Split(*family, ",") {
		if strings.HasPrefix(fam, "file:") {
			famFile(e, strings.TrimPrefix(fam, "file:"))
			continue
		}
		fn, ok := families[fam]
		if !ok {
			fmt.Fprintf(os.Stderr, "unknown family %q\n", fam)
			os.Exit(2)
		}
		fn(g, e, *n)
	}
	fmt.Fprintf(os.Stderr, "emitted %d cases (%d unparsable skipped): %v\n", e.id, e.skipped, e.families)
}

// replayLine renders the inputs of a case as a corpus line (see famFile).
func replayLine(cs caseSpec) string {
	number := hasNumber(cs.doc)
	for _, v := range cs.vars {
		number = number || hasNumber(v)
	}
	fc := fileCase{Family: cs.family, Text: cs.text, Number: number, UseTZ: cs.useTZ, TZ: cs.tzOff, Cancel: cs.cancel, Group: cs.group, Role: cs.role, Share: cs.share, IntDoc: cs.intDoc}
	numDoc := hasNumber(cs.doc)
	fc.NumDoc = &numDoc
	numVars := []string{}
	for k, v := range cs.vars {
		if hasNumber(v) {
			numVars = append(numVars, k)
		}
	}
	sort.Strings(numVars)
	fc.NumVars = &numVars
	if b, err := json.Marshal(cs.doc); err == nil {
		fc.Doc = string(b)
	}
	for k, v := range cs.vars {
		if z, ok := v.(int64); ok {
			if fc.Int64Vars == nil {
				fc.Int64Vars = map[string]int64{}
			}
			fc.Int64Vars[k] = z
			continue
		}
		if fc.Vars == nil {
			fc.Vars = map[string]string{}
		}
		if b, err := json.Marshal(v); err == nil {
			fc.Vars[k] = string(b)
		}
	}
	b, _ := json.Marshal(fc)
	return string(b)
}

func hasNumber(v any) bool {
	switch v := v.(type) {
	case json.Number:
		return true
	case []any:
		for _, e := range v {
			if hasNumber(e) {
				return true
			}
		}
	case map[string]any:
		for _, e := range v {
			if hasNumber(e) {
				return true
			}
		}
	}
	return false
}
