package main

// Generators. Every random choice derives from one math/rand source seeded
// from VERIF_SEED.

import (
	"encoding/json"
	"fmt"
	"math/rand"
	"strings"
)

type gen struct {
	r *rand.Rand
}

func (g *gen) pick(xs ...string) string { return xs[g.r.Intn(len(xs))] }
func (g *gen) chance(p float64) bool    { return g.r.Float64() < p }

// weighted pick
func (g *gen) wpick(ws []int) int {
	tot := 0
	for _, w := range ws {
		tot += w
	}
	x := g.r.Intn(tot)
	for i, w := range ws {
		if x < w {
			return i
		}
		x -= w
	}
	return len(ws) - 1
}

var keyPool = []string{"a", "b", "c", "key", "value", "id"}
var varPool = []string{"x", "y", "n", "s", "arr", "obj", "missing"}
var strPool = []string{"a", "b", "abc", "ab", "", "1", "1.5", "true", "no", "x y", "2024-01-02", "12:34:56", "2024-01-02T03:04:05+01:00", "é", "A"}
var intPool = []string{"0", "1", "2", "3", "-1", "10", "2147483647", "2147483648", "-2147483648", "-2147483649", "9007199254740993", "9223372036854775807", "-9223372036854775807"}
var numPool = []string{"0.5", "1.5", "2.5", "-0.5", "1e300", "1e-7", "2.0", "0.1", "9223372036854775808.0", "1e19", "4294967296.5"}

type pctx struct {
	depth       int
	inFilter    bool
	inSubscript bool
}

func (g *gen) literal() string {
	switch g.wpick([]int{4, 2, 3, 1, 1, 1}) {
	case 0:
		return g.pick(intPool...)
	case 1:
		return g.pick(numPool...)
	case 2:
		return `"` + g.pick(strPool...) + `"`
	case 3:
		return "true"
	case 4:
		return "false"
	default:
		return "null"
	}
}

func (g *gen) primary(c pctx) string {
	ws := []int{6, 0, 3, 2, 0}
	if c.inFilter {
		ws[1] = 8
		ws[0] = 2
	}
	if c.inSubscript {
		ws[4] = 3
	}
	switch g.wpick(ws) {
	case 0:
		return "$"
	case 1:
		return "@"
	case 2:
		return g.literal()
	case 3:
		return "$" + g.pick(varPool...)
	default:
		return "last"
	}
}

var methodPool = []string{"type()", "size()", "double()", "number()", "integer()", "bigint()", "string()", "boolean()", "abs()", "floor()", "ceiling()", "keyvalue()"}
var dtMethodPool = []string{"datetime()", "date()", "time()", "time_tz()", "timestamp()", "timestamp_tz()", "time(2)", "timestamp(0)", "timestamp_tz(7)", `datetime("HH24")`}

func (g *gen) subscript(c pctx) string {
	c2 := c
	c2.depth--
	c2.inSubscript = true
	one := func() string {
		switch g.wpick([]int{6, 2, 2, 1, 1}) {
		case 0:
			return g.pick("0", "1", "2", "3", "-1", "5")
		case 1:
			return "last"
		case 2:
			return "last - " + g.pick("1", "2")
		case 3:
			return g.pick("0.5", "1.9", "-0.5", "2147483648", `"a"`, "true")
		default:
			if c2.depth > 0 {
				return g.expr(c2)
			}
			return "1"
		}
	}
	n := 1 + g.wpick([]int{6, 2, 1})
	parts := make([]string, n)
	for i := range parts {
		if g.chance(0.3) {
			parts[i] = one() + " to " + one()
		} else {
			parts[i] = one()
		}
	}
	return "[" + strings.Join(parts, ",") + "]"
}

func (g *gen) accessor(c pctx) string {
	ws := []int{10, 3, 5, 5, 2, 2, 4, 3, 1, 1}
	if c.depth <= 0 {
		ws[6] = 0
	}
	switch g.wpick(ws) {
	case 0:
		return "." + g.pick(keyPool...)
	case 1:
		return ".*"
	case 2:
		return "[*]"
	case 3:
		return g.subscript(c)
	case 4:
		return ".**"
	case 5:
		lv := func() string { return g.pick("0", "1", "2", "3", "last") }
		if g.chance(0.5) {
			return ".**{" + lv() + "}"
		}
		return ".**{" + lv() + " to " + lv() + "}"
	case 6:
		c2 := c
		c2.depth--
		c2.inFilter = true
		return " ? (" + g.pred(c2) + ")"
	case 7:
		return "." + g.pick(methodPool...)
	case 8:
		return "." + g.pick(dtMethodPool...)
	default:
		return "." + g.pick("decimal()", "decimal(5)", "decimal(5,2)", "decimal(2,0)", "decimal(3,-1)", "decimal(1001)", "decimal(5,1001)")
	}
}

func (g *gen) chainOf(c pctx, head string) string {
	n := g.wpick([]int{3, 5, 4, 2, 1})
	var b strings.Builder
	// a numeric literal that carries accessors must be parenthesised: "(1).abs()", "(-1)[0]"
	if n > 0 && head != "" && (head[0] == '-' || (head[0] >= '0' && head[0] <= '9')) {
		head = "(" + head + ")"
	}
	b.WriteString(head)
	for i := 0; i < n; i++ {
		b.WriteString(g.accessor(c))
	}
	return b.String()
}

func (g *gen) expr(c pctx) string {
	ws := []int{12, 3, 2, 2, 1}
	if c.depth <= 0 {
		ws = []int{1, 0, 0, 0, 0}
	}
	c2 := c
	c2.depth--
	switch g.wpick(ws) {
	case 0:
		return g.chainOf(c, g.primary(c))
	case 1:
		return g.expr(c2) + " " + g.pick("+", "-", "*", "/", "%") + " " + g.expr(c2)
	case 2:
		return g.pick("-", "+") + g.expr(c2)
	case 3:
		return g.chainOf(c, "("+g.expr(c2)+")") + g.accessor(c)
	default:
		return "(" + g.pred(c2) + ")" + g.accessor(c)
	}
}

func (g *gen) pred(c pctx) string {
	ws := []int{10, 3, 3, 3, 2, 2, 2, 2}
	if c.depth <= 0 {
		ws = []int{1, 0, 0, 0, 0, 0, 0, 0}
	}
	c2 := c
	c2.depth--
	switch g.wpick(ws) {
	case 0:
		return g.expr(c2) + " " + g.pick("==", "!=", "<", "<=", ">", ">=", "<>") + " " + g.expr(c2)
	case 1:
		return "exists(" + g.expr(c2) + ")"
	case 2:
		return g.predAtom(c2) + " && " + g.predAtom(c2)
	case 3:
		return g.predAtom(c2) + " || " + g.predAtom(c2)
	case 4:
		return "!(" + g.pred(c2) + ")"
	case 5:
		return "(" + g.pred(c2) + ") is unknown"
	case 6:
		if g.chance(0.3) {
			return g.expr(c2) + " starts with $" + g.pick("s", "arr", "missing")
		}
		return g.expr(c2) + ` starts with "` + g.pick("a", "ab", "", "x") + `"`
	default:
		re := g.expr(c2) + ` like_regex "` + g.pick("^a", "b$", "a.c", "A", "[0-9]+", "a b", ".", "^$") + `"`
		if g.chance(0.4) {
			re += ` flag "` + g.pick("i", "s", "m", "q", "iq", "ism") + `"`
		}
		return re
	}
}

func (g *gen) predAtom(c pctx) string {
	p := g.pred(c)
	if strings.Contains(p, "&&") || strings.Contains(p, "||") {
		return "(" + p + ")"
	}
	return p
}

func (g *gen) pathText() string {
	c := pctx{depth: 2 + g.r.Intn(2)}
	mode := g.pick("", "", "lax ", "strict ", "strict ")
	if g.chance(0.25) {
		return mode + g.pred(c)
	}
	return mode + g.expr(c)
}

// ---- documents ----

func (g *gen) scalarText() string {
	switch g.wpick([]int{2, 1, 1, 5, 3, 5}) {
	case 0:
		return "null"
	case 1:
		return "true"
	case 2:
		return "false"
	case 3:
		return g.pick("0", "1", "2", "3", "-1", "10", "1.5", "2.5", "-0.5", "1e300", "2147483648", "9007199254740993", "9223372036854775807", "9223372036854775808", "1e400", "0.1", "4.0", "-0")
	case 4:
		return g.pick("1", "2", "3")
	default:
		b, _ := json.Marshal(g.pick(strPool...))
		return string(b)
	}
}

func (g *gen) docText(depth int, single bool) string {
	ws := []int{5, 4, 4}
	if depth <= 0 {
		ws = []int{1, 0, 0}
	}
	switch g.wpick(ws) {
	case 0:
		return g.scalarText()
	case 1:
		n := g.wpick([]int{1, 3, 4, 3, 1})
		parts := make([]string, n)
		for i := range parts {
			parts[i] = g.docText(depth-1, single)
		}
		return "[" + strings.Join(parts, ",") + "]"
	default:
		n := g.wpick([]int{1, 4, 4, 2})
		if single && n > 1 {
			n = 1
		}
		perm := g.r.Perm(len(keyPool))
		parts := make([]string, n)
		for i := range parts {
			parts[i] = fmt.Sprintf("%q:%s", keyPool[perm[i]], g.docText(depth-1, single))
		}
		return "{" + strings.Join(parts, ",") + "}"
	}
}

func (g *gen) varsFor(useNumber bool, single bool) map[string]any {
	if g.chance(0.15) {
		return nil
	}
	vars := map[string]any{}
	dec := func(t string) any {
		v, err := decodeDoc(t, useNumber)
		if err != nil {
			panic(err)
		}
		return v
	}
	vars["x"] = dec(g.scalarText())
	vars["y"] = dec(g.scalarText())
	switch g.r.Intn(3) {
	case 0:
		vars["n"] = int64(g.r.Intn(5) - 1)
	case 1:
		vars["n"] = dec(g.pick("1", "2.5", "0"))
	default:
		vars["n"] = int64([]int64{9223372036854775807, -9223372036854775808, 2147483647, 1 << 53}[g.r.Intn(4)])
	}
	vars["s"] = g.pick(strPool...)
	vars["arr"] = dec(g.docText(1, single))
	if g.chance(0.5) {
		vars["arr"] = dec("[" + g.scalarText() + "," + g.scalarText() + "]")
	}
	vars["obj"] = dec(`{"a":` + g.docText(1, single) + `}`)
	return vars
}
