package main

import (
	"context"
	"encoding/json"
	"fmt"
	"math"
	"os"
	"reflect"
	"regexp"
	"sort"
	"strconv"
	"strings"

	"github.com/theory/sqljson/path"
	"github.com/theory/sqljson/path/exec"

	"github.com/theory/sqljson/path/ast"
)

func reflectElem(n *ast.RegexNode) reflect.Value { return reflect.ValueOf(n).Elem() }

type familyFn func(g *gen, e *emitter, n int)

var families = map[string]familyFn{}

func init() {
	families["rand"] = famRand
	families["sub"] = famSub
	families["desc"] = famDesc
	families["cmp"] = famCmp
	families["math"] = famMath
	families["meth"] = famMeth
	families["cancel"] = famCancel
	families["kleene"] = famKleene
	families["filter"] = famFilter
	families["struct"] = famStruct
	families["compose"] = famCompose
	families["group9"] = famGroup9
	families["group10"] = famGroup10
	families["group11"] = famGroup11
	families["pg"] = famPG
	families["ctx"] = famCtx
	families["dt"] = famDT
	families["kv"] = famKV
	// focused random families: paths of the general random generator that contain a given feature
	families["fsub"] = famFocus("fsub", `\[[^\]]*[a-z@$(.-][^\]]*\]`)                              // a subscript that is not a plain non-negative integer
	families["fkv"] = famFocus("fkv", `keyvalue\(\)[.\[ ]`)                                        // .keyvalue() followed by a further step
	families["fdt"] = famFocus("fdt", `\?.*(datetime|date|time|time_tz|timestamp|timestamp_tz)\(`) // a datetime method inside a filter
	families["fvar"] = famFocus("fvar", `\$[a-z]+(\.[a-z*]+|\[[^\]]*\])*\[[^\]]*@`)                // a variable-rooted operand subscripted by something that mentions @
	families["share"] = famShare
	families["walk"] = famWalk
}

func mustDoc(text string, useNumber bool) any {
	v, err := decodeDoc(text, useNumber)
	if err != nil {
		panic(fmt.Sprintf("bad doc %q: %v", text, err))
	}
	return v
}

// random paths on random documents
func famRand(g *gen, e *emitter, n int) {
	for i := 0; i < n; i++ {
		text := g.pathText()
		single := g.chance(0.6)
		useNumber := g.chance(0.4)
		doc := mustDoc(g.docText(3, single), useNumber)
		e.emit(caseSpec{family: "rand", text: text, doc: doc, vars: g.varsFor(useNumber, single), useTZ: g.chance(0.3)})
	}
}

// ---- C14: subscripts, exhaustive over small arrays ----
func famSub(g *gen, e *emitter, n int) {
	elems := []string{"null", "0", `"a"`, "[]", "[1]", "{}"}
	bounds := []string{"-2", "-1", "0", "1", "2", "3", "4", "6", "0.5", "1.9", "-0.5", "last", "last - 1", "last - 3", "last + 1"}
	var arrays []string
	var rec func(prefix []string, depth int)
	rec = func(prefix []string, depth int) {
		arrays = append(arrays, "["+strings.Join(prefix, ",")+"]")
		if depth == 0 {
			return
		}
		for _, el := range elems {
			rec(append(append([]string{}, prefix...), el), depth-1)
		}
	}
	rec(nil, 3)
	arrays = append(arrays, `"scalar"`, `{"a":1}`, `null`, `[null,null,1,null]`, `[[1,2],[3]]`)
	var subs []string
	for _, b := range bounds {
		subs = append(subs, b)
	}
	for _, a := range bounds {
		for _, b := range bounds {
			subs = append(subs, a+" to "+b)
		}
	}
	extra := []string{"0,1", "1,0", "0,0", "0 to 1,1", "5,0", "0,5", "last,0", "0,-1,1", `"a"`, "true", "null", "2147483647", "2147483648", "-2147483649", "$[0]", "$[*]", "$.size()", "$[last]", "0 to $[last]", "$.size() - 1", "1e10", "$[5]", "0,$[5],1"}
	subs = append(subs, extra...)
	total := len(arrays) * len(subs) * 2
	stride := 1
	if n > 0 && total > n {
		stride = total / n
	}
	idx := g.r.Intn(stride)
	cnt := 0
	for _, mode := range []string{"", "strict "} {
		for _, arr := range arrays {
			for _, sub := range subs {
				if cnt%stride == idx%stride {
					e.emit(caseSpec{family: "sub", text: mode + "$[" + sub + "]", doc: mustDoc(arr, cnt%3 == 0)})
				}
				cnt++
			}
		}
	}
	// subscripts followed by further steps, nested subscripts
	for _, t := range []string{"$[0][0]", "$[last][last]", "$[0 to last][0]", "$[*][last]", "$[$[0]]", "$[$[last]]", "strict $[0].a", "strict $[0,1].a", "$[0,1].a", "$[last ? (@ > 0)]", "$[0] ? (@ == null)", "$[0 to 1] ? (@[last] == 1)"} {
		for _, arr := range []string{`[1,{"a":2}]`, `[{"a":2},1]`, `[[1,2],[3,[4]]]`, `[null,1]`, `[0,1,2]`, `[]`} {
			e.emit(caseSpec{family: "sub", text: t, doc: mustDoc(arr, false)})
		}
	}
}

// ---- C15: wildcards and recursive descent over all small trees ----
func smallTrees(nodes int) []string {
	// all JSON trees with at most `nodes` nodes over scalars {1,"s"}, arrays and single-key objects
	memo := map[int][]string{}
	var build func(k int) []string
	build = func(k int) []string {
		if v, ok := memo[k]; ok {
			return v
		}
		var out []string
		if k == 1 {
			out = []string{"1", `"s"`, "[]", "{}"}
		} else {
			// arrays with children summing to k-1
			var seqs func(rem int) [][]string
			seqs = func(rem int) [][]string {
				if rem == 0 {
					return [][]string{{}}
				}
				var res [][]string
				for first := 1; first <= rem; first++ {
					for _, h := range build(first) {
						for _, tail := range seqs(rem - first) {
							res = append(res, append([]string{h}, tail...))
						}
					}
				}
				return res
			}
			for _, s := range seqs(k - 1) {
				out = append(out, "["+strings.Join(s, ",")+"]")
				if len(s) == 1 {
					out = append(out, `{"a":`+s[0]+`}`)
				}
			}
		}
		memo[k] = out
		return out
	}
	var all []string
	for k := 1; k <= nodes; k++ {
		all = append(all, build(k)...)
	}
	return all
}

func famDesc(g *gen, e *emitter, n int) {
	trees := smallTrees(4)
	levels := []string{"", "{0}", "{1}", "{2}", "{3}", "{last}", "{0 to 1}", "{1 to 2}", "{0 to last}", "{1 to last}", "{2 to last}", "{2 to 1}", "{0 to 0}", "{last to last}", "{1 to 3}"}
	tails := []string{"", ".a", "[0]", "[*]", ".*", ".type()", " ? (@ == 1)"}
	total := len(trees) * len(levels) * len(tails) * 2
	stride := 1
	if n > 0 && total > n {
		stride = total / n
	}
	idx := g.r.Intn(stride)
	cnt := 0
	for _, mode := range []string{"", "strict "} {
		for _, t := range trees {
			for _, lv := range levels {
				for _, tail := range tails {
					if cnt%stride == idx%stride {
						e.emit(caseSpec{family: "desc", text: mode + "$.**" + lv + tail, doc: mustDoc(t, false)})
					}
					cnt++
				}
			}
		}
	}
	for _, t := range trees {
		if cnt%stride == idx%stride || true {
			e.emit(caseSpec{family: "desc", text: "$.*", doc: mustDoc(t, false)})
			e.emit(caseSpec{family: "desc", text: "strict $[*]", doc: mustDoc(t, false)})
			e.emit(caseSpec{family: "desc", text: "$[*]", doc: mustDoc(t, false)})
			e.emit(caseSpec{family: "desc", text: "strict $.*", doc: mustDoc(t, false)})
		}
	}
	// wider documents
	for i := 0; i < 200; i++ {
		doc := mustDoc(g.docText(4, false), false)
		lv := levels[g.r.Intn(len(levels))]
		e.emit(caseSpec{family: "desc", text: g.pick("", "strict ") + "$.**" + lv + g.pick(tails...), doc: doc})
	}
	// a descent inside the condition of a filter that itself follows a descent (or a wildcard) and is
	// followed by an accessor: whatever the inner traversal does to the executor's state (the
	// structural-error flag, the level bookkeeping) must be undone before the outer accessor runs
	inner := []string{"exists(@.**%s.a)", "@.**%s.a == 1", "@.**%s[0] == 1", "exists(@.**%s ? (@.a == 1))", "@.**%s.b.a == 1", "exists(@.**%s.*)"}
	outer := []string{"$.**", "$.**{1}", "$.**{1 to 2}", "$.**{0 to last}", "$.*", "$[*]", "$.a.**", "$"}
	otails := []string{".a", ".b", "[0]", ".*", "[*]", "", ".a.b", ".**{1}.a"}
	for i := 0; i < 600; i++ {
		// nested containers over a two-key alphabet, so that the accessors fit often
		dt := g.docText(4+g.r.Intn(2), false)
		for try := 0; try < 30 && (len(dt) < 40 || (dt[0] != '{' && dt[0] != '[')); try++ {
			dt = g.docText(4+g.r.Intn(2), false)
		}
		dt = strings.NewReplacer(`"c":`, `"a":`, `"key":`, `"b":`, `"value":`, `"a":`, `"id":`, `"b":`).Replace(dt)
		doc := mustDoc(dt, false)
		cond := fmt.Sprintf(inner[g.r.Intn(len(inner))], levels[g.r.Intn(len(levels))])
		if g.r.Intn(4) == 0 {
			cond = cond + g.pick(" && ", " || ") + fmt.Sprintf(inner[g.r.Intn(len(inner))], levels[g.r.Intn(len(levels))])
		}
		mode := "strict "
		if g.r.Intn(4) == 0 {
			mode = ""
		}
		e.emit(caseSpec{family: "desc", text: mode + g.pick(outer...) + " ? (" + cond + ")" + g.pick(otails...), doc: doc})
	}
}

// ---- C12: comparisons over a value corpus ----
var cmpCorpus = []struct {
	text   string
	number bool // decode with UseNumber
}{
	{"null", false}, {"true", false}, {"false", false},
	{"0", false}, {"0", true}, {"-0.0", false}, {"1", false}, {"1", true}, {"1.0", true}, {"1.5", false}, {"1.5", true},
	{"-1", false}, {"-1", true}, {"2", false}, {"1e300", false}, {"1e300", true}, {"1e400", true}, {"-1e400", true},
	{"9007199254740992", false}, {"9007199254740992", true}, {"9007199254740993", true}, {"9007199254740993", false},
	{"9223372036854775807", true}, {"9223372036854775807", false}, {"9223372036854775808", true}, {"-9223372036854775808", true},
	{"0.1", false}, {"0.1", true}, {"1e-400", true},
	{`""`, false}, {`"a"`, false}, {`"A"`, false}, {`"ab"`, false}, {`"b"`, false}, {`"é"`, false}, {`"1"`, false},
	{"[]", false}, {"[1]", false}, {"[1,2]", false}, {`["a",1]`, false}, {"[null]", false}, {"{}", false}, {`{"a":1}`, false}, {"[[1]]", false},
}

func corpusValue(i int) any { return mustDoc(cmpCorpus[i].text, cmpCorpus[i].number) }

func famCmp(g *gen, e *emitter, n int) {
	ops := []string{"==", "!=", "<", "<=", ">", ">="}
	int64s := []any{int64(0), int64(1), int64(-1), int64(9007199254740993), int64(9007199254740992), int64(9223372036854775807), int64(-9223372036854775808)}
	var vals []any
	for i := range cmpCorpus {
		vals = append(vals, corpusValue(i))
	}
	vals = append(vals, int64s...)
	total := len(vals) * len(vals)
	stride := 1
	if n > 0 && total*2*len(ops) > n {
		stride = total * 2 * len(ops) / n
	}
	idx := g.r.Intn(stride)
	cnt := 0
	for _, mode := range []string{"", "strict "} {
		for _, a := range vals {
			for _, b := range vals {
				if cnt%stride == idx%stride {
					// all six operators in one path: a list of predicates as array of results
					for _, op := range ops {
						e.emit(caseSpec{family: "cmp", text: mode + "$x " + op + " $y", doc: nil, vars: map[string]any{"x": a, "y": b}})
					}
				}
				cnt++
			}
		}
	}
	// datetime items under WithTZ in fixed-offset context zones: the same order axioms across the five types
	dts := []string{"2024-01-02", "2024-01-01", "12:34:56", "12:34:56.5", "12:34:56+01", "11:34:56.5-08:00", "17:04:56+05:30", "2024-01-02T00:00:00", "2024-01-01T18:30:00",
		"2024-01-02T03:04:05", "2024-01-02T00:00:00+05:30", "2024-01-01T18:30:00Z", "2024-01-02T03:04:05-08:00", "2024-01-02T08:00:00Z", "nope"}
	for _, tz := range []int{19800, -28800} {
		for _, mode := range []string{"", "strict "} {
			for _, a := range dts {
				for _, b := range dts {
					for _, op := range ops {
						e.emit(caseSpec{family: "cmp", text: mode + "$x.datetime() " + op + " $y.datetime()", vars: map[string]any{"x": a, "y": b}, useTZ: true, tzOff: tz})
					}
				}
			}
		}
	}
	// starts with / like_regex
	strs := []any{"", "a", "ab", "abc", "b", "A", "é", "a\nb", int64(1), nil, []any{"ab", "b"}, []any{"x", "ab"}, "ΟΔΥΣΣΕΥΣ", "Meſſer", "İstanbul", "\u212a", "100%", "%d"}
	for _, mode := range []string{"", "strict "} {
		for _, a := range strs {
			for _, b := range strs {
				e.emit(caseSpec{family: "cmp", text: mode + "$x starts with $y", vars: map[string]any{"x": a, "y": b}})
			}
			for _, lit := range []string{"", "a", "ab"} {
				e.emit(caseSpec{family: "cmp", text: mode + `$x starts with "` + lit + `"`, vars: map[string]any{"x": a}})
			}
			for _, re := range []string{`"ς" flag "iq"`, `"ss" flag "iq"`, `"i" flag "iq"`, `"k" flag "i"`, `"σ" flag "i"`, `"S" flag "iq"`, `"100%" flag "q"`, `"%d"`,
				`"^a"`, `"b$"`, `"A" flag "i"`, `"a.b" flag "s"`, `"^b" flag "m"`, `"a.b"`, `"." flag "q"`, `"A" flag "iq"`, `"^b"`} {
				e.emit(caseSpec{family: "cmp", text: mode + "$x like_regex " + re, vars: map[string]any{"x": a}})
			}
		}
	}
	// sequences
	seqs := []string{"[1,2,3]", `[1,"a"]`, `["a",1]`, "[null,1]", "[[1],2]", "[]", `[1,{"a":1}]`, "[2,1,2]"}
	for _, mode := range []string{"", "strict "} {
		for _, a := range seqs {
			for _, b := range seqs {
				for _, op := range []string{"==", "<", ">="} {
					e.emit(caseSpec{family: "cmp", text: mode + "$x[*] " + op + " $y[*]", vars: map[string]any{"x": mustDoc(a, false), "y": mustDoc(b, false)}})
				}
			}
		}
	}
}

// ---- C13: arithmetic over a boundary grid ----
var numGrid = []string{"0", "1", "-1", "2", "3", "-3", "7", "2147483647", "-2147483648", "2147483648", "9007199254740992", "9007199254740993",
	"9223372036854775807", "-9223372036854775807", "4611686018427387904", "3037000500", "0.5", "1.5", "-2.5", "1e300", "-1e300", "1e-300", "0.1", "1e308"}

func gridValues() []any {
	var vals []any
	for _, t := range numGrid {
		vals = append(vals, mustDoc(t, false), mustDoc(t, true))
		if !strings.ContainsAny(t, ".e") {
			var z int64
			fmt.Sscan(t, &z)
			vals = append(vals, z)
		}
	}
	vals = append(vals, int64(-9223372036854775808), mustDoc("9223372036854775808", true), mustDoc("-9223372036854775808", true), mustDoc("1e400", true), mustDoc("-0.0", false))
	return vals
}

func famMath(g *gen, e *emitter, n int) {
	vals := gridValues()
	ops := []string{"+", "-", "*", "/", "%"}
	total := len(vals) * len(vals) * len(ops)
	stride := 1
	if n > 0 && total > n {
		stride = total / n
	}
	idx := g.r.Intn(stride)
	cnt := 0
	for _, a := range vals {
		for _, b := range vals {
			for _, op := range ops {
				if cnt%stride == idx%stride {
					e.emit(caseSpec{family: "math", text: "$x " + op + " $y", vars: map[string]any{"x": a, "y": b}})
				}
				cnt++
			}
		}
		e.emit(caseSpec{family: "math", text: "-$x", vars: map[string]any{"x": a}})
		e.emit(caseSpec{family: "math", text: "+$x", vars: map[string]any{"x": a}})
		e.emit(caseSpec{family: "math", text: "-(-$x)", vars: map[string]any{"x": a}})
		e.emit(caseSpec{family: "math", text: "$x.abs()", vars: map[string]any{"x": a}})
	}
	// literals
	for _, a := range []string{"9223372036854775807", "1", "0", "2.5", "-9223372036854775807", "4.0"} {
		for _, b := range []string{"1", "0", "2", "-1", "0.0", "9223372036854775807"} {
			for _, op := range ops {
				e.emit(caseSpec{family: "math", text: a + " " + op + " " + b})
			}
		}
	}
	// operand sequences
	for _, doc := range []string{"[1,2]", "[[1,2]]", "[1]", "[]", `["a"]`, "3", `{"a":[1,2]}`, "[null]", "[[1]]", "[1,10,-3]", `{"a":[1,10,-3]}`, `[1,"x",5]`} {
		for _, mode := range []string{"", "strict "} {
			for _, t := range []string{"$ + 1", "1 + $", "$[*] + 1", "-$", "-$[*]", "+$", "$ * $", "$.a + 1", "-$.a", "$[0] / 0", "$[0] % 0", "$[0] / 0.0", "-$[*].a", "(-$)[0]", "-$ == -1",
				// a unary operator applies to EVERY item, also when only existence is asked for
				"(-$[*]) ? (@ < -1)", "(-$[*]) ? (@ > -2)", "(+$[*]) ? (@ > 1)", "exists((-$[*]) ? (@ < -1))", "(-$.a[*]) ? (@ < -1)", "$ ? (exists((-@[*]) ? (@ < -1)))", "(-$[*]).abs() ? (@ > 1)"} {
				e.emit(caseSpec{family: "math", text: mode + t, doc: mustDoc(doc, false)})
			}
		}
	}
}

// ---- C16: item methods over the boundary grid in three forms ----
func famMeth(g *gen, e *emitter, n int) {
	methods := []string{"type()", "size()", "double()", "number()", "integer()", "bigint()", "string()", "boolean()", "abs()", "floor()", "ceiling()",
		"decimal()", "decimal(5)", "decimal(5,2)", "decimal(2,0)", "decimal(3,-1)", "decimal(1,1)", "decimal(10,5)", "decimal(1000,1000)", "decimal(0)", "decimal(1001)", "decimal(5,1001)", "decimal(5,-1001)", "decimal(2147483648)", "decimal(20,10)"}
	grid := []string{"0", "1", "-1", "2147483647", "2147483648", "-2147483648", "-2147483649", "2147483647.5", "2147483647.4", "-2147483648.5", "9007199254740993",
		"9223372036854775807", "9223372036854775808", "-9223372036854775808", "-9223372036854775809", "9223372036854774784", "1e19", "0.5", "1.5", "2.5", "-0.5", "-1.5", "99.5", "100", "99", "0.05", "12345.678",
		"1e300", "1e-300", "1e400", "0.1", "123456789012345678", "1e21", "1e-7"}
	var vals []any
	for _, t := range grid {
		if t != "1e400" {
			vals = append(vals, mustDoc(t, false))
		}
		vals = append(vals, mustDoc(t, true), t)
	}
	others := []any{nil, true, false, "", "abc", " 1", "1 ", "+1", "1_000", "0x10", "inf", "-Infinity", "NaN", "nan", "1e", "t", "T", "true", "TRUE", "tRuE", "f", "false", "y", "yes", "YES", "n", "no", "on", "off", "ON", "o", "0", "1", "2", "tr", "yess", "falſe",
		[]any{float64(1), "2", nil}, []any{}, map[string]any{"a": float64(1)}, map[string]any{}, int64(5), int64(-9223372036854775808), int64(9223372036854775807), []any{[]any{float64(1)}}}
	vals = append(vals, others...)
	total := len(vals) * len(methods) * 2
	stride := 1
	if n > 0 && total > n {
		stride = total / n
	}
	idx := g.r.Intn(stride)
	cnt := 0
	for _, mode := range []string{"", "strict "} {
		for _, v := range vals {
			for _, m := range methods {
				if cnt%stride == idx%stride {
					e.emit(caseSpec{family: "meth", text: mode + "$x." + m, vars: map[string]any{"x": v}})
				}
				cnt++
			}
		}
	}
	// .string() then the matching method
	for _, v := range vals {
		for _, m := range []string{"double()", "number()", "integer()", "bigint()", "boolean()"} {
			e.emit(caseSpec{family: "meth", text: "$x.string()." + m, vars: map[string]any{"x": v}})
			e.emit(caseSpec{family: "meth", text: "$x." + m + " == $x.string()." + m, vars: map[string]any{"x": v}})
		}
	}
	// a method applied to the result of arithmetic (which may overflow to a non-finite double, or wrap)
	for _, t := range []string{"1e308", "1e300", "9223372036854775807", "2147483647", "0.5", "-1e308", "3"} {
		for _, num := range []bool{false, true} {
			for _, ex := range []string{"($x * 10)", "($x * $x)", "(-$x)", "($x / 3)", "($x * 10 - $x * 10)", "($x + 1)"} {
				for _, m := range []string{"double()", "number()", "integer()", "bigint()", "string()", "abs()", "floor()", "decimal(5,2)", "type()"} {
					e.emit(caseSpec{family: "meth", text: ex + "." + m, vars: map[string]any{"x": mustDoc(t, num)}})
				}
			}
		}
	}
	// keyvalue
	kvDocs := []string{`{"a":1}`, `{"a":1,"b":2}`, `{"b":{"c":1},"a":{"d":2}}`, `[{"a":1},{"a":1}]`, `{}`, `[{}]`, `[[{"a":1}]]`, `{"a":{"b":{"c":1}}}`, `1`, `[1]`}
	kvPaths := []string{"$.keyvalue()", "$[*].keyvalue()", "$.keyvalue().value.keyvalue()", "$.keyvalue().id", "$.*.keyvalue()", "$.keyvalue().key", "$.keyvalue().value.keyvalue().value.keyvalue()",
		"$o.keyvalue()", "$o.keyvalue().id", "$.keyvalue() ? (@.id == 0)", "$[*].keyvalue().id", "strict $.keyvalue()", "strict $[*].keyvalue()", "$.**.keyvalue()"}
	for _, d := range kvDocs {
		for _, pth := range kvPaths {
			e.emit(caseSpec{family: "meth", text: pth, doc: mustDoc(d, false), vars: map[string]any{"o": mustDoc(`{"z":{"y":1},"w":2}`, false)}})
		}
	}
}

// ---- C20: cancellation at every poll ----
func famCancel(g *gen, e *emitter, n int) {
	pool := []struct{ p, d string }{
		{"$", "1"}, {"$.a", `{"a":1}`}, {"$.a.b", `{"a":{"b":1}}`}, {"$[*]", "[1,2,3]"}, {"$[*].a", `[{"a":1},{"a":2}]`},
		{"$.**", `{"a":[1,{"b":2}]}`}, {"$.**{1 to 2}.b", `{"a":[1,{"b":2}]}`}, {"$[0,1]", "[1,2]"}, {"$[last]", "[1,2]"}, {"$[0 to last]", "[1,2,3]"},
		{"$[*] ? (@ > 1)", "[1,2,3]"}, {"$[*] ? (@.a == 1)", `[{"a":1},{"a":2}]`}, {"($.a == 1) is unknown", `{"a":1}`}, {"($.a == 1) is unknown", `{"b":1}`},
		{"exists($.a)", `{"a":1}`}, {"!($.a == 1)", `{"a":1}`}, {"$.a == 1 && $.b == 2", `{"a":1,"b":2}`}, {"$.a == 1 || $.b == 2", `{"a":3,"b":2}`},
		{"$ ? (exists(@.a))", `{"a":1}`}, {"$ ? ((@.a == 1) is unknown)", `{"a":1}`}, {"$ ? (!(@.a == 1))", `{"a":2}`},
		{"$.a + $.b", `{"a":1,"b":2}`}, {"-$.a", `{"a":1}`}, {"$.a.type()", `{"a":1}`}, {"$.a.size()", `{"a":[1]}`}, {"$[*].double()", `[1,"2"]`},
		{"$.keyvalue()", `{"a":1,"b":2}`}, {"$.keyvalue().value", `{"a":1,"b":2}`}, {"$x", "1"}, {"$x.a", "1"}, {"$.a starts with \"a\"", `{"a":"ab"}`},
		{"$.a like_regex \"^a\"", `{"a":"ab"}`}, {"$.d.datetime()", `{"d":"2024-01-02"}`}, {"$.d.datetime() < $.e.datetime()", `{"d":"2024-01-02","e":"2024-01-03"}`},
		{"strict $.a", `{"a":1}`}, {"strict $[*] ? (@ > 1)", "[1,2,3]"}, {"strict $.**", `[[1]]`}, {"strict exists($.a)", `{"a":1}`},
		{"$[*] ? (@ > 1) ? (@ < 3)", "[1,2,3]"}, {"$[$.i]", `[1,2]`}, {"$.a[$.i]", `{"a":[1,2],"i":1}`}, {"$.*", `{"a":1}`}, {"$.a.decimal(5,2)", `{"a":1.234}`},
		{"1 + 2", "null"}, {"\"a\"", "null"}, {"null", "null"}, {"true", "null"}, {"$ ? (@ == $x.a)", "1"},
		{"(($.a == 1) is unknown) is unknown", `{"a":1}`}, {"exists($ ? ((@.a == 1) is unknown))", `{"a":1}`},
		{"$ ? (exists(@ ? (@.a == 1)))", `{"a":1}`}, {"$[*] ? ((@ > 1) is unknown) ", "[1,2]"},
	}
	for i, pd := range pool {
		if n > 0 && i >= n {
			break
		}
		e.emit(caseSpec{family: "cancel", text: pd.p, doc: mustDoc(pd.d, false), vars: map[string]any{"x": mustDoc(`{"a":1}`, false)}, cancel: true})
	}
	// random ones
	for i := 0; i < n/4; i++ {
		doc := mustDoc(g.docText(2, true), false)
		e.emit(caseSpec{family: "cancel", text: g.pathText(), doc: doc, vars: g.varsFor(false, true), cancel: true})
	}
}

// ---- C11: Kleene connectives with every operand outcome ----
func famKleene(g *gen, e *emitter, n int) {
	// atoms with a known outcome on doc {"t":true,"f":false,"n":null,"s":"a","one":1}
	atoms := map[string][]string{
		"T": {"$.one == 1", `$.s starts with "a"`, "exists($.t)", "$.t == true"},
		"F": {"$.one == 2", `$.s starts with "b"`, "exists($.zz)", "$.t == false"},
		"U": {`$.one == "a"`, "$.s starts with 1", "$.s.double() > 0", `$.one like_regex "a"`},
		"E": {"$.one == $missing", "$missing == 1", `$.s.datetime("x") == 1`},
	}
	doc := `{"t":true,"f":false,"n":null,"s":"a","one":1}`
	outs := []string{"T", "F", "U", "E"}
	for _, mode := range []string{"", "strict "} {
		for _, a := range outs {
			for _, pa := range atoms[a] {
				for _, form := range []string{"!(%s)", "(%s) is unknown", "!(!(%s))", "((%s) is unknown) is unknown", "!((%s) is unknown)"} {
					p := fmt.Sprintf(form, pa)
					e.emit(caseSpec{family: "kleene", text: mode + p, doc: mustDoc(doc, false)})
					e.emit(caseSpec{family: "kleene", text: mode + "$ ? (" + p + ")", doc: mustDoc(doc, false)})
				}
				for _, b := range outs {
					pb := atoms[b][g.r.Intn(len(atoms[b]))]
					for _, form := range []string{"%s && %s", "%s || %s", "!(%s && %s)", "!(%s) || !(%s)", "!(%s || %s)", "!(%s) && !(%s)", "(%s && %s) is unknown", "(%s || %s) is unknown"} {
						p := fmt.Sprintf(form, pa, pb)
						e.emit(caseSpec{family: "kleene", text: mode + p, doc: mustDoc(doc, false)})
						e.emit(caseSpec{family: "kleene", text: mode + "$ ? (" + p + ")", doc: mustDoc(doc, false)})
					}
				}
			}
		}
	}
	// exists
	for _, mode := range []string{"", "strict "} {
		for _, ex := range []string{"exists($.a)", "exists($.zz)", "exists($[*].a)", "exists($.a[*])", "exists($[5])", "exists($.a.b)", "exists($ ? (@.a == 1))", "exists($.a.double())", "exists($missing)", "exists($[*] ? (@ > 1))", "exists(-$.s)", "exists($.s.integer())"} {
			for _, d := range []string{`{"a":1}`, `{"a":[1,2]}`, `[{"a":1},2]`, `[2,{"a":1}]`, `{"s":"x"}`, `[]`, `{"a":{"b":1}}`, `[1,2]`} {
				e.emit(caseSpec{family: "kleene", text: mode + ex, doc: mustDoc(d, false)})
				e.emit(caseSpec{family: "kleene", text: mode + "$ ? (" + strings.ReplaceAll(ex, "$", "@") + ")", doc: mustDoc(d, false)})
			}
		}
	}
	// random condition pairs on random documents
	for i := 0; i < n; i++ {
		c := pctx{depth: 1}
		p, q := g.predAtom(c), g.predAtom(c)
		doc := mustDoc(g.docText(2, true), g.chance(0.3))
		vars := g.varsFor(false, true)
		mode := g.pick("", "strict ")
		for _, form := range []string{"%s && %s", "%[2]s && %[1]s", "%s || %s", "%[2]s || %[1]s", "!(%s && %s)", "!(%s) || !(%s)", "!(!(%[1]s))", "%[1]s", "(%[1]s) is unknown"} {
			e.emit(caseSpec{family: "kleene", text: mode + fmt.Sprintf(form, p, q), doc: doc, vars: vars})
		}
	}
}

// ---- C10: filters ----
func famFilter(g *gen, e *emitter, n int) {
	conds := []string{"@ > 1", "@ == 1", "@.a == 1", "@.a > 1", "exists(@.a)", `@ starts with "a"`, `@ like_regex "^a"`, "@.a == 1 && @.b == 2", "@.a == 1 || @.b == 2", "!(@ == 1)", "(@ == 1) is unknown",
		"@.double() > 0", "@.a.double() > 0", "@ == $missing", "exists(@.a) && @.a == $missing", "@[*] > 1", "@ ? (@ > 1) == 2", "exists(@ ? (@ > 1))", "@.size() > 1", "@.type() == \"number\"", "@ == null", "@ != null", "@[0] == 1", "@[last] > 0", "@.a[*] ? (@ > 1) > 2"}
	prefixes := []string{"$", "$[*]", "$.a", "$.a[*]", "$.*", "$[0 to 1]", "$.**{1}"}
	docs := []string{`[1,2,3]`, `[1,"a",null,2]`, `[{"a":1},{"a":2},{"b":2}]`, `[{"a":"x"},{"a":1}]`, `[{"a":1},{"a":"x"}]`, `{"a":[1,2,3]}`, `{"a":1}`, `[[1,2],[3]]`, `[{"a":1,"b":2},{"a":1}]`, `["ab","b",1]`, `[]`, `1`, `[null]`, `{"a":[{"a":[1,5]},2]}`}
	for i := 0; i < 60; i++ {
		docs = append(docs, g.docText(3, true))
	}
	total := len(conds) * len(prefixes) * len(docs) * 2
	stride := 1
	if n > 0 && total > n {
		stride = total / n
	}
	idx := g.r.Intn(stride)
	cnt := 0
	for _, mode := range []string{"", "strict "} {
		for _, pre := range prefixes {
			for _, c := range conds {
				for _, d := range docs {
					if cnt%stride == idx%stride {
						doc := mustDoc(d, false)
						e.emit(caseSpec{family: "filter", text: mode + pre + " ? (" + c + ")", doc: doc})
						e.emit(caseSpec{family: "filter", text: mode + pre, doc: doc})
						if cnt%3 == 0 {
							c2 := conds[(cnt/3)%len(conds)]
							e.emit(caseSpec{family: "filter", text: mode + pre + " ? (" + c + ") ? (" + c2 + ")", doc: doc})
							e.emit(caseSpec{family: "filter", text: mode + pre + " ? ((" + c + ") && (" + c2 + "))", doc: doc})
						}
					}
					cnt++
				}
			}
		}
	}
}

// ---- C07: structural mismatches at every position ----
func famStruct(g *gen, e *emitter, n int) {
	steps := []string{".a", ".b", ".*", "[*]", ".**", "[0]", "[1]", "[last]", "[0 to 1]", "[0,1]", "[1,0]", "[5]", "[0 to 5]", ".**{1}", ".**{last}", " ? (@.a == 1)", " ? (@ > 0)", " ? (exists(@.a))", "[last - 1]"}
	good := map[string]any{"a": float64(1)}
	bads := []any{float64(1), "s", nil, []any{}, map[string]any{}, []any{float64(7)}, map[string]any{"b": float64(2)}, []any{map[string]any{"a": float64(1)}, float64(3)}}
	mkdocs := func() []any {
		var docs []any
		for size := 1; size <= 3; size++ {
			for pos := 0; pos < size; pos++ {
				for _, bad := range bads {
					arr := make([]any, size)
					for i := range arr {
						arr[i] = deepCopy(good)
					}
					arr[pos] = bad
					docs = append(docs, arr)
				}
			}
		}
		docs = append(docs, map[string]any{"a": []any{map[string]any{"a": float64(1)}, float64(2)}}, map[string]any{"a": map[string]any{"a": float64(1)}}, float64(1), []any{}, map[string]any{})
		return docs
	}
	docs := mkdocs()
	var paths []string
	for _, s1 := range steps {
		paths = append(paths, "$"+s1)
		for _, s2 := range steps {
			paths = append(paths, "$"+s1+s2)
		}
	}
	for i := 0; i < 150; i++ {
		p := "$"
		for k := 0; k < 3; k++ {
			p += g.pick(steps...)
		}
		paths = append(paths, p)
	}
	total := len(paths) * len(docs) * 2
	stride := 1
	if n > 0 && total > n {
		stride = total / n
	}
	idx := g.r.Intn(stride)
	cnt := 0
	for _, mode := range []string{"", "strict "} {
		for _, p := range paths {
			for _, d := range docs {
				if cnt%stride == idx%stride {
					e.emit(caseSpec{family: "struct", text: mode + p, doc: d})
				}
				cnt++
			}
		}
	}
}

// ---- C09: composition; the driver relates P·S to P and $·S via the model/spec,
// here we only need chains with variable/literal starts and context-sensitive steps ----
func famCompose(g *gen, e *emitter, n int) {
	fixed := []string{
		"$[*] ? (@.a[*] ? (@ > 1) > 0).a", "$[*] ? (@[last] == 2)[last]", "$[0 to last][last]", "$.a[$.i]", "$[*] ? (exists(@ ? (@.a == 1))).a",
		"$ ? (@.a == 1).b", "$.a ? (@ > $.b)", "$[*] ? (@ > $[0])", "$[last][last - 1]", "$[$[last]]", "$x.a", "$x[*].a", "$arr[last]", "$obj.a.size()", "\"abc\".type()", "1.5.floor()", "(1).type()",
		"$x.keyvalue()", "$obj.keyvalue().value", "$.keyvalue().value.a", "$[*].keyvalue().key", "$[0 to 1][*] ? (@ == $[last])", "$.a[*] ? (@ == $.a[last])", "$[*][last ? (@ > 0)]",
	}
	for _, t := range fixed {
		for i := 0; i < 12; i++ {
			single := true
			doc := mustDoc(g.docText(3, single), false)
			e.emit(caseSpec{family: "compose", text: g.pick("", "strict ") + t, doc: doc, vars: g.varsFor(false, single)})
		}
		for _, d := range []string{`[[1,2],[2,2],[0]]`, `{"a":[1,2,3],"i":1,"b":1}`, `[{"a":[1,2]},{"a":[0]}]`, `[[2,1],[1,2]]`, `{"a":1,"b":2}`, `[1,2,1]`} {
			e.emit(caseSpec{family: "compose", text: t, doc: mustDoc(d, false), vars: g.varsFor(false, true)})
		}
	}
	for i := 0; i < n; i++ {
		c := pctx{depth: 2}
		head := g.pick("$", "$", "$x", "$arr", "$obj")
		text := g.pick("", "strict ") + g.chainOf(c, head) + g.accessor(c)
		e.emit(caseSpec{family: "compose", text: text, doc: mustDoc(g.docText(3, true), false), vars: g.varsFor(false, true)})
	}
}

var _ = json.Marshal

// ---- corpus / replay: cases read from a JSON-lines file ----
// {"family":"corpus","text":"$[0]","doc":"[null,1]","number":false,"vars":{"x":"1"},"int64vars":{"n":5},"usetz":false,"tz":0,"cancel":false}
type fileCase struct {
	Family    string            `json:"family"`
	Text      string            `json:"text"`
	Doc       string            `json:"doc"`
	Number    bool              `json:"number"`
	Vars      map[string]string `json:"vars"`
	Int64Vars map[string]int64  `json:"int64vars"`
	UseTZ     bool              `json:"usetz"`
	TZ        int               `json:"tz"`
	Cancel    bool              `json:"cancel"`
	Group     string            `json:"group,omitempty"`
	Role      string            `json:"role,omitempty"`
	// per-value number representation (replays): when present they override Number —
	// the document / exactly the listed variables are decoded with UseNumber (json.Number), the rest as float64
	IntDoc  bool      `json:"intdoc,omitempty"` // integral float64 values of the document become int64 (see intify)
	Share   bool      `json:"share,omitempty"`  // rebuild the document with deeply equal containers shared (see shareEqual)
	NumDoc  *bool     `json:"numdoc,omitempty"`
	NumVars *[]string `json:"numvars,omitempty"`
}

func famFile(e *emitter, path string) {
	data, err := os.ReadFile(path)
	if err != nil {
		fmt.Fprintln(os.Stderr, err)
		os.Exit(2)
	}
	for _, line := range strings.Split(string(data), "\n") {
		line = strings.TrimSpace(line)
		if line == "" || strings.HasPrefix(line, "#") {
			continue
		}
		var fc fileCase
		if err := json.Unmarshal([]byte(line), &fc); err != nil {
			fmt.Fprintf(os.Stderr, "bad corpus line %q: %v\n", line, err)
			os.Exit(2)
		}
		if fc.Family == "" {
			fc.Family = "corpus"
		}
		if fc.Doc == "" {
			fc.Doc = "null"
		}
		var vars map[string]any
		if fc.Vars != nil || fc.Int64Vars != nil {
			vars = map[string]any{}
			for k, v := range fc.Vars {
				num := fc.Number
				if fc.NumVars != nil {
					num = false
					for _, n := range *fc.NumVars {
						num = num || n == k
					}
				}
				vars[k] = mustDoc(v, num)
			}
			for k, v := range fc.Int64Vars {
				vars[k] = v
			}
		}
		numDoc := fc.Number
		if fc.NumDoc != nil {
			numDoc = *fc.NumDoc
		}
		cs := caseSpec{family: fc.Family, text: fc.Text, doc: mustDoc(fc.Doc, numDoc), vars: vars, useTZ: fc.UseTZ, tzOff: fc.TZ, cancel: fc.Cancel,
			group: fc.Group, role: fc.Role}
		if fc.Family == "kv" {
			cs.probe = kvRouteProbe
		}
		if fc.IntDoc {
			cs.doc = intify(cs.doc)
			cs.intDoc = true
		}
		if fc.Share {
			cs.doc = shareEqual(cs.doc, map[string]any{})
			cs.share = true
		}
		e.emit(cs)
	}
}

// ---- groups: several cases related by a property; the driver checks the relation ----

func jsonOnly(v any) bool {
	switch v := v.(type) {
	case nil, bool, float64, json.Number, string:
		return true
	case []any:
		for _, e := range v {
			if !jsonOnly(e) {
				return false
			}
		}
		return true
	case map[string]any:
		for _, e := range v {
			if !jsonOnly(e) {
				return false
			}
		}
		return true
	}
	return false
}

// items of Query(text, doc): verbose run, or the silent run when the verbose one fails
func itemsOf(text string, doc any, vars map[string]any) ([]any, bool) {
	p, err := path.Parse(text)
	if err != nil {
		return nil, false
	}
	defer func() { _ = recover() }()
	opts := []exec.Option{}
	if vars != nil {
		opts = append(opts, exec.WithVars(vars))
	}
	items, err := p.Query(context.Background(), doc, opts...)
	if err != nil {
		items, err = p.Query(context.Background(), doc, append(opts, exec.WithSilent())...)
		if err != nil {
			return nil, false
		}
	}
	return items, true
}

// C09: Query(P S, doc) = concatenation over x in Query(P, doc) of Query($ S, x)
func famGroup9(g *gen, e *emitter, n int) {
	suffixSteps := []string{".a", ".b", ".*", "[*]", "[0]", "[last]", "[0 to 1]", "[1,0]", " ? (@ > 1)", " ? (@.a == 1)", " ? (exists(@.a))", ".type()", ".size()", ".double()", ".string()",
		" ? (@[last] > 0)", "[last - 1]", ".**{1}", ".abs()", " ? (@ starts with \"a\")", ".integer()", " ? (@[*] > 1)", ".boolean()", ".**"}
	prefixSteps := []string{".a", ".b", ".*", "[*]", "[0]", "[last]", "[0 to 1]", " ? (@ != null)", "[1,0]", ".**{1}", ".**"}
	heads := []string{"$", "$", "$", "$arr", "$obj"}
	gid := 0
	for i := 0; i < n; i++ {
		mode := g.pick("", "strict ")
		pre := g.pick(heads...)
		np := g.r.Intn(3)
		for k := 0; k < np; k++ {
			st := g.pick(prefixSteps...)
			if mode != "" && strings.Contains(st, "**") {
				continue // steps following .** in strict mode are excluded by the property
			}
			pre += st
		}
		suf := ""
		ns := 1 + g.r.Intn(2)
		for k := 0; k < ns; k++ {
			suf += g.pick(suffixSteps...)
		}
		doc := mustDoc(g.docText(3, true), false)
		vars := g.varsFor(false, true)
		items, ok := itemsOf(mode+pre, doc, vars)
		if !ok {
			continue
		}
		allJSON := true
		for _, it := range items {
			if !jsonOnly(it) {
				allJSON = false
			}
		}
		if !allJSON || len(items) > 12 {
			continue
		}
		gid++
		gname := fmt.Sprintf("g9-%d", gid)
		e.emit(caseSpec{family: "group9", text: mode + pre + suf, doc: doc, vars: vars, group: gname, role: "PS"})
		e.emit(caseSpec{family: "group9", text: mode + pre, doc: doc, vars: vars, group: gname, role: "P"})
		for k, it := range items {
			e.emit(caseSpec{family: "group9", text: mode + "$" + suf, doc: it, vars: vars, group: gname, role: fmt.Sprintf("S@%d", k)})
		}
	}
}

// C10: P ?(C) keeps exactly the candidates whose predicate check C[@:=$] is [true]
func famGroup10(g *gen, e *emitter, n int) {
	conds := []string{"@ > 1", "@ == 1", "@.a == 1", "@.a > 1", "exists(@.a)", `@ starts with "a"`, `@ like_regex "^a"`, "@.a == 1 && @.b == 2", "@.a == 1 || @.b == 2", "!(@ == 1)", "(@ == 1) is unknown",
		"@.double() > 0", "@.a.double() > 0", "@ == $missing", "exists(@.a) && @.a == $missing", "@[*] > 1", "@.size() > 1", `@.type() == "number"`, "@ == null", "@ != null", "@[0] == 1", "@[last] > 0",
		"@.a[*] > 1", "!(exists(@.b))", "(@.a > 1) is unknown", "@ < $x", "@.a + 1 == 2", "-@ < 0", `@.a starts with $s`, "@.**{1} == 1"}
	prefixes := []string{"$", "$[*]", "$.a", "$.a[*]", "$.*", "$[0 to 1]", "$.**{1}", "$arr[*]", "$[*].a"}
	gid := 0
	for i := 0; i < n; i++ {
		mode := g.pick("", "strict ")
		pre := g.pick(prefixes...)
		if mode != "" && strings.Contains(pre, "**") {
			continue // after .** strict-mode steps run with structural errors ignored: not the standalone predicate check
		}
		cond := g.pick(conds...)
		doc := mustDoc(g.docText(3, true), false)
		vars := g.varsFor(false, true)
		pp, err := path.Parse(mode + pre)
		if err != nil {
			continue
		}
		opts := []exec.Option{}
		if vars != nil {
			opts = append(opts, exec.WithVars(vars))
		}
		items, err := pp.Query(context.Background(), doc, opts...)
		if err != nil {
			continue
		}
		var cands []any
		for _, it := range items {
			if arr, ok := it.([]any); ok && mode == "" {
				cands = append(cands, arr...)
			} else {
				cands = append(cands, it)
			}
		}
		ok := len(cands) <= 12
		for _, c := range cands {
			ok = ok && jsonOnly(c)
		}
		if !ok {
			continue
		}
		gid++
		gname := fmt.Sprintf("g10-%d", gid)
		e.emit(caseSpec{family: "group10", text: mode + pre + " ? (" + cond + ")", doc: doc, vars: vars, group: gname, role: "PF"})
		e.emit(caseSpec{family: "group10", text: mode + pre, doc: doc, vars: vars, group: gname, role: "P"})
		check := strings.ReplaceAll(cond, "@", "$")
		for k, c := range cands {
			e.emit(caseSpec{family: "group10", text: mode + check, doc: c, vars: vars, group: gname, role: fmt.Sprintf("C@%d", k)})
		}
	}
}

// C11: truth tables of the connectives, for operand pairs with every outcome
func famGroup11(g *gen, e *emitter, n int) {
	atoms := map[string][]string{
		"T": {"$.one == 1", `$.s starts with "a"`, "exists($.t)", "$.t == true", "$.arr[*] > 1"},
		"F": {"$.one == 2", `$.s starts with "b"`, "exists($.zz)", "$.t == false", "$.arr[*] > 5"},
		"U": {`$.one == "a"`, "$.s starts with 1", "$.s.double() > 0", `$.one like_regex "a"`, "$.arr == 1 && $.s.integer() > 0"},
		"E": {"$.one == $missing", "$missing == 1", `$.s.datetime("x") == 1`, "$.one.decimal(0) == 1"},
	}
	docText := `{"t":true,"f":false,"n":null,"s":"a","one":1,"arr":[1,2,3]}`
	forms := []struct{ role, f string }{
		{"p", "%[1]s"}, {"q", "%[2]s"}, {"and", "(%[1]s) && (%[2]s)"}, {"and_rev", "(%[2]s) && (%[1]s)"}, {"or", "(%[1]s) || (%[2]s)"}, {"or_rev", "(%[2]s) || (%[1]s)"},
		{"not_p", "!(%[1]s)"}, {"notnot_p", "!(!(%[1]s))"}, {"isunknown_p", "(%[1]s) is unknown"}, {"isunknown_isunknown_p", "((%[1]s) is unknown) is unknown"},
		{"nand", "!((%[1]s) && (%[2]s))"}, {"dm_or", "!(%[1]s) || !(%[2]s)"}, {"nor", "!((%[1]s) || (%[2]s))"}, {"dm_and", "!(%[1]s) && !(%[2]s)"},
	}
	gid := 0
	emitGroup := func(mode, p, q string, doc any, vars map[string]any) {
		gid++
		gname := fmt.Sprintf("g11-%d", gid)
		for _, f := range forms {
			text := fmt.Sprintf(f.f, p, q)
			e.emit(caseSpec{family: "group11", text: mode + text, doc: doc, vars: vars, group: gname, role: f.role})
			if f.role != "p" && f.role != "q" {
				e.emit(caseSpec{family: "group11", text: mode + "$ ? (" + text + ")", doc: doc, vars: vars, group: gname, role: "filter:" + f.role})
			}
		}
	}
	outs := []string{"T", "F", "U", "E"}
	doc := mustDoc(docText, false)
	for _, mode := range []string{"", "strict "} {
		for _, a := range outs {
			for _, b := range outs {
				for _, pa := range atoms[a] {
					pb := atoms[b][g.r.Intn(len(atoms[b]))]
					emitGroup(mode, pa, pb, doc, nil)
				}
			}
		}
	}
	for i := 0; i < n; i++ {
		c := pctx{depth: 1}
		p, q := g.pred(c), g.pred(c)
		if strings.Contains(p, "@") || strings.Contains(q, "@") {
			continue
		}
		emitGroup(g.pick("", "strict "), p, q, mustDoc(g.docText(2, true), g.chance(0.3)), g.varsFor(false, true))
	}
}

// ---- pg: the (path, json, options) triples of the repository's own PostgreSQL regression port,
// read from /repo/path/exec/pg_test.go at run time; both number decodings ----
func famPG(g *gen, e *emitter, n int) {
	repo := os.Getenv("VERIF_REPO")
	if repo == "" {
		repo = "/repo"
	}
	data, err := os.ReadFile(repo + "/path/exec/pg_test.go")
	if err != nil {
		fmt.Fprintln(os.Stderr, "pg family:", err)
		return
	}
	blocks := strings.Split(string(data), "\t\t\ttest:")
	lit := func(s string) (string, bool) {
		s = strings.TrimSpace(s)
		if strings.HasPrefix(s, "`") {
			if i := strings.Index(s[1:], "`"); i >= 0 {
				return s[1 : 1+i], true
			}
			return "", false
		}
		if strings.HasPrefix(s, `"`) {
			// find the closing quote of a Go interpreted string
			for i := 1; i < len(s); i++ {
				if s[i] == '\\' {
					i++
					continue
				}
				if s[i] == '"' {
					if u, err := strconv.Unquote(s[:i+1]); err == nil {
						return u, true
					}
					return "", false
				}
			}
		}
		return "", false
	}
	field := func(block, name string) (string, bool) {
		i := strings.Index(block, "\n\t\t\t"+name+":")
		if i < 0 {
			return "", false
		}
		rest := strings.TrimSpace(block[i+len(name)+5:])
		for _, pre := range []string{"js(", "jv("} {
			rest = strings.TrimPrefix(rest, pre)
		}
		return lit(rest)
	}
	count := 0
	for _, b := range blocks[1:] {
		p, ok1 := field(b, "path")
		j, ok2 := field(b, "json")
		if !ok1 || !ok2 {
			continue
		}
		var varsText string
		if i := strings.Index(b, "WithVars(jv("); i >= 0 {
			varsText, _ = lit(b[i+len("WithVars(jv("):])
		}
		useTZ := strings.Contains(b, "WithTZ()")
		for _, num := range []bool{false, true} {
			doc, err := decodeDoc(j, num)
			if err != nil {
				continue
			}
			var vars map[string]any
			if varsText != "" {
				if v, err := decodeDoc(varsText, num); err == nil {
					vars, _ = v.(map[string]any)
				}
			}
			e.emit(caseSpec{family: "pg", text: p, doc: doc, vars: vars, useTZ: useTZ})
			count++
		}
	}
	if count < 500 {
		fmt.Fprintf(os.Stderr, "pg family: only %d cases extracted from pg_test.go\n", count)
	}
}

// ---- ctx: context-restoration probes (C09, also C08/C10/C11): after a nested construct the outer
// binding (@, last, $, the structural-error flag, the verbose flag) is used again ----
func famCtx(g *gen, e *emitter, n int) {
	innerFilters := []string{"@.a ? (@ > 5)", "@.a[*] ? (@ > 1)", "@.x[*] ? (@ > 1)", "@.a ? (@ == 1)", "@.a ? (@.c == 1)", "@.a[*] ? (@.v > 1)", "@ ? (@.a > 1)", "@.b ? (@ starts with \"a\")", "@.* ? (@ > 1)", "@.a ? (@ == $missing)"}
	uses := []string{"@.b == 1", "@.y == 1", "@.b > 0", "exists(@.b)", "@.a == 1", "@ == 1", "@.size() > 0", "@.b starts with \"a\""}
	conds := []string{}
	for _, f := range innerFilters {
		for _, u := range uses {
			conds = append(conds,
				"exists("+f+") || "+u, "exists("+f+") && "+u, "!(exists("+f+")) && "+u, "!(exists("+f+")) || "+u,
				u+" && exists("+f+")", u+" || exists("+f+")",
				"("+f+") > 0 || "+u, "("+f+") == 1 && "+u, "(exists("+f+")) is unknown || "+u, "((exists("+f+")) is unknown) && "+u,
				"(exists("+f+") && "+u+") is unknown")
		}
	}
	lastPaths := []string{
		"$[$[0][last] to last]", "$[last ? (@[last] > 0)]", "$[0, $[1][last], last]", "$[$[last][0], last]", "$[last - $[0][last]]", "$[*][$[last][last], last]",
		"$[0 to last ? (@ > 0)][last]", "$[last][last]", "$[$.size() - 1, last]", "$.a[$.b[last], last]", "$.a[last ? (@ == $.a[last])]", "$[$[0] ? (@[last] == 1)[last], last]",
		"$[*] ? (@[last] == $[last][last])", "$[last] ? (@[last] > $[0][last])",
	}
	rootPaths := []string{"$.a ? (@ == $.b)", "$.a[*] ? (@ == $.b[last])", "$.a[*] ? (@ > $.a[0])", "$[*] ? (@.a == $[0].a)", "$.a ? (exists($.b ? (@ == 1)) && @ == $.b)", "$x.a ? (@ == $.a)", "$arr[*] ? (@ == $[0])", "$.*[*] ? (@ == $.a[0])"}
	flagPaths := []string{
		"strict $.**.a", "strict $.**.a.b", "strict $.** ? (@.a == 1)", "strict $.**{1}.a.b", "strict $.a.**.b.c", "strict $[*].**.a", "strict $.** ? (@.a.b == 1).a", "strict $.**.*", "strict $.**[*]", "strict $.**[0]",
		"strict $[*] ? (@.**.a == 1).b", "strict $[*] ? (exists(@.**.a)).b", "strict $.a[*] ? (@.b == 1).c", "strict $[*] ? (@.a == 1).b", "strict $[*] ? (@.a == @.b).c", "strict $ ? (@.a == 1 || @.x == 0).b",
		"$[*] ? (@.a.double() > 1).b.double()", "$[*] ? (@.n == 10 / @.d).s.double()", "strict $[*] ? (@.a > 1 && @.b > 1).c", "strict $[*] ? (!(@.a == 1)).b", "strict $[*] ? ((@.a == 1) is unknown).b",
		"strict $[*] ? (exists(@.a)).a.b", "strict $[*] ? (@.a starts with \"a\").b", "strict $[*] ? (@.a like_regex \"a\").b", "strict $[*] ? (@.a == 1) ? (@.b == 1).c",
		"$[*] ? (@[$i] == 1)", "$[$i]", "$[0, $i]", "$.a[$i].b", "strict $[$.x]", "strict $[*] ? (@[0] == $i)",
	}
	docs := []string{
		`[{"a":1,"b":1},{"a":2,"b":2}]`, `[{"a":[1,9],"b":1}]`, `[{"x":[0,"str"],"y":1},{"x":[0,0],"y":1},{"x":[0],"y":2}]`, `[{"x":[{"v":"s","y":1}],"y":2},{"x":[{"v":3}],"y":1}]`,
		`{"a":{"b":5},"b":1}`, `[[1,2,3],[4,5],[0]]`, `[[2,1],[1,2]]`, `{"a":[1,2,3],"b":[2,3],"i":1}`, `[{"x":0},{"a":1}]`, `[{"a":1},{"x":0}]`, `[{"a":"x"},{"a":2,"b":"y"}]`,
		`[{"n":1,"d":0,"s":"1"},{"n":10,"d":1,"s":"oops"}]`, `[{"a":1},{"a":1,"b":1}]`, `{"x":0}`, `[[1]]`, `[1,2,3]`, `{"a":[1],"b":{"c":[2,{"a":{"b":1}}]}}`, `[{"a":{"b":1}},7,"s",[{"a":2}]]`,
		`[{"t":{"k":1}},{"t":[2]}]`, `{"a":[1]}`, `[{"a":7,"b":"ab"},{"a":0,"b":"b"}]`, `[{"a":[{"c":1},{"c":2}],"b":1},{"a":[{"c":3}],"b":2}]`,
	}
	// existence-mode probes: exists() over descents and wildcards whose match sits deep and is followed by a non-matching sibling
	existsPaths := []string{"$ ? (exists(@.**.x))", "exists($.**.x)", "$ ? (exists(@.**{2 to 3}.x))", "$ ? (exists(@.**{3}.x ? (@ > 0)))", "$ ? (exists(@.**.a))", "exists($.**.a.b)", "$[*] ? (exists(@.**.c))",
		"$ ? (exists(@.*.a))", "$ ? (exists(@[*].a))", "exists($[*].a[*] ? (@ > 1))", "$ ? (exists(@.a[0 to 1] ? (@ == 1)))", "strict exists($[0 to 1] ? (@ == 1))", "strict $ ? (@[0] == 7 || exists(@[0,1] ? (@ == 1)))",
		"exists($.keyvalue() ? (@.key == \"a\"))", "$ ? (exists(@.keyvalue().value ? (@ == 1)))", "exists($[0,1].a)", "exists($.**.sku ? (@ == \"A\"))", "exists($.**{3} ? (@ > 1))"}
	docs = append(docs, `{"r":[{"k":{"x":1}},5]}`, `{"r":[5,{"k":{"x":1}}]}`, `{"orders":[{"items":[{"sku":"A"}]},{"items":[{"sku":"B"}]}]}`, `[{"a":[1,2]},{"a":[]}]`, `[{"a":1},{}]`, `{"a":1,"b":2}`, `[1,2]`, `[2,1]`,
		`{"a":[1,0]}`, `{"a":[0,1]}`, `[[{"a":1}]]`, `[{"a":1},[{"a":2}],[[{"a":3}]],{"a":4},7,"s"]`, `{"t":[[{"a":1}]],"u":0}`)
	flagPaths = append(flagPaths, existsPaths...)
	for i := 0; i < 40; i++ {
		docs = append(docs, g.docText(3, true))
	}
	total := (len(conds)*2 + len(lastPaths) + len(rootPaths) + len(flagPaths)) * len(docs)
	stride := 1
	if n > 0 && total > n {
		stride = total / n
	}
	idx := g.r.Intn(stride)
	cnt := 0
	vars := map[string]any{"x": mustDoc(`{"a":1}`, false), "arr": mustDoc(`[1,2]`, false)}
	emit := func(text, d string) {
		if cnt%stride == idx%stride {
			e.emit(caseSpec{family: "ctx", text: text, doc: mustDoc(d, false), vars: vars})
		}
		cnt++
	}
	for _, d := range docs {
		for _, c := range conds {
			emit("$[*] ? ("+c+")", d)
			emit("strict $ ? ("+c+")", d)
		}
		for _, p := range lastPaths {
			emit(p, d)
		}
		for _, p := range rootPaths {
			emit(p, d)
		}
		for _, p := range flagPaths {
			emit(p, d)
		}
	}
}

// ---- dt: datetime methods through the executor model (C17): several conversions of the same
// string in one path (with and without precision), comparisons across kinds, casts, .string()/.type() ----
func famDT(g *gen, e *emitter, n int) {
	strs := []string{"2024-01-02", "12:34:56", "12:34:56.789", "12:34:56.789123456", "23:59:59.9999995", "12:34:56+01", "12:34:56.5-08:00", "12:34:56+05:30",
		"2023-12-31T23:59:59.987654321", "2024-01-02T03:04:05", "2024-01-02 03:04:05", "2024-01-02T03:04:05Z", "2024-01-02T03:04:05+00", "2024-01-02T03:04:05.25+05:30",
		"2024-01-02T03:04:05-08:00", "2024-03-10T02:30:00", "0001-01-01", "9999-12-31T23:59:59.999999", "00:00:00", "00:00:00.4999", "nope", "2024-02-30", "24:00:00", "1:02:03"}
	meths := []string{"datetime()", "date()", "time()", "time_tz()", "timestamp()", "timestamp_tz()"}
	precs := []string{"time(0)", "time(1)", "time(3)", "time(6)", "time(7)", "time_tz(0)", "time_tz(2)", "timestamp(0)", "timestamp(2)", "timestamp(6)", "timestamp_tz(0)", "timestamp_tz(3)", "timestamp_tz(9)"}
	var paths []string
	for _, m := range append(append([]string{}, meths...), precs...) {
		paths = append(paths, "$."+m, "$."+m+".string()", "$."+m+".type()", "strict $."+m)
	}
	for _, m := range meths {
		for _, p := range precs {
			base := strings.Split(p, "(")[0]
			paths = append(paths,
				"$ ? (@."+m+" == @."+m+")."+p, // same string converted plainly first, then with a precision
				"$."+m+" < $."+p, "$."+p+" > $."+m, "$."+m+" == $."+p,
				"$ ? (@."+base+"() == @."+p+")."+base+"().string()")
		}
		for _, m2 := range meths {
			paths = append(paths, "$[0]."+m+" < $[1]."+m2, "$[0]."+m+" == $[1]."+m2, "$[0]."+m+" >= $[1]."+m2, "$[*] ? (@."+m+" < $[1]."+m2+")")
		}
	}
	paths = append(paths, "$.datetime(\"HH24\")", "$.time(99999999999)", "$[*].datetime().type()", "$[*].datetime() ? (@ < $[0].datetime())", "$.datetime() == 1", "$.datetime().string().datetime() == $.datetime()")
	tzs := []int{0, 19800, -28800}
	total := len(paths) * (len(strs) + len(strs)) * 2 * len(tzs)
	stride := 1
	if n > 0 && total > n {
		stride = total / n
	}
	idx := g.r.Intn(stride)
	cnt := 0
	for _, p := range paths {
		for i, s := range strs {
			docs := []any{s, []any{s, strs[(i*7+3)%len(strs)]}}
			for _, d := range docs {
				_, isArr := d.([]any)
				if strings.Contains(p, "$[") != isArr {
					continue
				}
				for _, useTZ := range []bool{false, true} {
					for _, tz := range tzs {
						if cnt%stride == idx%stride {
							e.emit(caseSpec{family: "dt", text: p, doc: d, useTZ: useTZ, tzOff: tz})
						}
						cnt++
					}
				}
			}
		}
	}
}

// ---- C16: .keyvalue() ids do not depend on the route by which a document object is reached ----
// "$[*] ? (C).keyvalue()" where C itself uses .keyvalue() (and may fail under it) must give every
// member of a top-level object the id that "$[i].keyvalue()" gives it on the same document in memory:
// id = base id * 10^10 + offset from the base object, and the base object of a document object is $.
func kvRouteProbe(p *path.Path, cs caseSpec) [][3]string {
	arr, ok := cs.doc.([]any)
	if !ok {
		return nil
	}
	ctx := context.Background()
	type ent struct {
		key string
		val any
		id  int64
	}
	var direct []ent
	for i := range arr {
		if _, isObj := arr[i].(map[string]any); !isObj {
			continue
		}
		dp, err := path.Parse(fmt.Sprintf("$[%d].keyvalue()", i))
		if err != nil {
			return nil
		}
		res, err := dp.Query(ctx, cs.doc)
		if err != nil {
			return nil
		}
		for _, it := range res {
			if m, ok := it.(map[string]any); ok {
				if id, ok := m["id"].(int64); ok {
					k, _ := m["key"].(string)
					direct = append(direct, ent{k, m["value"], id})
				}
			}
		}
	}
	var out [][3]string
	for _, silent := range []bool{false, true} {
		var opts []exec.Option
		if silent {
			opts = append(opts, exec.WithSilent())
		}
		res, err := p.Query(ctx, cs.doc, opts...)
		if err != nil {
			continue
		}
		for n, it := range res {
			m, ok := it.(map[string]any)
			if !ok {
				continue
			}
			id, ok := m["id"].(int64)
			if !ok {
				continue
			}
			k, _ := m["key"].(string)
			found, match := false, false
			var want int64
			for _, d := range direct {
				if d.key == k && reflect.DeepEqual(d.val, m["value"]) {
					found = true
					want = d.id
					if d.id == id {
						match = true
					}
				}
			}
			if found && !match {
				out = append(out, [3]string{"C16", "keyvalue-id-depends-on-route",
					fmt.Sprintf("item %d (key %q): id %d through the path, %d through direct access to the same object (silent=%v)", n, k, id, want, silent)})
				return out
			}
		}
	}
	return out
}

func famKV(g *gen, e *emitter, n int) {
	vals := []string{`"7"`, `"oops"`, `8`, `-1`, `1.5`, `"1e400"`, `true`, `"t"`, `null`, `{"a":1}`, `[1,2]`, `"12"`, `0`}
	keys := []string{"n", "m", "tag", "k", "a"}
	conds := []string{
		`@.keyvalue().value.integer() > 0`, `@.keyvalue().value.double() >= 0`, `@.keyvalue().value.bigint() < 100`,
		`@.keyvalue().value.boolean() == true`, `exists(@.keyvalue().value ? (@.integer() > 5))`, `@.keyvalue().value.a == 1`,
		`@.keyvalue().key starts with "n"`, `@.keyvalue().value.number() < 10 || @.keyvalue().value.boolean() == true`,
		`(@.keyvalue().value.integer() > 0) is unknown`, `@.keyvalue().value.size() > 1`, `@.keyvalue().value[1] == 2`,
		`!(@.keyvalue().value.decimal(2,0) > 5)`, `@.keyvalue().value.keyvalue().key == "a"`, `@.keyvalue().value.datetime() < "2024-01-01".datetime()`,
	}
	if n <= 0 {
		n = 20000
	}
	for i := 0; i < n; i++ {
		var objs []string
		for j, no := 0, 2+g.r.Intn(4); j < no; j++ {
			var ms []string
			seen := map[string]bool{}
			for m, nm := 0, 1+g.r.Intn(3); m < nm; m++ {
				k := keys[g.r.Intn(len(keys))]
				if seen[k] {
					continue
				}
				seen[k] = true
				ms = append(ms, fmt.Sprintf("%q:%s", k, vals[g.r.Intn(len(vals))]))
			}
			objs = append(objs, "{"+strings.Join(ms, ",")+"}")
		}
		if g.chance(0.2) {
			objs = append(objs, vals[g.r.Intn(len(vals))])
		}
		doc := mustDoc("["+strings.Join(objs, ",")+"]", g.chance(0.3))
		mode := ""
		if g.chance(0.4) {
			mode = "strict "
		}
		var text string
		switch g.r.Intn(8) {
		case 6:
			text = mode + "$[*].keyvalue().value." + []string{"integer()", "double()", "bigint()", "boolean()", "a", "number()", "keyvalue()", "size()", "datetime()"}[g.r.Intn(9)]
		case 7:
			text = mode + "$[" + fmt.Sprint(g.r.Intn(3)) + "].keyvalue().value." + []string{"integer()", "double()", "a", "string()", "abs()"}[g.r.Intn(5)]
		case 0:
			text = mode + "$[*].keyvalue()"
		case 1:
			text = mode + "$[*] ? (" + conds[g.r.Intn(len(conds))] + " && " + conds[g.r.Intn(len(conds))] + ").keyvalue()"
		default:
			text = mode + "$[*] ? (" + conds[g.r.Intn(len(conds))] + ").keyvalue()"
		}
		e.emit(caseSpec{family: "kv", text: text, doc: doc, probe: kvRouteProbe})
	}
}

// famFocus: rejection sampling over the general random generator (gen.pathText): only paths whose text matches
// the feature are kept, so that rare constructs are exercised in quantity without writing a template per construct.
func famFocus(name, feature string) familyFn {
	re := regexp.MustCompile(feature)
	return func(g *gen, e *emitter, n int) {
		if n <= 0 {
			n = 20000
		}
		tries := 0
		for emitted := 0; emitted < n && tries < 400*n; tries++ {
			text := g.pathText()
			if !re.MatchString(text) {
				continue
			}
			emitted++
			single := g.chance(0.6)
			useNumber := g.chance(0.4)
			var doc any
			switch g.r.Intn(3) {
			case 0:
				doc = mustDoc(g.docText(3, single), useNumber)
			case 1: // an array of objects, so that [*], subscripts and filters have something to work on
				var parts []string
				for i, k := 0, 1+g.r.Intn(4); i < k; i++ {
					parts = append(parts, g.docText(2, single))
				}
				doc = mustDoc("["+strings.Join(parts, ",")+"]", useNumber)
			default:
				doc = mustDoc(`{"a":`+g.docText(2, single)+`,"b":`+g.docText(2, single)+`}`, useNumber)
			}
			e.emit(caseSpec{family: name, text: text, doc: doc, vars: g.varsFor(useNumber, single), useTZ: g.chance(0.3)})
		}
	}
}

// shareEqual rebuilds v so that containers that are deeply equal become ONE Go value stored at several
// positions (documents assembled by Go code from reused pieces look like this; encoding/json never produces it).
// The JSON tree — what the model and the specification see — is unchanged.
func shareEqual(v any, seen map[string]any) any {
	switch x := v.(type) {
	case []any:
		out := make([]any, len(x))
		for i, e := range x {
			out[i] = shareEqual(e, seen)
		}
		if len(out) == 0 {
			return out
		}
		k := "a" + jsonS(out)
		if old, ok := seen[k]; ok {
			return old
		}
		seen[k] = out
		return out
	case map[string]any:
		out := make(map[string]any, len(x))
		for k, e := range x {
			out[k] = shareEqual(e, seen)
		}
		if len(out) == 0 {
			return out
		}
		k := "o" + jsonS(out)
		if old, ok := seen[k]; ok {
			return old
		}
		seen[k] = out
		return out
	default:
		return v
	}
}

// famShare: wildcards, recursive descent, subscripts and filters over documents with shared sub-values
func famShare(g *gen, e *emitter, n int) {
	if n <= 0 {
		n = 20000
	}
	pieces := []string{`[1,2]`, `{"x":[1,2]}`, `{"a":1}`, `[[1],[1]]`, `{"k":{"x":[1,2]}}`, `[{"a":1},{"a":1}]`, `"s"`, `1`, `null`, `[]`, `{}`}
	paths := []string{"$.**", "strict $.**", "$.**.x", "strict $.**.x", "$.**{1 to 2}", "$.**{last}", "$.**{2 to last}.a", "$[*]", "$.*", "$[*].*", "$.*[*]", "$.**[*]", "strict $.**[0]",
		"$.** ? (@.a == 1)", "$[*] ? (exists(@.**.x))", "$.**.size()", "$.**.type()", "$[*].**{1}", "$.**{0 to 1}.**{0 to 1}", "strict $[*].**.a", "$[0 to last].**", "$.**[last]"}
	for i := 0; i < n; i++ {
		var parts []string
		for j, k := 0, 2+g.r.Intn(3); j < k; j++ {
			pc := pieces[g.r.Intn(len(pieces))]
			switch g.r.Intn(4) {
			case 0:
				pc = `{"k":` + pc + `}`
			case 1:
				pc = `[` + pc + `,` + pieces[g.r.Intn(len(pieces))] + `]`
			}
			parts = append(parts, pc)
		}
		var text string
		if g.chance(0.7) {
			text = paths[g.r.Intn(len(paths))]
		} else {
			text = g.pathText()
			if strings.Contains(text, "keyvalue") {
				continue
			}
		}
		var doc any
		if g.chance(0.5) {
			doc = mustDoc("["+strings.Join(parts, ",")+"]", false)
		} else {
			var ms []string
			for j, pc := range parts {
				ms = append(ms, fmt.Sprintf("%q:%s", keyPool[j%len(keyPool)], pc))
			}
			doc = mustDoc("{"+strings.Join(ms, ",")+"}", false)
		}
		e.emit(caseSpec{family: "share", text: text, doc: shareEqual(doc, map[string]any{}), share: true})
	}
}

// ---- walk: document-directed random paths ----
// The path is grown step by step; after each step the implementation itself is asked what the path so far
// returns, and the next step is chosen to fit the first item (an existing key, an index in range, a method of
// the item's type, a filter over the fields the elements have) with high probability and to misfit it otherwise.
// Variables: $tbl (array of scalars), $n (small int), $s (string), $o (object).  Oracles stay the model and the spec.
func famWalk(g *gen, e *emitter, n int) {
	if n <= 0 {
		n = 20000
	}
	ctx := context.Background()
	for i := 0; i < n; i++ {
		useNumber := g.chance(0.3)
		var docText string
		switch g.r.Intn(4) {
		case 0:
			docText = g.docText(3, false)
		case 1:
			var parts []string
			for j, k := 0, 2+g.r.Intn(3); j < k; j++ {
				parts = append(parts, fmt.Sprintf(`{"i":%d,"v":%s,"w":%s}`, g.r.Intn(3), g.scalarText(), g.docText(1, false)))
			}
			docText = "[" + strings.Join(parts, ",") + "]"
		case 2:
			docText = `{"a":` + g.docText(2, false) + `,"b":[` + g.scalarText() + "," + g.scalarText() + "," + g.scalarText() + `],"i":` + fmt.Sprint(g.r.Intn(3)) + "}"
		default:
			docText = "[" + g.docText(2, false) + "," + g.docText(2, false) + "," + g.scalarText() + "]"
		}
		doc := mustDoc(docText, useNumber)
		tbl := []any{}
		for j := 0; j < 3; j++ {
			tbl = append(tbl, mustDoc(g.scalarText(), useNumber))
		}
		vars := map[string]any{"tbl": tbl, "n": int64(g.r.Intn(3)), "s": g.pick(strPool...), "o": mustDoc(`{"a":`+g.scalarText()+`,"i":1}`, useNumber)}
		mode := g.pick("", "", "strict ")
		text := g.pick("$", "$", "$", "$tbl", "$o")
		cur := func() (any, bool) {
			p, err := path.Parse(mode + text)
			if err != nil {
				return nil, false
			}
			res, err := p.Query(ctx, doc, exec.WithVars(vars), exec.WithSilent())
			if err != nil || len(res) == 0 {
				return nil, false
			}
			return res[0], true
		}
		steps := 1 + g.r.Intn(4)
		for s := 0; s < steps; s++ {
			v, ok := cur()
			if !ok {
				break
			}
			text += g.walkStep(v, 2)
		}
		if g.chance(0.15) {
			text = g.pick("-", "+") + "(" + text + ")"
			if g.chance(0.5) {
				text = "(" + text + ")" + g.pick(" ? (@ < 0)", " ? (@ > 1)", ".abs()", ".double()", "[0]", ".type()", " ? (@ < -5)", ".string()")
			}
		} else if g.chance(0.15) {
			text = "(" + text + ") " + g.pick("+", "*", "-", "/", "%") + " " + g.pick("1", "2", "0", "$n", "0.5", "$tbl[0]", "10", "1e308", "9223372036854775807")
			if g.chance(0.5) {
				text = "(" + text + ")" + g.pick(".double()", ".number()", ".integer()", ".abs()", ".string()", ".type()", ".floor()", " ? (@ > 1)", ".bigint()", ".decimal(5,2)", ".ceiling()")
			}
		} else if g.chance(0.1) {
			text = text + " " + g.pick("==", "<", ">=", "!=") + " " + g.pick("1", `"a"`, "$n", "$tbl[1]", "null", "$s", "$tbl[*]", "$.b[*]", "$[*]")
		} else if g.chance(0.05) {
			text = g.pick("$tbl[*]", "$n", "$.b[*]") + " " + g.pick("==", "<", ">=", "!=") + " " + text
		} else if g.chance(0.05) {
			text = "(" + text + " " + g.pick("==", "<") + " " + g.pick("1", "$n", `"a"`) + ")" + g.pick("[0]", ".type()", ".a", "[*]", ".string()", " ? (@ == true)")
		}
		cs := caseSpec{family: "walk", text: mode + text, doc: doc, vars: vars, useTZ: g.chance(0.3), tzOff: []int{0, 19800, -18000}[g.r.Intn(3)]}
		if !useNumber && g.chance(0.35) {
			cs.doc = intify(doc)
			cs.intDoc = true
		}
		e.emit(cs)
	}
}

func (g *gen) walkIndex(n int) string {
	i := 0
	if n > 0 {
		i = g.r.Intn(n)
	}
	switch g.r.Intn(12) {
	case 0:
		return fmt.Sprintf("(%d).abs()", -i)
	case 1:
		return fmt.Sprintf("%d.7", i)
	case 2:
		return "last"
	case 3:
		return fmt.Sprintf("last - %d", g.r.Intn(3))
	case 4:
		return "$n"
	case 5:
		return fmt.Sprintf("%d", n+g.r.Intn(2)) // out of range
	case 6:
		return fmt.Sprintf("-%d", 1+g.r.Intn(2))
	case 7:
		return g.pick(`"1"`, "true", "null", "$tbl", "$s", "$tbl[0]", "(1).type()", "1 ? (@ > 5)", "$.i", "$o.i", "2147483648", "1e308 * 10")
	default:
		return fmt.Sprint(i)
	}
}

func (g *gen) walkCond(el any, depth int) string {
	lit := func(v any) string {
		switch x := v.(type) {
		case nil:
			return "null"
		case bool:
			return fmt.Sprint(x)
		case string:
			b, _ := json.Marshal(x)
			return string(b)
		case float64, json.Number, int64:
			b, _ := json.Marshal(x)
			if strings.ContainsAny(string(b), "eE") || strings.HasPrefix(string(b), "-") {
				return "1"
			}
			return string(b)
		}
		return "1"
	}
	op := g.pick("==", "!=", "<", "<=", ">", ">=")
	switch x := el.(type) {
	case map[string]any:
		if len(x) == 0 {
			return "exists(@.a)"
		}
		ks := make([]string, 0, len(x))
		for k := range x {
			ks = append(ks, k)
		}
		sort.Strings(ks)
		k := ks[g.r.Intn(len(ks))]
		v := x[k]
		switch g.r.Intn(9) {
		case 0:
			return "exists(@." + k + ")"
		case 1:
			return "@." + k + " " + op + " $tbl[@.i]"
		case 2:
			return g.pick("$tbl[@.i] "+op+" @."+k, "$tbl[@.i] "+op+" "+lit(v), "$.b[@.i] "+op+" $n", "$tbl[@.i] == $tbl[0]", "$o.a "+op+" $tbl[@.i]", "exists($tbl[@.i] ? (@ "+op+" 1))")
		case 3:
			return "@." + k + g.walkStep(v, 0) + " " + op + " " + lit(v)
		case 4:
			return "(@." + k + " " + op + " " + lit(v) + ") is unknown"
		case 5:
			return "@." + k + " " + op + " " + lit(v) + " " + g.pick("&&", "||") + " @.i " + g.pick("==", ">") + " $n"
		case 6:
			return "@." + k + ".date() < \"2024-06-01\".date()"
		case 7:
			return "@.keyvalue().value" + g.pick(".integer() > 0", ".double() >= 0", " == "+lit(v), ".type() == \"number\"")
		default:
			return "@." + k + " " + op + " " + lit(v)
		}
	case []any:
		return g.pick("@.size() > 1", "@[0] "+op+" 1", "@[*] "+op+" $n", "exists(@[*] ? (@ > 1))", "@[last] == @[0]",
			"@[*] "+op+" $tbl[*]", "$tbl[*] "+op+" @[*]", "@[*] "+op+" @[*]", "$n "+op+" @[*]", "@[*].type() == \"number\"")
	case string:
		return g.pick("@ starts with \"a\"", "@ like_regex \"^[0-9]\"", "@.date() < \"2024-06-01\".date()", "@.datetime() < \"2024-06-01T00:00:00+00\".datetime()",
			"@.double() > 0", "@ "+op+" $s", "@.time() > \"01:00:00\".time()", "@ == "+lit(x))
	default:
		// numbers: also conditions that read the number's text (a json.Number keeps its literal: "1.0", "1e2")
		txt := "1"
		if b, err := json.Marshal(x); err == nil {
			txt = string(b)
		}
		if _, isNum := x.(json.Number); isNum && g.chance(0.5) {
			return g.pick("@.string() == \""+txt+"\"", "@.string() like_regex \"^-?[0-9]+$\"", "@.string().double() == @", "@.string() != \""+txt+"\"", "@.string() like_regex \"[.eE]\"")
		}
		return g.pick("@ "+op+" "+lit(x), "@ > $n", "@ == $tbl[$n]", "@.type() == \"number\"", "@ "+op+" 1", "(@ > 1) is unknown", "@.abs() > 1 && @ < 10",
			"@.string() == \""+txt+"\"", "@.string() like_regex \"^-?[0-9]+$\"", "@.string().double() == @", "@.string() starts with \"1\"", "@.string() "+op+" $s")
	}
}

func (g *gen) walkStep(v any, depth int) string {
	misfit := g.chance(0.15)
	switch x := v.(type) {
	case map[string]any:
		if misfit {
			return g.pick("[0]", "[*]", ".size()", ".double()", "[1 to 2]", ".zz")
		}
		ks := make([]string, 0, len(x))
		for k := range x {
			ks = append(ks, k)
		}
		sort.Strings(ks)
		switch c := g.r.Intn(10); {
		case c < 5 && len(ks) > 0:
			return "." + ks[g.r.Intn(len(ks))]
		case c == 5:
			return ".*"
		case c == 6:
			return ".keyvalue()" + g.pick("", ".key", ".value", ".value.integer()", ".value.double()", ".value.a")
		case c == 7:
			return g.pick(".**", ".**{1}", ".**{1 to 2}", ".**{last}")
		case c == 8 && depth > 0:
			return " ? (" + g.walkCond(v, depth-1) + ")"
		default:
			return g.pick(".type()", ".missing", ".a", ".size()")
		}
	case []any:
		if misfit {
			return g.pick(".a", ".*", ".keyvalue()", ".double()", ".abs()")
		}
		n := len(x)
		switch c := g.r.Intn(10); {
		case c < 2:
			return "[*]"
		case c < 5:
			return "[" + g.walkIndex(n) + "]"
		case c == 5:
			return "[" + g.walkIndex(n) + " to " + g.walkIndex(n) + "]"
		case c == 6:
			return "[" + g.walkIndex(n) + "," + g.walkIndex(n) + " to " + g.walkIndex(n) + "]"
		case c < 9 && depth > 0:
			var el any
			if n > 0 {
				el = x[g.r.Intn(n)]
			}
			return g.pick("", "[*]") + " ? (" + g.walkCond(el, depth-1) + ")"
		default:
			return g.pick(".size()", ".**", ".**{1}", ".type()", ".**{last}")
		}
	case string:
		if misfit {
			return g.pick(".a", "[*]", ".abs()", ".keyvalue()", "[0]", ".floor()")
		}
		return g.pick(".double()", ".number()", ".integer()", ".bigint()", ".boolean()", ".string()", ".type()", ".datetime()", ".date()", ".time()", ".time_tz()", ".timestamp()", ".timestamp_tz()",
			".time(1)", ".timestamp_tz(2)", ".decimal(5,2)", ".size()")
	case bool, nil:
		return g.pick(".type()", ".string()", ".boolean()", ".double()", ".a", "[0]", ".size()")
	default: // numbers, datetimes
		if misfit {
			return g.pick(".a", "[*]", ".keyvalue()", ".datetime()", ".*")
		}
		return g.pick(".double()", ".number()", ".integer()", ".bigint()", ".abs()", ".floor()", ".ceiling()", ".string()", ".type()", ".boolean()",
			fmt.Sprintf(".decimal(%d,%d)", 1+g.r.Intn(8), g.r.Intn(6)-2), ".decimal(6,-2)", ".decimal(3)", "[0]", "[last]", ".size()", ".string().double()", ".date()", ".time()", ".timestamp()")
	}
}

// intify rebuilds v with every integral float64 in the int64 range replaced by the int64 of the same value:
// documents assembled by Go code carry int64 (a documented input type), decoded JSON never does.
func intify(v any) any {
	switch x := v.(type) {
	case float64:
		if x == math.Trunc(x) && math.Abs(x) < 9.2e18 && !(x == 0 && math.Signbit(x)) {
			return int64(x)
		}
		return x
	case []any:
		out := make([]any, len(x))
		for i, e := range x {
			out[i] = intify(e)
		}
		return out
	case map[string]any:
		out := make(map[string]any, len(x))
		for k, e := range x {
			out[k] = intify(e)
		}
		return out
	default:
		return v
	}
}
