package main

// S-expression output: dumps of JSON values, path ASTs and results in the
// format the OCaml driver reads. Strings are written as "..." with every byte
// outside [0x20,0x7e] and the characters " and \ as \xHH.

import (
	"encoding/json"
	"fmt"
	"math"
	"reflect"
	"sort"
	"strings"
	"time"

	"github.com/theory/sqljson/path/ast"
	"github.com/theory/sqljson/path/types"
)

func qs(s string) string {
	var b strings.Builder
	b.WriteByte('"')
	for i := 0; i < len(s); i++ {
		c := s[i]
		if c < 0x20 || c > 0x7e || c == '"' || c == '\\' {
			fmt.Fprintf(&b, "\\x%02x", c)
		} else {
			b.WriteByte(c)
		}
	}
	b.WriteByte('"')
	return b.String()
}

func fbits(f float64) string { return fmt.Sprintf("%d", math.Float64bits(f)) }

// dumpJSON writes a Go value of the documented types.
func dumpJSON(b *strings.Builder, v any) {
	switch v := v.(type) {
	case nil:
		b.WriteString("null")
	case bool:
		if v {
			b.WriteString("true")
		} else {
			b.WriteString("false")
		}
	case int64:
		fmt.Fprintf(b, "(i %d)", v)
	case int:
		fmt.Fprintf(b, "(i %d)", v)
	case float64:
		fmt.Fprintf(b, "(f %s)", fbits(v))
	case json.Number:
		fmt.Fprintf(b, "(n %s)", qs(string(v)))
	case string:
		fmt.Fprintf(b, "(s %s)", qs(v))
	case []any:
		b.WriteString("(a")
		for _, e := range v {
			b.WriteByte(' ')
			dumpJSON(b, e)
		}
		b.WriteByte(')')
	case map[string]any:
		keys := make([]string, 0, len(v))
		for k := range v {
			keys = append(keys, k)
		}
		sort.Strings(keys)
		b.WriteString("(o")
		for _, k := range keys {
			fmt.Fprintf(b, " (%s ", qs(k))
			dumpJSON(b, v[k])
			b.WriteByte(')')
		}
		b.WriteByte(')')
	case *types.Date:
		dumpDT(b, "date", v.Time)
	case *types.Time:
		dumpDT(b, "time", v.Time)
	case *types.TimeTZ:
		dumpDT(b, "timetz", v.Time)
	case *types.Timestamp:
		dumpDT(b, "timestamp", v.Time)
	case *types.TimestampTZ:
		dumpDT(b, "timestamptz", v.Time)
	default:
		fmt.Fprintf(b, "(unknown %s)", qs(fmt.Sprintf("%T", v)))
	}
}

func dumpDT(b *strings.Builder, kind string, t time.Time) {
	_, off := t.Zone()
	fmt.Fprintf(b, "(dt %s %d %d %d)", kind, t.Unix(), t.Nanosecond(), off)
}

func jsonS(v any) string {
	var b strings.Builder
	dumpJSON(&b, v)
	return b.String()
}

var constNames = map[ast.Constant]string{
	ast.ConstRoot: "root", ast.ConstCurrent: "current", ast.ConstLast: "last",
	ast.ConstAnyArray: "anyarray", ast.ConstAnyKey: "anykey",
	ast.ConstTrue: "true", ast.ConstFalse: "false", ast.ConstNull: "null",
}

var binNames = map[ast.BinaryOperator]string{
	ast.BinaryAnd: "and", ast.BinaryOr: "or", ast.BinaryEqual: "eq", ast.BinaryNotEqual: "ne",
	ast.BinaryLess: "lt", ast.BinaryGreater: "gt", ast.BinaryLessOrEqual: "le",
	ast.BinaryGreaterOrEqual: "ge", ast.BinaryStartsWith: "startswith",
	ast.BinaryAdd: "add", ast.BinarySub: "sub", ast.BinaryMul: "mul", ast.BinaryDiv: "div", ast.BinaryMod: "mod",
}

var unNames = map[ast.UnaryOperator]string{
	ast.UnaryExists: "exists", ast.UnaryNot: "not", ast.UnaryIsUnknown: "isunknown",
	ast.UnaryPlus: "plus", ast.UnaryMinus: "minus", ast.UnaryFilter: "filter",
}

var dtNames = map[ast.UnaryOperator]string{
	ast.UnaryDateTime: "datetime", ast.UnaryDate: "date", ast.UnaryTime: "time",
	ast.UnaryTimeTZ: "timetz", ast.UnaryTimestamp: "timestamp", ast.UnaryTimestampTZ: "timestamptz",
}

var methNames = map[ast.MethodName]string{
	ast.MethodAbs: "abs", ast.MethodSize: "size", ast.MethodType: "type", ast.MethodFloor: "floor",
	ast.MethodCeiling: "ceiling", ast.MethodDouble: "double", ast.MethodKeyValue: "keyvalue",
	ast.MethodBigInt: "bigint", ast.MethodBoolean: "boolean", ast.MethodInteger: "integer",
	ast.MethodNumber: "number", ast.MethodString: "string",
}

type dumpErr struct{ msg string }

func isNilNode(n ast.Node) bool {
	if n == nil {
		return true
	}
	rv := reflect.ValueOf(n)
	return rv.Kind() == reflect.Ptr && rv.IsNil()
}

// dumpChain writes node and everything reachable through Next() as (c step...).
func dumpChain(b *strings.Builder, n ast.Node) {
	b.WriteString("(c")
	for ; !isNilNode(n); n = n.Next() {
		b.WriteByte(' ')
		dumpStep(b, n)
	}
	b.WriteByte(')')
}

func optInt(n ast.Node) string {
	if isNilNode(n) {
		return "none"
	}
	if in, ok := n.(*ast.IntegerNode); ok {
		return fmt.Sprintf("%d", in.Int())
	}
	panic(dumpErr{fmt.Sprintf("integer argument expected, got %T", n)})
}

func dumpStep(b *strings.Builder, n ast.Node) {
	switch n := n.(type) {
	case *ast.ConstNode:
		fmt.Fprintf(b, "(const %s)", constNames[n.Const()])
	case *ast.StringNode:
		fmt.Fprintf(b, "(str %s)", qs(n.Text()))
	case *ast.IntegerNode:
		fmt.Fprintf(b, "(int %d)", n.Int())
	case *ast.NumericNode:
		fmt.Fprintf(b, "(num %s)", fbits(n.Float()))
	case *ast.VariableNode:
		fmt.Fprintf(b, "(var %s)", qs(n.Text()))
	case *ast.KeyNode:
		fmt.Fprintf(b, "(key %s)", qs(n.Text()))
	case *ast.BinaryNode:
		switch n.Operator() {
		case ast.BinaryDecimal:
			fmt.Fprintf(b, "(decimal %s %s)", optInt(n.Left()), optInt(n.Right()))
		case ast.BinarySubscript:
			panic(dumpErr{"subscript outside of array index"})
		default:
			fmt.Fprintf(b, "(bin %s ", binNames[n.Operator()])
			dumpChain(b, n.Left())
			b.WriteByte(' ')
			dumpChain(b, n.Right())
			b.WriteByte(')')
		}
	case *ast.UnaryNode:
		if name, ok := dtNames[n.Operator()]; ok {
			tmpl, prec := "none", "none"
			if arg := n.Operand(); !isNilNode(arg) {
				switch a := arg.(type) {
				case *ast.StringNode:
					tmpl = qs(a.Text())
				case *ast.IntegerNode:
					prec = fmt.Sprintf("%d", a.Int())
				default:
					panic(dumpErr{fmt.Sprintf("datetime argument %T", arg)})
				}
			}
			fmt.Fprintf(b, "(dt %s %s %s)", name, tmpl, prec)
			return
		}
		fmt.Fprintf(b, "(un %s ", unNames[n.Operator()])
		dumpChain(b, n.Operand())
		b.WriteByte(')')
	case *ast.RegexNode:
		rv := reflect.ValueOf(n).Elem()
		pat := rv.FieldByName("pattern").String()
		flags := rv.FieldByName("flags").Uint()
		b.WriteString("(regex ")
		dumpChain(b, n.Operand())
		fmt.Fprintf(b, " %s %d)", qs(pat), flags)
	case *ast.MethodNode:
		fmt.Fprintf(b, "(meth %s)", methNames[n.Name()])
	case *ast.AnyNode:
		fmt.Fprintf(b, "(any %d %d)", n.First(), n.Last())
	case *ast.ArrayIndexNode:
		b.WriteString("(index")
		for _, sub := range n.Subscripts() {
			bn, ok := sub.(*ast.BinaryNode)
			if !ok || bn.Operator() != ast.BinarySubscript {
				panic(dumpErr{"bad subscript"})
			}
			b.WriteString(" (sub ")
			dumpChain(b, bn.Left())
			b.WriteByte(' ')
			if isNilNode(bn.Right()) {
				b.WriteString("none")
			} else {
				dumpChain(b, bn.Right())
			}
			b.WriteByte(')')
		}
		b.WriteByte(')')
	default:
		panic(dumpErr{fmt.Sprintf("unknown node %T", n)})
	}
}

func pathS(a *ast.AST) string {
	var b strings.Builder
	fmt.Fprintf(&b, "(path %v %v ", a.IsLax(), a.IsPredicate())
	dumpChain(&b, a.Root())
	b.WriteByte(')')
	return b.String()
}

// regexEntries collects (pattern, flags, node) of every like_regex in the tree.
func regexNodes(n ast.Node, acc *[]*ast.RegexNode) {
	for ; !isNilNode(n); n = n.Next() {
		switch n := n.(type) {
		case *ast.BinaryNode:
			regexNodes(n.Left(), acc)
			regexNodes(n.Right(), acc)
		case *ast.UnaryNode:
			regexNodes(n.Operand(), acc)
		case *ast.RegexNode:
			*acc = append(*acc, n)
			regexNodes(n.Operand(), acc)
		case *ast.ArrayIndexNode:
			for _, s := range n.Subscripts() {
				regexNodes(s, acc)
			}
		}
	}
}

// strings of a JSON value (candidates for regex subjects)
func collectStrings(v any, acc map[string]bool) {
	switch v := v.(type) {
	case string:
		acc[v] = true
	case []any:
		for _, e := range v {
			collectStrings(e, acc)
		}
	case map[string]any:
		for k, e := range v {
			acc[k] = true
			collectStrings(e, acc)
		}
	}
}

func pathStrings(n ast.Node, acc map[string]bool) {
	for ; !isNilNode(n); n = n.Next() {
		switch n := n.(type) {
		case *ast.StringNode:
			acc[n.Text()] = true
		case *ast.BinaryNode:
			pathStrings(n.Left(), acc)
			pathStrings(n.Right(), acc)
		case *ast.UnaryNode:
			pathStrings(n.Operand(), acc)
		case *ast.RegexNode:
			pathStrings(n.Operand(), acc)
		case *ast.ArrayIndexNode:
			for _, s := range n.Subscripts() {
				pathStrings(s, acc)
			}
		}
	}
}
