(* Obs.v — projected observables: what the correspondence check compares between
   the implementation and the model (and the specification).  Error values are
   compared by class only, container identity (tags) is ignored, keyvalue ids
   are renamed by first occurrence, object-member order may be ignored. *)
From Coq Require Import Floats.SpecFloat.
From SJ Require Import lib.Base model.Json model.Ast model.ExecLib model.Leaf model.Exec.

Inductive oerr := OEVerbose | OEExec | OEInvalid | OECancel | OENull | OEOther.

Inductive obs :=
| ObItems (l : list json)
| ObFirst (v : json)
| ObBool (b : bool)
| ObErr (e : oerr)
| ObPanic
| ObWeird            (* e.g. an error together with a non-zero value *)
| ObFuel.

Definition oerr_eqb (a b : oerr) : bool :=
  match a, b with
  | OEVerbose, OEVerbose | OEExec, OEExec | OEInvalid, OEInvalid | OECancel, OECancel
  | OENull, OENull | OEOther, OEOther => true
  | _, _ => false
  end.

Definition sf_eqb (a b : f64) : bool :=
  match a, b with
  | S754_zero s, S754_zero t => Bool.eqb s t
  | S754_infinity s, S754_infinity t => Bool.eqb s t
  | S754_nan, S754_nan => true
  | S754_finite s m e, S754_finite t n f => Bool.eqb s t && Pos.eqb m n && Z.eqb e f
  | _, _ => false
  end.

Definition num_eqb (a b : num) : bool :=
  match a, b with
  | NInt x, NInt y => x =? y
  | NFlt x, NFlt y => sf_eqb x y
  | NJs x, NJs y => String.eqb x y
  | _, _ => false
  end.

Definition dt_eqb (a b : datetime) : bool :=
  dtkind_eqb (dt_kind a) (dt_kind b) && (dt_sec a =? dt_sec b) && (dt_nsec a =? dt_nsec b) && (dt_off a =? dt_off b).

Fixpoint json_eqb (a b : json) {struct a} : bool :=
  match a, b with
  | JNull, JNull => true
  | JBool x, JBool y => Bool.eqb x y
  | JNum x, JNum y => num_eqb x y
  | JStr x, JStr y => String.eqb x y
  | JDt x, JDt y => dt_eqb x y
  | JArr _ l, JArr _ m =>
      (fix go (l m : list json) {struct l} : bool :=
         match l, m with
         | [], [] => true
         | x :: l', y :: m' => json_eqb x y && go l' m'
         | _, _ => false
         end) l m
  | JObj _ l, JObj _ m =>
      (fix go (l m : list (string * json)) {struct l} : bool :=
         match l, m with
         | [], [] => true
         | (k, x) :: l', (k', y) :: m' => String.eqb k k' && json_eqb x y && go l' m'
         | _, _ => false
         end) l m
  | _, _ => false
  end.

Fixpoint list_eqb {A} (eq : A -> A -> bool) (l m : list A) : bool :=
  match l, m with
  | [], [] => true
  | x :: l', y :: m' => eq x y && list_eqb eq l' m'
  | _, _ => false
  end.

(* multiset equality *)
Fixpoint remove_first {A} (eq : A -> A -> bool) (x : A) (l : list A) : option (list A) :=
  match l with
  | [] => None
  | y :: r => if eq x y then Some r
              else match remove_first eq x r with Some r' => Some (y :: r') | None => None end
  end.
Fixpoint multiset_eqb {A} (eq : A -> A -> bool) (l m : list A) : bool :=
  match l with
  | [] => match m with [] => true | _ => false end
  | x :: l' => match remove_first eq x m with
               | Some m' => multiset_eqb eq l' m'
               | None => false
               end
  end.

(* keyvalue ids (base*10^10 + address offset) depend on heap addresses.  They are
   renamed by first occurrence: in objects of the exact shape {id,key,value},
   and — when the path uses .keyvalue() ([kv] = Some data) — every integer that
   is not one of the integers [data] occurring in the inputs.  When member order
   is open ([unordered]) first-occurrence numbering is meaningless and ids are
   replaced by 0. *)
Fixpoint assoc_idx (x : Z) (tbl : list Z) (i : Z) : option Z :=
  match tbl with
  | [] => None
  | y :: r => if x =? y then Some i else assoc_idx x r (i + 1)
  end.

Definition rename_id (unordered : bool) (id : Z) (tbl : list Z) : Z * list Z :=
  if unordered then (0, tbl) else
  match assoc_idx id tbl 1 with
  | Some i => (- i, tbl)
  | None => (- (Z.of_nat (List.length tbl) + 1), tbl ++ [id])
  end.

Fixpoint zmem (x : Z) (l : list Z) : bool :=
  match l with [] => false | y :: r => (x =? y) || zmem x r end.

Definition is_kv_triple (l : list (string * json)) : option (Z * json * json) :=
  match l with
  | [(k1, JNum (NInt id)); (k2, key); (k3, value)] =>
      if String.eqb k1 "id" && String.eqb k2 "key" && String.eqb k3 "value" then Some (id, key, value) else None
  | _ => None
  end.

Section Canon.
Variable unordered : bool.
Variable kv : option (list Z).

Fixpoint canon_json (v : json) (tbl : list Z) {struct v} : json * list Z :=
  match v with
  | JNum (NInt z) =>
      match kv with
      | Some data => if zmem z data then (v, tbl)
                     else let '(z', tbl') := rename_id unordered z tbl in (JNum (NInt z'), tbl')
      | None => (v, tbl)
      end
  | JArr t l =>
      let '(l', tbl') :=
        (fix go (l : list json) (tbl : list Z) {struct l} : list json * list Z :=
           match l with
           | [] => ([], tbl)
           | x :: r => let '(x', t1) := canon_json x tbl in
                       let '(r', t2) := go r t1 in (x' :: r', t2)
           end) l tbl in
      (JArr t l', tbl')
  | JObj t l =>
      let '(l', tbl') :=
        (fix go (l : list (string * json)) (tbl : list Z) {struct l} : list (string * json) * list Z :=
           match l with
           | [] => ([], tbl)
           | (k, x) :: r => let '(x', t1) := canon_json x tbl in
                            let '(r', t2) := go r t1 in ((k, x') :: r', t2)
           end) l tbl in
      match kv, is_kv_triple l' with
      | None, Some (id, key, value) =>
          let '(id', tbl'') := rename_id unordered id tbl' in
          (JObj t [("id", JNum (NInt id')); ("key", key); ("value", value)]%string, tbl'')
      | _, _ => (JObj t l', tbl')
      end
  | _ => (v, tbl)
  end.

Fixpoint canon_list (l : list json) (tbl : list Z) : list json :=
  match l with
  | [] => []
  | x :: r => let '(x', t1) := canon_json x tbl in x' :: canon_list r t1
  end.

Definition obs_eqb (a b : obs) : bool :=
  match a, b with
  | ObItems l, ObItems m =>
      let l' := canon_list l [] in let m' := canon_list m [] in
      if unordered then multiset_eqb json_eqb l' m' else list_eqb json_eqb l' m'
  | ObFirst x, ObFirst y => json_eqb (fst (canon_json x [])) (fst (canon_json y []))
  | ObBool x, ObBool y => Bool.eqb x y
  | ObErr x, ObErr y => oerr_eqb x y
  | ObPanic, ObPanic => true
  | _, _ => false
  end.
End Canon.

Definition oerr_of (e : err) : oerr :=
  match e with
  | EVerbose _ => OEVerbose
  | EExec _ => OEExec
  | EInvalid _ => OEInvalid
  | ECancel => OECancel
  end.
Definition oerr_of_api (e : apierr) : oerr := match e with AErr e' => oerr_of e' | ANull => OENull end.

Definition obs_of_q (r : outcome qres) : obs :=
  match r with
  | Ret (QItems l) => ObItems l
  | Ret (QErr e) => ObErr (oerr_of_api e)
  | Panic _ => ObPanic
  | OutOfFuel => ObFuel
  end.
Definition obs_of_f (r : outcome fres) : obs :=
  match r with
  | Ret (FItem (Some v)) => ObFirst v
  | Ret (FItem None) => ObFirst JNull
  | Ret (FErr e) => ObErr (oerr_of_api e)
  | Panic _ => ObPanic
  | OutOfFuel => ObFuel
  end.
Definition obs_of_b (r : outcome bres) : obs :=
  match r with
  | Ret (BVal b) => ObBool b
  | Ret (BErr e) => ObErr (oerr_of_api e)
  | Panic _ => ObPanic
  | OutOfFuel => ObFuel
  end.
