(* Proj.v — every entry point, with and without WithSilent, is a projection of
   the one trace of spec/Sem.v.  These are the statements of C06 ("the five
   entry points tell one story") and C08 ("WithSilent suppresses exactly the
   suppressible errors") in executable form. *)
From SJ Require Import lib.Base model.Json model.Ast model.ExecLib model.Leaf model.Exec spec.Sem.

(* the error object that leaves the executor for a failure e *)
Definition vis (silent : bool) (e : err) : option err :=
  if is_verbose e && silent then None else Some e.

Definition p_query (silent : bool) (t : trace) : qres :=
  match snd t with
  | Some e => match vis silent e with
              | Some e' => QErr (AErr e')
              | None => QItems (fst t)          (* the items found before the suppressed failure *)
              end
  | None => QItems (fst t)
  end.

Definition p_first (silent : bool) (t : trace) : fres :=
  match p_query silent t with
  | QErr e => FErr e
  | QItems (x :: _) => FItem (Some x)
  | QItems [] => FItem None
  end.

Definition p_match (silent : bool) (t : trace) : bres :=
  match p_query silent t with
  | QErr e => BErr e
  | QItems [JNull] => BErr ANull
  | QItems [JBool b] => BVal b
  | QItems _ => if silent then BErr ANull else BErr (AErr (EVerbose "single boolean result is expected"))
  end.

(* Exists: lax mode answers from the first event of the trace; strict mode
   needs the complete evaluation to be free of errors. *)
Definition p_exists (laxm silent : bool) (t : trace) : bres :=
  let failure (e : err) := match vis silent e with Some e' => BErr (AErr e') | None => BErr ANull end in
  if laxm then
    match fst t, snd t with
    | _ :: _, _ => BVal true
    | [], Some e => failure e
    | [], None => BVal false
    end
  else
    match snd t, fst t with
    | Some e, _ => failure e
    | None, [] => BVal false
    | None, _ => BVal true
    end.

Definition p_eom (laxm pred silent : bool) (t : trace) : bres :=
  if pred then p_match silent t else p_exists laxm silent t.

(* The trace of a parsed path on a document under an option set. *)
Definition sem_of (L : ExecLib) (Q : quirks) (p : path) (doc : json) (o : opts) : trace :=
  sem_path L (mkcenv (p_lax p) doc (o_vars o) (o_useTZ o)) Q (p_root p).

Definition spec_query L Q p doc o := p_query (o_silent o) (sem_of L Q p doc o).
Definition spec_first L Q p doc o := p_first (o_silent o) (sem_of L Q p doc o).
Definition spec_match L Q p doc o := p_match (o_silent o) (sem_of L Q p doc o).
Definition spec_exists L Q p doc o := p_exists (p_lax p) (o_silent o) (sem_of L Q p doc o).
Definition spec_eom L Q p doc o := p_eom (p_lax p) (p_pred p) (o_silent o) (sem_of L Q p doc o).

(* ---------- C06 stated directly on observed results ----------
   [q f x m em] are what Query, First, Exists, Match, ExistsOrMatch returned for
   one (path, document, option set).  The checks below are what the property
   says must relate them; they need no model. *)
Definition first_of_query (q : qres) : fres :=
  match q with
  | QErr e => FErr e
  | QItems (x :: _) => FItem (Some x)
  | QItems [] => FItem None
  end.

Definition match_of_query (silent : bool) (q : qres) : bres :=
  match q with
  | QErr e => BErr e
  | QItems [JNull] => BErr ANull
  | QItems [JBool b] => BVal b
  | QItems _ => if silent then BErr ANull else BErr (AErr (EVerbose "single boolean result is expected"))
  end.

(* Exists against a successful Query *)
Definition exists_ok_for_query (q : qres) (x : bres) : bool :=
  match q with
  | QItems l => match x with
                | BVal b => Bool.eqb b (negb (match l with [] => true | _ => false end))
                | BErr _ => false
                end
  | QErr _ => true
  end.

(* a syntactic class for C07: accessors and filters over accessors *)
Fixpoint accessor_step (s : step) : bool :=
  let acc_chain := fix acc_chain (c : list step) : bool :=
    match c with [] => true | x :: r => accessor_step x && acc_chain r end in
  let bound := fun (c : list step) =>
    match c with
    | [SInteger _] | [SNumeric _] | [SConst CLast] => true
    | [SBin BSub [SConst CLast] [SInteger _]] | [SBin BAdd [SConst CLast] [SInteger _]] => true
    | _ => false
    end in
  match s with
  | SConst CRoot | SConst CCurrent | SConst CAnyKey | SConst CAnyArray => true
  | SKey _ | SAny _ _ => true
  | SIndex subs =>
      (fix go (l : list (list step * option (list step))) : bool :=
         match l with
         | [] => true
         | (a, b) :: r => bound a && (match b with Some c => bound c | None => true end) && go r
         end) subs
  | SUn UFilter [SBin op l r] =>
      match op with
      | BEq | BNe | BLt | BGt | BLe | BGe =>
          (* comparisons of accessor chains with literals *)
          let operand := fun (c : list step) =>
            match c with
            | [SInteger _] | [SNumeric _] | [SStr _] | [SConst CNull] | [SConst CTrue] | [SConst CFalse] => true
            | _ => acc_chain c
            end in
          operand l && operand r
      | _ => false
      end
  | SUn UFilter [SUn UExists a] => acc_chain a
  | _ => false
  end.
Fixpoint accessor_chain (c : chain) : bool :=
  match c with [] => true | x :: r => accessor_step x && accessor_chain r end.
