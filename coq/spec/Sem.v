(* Sem.v — the specification S: a compositional trace semantics of SQL/JSON
   paths, written independently of the executor model (model/Exec.v) and as
   simply as possible: no state, no (status, error) pairs, no result-list modes.

   A trace is the item sequence a complete, verbose, collecting evaluation
   produces before it fails, together with the failure if any.  Every entry
   point and option set is a projection of that one trace (spec/Proj.v).

   The rules are those of DESIGN.md appendix D.  Leaf functions (comparison of
   two items, arithmetic on two numbers, item methods) are shared with the
   model: they are pure and have their own theorems.

   Two behaviours of the code that the unedited test suite pins (known findings
   C14-null and C11-isunknown) are switchable through [quirks], so that both the
   documented rule and what the code does today can be stated. *)
From Coq Require Import Floats.SpecFloat.
From SJ Require Import lib.Base model.Json model.Ast model.ExecLib model.Leaf.

Definition trace := (list json * option err)%type.
Definition tnil : trace := ([], None).
Definition tfail (e : err) : trace := ([], Some e).
Definition tone (v : json) : trace := ([v], None).
Definition tapp (a b : trace) : trace :=
  match snd a with Some _ => a | None => (fst a ++ fst b, snd b) end.
Fixpoint tbind_list (l : list json) (k : json -> trace) : trace :=
  match l with [] => tnil | x :: r => tapp (k x) (tbind_list r k) end.

Record quirks := mkq {
  q_skip_null : bool;      (* subscripts skip selected JSON null elements (array_test.go skip_nil) *)
  q_iu_swallow : bool      (* "is unknown" turns a non-suppressible error of its operand into true (boolean_test.go) *)
}.
Definition quirks_code : quirks := mkq true true.      (* what /repo does *)
Definition quirks_ideal : quirks := mkq false false.   (* the documented rules *)

Record cenv := mkcenv {
  c_lax : bool;
  c_root : json;
  c_vars : list (string * json);
  c_useTZ : bool
}.

(* the failure a predicate sees: suppressible errors become "unknown" *)
Definition hard (e : err) : option err := if is_verbose e then None else Some e.

Definition unwrapSeq (l : list json) : list json :=
  flat_map (fun x => match x with JArr _ es => es | _ => [x] end) l.

Definition bool_item (p : pout) : json :=
  match p with PUnknown => JNull | PTrue => JBool true | PFalse => JBool false end.

(* total versions of the predicate callbacks (a Panic of the model — an invalid
   json.Number, excluded by wf_doc — is reported as ErrInvalid) *)
Definition total_cb (x : outcome (pout * option err)) : pout * option err :=
  match x with Ret r => r | _ => (PUnknown, Some (EInvalid "panic")) end.

(* the double loop of executePredicate as a function of the two sequences *)
Section Pairs.
  Variable strictm : bool.
  Variable cb : json -> json -> pout * option err.
  Fixpoint spairs_inner (l : json) (rs : list json) (hasErr fnd : bool) : option (pout * option err) * bool * bool :=
    match rs with
    | [] => (None, hasErr, fnd)
    | r :: rs' =>
        match cb l r with
        | (_, Some e) => (Some (PUnknown, Some e), hasErr, fnd)
        | (PUnknown, None) => if strictm then (Some (PUnknown, None), hasErr, fnd) else spairs_inner l rs' true fnd
        | (PTrue, None) => if negb strictm then (Some (PTrue, None), hasErr, fnd) else spairs_inner l rs' hasErr true
        | (PFalse, None) => spairs_inner l rs' hasErr fnd
        end
    end.
  Fixpoint spairs (ls rs : list json) (hasErr fnd : bool) : pout * option err :=
    match ls with
    | [] => if fnd then (PTrue, None) else if hasErr then (PUnknown, None) else (PFalse, None)
    | l :: ls' =>
        match spairs_inner l rs hasErr fnd with
        | (Some p, _, _) => p
        | (None, hasErr', fnd') => spairs ls' rs hasErr' fnd'
        end
    end.
End Pairs.

Definition slice (arr : list json) (from to : Z) : list json :=
  if to <? from then [] else firstn (Z.to_nat (to - from + 1)) (skipn (Z.to_nat from) arr).

Fixpoint insert_key (k : string) (l : list string) : list string :=
  match l with
  | [] => [k]
  | x :: r => match str_compare k x with Gt => x :: insert_key k r | _ => k :: l end
  end.
Definition sort_keys (l : list string) : list string := fold_right insert_key [] l.

(* .keyvalue() ids stand for "base object id and address offset"; the specification
   leaves them abstract: this marker.  Their properties are stated separately (C16). *)
Definition kv_abstract_id : Z := -4611686018427391111.

Section Sem.
Variable L : ExecLib.
Variable C : cenv.
Variable Q : quirks.

Definition laxm : bool := c_lax C.

Definition children (v : json) : list json :=
  match v with JObj _ l => map snd l | JArr _ l => l | _ => [] end.
Definition isCollection (v : json) : bool :=
  match v with JObj _ _ | JArr _ _ => true | _ => false end.

(* .**: node v sits at depth [level]; apply k where the level bounds say so, then descend *)
Fixpoint desc_v (k : json -> trace) (first last : Z) (level : Z) (v : json) {struct v} : trace :=
  tapp (if (level >=? first) || ((first =? max_uint32) && (last =? max_uint32) && negb (isCollection v))
        then k v else tnil)
       (if level <? last then
          match v with
          | JArr _ l => (fix go (l : list json) : trace :=
                           match l with [] => tnil | x :: r => tapp (desc_v k first last (level + 1) x) (go r) end) l
          | JObj _ l => (fix go (l : list (string * json)) : trace :=
                           match l with [] => tnil | x :: r => tapp (desc_v k first last (level + 1) (snd x)) (go r) end) l
          | _ => tnil
          end
        else tnil).
Definition descend (k : json -> trace) (vs : list json) (level first last : Z) : trace :=
  if level >? last then tnil else tbind_list vs (desc_v k first last level).

(* a step that unwraps its target in lax mode: arrays are processed element by
   element, the elements themselves are not unwrapped again *)
Definition unwrap_over (u : bool) (v : json) (one : json -> trace) : trace :=
  match v with JArr _ l => if u then tbind_list l one else one v | _ => one v end.

Definition structural (ig : bool) (what : string) : trace :=
  if ig then tnil else tfail (EVerbose what).

Definition leaf_k (lf : json -> leaf) (k : json -> trace) (x : json) : trace :=
  match lf x with LItem y => k y | LErr e => tfail e end.

(* one subscript bound: the chain must yield exactly one item, numeric, within int32 *)
Definition index_of (t : trace) : Z + err :=
  match snd t with
  | Some e => inr e
  | None => match fst t with
            | [x] => getJSONInt32 L x
            | _ => inr (EVerbose "jsonpath array subscript is not a single numeric value")
            end
  end.

Definition is_bool_binop (op : binop) : bool :=
  match op with
  | BAnd | BOr | BEq | BNe | BLt | BGt | BLe | BGe | BStartsWith => true
  | _ => false
  end.

(* k : innermost array size -> ignore-structural-errors -> item -> trace (the rest of the chain) *)
Definition itemfn := (Z -> bool -> json -> trace) -> json -> Z -> bool -> bool -> json -> trace.
Definition predfn := json -> Z -> bool -> json -> pout * option err.

(* [ev s] is the pair (semantics of s as a path step, semantics of s as a
   predicate); one structural recursion on the step computes both, because a
   predicate used as a path item needs its own predicate value. *)
Fixpoint ev (s : step) {struct s} : itemfn * predfn :=
  let chain := fix chain (n : list step) (cur : json) (lastsz : Z) (ig u : bool) (v : json) {struct n} : trace :=
    match n with
    | [] => tone v
    | s' :: rest => fst (ev s') (fun lsz' ig' x => chain rest cur lsz' ig' laxm x) cur lastsz ig u v
    end in
  let sem_pred_here : predfn := fun (cur : json) (lastsz : Z) (ig : bool) (v : json) =>
    let pred_chain := fun (c : list step) =>
      match c with
      | [q] => snd (ev q) cur lastsz ig v
      | _ => (PUnknown, Some (EInvalid "boolean jsonpath item"))
      end in
    (* an operand sequence, evaluated with errors suppressed *)
    let operand := fun (c : list step) (unwrap : bool) =>
      let t := chain c cur lastsz ig laxm v in
      match snd t with
      | Some e => inr (hard e)
      | None => inl (if unwrap && laxm then unwrapSeq (fst t) else fst t)
      end in
    let predicate := fun (l : list step) (r : option (list step)) (unwrapRight : bool) (cb : json -> json -> pout * option err) =>
      match operand l true with
      | inr e => (PUnknown, e)
      | inl lseq =>
          match (match r with Some rn => operand rn unwrapRight | None => inl [JNull] end) with
          | inr e => (PUnknown, e)
          | inl rseq => spairs (negb laxm) cb lseq rseq false false
          end
      end in
    match s with
    | SBin BAnd l r =>
        match pred_chain l with
        | (PFalse, e) => (PFalse, e)
        | (pl, Some e) => (pl, Some e)
        | (pl, None) => match pred_chain r with
                        | (PTrue, e2) => (pl, e2)
                        | x => x
                        end
        end
    | SBin BOr l r =>
        match pred_chain l with
        | (PTrue, e) => (PTrue, e)
        | (pl, Some e) => (pl, Some e)
        | (pl, None) => match pred_chain r with
                        | (PFalse, _) => (pl, None)
                        | x => x
                        end
        end
    | SBin BStartsWith l r => predicate l (Some r) false executeStartsWith
    | SBin op l r =>
        match op with
        | BEq | BNe | BLt | BGt | BLe | BGe =>
            predicate l (Some r) true (fun a b => total_cb (compareItems L (c_useTZ C) op a b))
        | _ => (PUnknown, Some (EInvalid "invalid jsonpath boolean operator"))
        end
    | SRegex a pat flags => predicate a None false (fun x _ => executeLikeRegex L pat flags x)
    | SUn UNot a =>
        match pred_chain a with
        | (PUnknown, e) => (PUnknown, e)
        | (PTrue, _) => (PFalse, None)
        | (PFalse, _) => (PTrue, None)
        end
    | SUn UIsUnknown a =>
        match pred_chain a with
        | (q, Some e) => if q_iu_swallow Q
                         then (predFrom (match q with PUnknown => true | _ => false end), None)
                         else (PUnknown, Some e)
        | (q, None) => (predFrom (match q with PUnknown => true | _ => false end), None)
        end
    | SUn UExists a =>
        let t := chain a cur lastsz ig laxm v in
        if laxm then
          match fst t, snd t with
          | _ :: _, _ => (PTrue, None)
          | [], Some e => (PUnknown, hard e)
          | [], None => (PFalse, None)
          end
        else
          match snd t, fst t with
          | Some e, _ => (PUnknown, hard e)
          | None, [] => (PFalse, None)
          | None, _ => (PTrue, None)
          end
    | _ => (PUnknown, Some (EInvalid "invalid boolean jsonpath item type"))
    end in
  let sem_step_here : itemfn := fun (k : Z -> bool -> json -> trace) (cur : json) (lastsz : Z) (ig u : bool) (v : json) =>
    match s with
    | SConst CRoot => k lastsz ig (c_root C)
    | SConst CCurrent => k lastsz ig cur
    | SConst CNull => k lastsz ig JNull
    | SConst CTrue => k lastsz ig (JBool true)
    | SConst CFalse => k lastsz ig (JBool false)
    | SConst CLast =>
        if lastsz <? 0 then tfail (EExec "evaluating jsonpath LAST outside of array subscript")
        else k lastsz ig (JNum (NInt (lastsz - 1)))
    | SConst CAnyKey =>
        unwrap_over u v (fun x =>
          match x with
          | JObj _ l => tbind_list (map snd l) (k lastsz ig)
          | _ => structural ig "jsonpath wildcard member accessor can only be applied to an object"
          end)
    | SConst CAnyArray =>
        match v with
        | JArr _ l => tbind_list l (k lastsz ig)
        | _ => if laxm then k lastsz ig v
               else structural ig "jsonpath wildcard array accessor can only be applied to an array"
        end
    | SStr x => k lastsz ig (JStr x)
    | SInteger z => k lastsz ig (JNum (NInt z))
    | SNumeric f => k lastsz ig (JNum (NFlt f))
    | SVar name =>
        match lookup name (c_vars C) with
        | Some val => k lastsz ig val
        | None => tfail (EExec "could not find jsonpath variable")
        end
    | SKey key =>
        unwrap_over u v (fun x =>
          match x with
          | JObj _ l => match lookup key l with
                        | Some y => k lastsz ig y
                        | None => structural ig "JSON object does not contain key"
                        end
          | _ => structural ig "jsonpath member accessor can only be applied to an object"
          end)
    | SAny first last =>
        tapp (if first =? 0 then k lastsz true v else tnil)
             (if isCollection v then descend (k lastsz true) (children v) 1 first last else tnil)
    | SIndex subs =>
        let arr := match v with JArr _ es => Some es | _ => if laxm then Some [v] else None end in
        match arr with
        | None => tfail (EVerbose "jsonpath array accessor can only be applied to an array")
        | Some es =>
            let size := Z.of_nat (List.length es) in
            (fix go (subs : list (list step * option (list step))) : trace :=
               match subs with
               | [] => tnil
               | (a, b) :: rest =>
                   match index_of (chain a cur size ig laxm v) with
                   | inr e => tfail e
                   | inl from =>
                       match (match b with
                              | Some bn => index_of (chain bn cur size ig laxm v)
                              | None => inl from
                              end) with
                       | inr e => tfail e
                       | inl to =>
                           if negb ig && ((from <? 0) || (from >? to) || (to >=? size))
                           then tfail (EVerbose "jsonpath array subscript is out of bounds")
                           else
                             let f := if from <? 0 then 0 else from in
                             let t := if to >=? size then size - 1 else to in
                             let sel := slice es f t in
                             let sel' := if q_skip_null Q then filter (fun x => negb (is_null x)) sel else sel in
                             tapp (tbind_list sel' (k size ig)) (go rest)
                       end
                   end
               end) subs
        end
    | SUn UFilter a =>
        unwrap_over u v (fun x =>
          match (match a with
                 | [p] => snd (ev p) x lastsz ig x
                 | _ => (PUnknown, Some (EInvalid "boolean jsonpath item"))
                 end) with
          | (_, Some e) => tfail e
          | (PTrue, None) => k lastsz ig x
          | (_, None) => tnil
          end)
    | SUn UPlus a | SUn UMinus a =>
        let minus := match s with SUn UMinus _ => true | _ => false end in
        let t := chain a cur lastsz ig laxm v in
        match snd t with
        | Some e => tfail e
        | None =>
            let seq := if laxm then unwrapSeq (fst t) else fst t in
            tbind_list seq (fun x =>
              match x with
              | JNum (NInt z) => k lastsz ig (JNum (NInt (if minus then intUMinus z else z)))
              | JNum (NFlt f) => k lastsz ig (JNum (NFlt (if minus then fneg f else f)))
              | JNum (NJs t') =>
                  match castJSONNumber L t' (if minus then intUMinus else fun z => z) (if minus then fneg else fun f => f) with
                  | Some n => k lastsz ig (JNum n)
                  | None => tfail (EVerbose "operand of unary jsonpath operator is not a numeric value")
                  end
              | _ => tfail (EVerbose "operand of unary jsonpath operator is not a numeric value")
              end)
        end
    | SBin op l r =>
        if is_bool_binop op then
          match sem_pred_here cur lastsz ig v with
          | (_, Some e) => tfail e
          | (p, None) => k lastsz ig (bool_item p)
          end
        else
          let tl := chain l cur lastsz ig laxm v in
          match snd tl with
          | Some e => tfail e
          | None =>
              match (if laxm then unwrapSeq (fst tl) else fst tl) with
              | [lv] =>
                  let tr := chain r cur lastsz ig laxm v in
                  match snd tr with
                  | Some e => tfail e
                  | None =>
                      match (if laxm then unwrapSeq (fst tr) else fst tr) with
                      | [rv] => match execMathOp L lv rv op with
                                | MErr e => tfail e
                                | MOk n => k lastsz ig (JNum n)
                                end
                      | _ => tfail (mathOperandErr "right")
                      end
                  end
              | _ => tfail (mathOperandErr "left")
              end
          end
    | SUn _ _ | SRegex _ _ _ =>
        match sem_pred_here cur lastsz ig v with
        | (_, Some e) => tfail e
        | (p, None) => k lastsz ig (bool_item p)
        end
    | SMeth m =>
        match method_leaf L laxm ig m with
        | Some (unwraps, lf) =>
            if unwraps then unwrap_over u v (leaf_k lf (k lastsz ig)) else leaf_k lf (k lastsz ig) v
        | None =>
            (* .keyvalue(): one {id, key, value} object per member, keys sorted.  The id
               stands for "base object id and address offset"; the specification leaves
               it abstract (0) — its properties are stated separately (C16). *)
            unwrap_over u v (fun x =>
              match x with
              | JObj _ members =>
                  tbind_list
                    (map (fun key => JObj 0 [("id", JNum (NInt kv_abstract_id)); ("key", JStr key);
                                             ("value", match lookup key members with Some y => y | None => JNull end)]%string)
                         (sort_keys (map fst members)))
                    (k lastsz ig)
              | _ => tfail (EVerbose ".keyvalue() can only be applied to an object")
              end)
        end
    | SDecimal p sc => unwrap_over u v (leaf_k (leaf_number L (Some (p, sc))) (k lastsz ig))
    | SDt op tmpl prec => unwrap_over u v (leaf_k (leaf_datetime L (c_useTZ C) op tmpl prec) (k lastsz ig))
    end in
  (sem_step_here, sem_pred_here).

Definition sem_step (s : step) : itemfn := fst (ev s).
Definition sem_pred (s : step) : predfn := snd (ev s).

Fixpoint sem_chain (n : chain) (cur : json) (lastsz : Z) (ig u : bool) (v : json) {struct n} : trace :=
  match n with
  | [] => tone v
  | s :: rest => sem_step s (fun lsz' ig' x => sem_chain rest cur lsz' ig' laxm x) cur lastsz ig u v
  end.

(* the trace of a whole path on a document *)
Definition sem_path (root : chain) : trace :=
  sem_chain root (c_root C) (-1) laxm laxm (c_root C).

End Sem.
