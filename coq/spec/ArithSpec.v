(* ArithSpec.v — what C13 prescribes for one binary arithmetic operation on two
   numeric items, written independently of the code path (Leaf.execMathOp):
   integers first — the exact result when it fits in int64 — otherwise the
   IEEE-754 double result; division and modulo by zero are suppressible errors. *)
From Coq Require Import Floats.SpecFloat.
From SJ Require Import lib.Base model.Json model.Ast model.ExecLib model.Leaf.

Inductive aresult := AInt (z : Z) | AFloat (f : f64) | AErrVerbose | ANotNumeric.

Section Spec.
Variable L : ExecLib.

Definition as_int (v : json) : option Z :=
  match v with
  | JNum (NInt z) => Some z
  | JNum (NJs s) => js_int64 L s
  | _ => None
  end.

Definition as_float (v : json) : option f64 :=
  match v with
  | JNum (NInt z) => Some (xl_of_Z L z)
  | JNum (NFlt f) => Some f
  | JNum (NJs s) => match js_int64 L s with
                    | Some z => Some (xl_of_Z L z)
                    | None => match js_float64 L s with Some (f, false) => Some f | _ => None end
                    end
  | _ => None
  end.

Definition exact_int (op : binop) (x y : Z) : option Z :=
  match op with
  | BAdd => Some (x + y)
  | BSub => Some (x - y)
  | BMul => Some (x * y)
  | BDiv => if y =? 0 then None else Some (Z.quot x y)
  | BMod => if y =? 0 then None else Some (Z.rem x y)
  | _ => None
  end.

Definition float_op (op : binop) (x y : f64) : option f64 :=
  match op with
  | BAdd => Some (fadd x y)
  | BSub => Some (fsub x y)
  | BMul => Some (fmul x y)
  | BDiv => if f_eqb y (S754_zero false) then None else Some (fdiv x y)
  | BMod => if f_eqb y (S754_zero false) then None else Some (xl_mod L x y)
  | _ => None
  end.

Definition arith_spec (op : binop) (a b : json) : aresult :=
  match as_int a, as_int b with
  | Some x, Some y =>
      match exact_int op x y with
      | None => AErrVerbose
      | Some r => if in_int64 r then AInt r
                  else match float_op op (xl_of_Z L x) (xl_of_Z L y) with
                       | Some f => AFloat f
                       | None => AErrVerbose
                       end
      end
  | _, _ =>
      match as_float a, as_float b with
      | Some x, Some y => match float_op op x y with Some f => AFloat f | None => AErrVerbose end
      | _, _ => ANotNumeric
      end
  end.

(* the same for unary minus *)
Definition neg_spec (a : json) : aresult :=
  match as_int a with
  | Some x => if in_int64 (- x) then AInt (- x) else AFloat (fneg (xl_of_Z L x))
  | None => match as_float a with Some f => AFloat (fneg f) | None => ANotNumeric end
  end.

Definition abs_spec (a : json) : aresult :=
  match as_int a with
  | Some x => if in_int64 (Z.abs x) then AInt (Z.abs x) else AFloat (fabs (xl_of_Z L x))
  | None => match as_float a with Some f => AFloat (fabs f) | None => ANotNumeric end
  end.

End Spec.
