(* C13 — Arithmetic is exact or fails loudly.

   "Unary + and - apply to every numeric item of their operand, and binary + - * / %
   require exactly one numeric item on each side (after lax unwrapping), otherwise
   returning a suppressible error; division or modulo by zero is a suppressible
   error, never Inf, NaN or a panic.  When both operands are integers and the exact
   result fits in int64 the result is that integer (quotients either truncated or
   exact), otherwise it is the IEEE-754 double result; a result that does not fit is
   never silently wrapped into a wrong integer, and -(-x) = x, x + y = y + x,
   x * y = y * x hold."

   What is stated, about which object (all lemmas: proofs/ArithProofs.v; glue and
   witnesses: proofs/PropGlue_AR.v):
   A. The leaf functions of the model M (model/Leaf.v, transliterations of
      path/exec/math.go): [executeIntegerMath a b op] (two int64), [executeFloatMath L
      a b op] (two float64) and [execMathOp L l r op] (two json items, any of the
      three numeric representations NInt = int64, NFlt = float64, NJs = json.Number
      text).  [mview_of L v] is how execMathOp reads an operand: MVI z (an int64, or
      a json.Number whose Int64() succeeds), MVF f (a float64, or a json.Number whose
      Float64() succeeds), MVBad (anything else); [rfloat L v] is the float a RIGHT
      operand contributes when the left one is a float (a json.Number is then read
      with Float64() only); [C13_math_paths] is the complete case table.
      [int_exact op a b] is the exact mathematical result in Z (a + b, a - b, a * b,
      Z.quot a b = quotient truncated toward zero, Z.rem a b = remainder with the
      sign of the dividend); [is_arith op] = op is one of + - * / %.  Proved for ALL
      operands: an integer result is exact whenever the exact result is an int64;
      the ONLY integers ever returned are wrap64 of the exact result
      ([C13_integer_result_comes_from_integers]); a float operand gives the
      SpecFloat (IEEE-754 binary64, round to nearest even) result; every error is
      suppressible (EVerbose, [is_verbose]); division and modulo by a zero of any
      representation ([zero_divisor L r]: the int64 0, a float64 +0 or -0, a
      json.Number whose Int64() is 0 or - Int64() failing - whose Float64() is a
      zero) is the error "division by zero" for every left operand, and conversely a
      quotient or remainder is only returned for a divisor that is not zero; + and *
      commute over all nine pairings ([js_consistent L v] = if v is a json.Number
      whose Int64() gives z then its Float64() gives float64(z); [negzero_js L v] = v
      is a json.Number whose Int64() is 0 and whose Float64() is -0, the one way to
      violate it under the laws); unary minus is an involution on int64 and on
      float64; .abs() and unary minus are exact except at MinInt64.
   B. The specification S (spec/Sem.v): [sem_step L C Q (SUn op a) k ...] and
      [sem_step L C Q (SBin op l r) k ...] are the traces of a unary / binary
      arithmetic step (k = the rest of the path, C the evaluation context, [laxm C]
      lax mode).  Unary + and - map [unary_item L minus] over EVERY item of the
      operand sequence, unwrapped in lax mode ([unwrapSeq]), in order, and stop at the
      first non-numeric item with a suppressible error ([map_unary] is that map at
      the end of a path; [neg_num] negates an int64/float64 item, [plain_num x] = x is
      an int64 or float64 item); binary operators fail with the suppressible
      [mathOperandErr "left"/"right"] unless each side is exactly one item after
      unwrapping, and otherwise return what execMathOp says.
   C. Transfer to the executor model M: proofs/RefineClosed.v [query_is_trace]
      (props/C01.v) - M's Query returns the projection p_query of S's trace, S taken
      with [quirks_code] (the two quirks KF-C14-null-subscript and
      KF-C11-isunknown-hard-error do not concern arithmetic steps).
      [C13_query_binary_*] and [C13_query_unary_on_the_model] are that composition for
      the paths  l op r  and  +a / -a : what Query returns (error, or nothing under
      WithSilent, or the execMathOp result).  Panics: props/C05.v (no entry point
      ever returns Panic).
   D. The independent oracle spec/ArithSpec.v [arith_spec L op a b] (with [neg_spec],
      [abs_spec]): what this property prescribes for one operation on two items,
      written without reference to the code path - integers first ([as_int]), the
      exact result [AInt r] when it fits in int64, otherwise the double result
      [AFloat] of the operands converted to float64, [AErrVerbose] for a zero
      divisor, [ANotNumeric] otherwise.  It is the oracle the correspondence check
      runs against the IMPLEMENTATION (driver/main.ml check_c13: the implementation's
      Query of  $x op $y ,  -$x  and  $x.abs()  on the operand corpus must equal
      arith_spec / neg_spec / abs_spec; an integer where the oracle says AFloat is
      classified KF-C13-int64-wrap, a non-finite item KF-C05-float-overflow-inf).
      Here it is compared with the MODEL's execMathOp: every integer answer
      of the oracle is the model's answer ([C13_oracle_integer_answers_are_the_models]);
      for integer operands whose exact result fits they agree on that integer
      ([C13_oracle_agrees_when_result_fits], [C13_oracle_agrees_on_int64_operands]);
      they agree on integer division by zero; and they DISAGREE exactly on the
      overflows of + - *, where the oracle answers with a double and the model with
      the wrapped integer, which is never the exact one ([C13_oracle_flags_every_wrap]).

   Hypotheses, all satisfiable:
     NumLaws L (proofs/LeafLaws.v)  laws of the library's strconv/float oracles;
                      ArithProofs uses two fields only: float64(int64(0)) = +0 and
                      "a text ParseInt accepts is parsed by ParseFloat to the same
                      integer, except that the text -0 is the float -0".  Satisfiable
                      without hypothesis ([C13_numlaws_satisfiable]); the two fields
                      are PROVED of the extracted instance lib0
                      ([C13_numlaws_fields_used_hold_of_instance]); the whole record
                      holds of lib0 given StrconvTrusted, a Prop about float
                      FORMATTING that no C13 proof uses ([C13_numlaws_of_instance]).
     mview_of L l <> MVBad, the js_consistent premise of [C13_plus_times_commute]
                      (Int64() and Float64() of a json.Number text agree): follows
                      from NumLaws except for the text -0
                      ([C13_consistency_from_laws]); witnesses in [C13_hypotheses_satisfiable].
     in_int64 (int_exact op a b) = true   the exact result fits: the property's own
                      premise; [C13_quotient_fits] / [C13_remainder_fits] discharge
                      it for / and % of two int64 (MinInt64 / -1 aside).
     sem_chain ... = (items, None)   the operand chain evaluates without error to
                      items (otherwise its error is the result: [C13_binary_operand_table],
                      [C13_unary_maps_over_every_item] state the general form with no
                      such premise); witnesses [C13_model_hypotheses_satisfiable],
                      [C13_query_operand_sequences].
     o_cancel_at o = None, members_canon L, no_kv / exists_ok / ne_ops: those of
                      props/C01.v (parser output satisfies ne_ops; exists_ok excludes
                      KF-C06-unary-exists, which concerns Exists and exists( ) only).
   Excluded classes (known findings), each refuted below:
     KF-C13-int64-wrap (open; pinned by path/exec/math_test.go): + - * , MinInt64 / -1,
       unary - and .abs() wrap around at the int64 boundary instead of giving the
       double result: "never silently wrapped into a wrong integer" and "otherwise
       it is the IEEE-754 double result" are FALSE of the code for integer operands
       whose exact result does not fit.  [C13_refuted_int64_wrap],
       [C13_oracle_wrap_witness], [C13_query_wrap_on_model_and_spec] (the
       specification S contains the wrap as well: it reuses Leaf.execMathOp, so the
       exactness clause is stated against int_exact / arith_spec, not against S).
     KF-C05-float-overflow-inf (open): a float result may be +-Inf, then NaN, and is
       returned as an item: "never Inf, NaN" holds for division by zero (an error)
       but not for overflow.  [C13_refuted_float_overflow_inf].
     json.Number -0 (finding of this development, no KF entry): the text -0 is +0
       as a left operand (Int64() succeeds) but -0 as the right operand of a float
       (Float64() only), so x * y = y * x and x + y = y + x fail on it in the sign of
       zero.  [C13_refuted_commutativity_negative_zero]; it is exactly the exception
       in [C13_commute_under_laws].
   Not covered: (1) -(-x) = x is stated on int64 items (all of them, MinInt64
   included, since the wrap is an involution), float64 items and sequences of such
   ([C13_double_negation_sequences]); for a json.Number operand unary minus returns
   an int64 or float64 item (castJSONNumber), so the identity holds only up to the
   representation and is not stated.  (2) That the SpecFloat operation IS Go's
   float64 operation, and xl_mod is math.Mod, is the correspondence leg's business
   (lib/F64 test vectors), not a theorem; "the IEEE-754 double result" is stated as
   "the SFadd/SFsub/SFmul/SFdiv 53 1024 result".  (3) The transfer to M (part C) is
   stated for a path that IS the arithmetic expression; for an arithmetic step
   inside a longer path, filter or method argument it is the general refinement
   theorem (props/C01.v) composed with part B, not restated here.  (4) The
   quantifier's corpus (boundary-biased operands, all representations, literals and
   document values) is exercised on the implementation by the correspondence check
   against arith_spec; here the statements are universally quantified instead. *)
From Coq Require Import Floats.SpecFloat.
From SJ Require Import lib.Base lib.F64 lib.Strconv model.Json model.Ast model.ExecLib model.Leaf model.Exec
     spec.Sem spec.Proj spec.ArithSpec extract.Instance proofs.LeafLaws proofs.ArithProofs
     proofs.RefineDefs proofs.Refine proofs.RefineWitness proofs.PropGlue_AR.
Open Scope Z_scope.

(* ---- A1. integer arithmetic (executeIntegerMath) ---- *)

(* + - * : exact whenever the exact result is an int64 *)
Theorem C13_integer_add_sub_mul_exact :
  forall (op : binop) (a b : Z),
    op = BAdd \/ op = BSub \/ op = BMul ->
    in_int64 (int_exact op a b) = true ->
    executeIntegerMath a b op = MOk (NInt (int_exact op a b)).
Proof. exact ArithProofs.C13_int_exact. Qed.
Print Assumptions C13_integer_add_sub_mul_exact.

(* / : the quotient truncated toward zero *)
Theorem C13_integer_quotient_truncated :
  forall a b : Z, b <> 0 -> in_int64 (Z.quot a b) = true ->
    executeIntegerMath a b BDiv = MOk (NInt (Z.quot a b)).
Proof. exact ArithProofs.C13_int_div. Qed.
Print Assumptions C13_integer_quotient_truncated.

Theorem C13_integer_quotient_of_int64 :
  forall a b : Z, in_int64 a = true -> in_int64 b = true -> b <> 0 -> ~ (a = min_int64 /\ b = -1) ->
    executeIntegerMath a b BDiv = MOk (NInt (Z.quot a b)).
Proof. exact ArithProofs.C13_int_div_int64. Qed.
Print Assumptions C13_integer_quotient_of_int64.

(* % : the remainder with the sign of the dividend; it always fits *)
Theorem C13_integer_remainder :
  forall a b : Z, b <> 0 -> executeIntegerMath a b BMod = MOk (NInt (Z.rem a b)).
Proof. exact ArithProofs.C13_int_mod. Qed.
Print Assumptions C13_integer_remainder.

Theorem C13_quotient_fits :
  forall a b : Z, in_int64 a = true -> in_int64 b = true -> b <> 0 -> ~ (a = min_int64 /\ b = -1) ->
    in_int64 (Z.quot a b) = true.
Proof. exact quot_in_int64. Qed.
Print Assumptions C13_quotient_fits.

Theorem C13_remainder_fits :
  forall a b : Z, in_int64 a = true -> b <> 0 -> in_int64 (Z.rem a b) = true.
Proof. exact rem_in_int64. Qed.
Print Assumptions C13_remainder_fits.

(* division and modulo by zero: a suppressible error, not a value *)
Theorem C13_integer_division_by_zero :
  forall (a : Z) (op : binop), op = BDiv \/ op = BMod ->
    executeIntegerMath a 0 op = MErr (EVerbose "division by zero").
Proof. exact ArithProofs.C13_int_by_zero. Qed.
Print Assumptions C13_integer_division_by_zero.

Theorem C13_integer_divisor_of_a_result_is_nonzero :
  forall (a b : Z) (op : binop) (n : num),
    op = BDiv \/ op = BMod -> executeIntegerMath a b op = MOk n -> b <> 0.
Proof. exact ArithProofs.C13_int_divisor_nonzero. Qed.
Print Assumptions C13_integer_divisor_of_a_result_is_nonzero.

(* whatever happens, an integer result is wrap64 of the exact result (the remainder
   is not even wrapped): the ONLY wrong integers are overflows *)
Theorem C13_integer_result_is_wrap_of_exact :
  forall (a b : Z) (op : binop) (n : num),
    executeIntegerMath a b op = MOk n ->
    is_arith op = true /\
    n = NInt (if binop_eqb op BMod then Z.rem a b else wrap64 (int_exact op a b)).
Proof. exact ArithProofs.C13_int_result_shape. Qed.
Print Assumptions C13_integer_result_is_wrap_of_exact.

Theorem C13_integer_only_error_is_division_by_zero :
  forall (a b : Z) (op : binop) (e : err),
    is_arith op = true -> executeIntegerMath a b op = MErr e -> e = EVerbose "division by zero".
Proof. exact ArithProofs.C13_int_errors_verbose. Qed.
Print Assumptions C13_integer_only_error_is_division_by_zero.

(* ---- A2. float arithmetic (executeFloatMath) ---- *)

(* a zero divisor of either sign: an error, never Inf or NaN *)
Theorem C13_float_division_by_zero :
  forall (L : ExecLib) (a : f64) (s : bool) (op : binop), op = BDiv \/ op = BMod ->
    executeFloatMath L a (S754_zero s) op = MErr (EVerbose "division by zero").
Proof. exact ArithProofs.C13_float_by_zero. Qed.
Print Assumptions C13_float_division_by_zero.

Theorem C13_float_divisor_of_a_result_is_nonzero :
  forall (L : ExecLib) (a b : f64) (op : binop) (n : num),
    op = BDiv \/ op = BMod -> executeFloatMath L a b op = MOk n -> f_is_zero b = false.
Proof. exact ArithProofs.C13_float_divisor_nonzero. Qed.
Print Assumptions C13_float_divisor_of_a_result_is_nonzero.

(* the float path returns the SpecFloat (IEEE-754 binary64, nearest-even) operation *)
Theorem C13_float_result_is_ieee :
  forall (L : ExecLib) (a b : f64) (op : binop) (n : num),
    executeFloatMath L a b op = MOk n ->
    n = NFlt (match op with
              | BAdd => SFadd 53 1024 a b
              | BSub => SFsub 53 1024 a b
              | BMul => SFmul 53 1024 a b
              | BDiv => SFdiv 53 1024 a b
              | _ => xl_mod L a b
              end).
Proof. exact ArithProofs.C13_float_result. Qed.
Print Assumptions C13_float_result_is_ieee.

Theorem C13_float_only_error_is_division_by_zero :
  forall (L : ExecLib) (a b : f64) (op : binop) (e : err),
    is_arith op = true -> executeFloatMath L a b op = MErr e -> e = EVerbose "division by zero".
Proof. exact ArithProofs.C13_float_errors_verbose. Qed.
Print Assumptions C13_float_only_error_is_division_by_zero.

(* the zero test of the float path is "is +0 or -0" *)
Theorem C13_float_zero_test :
  forall b : f64, f_eqb b (S754_zero false) = true <-> f_is_zero b = true.
Proof. exact f_eqb_zero_iff. Qed.
Print Assumptions C13_float_zero_test.

(* ---- A3. execMathOp: two items of any representation ---- *)

(* the complete case table *)
Theorem C13_math_paths :
  forall (L : ExecLib) (l r : json) (op : binop),
    execMathOp L l r op =
    match mview_of L l with
    | MVBad => MErr (mathOperandErr "left")
    | MVI a => match mview_of L r with
               | MVI b => executeIntegerMath a b op
               | MVF b => executeFloatMath L (xl_of_Z L a) b op
               | MVBad => MErr (mathOperandErr "right")
               end
    | MVF a => match rfloat L r with
               | Some b => executeFloatMath L a b op
               | None => MErr (mathOperandErr "right")
               end
    end.
Proof. exact execMathOp_paths. Qed.
Print Assumptions C13_math_paths.

(* an operand that is not a (valid, in-range) number: the suppressible operand error *)
Theorem C13_non_numeric_left_operand :
  forall (L : ExecLib) (l r : json) (op : binop),
    mview_of L l = MVBad -> execMathOp L l r op = MErr (mathOperandErr "left").
Proof. exact ArithProofs.C13_non_numeric_left. Qed.
Print Assumptions C13_non_numeric_left_operand.

Theorem C13_non_numeric_right_operand :
  forall (L : ExecLib) (l r : json) (op : binop),
    mview_of L l <> MVBad -> mview_of L r = MVBad -> rfloat L r = None ->
    execMathOp L l r op = MErr (mathOperandErr "right").
Proof. exact ArithProofs.C13_non_numeric_right. Qed.
Print Assumptions C13_non_numeric_right_operand.

Theorem C13_operand_error_is_suppressible :
  forall pos : string, is_verbose (mathOperandErr pos) = true.
Proof. exact mathOperandErr_verbose. Qed.
Print Assumptions C13_operand_error_is_suppressible.

(* every error of a binary arithmetic operator is suppressible *)
Theorem C13_every_error_is_suppressible :
  forall (L : ExecLib) (l r : json) (op : binop) (e : err),
    is_arith op = true -> execMathOp L l r op = MErr e -> is_verbose e = true.
Proof. exact ArithProofs.C13_errors_verbose. Qed.
Print Assumptions C13_every_error_is_suppressible.

(* both operands integers: the integer operation, exact when the result fits *)
Theorem C13_integer_operands_take_the_integer_path :
  forall (L : ExecLib) (l r : json) (op : binop) (a b : Z),
    mview_of L l = MVI a -> mview_of L r = MVI b -> execMathOp L l r op = executeIntegerMath a b op.
Proof. exact ArithProofs.C13_both_int. Qed.
Print Assumptions C13_integer_operands_take_the_integer_path.

Theorem C13_integer_operands_exact_when_fits :
  forall (L : ExecLib) (l r : json) (op : binop) (a b : Z),
    mview_of L l = MVI a -> mview_of L r = MVI b ->
    op = BAdd \/ op = BSub \/ op = BMul ->
    in_int64 (int_exact op a b) = true ->
    execMathOp L l r op = MOk (NInt (int_exact op a b)).
Proof. exact ArithProofs.C13_both_int_exact. Qed.
Print Assumptions C13_integer_operands_exact_when_fits.

(* an integer result comes from two integer operands and is wrap64 of the exact
   result: execMathOp never invents another integer *)
Theorem C13_integer_result_comes_from_integers :
  forall (L : ExecLib) (l r : json) (op : binop) (z : Z),
    execMathOp L l r op = MOk (NInt z) ->
    exists a b : Z,
      mview_of L l = MVI a /\ mview_of L r = MVI b /\ is_arith op = true /\
      z = (if binop_eqb op BMod then Z.rem a b else wrap64 (int_exact op a b)).
Proof. exact ArithProofs.C13_int_exact_or_overflow. Qed.
Print Assumptions C13_integer_result_comes_from_integers.

Theorem C13_integer_result_is_exact_when_fits :
  forall (L : ExecLib) (l r : json) (op : binop) (z a b : Z),
    execMathOp L l r op = MOk (NInt z) -> mview_of L l = MVI a -> mview_of L r = MVI b ->
    in_int64 (int_exact op a b) = true -> z = int_exact op a b.
Proof. exact ArithProofs.C13_int_result_exact_when_fits. Qed.
Print Assumptions C13_integer_result_is_exact_when_fits.

(* a float operand (float64, or a json.Number that is not an integer text) gives a
   float result *)
Theorem C13_float_operand_gives_float_result :
  forall (L : ExecLib) (l r : json) (op : binop) (n : num),
    (exists f : f64, mview_of L l = MVF f) \/ (exists f : f64, mview_of L r = MVF f) ->
    execMathOp L l r op = MOk n -> exists g : f64, n = NFlt g.
Proof. exact ArithProofs.C13_float_operand_float_result. Qed.
Print Assumptions C13_float_operand_gives_float_result.

(* division and modulo by a zero of any representation, every left operand *)
Theorem C13_division_by_zero :
  forall L : ExecLib, NumLaws L ->
  forall (l r : json) (op : binop),
    op = BDiv \/ op = BMod -> zero_divisor L r ->
    execMathOp L l r op =
    MErr (if match mview_of L l with MVBad => true | _ => false end
          then mathOperandErr "left" else EVerbose "division by zero").
Proof. exact ArithProofs.C13_div_by_zero. Qed.
Print Assumptions C13_division_by_zero.

Theorem C13_division_by_zero_is_suppressible_error :
  forall L : ExecLib, NumLaws L ->
  forall (l r : json) (op : binop),
    op = BDiv \/ op = BMod -> zero_divisor L r -> exists m : string, execMathOp L l r op = MErr (EVerbose m).
Proof. exact ArithProofs.C13_div_by_zero_verbose. Qed.
Print Assumptions C13_division_by_zero_is_suppressible_error.

(* conversely a quotient or remainder is only ever returned for a nonzero divisor *)
Theorem C13_quotient_only_for_nonzero_divisor :
  forall L : ExecLib, NumLaws L ->
  forall (l r : json) (op : binop) (n : num),
    op = BDiv \/ op = BMod -> execMathOp L l r op = MOk n -> ~ zero_divisor L r.
Proof. exact ArithProofs.C13_quotient_divisor_nonzero. Qed.
Print Assumptions C13_quotient_only_for_nonzero_divisor.

(* ---- A4. x + y = y + x, x * y = y * x, -(-x) = x ---- *)

(* all nine pairings of int64 / float64 / json.Number; the last two premises say that
   Int64() and Float64() of a json.Number text agree *)
Theorem C13_plus_times_commute :
  forall (L : ExecLib) (op : binop) (l r : json),
    op = BAdd \/ op = BMul ->
    mview_of L l <> MVBad -> mview_of L r <> MVBad ->
    (forall s z, l = JNum (NJs s) -> js_int64 L s = Some z -> js_float64 L s = Some (xl_of_Z L z, false)) ->
    (forall s z, r = JNum (NJs s) -> js_int64 L s = Some z -> js_float64 L s = Some (xl_of_Z L z, false)) ->
    execMathOp L l r op = execMathOp L r l op.
Proof. exact ArithProofs.C13_comm. Qed.
Print Assumptions C13_plus_times_commute.

Theorem C13_plus_commutes :
  forall (L : ExecLib) (l r : json),
    mview_of L l <> MVBad -> mview_of L r <> MVBad -> js_consistent L l -> js_consistent L r ->
    execMathOp L l r BAdd = execMathOp L r l BAdd.
Proof. exact ArithProofs.C13_add_comm. Qed.
Print Assumptions C13_plus_commutes.

Theorem C13_times_commutes :
  forall (L : ExecLib) (l r : json),
    mview_of L l <> MVBad -> mview_of L r <> MVBad -> js_consistent L l -> js_consistent L r ->
    execMathOp L l r BMul = execMathOp L r l BMul.
Proof. exact ArithProofs.C13_mul_comm. Qed.
Print Assumptions C13_times_commutes.

(* under the library laws the only exception is the json.Number text of a negative zero *)
Theorem C13_commute_under_laws :
  forall (L : ExecLib) (op : binop) (l r : json),
    NumLaws L -> op = BAdd \/ op = BMul ->
    mview_of L l <> MVBad -> mview_of L r <> MVBad ->
    ~ (exists s, l = JNum (NJs s) /\ js_int64 L s = Some 0 /\ js_float64 L s = Some (S754_zero true, false)) ->
    ~ (exists s, r = JNum (NJs s) /\ js_int64 L s = Some 0 /\ js_float64 L s = Some (S754_zero true, false)) ->
    execMathOp L l r op = execMathOp L r l op.
Proof. exact ArithProofs.C13_comm_under_laws. Qed.
Print Assumptions C13_commute_under_laws.

Theorem C13_consistency_from_laws :
  forall (L : ExecLib) (v : json), NumLaws L -> ~ negzero_js L v ->
    forall s z, v = JNum (NJs s) -> js_int64 L s = Some z -> js_float64 L s = Some (xl_of_Z L z, false).
Proof. exact js_consistent_from_laws. Qed.
Print Assumptions C13_consistency_from_laws.

(* when an operand is not numeric both orders fail with a suppressible error (the
   message names the side, so the two errors differ) *)
Theorem C13_both_orders_fail_when_not_numeric :
  forall (L : ExecLib) (op : binop) (l r : json),
    mview_of L l = MVBad \/ (mview_of L r = MVBad /\ rfloat L r = None) ->
    (exists e : err, execMathOp L l r op = MErr e /\ is_verbose e = true) /\
    (exists e : err, execMathOp L r l op = MErr e /\ is_verbose e = true).
Proof. exact ArithProofs.C13_comm_errors. Qed.
Print Assumptions C13_both_orders_fail_when_not_numeric.

(* unary minus and .abs() on int64: exact except at MinInt64; minus is an involution
   on every int64 (MinInt64 included) and on every float64 *)
Theorem C13_unary_minus_exact :
  forall x : Z, in_int64 x = true -> x <> min_int64 -> intUMinus x = - x.
Proof. exact ArithProofs.C13_intUMinus_exact. Qed.
Print Assumptions C13_unary_minus_exact.

Theorem C13_double_negation_int64 :
  forall x : Z, in_int64 x = true -> intUMinus (intUMinus x) = x.
Proof. exact ArithProofs.C13_intUMinus_involutive. Qed.
Print Assumptions C13_double_negation_int64.

Theorem C13_double_negation_float64 : forall f : f64, fneg (fneg f) = f.
Proof. exact ArithProofs.C13_fneg_involutive. Qed.
Print Assumptions C13_double_negation_float64.

Theorem C13_abs_exact :
  forall x : Z, in_int64 x = true -> x <> min_int64 -> intAbs x = Z.abs x.
Proof. exact ArithProofs.C13_intAbs_exact. Qed.
Print Assumptions C13_abs_exact.

Theorem C13_double_negation_items :
  forall x : json, (forall z, x = JNum (NInt z) -> in_int64 z = true) -> neg_num (neg_num x) = x.
Proof. exact neg_num_involutive. Qed.
Print Assumptions C13_double_negation_items.

(* -l negates every item, and -(-l) = l, for a sequence l of int64 / float64 items *)
Theorem C13_double_negation_sequences :
  forall (L : ExecLib) (l : list json),
    Forall plain_num l -> Forall (fun x => forall z, x = JNum (NInt z) -> in_int64 z = true) l ->
    map_unary L true l = (map neg_num l, None) /\ map_unary L true (map neg_num l) = (l, None).
Proof. exact unary_minus_twice. Qed.
Print Assumptions C13_double_negation_sequences.

(* ---- B. the specification S: operand sequences ---- *)

(* unary + and - apply to EVERY item of the operand sequence (unwrapped in lax mode),
   in order; the first non-numeric item is an error; an error of the operand chain
   is the result *)
Theorem C13_unary_maps_over_every_item :
  forall (L : ExecLib) (C : cenv) (Q : quirks) (op : unop) (a : list step)
         (k : Z -> bool -> json -> trace) (c : json) (z : Z) (ig u : bool) (v : json),
    op = UPlus \/ op = UMinus ->
    sem_step L C Q (SUn op a) k c z ig u v =
    let t := sem_chain L C Q a c z ig (laxm C) v in
    match snd t with
    | Some e => tfail e
    | None =>
        tbind_list (if laxm C then unwrapSeq (fst t) else fst t)
          (fun x : json => match unary_item L (is_minus op) x with
                           | inl y => k z ig y
                           | inr e => tfail e
                           end)
    end.
Proof. exact ArithProofs.C13_unary_maps_over. Qed.
Print Assumptions C13_unary_maps_over_every_item.

(* ... and that error is suppressible *)
Theorem C13_unary_error_is_suppressible :
  forall (L : ExecLib) (m : bool) (x : json) (e : err), unary_item L m x = inr e -> is_verbose e = true.
Proof. exact unary_item_error_verbose. Qed.
Print Assumptions C13_unary_error_is_suppressible.

(* at the end of a path the result is the mapped sequence *)
Theorem C13_unary_result_is_the_mapped_sequence :
  forall (L : ExecLib) (C : cenv) (Q : quirks) (op : unop) (a : chain) (c : json)
         (z : Z) (ig u : bool) (v : json) (items : list json),
    op = UPlus \/ op = UMinus ->
    sem_chain L C Q a c z ig (laxm C) v = (items, None) ->
    sem_chain L C Q [SUn op a] c z ig u v =
    map_unary L (is_minus op) (if laxm C then unwrapSeq items else items).
Proof. exact ArithProofs.C13_unary_result. Qed.
Print Assumptions C13_unary_result_is_the_mapped_sequence.

Theorem C13_unary_minus_negates_all :
  forall (L : ExecLib) (l : list json), Forall plain_num l -> map_unary L true l = (map neg_num l, None).
Proof. exact ArithProofs.C13_unary_minus_all. Qed.
Print Assumptions C13_unary_minus_negates_all.

Theorem C13_unary_plus_keeps_all :
  forall (L : ExecLib) (l : list json), Forall plain_num l -> map_unary L false l = (l, None).
Proof. exact ArithProofs.C13_unary_plus_all. Qed.
Print Assumptions C13_unary_plus_keeps_all.

(* binary operators: exactly one item on each side, after lax unwrapping *)
Theorem C13_binary_operand_table :
  forall (L : ExecLib) (C : cenv) (Q : quirks) (op : binop) (l r : list step)
         (k : Z -> bool -> json -> trace) (c : json) (z : Z) (ig u : bool) (v : json),
    is_bool_binop op = false ->
    sem_step L C Q (SBin op l r) k c z ig u v =
    let tl := sem_chain L C Q l c z ig (laxm C) v in
    match snd tl with
    | Some e => tfail e
    | None =>
        match (if laxm C then unwrapSeq (fst tl) else fst tl) with
        | [lv] =>
            let tr := sem_chain L C Q r c z ig (laxm C) v in
            match snd tr with
            | Some e => tfail e
            | None =>
                match (if laxm C then unwrapSeq (fst tr) else fst tr) with
                | [rv] => match execMathOp L lv rv op with
                          | MErr e => tfail e
                          | MOk n => k z ig (JNum n)
                          end
                | _ => tfail (mathOperandErr "right")
                end
            end
        | _ => tfail (mathOperandErr "left")
        end
    end.
Proof. exact ArithProofs.C13_binary_operands. Qed.
Print Assumptions C13_binary_operand_table.

Theorem C13_binary_left_not_one_item :
  forall (L : ExecLib) (C : cenv) (Q : quirks) (op : binop) (l : chain) (r : list step)
         (k : Z -> bool -> json -> trace) (c : json) (z : Z) (ig u : bool) (v : json) (items : list json),
    is_bool_binop op = false ->
    sem_chain L C Q l c z ig (laxm C) v = (items, None) ->
    ~ (exists x, (if laxm C then unwrapSeq items else items) = [x]) ->
    sem_step L C Q (SBin op l r) k c z ig u v = tfail (mathOperandErr "left").
Proof. exact ArithProofs.C13_binary_left_not_single. Qed.
Print Assumptions C13_binary_left_not_one_item.

Theorem C13_binary_right_not_one_item :
  forall (L : ExecLib) (C : cenv) (Q : quirks) (op : binop) (l r : chain)
         (k : Z -> bool -> json -> trace) (c : json) (z : Z) (ig u : bool) (v lv : json)
         (ritems litems : list json),
    is_bool_binop op = false ->
    sem_chain L C Q l c z ig (laxm C) v = (litems, None) ->
    (if laxm C then unwrapSeq litems else litems) = [lv] ->
    sem_chain L C Q r c z ig (laxm C) v = (ritems, None) ->
    ~ (exists x, (if laxm C then unwrapSeq ritems else ritems) = [x]) ->
    sem_step L C Q (SBin op l r) k c z ig u v = tfail (mathOperandErr "right").
Proof. exact ArithProofs.C13_binary_right_not_single. Qed.
Print Assumptions C13_binary_right_not_one_item.

Theorem C13_binary_one_item_each_side :
  forall (L : ExecLib) (C : cenv) (Q : quirks) (op : binop) (l r : chain)
         (k : Z -> bool -> json -> trace) (c : json) (z : Z) (ig u : bool) (v lv rv : json)
         (litems ritems : list json),
    is_bool_binop op = false ->
    sem_chain L C Q l c z ig (laxm C) v = (litems, None) ->
    (if laxm C then unwrapSeq litems else litems) = [lv] ->
    sem_chain L C Q r c z ig (laxm C) v = (ritems, None) ->
    (if laxm C then unwrapSeq ritems else ritems) = [rv] ->
    sem_step L C Q (SBin op l r) k c z ig u v =
    match execMathOp L lv rv op with MErr e => tfail e | MOk n => k z ig (JNum n) end.
Proof. exact ArithProofs.C13_binary_singletons. Qed.
Print Assumptions C13_binary_one_item_each_side.

(* ---- C. on the executor model M: Query of  l op r  and of  +a / -a ---- *)

Theorem C13_query_binary_on_the_model :
  forall (L : ExecLib) (p : path) (doc : json) (o : opts),
    o_cancel_at o = None -> members_canon L ->
    no_kv (p_root p) = true -> exists_ok (p_root p) = true -> ne_ops (p_root p) = true ->
  forall (op : binop) (l r : list step) (litems ritems : list json) (lv rv : json),
    p_root p = [SBin op l r] -> is_bool_binop op = false ->
    sem_chain L (mkcenv (p_lax p) doc (o_vars o) (o_useTZ o)) quirks_code l doc (-1) (p_lax p) (p_lax p) doc
      = (litems, None) ->
    (if p_lax p then unwrapSeq litems else litems) = [lv] ->
    sem_chain L (mkcenv (p_lax p) doc (o_vars o) (o_useTZ o)) quirks_code r doc (-1) (p_lax p) (p_lax p) doc
      = (ritems, None) ->
    (if p_lax p then unwrapSeq ritems else ritems) = [rv] ->
  forall (fuel : nat) (q : qres), Query L fuel p doc o = Ret q ->
    qres_sim q (p_query (o_silent o)
                  (match execMathOp L lv rv op with MErr e => tfail e | MOk n => tone (JNum n) end)).
Proof. exact query_binary_singletons. Qed.
Print Assumptions C13_query_binary_on_the_model.

Theorem C13_query_binary_left_not_one_item_on_the_model :
  forall (L : ExecLib) (p : path) (doc : json) (o : opts),
    o_cancel_at o = None -> members_canon L ->
    no_kv (p_root p) = true -> exists_ok (p_root p) = true -> ne_ops (p_root p) = true ->
  forall (op : binop) (l r : list step) (litems : list json),
    p_root p = [SBin op l r] -> is_bool_binop op = false ->
    sem_chain L (mkcenv (p_lax p) doc (o_vars o) (o_useTZ o)) quirks_code l doc (-1) (p_lax p) (p_lax p) doc
      = (litems, None) ->
    ~ (exists x, (if p_lax p then unwrapSeq litems else litems) = [x]) ->
  forall (fuel : nat) (q : qres), Query L fuel p doc o = Ret q ->
    qres_sim q (if o_silent o then QItems [] else QErr (AErr (mathOperandErr "left"))).
Proof. exact query_binary_left_not_single. Qed.
Print Assumptions C13_query_binary_left_not_one_item_on_the_model.

Theorem C13_query_binary_right_not_one_item_on_the_model :
  forall (L : ExecLib) (p : path) (doc : json) (o : opts),
    o_cancel_at o = None -> members_canon L ->
    no_kv (p_root p) = true -> exists_ok (p_root p) = true -> ne_ops (p_root p) = true ->
  forall (op : binop) (l r : list step) (litems : list json) (lv : json) (ritems : list json),
    p_root p = [SBin op l r] -> is_bool_binop op = false ->
    sem_chain L (mkcenv (p_lax p) doc (o_vars o) (o_useTZ o)) quirks_code l doc (-1) (p_lax p) (p_lax p) doc
      = (litems, None) ->
    (if p_lax p then unwrapSeq litems else litems) = [lv] ->
    sem_chain L (mkcenv (p_lax p) doc (o_vars o) (o_useTZ o)) quirks_code r doc (-1) (p_lax p) (p_lax p) doc
      = (ritems, None) ->
    ~ (exists x, (if p_lax p then unwrapSeq ritems else ritems) = [x]) ->
  forall (fuel : nat) (q : qres), Query L fuel p doc o = Ret q ->
    qres_sim q (if o_silent o then QItems [] else QErr (AErr (mathOperandErr "right"))).
Proof. exact query_binary_right_not_single. Qed.
Print Assumptions C13_query_binary_right_not_one_item_on_the_model.

Theorem C13_query_unary_on_the_model :
  forall (L : ExecLib) (p : path) (doc : json) (o : opts),
    o_cancel_at o = None -> members_canon L ->
    no_kv (p_root p) = true -> exists_ok (p_root p) = true -> ne_ops (p_root p) = true ->
  forall (op : unop) (a : list step) (items : list json),
    p_root p = [SUn op a] -> op = UPlus \/ op = UMinus ->
    sem_chain L (mkcenv (p_lax p) doc (o_vars o) (o_useTZ o)) quirks_code a doc (-1) (p_lax p) (p_lax p) doc
      = (items, None) ->
  forall (fuel : nat) (q : qres), Query L fuel p doc o = Ret q ->
    qres_sim q (p_query (o_silent o) (map_unary L (is_minus op) (if p_lax p then unwrapSeq items else items))).
Proof. exact query_unary_maps_over. Qed.
Print Assumptions C13_query_unary_on_the_model.

(* ---- D. the independent oracle arith_spec against the model's execMathOp ---- *)

Theorem C13_oracle_integer_answers_are_the_models :
  forall (L : ExecLib) (op : binop) (l r : json) (z : Z),
    arith_spec L op l r = AInt z -> execMathOp L l r op = MOk (NInt z).
Proof. exact arith_spec_int_is_model. Qed.
Print Assumptions C13_oracle_integer_answers_are_the_models.

Theorem C13_oracle_agrees_when_result_fits :
  forall (L : ExecLib) (op : binop) (l r : json) (a b : Z),
    mview_of L l = MVI a -> mview_of L r = MVI b ->
    is_arith op = true -> (op = BDiv \/ op = BMod -> b <> 0) ->
    in_int64 (int_exact op a b) = true ->
    arith_spec L op l r = AInt (int_exact op a b) /\ execMathOp L l r op = MOk (NInt (int_exact op a b)).
Proof. exact arith_spec_agrees_when_fits. Qed.
Print Assumptions C13_oracle_agrees_when_result_fits.

Theorem C13_oracle_agrees_on_int64_operands :
  forall (L : ExecLib) (op : binop) (a b : Z),
    op = BAdd \/ op = BSub \/ op = BMul \/ ((op = BDiv \/ op = BMod) /\ b <> 0) ->
    in_int64 (int_exact op a b) = true ->
    arith_spec L op (JNum (NInt a)) (JNum (NInt b)) = AInt (int_exact op a b) /\
    execMathOp L (JNum (NInt a)) (JNum (NInt b)) op = MOk (NInt (int_exact op a b)).
Proof. exact arith_spec_agrees_int64. Qed.
Print Assumptions C13_oracle_agrees_on_int64_operands.

Theorem C13_oracle_agrees_on_integer_division_by_zero :
  forall (L : ExecLib) (op : binop) (l r : json) (a : Z),
    mview_of L l = MVI a -> mview_of L r = MVI 0 -> op = BDiv \/ op = BMod ->
    arith_spec L op l r = AErrVerbose /\ execMathOp L l r op = MErr (EVerbose "division by zero").
Proof. exact arith_spec_agrees_int_by_zero. Qed.
Print Assumptions C13_oracle_agrees_on_integer_division_by_zero.

(* the disagreement is exactly KF-C13-int64-wrap: the model's integer is not the exact
   result, the oracle answers with a double *)
Theorem C13_oracle_flags_every_wrap :
  forall (L : ExecLib) (op : binop) (l r : json) (a b : Z),
    mview_of L l = MVI a -> mview_of L r = MVI b ->
    op = BAdd \/ op = BSub \/ op = BMul ->
    in_int64 (int_exact op a b) = false ->
    execMathOp L l r op = MOk (NInt (wrap64 (int_exact op a b))) /\
    wrap64 (int_exact op a b) <> int_exact op a b /\
    (exists f : f64, arith_spec L op l r = AFloat f).
Proof. exact arith_spec_flags_wrap. Qed.
Print Assumptions C13_oracle_flags_every_wrap.

Theorem C13_oracle_agrees_on_unary_minus :
  forall (L : ExecLib) (x : Z), in_int64 x = true -> x <> min_int64 ->
    neg_spec L (JNum (NInt x)) = AInt (intUMinus x).
Proof. exact neg_spec_agrees. Qed.
Print Assumptions C13_oracle_agrees_on_unary_minus.

Theorem C13_oracle_agrees_on_abs :
  forall (L : ExecLib) (x : Z), in_int64 x = true -> x <> min_int64 ->
    abs_spec L (JNum (NInt x)) = AInt (intAbs x).
Proof. exact abs_spec_agrees. Qed.
Print Assumptions C13_oracle_agrees_on_abs.

(* ---- witnesses on the extracted instance lib0: non-vacuity ---- *)

Example C13_hypotheses_satisfiable :
  execMathOp lib0 (JNum (NInt 7)) (JNum (NInt (-2))) BDiv = MOk (NInt (-3)) /\
  execMathOp lib0 (JNum (NInt (-7))) (JNum (NInt 2)) BMod = MOk (NInt (-1)) /\
  execMathOp lib0 (JNum (NJs "7")) (JNum (NJs "2.5")) BAdd = execMathOp lib0 (JNum (NJs "2.5")) (JNum (NJs "7")) BAdd /\
  mview_of lib0 (JNum (NJs "2.5")) <> MVBad /\ js_consistent lib0 (JNum (NJs "7")) /\
  zero_divisor lib0 (JNum (NJs "0.0")) /\
  execMathOp lib0 (JNum (NFlt (S754_zero false))) (JNum (NJs "0.0")) BDiv = MErr (EVerbose "division by zero").
Proof. exact C13_examples. Qed.
Print Assumptions C13_hypotheses_satisfiable.

Theorem C13_numlaws_satisfiable : exists L : ExecLib, NumLaws L.
Proof. exact numlaws_satisfiable. Qed.
Print Assumptions C13_numlaws_satisfiable.

Theorem C13_numlaws_fields_used_hold_of_instance :
  xl_of_Z lib0 0 = S754_zero false /\
  (forall s z, js_int64 lib0 s = Some z ->
     js_float64 lib0 s = Some (xl_of_Z lib0 z, false) \/ (z = 0 /\ js_float64 lib0 s = Some (S754_zero true, false))).
Proof. exact numlaws_fields_used_by_arith. Qed.
Print Assumptions C13_numlaws_fields_used_hold_of_instance.

Theorem C13_numlaws_of_instance : StrconvTrusted -> NumLaws lib0.
Proof. exact numlaws_lib0. Qed.
Print Assumptions C13_numlaws_of_instance.

Example C13_oracle_agree_witness :
  execMathOp lib0 (JNum (NInt 9223372036854775806)) (JNum (NInt 1)) BAdd = MOk (NInt 9223372036854775807) /\
  arith_spec lib0 BAdd (JNum (NInt 9223372036854775806)) (JNum (NInt 1)) = AInt 9223372036854775807 /\
  execMathOp lib0 (JNum (NInt (-7))) (JNum (NJs "2")) BDiv = MOk (NInt (-3)) /\
  arith_spec lib0 BDiv (JNum (NInt (-7))) (JNum (NJs "2")) = AInt (-3) /\
  execMathOp lib0 (JNum (NInt 1)) (JNum (NJs "0")) BDiv = MErr (EVerbose "division by zero") /\
  arith_spec lib0 BDiv (JNum (NInt 1)) (JNum (NJs "0")) = AErrVerbose /\
  execMathOp lib0 (JNum (NInt 1)) (JNum (NJs "0.0")) BMod = MErr (EVerbose "division by zero") /\
  arith_spec lib0 BMod (JNum (NInt 1)) (JNum (NJs "0.0")) = AErrVerbose.
Proof. exact arith_spec_agree_witness. Qed.
Print Assumptions C13_oracle_agree_witness.

(* $ + 1 on [1] in lax mode: every hypothesis of part C holds *)
Example C13_model_hypotheses_satisfiable :
  let p := mkpath true false [SBin BAdd [SConst CRoot] [SInteger 1]] in
  let doc := JArr 1 [JNum (NInt 1)] in
  let C := mkcenv true doc [] false in
  members_canon lib0 /\ o_cancel_at (o0 false) = None /\
  no_kv (p_root p) = true /\ exists_ok (p_root p) = true /\ ne_ops (p_root p) = true /\
  is_bool_binop BAdd = false /\
  sem_chain lib0 C quirks_code [SConst CRoot] doc (-1) true true doc = ([doc], None) /\
  unwrapSeq [doc] = [JNum (NInt 1)] /\
  sem_chain lib0 C quirks_code [SInteger 1] doc (-1) true true doc = ([JNum (NInt 1)], None) /\
  unwrapSeq [JNum (NInt 1)] = [JNum (NInt 1)] /\
  execMathOp lib0 (JNum (NInt 1)) (JNum (NInt 1)) BAdd = MOk (NInt 2) /\
  Query lib0 30 p doc (o0 false) = Ret (QItems [JNum (NInt 2)]).
Proof. exact query_model_hypotheses_witness. Qed.
Print Assumptions C13_model_hypotheses_satisfiable.

(* 1 / 0 and -0.0 % -0.0 through Query (model) and p_query (specification): an error
   without WithSilent, the empty result with it (o0 true), never an item *)
Example C13_query_division_by_zero :
  Query lib0 30 (mkpath true false [SBin BDiv [SInteger 1] [SInteger 0]]) JNull (o0 false) =
    Ret (QErr (AErr (EVerbose "division by zero"))) /\
  p_query false (sem_of lib0 quirks_code (mkpath true false [SBin BDiv [SInteger 1] [SInteger 0]]) JNull (o0 false)) =
    QErr (AErr (EVerbose "division by zero")) /\
  Query lib0 30 (mkpath true false [SBin BDiv [SInteger 1] [SInteger 0]]) JNull (o0 true) = Ret (QItems []) /\
  Query lib0 30 (mkpath true false [SBin BMod [SConst CRoot] [SConst CRoot]]) (JNum (NFlt (S754_zero true))) (o0 false) =
    Ret (QErr (AErr (EVerbose "division by zero"))).
Proof. exact query_div_by_zero_witness. Qed.
Print Assumptions C13_query_division_by_zero.

(* -$ on [1, -2]: lax mode negates every element, strict mode sees one non-numeric
   item; $ + 1 and 1 + $ on [1, -2] in lax mode: two items on one side; $ + 1 on [1]:
   lax unwrapping leaves exactly one item, strict mode sees an array *)
Example C13_query_operand_sequences :
  Query lib0 30 (mkpath true false [SUn UMinus [SConst CRoot]]) (JArr 1 [JNum (NInt 1); JNum (NInt (-2))]) (o0 false) =
    Ret (QItems [JNum (NInt (-1)); JNum (NInt 2)]) /\
  p_query false (sem_of lib0 quirks_code (mkpath true false [SUn UMinus [SConst CRoot]])
                   (JArr 1 [JNum (NInt 1); JNum (NInt (-2))]) (o0 false)) =
    QItems [JNum (NInt (-1)); JNum (NInt 2)] /\
  Query lib0 30 (mkpath false false [SUn UMinus [SConst CRoot]]) (JArr 1 [JNum (NInt 1); JNum (NInt (-2))]) (o0 false) =
    Ret (QErr (AErr (EVerbose "operand of unary jsonpath operator is not a numeric value"))) /\
  Query lib0 30 (mkpath false false [SUn UMinus [SConst CRoot]]) (JArr 1 [JNum (NInt 1); JNum (NInt (-2))]) (o0 true) =
    Ret (QItems []) /\
  Query lib0 30 (mkpath true false [SBin BAdd [SConst CRoot] [SInteger 1]]) (JArr 1 [JNum (NInt 1); JNum (NInt (-2))]) (o0 false) =
    Ret (QErr (AErr (EVerbose "operand is not a single numeric value: left"))) /\
  Query lib0 30 (mkpath true false [SBin BAdd [SInteger 1] [SConst CRoot]]) (JArr 1 [JNum (NInt 1); JNum (NInt (-2))]) (o0 false) =
    Ret (QErr (AErr (EVerbose "operand is not a single numeric value: right"))) /\
  Query lib0 30 (mkpath true false [SBin BAdd [SConst CRoot] [SInteger 1]]) (JArr 1 [JNum (NInt 1); JNum (NInt (-2))]) (o0 true) =
    Ret (QItems []) /\
  Query lib0 30 (mkpath true false [SBin BAdd [SConst CRoot] [SInteger 1]]) (JArr 1 [JNum (NInt 1)]) (o0 false) =
    Ret (QItems [JNum (NInt 2)]) /\
  Query lib0 30 (mkpath false false [SBin BAdd [SConst CRoot] [SInteger 1]]) (JArr 1 [JNum (NInt 1)]) (o0 false) =
    Ret (QErr (AErr (EVerbose "operand is not a single numeric value: left"))).
Proof. exact query_operand_sequences_witness. Qed.
Print Assumptions C13_query_operand_sequences.

(* ---- the excluded classes are real ---- *)

(* known finding KF-C13-int64-wrap: + - * / , unary minus and .abs() wrap at the int64
   boundary instead of switching to float64 or failing *)
Example C13_refuted_int64_wrap :
  executeIntegerMath 9223372036854775807 1 BAdd = MOk (NInt (-9223372036854775808)) /\
  executeIntegerMath (-9223372036854775808) 1 BSub = MOk (NInt 9223372036854775807) /\
  executeIntegerMath 4611686018427387904 2 BMul = MOk (NInt (-9223372036854775808)) /\
  executeIntegerMath (-9223372036854775808) (-1) BDiv = MOk (NInt (-9223372036854775808)) /\
  intUMinus (-9223372036854775808) = -9223372036854775808 /\
  intAbs (-9223372036854775808) = -9223372036854775808 /\
  execMathOp lib0 (JNum (NInt 9223372036854775807)) (JNum (NJs "1")) BAdd = MOk (NInt (-9223372036854775808)).
Proof. exact C13_refuted_wrap. Qed.
Print Assumptions C13_refuted_int64_wrap.

(* the same operands given to the oracle: 2^63 as a double (4503599627370496 * 2^11) *)
Example C13_oracle_wrap_witness :
  let two63 := S754_finite false 4503599627370496 11 in
  execMathOp lib0 (JNum (NInt 9223372036854775807)) (JNum (NInt 1)) BAdd = MOk (NInt (-9223372036854775808)) /\
  arith_spec lib0 BAdd (JNum (NInt 9223372036854775807)) (JNum (NInt 1)) = AFloat two63 /\
  execMathOp lib0 (JNum (NInt 9223372036854775807)) (JNum (NJs "1")) BAdd = MOk (NInt (-9223372036854775808)) /\
  arith_spec lib0 BAdd (JNum (NInt 9223372036854775807)) (JNum (NJs "1")) = AFloat two63 /\
  execMathOp lib0 (JNum (NInt (-9223372036854775808))) (JNum (NInt (-1))) BDiv = MOk (NInt (-9223372036854775808)) /\
  arith_spec lib0 BDiv (JNum (NInt (-9223372036854775808))) (JNum (NInt (-1))) = AFloat two63 /\
  intUMinus (-9223372036854775808) = -9223372036854775808 /\
  neg_spec lib0 (JNum (NInt (-9223372036854775808))) = AFloat two63 /\
  intAbs (-9223372036854775808) = -9223372036854775808 /\
  abs_spec lib0 (JNum (NInt (-9223372036854775808))) = AFloat two63.
Proof. exact arith_spec_wrap_witness. Qed.
Print Assumptions C13_oracle_wrap_witness.

(* the witness of the finding, 9223372036854775807 + 1, through Query on the model and
   through the specification (which shares Leaf.execMathOp and so wraps as well) *)
Example C13_query_wrap_on_model_and_spec :
  Query lib0 30 (mkpath true false [SBin BAdd [SInteger 9223372036854775807] [SInteger 1]]) JNull (o0 false) =
    Ret (QItems [JNum (NInt (-9223372036854775808))]) /\
  p_query false (sem_of lib0 quirks_code (mkpath true false [SBin BAdd [SInteger 9223372036854775807] [SInteger 1]])
                   JNull (o0 false)) =
    QItems [JNum (NInt (-9223372036854775808))].
Proof. exact query_wrap_witness. Qed.
Print Assumptions C13_query_wrap_on_model_and_spec.

(* known finding KF-C05-float-overflow-inf: a float result may be +-Inf, and then NaN *)
Example C13_refuted_float_overflow_inf :
  match parse_float "1e300" with
  | Some (f, _) =>
      execMathOp lib0 (JNum (NFlt f)) (JNum (NFlt f)) BMul = MOk (NFlt (S754_infinity false)) /\
      execMathOp lib0 (JNum (NFlt (S754_infinity false))) (JNum (NFlt (S754_infinity false))) BSub = MOk (NFlt S754_nan)
  | None => False
  end.
Proof. exact C13_refuted_float_overflow. Qed.
Print Assumptions C13_refuted_float_overflow_inf.

(* finding: the json.Number "-0" is +0 as a left operand (Int64() succeeds) but -0 as the
   right operand of a float (Float64() only): * and + do not commute on it *)
Example C13_refuted_commutativity_negative_zero :
  let two := S754_finite false 4503599627370496 (-51) in
  negzero_js lib0 (JNum (NJs "-0")) /\
  execMathOp lib0 (JNum (NJs "-0")) (JNum (NFlt two)) BMul = MOk (NFlt (S754_zero false)) /\
  execMathOp lib0 (JNum (NFlt two)) (JNum (NJs "-0")) BMul = MOk (NFlt (S754_zero true)) /\
  execMathOp lib0 (JNum (NJs "-0")) (JNum (NFlt (S754_zero true))) BAdd = MOk (NFlt (S754_zero false)) /\
  execMathOp lib0 (JNum (NFlt (S754_zero true))) (JNum (NJs "-0")) BAdd = MOk (NFlt (S754_zero true)).
Proof. exact C13_refuted_comm_negzero. Qed.
Print Assumptions C13_refuted_commutativity_negative_zero.
