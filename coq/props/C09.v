(* C09 — Path steps compose and leave their evaluation context intact.

   "For any prefix path P and any root-independent step sequence S, Query(P S, doc)
   equals the concatenation, over the items x of Query(P, doc) in order, of
   Query($ S, x), failing where the first of those fails; and a path that starts
   from a variable or a literal returns what the same steps return from $ when the
   document is that value.  Evaluating a step never disturbs its context: after a
   nested filter @ again denotes the outer item, after a nested subscript last
   again denotes the outer array, and $ always denotes the whole document."
   Quantifier: all split points of all chains x documents x modes, steps following
   .** in strict mode excluded, keyvalue ids compared modulo base object.

   What is stated about which object.
   (1) About the specification S (spec/Sem.v; sem_path = the trace of a root chain:
       items in order and the first failure).  [C09_query_composes] is the
       property's first sentence, for ALL libraries, environments (document,
       variables, mode), quirk settings, P and S:
         sem_path (P ++ S) = tbind_trace (sem_path P) (fun x => sem_path[$ := x] ($ :: S))
       where tbind_trace t k ([C09_bind_is]) runs k on the items of t in order and
       concatenates up to the first failure, t's own failure coming last — i.e.
       "failing where the first of those fails".  [C09_compose_on_chains] is the same
       at any depth of nesting (any @, any last, any structural-error flag) and needs
       no root-freedom; [C09_chain_append] / [C09_chain_append_cons] are the
       unconditional form (S as the final continuation of P) and
       [C09_step_uses_continuation_in_tail_position] the one fact they rest on.
       [C09_variable_start], [C09_literal_start]: the second sentence.
       The independence theorems say what "root-independent" buys: a chain that does
       not mention $ / @ outside its own filters / last outside its own subscripts
       has the same trace whatever $ / @ / last are ([C09_independence_of_steps],
       [C09_independence_of_chains] — conditions of filters included — and their four
       corollaries).
   (2) "Context intact" in S holds by construction: @ and last are PARAMETERS of
       sem_chain, not state.  [C09_after_filter] and [C09_after_subscript] display
       it: the steps after a filter are evaluated with the same cur and l as the
       filter step itself although the condition ran with @ := candidate; a
       subscript's bounds see this array's size, the steps after it the same @.
       [C09_root_is_document]: $ is c_root C under any continuation.
   (3) About the CODE, i.e. the executor model M (model/Exec.v), where current,
       innermostArraySize, ignoreStructuralErrors, verbose and baseObject ARE
       mutable state with manual save/restore: [C09_model_context_restored]
       (proofs/Invariants1.v, by induction on fuel over every function of Exec.v):
       EVERY call of run — any request, any fuel, any library, any state — that
       returns, returns with cur (@), last_size (last), ign, verbose, base_addr and
       base_id equal to their values on entry; last_id and polls only grow.  $ is
       e_root of the environment E, which run only reads (it is not a field of st).
   (4) Transfer of (1) to M through RefineClosed.query_is_trace (props/C01.v: M's
       Query returns the projection p_query of S's trace, S taken with quirks_code):
       [C09_model_query_composes] — Query of M on P S is the projection of the bind;
       [C09_model_variable_start], [C09_model_literal_start] — two executions of M
       give the same answer (qres_sim: equal items / errors of the same class).

   Hypotheses, all satisfiable ([C09_classes_witness], [C09_classes_witness_nested],
   [C09_model_hypotheses_satisfiable]):
     root_free S, cur_free S, last_closed S   S is "root-independent": no $; no @ that
                          is not inside a filter of S; no last that is not inside a
                          subscript of S.  A suffix S of a parser-produced path has
                          the last two (the parser rejects @ outside filters and last
                          outside subscripts; no lemma links validate_chain to these
                          predicates — not covered).  root_free is needed:
                          [C09_root_free_needed].
     c_lax C = true \/ any_free P = true      the property's exclusion "steps following
                          .** in strict mode": after .** structural errors are ignored
                          for the rest of the chain, so S after P is not S from $.
                          any_free P says P has no .** at top level.  The exclusion is
                          needed: [C09_any_strict_excluded].
     P <> []              only to read P as a path; compose_on_chains has (P = [] -> u = laxm)
     for M: o_cancel_at o = None, members_canon L, no_kv, exists_ok, ne_ops — the side
                          conditions of query_is_trace (see props/C01.v).
   "keyvalue ids compared modulo base object": S gives every .keyvalue() id the one
   marker Sem.kv_abstract_id, so in (1) all ids are equal by construction and the
   theorems of (1) hold for chains WITH .keyvalue(); the transfer (4) excludes
   .keyvalue() (no_kv).  For M the base object is covered by (3) (base_addr, base_id
   restored by every call); the laws of the ids themselves are C16.

   Known findings naming C09 (all open, all part of S through quirks_code, none
   restricts a statement here, which hold for every Q : quirks):
   KF-C14-null-subscript and KF-C11-isunknown-hard-error are behaviours of single
   steps (q_skip_null, q_iu_swallow) that compose like any other; KF-C06-unary-exists
   concerns Exists and exists(), excluded from (4) by exists_ok, not from (1)-(3).

   Not covered: the relation of M's Query(P S) to M's Query(P) and M's Query($ S, x)
   as three executions — (4) relates the first to the specification's bind only (the
   correspondence leg runs the three); Exists/First/Match on composed paths (use
   props/C06.v on the trace); (4) for paths with .keyvalue(). *)
From SJ Require Import lib.Base model.Json model.Ast model.ExecLib model.Leaf model.Exec
     spec.Sem spec.Proj proofs.SemBasics proofs.RefineDefs proofs.Refine proofs.RefineWitness
     proofs.DescendProofs proofs.ComposeProofs proofs.Invariants1 proofs.PropGlue_CF.

(* ---------- (1) composition, on the specification ---------- *)

Theorem C09_query_composes :
  forall (L : ExecLib) (C : cenv) (Q : quirks) (P S : chain),
    P <> [] ->
    root_free S = true -> cur_free S = true -> last_closed S = true ->
    (c_lax C = true \/ any_free P = true) ->
    sem_path L C Q (P ++ S) =
    tbind_trace (sem_path L C Q P) (fun x => sem_path L (set_root C x) Q (SConst CRoot :: S)).
Proof. exact ComposeProofs.C09_compose. Qed.
Print Assumptions C09_query_composes.

(* the bind: k on the items in order, up to the first failure; then t's own failure *)
Theorem C09_bind_is :
  forall (t : trace) (k : json -> trace),
    tbind_trace t k = tapp (tbind_list (fst t) k) ([], snd t).
Proof. exact tbind_trace_eq. Qed.
Print Assumptions C09_bind_is.

Theorem C09_bind_of_success :
  forall (l : list json) (k : json -> trace), tbind_trace (l, None) k = tbind_list l k.
Proof. exact tbind_trace_ok. Qed.
Print Assumptions C09_bind_of_success.

Theorem C09_bind_succeeds_iff :
  forall (t : trace) (k : json -> trace),
    snd (tbind_trace t k) = None <-> snd t = None /\ forall x, In x (fst t) -> snd (k x) = None.
Proof. exact snd_tbind_trace_None. Qed.
Print Assumptions C09_bind_succeeds_iff.

(* the same at any depth of nesting: any @ (cur), any last (l), any structural-error
   flag; S's evaluation on an item does not depend on the outer @ / last *)
Theorem C09_compose_on_chains :
  forall (L : ExecLib) (C : cenv) (Q : quirks) (P S : chain) (cur cur' : json) (l l' : Z)
         (ig u : bool) (v : json),
    cur_free S = true -> last_closed S = true ->
    (P = [] -> u = laxm C) ->
    (ig = true \/ any_free P = true) ->
    sem_chain L C Q (P ++ S) cur l ig u v =
    tbind_trace (sem_chain L C Q P cur l ig u v) (fun x => sem_chain L C Q S cur' l' ig (laxm C) x).
Proof. exact compose_bind. Qed.
Print Assumptions C09_compose_on_chains.

(* unconditionally: S is the final continuation of P *)
Theorem C09_chain_append :
  forall (L : ExecLib) (C : cenv) (Q : quirks) (P S : chain) (cur : json) (l : Z) (ig : bool) (v : json),
    sem_chain L C Q (P ++ S) cur l ig (laxm C) v =
    sem_chain_k L C Q P (fun l' ig' x => sem_chain L C Q S cur l' ig' (laxm C) x) cur l ig (laxm C) v.
Proof. exact chain_app. Qed.
Print Assumptions C09_chain_append.

Theorem C09_chain_append_cons :
  forall (L : ExecLib) (C : cenv) (Q : quirks) (s : step) (P S : chain) (cur : json) (l : Z)
         (ig u : bool) (v : json),
    sem_chain L C Q ((s :: P) ++ S) cur l ig u v =
    sem_chain_k L C Q (s :: P) (fun l' ig' x => sem_chain L C Q S cur l' ig' (laxm C) x) cur l ig u v.
Proof. exact chain_app_cons. Qed.
Print Assumptions C09_chain_append_cons.

(* sem_chain is sem_chain_k with the final continuation "return the item" *)
Theorem C09_chain_is_chain_k :
  forall (L : ExecLib) (C : cenv) (Q : quirks) (n : chain) (cur : json) (l : Z) (ig u : bool) (v : json),
    sem_chain L C Q n cur l ig u v = sem_chain_k L C Q n (fun _ _ x => tone x) cur l ig u v.
Proof. exact sem_chain_is_k. Qed.
Print Assumptions C09_chain_is_chain_k.

(* sem_chain_k with a final continuation that ignores the array size is a bind *)
Theorem C09_chain_k_is_bind :
  forall (L : ExecLib) (C : cenv) (Q : quirks) (P : chain) (kf : Z -> bool -> json -> trace)
         (kf' : json -> trace) (cur : json) (l : Z) (ig u : bool) (v : json),
    (forall l' x, kf l' ig x = kf' x) ->
    (ig = true \/ any_free P = true) ->
    sem_chain_k L C Q P kf cur l ig u v = tbind_trace (sem_chain L C Q P cur l ig u v) kf'.
Proof. exact chain_k_bind. Qed.
Print Assumptions C09_chain_k_is_bind.

(* every step uses its continuation in tail position only; what the continuation
   sees as last / structural-error flag is step_lsz / step_ig (a subscript sets
   last to its array's size; .** sets the flag) *)
Theorem C09_step_uses_continuation_in_tail_position :
  forall (L : ExecLib) (C : cenv) (Q : quirks) (s : step) (k : Z -> bool -> json -> trace)
         (cur : json) (l : Z) (ig u : bool) (v : json),
    sem_step L C Q s k cur l ig u v =
    tbind_trace (sem_step L C Q s (fun _ _ x => tone x) cur l ig u v) (k (step_lsz C s l v) (step_ig s ig)).
Proof. exact sem_step_param. Qed.
Print Assumptions C09_step_uses_continuation_in_tail_position.

(* a path that starts from a variable ... *)
Theorem C09_variable_start :
  forall (L : ExecLib) (C : cenv) (Q : quirks) (x : string) (val : json) (S : chain),
    lookup x (c_vars C) = Some val ->
    root_free S = true -> cur_free S = true -> last_closed S = true ->
    sem_path L C Q (SVar x :: S) = sem_path L (set_root C val) Q (SConst CRoot :: S).
Proof. exact ComposeProofs.C09_variable_start. Qed.
Print Assumptions C09_variable_start.

(* ... or from a literal (string, integer, numeric, null, true, false) *)
Theorem C09_literal_start :
  forall (L : ExecLib) (C : cenv) (Q : quirks) (s : step) (val : json) (S : chain),
    literal_value s = Some val ->
    root_free S = true -> cur_free S = true -> last_closed S = true ->
    sem_path L C Q (s :: S) = sem_path L (set_root C val) Q (SConst CRoot :: S).
Proof. exact ComposeProofs.C09_literal_start. Qed.
Print Assumptions C09_literal_start.

(* ---------- independence of $, @, last ---------- *)

(* [indep s fr fc fl]: s does not mention $ (if fr), @ outside its own filters (if
   fc), last outside its own subscripts (if fl).  Then the step, as a path step and
   as a predicate, evaluates the same when the unmentioned bindings change. *)
Theorem C09_independence_of_steps :
  forall (L : ExecLib) (C : cenv) (Q : quirks) (r' : json) (s : step)
         (fr fc fl : bool) (cur cur' : json) (l l' : Z) (ig u : bool) (v : json),
    indep s fr fc fl = true ->
    (fr = false -> c_root C = r') -> (fc = false -> cur = cur') -> (fl = false -> l = l') ->
    sem_step L C Q s (fun _ _ x => tone x) cur l ig u v =
      sem_step L (set_root C r') Q s (fun _ _ x => tone x) cur' l' ig u v /\
    sem_pred L C Q s cur l ig v = sem_pred L (set_root C r') Q s cur' l' ig v.
Proof. exact indep_step_sound. Qed.
Print Assumptions C09_independence_of_steps.

Theorem C09_independence_of_chains :
  forall (L : ExecLib) (C : cenv) (Q : quirks) (r' : json) (c : chain)
         (fr fc fl : bool) (cur cur' : json) (l l' : Z) (ig u : bool) (v : json),
    indep_chain c fr fc fl = true ->
    (fr = false -> c_root C = r') -> (fc = false -> cur = cur') -> (fl = false -> l = l') ->
    sem_chain L C Q c cur l ig u v = sem_chain L (set_root C r') Q c cur' l' ig u v /\
    SemBasics.pred_chain L C Q c cur l ig v = SemBasics.pred_chain L (set_root C r') Q c cur' l' ig v.
Proof. exact indep_chain_sound. Qed.
Print Assumptions C09_independence_of_chains.

Theorem C09_context_independent :
  forall (L : ExecLib) (C : cenv) (Q : quirks) (S : chain) (cur cur' : json) (l l' : Z)
         (ig u : bool) (v : json),
    cur_free S = true -> last_closed S = true ->
    sem_chain L C Q S cur l ig u v = sem_chain L C Q S cur' l' ig u v.
Proof. exact context_independent. Qed.
Print Assumptions C09_context_independent.

Theorem C09_last_closed_independent :
  forall (L : ExecLib) (C : cenv) (Q : quirks) (S : chain) (cur : json) (l l' : Z) (ig u : bool) (v : json),
    last_closed S = true ->
    sem_chain L C Q S cur l ig u v = sem_chain L C Q S cur l' ig u v.
Proof. exact last_closed_independent. Qed.
Print Assumptions C09_last_closed_independent.

Theorem C09_root_independent :
  forall (L : ExecLib) (C : cenv) (Q : quirks) (S : chain) (r cur : json) (l : Z) (ig u : bool) (v : json),
    root_free S = true ->
    sem_chain L C Q S cur l ig u v = sem_chain L (set_root C r) Q S cur l ig u v.
Proof. exact root_independent. Qed.
Print Assumptions C09_root_independent.

Theorem C09_fully_independent :
  forall (L : ExecLib) (C : cenv) (Q : quirks) (S : chain) (r cur cur' : json) (l l' : Z)
         (ig u : bool) (v : json),
    root_free S = true -> cur_free S = true -> last_closed S = true ->
    sem_chain L C Q S cur l ig u v = sem_chain L (set_root C r) Q S cur' l' ig u v.
Proof. exact fully_independent. Qed.
Print Assumptions C09_fully_independent.

(* one syntactic test gives the three classes *)
Theorem C09_closed_chain_classes :
  forall c : chain,
    closed_chain c = true -> root_free c = true /\ cur_free c = true /\ last_closed c = true.
Proof. exact closed_chain_classes. Qed.
Print Assumptions C09_closed_chain_classes.

(* set_root with the document itself changes nothing *)
Theorem C09_set_root_same : forall C : cenv, set_root C (c_root C) = C.
Proof. exact set_root_same. Qed.
Print Assumptions C09_set_root_same.

(* ---------- (2) context intact, in the specification ---------- *)

(* after a filter the rest of the path sees the @ (cur) and last (l) the filter step
   saw, although the condition was evaluated with @ := the candidate x *)
Theorem C09_after_filter :
  forall (L : ExecLib) (C : cenv) (Q : quirks) (c : step) (rest : chain) (cur : json) (l : Z)
         (ig u : bool) (v : json),
    sem_chain L C Q (SUn UFilter [c] :: rest) cur l ig u v =
    tbind_list (candidates u v)
      (fun x => match sem_pred L C Q c x l ig x with
                | (_, Some e) => tfail e
                | (PTrue, None) => sem_chain L C Q rest cur l ig (laxm C) x
                | (_, None) => tnil
                end).
Proof. exact after_filter. Qed.
Print Assumptions C09_after_filter.

(* a subscript evaluates its bounds (inside index_go) and the rest of the path with
   the same @; the rest sees THIS array's size as last, the bounds do not touch l *)
Theorem C09_after_subscript :
  forall (L : ExecLib) (C : cenv) (Q : quirks) (subs : list (chain * option chain)) (rest : chain)
         (cur : json) (l : Z) (ig u : bool) (v : json) (es : list json),
    index_target C v = Some es ->
    sem_chain L C Q (SIndex subs :: rest) cur l ig u v =
    index_go L C Q es (fun x => sem_chain L C Q rest cur (Z.of_nat (List.length es)) ig (laxm C) x)
             cur ig v subs.
Proof. exact after_subscript. Qed.
Print Assumptions C09_after_subscript.

(* $ is the document at every depth: under any continuation, @, last *)
Theorem C09_root_is_document :
  forall (L : ExecLib) (C : cenv) (Q : quirks) (k : Z -> bool -> json -> trace) (cur : json) (l : Z)
         (ig u : bool) (v : json),
    sem_step L C Q (SConst CRoot) k cur l ig u v = k l ig (c_root C).
Proof. exact root_is_document. Qed.
Print Assumptions C09_root_is_document.

(* ---------- (3) context intact, in the code: the Frame lemma of M ---------- *)

Theorem C09_model_context_restored :
  forall (L : ExecLib) (E : env) (fuel : nat) (r : req) (s : st) (a : ans) (s' : st),
    run L E fuel r s = Ret (a, s') ->
    cur s' = cur s /\ last_size s' = last_size s /\ ign s' = ign s /\ verbose s' = verbose s /\
    base_addr s' = base_addr s /\ base_id s' = base_id s /\
    (last_id s <= last_id s')%Z /\ (polls s <= polls s')%nat.
Proof. exact frame_run. Qed.
Print Assumptions C09_model_context_restored.

(* ---------- (4) transfer of (1) to the model ---------- *)

Theorem C09_model_query_composes :
  forall (L : ExecLib) (lax pred : bool) (P S : chain) (doc : json) (o : opts),
    o_cancel_at o = None -> members_canon L -> P <> [] ->
    no_kv (P ++ S) = true -> exists_ok (P ++ S) = true -> ne_ops (P ++ S) = true ->
    root_free S = true -> cur_free S = true -> last_closed S = true ->
    (lax = true \/ any_free P = true) ->
    forall fuel q, Query L fuel (mkpath lax pred (P ++ S)) doc o = Ret q ->
    qres_sim q (p_query (o_silent o)
                  (tbind_trace (sem_of L quirks_code (mkpath lax pred P) doc o)
                     (fun x => sem_of L quirks_code (mkpath lax pred (SConst CRoot :: S)) x o))).
Proof. exact compose_model. Qed.
Print Assumptions C09_model_query_composes.

Theorem C09_model_variable_start :
  forall (L : ExecLib) (lax pred : bool) (x : string) (val : json) (S : chain) (doc : json) (o : opts),
    o_cancel_at o = None -> members_canon L ->
    no_kv S = true -> exists_ok S = true -> ne_ops S = true ->
    lookup x (o_vars o) = Some val ->
    root_free S = true -> cur_free S = true -> last_closed S = true ->
    forall fuel fuel' q q',
      Query L fuel (mkpath lax pred (SVar x :: S)) doc o = Ret q ->
      Query L fuel' (mkpath lax pred (SConst CRoot :: S)) val o = Ret q' ->
      qres_sim q q'.
Proof. exact variable_start_model. Qed.
Print Assumptions C09_model_variable_start.

Theorem C09_model_literal_start :
  forall (L : ExecLib) (lax pred : bool) (s : step) (val : json) (S : chain) (doc : json) (o : opts),
    o_cancel_at o = None -> members_canon L ->
    no_kv S = true -> exists_ok S = true -> ne_ops S = true ->
    literal_value s = Some val ->
    root_free S = true -> cur_free S = true -> last_closed S = true ->
    forall fuel fuel' q q',
      Query L fuel (mkpath lax pred (s :: S)) doc o = Ret q ->
      Query L fuel' (mkpath lax pred (SConst CRoot :: S)) val o = Ret q' ->
      qres_sim q q'.
Proof. exact literal_start_model. Qed.
Print Assumptions C09_model_literal_start.

(* ---------- witnesses.  cL = DescendProofs.dummyL, a library whose oracles are
   all trivial; L0, o0 as in props/C01.v ---------- *)

(* the hypotheses are satisfiable: P = $.a[*], S = .b *)
Example C09_classes_witness :
  root_free [SKey "b"] = true /\ cur_free [SKey "b"] = true /\ last_closed [SKey "b"] = true /\
  any_free [SConst CRoot; SKey "a"; SConst CAnyArray] = true.
Proof. exact ex_classes. Qed.
Print Assumptions C09_classes_witness.

(* S = [last] ? (@ > 0) uses last inside its own subscript and @ inside its own filter: still closed *)
Example C09_classes_witness_nested :
  root_free [SIndex [([SConst CLast], None)]; SUn UFilter [SBin BGt [SConst CCurrent] [SInteger 0]]] = true /\
  cur_free [SIndex [([SConst CLast], None)]; SUn UFilter [SBin BGt [SConst CCurrent] [SInteger 0]]] = true /\
  last_closed [SIndex [([SConst CLast], None)]; SUn UFilter [SBin BGt [SConst CCurrent] [SInteger 0]]] = true.
Proof. exact ex_classes2. Qed.
Print Assumptions C09_classes_witness_nested.

(* strict $.a[*].b on {"a":[{"b":1},{"b":2},7]} returns 1, 2 and then fails on the
   number 7 — exactly the bind over the three items of $.a[*] *)
Example C09_compose_strict_witness :
  sem_path cL (mkcenv false (JObj 0 [("a", JArr 1 [JObj 2 [("b", JNum (NInt 1))];
                                                    JObj 3 [("b", JNum (NInt 2))]; JNum (NInt 7)])]%string)
                      [] false) quirks_ideal
           ([SConst CRoot; SKey "a"; SConst CAnyArray] ++ [SKey "b"])
  = ([JNum (NInt 1); JNum (NInt 2)],
     Some (EVerbose "jsonpath member accessor can only be applied to an object"))
  /\
  sem_path cL (mkcenv false (JObj 0 [("a", JArr 1 [JObj 2 [("b", JNum (NInt 1))];
                                                    JObj 3 [("b", JNum (NInt 2))]; JNum (NInt 7)])]%string)
                      [] false) quirks_ideal
           [SConst CRoot; SKey "a"; SConst CAnyArray]
  = ([JObj 2 [("b", JNum (NInt 1))]; JObj 3 [("b", JNum (NInt 2))]; JNum (NInt 7)]%string, None).
Proof. exact ex_compose_strict. Qed.
Print Assumptions C09_compose_strict_witness.

(* the exclusion of .** in strict mode is needed: strict $.**.b on the number 7 never
   fails (after .** structural errors are ignored), while $.b on the node 7 fails *)
Example C09_any_strict_excluded :
  sem_path cL (mkcenv false (JNum (NInt 7)) [] false) quirks_ideal
           ([SConst CRoot; SAny 0 max_uint32] ++ [SKey "b"]) = ([], None)
  /\
  sem_path cL (set_root (mkcenv false (JNum (NInt 7)) [] false) (JNum (NInt 7))) quirks_ideal
           (SConst CRoot :: [SKey "b"])
  = ([], Some (EVerbose "jsonpath member accessor can only be applied to an object")).
Proof. exact ex_any_excluded. Qed.
Print Assumptions C09_any_strict_excluded.

(* root_free is needed: P = $.a, S = ? ($.a[2] == 7) on the document cdoc =
   {"a":[{"b":1},{"b":2},7]}: the composition law fails *)
Example C09_root_free_needed :
  sem_path cL (mkcenv false cdoc [] false) quirks_ideal
    ([SConst CRoot; SKey "a"] ++
     [SUn UFilter [SBin BEq [SConst CRoot; SKey "a"; SIndex [([SInteger 2], None)]] [SInteger 7]]])
  <> tbind_trace (sem_path cL (mkcenv false cdoc [] false) quirks_ideal [SConst CRoot; SKey "a"])
       (fun x => sem_path cL (set_root (mkcenv false cdoc [] false) x) quirks_ideal
          (SConst CRoot ::
           [SUn UFilter [SBin BEq [SConst CRoot; SKey "a"; SIndex [([SInteger 2], None)]] [SInteger 7]]])).
Proof. exact ex_root_needed. Qed.
Print Assumptions C09_root_free_needed.

(* a path starting at a variable: $x.a[2] with x = cdoc, and $.a[2] on cdoc *)
Example C09_variable_start_witness :
  sem_path cL (mkcenv false JNull [("x", cdoc)]%string false) quirks_ideal
           (SVar "x" :: [SKey "a"; SIndex [([SInteger 2], None)]])
  = ([JNum (NInt 7)], None)
  /\
  sem_path cL (set_root (mkcenv false JNull [("x", cdoc)]%string false) cdoc) quirks_ideal
           (SConst CRoot :: [SKey "a"; SIndex [([SInteger 2], None)]])
  = ([JNum (NInt 7)], None).
Proof. exact ex_variable. Qed.
Print Assumptions C09_variable_start_witness.

(* the hypotheses of the transfer (4) hold of a concrete input, and the model answers
   as the bind says: strict $.a[*] then .b on cdoc — the error after 1, 2 (the items
   1, 2 with WithSilent); Query(P) gives the three items; Query($ S, x) on the first
   gives 1, on the third the error *)
Example C09_model_hypotheses_satisfiable :
  members_canon L0 /\ o_cancel_at (o0 false) = None /\
  [SConst CRoot; SKey "a"; SConst CAnyArray] <> [] /\
  no_kv ([SConst CRoot; SKey "a"; SConst CAnyArray] ++ [SKey "b"]) = true /\
  exists_ok ([SConst CRoot; SKey "a"; SConst CAnyArray] ++ [SKey "b"]) = true /\
  ne_ops ([SConst CRoot; SKey "a"; SConst CAnyArray] ++ [SKey "b"]) = true /\
  root_free [SKey "b"] = true /\ cur_free [SKey "b"] = true /\ last_closed [SKey "b"] = true /\
  any_free [SConst CRoot; SKey "a"; SConst CAnyArray] = true /\
  Query L0 40 (mkpath false false ([SConst CRoot; SKey "a"; SConst CAnyArray] ++ [SKey "b"])) cdoc (o0 false) =
    Ret (QErr (AErr (EVerbose "jsonpath member accessor can only be applied to an object"))) /\
  Query L0 40 (mkpath false false ([SConst CRoot; SKey "a"; SConst CAnyArray] ++ [SKey "b"])) cdoc (o0 true) =
    Ret (QItems [JNum (NInt 1); JNum (NInt 2)]) /\
  Query L0 40 (mkpath false false [SConst CRoot; SKey "a"; SConst CAnyArray]) cdoc (o0 false) =
    Ret (QItems [JObj 2 [("b", JNum (NInt 1))]; JObj 3 [("b", JNum (NInt 2))]; JNum (NInt 7)]%string) /\
  Query L0 40 (mkpath false false (SConst CRoot :: [SKey "b"])) (JObj 2 [("b", JNum (NInt 1))]%string) (o0 false) =
    Ret (QItems [JNum (NInt 1)]) /\
  Query L0 40 (mkpath false false (SConst CRoot :: [SKey "b"])) (JNum (NInt 7)) (o0 false) =
    Ret (QErr (AErr (EVerbose "jsonpath member accessor can only be applied to an object"))).
Proof. exact compose_model_witness. Qed.
Print Assumptions C09_model_hypotheses_satisfiable.
