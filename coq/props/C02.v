(* C02 — String() and Parse are inverse: Parse(p.String()) yields the same tree,
   and String() is a fixed point of parse-then-print.

   [C02_roundtrip]: for every oracle record L satisfying Laws (lib/GoLib.v) and every
   tree p in the parser image ([wf_path], model/Parser.v; [C04_parse_ok_wf] shows that
   every parsed tree is in it) outside the two excluded classes,
       parse L (print_path L p) = POk p.
   It is the composition of
     [C02_lex_print]      lex L (print_path L p) = tok_path L p     (proofs/LexPrint.v)
     [C02_parse_tokens]   parse_tokens L (tok_path L p) = POk p     (proofs/ParsePrint.v)
   where tok_path (proofs/Tokens.v) is the printer on tokens.  Strings, keys, variable
   names, regex patterns and datetime templates: [C02_quote_roundtrip] - with the \x07
   and \u{...} escapes of ast.quote (repaired finding 8606b27) there is no excluded
   class for texts any more.  Corollaries: [C02_reparse], [C02_print_fixpoint], and
   the wrappers of path.go ([C02_api]: Parse, MustParse, Scan, UnmarshalText/Binary of
   String/Value/MarshalText/MarshalBinary).
   Excluded classes, [excl_C02 p = true] (known findings, pinned by the repo's tests):
     (a) an operator node (binary, unary + - ! exists is-unknown, like_regex) that
         carries an accessor chain prints without the parentheses the grammar needs
         (pinned by path/ast/ast_test.go): [C02_refuted_operator_tail],
         [C02_refuted_operator_tail_other_tree], [C02_refuted_not_tail];
     (b) an integral-valued numeric literal prints as an integer (4.0 -> 4,
         1e20 -> 100000000000000000000; pinned by ast_test.go zero_dot_zero):
         [C02_refuted_integral_numeric], [C02_refuted_integral_numeric_range].
   Not in the parser image (so not excluded, just not reachable):
   -9223372036854775808 (unwritable, see props/C04.v).
   The printer's priority and name tables are pinned to the tables generated from
   /repo ([C02_priorities_match_source], [C02_unary_priorities_match_source],
   [C02_op_names_match_source]).  Non-vacuity: [C02_samples] (a tree of every node
   kind round-trips on the concrete library CL), and tools/parsevec checks the
   executable statement on every tree of its 38,888 inputs. *)
From SJ Require Import lib.Base lib.Utf8 lib.GoLib model.Json model.Ast model.Lexer model.Parser
  model.Printer model.PathAPI proofs.LexProofs proofs.QuoteProofs proofs.RoundTrip proofs.Tokens
  proofs.LexPrint proofs.ParsePrint proofs.ParserMain proofs.ParserTables gen.Priorities gen.OpNames.
Local Open Scope list_scope.

Theorem C02_roundtrip : forall L : GoLib, Laws L ->
  forall p : path, wf_path L p -> excl_C02 p = false -> parse L (print_path L p) = POk p.
Proof. exact C02. Qed.
Print Assumptions C02_roundtrip.

Theorem C02_lex_print : forall L : GoLib, Laws L ->
  forall p : path, wf_path L p -> excl_C02 p = false -> lex L (print_path L p) = tok_path L p.
Proof. exact lex_print. Qed.
Print Assumptions C02_lex_print.

Theorem C02_parse_tokens : forall L : GoLib, Laws L ->
  forall p : path, wf_path L p -> excl_C02 p = false -> parse_tokens L (tok_path L p) = POk p.
Proof. exact parse_tokens_print. Qed.
Print Assumptions C02_parse_tokens.

Theorem C02_reparse : forall L : GoLib, Laws L ->
  forall (s : string) (p : path),
    parse L s = POk p -> excl_C02 p = false -> parse L (print_path L p) = POk p.
Proof. exact ParserMain.C02_reparse. Qed.
Print Assumptions C02_reparse.

Theorem C02_print_fixpoint : forall L : GoLib, Laws L ->
  forall (s : string) (p p' : path),
    parse L s = POk p -> excl_C02 p = false -> parse L (print_path L p) = POk p' ->
    p' = p /\ print_path L p' = print_path L p.
Proof. exact ParserMain.C02_print_fixpoint. Qed.
Print Assumptions C02_print_fixpoint.

Theorem C02_api : forall L : GoLib, Laws L ->
  forall p : path, wf_path L p -> excl_C02 p = false ->
    parse_api L (path_string L p) = inl p /\
    must_parse L (path_string L p) = Ret p /\
    unmarshal_text L (marshal_text L p) = inl p /\
    unmarshal_binary L (marshal_binary L p) = inl p /\
    (forall cur, scan L cur (SrcString (value L p)) = inl (Some p)) /\
    (forall cur, scan L cur (SrcBytes (value L p)) = inl (Some p)).
Proof. exact ParserMain.C02_api. Qed.
Print Assumptions C02_api.

Theorem C02_quote_roundtrip : forall L : GoLib, Laws L ->
  forall (s : string) (t : list Z),
    wf_text s = true -> readable_head (lex_runes_of_bytes t) = true ->
    lex_one L (lex_runes_of_bytes (quote_bytes L s ++ t)) =
      LOk (Some (mktok TString s), fst (view (lex_runes_of_bytes t)), snd (view (lex_runes_of_bytes t))).
Proof. exact quote_roundtrip. Qed.
Print Assumptions C02_quote_roundtrip.

Theorem C02_quote_variable_roundtrip : forall L : GoLib, Laws L ->
  forall (s : string) (t : list Z),
    wf_text s = true -> readable_head (lex_runes_of_bytes t) = true ->
    lex_one L (lex_runes_of_bytes (36 :: quote_bytes L s ++ t)) =
      LOk (Some (mktok TVariable s), fst (view (lex_runes_of_bytes t)), snd (view (lex_runes_of_bytes t))).
Proof. exact quote_var_roundtrip. Qed.
Print Assumptions C02_quote_variable_roundtrip.

(* refutations inside the excluded classes (concrete library CL) *)
Example C02_refuted_operator_tail :
  excl_C02 pa = true /\ print_path CL pa = "(1 * 2.abs() + 3)"%string /\ rt pa = PErr (ELex ENumJunk).
Proof. exact C02_refuted_a. Qed.
Print Assumptions C02_refuted_operator_tail.
Example C02_refuted_operator_tail_other_tree :
  excl_C02 pa' = true /\
  rt pa' = POk (mkpath true false [SBin BAdd [SUn UMinus [SConst CRoot; SKey "a"; SKey "b"]] [SInteger 1]]).
Proof. exact C02_refuted_a'. Qed.
Print Assumptions C02_refuted_operator_tail_other_tree.
Example C02_refuted_not_tail : excl_C02 pa'' = true /\ rt pa'' = PErr ESyntax.
Proof. exact C02_refuted_a''. Qed.
Print Assumptions C02_refuted_not_tail.
Example C02_refuted_integral_numeric :
  excl_C02 pb = true /\ print_path CL pb = "4"%string /\ rt pb = POk (mkpath true false [SInteger 4]).
Proof. exact C02_refuted_b. Qed.
Print Assumptions C02_refuted_integral_numeric.
Example C02_refuted_integral_numeric_range :
  excl_C02 pb' = true /\ print_path CL pb' = "100000000000000000000"%string /\ rt pb' = PErr EIntParse.
Proof. exact C02_refuted_b'. Qed.
Print Assumptions C02_refuted_integral_numeric_range.

(* non-vacuity *)
Example C02_samples : map rt sample_paths = map POk sample_paths.
Proof. exact C02_sample_trees. Qed.
Print Assumptions C02_samples.

(* the printer's tables are the ones in /repo *)
Example C02_priorities_match_source : model_binary_priority = binary_priority.
Proof. vm_compute. reflexivity. Qed.
Print Assumptions C02_priorities_match_source.
Example C02_unary_priorities_match_source : model_unary_priority = unary_priority.
Proof. vm_compute. reflexivity. Qed.
Print Assumptions C02_unary_priorities_match_source.
Example C02_op_names_match_source : model_op_names = op_names.
Proof. vm_compute. reflexivity. Qed.
Print Assumptions C02_op_names_match_source.
