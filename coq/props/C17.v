(* C17 — Datetime methods parse, cast and compare by the time-zone rules.

   The property: .datetime(), .date(), .time(), .time_tz(), .timestamp() and
   .timestamp_tz() accept the documented ISO-8601 forms, return the most specific
   type or the requested cast, with fractional seconds rounded to the given
   precision (capped at 6), and return a non-suppressible error when a cast or a
   comparison between zone-less and zone-aware values is attempted without WithTZ.
   With WithTZ such casts and comparisons use the zone of the context, so comparing
   two datetimes is comparing them after the explicit casts to the common type;
   comparison is antisymmetric and transitive; times are incomparable (unknown)
   with dates and timestamps.

   Objects.  The theorems are about the leaf functions of model/DateTime.v over the
   time.Time model model/GoTime.v: parse_time (types.ParseTime), exec_parse_datetime
   (exec.parseDateTime: the precision argument), exec_cast (castDate ..
   castTimestampTZ), compare_datetime (compareDatetime), dt_to_* (the To* methods),
   for ALL strings, values, contexts (zone, clock) and both settings of WithTZ.
   The model M reaches them through the library extract/Instance.mk_lib;
   [C17_method_*] and [C17_comparison_operators] state what its method leaf and its
   comparison operators (model/Leaf.v) answer: the error for a missing WithTZ is
   EExec, the class that silent mode never suppresses; incomparable is "unknown"
   without an error.  The correspondence leg compares these functions with the Go
   code on the grid of the property (DESIGN.md, oracle C17).
   The matrices are proofs/DateTimeProofs.v's [convertible] (PostgreSQL's cast
   matrix), [comparable] (same family: time-like or not), [mixes] (exactly one side
   zone-less); the Examples [C17_*_pairs] list them exhaustively.

   Hypotheses, all satisfiable:
     wf_dt d          the invariants the New* constructors establish (model/DateTime.v);
                      true of everything ParseTime returns, for every string and
                      precision ([C17_parsed_values_are_wf]); needed only by the
                      zone-less coherence clause and by transitivity
     tz ctx = ZFixed o   the context zone is a fixed offset (UTC, +05:30, ...)
     conv_embeds ctx a b  (general zones) the cast into the context zone preserves
                      the order of the zone-less values a, b; holds for every fixed
                      offset ([C17_fixed_zone_casts_embed])
   Excluded classes (known findings):
     KF-C17-dst-gap-order   with a zone that has daylight-saving gaps, time.Date maps
                      a zone-less timestamp inside a gap to an earlier instant: the
                      cast does not preserve order and comparison across types is not
                      transitive.  [C17_refuted_dst_gap_order] is the counterexample;
                      this is why [C17_compare_transitive] asks for a fixed offset and
                      [C17_compare_transitive_general] for conv_embeds.
     KF-C05-errinvalid-datetime-compare   a datetime compared with a non-datetime
                      item answers ErrInvalid instead of unknown (pinned by
                      compare_test.go): [C17_refuted_datetime_vs_other]; the clauses
                      here are about pairs of datetimes.
   Fixed finding (commit 7b56af4, comparison ignored the context zone that casts
   honour): [C17_compare_is_compare_after_cast] is the general statement, for every
   zone; [C17_context_zone_witness] is the instance of the report.

   Not covered: "accepts the documented forms" is established for the canonical
   printed form of each of the five types, for all values (props/C18.v,
   C18_string_parse_roundtrip) and for the concrete forms of [C17_parse_forms]
   (space separator, Z, hour-only zones, fractions, rejections) — not as a grammar
   of all accepted strings.  The precision argument's int32 range check
   (getNodeInt32) and the propagation of the leaf's answer through the executor to
   Query (suppression by silent mode) are part of the refinement theorem (props/C01.v)
   and of C12, not restated here.  For the time family, "comparing after the cast"
   depends on the clock of the context (Time.ToTimeTZ uses today's date); the
   statement holds for every clock.  Named zones exist in the model only as
   transition tables (ZTable); the IANA database itself is on the Go side. *)
From SJ Require Import lib.Base model.Json model.Ast model.ExecLib model.Leaf
     proofs.KleeneProofs proofs.CompareProofs
     model.Civil model.GoTime model.DateTime extract.Instance
     proofs.DateTimeProofs proofs.PropGlue_DT.
Open Scope Z_scope.

(* ---- casts: the 5x5 matrix and WithTZ ---- *)

Theorem C17_cast_tz_guard :
  (* without WithTZ every convertible pair mixing zone-less and zone-aware is refused *)
  (forall (t : dttarget) (ctx : dctx) (d : datetime),
      convertible t (dt_kind d) = true -> mixes (target_kind t) (dt_kind d) = true ->
      exec_cast t false ctx d = CastTZRequired) /\
  (* with WithTZ no cast asks for it *)
  (forall (t : dttarget) (ctx : dctx) (d : datetime), exec_cast t true ctx d <> CastTZRequired) /\
  (* the other entries of the matrix do not depend on WithTZ *)
  (forall (t : dttarget) (u : bool) (ctx : dctx) (d : datetime),
      convertible t (dt_kind d) = false -> exec_cast t u ctx d = CastNotRecognized) /\
  (forall (t : dttarget) (u : bool) (ctx : dctx) (d : datetime),
      convertible t (dt_kind d) = true -> mixes (target_kind t) (dt_kind d) = false ->
      exists d' : datetime, exec_cast t u ctx d = CastOk d' /\ exec_cast t true ctx d = CastOk d').
Proof. exact cast_tz_guard. Qed.
Print Assumptions C17_cast_tz_guard.

(* a successful cast returns a value of the requested type *)
Theorem C17_cast_returns_requested_type :
  forall (t : dttarget) (u : bool) (ctx : dctx) (d d' : datetime),
    exec_cast t u ctx d = CastOk d' -> dt_kind d' = target_kind t.
Proof. exact exec_cast_kind. Qed.
Print Assumptions C17_cast_returns_requested_type.

(* the matrices, exhaustively: (target, source) pairs that can be cast ... *)
Example C17_convertible_pairs :
  filter (fun p => convertible (fst p) (snd p))
         (list_prod [TDate; TTime; TTimeTZ; TTimestamp; TTimestampTZ]
                    [KDate; KTime; KTimeTZ; KTimestamp; KTimestampTZ])
  = [(TDate, KDate); (TDate, KTimestamp); (TDate, KTimestampTZ);
     (TTime, KTime); (TTime, KTimeTZ); (TTime, KTimestamp); (TTime, KTimestampTZ);
     (TTimeTZ, KTime); (TTimeTZ, KTimeTZ); (TTimeTZ, KTimestampTZ);
     (TTimestamp, KDate); (TTimestamp, KTimestamp); (TTimestamp, KTimestampTZ);
     (TTimestampTZ, KDate); (TTimestampTZ, KTimestamp); (TTimestampTZ, KTimestampTZ)].
Proof. exact convertible_pairs. Qed.
Print Assumptions C17_convertible_pairs.

(* ... and those among them that need WithTZ *)
Example C17_cast_tz_pairs :
  filter (fun p => convertible (fst p) (snd p) && mixes (target_kind (fst p)) (snd p))
         (list_prod [TDate; TTime; TTimeTZ; TTimestamp; TTimestampTZ]
                    [KDate; KTime; KTimeTZ; KTimestamp; KTimestampTZ])
  = [(TDate, KTimestampTZ); (TTime, KTimeTZ); (TTime, KTimestampTZ); (TTimeTZ, KTime);
     (TTimestamp, KTimestampTZ); (TTimestampTZ, KDate); (TTimestampTZ, KTimestamp)].
Proof. exact cast_matrix_tz_pairs. Qed.
Print Assumptions C17_cast_tz_pairs.

(* with a fixed-offset context zone the casts to the zone-aware types are the
   translation by that offset (they "use the time zone carried by the context") *)
Theorem C17_cast_to_timestamptz_fixed_zone :
  forall (ctx : dctx) (o : Z) (d : datetime),
    tz ctx = ZFixed o -> wf_dt d -> dt_kind d = KDate \/ dt_kind d = KTimestamp ->
    dt_to_timestamptz ctx d = mkdt KTimestampTZ (dt_sec d - o) (dt_nsec d) o.
Proof. exact to_timestamptz_fixed. Qed.
Print Assumptions C17_cast_to_timestamptz_fixed_zone.

Theorem C17_cast_to_timetz_fixed_zone :
  forall (ctx : dctx) (o : Z) (d : datetime),
    tz ctx = ZFixed o -> wf_dt d -> dt_kind d = KTime ->
    dt_to_timetz ctx d = mkdt KTimeTZ (dt_sec d - o) (dt_nsec d) o.
Proof. exact to_timetz_fixed. Qed.
Print Assumptions C17_cast_to_timetz_fixed_zone.

(* ---- comparison: the 5x5 matrix and WithTZ ---- *)

Theorem C17_compare_tz_guard :
  (* without WithTZ: zone-less against zone-aware of the same family is refused *)
  (forall (ctx : dctx) (a b : datetime),
      comparable (dt_kind a) (dt_kind b) = true -> mixes (dt_kind a) (dt_kind b) = true ->
      compare_datetime false ctx a b = CmpTZRequired) /\
  (* times against dates and timestamps: incomparable, whatever WithTZ *)
  (forall (u : bool) (ctx : dctx) (a b : datetime),
      comparable (dt_kind a) (dt_kind b) = false -> compare_datetime u ctx a b = CmpIncomparable) /\
  (* the rest of the matrix answers, and the answer does not depend on WithTZ *)
  (forall (u : bool) (ctx : dctx) (a b : datetime),
      comparable (dt_kind a) (dt_kind b) = true -> mixes (dt_kind a) (dt_kind b) = false ->
      exists c : Z, compare_datetime u ctx a b = CmpOk c /\ compare_datetime true ctx a b = CmpOk c) /\
  (forall (u : bool) (ctx : dctx) (a b : datetime),
      dt_kind a = dt_kind b -> exists c : Z, compare_datetime u ctx a b = CmpOk c) /\
  (* with WithTZ no comparison asks for it *)
  (forall (ctx : dctx) (a b : datetime), compare_datetime true ctx a b <> CmpTZRequired).
Proof. exact compare_tz_guard. Qed.
Print Assumptions C17_compare_tz_guard.

Example C17_incomparable_pairs :
  filter (fun p => negb (comparable (fst p) (snd p)))
         (list_prod [KDate; KTime; KTimeTZ; KTimestamp; KTimestampTZ]
                    [KDate; KTime; KTimeTZ; KTimestamp; KTimestampTZ])
  = [(KDate, KTime); (KDate, KTimeTZ);
     (KTime, KDate); (KTime, KTimestamp); (KTime, KTimestampTZ);
     (KTimeTZ, KDate); (KTimeTZ, KTimestamp); (KTimeTZ, KTimestampTZ);
     (KTimestamp, KTime); (KTimestamp, KTimeTZ);
     (KTimestampTZ, KTime); (KTimestampTZ, KTimeTZ)].
Proof. exact incomparable_pairs. Qed.
Print Assumptions C17_incomparable_pairs.

Example C17_compare_tz_pairs :
  filter (fun p => comparable (fst p) (snd p) && mixes (fst p) (snd p))
         (list_prod [KDate; KTime; KTimeTZ; KTimestamp; KTimestampTZ]
                    [KDate; KTime; KTimeTZ; KTimestamp; KTimestampTZ])
  = [(KDate, KTimestampTZ); (KTime, KTimeTZ); (KTimeTZ, KTime);
     (KTimestamp, KTimestampTZ); (KTimestampTZ, KDate); (KTimestampTZ, KTimestamp)].
Proof. exact compare_tz_pairs. Qed.
Print Assumptions C17_compare_tz_pairs.

(* an answer obtained without WithTZ is the answer with WithTZ *)
Theorem C17_compare_withtz_extends :
  forall (ctx : dctx) (a b : datetime) (x : Z),
    compare_datetime false ctx a b = CmpOk x -> compare_datetime true ctx a b = CmpOk x.
Proof. exact compare_false_true. Qed.
Print Assumptions C17_compare_withtz_extends.

(* ---- comparing is comparing after the explicit cast to the common type ---- *)

(* date / timestamp against timestamptz, both argument orders, EVERY context zone
   (fixed or transition table) *)
Theorem C17_compare_is_compare_after_cast :
  forall (ctx : dctx) (a b : datetime),
    dt_kind a = KDate \/ dt_kind a = KTimestamp -> dt_kind b = KTimestampTZ ->
    compare_datetime true ctx a b = compare_datetime true ctx (dt_to_timestamptz ctx a) b /\
    compare_datetime true ctx b a = compare_datetime true ctx b (dt_to_timestamptz ctx a).
Proof. exact compare_cast_coherent. Qed.
Print Assumptions C17_compare_is_compare_after_cast.

(* time against timetz: timetz against timetz after Time.ToTimeTZ *)
Theorem C17_compare_is_compare_after_cast_time :
  forall (ctx : dctx) (a b : datetime),
    dt_kind a = KTime -> dt_kind b = KTimeTZ ->
    compare_datetime true ctx a b = compare_datetime true ctx (dt_to_timetz ctx a) b /\
    compare_datetime true ctx b a = compare_datetime true ctx b (dt_to_timetz ctx a).
Proof. exact compare_cast_coherent_time. Qed.
Print Assumptions C17_compare_is_compare_after_cast_time.

(* zone-less pairs: date against timestamp is timestamp against timestamp after
   Date.ToTimestamp (midnight of the date), with or without WithTZ *)
Theorem C17_compare_is_compare_after_cast_zoneless :
  forall (u : bool) (ctx : dctx) (a b : datetime),
    dt_kind a = KDate -> dt_kind b = KTimestamp -> wf_dt a ->
    dt_to_timestamp ctx a = mkdt KTimestamp (dt_sec a) (dt_nsec a) 0 /\
    compare_datetime u ctx a b = compare_datetime u ctx (dt_to_timestamp ctx a) b /\
    compare_datetime u ctx b a = compare_datetime u ctx b (dt_to_timestamp ctx a).
Proof. exact compare_cast_coherent_zoneless. Qed.
Print Assumptions C17_compare_is_compare_after_cast_zoneless.

(* the casts used above return the common type *)
Theorem C17_to_timestamptz_is_timestamptz :
  forall (ctx : dctx) (d : datetime), dt_kind (dt_to_timestamptz ctx d) = KTimestampTZ.
Proof. exact to_timestamptz_kind. Qed.
Print Assumptions C17_to_timestamptz_is_timestamptz.

Theorem C17_to_timetz_is_timetz :
  forall (ctx : dctx) (d : datetime), dt_kind (dt_to_timetz ctx d) = KTimeTZ.
Proof. exact to_timetz_kind. Qed.
Print Assumptions C17_to_timetz_is_timetz.

(* ---- antisymmetry, range, transitivity ---- *)

(* no hypothesis at all: every zone, every value, both settings of WithTZ *)
Theorem C17_compare_antisymmetric :
  forall (u : bool) (ctx : dctx) (a b : datetime) (c : Z),
    compare_datetime u ctx a b = CmpOk c -> compare_datetime u ctx b a = CmpOk (- c).
Proof. exact compare_antisym. Qed.
Print Assumptions C17_compare_antisymmetric.

Theorem C17_compare_result_range :
  forall (u : bool) (ctx : dctx) (a b : datetime) (c : Z),
    compare_datetime u ctx a b = CmpOk c -> -1 <= c <= 1.
Proof. exact compare_result_range. Qed.
Print Assumptions C17_compare_result_range.

(* an answer means the two types are of the same family *)
Theorem C17_compare_answer_means_comparable :
  forall (u : bool) (ctx : dctx) (a b : datetime) (x : Z),
    compare_datetime u ctx a b = CmpOk x -> comparable (dt_kind a) (dt_kind b) = true.
Proof. exact compare_ok_comparable. Qed.
Print Assumptions C17_compare_answer_means_comparable.

(* transitivity of <=, with strictness (a <= b <= c gives a <= c, and a < c if one
   of the two is strict; with antisymmetry this covers =, <, >, >=), across all
   five types, for fixed-offset context zones *)
Theorem C17_compare_transitive :
  forall (u : bool) (ctx : dctx) (o : Z) (a b c : datetime) (x y : Z),
    tz ctx = ZFixed o -> wf_dt a -> wf_dt b -> wf_dt c ->
    compare_datetime u ctx a b = CmpOk x -> compare_datetime u ctx b c = CmpOk y ->
    x <= 0 -> y <= 0 ->
    exists z : Z, compare_datetime u ctx a c = CmpOk z /\ z <= 0 /\ (x < 0 \/ y < 0 -> z < 0).
Proof. exact compare_trans. Qed.
Print Assumptions C17_compare_transitive.

(* any zone, given that the casts into it preserve order on the zone-less values
   involved (conv_embeds: for two dates/timestamps, comparing their casts to
   timestamptz equals comparing them; same for two times and timetz) *)
Theorem C17_compare_transitive_general :
  forall (u : bool) (ctx : dctx) (a b c : datetime) (x y : Z),
    conv_embeds ctx a b -> conv_embeds ctx b c -> conv_embeds ctx a c ->
    compare_datetime u ctx a b = CmpOk x -> compare_datetime u ctx b c = CmpOk y ->
    x <= 0 -> y <= 0 ->
    exists z : Z, compare_datetime u ctx a c = CmpOk z /\ z <= 0 /\ (x < 0 \/ y < 0 -> z < 0).
Proof. exact compare_trans_gen. Qed.
Print Assumptions C17_compare_transitive_general.

Theorem C17_fixed_zone_casts_embed :
  forall (ctx : dctx) (o : Z) (a b : datetime),
    tz ctx = ZFixed o -> wf_dt a -> wf_dt b -> conv_embeds ctx a b.
Proof. exact conv_embeds_fixed. Qed.
Print Assumptions C17_fixed_zone_casts_embed.

(* KF-C17-dst-gap-order: zone -5h, then -4h from Unix second 25200 (spring forward
   at 02:00 local on 1970-01-01).  Zone-less timestamps a = 01:45 < b = 02:30 (in
   the gap), timestamptz c = 06:40Z: a < b and b < c, but a > c. *)
Example C17_refuted_dst_gap_order :
  let ctx := mkctx (ZTable (-18000) [(25200, -14400)]) 0 0 in
  let a := mkdt KTimestamp 6300 0 0 in
  let b := mkdt KTimestamp 9000 0 0 in
  let c := mkdt KTimestampTZ 24000 0 0 in
  compare_datetime true ctx a b = CmpOk (-1) /\
  compare_datetime true ctx b c = CmpOk (-1) /\
  compare_datetime true ctx a c = CmpOk 1.
Proof. exact compare_trans_ztable_counterexample. Qed.
Print Assumptions C17_refuted_dst_gap_order.

(* ---- parsing: the type, the precision ---- *)

(* the documented input forms and the type each is given (the most specific one);
   1438516800 = 2015-08-02T12:00:00Z; times are stored on 0000-01-01 *)
Example C17_parse_forms :
  let ctx := mkctx (ZFixed 0) 0 0 in
  parse_time ctx "2015-08-02" (-1) = Some (mkdt KDate 1438473600 0 0) /\
  parse_time ctx "12:00:00" (-1) = Some (mkdt KTime (-62167176000) 0 0) /\
  parse_time ctx "12:00:00.25" (-1) = Some (mkdt KTime (-62167176000) 250000000 0) /\
  parse_time ctx "12:00:00+05" (-1) = Some (mkdt KTimeTZ (-62167194000) 0 18000) /\
  parse_time ctx "12:00:00-05:30" (-1) = Some (mkdt KTimeTZ (-62167156200) 0 (-19800)) /\
  parse_time ctx "12:00:00Z" (-1) = Some (mkdt KTimeTZ (-62167176000) 0 0) /\
  parse_time ctx "2015-08-02T12:00:00" (-1) = Some (mkdt KTimestamp 1438516800 0 0) /\
  parse_time ctx "2015-08-02 12:00:00" (-1) = Some (mkdt KTimestamp 1438516800 0 0) /\
  parse_time ctx "2015-08-02T12:00:00Z" (-1) = Some (mkdt KTimestampTZ 1438516800 0 0) /\
  parse_time ctx "2015-08-02 12:00:00+05" (-1) = Some (mkdt KTimestampTZ 1438498800 0 18000) /\
  parse_time ctx "2015-08-02T12:00:00.5-04:00" (-1) = Some (mkdt KTimestampTZ 1438531200 500000000 (-14400)) /\
  parse_time ctx "2015-08-02T12" (-1) = None /\
  parse_time ctx "2015-13-02" (-1) = None /\
  parse_time ctx "2015-02-30" (-1) = None /\
  parse_time ctx "" (-1) = None.
Proof. exact parse_forms. Qed.
Print Assumptions C17_parse_forms.

(* whatever ParseTime returns, for every string and precision, satisfies wf_dt *)
Theorem C17_parsed_values_are_wf :
  forall (ctx : dctx) (src : string) (p : Z) (d : datetime),
    parse_time ctx src p = Some d -> wf_dt d.
Proof. exact parse_time_wf. Qed.
Print Assumptions C17_parsed_values_are_wf.

(* ParseTime with precision p in 0..9 (exec caps at 6): same type and offset as
   without precision; the nanoseconds are a multiple of 10^(9-p); the instant moves
   by at most half a unit, a tie going up.  For timestamps the carry runs into
   seconds and days; for time/timetz the time of day wraps around midnight (the
   move is half a unit modulo 24h, the value stays on day 0000-01-01); dates are
   untouched. *)
Theorem C17_precision_rounding :
  forall (ctx : dctx) (src : string) (p : Z) (d0 : datetime),
    0 <= p <= 9 -> parse_time ctx src (-1) = Some d0 ->
    exists d : datetime,
      parse_time ctx src p = Some d /\
      dt_kind d = dt_kind d0 /\ dt_off d = dt_off d0 /\
      0 <= dt_nsec d < 1000000000 /\ dt_nsec d mod 10 ^ (9 - p) = 0 /\
      match dt_kind d0 with
      | KDate => d = d0
      | KTimestamp | KTimestampTZ =>
          - 10 ^ (9 - p)
          < 2 * ((dt_sec d * 1000000000 + dt_nsec d) - (dt_sec d0 * 1000000000 + dt_nsec d0))
          <= 10 ^ (9 - p)
      | KTime | KTimeTZ =>
          exists delta : Z,
            - 10 ^ (9 - p) < 2 * delta <= 10 ^ (9 - p) /\
            ((dt_sec d * 1000000000 + dt_nsec d) - (dt_sec d0 * 1000000000 + dt_nsec d0) - delta)
              mod (86400 * 1000000000) = 0 /\
            day0 * 86400 <= dt_sec d + dt_off d < (day0 + 1) * 86400
      end.
Proof. exact precision_rounding. Qed.
Print Assumptions C17_precision_rounding.

(* the methods that take a precision cap it at 6 (.datetime() and .date() take
   none: takes = false) *)
Theorem C17_precision_capped_at_6 :
  forall (ctx : dctx) (takes : bool) (src : string) (p : Z),
    6 < p ->
    exec_parse_datetime ctx true src (Some p) = exec_parse_datetime ctx takes src (Some 6) \/
    takes = false.
Proof. exact exec_precision_cap. Qed.
Print Assumptions C17_precision_capped_at_6.

(* beyond 9 (reachable through types.ParseTime only) the value is left alone *)
Theorem C17_parse_time_big_precision :
  forall (ctx : dctx) (src : string) (p : Z), 9 < p -> parse_time ctx src p = parse_time ctx src (-1).
Proof. exact parse_time_big_precision. Qed.
Print Assumptions C17_parse_time_big_precision.

(* halfway up, carry into the next year; wrap around midnight; cap; negative *)
Example C17_precision_witness :
  let ctx := mkctx (ZFixed 0) 0 0 in
  parse_time ctx "2015-12-31T23:59:59.9999995" 6 = Some (mkdt KTimestamp 1451606400 0 0) /\
  parse_time ctx "2015-12-31T23:59:59.9999994" 6 = Some (mkdt KTimestamp 1451606399 999999000 0) /\
  parse_time ctx "12:00:00.125" 2 = Some (mkdt KTime (-62167176000) 130000000 0) /\
  parse_time ctx "23:59:59.5" 0 = Some (mkdt KTime (-62167219200) 0 0) /\
  exec_parse_datetime ctx true "12:00:00.1234567" (Some 7) = PDOk (mkdt KTime (-62167176000) 123457000 0) /\
  exec_parse_datetime ctx true "12:00:00" (Some (-1)) = PDBadPrecision.
Proof. exact precision_witness. Qed.
Print Assumptions C17_precision_witness.

(* ---- the method leaf and the comparison operators of the model M ---- *)

(* .datetime() keeps the parsed, most specific type, whatever WithTZ *)
Theorem C17_method_datetime_keeps_type :
  forall (ctx : dctx) (re : string -> Z -> string -> bool)
         (members : list (string * json) -> list json) (u : bool) (src : string),
    leaf_datetime (mk_lib ctx re members) u DDateTime None None (JStr src)
    = match parse_time ctx src (-1) with
      | Some d => LItem (JDt d)
      | None => LErr (EVerbose "datetime format is not recognized")
      end.
Proof. exact leaf_datetime_keeps_type. Qed.
Print Assumptions C17_method_datetime_keeps_type.

(* a cast method without WithTZ on a string whose parsed type mixes zone-less and
   zone-aware with the method's type: an EExec error (never suppressed) *)
Theorem C17_method_without_tz_is_exec_error :
  forall (ctx : dctx) (re : string -> Z -> string -> bool)
         (members : list (string * json) -> list json) (op : dtop) (src : string) (d : datetime),
    op <> DDateTime -> parse_time ctx src (-1) = Some d ->
    convertible (target_of op) (dt_kind d) = true ->
    mixes (target_kind (target_of op)) (dt_kind d) = true ->
    leaf_datetime (mk_lib ctx re members) false op None None (JStr src)
    = LErr (EExec "cannot convert value without time zone usage").
Proof. exact leaf_datetime_tz_required. Qed.
Print Assumptions C17_method_without_tz_is_exec_error.

(* ... and with WithTZ the cast value *)
Theorem C17_method_with_tz_casts :
  forall (ctx : dctx) (re : string -> Z -> string -> bool)
         (members : list (string * json) -> list json) (op : dtop) (src : string) (d : datetime),
    op <> DDateTime -> parse_time ctx src (-1) = Some d ->
    convertible (target_of op) (dt_kind d) = true ->
    exists d' : datetime, exec_cast (target_of op) true ctx d = CastOk d' /\
      leaf_datetime (mk_lib ctx re members) true op None None (JStr src) = LItem (JDt d').
Proof. exact leaf_datetime_with_tz. Qed.
Print Assumptions C17_method_with_tz_casts.

(* ==, !=, <, >, <=, >= on two datetime items: the answer of compare_datetime read
   through the operator; incomparable is unknown without error; a missing WithTZ is
   unknown with an EExec error *)
Theorem C17_comparison_operators :
  forall (ctx : dctx) (re : string -> Z -> string -> bool)
         (members : list (string * json) -> list json) (u : bool) (op : binop) (a b : datetime),
    is_cmp op = true ->
    compareItems (mk_lib ctx re members) u op (JDt a) (JDt b) =
    match compare_datetime u ctx a b with
    | CmpOk c => Ret (predFrom (truth op c), None)
    | CmpIncomparable => Ret (PUnknown, None)
    | CmpTZRequired => Ret (PUnknown, Some (EExec "tzRequiredCast"))
    end.
Proof. exact compare_items_datetimes. Qed.
Print Assumptions C17_comparison_operators.

(* KF-C05-errinvalid-datetime-compare: a datetime on the left of a non-null,
   non-datetime item is ErrInvalid, for every library *)
Theorem C17_refuted_datetime_vs_other :
  forall (L : ExecLib) (useTZ : bool) (op : binop) (d : datetime) (b : json),
    is_null b = false -> kind_of b <> KdDt ->
    compareItems L useTZ op (JDt d) b = Ret (PUnknown, Some (EInvalid "unknownDateTime")).
Proof. exact C12_dt_vs_other_invalid. Qed.
Print Assumptions C17_refuted_datetime_vs_other.

(* the instance of the fixed finding (commit 7b56af4): under a context zone of
   -04:00, 2015-08-02 equals 2015-08-02T00:00:00-04:00, which is also its cast to
   timestamptz; without WithTZ both the comparison and the cast are refused *)
Example C17_context_zone_witness :
  let ctx := mkctx (ZFixed (-14400)) 0 0 in
  let a := mkdt KDate 1438473600 0 0 in
  let b := mkdt KTimestampTZ 1438488000 0 (-14400) in
  parse_time ctx "2015-08-02" (-1) = Some a /\
  parse_time ctx "2015-08-02T00:00:00-04:00" (-1) = Some b /\
  compare_datetime true ctx a b = CmpOk 0 /\
  exec_cast TTimestampTZ true ctx a = CastOk b /\
  compare_datetime false ctx a b = CmpTZRequired /\
  exec_cast TTimestampTZ false ctx a = CastTZRequired.
Proof. exact context_zone_witness. Qed.
Print Assumptions C17_context_zone_witness.
