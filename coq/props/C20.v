(* C20 — Cancellation is honoured at every step and never mistaken for a result.

   "If the context is done before or at any point during execution, every entry point
   returns an error wrapping both exec.ErrExecution and the context's error, with no
   items, after a bounded number of further evaluation steps.  A cancellation is never
   converted into a normal outcome - not an empty or partial result, not NULL, not a
   true or false from is unknown, exists or a filter - and WithSilent does not
   suppress it."

   Statements about the executor model M (model/Exec.v), for ALL paths, documents,
   variable maps, library instances, fuels and option sets (silent or not: o_silent is
   universally quantified everywhere below).  The context is modelled by
   o_cancel_at o = Some k: ctx.Done() is closed from the k-th poll on (polls are
   counted from 0; the poll is the select at the top of executeItemOptUnwrapTarget,
   counted in the state component [polls]); ctx_err E s says that a poll already made
   has seen it closed (k < polls s).  ECancel is the model's error object for
   fmt.Errorf("%w: %w", ErrExecution, ctx.Err()); as a result it carries no items
   (QErr / FErr / BErr have none).
   - [C20_call_never_mistakes_cancellation]: the invariant, for EVERY call of the
     executor (item requests, the .** loop, predicates): if at the return of a call
     the context has been seen done, then either the call did not poll at all, or
     its result is the cancellation — status failed / outcome unknown TOGETHER WITH
     the error object ECancel.  So no consumer (is unknown, exists, a filter, the
     strict-mode wrapper of query) turned it into found / not found / true / false
     or dropped the error.
   - [C20_*_cancelled]: the five entry points: if the run polled more than k times
     (the cancellation point was reached), the result is exactly the cancellation
     error — not items, not NULL, not a boolean.  polls_of is the number of polls the
     same run makes.  [C20_query_state]: the same on the final state of query().
   - [C20_*_cancelled_from_start]: k = 0 (done before execution): always the
     cancellation error, because every entry point polls at least once
     ([C20_every_run_polls]).  (glue: proofs/PropGlue.v)
   - [C20_*_returns]: with a cancellation point the entry points still return (no
     fuel exhaustion, no panic) within the fuel bound of C05; hypotheses as in C05
     (members_ok L, inputs_ok (num_ok L), both satisfiable, see props/C05.v).
   - the class of the cancellation raise site: the raise-site inventory regenerated
     from /repo on every run contains (execution.go, executeItemOptUnwrapTarget,
     ErrExecution) and equals the inventory the model was validated against
     ([C20_cancellation_site_class], [C20_raise_site_classes]): ErrExecution, not
     ErrVerbose, is why returnError never suppresses it.
   Non-vacuity: [C20_cancel_witness] (uncancelled: a result; cancelled at the second
   poll: two polls are made, 1 < 2, and the outcome is the cancellation, verbose and
   silent).
   Not covered by a theorem: "after a bounded number of further evaluation steps" as a
   bound on the polls made AFTER the poll that sees the context done (no lemma says
   that polling stops; what is proved is that the run returns within fuel_for and
   that its result is the cancellation).  The bound is measured by the correspondence
   leg: the harness cancels at every k and checks polls <= k + 1 on the
   implementation and on the model.  That the error wraps the context's own error
   (Canceled vs DeadlineExceeded) is checked there too: the model has one ECancel.
   Known findings naming C20: fixed 6626c63 (is unknown discarded a cancellation:
   cancelling inside ($.a == 1) is unknown returned [true]) and c714021 (a filter
   returned "not found" together with a non-suppressible error); the model
   transliterates the fixed code, and [C20_call_never_mistakes_cancellation] is the
   statement both violated.  KF-C14-null-subscript (open) does not concern
   cancellation. *)
From SJ Require Import lib.Base model.Json model.Ast model.ExecLib model.Leaf model.Exec
     proofs.TotalBase proofs.Total gen.RaiseSites model.RaiseExpect proofs.PropGlue.
From SJ Require proofs.Invariants.

(* ---------- the invariant of every call ---------- *)
Theorem C20_call_never_mistakes_cancellation :
  forall L E fuel r s a s', run L E fuel r s = Ret (a, s') -> ctx_err E s' = true ->
  polls s' = polls s \/
  match a with
  | AItem x => r_st x = SFailed /\ r_err x = Some ECancel
  | ABool p => p_out p = PUnknown /\ p_err p = Some ECancel
  end.
Proof. exact Invariants.cancel_run. Qed.
Print Assumptions C20_call_never_mistakes_cancellation.

(* ---------- the entry points ---------- *)
Theorem C20_query_cancelled :
  forall L fuel p doc o k q, o_cancel_at o = Some k -> Query L fuel p doc o = Ret q ->
  (exists n, polls_of L fuel p doc o (Some []) = Ret n /\ (k < n)%nat) -> q = QErr (AErr ECancel).
Proof. exact Invariants.query_cancel. Qed.
Print Assumptions C20_query_cancelled.

Theorem C20_first_cancelled :
  forall L fuel p doc o k q, o_cancel_at o = Some k -> First L fuel p doc o = Ret q ->
  (exists n, polls_of L fuel p doc o (Some []) = Ret n /\ (k < n)%nat) -> q = FErr (AErr ECancel).
Proof. exact Invariants.first_cancel. Qed.
Print Assumptions C20_first_cancelled.

Theorem C20_exists_cancelled :
  forall L fuel p doc o k q, o_cancel_at o = Some k -> Exists L fuel p doc o = Ret q ->
  (exists n, polls_of L fuel p doc o None = Ret n /\ (k < n)%nat) -> q = BErr (AErr ECancel).
Proof. exact Invariants.exists_cancel. Qed.
Print Assumptions C20_exists_cancelled.

Theorem C20_match_cancelled :
  forall L fuel p doc o k q, o_cancel_at o = Some k -> Match L fuel p doc o = Ret q ->
  (exists n, polls_of L fuel p doc o (Some []) = Ret n /\ (k < n)%nat) -> q = BErr (AErr ECancel).
Proof. exact Invariants.match_cancel. Qed.
Print Assumptions C20_match_cancelled.

Theorem C20_eom_cancelled :
  forall L fuel p doc o k q, o_cancel_at o = Some k -> ExistsOrMatch L fuel p doc o = Ret q ->
  (exists n, polls_of L fuel p doc o (if p_pred p then Some [] else None) = Ret n /\ (k < n)%nat) ->
  q = BErr (AErr ECancel).
Proof. exact Invariants.eom_cancel. Qed.
Print Assumptions C20_eom_cancelled.

(* the same on the final state of the entry points' common query() call: failed AND the error *)
Theorem C20_query_state :
  forall L fuel p doc o vals k r s',
  o_cancel_at o = Some k -> query L fuel p doc o vals = Ret (r, s') -> (k < polls s')%nat ->
  r_st r = SFailed /\ r_err r = Some ECancel.
Proof. exact Invariants.query_cancel_state. Qed.
Print Assumptions C20_query_state.

(* every run polls at least once *)
Theorem C20_every_run_polls :
  forall L fuel p doc o vals r s', query L fuel p doc o vals = Ret (r, s') -> (1 <= polls s')%nat.
Proof. exact Invariants.query_polls. Qed.
Print Assumptions C20_every_run_polls.

(* ---------- done before execution starts ---------- *)
Theorem C20_query_cancelled_from_start :
  forall L fuel p doc o q,
  o_cancel_at o = Some 0%nat -> Query L fuel p doc o = Ret q -> q = QErr (AErr ECancel).
Proof. exact query_cancelled_from_start. Qed.
Print Assumptions C20_query_cancelled_from_start.

Theorem C20_first_cancelled_from_start :
  forall L fuel p doc o q,
  o_cancel_at o = Some 0%nat -> First L fuel p doc o = Ret q -> q = FErr (AErr ECancel).
Proof. exact first_cancelled_from_start. Qed.
Print Assumptions C20_first_cancelled_from_start.

Theorem C20_exists_cancelled_from_start :
  forall L fuel p doc o q,
  o_cancel_at o = Some 0%nat -> Exists L fuel p doc o = Ret q -> q = BErr (AErr ECancel).
Proof. exact exists_cancelled_from_start. Qed.
Print Assumptions C20_exists_cancelled_from_start.

Theorem C20_match_cancelled_from_start :
  forall L fuel p doc o q,
  o_cancel_at o = Some 0%nat -> Match L fuel p doc o = Ret q -> q = BErr (AErr ECancel).
Proof. exact match_cancelled_from_start. Qed.
Print Assumptions C20_match_cancelled_from_start.

Theorem C20_eom_cancelled_from_start :
  forall L fuel p doc o q,
  o_cancel_at o = Some 0%nat -> ExistsOrMatch L fuel p doc o = Ret q -> q = BErr (AErr ECancel).
Proof. exact eom_cancelled_from_start. Qed.
Print Assumptions C20_eom_cancelled_from_start.

(* ---------- a cancelled run still returns, within the fuel bound of C05 ---------- *)
Theorem C20_query_returns :
  forall L, members_ok L -> forall p doc o, inputs_ok (num_ok L) doc o ->
  forall fuel, (fuel_for p doc o <= fuel)%nat -> exists q, Query L fuel p doc o = Ret q.
Proof. exact Query_returns. Qed.
Print Assumptions C20_query_returns.

Theorem C20_first_returns :
  forall L, members_ok L -> forall p doc o, inputs_ok (num_ok L) doc o ->
  forall fuel, (fuel_for p doc o <= fuel)%nat -> exists q, First L fuel p doc o = Ret q.
Proof. exact First_returns. Qed.
Print Assumptions C20_first_returns.

Theorem C20_exists_returns :
  forall L, members_ok L -> forall p doc o, inputs_ok (num_ok L) doc o ->
  forall fuel, (fuel_for p doc o <= fuel)%nat -> exists q, Exists L fuel p doc o = Ret q.
Proof. exact Exists_returns. Qed.
Print Assumptions C20_exists_returns.

Theorem C20_match_returns :
  forall L, members_ok L -> forall p doc o, inputs_ok (num_ok L) doc o ->
  forall fuel, (fuel_for p doc o <= fuel)%nat -> exists q, Match L fuel p doc o = Ret q.
Proof. exact Match_returns. Qed.
Print Assumptions C20_match_returns.

Theorem C20_eom_returns :
  forall L, members_ok L -> forall p doc o, inputs_ok (num_ok L) doc o ->
  forall fuel, (fuel_for p doc o <= fuel)%nat -> exists q, ExistsOrMatch L fuel p doc o = Ret q.
Proof. exact ExistsOrMatch_returns. Qed.
Print Assumptions C20_eom_returns.

(* ---------- the class of the cancellation raise site ---------- *)
Example C20_cancellation_site_class :
  In ("path/exec/execution.go", "executeItemOptUnwrapTarget", "ErrExecution")%string raise_sites.
Proof. exact cancellation_site_In. Qed.
Print Assumptions C20_cancellation_site_class.

Example C20_raise_site_classes : raise_sites = expected_raise_sites.
Proof. exact raise_sites_as_expected. Qed.
Print Assumptions C20_raise_site_classes.

(* ---------- non-vacuity ---------- *)
(* $.a on {"a":7}: not cancelled: a result; cancelled at the second poll (k = 1): two
   polls are made and the outcome is the cancellation — verbose and silent *)
Example C20_cancel_witness :
  Query Invariants.L_triv 10 Invariants.p_wit Invariants.doc_wit (Invariants.o_wit None false)
    = Ret (QItems [JNum (NInt 7)]) /\
  polls_of Invariants.L_triv 10 Invariants.p_wit Invariants.doc_wit (Invariants.o_wit (Some 1%nat) false) (Some [])
    = Ret 2%nat /\
  Query Invariants.L_triv 10 Invariants.p_wit Invariants.doc_wit (Invariants.o_wit (Some 1%nat) false)
    = Ret (QErr (AErr ECancel)) /\
  Query Invariants.L_triv 10 Invariants.p_wit Invariants.doc_wit (Invariants.o_wit (Some 1%nat) true)
    = Ret (QErr (AErr ECancel)).
Proof. exact Invariants.cancel_witness. Qed.
Print Assumptions C20_cancel_witness.
