(* C20 — Cancellation is honoured at every step and never mistaken for a result.

   "If the context is done before or at any point during execution, every entry point
   returns an error wrapping both exec.ErrExecution and the context's error, with no
   items, after a bounded number of further evaluation steps.  A cancellation is never
   converted into a normal outcome - not an empty or partial result, not NULL, not a
   true or false from is unknown, exists or a filter - and WithSilent does not
   suppress it."

   Statements about the executor model M (model/Exec.v), for ALL paths, documents,
   variable maps, library instances, fuels and option sets (silent or not: o_silent is
   universally quantified everywhere below).  The context is modelled by
   o_cancel_at o = Some k: ctx.Done() is closed from the k-th poll on (polls are
   counted from 0; the poll is the select at the top of executeItemOptUnwrapTarget,
   counted in the state component [polls]); ctx_err E s says that a poll already made
   has seen it closed (k < polls s).  ECancel is the model's error object for
   fmt.Errorf("%w: %w", ErrExecution, ctx.Err()); as a result it carries no items
   (QErr / FErr / BErr have none).
   (1) Never mistaken for a result.
   - [C20_call_never_mistakes_cancellation]: the invariant, for EVERY call of the
     executor (item requests, the .** loop, predicates): if at the return of a call
     the context has been seen done, then either the call did not poll at all, or
     its result is the cancellation — status failed / outcome unknown TOGETHER WITH
     the error object ECancel.  So no consumer (is unknown, exists, a filter, the
     strict-mode wrapper of query) turned it into found / not found / true / false
     or dropped the error.
   - [C20_*_cancelled]: the five entry points: if the run polled more than k times
     (the cancellation point was reached), the result is exactly the cancellation
     error — not items, not NULL, not a boolean.  polls_of is the number of polls the
     same run makes.  [C20_query_state]: the same on the final state of query().
   - [C20_*_cancelled_from_start]: k = 0 (done before execution): always the
     cancellation error, because every entry point polls at least once
     ([C20_every_run_polls]).  (glue: proofs/PropGlue.v)
   (2) Honoured at EVERY step (proofs/CancelMore.v, CancelPrefix.v).  The run
     cancelled at poll k and the uncancelled run do the same work up to poll k
     ("prefix determinism", [C20_prefix_run], [C20_prefix_run_relational]: same fuel,
     same initial state, no side condition).  Hence the quantifier of the property:
     [C20_query_cancelled_at_every_poll] and its First / Exists / Match /
     ExistsOrMatch siblings — if the uncancelled run returns and makes n polls, then
     for EVERY k < n the run cancelled at the k-th poll returns the cancellation
     error (with_cancel_o o k, written out below, is o with o_cancel_at := Some k,
     o_silent untouched); and for k >= n cancelling changes nothing
     ([C20_query_cancel_after_last_poll]).  [C20_query_cancelled_within] /
     [C20_query_cancel_beyond] are the same on query(), with the poll count.
   (3) "After a bounded number of further evaluation steps" (proofs/CancelStop.v):
     no poll is made after the one that sees the context done.
     [C20_query_polls_stop]: an entry point makes at most k + 1 polls;
     [C20_query_cancel_exact]: a run that reaches poll k makes EXACTLY k + 1 polls and
     returns the cancellation.  For every call of the executor: [C20_polls_bound]
     (polls at return <= max (polls at entry + 1) (k + 1)), [C20_polls_stop_entered_before]
     (entered before the cancellation point: no poll after number k),
     [C20_polls_stop_entered_after] (entered after it: at most one poll, and then the
     result is the cancellation).  The naive bound max (polls at entry) (k + 1) is
     false for calls entered after the cancellation point: [C20_polls_stop_refuted].
     Each poll is one call of executeItemOptUnwrapTarget, so between two polls the
     work is one node's own (bounded by the fuel bound of C05).
   - [C20_*_returns]: with a cancellation point the entry points still return (no
     fuel exhaustion, no panic) within the fuel bound of C05; hypotheses as in C05
     (members_ok L, inputs_ok (num_ok L), both satisfiable, see props/C05.v).
   (4) The class of the cancellation raise site: the raise-site inventory regenerated
     from /repo on every run contains (execution.go, executeItemOptUnwrapTarget,
     ErrExecution) and equals the inventory the model was validated against
     ([C20_cancellation_site_class], [C20_raise_site_classes]): ErrExecution, not
     ErrVerbose, is why returnError never suppresses it.
   Non-vacuity: [C20_cancel_witness] (uncancelled: a result; cancelled at the second
   poll: two polls are made, 1 < 2, and the outcome is the cancellation, verbose and
   silent).
   Not covered by a theorem: that the error wraps the context's own error (Canceled
   vs DeadlineExceeded) — the model has one ECancel; the correspondence leg checks
   errors.Is on the implementation for both, at every k, silent and verbose, and
   that the implementation makes the same number of polls as the model.  The
   after-last-poll statement is given for Query and query() only.
   Known findings naming C20: fixed 6626c63 (is unknown discarded a cancellation:
   cancelling inside ($.a == 1) is unknown returned [true]) and c714021 (a filter
   returned "not found" together with a non-suppressible error); the model
   transliterates the fixed code, and [C20_call_never_mistakes_cancellation] is the
   statement both violated.  KF-C14-null-subscript (open) does not concern
   cancellation. *)
From SJ Require Import lib.Base model.Json model.Ast model.ExecLib model.Leaf model.Exec
     proofs.TotalBase proofs.Total gen.RaiseSites model.RaiseExpect proofs.PropGlue.
From SJ Require proofs.Invariants proofs.CancelMore.

(* ---------- the invariant of every call ---------- *)
Theorem C20_call_never_mistakes_cancellation :
  forall L E fuel r s a s', run L E fuel r s = Ret (a, s') -> ctx_err E s' = true ->
  polls s' = polls s \/
  match a with
  | AItem x => r_st x = SFailed /\ r_err x = Some ECancel
  | ABool p => p_out p = PUnknown /\ p_err p = Some ECancel
  end.
Proof. exact Invariants.cancel_run. Qed.
Print Assumptions C20_call_never_mistakes_cancellation.

(* ---------- the entry points ---------- *)
Theorem C20_query_cancelled :
  forall L fuel p doc o k q, o_cancel_at o = Some k -> Query L fuel p doc o = Ret q ->
  (exists n, polls_of L fuel p doc o (Some []) = Ret n /\ (k < n)%nat) -> q = QErr (AErr ECancel).
Proof. exact Invariants.query_cancel. Qed.
Print Assumptions C20_query_cancelled.

Theorem C20_first_cancelled :
  forall L fuel p doc o k q, o_cancel_at o = Some k -> First L fuel p doc o = Ret q ->
  (exists n, polls_of L fuel p doc o (Some []) = Ret n /\ (k < n)%nat) -> q = FErr (AErr ECancel).
Proof. exact Invariants.first_cancel. Qed.
Print Assumptions C20_first_cancelled.

Theorem C20_exists_cancelled :
  forall L fuel p doc o k q, o_cancel_at o = Some k -> Exists L fuel p doc o = Ret q ->
  (exists n, polls_of L fuel p doc o None = Ret n /\ (k < n)%nat) -> q = BErr (AErr ECancel).
Proof. exact Invariants.exists_cancel. Qed.
Print Assumptions C20_exists_cancelled.

Theorem C20_match_cancelled :
  forall L fuel p doc o k q, o_cancel_at o = Some k -> Match L fuel p doc o = Ret q ->
  (exists n, polls_of L fuel p doc o (Some []) = Ret n /\ (k < n)%nat) -> q = BErr (AErr ECancel).
Proof. exact Invariants.match_cancel. Qed.
Print Assumptions C20_match_cancelled.

Theorem C20_eom_cancelled :
  forall L fuel p doc o k q, o_cancel_at o = Some k -> ExistsOrMatch L fuel p doc o = Ret q ->
  (exists n, polls_of L fuel p doc o (if p_pred p then Some [] else None) = Ret n /\ (k < n)%nat) ->
  q = BErr (AErr ECancel).
Proof. exact Invariants.eom_cancel. Qed.
Print Assumptions C20_eom_cancelled.

(* the same on the final state of the entry points' common query() call: failed AND the error *)
Theorem C20_query_state :
  forall L fuel p doc o vals k r s',
  o_cancel_at o = Some k -> query L fuel p doc o vals = Ret (r, s') -> (k < polls s')%nat ->
  r_st r = SFailed /\ r_err r = Some ECancel.
Proof. exact Invariants.query_cancel_state. Qed.
Print Assumptions C20_query_state.

(* every run polls at least once *)
Theorem C20_every_run_polls :
  forall L fuel p doc o vals r s', query L fuel p doc o vals = Ret (r, s') -> (1 <= polls s')%nat.
Proof. exact Invariants.query_polls. Qed.
Print Assumptions C20_every_run_polls.

(* ---------- done before execution starts ---------- *)
Theorem C20_query_cancelled_from_start :
  forall L fuel p doc o q,
  o_cancel_at o = Some 0%nat -> Query L fuel p doc o = Ret q -> q = QErr (AErr ECancel).
Proof. exact query_cancelled_from_start. Qed.
Print Assumptions C20_query_cancelled_from_start.

Theorem C20_first_cancelled_from_start :
  forall L fuel p doc o q,
  o_cancel_at o = Some 0%nat -> First L fuel p doc o = Ret q -> q = FErr (AErr ECancel).
Proof. exact first_cancelled_from_start. Qed.
Print Assumptions C20_first_cancelled_from_start.

Theorem C20_exists_cancelled_from_start :
  forall L fuel p doc o q,
  o_cancel_at o = Some 0%nat -> Exists L fuel p doc o = Ret q -> q = BErr (AErr ECancel).
Proof. exact exists_cancelled_from_start. Qed.
Print Assumptions C20_exists_cancelled_from_start.

Theorem C20_match_cancelled_from_start :
  forall L fuel p doc o q,
  o_cancel_at o = Some 0%nat -> Match L fuel p doc o = Ret q -> q = BErr (AErr ECancel).
Proof. exact match_cancelled_from_start. Qed.
Print Assumptions C20_match_cancelled_from_start.

Theorem C20_eom_cancelled_from_start :
  forall L fuel p doc o q,
  o_cancel_at o = Some 0%nat -> ExistsOrMatch L fuel p doc o = Ret q -> q = BErr (AErr ECancel).
Proof. exact eom_cancelled_from_start. Qed.
Print Assumptions C20_eom_cancelled_from_start.

(* ---------- honoured at every step: prefix determinism ---------- *)
(* the uncancelled run (environment E0) and the run cancelled at poll k, same fuel, same state *)
Theorem C20_prefix_run :
  forall L E0 k fuel r s a0 s0',
  e_cancel_at E0 = None ->
  run L E0 fuel r s = Ret (a0, s0') ->
  ((polls s0' <= k)%nat ->
   run L (mkenv (e_lax E0) (e_root E0) (e_vars E0) (e_vars_tag E0) (e_useTZ E0) (Some k)) fuel r s
   = Ret (a0, s0')) /\
  ((polls s <= k)%nat -> (k < polls s0')%nat ->
   exists ak sk',
     run L (mkenv (e_lax E0) (e_root E0) (e_vars E0) (e_vars_tag E0) (e_useTZ E0) (Some k)) fuel r s
     = Ret (ak, sk') /\ polls sk' = S k /\
     match ak with
     | AItem x => r_st x = SFailed /\ r_err x = Some ECancel
     | ABool p => p_out p = PUnknown /\ p_err p = Some ECancel
     end).
Proof. exact CancelMore.prefix_run. Qed.
Print Assumptions C20_prefix_run.

(* the same for two environments equal but for the cancellation point and two
   initial states equal field by field *)
Theorem C20_prefix_run_relational :
  forall L E0 Ek k fuel r s0 sk a0 s0',
  (e_lax Ek = e_lax E0 /\ e_root Ek = e_root E0 /\ e_vars Ek = e_vars E0 /\
   e_vars_tag Ek = e_vars_tag E0 /\ e_useTZ Ek = e_useTZ E0 /\
   e_cancel_at E0 = None /\ e_cancel_at Ek = Some k) ->
  (cur s0 = cur sk /\ last_size s0 = last_size sk /\ ign s0 = ign sk /\ verbose s0 = verbose sk /\
   base_addr s0 = base_addr sk /\ base_id s0 = base_id sk /\ last_id s0 = last_id sk /\
   polls s0 = polls sk /\ next_tag s0 = next_tag sk) ->
  run L E0 fuel r s0 = Ret (a0, s0') ->
  ((polls s0' <= k)%nat ->
   exists sk', run L Ek fuel r sk = Ret (a0, sk') /\
     (cur s0' = cur sk' /\ last_size s0' = last_size sk' /\ ign s0' = ign sk' /\ verbose s0' = verbose sk' /\
      base_addr s0' = base_addr sk' /\ base_id s0' = base_id sk' /\ last_id s0' = last_id sk' /\
      polls s0' = polls sk' /\ next_tag s0' = next_tag sk')) /\
  ((k < polls s0')%nat -> (polls s0 <= k)%nat ->
   exists ak sk', run L Ek fuel r sk = Ret (ak, sk') /\ polls sk' = S k /\
     match ak with
     | AItem x => r_st x = SFailed /\ r_err x = Some ECancel
     | ABool p => p_out p = PUnknown /\ p_err p = Some ECancel
     end).
Proof. exact CancelMore.prefix_run_rel. Qed.
Print Assumptions C20_prefix_run_relational.

(* for EVERY k smaller than the number n of polls of the uncancelled run, the run
   cancelled at the k-th poll returns the cancellation *)
Theorem C20_query_cancelled_at_every_poll :
  forall L fuel p doc o k n q0,
  o_cancel_at o = None -> Query L fuel p doc o = Ret q0 -> polls_of L fuel p doc o (Some []) = Ret n ->
  (k < n)%nat ->
  Query L fuel p doc (mkopts (o_vars o) (o_vars_tag o) (o_silent o) (o_useTZ o) (Some k) (o_next_tag o))
  = Ret (QErr (AErr ECancel)).
Proof. exact CancelMore.query_cancel_at_every_poll. Qed.
Print Assumptions C20_query_cancelled_at_every_poll.

Theorem C20_first_cancelled_at_every_poll :
  forall L fuel p doc o k n q0,
  o_cancel_at o = None -> First L fuel p doc o = Ret q0 -> polls_of L fuel p doc o (Some []) = Ret n ->
  (k < n)%nat ->
  First L fuel p doc (mkopts (o_vars o) (o_vars_tag o) (o_silent o) (o_useTZ o) (Some k) (o_next_tag o))
  = Ret (FErr (AErr ECancel)).
Proof. exact CancelMore.first_cancel_at_every_poll. Qed.
Print Assumptions C20_first_cancelled_at_every_poll.

Theorem C20_exists_cancelled_at_every_poll :
  forall L fuel p doc o k n q0,
  o_cancel_at o = None -> Exists L fuel p doc o = Ret q0 -> polls_of L fuel p doc o None = Ret n ->
  (k < n)%nat ->
  Exists L fuel p doc (mkopts (o_vars o) (o_vars_tag o) (o_silent o) (o_useTZ o) (Some k) (o_next_tag o))
  = Ret (BErr (AErr ECancel)).
Proof. exact CancelMore.exists_cancel_at_every_poll. Qed.
Print Assumptions C20_exists_cancelled_at_every_poll.

Theorem C20_match_cancelled_at_every_poll :
  forall L fuel p doc o k n q0,
  o_cancel_at o = None -> Match L fuel p doc o = Ret q0 -> polls_of L fuel p doc o (Some []) = Ret n ->
  (k < n)%nat ->
  Match L fuel p doc (mkopts (o_vars o) (o_vars_tag o) (o_silent o) (o_useTZ o) (Some k) (o_next_tag o))
  = Ret (BErr (AErr ECancel)).
Proof. exact CancelMore.match_cancel_at_every_poll. Qed.
Print Assumptions C20_match_cancelled_at_every_poll.

Theorem C20_eom_cancelled_at_every_poll :
  forall L fuel p doc o k n q0,
  o_cancel_at o = None -> ExistsOrMatch L fuel p doc o = Ret q0 ->
  polls_of L fuel p doc o (if p_pred p then Some [] else None) = Ret n ->
  (k < n)%nat ->
  ExistsOrMatch L fuel p doc (mkopts (o_vars o) (o_vars_tag o) (o_silent o) (o_useTZ o) (Some k) (o_next_tag o))
  = Ret (BErr (AErr ECancel)).
Proof. exact CancelMore.eom_cancel_at_every_poll. Qed.
Print Assumptions C20_eom_cancelled_at_every_poll.

(* cancelling at or after the last poll changes nothing *)
Theorem C20_query_cancel_after_last_poll :
  forall L fuel p doc o k n q0,
  o_cancel_at o = None -> Query L fuel p doc o = Ret q0 -> polls_of L fuel p doc o (Some []) = Ret n ->
  (n <= k)%nat ->
  Query L fuel p doc (mkopts (o_vars o) (o_vars_tag o) (o_silent o) (o_useTZ o) (Some k) (o_next_tag o))
  = Ret q0.
Proof. exact CancelMore.query_cancel_after_last_poll. Qed.
Print Assumptions C20_query_cancel_after_last_poll.

(* the same on query(), the common part of the entry points, with the poll count *)
Theorem C20_query_cancelled_within :
  forall L fuel p doc o vals k r s',
  o_cancel_at o = None -> query L fuel p doc o vals = Ret (r, s') -> (k < polls s')%nat ->
  exists rk sk',
    query L fuel p doc (mkopts (o_vars o) (o_vars_tag o) (o_silent o) (o_useTZ o) (Some k) (o_next_tag o)) vals
    = Ret (rk, sk') /\
    polls sk' = S k /\ r_st rk = SFailed /\ r_err rk = Some ECancel.
Proof. exact CancelMore.query_cancel_within. Qed.
Print Assumptions C20_query_cancelled_within.

Theorem C20_query_cancel_beyond :
  forall L fuel p doc o vals k r s',
  o_cancel_at o = None -> query L fuel p doc o vals = Ret (r, s') -> (polls s' <= k)%nat ->
  query L fuel p doc (mkopts (o_vars o) (o_vars_tag o) (o_silent o) (o_useTZ o) (Some k) (o_next_tag o)) vals
  = Ret (r, s').
Proof. exact CancelMore.query_cancel_beyond. Qed.
Print Assumptions C20_query_cancel_beyond.

(* ---------- a bounded number of further steps: polling stops ---------- *)
(* an entry point makes at most k + 1 polls *)
Theorem C20_query_polls_stop :
  forall L fuel p doc o vals k r s',
  o_cancel_at o = Some k -> query L fuel p doc o vals = Ret (r, s') -> (polls s' <= S k)%nat.
Proof. exact CancelMore.query_polls_stop. Qed.
Print Assumptions C20_query_polls_stop.

(* a run that reaches poll k makes exactly k + 1 polls and returns the cancellation *)
Theorem C20_query_cancel_exact :
  forall L fuel p doc o vals k r s',
  o_cancel_at o = Some k -> query L fuel p doc o vals = Ret (r, s') -> (k < polls s')%nat ->
  polls s' = S k /\ r_st r = SFailed /\ r_err r = Some ECancel.
Proof. exact CancelMore.query_cancel_exact. Qed.
Print Assumptions C20_query_cancel_exact.

(* every call of the executor, whatever its entry state *)
Theorem C20_polls_bound :
  forall L E fuel r s a s' k, e_cancel_at E = Some k ->
  run L E fuel r s = Ret (a, s') -> (polls s' <= Nat.max (S (polls s)) (S k))%nat.
Proof. exact CancelMore.polls_bound. Qed.
Print Assumptions C20_polls_bound.

(* entered before the cancellation point has been passed: no poll after number k *)
Theorem C20_polls_stop_entered_before :
  forall L E fuel r s a s' k, e_cancel_at E = Some k ->
  run L E fuel r s = Ret (a, s') -> (polls s <= k)%nat ->
  (polls s' <= Nat.max (polls s) (S k))%nat.
Proof. exact CancelMore.polls_stop_partial. Qed.
Print Assumptions C20_polls_stop_entered_before.

(* entered after it: at most one poll, and then the result is the cancellation *)
Theorem C20_polls_stop_entered_after :
  forall L E fuel r s a s' k, e_cancel_at E = Some k ->
  run L E fuel r s = Ret (a, s') -> (k < polls s)%nat ->
  polls s' = polls s \/
  (polls s' = S (polls s) /\
   match a with
   | AItem x => r_st x = SFailed /\ r_err x = Some ECancel
   | ABool p => p_out p = PUnknown /\ p_err p = Some ECancel
   end).
Proof. exact CancelMore.polls_stop_entry_done. Qed.
Print Assumptions C20_polls_stop_entered_after.

(* the naive bound is false for a call entered after the cancellation point *)
Example C20_polls_stop_refuted :
  let E := mkenv true JNull [] 0 false (Some 0%nat) in
  let s := mkst JNull (-1) true true 0 0 1 5%nat 100 in
  exists a s', run Invariants.L_triv E 1 (RItem [] JNull None false) s = Ret (a, s') /\
               e_cancel_at E = Some 0%nat /\
               polls s = 5%nat /\ polls s' = 6%nat /\
               ~ (polls s' <= Nat.max (polls s) (S 0))%nat.
Proof. exact CancelMore.polls_stop_refuted. Qed.
Print Assumptions C20_polls_stop_refuted.

(* ---------- a cancelled run still returns, within the fuel bound of C05 ---------- *)
Theorem C20_query_returns :
  forall L, members_ok L -> forall p doc o, inputs_ok (num_ok L) doc o ->
  forall fuel, (fuel_for p doc o <= fuel)%nat -> exists q, Query L fuel p doc o = Ret q.
Proof. exact Query_returns. Qed.
Print Assumptions C20_query_returns.

Theorem C20_first_returns :
  forall L, members_ok L -> forall p doc o, inputs_ok (num_ok L) doc o ->
  forall fuel, (fuel_for p doc o <= fuel)%nat -> exists q, First L fuel p doc o = Ret q.
Proof. exact First_returns. Qed.
Print Assumptions C20_first_returns.

Theorem C20_exists_returns :
  forall L, members_ok L -> forall p doc o, inputs_ok (num_ok L) doc o ->
  forall fuel, (fuel_for p doc o <= fuel)%nat -> exists q, Exists L fuel p doc o = Ret q.
Proof. exact Exists_returns. Qed.
Print Assumptions C20_exists_returns.

Theorem C20_match_returns :
  forall L, members_ok L -> forall p doc o, inputs_ok (num_ok L) doc o ->
  forall fuel, (fuel_for p doc o <= fuel)%nat -> exists q, Match L fuel p doc o = Ret q.
Proof. exact Match_returns. Qed.
Print Assumptions C20_match_returns.

Theorem C20_eom_returns :
  forall L, members_ok L -> forall p doc o, inputs_ok (num_ok L) doc o ->
  forall fuel, (fuel_for p doc o <= fuel)%nat -> exists q, ExistsOrMatch L fuel p doc o = Ret q.
Proof. exact ExistsOrMatch_returns. Qed.
Print Assumptions C20_eom_returns.

(* ---------- the class of the cancellation raise site ---------- *)
Example C20_cancellation_site_class :
  In ("path/exec/execution.go", "executeItemOptUnwrapTarget", "ErrExecution")%string raise_sites.
Proof. exact cancellation_site_In. Qed.
Print Assumptions C20_cancellation_site_class.

Example C20_raise_site_classes : raise_sites = expected_raise_sites.
Proof. exact raise_sites_as_expected. Qed.
Print Assumptions C20_raise_site_classes.

(* ---------- non-vacuity ---------- *)
(* $.a on {"a":7}: not cancelled: a result; cancelled at the second poll (k = 1): two
   polls are made and the outcome is the cancellation — verbose and silent *)
Example C20_cancel_witness :
  Query Invariants.L_triv 10 Invariants.p_wit Invariants.doc_wit (Invariants.o_wit None false)
    = Ret (QItems [JNum (NInt 7)]) /\
  polls_of Invariants.L_triv 10 Invariants.p_wit Invariants.doc_wit (Invariants.o_wit (Some 1%nat) false) (Some [])
    = Ret 2%nat /\
  Query Invariants.L_triv 10 Invariants.p_wit Invariants.doc_wit (Invariants.o_wit (Some 1%nat) false)
    = Ret (QErr (AErr ECancel)) /\
  Query Invariants.L_triv 10 Invariants.p_wit Invariants.doc_wit (Invariants.o_wit (Some 1%nat) true)
    = Ret (QErr (AErr ECancel)).
Proof. exact Invariants.cancel_witness. Qed.
Print Assumptions C20_cancel_witness.
