(* C05 — Execution is total and pure, and its errors are classified.

   Statements over the model M (model/Exec.v), for ALL paths, documents, variable
   maps and option sets (silent or not, WithTZ or not, any cancellation point):
   with the explicit fuel bound [fuel_for] every entry point returns (never
   OutOfFuel, never Panic); Query/First never answer NULL; ErrInvalid is never
   returned for a parser-image path without datetime methods.

   Hypotheses, all satisfiable (witnesses in proofs/Total.v, RefineWitness.v):
     members_ok L      the iteration of a Go map yields members of that map (law of
                       the map-order oracle; needed: [members_law_needed])
     inputs_ok (num_ok L) every json.Number in the document and the variables
                       parses as a float (Go: it came from encoding/json)
     inputs_ok no_dt   the inputs contain no datetime items (documented Go types)
   Excluded (known findings, refuted below): ErrInvalid for a datetime compared
   with a non-datetime ([C05_refuted_datetime_invalid], pinned by compare_test.go).
   Not provable about a functional model and established on the implementation by
   the correspondence leg instead: the inputs are never modified (deep snapshot
   before/after every call), every returned number is finite (known findings
   C05-float-overflow-inf, C16-decimal-nan) and provenance of containers. *)
From SJ Require Import lib.Base model.Json model.Ast model.ExecLib model.Leaf model.Exec
     model.Parser proofs.TotalBase proofs.Total proofs.TotalWf proofs.Mono.

Theorem C05_query_returns :
  forall L, members_ok L -> forall p doc o, inputs_ok (num_ok L) doc o ->
  forall fuel, (fuel_for p doc o <= fuel)%nat -> exists q, Query L fuel p doc o = Ret q.
Proof. exact Query_returns. Qed.
Print Assumptions C05_query_returns.

Theorem C05_first_returns :
  forall L, members_ok L -> forall p doc o, inputs_ok (num_ok L) doc o ->
  forall fuel, (fuel_for p doc o <= fuel)%nat -> exists q, First L fuel p doc o = Ret q.
Proof. exact First_returns. Qed.
Print Assumptions C05_first_returns.

Theorem C05_exists_returns :
  forall L, members_ok L -> forall p doc o, inputs_ok (num_ok L) doc o ->
  forall fuel, (fuel_for p doc o <= fuel)%nat -> exists q, Exists L fuel p doc o = Ret q.
Proof. exact Exists_returns. Qed.
Print Assumptions C05_exists_returns.

Theorem C05_match_returns :
  forall L, members_ok L -> forall p doc o, inputs_ok (num_ok L) doc o ->
  forall fuel, (fuel_for p doc o <= fuel)%nat -> exists q, Match L fuel p doc o = Ret q.
Proof. exact Match_returns. Qed.
Print Assumptions C05_match_returns.

Theorem C05_eom_returns :
  forall L, members_ok L -> forall p doc o, inputs_ok (num_ok L) doc o ->
  forall fuel, (fuel_for p doc o <= fuel)%nat -> exists q, ExistsOrMatch L fuel p doc o = Ret q.
Proof. exact ExistsOrMatch_returns. Qed.
Print Assumptions C05_eom_returns.

(* more fuel never changes an answer *)
Theorem C05_fuel_monotone :
  forall L E k k' r s x, (k <= k')%nat -> run L E k r s = Ret x -> run L E k' r s = Ret x.
Proof. exact run_mono. Qed.
Print Assumptions C05_fuel_monotone.

(* no Panic whatever the fuel *)
Theorem C05_query_no_panic :
  forall L, members_ok L -> forall p doc o, inputs_ok (num_ok L) doc o ->
  forall fuel w, Query L fuel p doc o <> Panic w.
Proof. exact Query_no_panic. Qed.
Print Assumptions C05_query_no_panic.

Theorem C05_eom_no_panic :
  forall L, members_ok L -> forall p doc o, inputs_ok (num_ok L) doc o ->
  forall fuel w, ExistsOrMatch L fuel p doc o <> Panic w.
Proof. exact ExistsOrMatch_no_panic. Qed.
Print Assumptions C05_eom_no_panic.

(* classification: ErrInvalid is never returned *)
Theorem C05_query_no_invalid :
  forall L, members_ok L -> forall p doc o, inputs_ok (num_ok L) doc o -> inputs_ok no_dt doc o ->
  wf_exec_path p -> forall fuel q x, Query L fuel p doc o = Ret q -> q <> QErr (AErr (EInvalid x)).
Proof. exact Query_no_invalid. Qed.
Print Assumptions C05_query_no_invalid.

Theorem C05_first_no_invalid :
  forall L, members_ok L -> forall p doc o, inputs_ok (num_ok L) doc o -> inputs_ok no_dt doc o ->
  wf_exec_path p -> forall fuel q x, First L fuel p doc o = Ret q -> q <> FErr (AErr (EInvalid x)).
Proof. exact First_no_invalid. Qed.
Print Assumptions C05_first_no_invalid.

Theorem C05_exists_no_invalid :
  forall L, members_ok L -> forall p doc o, inputs_ok (num_ok L) doc o -> inputs_ok no_dt doc o ->
  wf_exec_path p -> forall fuel q x, Exists L fuel p doc o = Ret q -> q <> BErr (AErr (EInvalid x)).
Proof. exact Exists_no_invalid. Qed.
Print Assumptions C05_exists_no_invalid.

Theorem C05_match_no_invalid :
  forall L, members_ok L -> forall p doc o, inputs_ok (num_ok L) doc o -> inputs_ok no_dt doc o ->
  wf_exec_path p -> forall fuel q x, Match L fuel p doc o = Ret q -> q <> BErr (AErr (EInvalid x)).
Proof. exact Match_no_invalid. Qed.
Print Assumptions C05_match_no_invalid.

Theorem C05_eom_no_invalid :
  forall L, members_ok L -> forall p doc o, inputs_ok (num_ok L) doc o -> inputs_ok no_dt doc o ->
  wf_exec_path p -> forall fuel q x, ExistsOrMatch L fuel p doc o = Ret q -> q <> BErr (AErr (EInvalid x)).
Proof. exact ExistsOrMatch_no_invalid. Qed.
Print Assumptions C05_eom_no_invalid.

(* what Parse returns satisfies wf_exec_path (datetime methods aside) *)
Theorem C05_parser_image_is_wf :
  forall G p, wf_path G p -> no_sdt_chain (p_root p) = true -> wf_exec_path p.
Proof. exact wf_path_exec. Qed.
Print Assumptions C05_parser_image_is_wf.

(* NULL comes from Exists / Match / ExistsOrMatch only *)
Theorem C05_query_not_null : forall L fuel p doc o, Query L fuel p doc o <> Ret (QErr ANull).
Proof. exact Query_not_null. Qed.
Print Assumptions C05_query_not_null.

Theorem C05_first_not_null : forall L fuel p doc o, First L fuel p doc o <> Ret (FErr ANull).
Proof. exact First_not_null. Qed.
Print Assumptions C05_first_not_null.

(* the excluded class is real: known finding KF-C05-errinvalid-datetime-compare *)
Theorem C05_refuted_datetime_compare :
  exists L p doc o fuel x,
    members_ok L /\ inputs_ok (num_ok L) doc o /\ inputs_ok no_dt doc o /\
    Query L fuel p doc o = Ret (QErr (AErr (EInvalid x))).
Proof. exact C05_refuted_datetime_invalid. Qed.
Print Assumptions C05_refuted_datetime_compare.

(* and the law on the map-order oracle is needed for the fuel bound *)
Theorem C05_members_law_needed :
  exists L p doc o, Query L (fuel_for p doc o) p doc o = OutOfFuel.
Proof. exact members_law_needed. Qed.
Print Assumptions C05_members_law_needed.
