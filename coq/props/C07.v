(* C07 — Lax mode absorbs structural mismatches; strict mode reports each one.

   "In lax mode a path built from accessors (.key, .*, [*], .**, and [i], [i to j]
   with literal or last-relative bounds) and filters over them never returns an
   error: a step applied to a value of the wrong shape yields no items, arrays are
   unwrapped exactly one level for member access and filters, and subscripts treat a
   non-array as a one-element array.  In strict mode the same path returns a
   suppressible structural error exactly when some step meets a missing key, a value
   of the wrong kind or an out-of-range subscript - whatever the position of the
   offending element or subscript - except that member accessors below .** skip the
   nodes they do not apply to."

   The theorems are about the specification S (sem_step / sem_chain / sem_path of
   spec/Sem.v), for EVERY quirks record Q (so for quirks_ideal and for quirks_code,
   the specification the model refines).  The transfer to the executor model M is
   proofs/RefineClosed.query_is_trace (props/C01.v: Query of M returns the projection
   p_query of the trace); [C07_lax_query_of_model_never_errs] and
   [C07_strict_query_of_model_errs_suppressibly] are that transfer carried out
   (proofs/PropGlue.v), with the side conditions of C01 (no_kv, exists_ok, ne_ops,
   members_canon, no cancellation).

   The class of paths: [tight_chain B c] (proofs/StructProofs.v) — the class
   accessor_chain of spec/Proj.v ([C07_class_is_accessor_chain]) with the side
   conditions the statement needs: a literal bound lies within int32 (fractions after
   truncation), last - k has 0 <= k <= max_int32, last + k has k + B - 1 <= max_int32,
   where B (1 <= B <= 2^31) bounds the length of every array in play; filter
   conditions are comparisons (== != < > <= >=) of literals or tight chains, or
   exists() of a tight chain.  Each restriction is needed:
   [C07_refuted_literal_out_of_int32], [C07_refuted_last_plus_overflow].
   Hypotheses, all satisfiable ([C07_hypotheses_satisfiable], [C07_model_witness]):
     to_int64_law L   int64(float64) truncates toward zero (law of the oracle; holds
                      of the instance: SubscriptProofs.exL_law)
     wf_vals L C B    the document has no datetime values, every json.Number text in
                      it parses as a float (Go: it came from encoding/json), its
                      arrays are not longer than B.  Needed: [C07_refuted_bad_number],
                      [C07_refuted_datetime_value] (the latter is known finding
                      KF-C05-errinvalid-datetime-compare).
   Strict mode, "exactly when": stated on the filter-free accessor fragment, as its
   own syntax [astep] (ARoot ACurrent AKey AAnyKey AAnyArray AAny AIndex; apath_chain
   maps it to chains), with [mismatch C Q c ig cur v] = "evaluating c on v, some
   reached step meets a missing key / non-object (member access and the member wildcard), a non-array
   ([*] ), a non-array or an out-of-range subscript ([..]); ig = below .**, where the
   first three are skipped".  Its defining equations are restated below
   ([C07_mismatch_*]); they quantify with List.Exists over ALL members, elements,
   selected nodes and ALL subscripts of a list — that is "whatever the position"
   (the fixed finding e2482b0, strict $[0,1].a on [1,{"a":2}], was a failure under
   one subscript overwritten by the next); [C07_position_independent] and
   [C07_offending_element_anywhere] say it for [*] with an arbitrary rest of the path.
   Known finding KF-C14-null-subscript touches C07 through Q: with quirks_code a
   JSON null selected by a subscript is dropped, so the steps after the subscript do
   not meet it (q_skip_null Q in [C07_mismatch_index]); the theorems hold for both.
   Not covered: "exactly when" for strict paths WITH filters (for those only: a
   failure is suppressible, [C07_strict_failure_is_suppressible]; inside a filter
   condition structural errors make the condition unknown, props/C10.v). *)
From Coq Require Import Sorting.Permutation.
From SJ Require Import lib.Base lib.F64 model.Json model.Ast model.ExecLib model.Leaf model.Exec
     spec.Sem spec.Proj proofs.SemBasics proofs.DescendProofs proofs.SubscriptProofs proofs.FilterProofs
     proofs.RefineDefs proofs.Refine proofs.StructProofs proofs.PropGlue.

(* ---------- lax mode: never an error ---------- *)
Theorem C07_lax_never_errs :
  forall (L : ExecLib) (C : cenv) (Q : quirks) (B : Z),
    1 <= B -> B <= max_int32 + 1 -> to_int64_law L ->
    forall c : chain,
      c_lax C = true -> tight_chain B c = true -> wf_vals L C B ->
      snd (sem_path L C Q c) = None.
Proof. exact C07_lax. Qed.
Print Assumptions C07_lax_never_errs.

(* the same from any item v, any @ (cur), any enclosing array size l *)
Theorem C07_lax_never_errs_from_any_item :
  forall (L : ExecLib) (C : cenv) (Q : quirks) (B : Z),
    1 <= B -> B <= max_int32 + 1 -> to_int64_law L ->
    forall (c : chain) (cur : json) (l : Z) (u : bool) (v : json),
      c_lax C = true -> tight_chain B c = true ->
      wf_vals L C B -> wf L B cur = true -> wf L B v = true ->
      snd (sem_chain L C Q c cur l true u v) = None.
Proof. exact C07_lax_chain. Qed.
Print Assumptions C07_lax_never_errs_from_any_item.

(* ... and for the executor model M: Query returns the items of the trace *)
Theorem C07_lax_query_of_model_never_errs :
  forall (L : ExecLib) (B : Z) (p : path) (doc : json) (o : opts),
    1 <= B -> B <= max_int32 + 1 -> to_int64_law L ->
    o_cancel_at o = None -> members_canon L ->
    p_root p <> [] -> no_kv (p_root p) = true -> exists_ok (p_root p) = true -> ne_ops (p_root p) = true ->
    p_lax p = true -> tight_chain B (p_root p) = true ->
    wf_vals L (mkcenv (p_lax p) doc (o_vars o) (o_useTZ o)) B ->
    forall fuel q, Query L fuel p doc o = Ret q ->
    q = QItems (fst (sem_of L quirks_code p doc o)).
Proof. exact C07_lax_model. Qed.
Print Assumptions C07_lax_query_of_model_never_errs.

(* ---------- any mode: a failure of such a path is suppressible ---------- *)
Theorem C07_strict_failure_is_suppressible :
  forall (L : ExecLib) (C : cenv) (Q : quirks) (B : Z),
    1 <= B -> B <= max_int32 + 1 -> to_int64_law L ->
    forall (c : chain) (e : err),
      tight_chain B c = true -> wf_vals L C B ->
      snd (sem_path L C Q c) = Some e -> is_verbose e = true.
Proof. exact C07_strict_suppressible. Qed.
Print Assumptions C07_strict_failure_is_suppressible.

Theorem C07_failure_is_suppressible_from_any_item :
  forall (L : ExecLib) (C : cenv) (Q : quirks) (B : Z),
    1 <= B -> B <= max_int32 + 1 -> to_int64_law L ->
    forall (c : chain) (cur : json) (l : Z) (ig u : bool) (v : json) (e : err),
      tight_chain B c = true -> wf_vals L C B -> wf L B cur = true -> wf L B v = true ->
      snd (sem_chain L C Q c cur l ig u v) = Some e -> is_verbose e = true.
Proof. exact C07_suppressible_chain. Qed.
Print Assumptions C07_failure_is_suppressible_from_any_item.

(* the items are values found inside the document (nothing is made up) *)
Theorem C07_items_come_from_the_document :
  forall (L : ExecLib) (C : cenv) (Q : quirks) (B : Z),
    1 <= B -> B <= max_int32 + 1 -> to_int64_law L ->
    forall c : chain,
      tight_chain B c = true -> wf_vals L C B ->
      Forall (fun x : json => wf L B x = true) (fst (sem_path L C Q c)).
Proof. exact C07_items_wf. Qed.
Print Assumptions C07_items_come_from_the_document.

(* for M, in either mode: items, or an error of the suppressible class when not silent *)
Theorem C07_strict_query_of_model_errs_suppressibly :
  forall (L : ExecLib) (B : Z) (p : path) (doc : json) (o : opts),
    1 <= B -> B <= max_int32 + 1 -> to_int64_law L ->
    o_cancel_at o = None -> members_canon L ->
    p_root p <> [] -> no_kv (p_root p) = true -> exists_ok (p_root p) = true -> ne_ops (p_root p) = true ->
    tight_chain B (p_root p) = true ->
    wf_vals L (mkcenv (p_lax p) doc (o_vars o) (o_useTZ o)) B ->
    forall fuel q, Query L fuel p doc o = Ret q ->
    match q with
    | QItems l => l = fst (sem_of L quirks_code p doc o)
    | QErr (AErr e) => is_verbose e = true /\ o_silent o = false
    | QErr ANull => False
    end.
Proof. exact C07_strict_model. Qed.
Print Assumptions C07_strict_query_of_model_errs_suppressibly.

(* ---------- the class ---------- *)
Theorem C07_class_is_accessor_chain :
  forall (B : Z) (c : chain), tight_chain B c = true -> accessor_chain c = true.
Proof. exact tight_is_accessor. Qed.
Print Assumptions C07_class_is_accessor_chain.

Theorem C07_class_chain :
  forall (B : Z) (x : step) (r : list step), tight_chain B (x :: r) = tight B x && tight_chain B r.
Proof. exact tight_chain_cons. Qed.
Print Assumptions C07_class_chain.

Theorem C07_class_filter :
  forall (B : Z) (c : step), tight B (SUn UFilter [c]) = cond_ok B c.
Proof. exact tight_filter. Qed.
Print Assumptions C07_class_filter.

Theorem C07_class_subscript :
  forall (B : Z) (subs : list (chain * option chain)),
    tight B (SIndex subs) =
    forallb (fun ab => bound_ok B (fst ab) && match snd ab with Some c => bound_ok B c | None => true end) subs.
Proof. exact tight_index. Qed.
Print Assumptions C07_class_subscript.

(* every bound form of the property (i, fraction, last, last - k, last + k) is recognised *)
Theorem C07_class_bound_forms :
  forall b : bform, bound_form (bform_chain b) = Some b.
Proof. exact bound_form_complete. Qed.
Print Assumptions C07_class_bound_forms.

(* ---------- one level of unwrapping (lax: u = true) ---------- *)
(* member access on an array is applied to its elements ... *)
Theorem C07_key_unwraps_one_level :
  forall (L : ExecLib) (C : cenv) (Q : quirks) (key : string) (k : Z -> bool -> json -> trace)
         (cur : json) (l : Z) (ig : bool) (t : Z) (es : list json),
    sem_step L C Q (SKey key) k cur l ig true (JArr t es) = tbind_list es (key_one key ig (k l ig)).
Proof. exact key_unwraps_one_level. Qed.
Print Assumptions C07_key_unwraps_one_level.

(* ... and an element that is itself an array is not looked into: no items, no error *)
Theorem C07_key_inner_array_yields_nothing :
  forall (key : string) (k : json -> trace) (t : Z) (es : list json),
    key_one key true k (JArr t es) = tnil.
Proof. exact key_inner_array_skipped. Qed.
Print Assumptions C07_key_inner_array_yields_nothing.

Theorem C07_key_on_array_of_arrays_yields_nothing :
  forall (L : ExecLib) (C : cenv) (Q : quirks) (key : string) (k : Z -> bool -> json -> trace)
         (cur : json) (l t : Z) (ess : list json),
    Forall (fun x : json => is_array x = true) ess ->
    sem_step L C Q (SKey key) k cur l true true (JArr t ess) = tnil.
Proof. exact key_array_of_arrays. Qed.
Print Assumptions C07_key_on_array_of_arrays_yields_nothing.

Theorem C07_filter_unwraps_one_level :
  forall (L : ExecLib) (C : cenv) (Q : quirks) (c : step) (k : Z -> bool -> json -> trace)
         (cur : json) (l : Z) (ig : bool) (t : Z) (es : list json),
    sem_step L C Q (SUn UFilter [c]) k cur l ig true (JArr t es) =
    tbind_list es (filter_item L C Q c l ig (k l ig)).
Proof. exact filter_unwraps_one_level. Qed.
Print Assumptions C07_filter_unwraps_one_level.

(* a subscript treats a non-array as the one-element array [v] *)
Theorem C07_subscript_non_array_is_singleton :
  forall (L : ExecLib) (C : cenv) (Q : quirks) (subs : list (chain * option chain))
         (k : Z -> bool -> json -> trace) (cur : json) (l : Z) (ig u : bool) (v : json),
    c_lax C = true -> is_array v = false ->
    sem_step L C Q (SIndex subs) k cur l ig u v = index_go L C Q [v] (k 1 ig) cur ig v subs.
Proof. exact subscript_non_array_singleton. Qed.
Print Assumptions C07_subscript_non_array_is_singleton.

(* ---------- strict mode: an error EXACTLY WHEN some step meets a mismatch ---------- *)
Theorem C07_strict_errs_exactly_when_mismatch :
  forall (L : ExecLib) (C : cenv) (Q : quirks) (B : Z),
    B <= max_int32 + 1 -> to_int64_law L -> c_lax C = false ->
    forall c : list astep,
      forallb (astep_ok B) c = true -> small B (c_root C) = true ->
      (snd (sem_path L C Q (apath_chain c)) <> None <-> mismatch C Q c false (c_root C) (c_root C)).
Proof. exact C07_strict_path_exactly_when. Qed.
Print Assumptions C07_strict_errs_exactly_when_mismatch.

(* from any item, and below .** (ig = true) *)
Theorem C07_strict_errs_exactly_when_mismatch_from_any_item :
  forall (L : ExecLib) (C : cenv) (Q : quirks) (B : Z),
    B <= max_int32 + 1 -> to_int64_law L -> c_lax C = false ->
    forall (c : list astep) (ig : bool) (cur : json) (l : Z) (v : json),
      forallb (astep_ok B) c = true ->
      small B (c_root C) = true -> small B cur = true -> small B v = true ->
      (snd (sem_chain L C Q (apath_chain c) cur l ig false v) <> None <-> mismatch C Q c ig cur v).
Proof. exact C07_strict_exactly_when. Qed.
Print Assumptions C07_strict_errs_exactly_when_mismatch_from_any_item.

(* what "meets a mismatch" means, accessor by accessor *)
Theorem C07_mismatch_end :
  forall (C : cenv) (Q : quirks) (ig : bool) (cur v : json), mismatch C Q [] ig cur v = False.
Proof. exact mismatch_nil. Qed.
Print Assumptions C07_mismatch_end.

Theorem C07_mismatch_root :
  forall (C : cenv) (Q : quirks) (rest : list astep) (ig : bool) (cur v : json),
    mismatch C Q (ARoot :: rest) ig cur v = mismatch C Q rest ig cur (c_root C).
Proof. exact mismatch_root. Qed.
Print Assumptions C07_mismatch_root.

Theorem C07_mismatch_current :
  forall (C : cenv) (Q : quirks) (rest : list astep) (ig : bool) (cur v : json),
    mismatch C Q (ACurrent :: rest) ig cur v = mismatch C Q rest ig cur cur.
Proof. exact mismatch_current. Qed.
Print Assumptions C07_mismatch_current.

(* .key: a missing key or a non-object — unless below .** *)
Theorem C07_mismatch_key :
  forall (C : cenv) (Q : quirks) (rest : list astep) (ig : bool) (cur v : json) (key : string),
    mismatch C Q (AKey key :: rest) ig cur v =
    match v with
    | JObj _ m => match lookup key m with
                  | Some y => mismatch C Q rest ig cur y
                  | None => ig = false
                  end
    | _ => ig = false
    end.
Proof. exact mismatch_key. Qed.
Print Assumptions C07_mismatch_key.

(* .*: a non-object (unless below .** ), or a mismatch under SOME member *)
Theorem C07_mismatch_anykey :
  forall (C : cenv) (Q : quirks) (rest : list astep) (ig : bool) (cur v : json),
    mismatch C Q (AAnyKey :: rest) ig cur v =
    match v with
    | JObj _ m => List.Exists (mismatch C Q rest ig cur) (map snd m)
    | _ => ig = false
    end.
Proof. exact mismatch_anykey. Qed.
Print Assumptions C07_mismatch_anykey.

(* [*]: a non-array (unless below .** ), or a mismatch under SOME element *)
Theorem C07_mismatch_anyarray :
  forall (C : cenv) (Q : quirks) (rest : list astep) (ig : bool) (cur v : json),
    mismatch C Q (AAnyArray :: rest) ig cur v =
    match v with
    | JArr _ es => List.Exists (mismatch C Q rest ig cur) es
    | _ => ig = false
    end.
Proof. exact mismatch_anyarray. Qed.
Print Assumptions C07_mismatch_anyarray.

(* .**{a to b} never fails itself; the rest runs on every selected node with ig = true *)
Theorem C07_mismatch_any :
  forall (C : cenv) (Q : quirks) (rest : list astep) (ig : bool) (cur v : json) (a b : Z),
    mismatch C Q (AAny a b :: rest) ig cur v =
    List.Exists (mismatch C Q rest true cur) (nodes_at_depth a b v).
Proof. exact mismatch_any. Qed.
Print Assumptions C07_mismatch_any.

(* [subscripts]: a non-array (always); SOME subscript of the list out of range
   (unless below .** ); or a mismatch under SOME selected element *)
Theorem C07_mismatch_index :
  forall (C : cenv) (Q : quirks) (rest : list astep) (ig : bool) (cur v : json)
         (ss : list (bform * option bform)),
    mismatch C Q (AIndex ss :: rest) ig cur v =
    match v with
    | JArr _ es =>
        match subs_val (Z.of_nat (List.length es)) ss with
        | Some bounds =>
            (ig = false /\
             List.Exists (fun ft => SubscriptProofs.oob (Z.of_nat (List.length es)) (fst ft) (snd ft) = true) bounds)
            \/ List.Exists (mismatch C Q rest ig cur) (fst (select_trace true (q_skip_null Q) es bounds))
        | None => True
        end
    | _ => True
    end.
Proof. exact mismatch_index. Qed.
Print Assumptions C07_mismatch_index.

(* ---------- whatever the position of the offending element ---------- *)
Theorem C07_position_independent :
  forall (L : ExecLib) (C : cenv) (Q : quirks) (rest : list step) (cur : json) (l : Z) (ig u : bool)
         (t : Z) (es es' : list json),
    Permutation es es' ->
    (snd (sem_chain L C Q (SConst CAnyArray :: rest) cur l ig u (JArr t es)) <> None <->
     snd (sem_chain L C Q (SConst CAnyArray :: rest) cur l ig u (JArr t es')) <> None).
Proof. exact position_independent. Qed.
Print Assumptions C07_position_independent.

Theorem C07_offending_element_anywhere :
  forall (L : ExecLib) (C : cenv) (Q : quirks) (rest : chain) (cur : json) (l : Z) (ig u : bool)
         (t : Z) (l1 : list json) (x : json) (l2 : list json),
    snd (sem_chain L C Q rest cur l ig (laxm C) x) <> None ->
    snd (sem_chain L C Q (SConst CAnyArray :: rest) cur l ig u (JArr t (l1 ++ x :: l2))) <> None.
Proof. exact offending_element_anywhere. Qed.
Print Assumptions C07_offending_element_anywhere.

(* ---------- non-vacuity ---------- *)
(* sdoc = {"a":[{"b":1},[{"b":2}],7]}; spath = $.a.b ? (@ > 0);
   spath2 = $.a[0 to last - 1, 9].**.b; sB = 1000 *)
Example C07_hypotheses_satisfiable :
  wf_vals sL (mkcenv true sdoc [] false) sB /\ tight_chain sB spath = true /\ tight_chain sB spath2 = true
  /\ accessor_chain spath = true /\ 1 <= sB <= max_int32 + 1.
Proof. exact ex_hyps. Qed.
Print Assumptions C07_hypotheses_satisfiable.

(* lax: the array under "a" is unwrapped one level, the inner array is not looked
   into, the number 7 yields nothing, no error *)
Example C07_lax_example :
  sem_path sL (mkcenv true sdoc [] false) quirks_ideal spath = ([SubscriptProofs.num 1], None).
Proof. exact ex_lax. Qed.
Print Assumptions C07_lax_example.

Example C07_strict_example :
  sem_path sL (mkcenv false sdoc [] false) quirks_ideal spath
  = ([], Some (EVerbose "jsonpath member accessor can only be applied to an object")).
Proof. exact ex_strict. Qed.
Print Assumptions C07_strict_example.

(* lax: the out-of-range subscript 9 is clipped away, .b below .** skips non-objects *)
Example C07_lax_example_subscripts_and_descent :
  sem_path sL (mkcenv true sdoc [] false) quirks_ideal spath2
  = ([SubscriptProofs.num 1; SubscriptProofs.num 2; SubscriptProofs.num 2], None).
Proof. exact ex_lax2. Qed.
Print Assumptions C07_lax_example_subscripts_and_descent.

(* strict $.a[*].b mismatches (elements that are not objects); strict $.a[0].b does not *)
Example C07_mismatch_example :
  mismatch (mkcenv false sdoc [] false) quirks_ideal [ARoot; AKey "a"; AAnyArray; AKey "b"] false sdoc sdoc.
Proof. exact ex_mismatch. Qed.
Print Assumptions C07_mismatch_example.

Example C07_no_mismatch_example :
  ~ mismatch (mkcenv false sdoc [] false) quirks_ideal
      [ARoot; AKey "a"; AIndex [(BInt 0, None)]; AKey "b"] false sdoc sdoc.
Proof. exact ex_no_mismatch. Qed.
Print Assumptions C07_no_mismatch_example.

Example C07_exactly_when_hypotheses_satisfiable :
  forallb (astep_ok sB) [ARoot; AKey "a"; AIndex [(BInt 0, Some (BLastMinus 1))]; AAny 0 max_uint32; AKey "b"] = true
  /\ small sB sdoc = true /\ to_int64_law sL /\ c_lax (mkcenv false sdoc [] false) = false.
Proof. exact ex_exactly_when_hyps. Qed.
Print Assumptions C07_exactly_when_hypotheses_satisfiable.

(* the model on the same inputs: all hypotheses of the two transfer theorems hold *)
Example C07_model_witness :
  1 <= sB /\ sB <= max_int32 + 1 /\ to_int64_law sL /\ members_canon sL /\
  o_cancel_at o_plain = None /\ spath <> [] /\
  no_kv spath = true /\ exists_ok spath = true /\ ne_ops spath = true /\ tight_chain sB spath = true /\
  wf_vals sL (mkcenv true sdoc (o_vars o_plain) (o_useTZ o_plain)) sB /\
  wf_vals sL (mkcenv false sdoc (o_vars o_plain) (o_useTZ o_plain)) sB /\
  Query sL 40 (mkpath true false spath) sdoc o_plain = Ret (QItems [SubscriptProofs.num 1]) /\
  Query sL 40 (mkpath false false spath) sdoc o_plain =
    Ret (QErr (AErr (EVerbose "jsonpath member accessor can only be applied to an object"))).
Proof. exact PropGlue.C07_model_witness. Qed.
Print Assumptions C07_model_witness.

(* ---------- the side conditions are needed ---------- *)
(* an integer literal outside int32 is an error in lax mode too *)
Example C07_refuted_literal_out_of_int32 :
  accessor_chain [SConst CRoot; SIndex [([SInteger 3000000000], None)]] = true /\
  sem_path sL (mkcenv true sdoc [] false) quirks_ideal [SConst CRoot; SIndex [([SInteger 3000000000], None)]]
  = ([], Some (EVerbose "array subscript is out of integer range")).
Proof. exact cex_literal_out_of_int32. Qed.
Print Assumptions C07_refuted_literal_out_of_int32.

(* last + k can leave int32 although k and the array length are both below 2^31 *)
Example C07_refuted_last_plus_overflow :
  accessor_chain [SConst CRoot; SIndex [([SBin BAdd [SConst CLast] [SInteger 2147483647]], None)]] = true /\
  sem_path sL (mkcenv true (JArr 0 [JNull; JNull]) [] false) quirks_ideal
    [SConst CRoot; SIndex [([SBin BAdd [SConst CLast] [SInteger 2147483647]], None)]]
  = ([], Some (EVerbose "array subscript is out of integer range")).
Proof. exact cex_last_plus_overflow. Qed.
Print Assumptions C07_refuted_last_plus_overflow.

(* wf_vals: a json.Number whose text does not parse makes a filter comparison fail hard *)
Example C07_refuted_bad_number :
  sem_path sL (mkcenv true (JNum (NJs "x")) [] false) quirks_ideal
    [SConst CRoot; SUn UFilter [SBin BEq [SConst CCurrent] [SInteger 1]]]
  = ([], Some (EInvalid "panic")).
Proof. exact cex_bad_number. Qed.
Print Assumptions C07_refuted_bad_number.

(* wf_vals: a datetime value compared with a non-datetime (KF-C05-errinvalid-datetime-compare) *)
Example C07_refuted_datetime_value :
  sem_path sL (mkcenv true (JDt (mkdt KDate 0 0 0)) [] false) quirks_ideal
    [SConst CRoot; SUn UFilter [SBin BEq [SConst CCurrent] [SInteger 1]]]
  = ([], Some (EInvalid "unknownDateTime")).
Proof. exact cex_datetime. Qed.
Print Assumptions C07_refuted_datetime_value.
