(* C08 — WithSilent suppresses exactly the suppressible errors.

   "With WithSilent no entry point returns an error wrapping exec.ErrVerbose; an
   execution that succeeds without WithSilent returns the identical result with it,
   and where the non-silent run fails with a suppressible error the silent run
   returns no error: the items found before the failure (Query/First), or NULL unless
   the answer was already established (Exists/Match).  Non-suppressible errors -
   unknown variable, casts that need a time zone, unsupported datetime template,
   invalid decimal precision or scale, cancellation - are returned unchanged, and the
   suppression used inside predicates never leaks: after a filter or predicate the
   surrounding path still reports its own errors."

   Three groups of statements.
   (1) About the executor model M (model/Exec.v) alone, for ALL paths, documents,
       option sets (any cancellation point), fuels and library instances, no side
       condition: no entry point called with o_silent = true returns an error object
       of the suppressible class ([C08_*_silent_never_verbose]); at the level of the
       executor's calls: a suppressible error object leaves a call only if the call
       was entered with verbose = true, and a predicate never returns one
       ([C08_quiet_call]); every call returns with the verbose flag (and @, last, the
       structural-error flag, the keyvalue base object) as it found them
       ([C08_verbose_restored_after_every_call]) — "the suppression never leaks".
   (2) About the specification S: the silent and the verbose result are the two
       projections p_query true / p_query false (p_exists ...) of ONE trace
       (spec/Proj.v), and on ANY trace these are related as the property says
       ([C08_proj_*]).  First and Match are functions of Query's projection
       (props/C06.v: C06_first_is_head_of_query, C06_match_is_sole_boolean_of_query).
   (3) The link: M run with o and M run with o' (= o with WithSilent) both return
       the projection of the trace of S, which does not depend on o_silent
       ([C08_query_is_the_trace], [C08_exists_is_the_trace] for every o,
       [C08_trace_ignores_silent]); the clauses of the property on M follow
       ([C08_model_*], glue in proofs/PropGlue.v).  "The items found before the
       failure" is fst of the trace.  Side conditions of (3) are those of C01:
       o_cancel_at = None (cancellation under WithSilent: props/C20.v, for every o),
       members_canon L, p_root p <> [], no_kv, exists_ok, ne_ops; for Exists in lax
       mode unary_tail_free.  Satisfiable: [C08_model_witness].
   Which errors are suppressible is decided per raise site by its class (ErrVerbose vs
   ErrExecution/ErrInvalid); the inventory of raise sites regenerated from /repo on
   every run equals the one the model was validated against ([C08_raise_site_classes]):
   a change of any raise site's class in /repo breaks this proof obligation.
   "Returned unchanged" is proved up to the class of the error (eclass: ErrVerbose /
   ErrExecution / ErrInvalid / cancellation), the granularity of the refinement
   relation of C01; the message text is compared by the correspondence leg.
   Excluded classes (known findings):
     KF-C06-unary-exists   lax Exists of a path ending in unary + or -: M answers true
                           where the trace fails ([C08_refuted_unary_exists]); hence
                           unary_tail_free in the Exists statements of (3).
     KF-C11-isunknown-hard-error  a non-suppressible error raised inside
                           (...) is unknown is NOT returned: it becomes true, with and
                           without WithSilent alike; part of quirks_code
                           ([C08_refuted_isunknown_swallows_hard_error]).
     KF-C14-null-subscript part of quirks_code; does not distinguish the two runs.
   Fixed during the work (the model transliterates the fixed code): c714021 (a filter
   lost a non-suppressible error of its condition), 94a7325 (.double() raised a
   non-suppressible error), 6626c63 (is unknown discarded a cancellation), ddb4f85
   (silent .** carried on after a failure), cbeb5cb (silent failed subscript taken
   for index 0).
   Not covered on M by a theorem: the Match and First analogues of [C08_model_*]
   (they follow from (2), (3) and C06 the same way; group (1) covers them). *)
From SJ Require Import lib.Base model.Json model.Ast model.ExecLib model.Leaf model.Exec
     spec.Sem spec.Proj proofs.RefineDefs proofs.Refine proofs.RefineClosed proofs.ProjProofs
     proofs.KleeneProofs gen.RaiseSites model.RaiseExpect proofs.PropGlue.
From SJ Require proofs.RefineWitness proofs.Invariants.

(* ---------- (1) the model: no suppressible error object under WithSilent ---------- *)
Theorem C08_query_silent_never_verbose :
  forall L fuel p doc o q, o_silent o = true -> Query L fuel p doc o = Ret q ->
  forall s, q <> QErr (AErr (EVerbose s)).
Proof. exact Invariants.silent_never_verbose. Qed.
Print Assumptions C08_query_silent_never_verbose.

Theorem C08_first_silent_never_verbose :
  forall L fuel p doc o q, o_silent o = true -> First L fuel p doc o = Ret q ->
  forall s, q <> FErr (AErr (EVerbose s)).
Proof. exact Invariants.first_silent_never_verbose. Qed.
Print Assumptions C08_first_silent_never_verbose.

Theorem C08_exists_silent_never_verbose :
  forall L fuel p doc o q, o_silent o = true -> Exists L fuel p doc o = Ret q ->
  forall s, q <> BErr (AErr (EVerbose s)).
Proof. exact Invariants.exists_silent_never_verbose. Qed.
Print Assumptions C08_exists_silent_never_verbose.

Theorem C08_match_silent_never_verbose :
  forall L fuel p doc o q, o_silent o = true -> Match L fuel p doc o = Ret q ->
  forall s, q <> BErr (AErr (EVerbose s)).
Proof. exact Invariants.match_silent_never_verbose. Qed.
Print Assumptions C08_match_silent_never_verbose.

Theorem C08_eom_silent_never_verbose :
  forall L fuel p doc o q, o_silent o = true -> ExistsOrMatch L fuel p doc o = Ret q ->
  forall s, q <> BErr (AErr (EVerbose s)).
Proof. exact Invariants.eom_silent_never_verbose. Qed.
Print Assumptions C08_eom_silent_never_verbose.

(* every call of the executor: a suppressible error object needs verbose = true at
   entry; a predicate (RBool request) never returns one *)
Theorem C08_quiet_call :
  forall L E fuel r s a s', run L E fuel r s = Ret (a, s') ->
  match a with
  | AItem x => forall e, r_err x = Some e -> is_verbose e = true -> verbose s = true
  | ABool p => forall e, p_err p = Some e -> is_verbose e = false
  end.
Proof. exact Invariants.quiet_run. Qed.
Print Assumptions C08_quiet_call.

(* an error object always comes with a failure status / an unknown outcome *)
Theorem C08_error_object_means_failure :
  forall L E fuel r s a s', run L E fuel r s = Ret (a, s') ->
  match a with
  | AItem x => forall e, r_err x = Some e -> r_st x = SFailed
  | ABool p => forall e, p_err p = Some e -> p_out p = PUnknown
  end.
Proof. exact Invariants.coherent_run. Qed.
Print Assumptions C08_error_object_means_failure.

(* the suppression never leaks: whatever a call does to the verbose flag (predicate
   operands clear it), it is restored when the call returns — on every exit path *)
Theorem C08_verbose_restored_after_every_call :
  forall L E fuel r s a s', run L E fuel r s = Ret (a, s') ->
  cur s' = cur s /\ last_size s' = last_size s /\ ign s' = ign s /\ verbose s' = verbose s /\
  base_addr s' = base_addr s /\ base_id s' = base_id s /\ last_id s <= last_id s' /\ (polls s <= polls s')%nat.
Proof. exact Invariants1.frame_run. Qed.
Print Assumptions C08_verbose_restored_after_every_call.

(* ---------- (2) the projections of any trace ---------- *)
(* a verbose success is returned unchanged by the silent run *)
Theorem C08_proj_query_success_same :
  forall t l, p_query false t = QItems l -> p_query true t = QItems l.
Proof. exact p_query_success_same. Qed.
Print Assumptions C08_proj_query_success_same.

(* a suppressible failure: the silent Query returns the items found before it *)
Theorem C08_proj_query_suppressed :
  forall t e, snd t = Some e -> is_verbose e = true -> p_query true t = QItems (fst t).
Proof. exact p_query_suppressed. Qed.
Print Assumptions C08_proj_query_suppressed.

(* a non-suppressible failure is returned unchanged, silent or not *)
Theorem C08_proj_query_hard :
  forall t e, snd t = Some e -> is_verbose e = false ->
  p_query true t = QErr (AErr e) /\ p_query false t = QErr (AErr e).
Proof. exact p_query_hard. Qed.
Print Assumptions C08_proj_query_hard.

Theorem C08_proj_query_silent_never_verbose :
  forall t e, p_query true t = QErr (AErr e) -> is_verbose e = false.
Proof. exact p_query_silent_never_verbose. Qed.
Print Assumptions C08_proj_query_silent_never_verbose.

Theorem C08_proj_exists_silent_never_verbose :
  forall laxm t e, p_exists laxm true t = BErr (AErr e) -> is_verbose e = false.
Proof. exact p_exists_silent_never_verbose. Qed.
Print Assumptions C08_proj_exists_silent_never_verbose.

(* Exists under WithSilent: NULL unless the answer was already established (lax
   mode, an item before the failure) *)
Theorem C08_proj_exists_suppressed :
  forall laxm t e, snd t = Some e -> is_verbose e = true ->
  p_exists laxm true t =
  if laxm && negb (match fst t with [] => true | _ => false end) then BVal true else BErr ANull.
Proof. exact p_exists_suppressed. Qed.
Print Assumptions C08_proj_exists_suppressed.

(* ---------- (3) the link: both runs of M are projections of one trace ---------- *)
Theorem C08_query_is_the_trace :
  forall (L : ExecLib) (p : path) (doc : json) (o : opts),
    o_cancel_at o = None -> members_canon L -> p_root p <> [] ->
    no_kv (p_root p) = true -> exists_ok (p_root p) = true -> ne_ops (p_root p) = true ->
    forall fuel q, Query L fuel p doc o = Ret q ->
    qres_sim q (p_query (o_silent o) (sem_of L quirks_code p doc o)).
Proof. exact query_is_trace. Qed.
Print Assumptions C08_query_is_the_trace.

Theorem C08_exists_is_the_trace :
  forall (L : ExecLib) (p : path) (doc : json) (o : opts),
    o_cancel_at o = None -> members_canon L -> p_root p <> [] ->
    no_kv (p_root p) = true -> exists_ok (p_root p) = true -> ne_ops (p_root p) = true ->
    forall fuel b, Exists L fuel p doc o = Ret b ->
    (p_lax p = true -> unary_tail_free (p_root p) = true) ->
    bres_sim b (p_exists (p_lax p) (o_silent o) (sem_of L quirks_code p doc o)).
Proof. exact exists_is_trace. Qed.
Print Assumptions C08_exists_is_the_trace.

Theorem C08_first_is_the_trace :
  forall (L : ExecLib) (p : path) (doc : json) (o : opts),
    o_cancel_at o = None -> members_canon L -> p_root p <> [] ->
    no_kv (p_root p) = true -> exists_ok (p_root p) = true -> ne_ops (p_root p) = true ->
    forall fuel q, First L fuel p doc o = Ret q ->
    fres_sim q (p_first (o_silent o) (sem_of L quirks_code p doc o)).
Proof. exact first_is_trace. Qed.
Print Assumptions C08_first_is_the_trace.

Theorem C08_match_is_the_trace :
  forall (L : ExecLib) (p : path) (doc : json) (o : opts),
    o_cancel_at o = None -> members_canon L -> p_root p <> [] ->
    no_kv (p_root p) = true -> exists_ok (p_root p) = true -> ne_ops (p_root p) = true ->
    forall fuel q, Match L fuel p doc o = Ret q ->
    bres_sim q (p_match (o_silent o) (sem_of L quirks_code p doc o)).
Proof. exact match_is_trace. Qed.
Print Assumptions C08_match_is_the_trace.

(* the trace does not depend on WithSilent *)
Theorem C08_trace_ignores_silent :
  forall (L : ExecLib) (Q : quirks) (p : path) (doc : json) (o o' : opts),
    o_vars o' = o_vars o -> o_useTZ o' = o_useTZ o -> sem_of L Q p doc o' = sem_of L Q p doc o.
Proof. exact sem_of_silent_irrelevant. Qed.
Print Assumptions C08_trace_ignores_silent.

(* the clauses on the model: o is the verbose option set, o' the same with WithSilent *)
Theorem C08_model_query_success_same :
  forall (L : ExecLib) (p : path) (doc : json) (o o' : opts),
    o_vars o' = o_vars o -> o_useTZ o' = o_useTZ o -> o_silent o = false -> o_silent o' = true ->
    o_cancel_at o = None -> o_cancel_at o' = None -> members_canon L -> p_root p <> [] ->
    no_kv (p_root p) = true -> exists_ok (p_root p) = true -> ne_ops (p_root p) = true ->
    forall (fuel fuel' : nat) (l : list json) (q' : qres),
      Query L fuel p doc o = Ret (QItems l) -> Query L fuel' p doc o' = Ret q' -> q' = QItems l.
Proof. exact C08_query_success_same. Qed.
Print Assumptions C08_model_query_success_same.

Theorem C08_model_query_suppressed :
  forall (L : ExecLib) (p : path) (doc : json) (o o' : opts),
    o_vars o' = o_vars o -> o_useTZ o' = o_useTZ o -> o_silent o = false -> o_silent o' = true ->
    o_cancel_at o = None -> o_cancel_at o' = None -> members_canon L -> p_root p <> [] ->
    no_kv (p_root p) = true -> exists_ok (p_root p) = true -> ne_ops (p_root p) = true ->
    forall (fuel fuel' : nat) (e : err) (q' : qres),
      Query L fuel p doc o = Ret (QErr (AErr e)) -> is_verbose e = true ->
      Query L fuel' p doc o' = Ret q' -> q' = QItems (fst (sem_of L quirks_code p doc o)).
Proof. exact C08_query_suppressed. Qed.
Print Assumptions C08_model_query_suppressed.

Theorem C08_model_query_hard :
  forall (L : ExecLib) (p : path) (doc : json) (o o' : opts),
    o_vars o' = o_vars o -> o_useTZ o' = o_useTZ o -> o_silent o = false -> o_silent o' = true ->
    o_cancel_at o = None -> o_cancel_at o' = None -> members_canon L -> p_root p <> [] ->
    no_kv (p_root p) = true -> exists_ok (p_root p) = true -> ne_ops (p_root p) = true ->
    forall (fuel fuel' : nat) (e : err) (q' : qres),
      Query L fuel p doc o = Ret (QErr (AErr e)) -> is_verbose e = false ->
      Query L fuel' p doc o' = Ret q' -> exists e' : err, q' = QErr (AErr e') /\ eclass e' = eclass e.
Proof. exact C08_query_hard. Qed.
Print Assumptions C08_model_query_hard.

Theorem C08_model_exists_answer_same :
  forall (L : ExecLib) (p : path) (doc : json) (o o' : opts),
    o_vars o' = o_vars o -> o_useTZ o' = o_useTZ o -> o_silent o = false -> o_silent o' = true ->
    o_cancel_at o = None -> o_cancel_at o' = None -> members_canon L -> p_root p <> [] ->
    no_kv (p_root p) = true -> exists_ok (p_root p) = true -> ne_ops (p_root p) = true ->
    forall (fuel fuel' : nat) (x : bool) (b' : bres),
      (p_lax p = true -> unary_tail_free (p_root p) = true) ->
      Exists L fuel p doc o = Ret (BVal x) -> Exists L fuel' p doc o' = Ret b' -> b' = BVal x.
Proof. exact C08_exists_answer_same. Qed.
Print Assumptions C08_model_exists_answer_same.

Theorem C08_model_exists_suppressed :
  forall (L : ExecLib) (p : path) (doc : json) (o o' : opts),
    o_vars o' = o_vars o -> o_useTZ o' = o_useTZ o -> o_silent o = false -> o_silent o' = true ->
    o_cancel_at o = None -> o_cancel_at o' = None -> members_canon L -> p_root p <> [] ->
    no_kv (p_root p) = true -> exists_ok (p_root p) = true -> ne_ops (p_root p) = true ->
    forall (fuel fuel' : nat) (e : err) (b' : bres),
      (p_lax p = true -> unary_tail_free (p_root p) = true) ->
      Exists L fuel p doc o = Ret (BErr (AErr e)) -> is_verbose e = true ->
      Exists L fuel' p doc o' = Ret b' -> b' = BErr ANull.
Proof. exact C08_exists_suppressed. Qed.
Print Assumptions C08_model_exists_suppressed.

Theorem C08_model_exists_hard :
  forall (L : ExecLib) (p : path) (doc : json) (o o' : opts),
    o_vars o' = o_vars o -> o_useTZ o' = o_useTZ o -> o_silent o = false -> o_silent o' = true ->
    o_cancel_at o = None -> o_cancel_at o' = None -> members_canon L -> p_root p <> [] ->
    no_kv (p_root p) = true -> exists_ok (p_root p) = true -> ne_ops (p_root p) = true ->
    forall (fuel fuel' : nat) (e : err) (b' : bres),
      (p_lax p = true -> unary_tail_free (p_root p) = true) ->
      Exists L fuel p doc o = Ret (BErr (AErr e)) -> is_verbose e = false ->
      Exists L fuel' p doc o' = Ret b' -> exists e' : err, b' = BErr (AErr e') /\ eclass e' = eclass e.
Proof. exact C08_exists_hard. Qed.
Print Assumptions C08_model_exists_hard.

(* ---------- non-vacuity, on concrete runs of the model ---------- *)
(* strict $.b on {"a":7}: reported when verbose, absent when silent *)
Example C08_silent_witness :
  Query Invariants.L_triv 10 (mkpath false false [SConst CRoot; SKey "b"]) Invariants.doc_wit
        (Invariants.o_wit None false)
    = Ret (QErr (AErr (EVerbose "JSON object does not contain key"))) /\
  Query Invariants.L_triv 10 (mkpath false false [SConst CRoot; SKey "b"]) Invariants.doc_wit
        (Invariants.o_wit None true)
    = Ret (QItems []).
Proof. exact Invariants.silent_witness. Qed.
Print Assumptions C08_silent_witness.

(* c08_path = strict $[*].a on c08_doc = [{"a":1},{}]: the hypotheses of (3) hold; verbose:
   the error; silent: the item found before it; Exists: the error / NULL.
   c08_path2 = strict $[*] ? (@.a == 1).b on c08_doc2 = [{"a":1},{"c":2}]: the missing key
   a of the second element is suppressed inside the predicate, the missing key b after
   the filter is reported — the suppression did not leak *)
Example C08_model_witness :
  members_canon Invariants.L_triv /\
  p_root c08_path <> [] /\ no_kv (p_root c08_path) = true /\ exists_ok (p_root c08_path) = true /\
  ne_ops (p_root c08_path) = true /\ unary_tail_free (p_root c08_path) = true /\
  Query Invariants.L_triv 20 c08_path c08_doc (Invariants.o_wit None false)
    = Ret (QErr (AErr (EVerbose "JSON object does not contain key"))) /\
  Query Invariants.L_triv 20 c08_path c08_doc (Invariants.o_wit None true) = Ret (QItems [JNum (NInt 1)]) /\
  fst (sem_of Invariants.L_triv quirks_code c08_path c08_doc (Invariants.o_wit None false)) = [JNum (NInt 1)] /\
  Exists Invariants.L_triv 20 c08_path c08_doc (Invariants.o_wit None false)
    = Ret (BErr (AErr (EVerbose "JSON object does not contain key"))) /\
  Exists Invariants.L_triv 20 c08_path c08_doc (Invariants.o_wit None true) = Ret (BErr ANull) /\
  Query Invariants.L_triv 30 c08_path2 c08_doc2 (Invariants.o_wit None false)
    = Ret (QErr (AErr (EVerbose "JSON object does not contain key"))) /\
  Query Invariants.L_triv 30 c08_path2 c08_doc2 (Invariants.o_wit None true) = Ret (QItems []).
Proof. exact PropGlue.C08_model_witness. Qed.
Print Assumptions C08_model_witness.

(* ---------- the classes of the raise sites ---------- *)
Example C08_raise_site_classes : raise_sites = expected_raise_sites.
Proof. exact raise_sites_as_expected. Qed.
Print Assumptions C08_raise_site_classes.

(* ---------- the excluded classes are real ---------- *)
(* KF-C06-unary-exists: lax Exists of -"a" *)
Example C08_refuted_unary_exists :
  unary_tail_free (p_root RefineWitness.p_um) = false /\
  no_kv (p_root RefineWitness.p_um) = true /\ exists_ok (p_root RefineWitness.p_um) = true /\
  ne_ops (p_root RefineWitness.p_um) = true /\
  Exists RefineWitness.L0 10 RefineWitness.p_um JNull (RefineWitness.o0 false) = Ret (BVal true) /\
  p_exists true false (sem_of RefineWitness.L0 quirks_code RefineWitness.p_um JNull (RefineWitness.o0 false)) =
    BErr (AErr (EVerbose "operand of unary jsonpath operator is not a numeric value")) /\
  Query RefineWitness.L0 10 RefineWitness.p_um JNull (RefineWitness.o0 false) =
    Ret (QErr (AErr (EVerbose "operand of unary jsonpath operator is not a numeric value"))).
Proof. exact RefineWitness.unary_tail_free_needed. Qed.
Print Assumptions C08_refuted_unary_exists.

(* KF-C11-isunknown-hard-error: (exists($x)) is unknown with $x unbound — the code's
   specification answers true, the documented rule returns the non-suppressible error *)
Example C08_refuted_isunknown_swallows_hard_error :
  forall L : ExecLib,
  sem_pred L c11_env quirks_code (SUn UIsUnknown [c11_hard]) JNull (-1) true JNull = (PTrue, None) /\
  sem_pred L c11_env quirks_ideal (SUn UIsUnknown [c11_hard]) JNull (-1) true JNull
  = (PUnknown, Some (EExec "could not find jsonpath variable")).
Proof. exact C11_refuted_isunknown. Qed.
Print Assumptions C08_refuted_isunknown_swallows_hard_error.
