(* C14 — Array subscripts select by position, with last, ranges and lists.

   "For an array a of length n, a[e1, e2 to e3, ...] returns, for each subscript in
   order, the elements at position trunc(e) or at positions trunc(from)..trunc(to),
   JSON null elements included, where last denotes n-1 of the innermost enclosing
   subscripted array.  In lax mode positions outside 0..n-1 are clipped away and a
   non-array behaves as a one-element array; in strict mode they raise the
   out-of-bounds error, and a subscript that is not a single number within int32
   range is an error in both modes."

   The statements are about the specification S (spec/Sem.v): [sem_step (SIndex subs)]
   is the trace of the subscript step on an item v, [k] the rest of the path, [l] the
   size of the enclosing subscripted array, [ig] "structural errors are ignored" (lax
   mode, or below a recursive descent).  They compare it with slice arithmetic written without the
   semantics (proofs/SubscriptProofs.v): [range_elems es f t] = firstn (t-f+1) (skipn f
   es); [select_one ig skip es from to] = the out-of-bounds error when not ig and
   from < 0 \/ from > to \/ to >= n, else the elements at max 0 from .. min (n-1) to
   (minus the nulls when skip); [select_trace] = the concatenation over the subscript
   list, cut at the first error; [tbind_trace t k] hands the items of t to k, then t's
   error.  [C14_subscript_general] holds for ARBITRARY bound expressions whose value
   is known; [C14_subscript_forms] computes the value for integer literals, fractional
   literals, last, last - k, last + k ([bform], [subs_val]).
   Transfer to the executor model M: proofs/RefineClosed.v [query_is_trace] (props/C01.v)
   - M's Query returns the projection p_query of S's trace, S taken with [quirks_code].
   [C14_query_on_the_model] and [C14_query_on_the_model_forms] are that composition for
   the path $[subs]: what Query returns is the position-wise selection.

   Hypotheses, all satisfiable:
     to_int64_law L   the library's float64 -> int64 conversion truncates toward zero
                      (forall f z, f64_trunc_Z f = Some z -> in_int64 z = true ->
                      xl_to_int64 L f = z); only used for fractional bounds; the
                      extracted instance obeys it ([C14_to_int64_law_satisfiable])
     index_target C v = Some es   v is an array with elements es, or lax mode and es = [v]
                      ([C14_target_array], [C14_target_lax_non_array])
     es <> [], length es <= max_int32 (for [last] alone)   last = n - 1 is a position
     o_cancel_at o = None, members_canon L, no_kv/exists_ok/ne_ops   those of props/C01.v
   The examples use [exL] (SubscriptProofs: an otherwise inert library whose float64 ->
   int64 conversion is lib/F64 f64_to_int64) and [L0], [o0] (RefineWitness, as in C01).
   Excluded class (known finding KF-C14-null-subscript, open, pinned by
   path/exec/array_test.go skip_nil): "JSON null elements included".  With
   [quirks_ideal] the specification returns selected null elements
   ([C14_null_included_ideal]); with [quirks_code] - what the code does and what M
   refines - it drops them ([C14_null_dropped_code]); [C14_null_clause_refuted] and
   [C14_null_clause_refuted_on_the_model] are the witness $[0] on [null, 1].
   Repaired findings this property found: cbeb5cb (a failed subscript expression read
   as index 0 under WithSilent) and c7285e1 (json.Number "1e400" as a subscript
   returned ErrInvalid) - the model is of the repaired code.
   Not covered: bound expressions other than the five forms have their value as a
   hypothesis of [C14_subscript_general] (no evaluator for them here); "error in both
   modes" is proved per cause (not a single item, not a number, NaN/Inf, outside int32,
   failing bound chain) for a bound whose predecessors evaluate, and its class
   (suppressible, [C14_bound_errors_suppressible]) - the residual case is a json.Number
   that parses neither as int64 nor as float (cannot come from encoding/json); the
   innermost-array reading of last is a theorem for [last] alone
   ([C14_last_is_innermost], [C14_last_value]) and is shown on nested/filter examples,
   not as one theorem over all nestings. *)
From Coq Require Import Floats.SpecFloat.
From SJ Require Import lib.Base lib.F64 model.Json model.Ast model.ExecLib model.Leaf model.Exec
     spec.Sem spec.Proj proofs.SemBasics proofs.RefineDefs proofs.Refine proofs.RefineWitness
     proofs.SubscriptProofs proofs.PropGlue_SD.

(* ---- the slice arithmetic says what it should ---- *)

(* the i-th selected element is the element at position f + i, for i = 0 .. t - f *)
Theorem C14_range_is_by_position :
  forall (es : list json) (f t : Z) (i : nat), 0 <= f ->
    nth_error (range_elems es f t) i =
    if Z.of_nat i <=? t - f then nth_error es (Z.to_nat f + i) else None.
Proof. exact range_elems_nth. Qed.
Print Assumptions C14_range_is_by_position.

Theorem C14_range_length :
  forall (es : list json) (f t : Z), 0 <= f -> t < Z.of_nat (List.length es) ->
    List.length (range_elems es f t) = Z.to_nat (t - f + 1).
Proof. exact range_elems_length. Qed.
Print Assumptions C14_range_length.

(* within bounds nothing is clipped: exactly from..to, in either mode *)
Theorem C14_select_within_bounds :
  forall (ig skip : bool) (es : list json) (from to : Z),
    oob (Z.of_nat (List.length es)) from to = false ->
    select_one ig skip es from to =
    inl (if skip then filter (fun x => negb (is_null x)) (range_elems es from to) else range_elems es from to).
Proof. exact select_one_inbounds. Qed.
Print Assumptions C14_select_within_bounds.

Theorem C14_oob_iff :
  forall n from to : Z, oob n from to = true <-> from < 0 \/ from > to \/ to >= n.
Proof. exact oob_iff. Qed.
Print Assumptions C14_oob_iff.

(* strict mode: an error exactly when from < 0 \/ from > to \/ to >= n ... *)
Theorem C14_strict_error_iff_out_of_bounds :
  forall (skip : bool) (es : list json) (from to : Z),
    (exists e, select_one false skip es from to = inr e) <->
    from < 0 \/ from > to \/ to >= Z.of_nat (List.length es).
Proof. exact select_one_strict_err. Qed.
Print Assumptions C14_strict_error_iff_out_of_bounds.

(* ... and it is the out-of-bounds error *)
Theorem C14_error_is_out_of_bounds :
  forall (ig skip : bool) (es : list json) (from to : Z) (e : err),
    select_one ig skip es from to = inr e -> e = EVerbose "jsonpath array subscript is out of bounds".
Proof. exact select_one_err_is_oob. Qed.
Print Assumptions C14_error_is_out_of_bounds.

(* lax mode (ig): positions outside 0..n-1 are clipped away, never an error *)
Theorem C14_lax_subscript_never_fails :
  forall (skip : bool) (es : list json) (from to : Z), exists l, select_one true skip es from to = inl l.
Proof. exact select_one_ig. Qed.
Print Assumptions C14_lax_subscript_never_fails.

Theorem C14_lax_selection_never_fails :
  forall (skip : bool) (es : list json) (bounds : list (Z * Z)), snd (select_trace true skip es bounds) = None.
Proof. exact select_trace_ig. Qed.
Print Assumptions C14_lax_selection_never_fails.

(* ---- the specification S against the slice arithmetic ---- *)

(* general form: each subscript (a, b) of subs evaluates on the array of n = length es
   elements to the pair (from, to) of bounds; b = None is the single subscript a *)
Theorem C14_subscript_general :
  forall (L : ExecLib) (C : cenv) (Q : quirks) (subs : list (chain * option chain)) (bounds : list (Z * Z))
         (es : list json) (k : Z -> bool -> json -> trace) (cur : json) (l : Z) (ig u : bool) (v : json),
    index_target C v = Some es ->
    Forall2 (fun (sub : chain * option chain) (ft : Z * Z) =>
               index_of L (sem_chain L C Q (fst sub) cur (Z.of_nat (List.length es)) ig (c_lax C) v) = inl (fst ft) /\
               match snd sub with
               | Some bn => index_of L (sem_chain L C Q bn cur (Z.of_nat (List.length es)) ig (c_lax C) v) = inl (snd ft)
               | None => snd ft = fst ft
               end) subs bounds ->
    sem_step L C Q (SIndex subs) k cur l ig u v =
    tbind_trace (select_trace ig (q_skip_null Q) es bounds) (k (Z.of_nat (List.length es)) ig).
Proof. exact subscript_general. Qed.
Print Assumptions C14_subscript_general.

(* literal, fractional and last-relative subscripts: the bounds are computed *)
Theorem C14_subscript_forms :
  forall (L : ExecLib) (C : cenv) (Q : quirks) (ss : list (bform * option bform)) (bounds : list (Z * Z))
         (es : list json) (k : Z -> bool -> json -> trace) (cur : json) (l : Z) (ig u : bool) (v : json),
    to_int64_law L -> index_target C v = Some es ->
    subs_val (Z.of_nat (List.length es)) ss = Some bounds ->
    sem_step L C Q (SIndex (map sub_chain ss)) k cur l ig u v =
    tbind_trace (select_trace ig (q_skip_null Q) es bounds) (k (Z.of_nat (List.length es)) ig).
Proof. exact subscript_forms. Qed.
Print Assumptions C14_subscript_forms.

(* the items alone (the subscript is the last step) *)
Theorem C14_subscript_forms_items :
  forall (L : ExecLib) (C : cenv) (Q : quirks) (ss : list (bform * option bform)) (bounds : list (Z * Z))
         (es : list json) (cur : json) (l : Z) (ig u : bool) (v : json),
    to_int64_law L -> index_target C v = Some es ->
    subs_val (Z.of_nat (List.length es)) ss = Some bounds ->
    sem_step L C Q (SIndex (map sub_chain ss)) (fun _ _ x => tone x) cur l ig u v =
    select_trace ig (q_skip_null Q) es bounds.
Proof. exact subscript_forms_items. Qed.
Print Assumptions C14_subscript_forms_items.

(* the value of one bound form: trunc(e), last = n - 1, within int32 ([bform_val]) *)
Theorem C14_bound_form_value :
  forall (L : ExecLib) (C : cenv) (Q : quirks) (b : bform) (n z : Z) (cur : json) (ig u : bool) (v : json),
    to_int64_law L -> 0 <= n -> bform_val n b = Some z ->
    index_of L (sem_chain L C Q (bform_chain b) cur n ig u v) = inl z.
Proof. exact bform_index. Qed.
Print Assumptions C14_bound_form_value.

Theorem C14_bound_integer :
  forall (L : ExecLib) (z : Z),
    index_of L (tone (JNum (NInt z))) =
    if in_int32 z then inl z else inr (EVerbose "array subscript is out of integer range").
Proof. exact index_of_int. Qed.
Print Assumptions C14_bound_integer.

(* a fractional bound denotes trunc(e) *)
Theorem C14_bound_truncates :
  forall (L : ExecLib) (f : f64) (z : Z),
    to_int64_law L -> f64_trunc_Z f = Some z -> in_int32 z = true ->
    index_of L (tone (JNum (NFlt f))) = inl z.
Proof. exact index_of_frac. Qed.
Print Assumptions C14_bound_truncates.

Theorem C14_bound_fraction_outside_int32 :
  forall (L : ExecLib) (f : f64) (z : Z),
    to_int64_law L -> f64_trunc_Z f = Some z -> in_int64 z = true -> in_int32 z = false ->
    index_of L (tone (JNum (NFlt f))) = inr (EVerbose "array subscript is out of integer range").
Proof. exact index_of_frac_oor. Qed.
Print Assumptions C14_bound_fraction_outside_int32.

(* ---- what is subscripted ---- *)

Theorem C14_target_array :
  forall (C : cenv) (t : Z) (es : list json), index_target C (JArr t es) = Some es.
Proof. exact index_target_array. Qed.
Print Assumptions C14_target_array.

(* lax: a non-array behaves as a one-element array *)
Theorem C14_target_lax_non_array :
  forall (C : cenv) (v : json), c_lax C = true -> is_array v = false -> index_target C v = Some [v].
Proof. exact index_target_lax. Qed.
Print Assumptions C14_target_lax_non_array.

(* strict: a non-array is an error, even where structural errors are ignored (ig = true, below .** ) *)
Theorem C14_strict_non_array_fails :
  forall (L : ExecLib) (C : cenv) (Q : quirks) (subs : list (chain * option chain))
         (k : Z -> bool -> json -> trace) (cur : json) (l : Z) (ig u : bool) (v : json),
    c_lax C = false -> is_array v = false ->
    sem_step L C Q (SIndex subs) k cur l ig u v =
    tfail (EVerbose "jsonpath array accessor can only be applied to an array").
Proof. exact subscript_strict_non_array. Qed.
Print Assumptions C14_strict_non_array_fails.

(* ---- a subscript that is not a single number within int32: error in BOTH modes ----
   (no hypothesis on c_lax C or ig), after the items of the subscripts before it *)

Theorem C14_bad_lower_bound :
  forall (L : ExecLib) (C : cenv) (Q : quirks) (pre : list (chain * option chain)) (bounds : list (Z * Z))
         (a : chain) (b : option chain) (rest : list (chain * option chain)) (e : err) (es : list json)
         (k : Z -> bool -> json -> trace) (cur : json) (l : Z) (ig u : bool) (v : json),
    index_target C v = Some es ->
    Forall2 (fun (sub : chain * option chain) (ft : Z * Z) =>
               index_of L (sem_chain L C Q (fst sub) cur (Z.of_nat (List.length es)) ig (c_lax C) v) = inl (fst ft) /\
               match snd sub with
               | Some bn => index_of L (sem_chain L C Q bn cur (Z.of_nat (List.length es)) ig (c_lax C) v) = inl (snd ft)
               | None => snd ft = fst ft
               end) pre bounds ->
    index_of L (sem_chain L C Q a cur (Z.of_nat (List.length es)) ig (c_lax C) v) = inr e ->
    sem_step L C Q (SIndex (pre ++ (a, b) :: rest)) k cur l ig u v =
    tapp (tbind_trace (select_trace ig (q_skip_null Q) es bounds) (k (Z.of_nat (List.length es)) ig)) (tfail e).
Proof. exact subscript_bad_from. Qed.
Print Assumptions C14_bad_lower_bound.

Theorem C14_bad_upper_bound :
  forall (L : ExecLib) (C : cenv) (Q : quirks) (pre : list (chain * option chain)) (bounds : list (Z * Z))
         (a bn : chain) (from : Z) (rest : list (chain * option chain)) (e : err) (es : list json)
         (k : Z -> bool -> json -> trace) (cur : json) (l : Z) (ig u : bool) (v : json),
    index_target C v = Some es ->
    Forall2 (fun (sub : chain * option chain) (ft : Z * Z) =>
               index_of L (sem_chain L C Q (fst sub) cur (Z.of_nat (List.length es)) ig (c_lax C) v) = inl (fst ft) /\
               match snd sub with
               | Some bn' => index_of L (sem_chain L C Q bn' cur (Z.of_nat (List.length es)) ig (c_lax C) v) = inl (snd ft)
               | None => snd ft = fst ft
               end) pre bounds ->
    index_of L (sem_chain L C Q a cur (Z.of_nat (List.length es)) ig (c_lax C) v) = inl from ->
    index_of L (sem_chain L C Q bn cur (Z.of_nat (List.length es)) ig (c_lax C) v) = inr e ->
    sem_step L C Q (SIndex (pre ++ (a, Some bn) :: rest)) k cur l ig u v =
    tapp (tbind_trace (select_trace ig (q_skip_null Q) es bounds) (k (Z.of_nat (List.length es)) ig)) (tfail e).
Proof. exact subscript_bad_to. Qed.
Print Assumptions C14_bad_upper_bound.

(* no item, or more than one *)
Theorem C14_not_a_single_item :
  forall (L : ExecLib) (C : cenv) (Q : quirks) (a : chain) (b : option chain) (rest : list (chain * option chain))
         (es : list json) (k : Z -> bool -> json -> trace) (cur : json) (l : Z) (ig u : bool) (v : json),
    index_target C v = Some es ->
    snd (sem_chain L C Q a cur (Z.of_nat (List.length es)) ig (c_lax C) v) = None ->
    (forall x, fst (sem_chain L C Q a cur (Z.of_nat (List.length es)) ig (c_lax C) v) <> [x]) ->
    sem_step L C Q (SIndex ((a, b) :: rest)) k cur l ig u v =
    tfail (EVerbose "jsonpath array subscript is not a single numeric value").
Proof. exact subscript_not_single. Qed.
Print Assumptions C14_not_a_single_item.

Theorem C14_not_a_number :
  forall (L : ExecLib) (C : cenv) (Q : quirks) (a : chain) (b : option chain) (x : json)
         (rest : list (chain * option chain)) (es : list json) (k : Z -> bool -> json -> trace)
         (cur : json) (l : Z) (ig u : bool) (v : json),
    index_target C v = Some es ->
    sem_chain L C Q a cur (Z.of_nat (List.length es)) ig (c_lax C) v = tone x ->
    match x with JNum _ => true | _ => false end = false ->
    sem_step L C Q (SIndex ((a, b) :: rest)) k cur l ig u v =
    tfail (EVerbose "array subscript is not a single numeric value").
Proof. exact subscript_non_number. Qed.
Print Assumptions C14_not_a_number.

Theorem C14_nan_or_infinity :
  forall (L : ExecLib) (C : cenv) (Q : quirks) (f : f64) (rest : list (chain * option chain)) (es : list json)
         (k : Z -> bool -> json -> trace) (cur : json) (l : Z) (ig u : bool) (v : json),
    index_target C v = Some es -> f_is_inf f || f_is_nan f = true ->
    sem_step L C Q (SIndex (([SNumeric f], None) :: rest)) k cur l ig u v =
    tfail (EVerbose "NaN or Infinity is not allowed for array subscript").
Proof. exact subscript_nan_inf. Qed.
Print Assumptions C14_nan_or_infinity.

(* a literal, fractional or last-relative bound whose position is outside int32 *)
Theorem C14_outside_int32 :
  forall (L : ExecLib) (C : cenv) (Q : quirks) (b : bform) (p : Z) (rest : list (chain * option chain))
         (es : list json) (k : Z -> bool -> json -> trace) (cur : json) (l : Z) (ig u : bool) (v : json),
    to_int64_law L -> index_target C v = Some es ->
    bform_pos (Z.of_nat (List.length es)) b = Some p -> in_int64 p = true -> in_int32 p = false ->
    sem_step L C Q (SIndex ((bform_chain b, None) :: rest)) k cur l ig u v =
    tfail (EVerbose "array subscript is out of integer range").
Proof. exact subscript_form_oor. Qed.
Print Assumptions C14_outside_int32.

(* the class of these errors: suppressible (ErrVerbose), unless the bound is a json.Number
   that parses neither as an integer nor as a float *)
Theorem C14_bound_errors_suppressible :
  forall (L : ExecLib) (t : trace) (e : err),
    snd t = None -> index_of L t = inr e ->
    is_verbose e = true \/
    (exists s, fst t = [JNum (NJs s)] /\ js_int64 L s = None /\ js_float64 L s = None).
Proof. exact index_of_err_cases. Qed.
Print Assumptions C14_bound_errors_suppressible.

(* ---- last ---- *)

(* inside the brackets of an array of n elements, last is n - 1 *)
Theorem C14_last_value :
  forall (L : ExecLib) (C : cenv) (Q : quirks) (cur : json) (n : Z) (ig u : bool) (v : json),
    0 <= n -> sem_chain L C Q [SConst CLast] cur n ig u v = tone (JNum (NInt (n - 1))).
Proof. exact sem_chain_last. Qed.
Print Assumptions C14_last_value.

(* a[last] is the last element of THIS array: the result depends neither on the size l of an
   enclosing subscripted array nor on cur; the rest of the path sees n as innermost size *)
Theorem C14_last_is_innermost :
  forall (L : ExecLib) (C : cenv) (Q : quirks) (t : Z) (es : list json) (k : Z -> bool -> json -> trace)
         (cur : json) (l : Z) (ig u : bool),
    es <> [] -> Z.of_nat (List.length es) <= max_int32 ->
    sem_step L C Q (SIndex [([SConst CLast], None)]) k cur l ig u (JArr t es) =
    tbind_list (if q_skip_null Q then filter (fun x => negb (is_null x)) [List.last es JNull]
                else [List.last es JNull])
               (k (Z.of_nat (List.length es)) ig).
Proof. exact last_is_innermost. Qed.
Print Assumptions C14_last_is_innermost.

(* ---- JSON null elements: the documented rule, the code, and the refutation ---- *)

Theorem C14_null_included_ideal :
  forall (L : ExecLib) (C : cenv) (ss : list (bform * option bform)) (bounds : list (Z * Z)) (es : list json)
         (cur : json) (l : Z) (ig u : bool) (v : json),
    to_int64_law L -> index_target C v = Some es ->
    subs_val (Z.of_nat (List.length es)) ss = Some bounds ->
    sem_step L C quirks_ideal (SIndex (map sub_chain ss)) (fun _ _ x => tone x) cur l ig u v =
    select_trace ig false es bounds.
Proof. exact SubscriptProofs.C14_null_ideal. Qed.
Print Assumptions C14_null_included_ideal.

Theorem C14_null_dropped_code :
  forall (L : ExecLib) (C : cenv) (ss : list (bform * option bform)) (bounds : list (Z * Z)) (es : list json)
         (cur : json) (l : Z) (ig u : bool) (v : json),
    to_int64_law L -> index_target C v = Some es ->
    subs_val (Z.of_nat (List.length es)) ss = Some bounds ->
    sem_step L C quirks_code (SIndex (map sub_chain ss)) (fun _ _ x => tone x) cur l ig u v =
    select_trace ig true es bounds.
Proof. exact SubscriptProofs.C14_null_code. Qed.
Print Assumptions C14_null_dropped_code.

(* KF-C14-null-subscript: strict $[0] on [null, 1] *)
Example C14_null_clause_refuted :
  sem_path exL (mkcenv false (JArr 0 [JNull; JNum (NInt 1)]) [] false) quirks_ideal
           [SConst CRoot; SIndex [([SInteger 0], None)]] = ([JNull], None) /\
  sem_path exL (mkcenv false (JArr 0 [JNull; JNum (NInt 1)]) [] false) quirks_code
           [SConst CRoot; SIndex [([SInteger 0], None)]] = ([], None) /\
  sem_path exL (mkcenv false (JArr 0 [JNull; JNum (NInt 1)]) [] false) quirks_ideal
           [SConst CRoot; SIndex [([SInteger 0], None)]] <>
  sem_path exL (mkcenv false (JArr 0 [JNull; JNum (NInt 1)]) [] false) quirks_code
           [SConst CRoot; SIndex [([SInteger 0], None)]].
Proof. exact C14_refuted_null. Qed.
Print Assumptions C14_null_clause_refuted.

(* the same witness on the model M: Query returns nothing where the documented rule says [null] *)
Example C14_null_clause_refuted_on_the_model :
  Query L0 10 (mkpath false false [SConst CRoot; SIndex [([SInteger 0], None)]])
        (JArr 0 [JNull; JNum (NInt 1)]) (o0 false) = Ret (QItems []) /\
  p_query false (sem_of L0 quirks_ideal (mkpath false false [SConst CRoot; SIndex [([SInteger 0], None)]])
                        (JArr 0 [JNull; JNum (NInt 1)]) (o0 false)) = QItems [JNull].
Proof. exact C14_null_model. Qed.
Print Assumptions C14_null_clause_refuted_on_the_model.

(* ---- transfer to the executor model M: Query of $[subs] ---- *)

Theorem C14_query_on_the_model :
  forall (L : ExecLib) (p : path) (doc : json) (o : opts) (subs : list (chain * option chain))
         (bounds : list (Z * Z)) (es : list json),
    o_cancel_at o = None -> members_canon L ->
    p_root p = [SConst CRoot; SIndex subs] ->
    no_kv (p_root p) = true -> exists_ok (p_root p) = true -> ne_ops (p_root p) = true ->
    index_target (mkcenv (p_lax p) doc (o_vars o) (o_useTZ o)) doc = Some es ->
    Forall2 (fun (sub : chain * option chain) (ft : Z * Z) =>
               index_of L (sem_chain L (mkcenv (p_lax p) doc (o_vars o) (o_useTZ o)) quirks_code (fst sub) doc
                                     (Z.of_nat (List.length es)) (p_lax p) (p_lax p) doc) = inl (fst ft) /\
               match snd sub with
               | Some bn => index_of L (sem_chain L (mkcenv (p_lax p) doc (o_vars o) (o_useTZ o)) quirks_code bn doc
                                                  (Z.of_nat (List.length es)) (p_lax p) (p_lax p) doc) = inl (snd ft)
               | None => snd ft = fst ft
               end) subs bounds ->
    forall fuel q, Query L fuel p doc o = Ret q ->
    qres_sim q (p_query (o_silent o) (select_trace (p_lax p) true es bounds)).
Proof. exact C14_query_model. Qed.
Print Assumptions C14_query_on_the_model.

(* for literal, fractional and last-relative subscripts every side condition is discharged *)
Theorem C14_query_on_the_model_forms :
  forall (L : ExecLib) (p : path) (doc : json) (o : opts) (ss : list (bform * option bform))
         (bounds : list (Z * Z)) (es : list json),
    to_int64_law L -> o_cancel_at o = None -> members_canon L ->
    p_root p = [SConst CRoot; SIndex (map sub_chain ss)] ->
    index_target (mkcenv (p_lax p) doc (o_vars o) (o_useTZ o)) doc = Some es ->
    subs_val (Z.of_nat (List.length es)) ss = Some bounds ->
    forall fuel q, Query L fuel p doc o = Ret q ->
    qres_sim q (p_query (o_silent o) (select_trace (p_lax p) true es bounds)).
Proof. exact C14_query_model_forms. Qed.
Print Assumptions C14_query_on_the_model_forms.

(* ---- the law on the library is satisfiable: the extracted instance's conversion obeys it ---- *)

Theorem C14_f64_to_int64_truncates :
  forall (f : f64) (z : Z), f64_trunc_Z f = Some z -> in_int64 z = true -> f64_to_int64 f = z.
Proof. exact f64_to_int64_law. Qed.
Print Assumptions C14_f64_to_int64_truncates.

Example C14_to_int64_law_satisfiable :
  forall (f : f64) (z : Z), f64_trunc_Z f = Some z -> in_int64 z = true -> xl_to_int64 exL f = z.
Proof. exact exL_law. Qed.
Print Assumptions C14_to_int64_law_satisfiable.

(* ---- concrete instances (non-vacuity), on whole paths ---- *)

(* $[1, 3 to last, 0 to 1] on an array of 5: subscript order, position order, overlaps repeated *)
Example C14_ex_bounds :
  subs_val 5 [(BInt 1, None); (BInt 3, Some BLast); (BInt 0, Some (BInt 1))] = Some [(1, 1); (3, 4); (0, 1)].
Proof. exact ex_subs_val. Qed.
Print Assumptions C14_ex_bounds.

Example C14_ex_list_and_ranges :
  sem_path exL (mkcenv false (JArr 0 [JNum (NInt 10); JNum (NInt 11); JNum (NInt 12); JNum (NInt 13); JNum (NInt 14)]) [] false)
    quirks_ideal
    [SConst CRoot; SIndex (map sub_chain [(BInt 1, None); (BInt 3, Some BLast); (BInt 0, Some (BInt 1))])]
  = ([JNum (NInt 11); JNum (NInt 13); JNum (NInt 14); JNum (NInt 10); JNum (NInt 11)], None).
Proof. exact ex_sem_select. Qed.
Print Assumptions C14_ex_list_and_ranges.

(* 1.9 truncates to 1, -0.5 truncates to 0 *)
Example C14_ex_truncation :
  f64_trunc_Z (f64_of_dec false 19 (-1)) = Some 1 /\ f64_trunc_Z (f64_of_dec true 5 (-1)) = Some 0.
Proof. exact ex_trunc. Qed.
Print Assumptions C14_ex_truncation.

Example C14_ex_fractional :
  sem_path exL (mkcenv false (JArr 0 [JNum (NInt 10); JNum (NInt 11); JNum (NInt 12); JNum (NInt 13); JNum (NInt 14)]) [] false)
    quirks_ideal
    [SConst CRoot; SIndex (map sub_chain [(BFrac (f64_of_dec false 19 (-1)), None); (BFrac (f64_of_dec true 5 (-1)), None)])]
  = ([JNum (NInt 11); JNum (NInt 10)], None).
Proof. exact ex_sem_frac. Qed.
Print Assumptions C14_ex_fractional.

(* strict $[0, 3 to 7]: the out-of-bounds error, after the items of the earlier subscript *)
Example C14_ex_out_of_bounds_strict :
  sem_path exL (mkcenv false (JArr 0 [JNum (NInt 10); JNum (NInt 11); JNum (NInt 12); JNum (NInt 13); JNum (NInt 14)]) [] false)
    quirks_ideal [SConst CRoot; SIndex (map sub_chain [(BInt 0, None); (BInt 3, Some (BInt 7))])]
  = ([JNum (NInt 10)], Some (EVerbose "jsonpath array subscript is out of bounds")).
Proof. exact ex_oob_strict. Qed.
Print Assumptions C14_ex_out_of_bounds_strict.

(* lax $[0, 3 to 7]: clipped *)
Example C14_ex_out_of_bounds_lax :
  sem_path exL (mkcenv true (JArr 0 [JNum (NInt 10); JNum (NInt 11); JNum (NInt 12); JNum (NInt 13); JNum (NInt 14)]) [] false)
    quirks_ideal [SConst CRoot; SIndex (map sub_chain [(BInt 0, None); (BInt 3, Some (BInt 7))])]
  = ([JNum (NInt 10); JNum (NInt 13); JNum (NInt 14)], None).
Proof. exact ex_oob_lax. Qed.
Print Assumptions C14_ex_out_of_bounds_lax.

(* lax $[0, last] on the number 7: a one-element array; strict: error *)
Example C14_ex_non_array_lax :
  sem_path exL (mkcenv true (JNum (NInt 7)) [] false) quirks_ideal
    [SConst CRoot; SIndex (map sub_chain [(BInt 0, None); (BLast, None)])]
  = ([JNum (NInt 7); JNum (NInt 7)], None).
Proof. exact ex_scalar_lax. Qed.
Print Assumptions C14_ex_non_array_lax.

Example C14_ex_non_array_strict :
  sem_path exL (mkcenv false (JNum (NInt 7)) [] false) quirks_ideal
    [SConst CRoot; SIndex (map sub_chain [(BInt 0, None)])]
  = ([], Some (EVerbose "jsonpath array accessor can only be applied to an array")).
Proof. exact ex_scalar_strict. Qed.
Print Assumptions C14_ex_non_array_strict.

(* outside int32: an error in lax mode too *)
Example C14_ex_outside_int32_lax :
  sem_path exL (mkcenv true (JArr 0 [JNum (NInt 10); JNum (NInt 11); JNum (NInt 12); JNum (NInt 13); JNum (NInt 14)]) [] false)
    quirks_ideal [SConst CRoot; SIndex [([SInteger 3000000000], None)]]
  = ([], Some (EVerbose "array subscript is out of integer range")).
Proof. exact ex_oor_lax. Qed.
Print Assumptions C14_ex_outside_int32_lax.

(* nested: in $[0][$[last], last] on [[100,101,102,103], 5, 2] the inner last is about $
   (3 elements: $[last] = 2), the outer one about $[0] (4 elements: last = 3) *)
Example C14_ex_nested_last :
  sem_path exL (mkcenv false (JArr 0 [JArr 1 [JNum (NInt 100); JNum (NInt 101); JNum (NInt 102); JNum (NInt 103)];
                                      JNum (NInt 5); JNum (NInt 2)]) [] false)
    quirks_ideal
    [SConst CRoot; SIndex [([SInteger 0], None)];
     SIndex [([SConst CRoot; SIndex [([SConst CLast], None)]], None); ([SConst CLast], None)]]
  = ([JNum (NInt 102); JNum (NInt 103)], None).
Proof. exact ex_nested_last. Qed.
Print Assumptions C14_ex_nested_last.

(* $[last ? (@ == last)]: last in a filter inside a subscript still denotes the subscripted array *)
Example C14_ex_last_in_filter :
  sem_path exL (mkcenv false (JArr 0 [JNum (NInt 10); JNum (NInt 11); JNum (NInt 12); JNum (NInt 13); JNum (NInt 14)]) [] false)
    quirks_ideal
    [SConst CRoot; SIndex [([SConst CLast; SUn UFilter [SBin BEq [SConst CCurrent] [SConst CLast]]], None)]]
  = ([JNum (NInt 14)], None).
Proof. exact ex_last_in_filter. Qed.
Print Assumptions C14_ex_last_in_filter.
