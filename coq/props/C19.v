(* C19 -- a parsed Path is immutable, concurrency-safe and deterministic.
   Statements only; the proofs are in proofs/ConcurrencyProofs.v, the machine and the
   predicate [allowed] in model/Concurrency.v, the effect table in gen/Effects.v
   (regenerated from the repository's current tree by tools/effects before this file is
   compiled).  What the model can and cannot say is stated at the top of
   model/Concurrency.v. *)
Require Import Coq.Lists.List Coq.Strings.String Coq.Bool.Bool.
Require Import SJ.model.Concurrency SJ.proofs.ConcurrencyProofs SJ.gen.Effects.
Import ListNotations.

(* Under ANY schedule of a program none of whose steps writes the shared store: the shared
   store is unchanged; what a thread has returned so far is a prefix of the results its
   calls return when run alone; a thread that has finished returned exactly those. *)
Theorem C19_interleaving_irrelevant :
  forall (sh priv result : Type) (s : sh) (prog : list (list (call sh priv result))) (sched : list nat),
    Forall (Forall (@call_read_only sh priv result)) prog ->
    fst (exec s (start prog) sched) = s /\
    forall i t, nth_error (snd (exec s (start prog) sched)) i = Some t ->
      (exists rest, results t ++ rest = map (run_alone s) (nth i prog [])) /\
      (t_done t -> results t = map (run_alone s) (nth i prog [])).
Proof. exact interleaving_irrelevant. Qed.
Print Assumptions C19_interleaving_irrelevant.

(* ... hence for a complete schedule every call returns its isolated result. *)
Theorem C19_interleaving_irrelevant_complete :
  forall (sh priv result : Type) (s : sh) (prog : list (list (call sh priv result))) (sched : list nat),
    Forall (Forall (@call_read_only sh priv result)) prog ->
    complete s prog sched ->
    map (@results sh priv result) (snd (exec s (start prog) sched)) = map (map (run_alone s)) prog.
Proof. exact interleaving_irrelevant_complete. Qed.
Print Assumptions C19_interleaving_irrelevant_complete.

(* Non-vacuity of "complete": every program has a complete schedule. *)
Theorem C19_complete_schedule_exists :
  forall (sh priv result : Type) (s : sh) (prog : list (list (call sh priv result))),
    complete s prog (sequential_schedule prog).
Proof. exact complete_schedule_exists. Qed.
Print Assumptions C19_complete_schedule_exists.

(* The result of a call does not depend on the (read-only) calls executed before it. *)
Theorem C19_history_independent :
  forall (sh priv result : Type) (s : sh) (history : list (call sh priv result)) (c : call sh priv result) (d : result),
    Forall (@call_read_only sh priv result) history ->
    last (snd (run_seq s (history ++ [c]))) d = last (snd (run_seq s [c])) d.
Proof. exact history_independent. Qed.
Print Assumptions C19_history_independent.

(* Repeating a query n times returns its isolated result n times. *)
Theorem C19_repeat_same :
  forall (sh priv result : Type) (s : sh) (c : call sh priv result) (n : nat),
    call_read_only c -> snd (run_seq s (repeat c n)) = repeat (run_alone s c) n.
Proof. exact repeat_same. Qed.
Print Assumptions C19_repeat_same.

(* The hypothesis is doing the work: a machine with one shared cache cell, a complete
   schedule under which a call returns 1 although alone it returns 2 (and the shared
   store has changed); two complete schedules that disagree; a history that changes the
   result of the next call. *)
Theorem C19_shared_write_breaks_interleaving :
  complete 0 cache_prog cache_sched /\
  map (@results nat nat nat) (snd (exec 0 (start cache_prog) cache_sched)) = [[1]; [1]] /\
  map (map (run_alone 0)) cache_prog = [[1]; [2]] /\
  fst (exec 0 (start cache_prog) cache_sched) <> 0.
Proof. exact shared_write_breaks_interleaving. Qed.
Print Assumptions C19_shared_write_breaks_interleaving.

Theorem C19_shared_write_schedules_disagree :
  exists sched1 sched2,
    complete 0 cache_prog sched1 /\ complete 0 cache_prog sched2 /\
    map (@results nat nat nat) (snd (exec 0 (start cache_prog) sched1)) <>
    map (@results nat nat nat) (snd (exec 0 (start cache_prog) sched2)).
Proof. exact shared_write_schedules_disagree. Qed.
Print Assumptions C19_shared_write_schedules_disagree.

Theorem C19_shared_write_breaks_history :
  last (snd (run_seq 0 ([cached_call 1] ++ [cached_call 2]))) 0 = 1 /\
  last (snd (run_seq 0 [cached_call 2])) 0 = 2.
Proof. exact shared_write_breaks_history. Qed.
Print Assumptions C19_shared_write_breaks_history.

Theorem C19_cached_call_not_read_only : ~ call_read_only (cached_call 1).
Proof. exact cached_call_not_read_only. Qed.
Print Assumptions C19_cached_call_not_read_only.

(* The bridge from the effect table to the hypothesis: a step whose primitive writes all
   land in PerCall / Fresh regions is read-only; an allowed store effect does not land in
   the Shared region; an allowed global read is of a variable never written after
   initialisation; the violation classes are rejected. *)
Theorem C19_private_writes_read_only :
  forall (addr val : Type) (addr_eqb : addr -> addr -> bool) (ws : list (prim addr val)),
    writes_private ws = true -> read_only (fun s p => step_of addr_eqb ws s p).
Proof. exact private_writes_read_only. Qed.
Print Assumptions C19_private_writes_read_only.

Theorem C19_allowed_store_private :
  forall e : Concurrency.effect,
    allowed e = true -> e_kind e = "store"%string -> region_of_class (e_class e) <> Shared.
Proof. exact allowed_store_private. Qed.
Print Assumptions C19_allowed_store_private.

Theorem C19_allowed_globalread_immutable :
  forall e : Concurrency.effect,
    allowed e = true -> e_kind e = "globalread"%string -> immutable_global_class (e_class e) = true.
Proof. exact allowed_globalread_immutable. Qed.
Print Assumptions C19_allowed_globalread_immutable.

Theorem C19_allowed_rejects_violations :
  (allowed ("(*P/ast.RegexNode).Regexp", "store", "global", "store global P/ast.lastRe") = false /\
   allowed ("(*P/ast.RegexNode).Regexp", "store", "ast-write-at-exec", "store .re param n:*P/ast.RegexNode") = false /\
   allowed ("P/exec.f", "store", "input", "mapupdate load _:P/exec.Vars") = false /\
   allowed ("P/exec.f", "store", "unknown:[]byte", "store [i] param b:[]byte") = false /\
   allowed ("(*P/ast.RegexNode).Regexp", "globalread", "mutable", "P/ast.lastRe : written in (*P/ast.RegexNode).Regexp") = false /\
   allowed ("P/exec.f", "globalread", "stdlib-unknown", "time.Local : *time.Location") = false /\
   allowed ("P/exec.f", "sync", "sync", "call (*sync.Pool).Get") = false /\
   allowed ("P/exec.f", "nondet", "time.Now", "call time.Now") = false /\
   allowed ("P/exec.f", "nondet", "rand", "call math/rand.Int") = false /\
   allowed ("P/exec.f", "somethingelse", "local", "") = false)%string.
Proof. exact allowed_rejects_violations. Qed.
Print Assumptions C19_allowed_rejects_violations.

(* THE TIE TO THE CODE.  Every effect of every function reachable from Query, First,
   Exists, Match, String, Parse, ... in the repository's current tree is compatible with
   "steps read the shared store and write only private state". *)
Example effects_allowed : forallb allowed Effects.effects = true.
Proof. vm_compute. reflexivity. Qed.
Print Assumptions effects_allowed.

(* The table is not empty and covers the execution entry points. *)
Example effects_nontrivial :
  Nat.leb 100 (List.length Effects.effects) = true /\ Nat.leb 150 Effects.reachable_functions = true.
Proof. vm_compute. split; reflexivity. Qed.
Print Assumptions effects_nontrivial.

(* Pinned nondeterminism sources: the only time.Now is in types.Time.ToTimeTZ (known,
   documented caveat: a Time -> TimeTZ cast takes today's date, so in a zone with DST the
   offset depends on the day the query runs); reflect only in exec.addrOf (.keyvalue() ids
   derive from addresses). *)
Example time_now_pinned :
  functions_with "nondet" "time.Now" Effects.effects = ["(*P/types.Time).ToTimeTZ"%string].
Proof. vm_compute. reflexivity. Qed.
Print Assumptions time_now_pinned.

Example reflect_pinned :
  nodup string_dec (functions_with "nondet" "reflect" Effects.effects) = ["P/exec.addrOf"%string].
Proof. vm_compute. reflexivity. Qed.
Print Assumptions reflect_pinned.

(* The only synchronisation anywhere is a cancellation poll on ctx.Done(). *)
Example sync_only_ctx_done :
  forallb (fun e => implb (String.eqb (e_kind e) "sync") (String.eqb (e_class e) "ctx-done")) Effects.effects = true.
Proof. vm_compute. reflexivity. Qed.
Print Assumptions sync_only_ctx_done.
