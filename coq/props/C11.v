(* C11 — Boolean connectives follow three-valued (Kleene) logic.

   "For all conditions p and q over any document, !, &&, || and is unknown return the
   Kleene truth-table value of their operands' true/false/unknown outcomes: && and ||
   are commutative in value, double negation and De Morgan's laws hold, (p) is unknown
   is true exactly when p is unknown and is never itself unknown, and exists(e) is
   true or false by the emptiness of e and unknown only when e fails.  As a top-level
   predicate check these yield true, false or null from Query and the corresponding
   Match outcome."

   The statements are about the specification S: [sem_pred L C Q s cur l ig v] (spec/Sem.v)
   is the result of the condition s - a pair (outcome PTrue/PFalse/PUnknown, optional
   error) - with @ = cur, last = l, on the item v; they hold for EVERY library L,
   environment C (document, variables, either mode), both quirk settings Q, and
   ARBITRARY operand conditions p, q (any step, not only well-formed predicates).
   An error is always paired with PUnknown ([C11_error_comes_with_unknown]) and is never
   a suppressible one ([C11_error_is_never_suppressible]: suppressible errors inside a
   condition have become "unknown"), so a result is one of FOUR outcomes, [kout] =
   KT | KF | KU | KE e (true, false, unknown, non-suppressible error e); kout_of /
   pres_of translate ([C11_outcome_of_result], [C11_result_of_outcome],
   [C11_result_is_one_of_four_outcomes]).  The connectives are the tables k_and, k_or,
   k_not, k_isunknown, k_exists of proofs/KleeneProofs.v, written out row by row below:
   nine error-free rows = Kleene's strong connectives ([C11_and_table], [C11_or_table],
   [C11_not_table], [C11_isunknown_table]), and the rows with a hard error
   ([C11_and_error_rows], [C11_or_error_rows]): evaluation is left to right, an error on
   the left propagates, on the right it propagates unless the left operand decides.
   [C11_and] ... [C11_exists] say sem_pred IS the table applied to the operands'
   outcomes; the algebraic laws follow, on arbitrary conditions.  no_err a := a is not
   KE _.
   Transfer to the executor model M: the predicate clause of the refinement theorem
   (props/C01.v [C01_refinement], third conjunct: every RBool call of M returns the
   outcome and the error class of sem_pred), and for "as a top-level predicate check":
   [C11_query_of_model_on_predicate_check], [C11_match_of_model_on_predicate_check]
   (glue in proofs/PropGlue.v from query_is_trace / match_is_trace): for a path whose
   root is one boolean step, M's Query returns [true] / [false] / [null] = bool_item
   of sem_pred's outcome, or the non-suppressible error (same class), and Match returns
   true / false / NULL / that error.  Side conditions as in C01 (no cancellation,
   members_canon, no_kv, exists_ok, ne_ops); satisfiable: [C11_model_witness].

   Hypotheses: commutativity needs both operands free of hard errors (snd (sem_pred ..)
   = None; satisfiable: [C11_operands_exist] exhibits a true, a false and an unknown
   condition); it is false otherwise, as the property's "in value" allows
   ([C11_comm_refuted_with_error]: false && error = false, error && false = error).
   Double negation and De Morgan hold on all sixteen rows, errors included.
   Excluded class (known finding KF-C11-isunknown-hard-error, open, pinned by
   boolean_test.go unary_is_unknown_true): (p) is unknown turns a non-suppressible error
   of p into true.  It is the field q_iu_swallow of Q: with quirks_ideal the error
   propagates ([C11_isunknown_propagates_error_ideal]), with quirks_code - what M
   refines - the answer is true ([C11_isunknown_swallows_error_code]);
   [C11_refuted_isunknown] is the witness (exists($x)) is unknown with $x unbound,
   [C11_model_witness] shows it on M.  "true exactly when p is unknown" is therefore
   stated for error-free p ([C11_isunknown_true_iff]); "never itself unknown" holds
   unconditionally.  KF-C06-unary-exists (exists(e) with e ending in unary + or -) is
   excluded from the transfer to M only, by exists_ok; KF-C14-null-subscript does not
   touch these statements (they hold for every Q).  Fixed: 6626c63 (is unknown
   discarded a cancellation; see props/C20.v).
   Not covered: "nested inside filters" is props/C10.v (a filter keeps an item iff
   sem_pred of its condition is PTrue); Exists / ExistsOrMatch on a predicate check
   path are the generic theorems of props/C06.v. *)
From SJ Require Import lib.Base model.Json model.Ast model.ExecLib model.Leaf model.Exec
     spec.Sem spec.Proj proofs.RefineDefs proofs.Refine proofs.KleeneProofs proofs.PropGlue.
From SJ Require proofs.RefineWitness.

(* ---------- results and outcomes ---------- *)
Theorem C11_error_comes_with_unknown :
  forall (L : ExecLib) (C : cenv) (Q : quirks) (s : step) (c : json) (z : Z) (ig : bool) (v : json) (e : err),
    snd (sem_pred L C Q s c z ig v) = Some e -> fst (sem_pred L C Q s c z ig v) = PUnknown.
Proof. exact KleeneProofs.sem_pred_wf. Qed.
Print Assumptions C11_error_comes_with_unknown.

Theorem C11_error_is_never_suppressible :
  forall (L : ExecLib) (C : cenv) (Q : quirks) (s : step) (c : json) (z : Z) (ig : bool) (v : json) (e : err),
    snd (sem_pred L C Q s c z ig v) = Some e -> is_verbose e = false.
Proof. exact Refine.sem_pred_hard. Qed.
Print Assumptions C11_error_is_never_suppressible.

Theorem C11_outcome_of_result :
  kout_of (PTrue, None) = KT /\ kout_of (PFalse, None) = KF /\ kout_of (PUnknown, None) = KU /\
  (forall pv e, kout_of (pv, Some e) = KE e).
Proof. exact kout_of_rows. Qed.
Print Assumptions C11_outcome_of_result.

Theorem C11_result_of_outcome :
  pres_of KT = (PTrue, None) /\ pres_of KF = (PFalse, None) /\ pres_of KU = (PUnknown, None) /\
  (forall e, pres_of (KE e) = (PUnknown, Some e)).
Proof. exact pres_of_rows. Qed.
Print Assumptions C11_result_of_outcome.

Theorem C11_result_is_one_of_four_outcomes :
  forall (L : ExecLib) (C : cenv) (Q : quirks) (s : step) (c : json) (z : Z) (ig : bool) (v : json),
    pres_of (kout_of (sem_pred L C Q s c z ig v)) = sem_pred L C Q s c z ig v.
Proof. exact sem_pred_four_outcomes. Qed.
Print Assumptions C11_result_is_one_of_four_outcomes.

(* ---------- the truth tables ---------- *)
Theorem C11_and_table :
  k_and KT KT = KT /\ k_and KT KF = KF /\ k_and KT KU = KU /\
  k_and KF KT = KF /\ k_and KF KF = KF /\ k_and KF KU = KF /\
  k_and KU KT = KU /\ k_and KU KF = KF /\ k_and KU KU = KU.
Proof. exact k_and_nine_rows. Qed.
Print Assumptions C11_and_table.

Theorem C11_or_table :
  k_or KT KT = KT /\ k_or KT KF = KT /\ k_or KT KU = KT /\
  k_or KF KT = KT /\ k_or KF KF = KF /\ k_or KF KU = KU /\
  k_or KU KT = KT /\ k_or KU KF = KU /\ k_or KU KU = KU.
Proof. exact k_or_nine_rows. Qed.
Print Assumptions C11_or_table.

Theorem C11_not_table :
  k_not KT = KF /\ k_not KF = KT /\ k_not KU = KU /\ (forall e, k_not (KE e) = KE e).
Proof. exact k_not_rows. Qed.
Print Assumptions C11_not_table.

Theorem C11_isunknown_table :
  forall sw : bool, k_isunknown sw KT = KF /\ k_isunknown sw KF = KF /\ k_isunknown sw KU = KT.
Proof. exact k_isunknown_table. Qed.
Print Assumptions C11_isunknown_table.

(* the seven rows of && and || with a non-suppressible error *)
Theorem C11_and_error_rows :
  forall e e' : err,
  k_and (KE e) KT = KE e /\ k_and (KE e) KF = KE e /\ k_and (KE e) KU = KE e /\
  k_and (KE e) (KE e') = KE e /\
  k_and KT (KE e) = KE e /\ k_and KU (KE e) = KE e /\
  k_and KF (KE e) = KF.
Proof. exact k_and_error_rows. Qed.
Print Assumptions C11_and_error_rows.

Theorem C11_or_error_rows :
  forall e e' : err,
  k_or (KE e) KT = KE e /\ k_or (KE e) KF = KE e /\ k_or (KE e) KU = KE e /\
  k_or (KE e) (KE e') = KE e /\
  k_or KF (KE e) = KE e /\ k_or KU (KE e) = KE e /\
  k_or KT (KE e) = KT.
Proof. exact k_or_error_rows. Qed.
Print Assumptions C11_or_error_rows.

(* is unknown on a hard error: the documented rule (sw = false: it propagates) and the code (sw = true: true) *)
Theorem C11_isunknown_error_rows :
  forall e : err, k_isunknown false (KE e) = KE e /\ k_isunknown true (KE e) = KT.
Proof. exact k_isunknown_error_rows. Qed.
Print Assumptions C11_isunknown_error_rows.

(* exists(e) from the trace t of e: lax - the first item decides; strict - any failure decides *)
Theorem C11_exists_table :
  forall (lax : bool) (t : trace),
  k_exists lax t =
  if lax then
    match fst t, snd t with
    | _ :: _, _ => KT
    | [], Some e => if is_verbose e then KU else KE e
    | [], None => KF
    end
  else
    match snd t, fst t with
    | Some e, _ => if is_verbose e then KU else KE e
    | None, [] => KF
    | None, _ :: _ => KT
    end.
Proof. exact k_exists_eq. Qed.
Print Assumptions C11_exists_table.

(* laws of the tables (finite sweeps) *)
Theorem C11_table_and_comm : forall a b, no_err a -> no_err b -> k_and a b = k_and b a.
Proof. exact k_and_comm. Qed.
Print Assumptions C11_table_and_comm.

Theorem C11_table_or_comm : forall a b, no_err a -> no_err b -> k_or a b = k_or b a.
Proof. exact k_or_comm. Qed.
Print Assumptions C11_table_or_comm.

Theorem C11_table_not_involutive : forall a, k_not (k_not a) = a.
Proof. exact k_not_involutive. Qed.
Print Assumptions C11_table_not_involutive.

Theorem C11_table_de_morgan_and : forall a b, k_not (k_and a b) = k_or (k_not a) (k_not b).
Proof. exact k_de_morgan_and. Qed.
Print Assumptions C11_table_de_morgan_and.

Theorem C11_table_de_morgan_or : forall a b, k_not (k_or a b) = k_and (k_not a) (k_not b).
Proof. exact k_de_morgan_or. Qed.
Print Assumptions C11_table_de_morgan_or.

Theorem C11_table_isunknown_never_unknown : forall sw a, k_isunknown sw a <> KU.
Proof. exact k_isunknown_never_unknown. Qed.
Print Assumptions C11_table_isunknown_never_unknown.

Theorem C11_table_isunknown_true_iff :
  forall a, no_err a -> forall sw, k_isunknown sw a = KT <-> a = KU.
Proof. exact k_isunknown_true_iff. Qed.
Print Assumptions C11_table_isunknown_true_iff.

(* ---------- sem_pred is the table applied to the operands' outcomes ---------- *)
Theorem C11_and :
  forall (L : ExecLib) (C : cenv) (Q : quirks) (p q : step) (c : json) (z : Z) (ig : bool) (v : json),
    sem_pred L C Q (SBin BAnd [p] [q]) c z ig v =
    pres_of (k_and (kout_of (sem_pred L C Q p c z ig v)) (kout_of (sem_pred L C Q q c z ig v))).
Proof. exact sem_and. Qed.
Print Assumptions C11_and.

Theorem C11_or :
  forall (L : ExecLib) (C : cenv) (Q : quirks) (p q : step) (c : json) (z : Z) (ig : bool) (v : json),
    sem_pred L C Q (SBin BOr [p] [q]) c z ig v =
    pres_of (k_or (kout_of (sem_pred L C Q p c z ig v)) (kout_of (sem_pred L C Q q c z ig v))).
Proof. exact sem_or. Qed.
Print Assumptions C11_or.

Theorem C11_not :
  forall (L : ExecLib) (C : cenv) (Q : quirks) (p : step) (c : json) (z : Z) (ig : bool) (v : json),
    sem_pred L C Q (SUn UNot [p]) c z ig v = pres_of (k_not (kout_of (sem_pred L C Q p c z ig v))).
Proof. exact sem_not. Qed.
Print Assumptions C11_not.

Theorem C11_isunknown :
  forall (L : ExecLib) (C : cenv) (Q : quirks) (p : step) (c : json) (z : Z) (ig : bool) (v : json),
    sem_pred L C Q (SUn UIsUnknown [p]) c z ig v =
    pres_of (k_isunknown (q_iu_swallow Q) (kout_of (sem_pred L C Q p c z ig v))).
Proof. exact sem_isunknown. Qed.
Print Assumptions C11_isunknown.

Theorem C11_exists :
  forall (L : ExecLib) (C : cenv) (Q : quirks) (a : chain) (c : json) (z : Z) (ig : bool) (v : json),
    sem_pred L C Q (SUn UExists a) c z ig v =
    pres_of (k_exists (laxm C) (sem_chain L C Q a c z ig (laxm C) v)).
Proof. exact sem_exists. Qed.
Print Assumptions C11_exists.

(* an operand that is not one condition is an internal error (the grammar builds none) *)
Theorem C11_and_malformed_operand :
  forall (L : ExecLib) (C : cenv) (Q : quirks) (l r : chain) (c : json) (z : Z) (ig : bool) (v : json),
    (forall p : step, l <> [p]) ->
    sem_pred L C Q (SBin BAnd l r) c z ig v = (PUnknown, Some (EInvalid "boolean jsonpath item")).
Proof. exact sem_and_malformed. Qed.
Print Assumptions C11_and_malformed_operand.

(* ---------- the laws, on arbitrary conditions ---------- *)
Theorem C11_and_commutes :
  forall (L : ExecLib) (C : cenv) (Q : quirks) (p q : step) (c : json) (z : Z) (ig : bool) (v : json),
    snd (sem_pred L C Q p c z ig v) = None -> snd (sem_pred L C Q q c z ig v) = None ->
    sem_pred L C Q (SBin BAnd [p] [q]) c z ig v = sem_pred L C Q (SBin BAnd [q] [p]) c z ig v.
Proof. exact C11_and_comm. Qed.
Print Assumptions C11_and_commutes.

Theorem C11_or_commutes :
  forall (L : ExecLib) (C : cenv) (Q : quirks) (p q : step) (c : json) (z : Z) (ig : bool) (v : json),
    snd (sem_pred L C Q p c z ig v) = None -> snd (sem_pred L C Q q c z ig v) = None ->
    sem_pred L C Q (SBin BOr [p] [q]) c z ig v = sem_pred L C Q (SBin BOr [q] [p]) c z ig v.
Proof. exact C11_or_comm. Qed.
Print Assumptions C11_or_commutes.

(* errors included *)
Theorem C11_double_negation_law :
  forall (L : ExecLib) (C : cenv) (Q : quirks) (p : step) (c : json) (z : Z) (ig : bool) (v : json),
    sem_pred L C Q (SUn UNot [SUn UNot [p]]) c z ig v = sem_pred L C Q p c z ig v.
Proof. exact C11_double_negation. Qed.
Print Assumptions C11_double_negation_law.

Theorem C11_de_morgan_and_law :
  forall (L : ExecLib) (C : cenv) (Q : quirks) (p q : step) (c : json) (z : Z) (ig : bool) (v : json),
    sem_pred L C Q (SUn UNot [SBin BAnd [p] [q]]) c z ig v =
    sem_pred L C Q (SBin BOr [SUn UNot [p]] [SUn UNot [q]]) c z ig v.
Proof. exact C11_de_morgan_and. Qed.
Print Assumptions C11_de_morgan_and_law.

Theorem C11_de_morgan_or_law :
  forall (L : ExecLib) (C : cenv) (Q : quirks) (p q : step) (c : json) (z : Z) (ig : bool) (v : json),
    sem_pred L C Q (SUn UNot [SBin BOr [p] [q]]) c z ig v =
    sem_pred L C Q (SBin BAnd [SUn UNot [p]] [SUn UNot [q]]) c z ig v.
Proof. exact C11_de_morgan_or. Qed.
Print Assumptions C11_de_morgan_or_law.

(* (p) is unknown is never itself unknown - whatever p does, in both quirk settings *)
Theorem C11_isunknown_is_never_unknown :
  forall (L : ExecLib) (C : cenv) (Q : quirks) (p : step) (c : json) (z : Z) (ig : bool) (v : json),
    sem_pred L C Q (SUn UIsUnknown [p]) c z ig v <> (PUnknown, None).
Proof. exact C11_isunknown_never_unknown. Qed.
Print Assumptions C11_isunknown_is_never_unknown.

(* ... true exactly when p is unknown, false exactly when it is not *)
Theorem C11_isunknown_true_exactly_when_unknown :
  forall (L : ExecLib) (C : cenv) (Q : quirks) (p : step) (c : json) (z : Z) (ig : bool) (v : json),
    snd (sem_pred L C Q p c z ig v) = None ->
    (sem_pred L C Q (SUn UIsUnknown [p]) c z ig v = (PTrue, None) <->
     sem_pred L C Q p c z ig v = (PUnknown, None)) /\
    (sem_pred L C Q (SUn UIsUnknown [p]) c z ig v = (PFalse, None) <->
     sem_pred L C Q p c z ig v <> (PUnknown, None)).
Proof. exact C11_isunknown_true_iff. Qed.
Print Assumptions C11_isunknown_true_exactly_when_unknown.

(* exists(e): true / false by emptiness when e does not fail *)
Theorem C11_exists_true_or_false_by_emptiness :
  forall (L : ExecLib) (C : cenv) (Q : quirks) (a : chain) (c : json) (z : Z) (ig : bool) (v : json),
    snd (sem_chain L C Q a c z ig (laxm C) v) = None ->
    sem_pred L C Q (SUn UExists a) c z ig v =
    (match fst (sem_chain L C Q a c z ig (laxm C) v) with [] => PFalse | _ :: _ => PTrue end, None).
Proof. exact C11_exists_by_emptiness. Qed.
Print Assumptions C11_exists_true_or_false_by_emptiness.

(* ... unknown only when e fails *)
Theorem C11_exists_unknown_only_when_operand_fails :
  forall (L : ExecLib) (C : cenv) (Q : quirks) (a : chain) (c : json) (z : Z) (ig : bool) (v : json),
    fst (sem_pred L C Q (SUn UExists a) c z ig v) = PUnknown ->
    exists e, snd (sem_chain L C Q a c z ig (laxm C) v) = Some e.
Proof. exact C11_exists_unknown_only_if_fails. Qed.
Print Assumptions C11_exists_unknown_only_when_operand_fails.

(* lax: the first item decides even if e fails later; strict: a failure decides *)
Theorem C11_exists_lax_first_item_decides :
  forall (L : ExecLib) (C : cenv) (Q : quirks) (a : chain) (c : json) (z : Z) (ig : bool) (v : json)
         (x : json) (xs : list json) (e : option err),
    laxm C = true -> sem_chain L C Q a c z ig true v = (x :: xs, e) ->
    sem_pred L C Q (SUn UExists a) c z ig v = (PTrue, None).
Proof. exact C11_exists_lax_first_item. Qed.
Print Assumptions C11_exists_lax_first_item_decides.

Theorem C11_exists_strict_failure_decides :
  forall (L : ExecLib) (C : cenv) (Q : quirks) (a : chain) (c : json) (z : Z) (ig : bool) (v : json)
         (xs : list json) (e : err),
    laxm C = false -> sem_chain L C Q a c z ig false v = (xs, Some e) ->
    sem_pred L C Q (SUn UExists a) c z ig v = (PUnknown, hard e).
Proof. exact C11_exists_strict_failure. Qed.
Print Assumptions C11_exists_strict_failure_decides.

(* ---------- a predicate used as a path item: [true] | [false] | [null], or the error ---------- *)
Theorem C11_predicate_as_path_item :
  forall (L : ExecLib) (C : cenv) (Q : quirks) (s : step) (k : Z -> bool -> json -> trace)
         (c : json) (z : Z) (ig u : bool) (v : json),
    KleeneProofs.is_pred_step s = true ->
    sem_step L C Q s k c z ig u v =
    match sem_pred L C Q s c z ig v with
    | (_, Some e) => tfail e
    | (p, None) => k z ig (bool_item p)
    end.
Proof. exact C11_pred_as_item. Qed.
Print Assumptions C11_predicate_as_path_item.

Theorem C11_predicate_check_result :
  forall (L : ExecLib) (C : cenv) (Q : quirks) (s : step) (c : json) (z : Z) (ig u : bool) (v : json),
    KleeneProofs.is_pred_step s = true ->
    match sem_chain L C Q [s] c z ig u v with
    | ([x], None) => x = JBool true \/ x = JBool false \/ x = JNull
    | ([], Some e) => sem_pred L C Q s c z ig v = (PUnknown, Some e)
    | _ => False
    end.
Proof. exact C11_pred_path_result. Qed.
Print Assumptions C11_predicate_check_result.

(* ---------- the same from Query and Match of the executor model ---------- *)
Theorem C11_query_of_model_on_predicate_check :
  forall (L : ExecLib) (p : path) (doc : json) (o : opts) (s : step),
    p_root p = [s] -> KleeneProofs.is_pred_step s = true ->
    o_cancel_at o = None -> members_canon L ->
    no_kv [s] = true -> exists_ok [s] = true -> ne_ops [s] = true ->
    forall (fuel : nat) (q : qres),
      Query L fuel p doc o = Ret q ->
      match sem_pred L (mkcenv (p_lax p) doc (o_vars o) (o_useTZ o)) quirks_code s doc (-1) (p_lax p) doc with
      | (pv, None) => q = QItems [bool_item pv]
      | (_, Some e) => is_verbose e = false /\ exists e', q = QErr (AErr e') /\ eclass e' = eclass e
      end.
Proof. exact C11_query_model. Qed.
Print Assumptions C11_query_of_model_on_predicate_check.

Theorem C11_match_of_model_on_predicate_check :
  forall (L : ExecLib) (p : path) (doc : json) (o : opts) (s : step),
    p_root p = [s] -> KleeneProofs.is_pred_step s = true ->
    o_cancel_at o = None -> members_canon L ->
    no_kv [s] = true -> exists_ok [s] = true -> ne_ops [s] = true ->
    forall (fuel : nat) (b : bres),
      Match L fuel p doc o = Ret b ->
      match sem_pred L (mkcenv (p_lax p) doc (o_vars o) (o_useTZ o)) quirks_code s doc (-1) (p_lax p) doc with
      | (PTrue, None) => b = BVal true
      | (PFalse, None) => b = BVal false
      | (PUnknown, None) => b = BErr ANull
      | (_, Some e) => is_verbose e = false /\ exists e', b = BErr (AErr e') /\ eclass e' = eclass e
      end.
Proof. exact C11_match_model. Qed.
Print Assumptions C11_match_of_model_on_predicate_check.

(* ---------- is unknown and hard errors: the documented rule and the code ---------- *)
Theorem C11_isunknown_propagates_error_ideal :
  forall (L : ExecLib) (C : cenv) (p : step) (c : json) (z : Z) (ig : bool) (v : json) (e : err),
    sem_pred L C quirks_ideal p c z ig v = (PUnknown, Some e) ->
    sem_pred L C quirks_ideal (SUn UIsUnknown [p]) c z ig v = (PUnknown, Some e).
Proof. exact C11_isunknown_ideal. Qed.
Print Assumptions C11_isunknown_propagates_error_ideal.

Theorem C11_isunknown_swallows_error_code :
  forall (L : ExecLib) (C : cenv) (p : step) (c : json) (z : Z) (ig : bool) (v : json) (e : err),
    sem_pred L C quirks_code p c z ig v = (PUnknown, Some e) ->
    sem_pred L C quirks_code (SUn UIsUnknown [p]) c z ig v = (PTrue, None).
Proof. exact C11_isunknown_code. Qed.
Print Assumptions C11_isunknown_swallows_error_code.

(* ---------- witnesses ---------- *)
(* c11_env: lax, document null, no variables; c11_hard = exists($x) *)
Example C11_hard_error_operand_exists :
  forall (L : ExecLib) (Q : quirks),
    sem_pred L c11_env Q c11_hard JNull (-1) true JNull
    = (PUnknown, Some (EExec "could not find jsonpath variable")).
Proof. exact C11_hard_operand. Qed.
Print Assumptions C11_hard_error_operand_exists.

(* KF-C11-isunknown-hard-error *)
Example C11_refuted_isunknown_hard_error :
  forall L : ExecLib,
    sem_pred L c11_env quirks_code (SUn UIsUnknown [c11_hard]) JNull (-1) true JNull = (PTrue, None) /\
    sem_pred L c11_env quirks_ideal (SUn UIsUnknown [c11_hard]) JNull (-1) true JNull
    = (PUnknown, Some (EExec "could not find jsonpath variable")).
Proof. exact C11_refuted_isunknown. Qed.
Print Assumptions C11_refuted_isunknown_hard_error.

(* true, false and unknown error-free operands exist: exists($), !exists($), true == 1 *)
Example C11_error_free_operands_exist :
  forall (L : ExecLib) (Q : quirks),
    sem_pred L c11_env Q (SUn UExists [SConst CRoot]) JNull (-1) true JNull = (PTrue, None) /\
    sem_pred L c11_env Q (SUn UNot [SUn UExists [SConst CRoot]]) JNull (-1) true JNull = (PFalse, None) /\
    sem_pred L c11_env Q (SBin BEq [SConst CTrue] [SInteger 1]) JNull (-1) true JNull = (PUnknown, None).
Proof. exact C11_operands_exist. Qed.
Print Assumptions C11_error_free_operands_exist.

(* with a hard error commutativity fails: evaluation is left to right *)
Example C11_comm_refuted_with_error : forall e : err, k_and KF (KE e) <> k_and (KE e) KF.
Proof. exact k_and_comm_refuted_with_error. Qed.
Print Assumptions C11_comm_refuted_with_error.

(* on the model: c11_p1 = (true == 1) is unknown; c11_p2 = (exists($x)) is unknown;
   c11_p3 = exists($x); library L0, document null *)
Example C11_model_witness :
  members_canon RefineWitness.L0 /\
  KleeneProofs.is_pred_step (SUn UIsUnknown [SBin BEq [SConst CTrue] [SInteger 1]]) = true /\
  no_kv (p_root c11_p1) = true /\ exists_ok (p_root c11_p1) = true /\ ne_ops (p_root c11_p1) = true /\
  Query RefineWitness.L0 20 c11_p1 JNull (RefineWitness.o0 false) = Ret (QItems [JBool true]) /\
  Match RefineWitness.L0 20 c11_p1 JNull (RefineWitness.o0 false) = Ret (BVal true) /\
  Query RefineWitness.L0 20 c11_p2 JNull (RefineWitness.o0 false) = Ret (QItems [JBool true]) /\
  Match RefineWitness.L0 20 c11_p2 JNull (RefineWitness.o0 false) = Ret (BVal true) /\
  Query RefineWitness.L0 20 c11_p3 JNull (RefineWitness.o0 true)
    = Ret (QErr (AErr (EExec "could not find jsonpath variable"))) /\
  Match RefineWitness.L0 20 c11_p3 JNull (RefineWitness.o0 true)
    = Ret (BErr (AErr (EExec "could not find jsonpath variable"))).
Proof. exact PropGlue.C11_model_witness. Qed.
Print Assumptions C11_model_witness.
