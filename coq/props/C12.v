(* C12 — Comparisons and string predicates impose one consistent order.

   "==, != (<>), <, <=, >, >= agree with one total order per type - numbers by value
   across int64, float64 and json.Number, strings by byte order, false < true,
   datetimes by instant (equal instants of time-with-zone values ordered by offset):
   for comparable items exactly one of <, ==, > holds, a < b iff b > a, <= and >= are
   the unions with ==, and the order is transitive; null equals only null, and items
   of different types and all arrays and objects compare as unknown.  Over sequences
   lax mode is existential (some pair satisfies) while strict mode makes any
   incomparable pair unknown; starts with is true exactly for string prefixes and
   like_regex exactly when Go's regexp matches under the translated flags (i, s, m;
   q = literal substring)."

   Objects.  The item-level theorems are about the leaf functions of the model M
   (model/Leaf.v, transliterations of path/exec/compare.go and op.go):
   [compareItems L useTZ op a b] (compareItems + compareNumeric + applyCompare; its
   answer is Ret (PTrue | PFalse | PUnknown, optional error) or a Panic),
   [executeStartsWith], [executeLikeRegex], for ALL items, all six operators, both
   settings of WithTZ and every library of oracles L : ExecLib.  The sequence-level
   theorems are about [spairs strictm cb ls rs false false] (spec/Sem.v), the double
   loop of executePredicate as a function of the two operand sequences and the
   callback, for ALL sequences and callbacks; [C12_spec_comparison],
   [C12_spec_starts_with], [C12_spec_like_regex] say that the specification S
   (sem_pred) of  l op r,  l starts with r,  a like_regex pat  IS that loop on the
   operand sequences ([KleeneProofs.operand], spelled out by [C12_operand_means]).
   Transfer to the executor model M: proofs/RefineClosed.v [refine_run] /
   [query_is_trace] (props/C01.v) - M's Query returns the projection p_query of S's
   trace, S taken with [quirks_code]; [C12_comparison_on_the_model] is that
   composition for a comparison predicate (what M's predicate evaluation answers is
   the loop with compareItems as callback), [C12_modes_differ_on_the_model] a
   Query-level witness.  Its side conditions (o_cancel_at = None, members_canon,
   no_kv, exists_ok, ne_ops) are those of props/C01.v, with its exclusions
   (KF-C06-unary-exists; [quirks_code] contains KF-C14-null-subscript and
   KF-C11-isunknown-hard-error, neither of which touches a comparison).

   Vocabulary (proofs/CompareProofs.v; every item is restated by a theorem below):
     holds L u op a b / fails L u op a b   compareItems answers (PTrue, None) /
                      (PFalse, None): "a op b is true / false", decided, no error
     truth op c       the operator read off a three-way sign c (c = 0, c < 0, ...);
                      flip op  the mirrored operator (< with >, <= with >=)
     item_cmp L u a b = Some c   a and b are COMPARABLE with three-way result c: both
                      null, both booleans, both strings, both numbers on which
                      compareNumeric returns, both datetimes on which the datetime
                      oracle answers CmpOk ([C12_item_cmp_means], [C12_comparable_pairs])
     OrdClass L u D   the order laws on the class D of items: item_cmp b a = - item_cmp
                      a b, and item_cmp is transitive for <= with the strict variants
                      ([C12_ordclass_means]).  The generic theorems ([C12_duality_holds] ..
                      [C12_gt_transitive]) hold for every such class; the classes are
                      null, booleans, strings, integers of ANY magnitude (int64 and
                      integral json.Number: compared exactly in Z), float64 without NaN,
                      numbers of all three representations mixed ([good_num]), datetimes.
                      [C12_all_items_one_class] glues them into ONE class of all items
                      and [C12_all_*] are the generic theorems at that class, with
                      nothing but the side conditions on numbers and datetimes left.
     good_num L n, nkey L n, int_like L n z   how compareNumeric reads an operand: an
                      int64 or a json.Number that ParseInt accepts is the integer z
                      (good when |z| <= 2^53, key float64(z)); a float64 or any other
                      json.Number that ParseFloat accepts is that float (good when not
                      NaN; a range error, +-Inf, is accepted); [C12_number_vocabulary].
                      Mixed representations are compared by fcmp = SFcompare of the keys.

   Hypotheses, all satisfiable:
     NumLaws L        (proofs/LeafLaws.v) eight laws of the numeric oracles; the
                      comparison theorems use three: float64(int64(0)) = +0; float64(int64)
                      is order-preserving (exact) on [-2^53, 2^53]; a text ParseInt
                      accepts is read by ParseFloat as float64 of the same integer ("-0"
                      as -0).  Satisfiable outright ([C12_numlaws_satisfiable]); of the
                      extracted library mk_lib seven fields (all that comparison uses)
                      are proved without hypothesis ([C12_numlaws_concrete_proved_fields]),
                      the record as a whole under [StrconvTrusted], the round trip of Go's
                      shortest float formatting, which no C12 proof uses
                      ([C12_numlaws_concrete]).
     DtLaws L Dd      the datetime oracle is antisymmetric and transitive on the domain
                      Dd; holds of mk_lib on well-formed values when the context zone is
                      a fixed offset ([C12_dtlaws_concrete]; props/C17.v has the datetime
                      theory, and KF-C17-dst-gap-order: with a daylight-saving table zone
                      transitivity across zone-less and zoned values fails).
     good_num, Dd, int_like, notnan   witnesses: [C12_class_witnesses],
                      [C12_good_num_witnesses].
   Excluded classes (known findings):
     KF-C12-mixed-number-precision (open)  numbers of DIFFERENT representations are
                      compared through float64: beyond 2^53 equality is not transitive
                      ([C12_refuted_transitivity_beyond_2p53], the witness of the finding),
                      json.Numbers outside the float64 range all compare as infinite
                      ([C12_refuted_json_number_out_of_range]); and NaN (reachable through
                      Inf - Inf) compares equal to everything
                      ([C12_refuted_nan_equals_everything]).  This is why the mixed class
                      asks for good_num; integers among themselves ([C12_class_integers],
                      any magnitude) and floats among themselves ([C12_class_floats]) need
                      no bound.
     KF-C05-errinvalid-datetime-compare (open, pinned by compare_test.go)  a datetime
                      on the LEFT of a non-null non-datetime item answers ErrInvalid, not
                      unknown ([C12_refuted_datetime_vs_other]); on the right it is unknown
                      ([C12_other_vs_datetime_unknown]).  [C12_different_types_unknown]
                      therefore asks kind_of a <> KdDt.
     Fixed finding d3e777b: json.Number 1e400 made compareNumeric panic; the model is of
                      the repaired code (a ParseFloat range error is accepted as +-Inf).  A
                      json.Number text that parses neither way still panics
                      ([C12_invalid_json_number_panics]; cannot come from encoding/json).
   Not covered: (1) like_regex: the model hands pattern, path flags and subject to the
   oracle xl_re_match; [C12_like_regex_answer] says exactly that and that non-strings
   are unknown.  That the oracle is Go's regexp under the translated flags (i, s, m, q =
   QuoteMeta) is in the trusted base, exercised by the correspondence leg - no
   theorem here.  (2) "numbers by value": integers by their value in Z, exactly
   ([C12_integers_by_value]); mixed representations by fcmp of the float64 keys
   ([C12_numbers_by_key]), which for small integers is the order of Z
   ([C12_small_integer_keys]) and for finite floats the order of the real values
   ([C12_floats_by_real_value], the last theorem) - but there is no single theorem
   "int64 z against float64 f compares as z against the real value of f".  (3)
   "datetimes by instant, equal instants of time-with-zone values by offset":
   [C12_datetimes_by_key] (under WithTZ the answer is the lexicographic comparison of
   (seconds, nanoseconds, - offset for the time-with-zone family)), with the cast of
   zone-less values into the context zone as the side condition conv_embeds
   (props/C17.v: true for fixed offsets).  (4) Totality "for comparable items": two
   datetimes of different families (time against date/timestamp) are NOT comparable
   (unknown), and zone-less against zoned needs WithTZ ([C12_datetime_answers]).
   (5) The transfer to M is stated for predicates in predicate position
   ([C12_comparison_on_the_model]) for the six operators; for starts with and
   like_regex only the specification side is restated (the same [refine_run] applies).

   ONE theorem is not closed under the global context: [C12_floats_by_real_value]
   (proofs/CompareReal.v, placed last) is about real numbers (Flocq's
   Bcompare_correct) and Print Assumptions lists the standard library's axioms of
   the reals: ClassicalDedekindReals.sig_not_dec, ClassicalDedekindReals.sig_forall_dec,
   FunctionalExtensionality.functional_extensionality_dep, Classical_Prop.classic.
   Nothing else depends on it; every other theorem is closed. *)
From Coq Require Import ZArith Bool List String Ascii Floats.SpecFloat.
From SJ Require Import lib.Base lib.F64 model.Json model.Ast model.ExecLib model.Leaf model.Exec
     model.GoTime model.DateTime spec.Sem spec.Proj extract.Instance
     proofs.RefineDefs proofs.Refine proofs.RefineWitness proofs.LeafLaws proofs.KleeneProofs
     proofs.DateTimeProofs proofs.CompareProofs proofs.PropGlue_CMP proofs.CompareReal.
Open Scope Z_scope.

(* ---- the vocabulary, spelled out ---- *)

Theorem C12_holds_fails_mean :
  forall (L : ExecLib) (useTZ : bool) (op : binop) (a b : json),
    (holds L useTZ op a b <-> compareItems L useTZ op a b = Ret (PTrue, None)) /\
    (fails L useTZ op a b <-> compareItems L useTZ op a b = Ret (PFalse, None)).
Proof. exact holds_fails_def. Qed.
Print Assumptions C12_holds_fails_mean.

Theorem C12_truth_flip_mean :
  (forall c : Z, truth BEq c = (c =? 0) /\ truth BNe c = negb (c =? 0) /\ truth BLt c = (c <? 0) /\
                 truth BGt c = (c >? 0) /\ truth BLe c = (c <=? 0) /\ truth BGe c = (c >=? 0)) /\
  flip BLt = BGt /\ flip BGt = BLt /\ flip BLe = BGe /\ flip BGe = BLe /\ flip BEq = BEq /\ flip BNe = BNe.
Proof. exact truth_flip_def. Qed.
Print Assumptions C12_truth_flip_mean.

Theorem C12_item_cmp_means :
  forall (L : ExecLib) (useTZ : bool) (a b : json),
    item_cmp L useTZ a b =
    match a, b with
    | JNull, JNull => Some 0
    | JBool x, JBool y => Some (compareBool x y)
    | JStr x, JStr y => Some (cmp_of_comparison (str_compare x y))
    | JNum x, JNum y => match compareNumeric L x y with Ret c => Some c | _ => None end
    | JDt x, JDt y => match xl_dt_compare L useTZ x y with ExecLib.CmpOk c => Some c | _ => None end
    | _, _ => None
    end.
Proof. exact item_cmp_def. Qed.
Print Assumptions C12_item_cmp_means.

Theorem C12_ordclass_means :
  forall (L : ExecLib) (useTZ : bool) (D : json -> Prop),
    OrdClass L useTZ D <->
    (forall a b c, D a -> D b -> item_cmp L useTZ a b = Some c -> item_cmp L useTZ b a = Some (- c)) /\
    (forall a b c x y, D a -> D b -> D c ->
       item_cmp L useTZ a b = Some x -> item_cmp L useTZ b c = Some y -> x <= 0 -> y <= 0 ->
       exists z, item_cmp L useTZ a c = Some z /\ z <= 0 /\ (x < 0 \/ y < 0 -> z < 0)).
Proof. exact ordclass_def. Qed.
Print Assumptions C12_ordclass_means.

Theorem C12_number_vocabulary :
  forall L : ExecLib,
    (forall z, good_num L (NInt z) = (Z.abs z <= two53) /\ nkey L (NInt z) = xl_of_Z L z /\ int_like L (NInt z) z) /\
    (forall f, good_num L (NFlt f) = notnan f /\ nkey L (NFlt f) = f /\ forall z, ~ int_like L (NFlt f) z) /\
    (forall s z, js_int64 L s = Some z ->
       good_num L (NJs s) = (Z.abs z <= two53) /\ nkey L (NJs s) = xl_of_Z L z /\ int_like L (NJs s) z) /\
    (forall s f fl, js_int64 L s = None -> js_float64 L s = Some (f, fl) ->
       good_num L (NJs s) = notnan f /\ nkey L (NJs s) = f /\ forall z, ~ int_like L (NJs s) z) /\
    (forall s, js_int64 L s = None -> js_float64 L s = None -> good_num L (NJs s) = False) /\
    (forall f, notnan f <-> f_is_nan f = false) /\ two53 = 9007199254740992.
Proof. exact num_vocabulary. Qed.
Print Assumptions C12_number_vocabulary.

(* which pairs are comparable, per type; comparable items have the same type and are not containers *)
Theorem C12_comparable_pairs :
  forall (L : ExecLib) (useTZ : bool),
    item_cmp L useTZ JNull JNull = Some 0 /\
    (forall x y, item_cmp L useTZ (JBool x) (JBool y) = Some (compareBool x y)) /\
    (forall x y, item_cmp L useTZ (JStr x) (JStr y) = Some (cmp_of_comparison (str_compare x y))) /\
    (NumLaws L -> forall a b, good_num L a -> good_num L b ->
       exists c, fcmp (nkey L a) (nkey L b) = Some c /\
                 item_cmp L useTZ (JNum a) (JNum b) = Some (cmp_of_comparison c)) /\
    (forall a b c, xl_dt_compare L useTZ a b = ExecLib.CmpOk c -> item_cmp L useTZ (JDt a) (JDt b) = Some c) /\
    (forall a b c, item_cmp L useTZ a b = Some c -> kind_of a = kind_of b /\ is_container a = false).
Proof. exact comparable_pairs. Qed.
Print Assumptions C12_comparable_pairs.

(* ---- the six operators are functions of ONE three-way result (no law, any L) ---- *)

Theorem C12_operator_reads_sign :
  forall (op : binop) (c : Z), is_cmp op = true -> applyCompare op c = (predFrom (truth op c), None).
Proof. exact applyCompare_truth. Qed.
Print Assumptions C12_operator_reads_sign.

Theorem C12_comparable_answer :
  forall (L : ExecLib) (useTZ : bool) (op : binop) (a b : json) (c : Z),
    is_cmp op = true -> item_cmp L useTZ a b = Some c ->
    compareItems L useTZ op a b = Ret (predFrom (truth op c), None).
Proof. exact compareItems_cmp. Qed.
Print Assumptions C12_comparable_answer.

(* conversely: a decided answer (true or false, no error) comes from the sign of
   item_cmp or from the null rule (exactly one of the two items is null) *)
Theorem C12_decided_answer_inversion :
  forall (L : ExecLib) (useTZ : bool) (op : binop) (a b : json) (p : pout),
    is_cmp op = true -> p = PTrue \/ p = PFalse ->
    compareItems L useTZ op a b = Ret (p, None) ->
    (exists c, item_cmp L useTZ a b = Some c /\ p = predFrom (truth op c)) \/
    (xorb (is_null a) (is_null b) = true /\ p = predFrom (binop_eqb op BNe)).
Proof. exact decided_inv. Qed.
Print Assumptions C12_decided_answer_inversion.

Theorem C12_true_answer_inversion :
  forall (L : ExecLib) (useTZ : bool) (op : binop) (a b : json),
    is_cmp op = true -> op <> BNe -> holds L useTZ op a b ->
    exists c, item_cmp L useTZ a b = Some c /\ truth op c = true.
Proof. exact holds_inv. Qed.
Print Assumptions C12_true_answer_inversion.

(* for comparable items exactly one of <, ==, > holds (and the other two fail) *)
Theorem C12_exactly_one_of_lt_eq_gt :
  forall (L : ExecLib) (useTZ : bool) (a b : json) (c : Z),
    item_cmp L useTZ a b = Some c ->
    (holds L useTZ BLt a b /\ fails L useTZ BEq a b /\ fails L useTZ BGt a b) \/
    (fails L useTZ BLt a b /\ holds L useTZ BEq a b /\ fails L useTZ BGt a b) \/
    (fails L useTZ BLt a b /\ fails L useTZ BEq a b /\ holds L useTZ BGt a b).
Proof. exact C12_trichotomy. Qed.
Print Assumptions C12_exactly_one_of_lt_eq_gt.

(* <= and >= are the unions with ==, != is the negation of == *)
Theorem C12_le_ge_are_unions :
  forall (L : ExecLib) (useTZ : bool) (a b : json) (c : Z),
    item_cmp L useTZ a b = Some c ->
    (holds L useTZ BLe a b <-> holds L useTZ BLt a b \/ holds L useTZ BEq a b) /\
    (holds L useTZ BGe a b <-> holds L useTZ BGt a b \/ holds L useTZ BEq a b) /\
    (holds L useTZ BNe a b <-> fails L useTZ BEq a b) /\
    (fails L useTZ BNe a b <-> holds L useTZ BEq a b).
Proof. exact C12_unions. Qed.
Print Assumptions C12_le_ge_are_unions.

(* every comparison of comparable items is decided: true or false, no error *)
Theorem C12_comparable_is_decided :
  forall (L : ExecLib) (useTZ : bool) (op : binop) (a b : json) (c : Z),
    is_cmp op = true -> item_cmp L useTZ a b = Some c -> holds L useTZ op a b \/ fails L useTZ op a b.
Proof. exact C12_comparable_decided. Qed.
Print Assumptions C12_comparable_is_decided.

(* ---- what the order laws of a class give (generic in the class D) ---- *)

(* a < b iff b > a, a <= b iff b >= a, == and != symmetric: the WHOLE answer of the
   mirrored operator on the swapped items is the same *)
Theorem C12_duality_whole_answer :
  forall (L : ExecLib) (useTZ : bool) (D : json -> Prop), OrdClass L useTZ D ->
  forall (op : binop) (a b : json) (c : Z),
    D a -> D b -> is_cmp op = true -> item_cmp L useTZ a b = Some c ->
    compareItems L useTZ op a b = compareItems L useTZ (flip op) b a.
Proof. exact C12_duality_eq. Qed.
Print Assumptions C12_duality_whole_answer.

Theorem C12_duality_holds :
  forall (L : ExecLib) (useTZ : bool) (D : json -> Prop), OrdClass L useTZ D ->
  forall (op : binop) (a b : json),
    D a -> D b -> is_cmp op = true -> (holds L useTZ op a b <-> holds L useTZ (flip op) b a).
Proof. exact C12_duality. Qed.
Print Assumptions C12_duality_holds.

Theorem C12_lt_iff_gt_swapped :
  forall (L : ExecLib) (useTZ : bool) (D : json -> Prop), OrdClass L useTZ D ->
  forall a b : json, D a -> D b -> (holds L useTZ BLt a b <-> holds L useTZ BGt b a).
Proof. exact C12_lt_gt. Qed.
Print Assumptions C12_lt_iff_gt_swapped.

Theorem C12_le_iff_ge_swapped :
  forall (L : ExecLib) (useTZ : bool) (D : json -> Prop), OrdClass L useTZ D ->
  forall a b : json, D a -> D b -> (holds L useTZ BLe a b <-> holds L useTZ BGe b a).
Proof. exact C12_le_ge. Qed.
Print Assumptions C12_le_iff_ge_swapped.

Theorem C12_eq_symmetric :
  forall (L : ExecLib) (useTZ : bool) (D : json -> Prop), OrdClass L useTZ D ->
  forall a b : json, D a -> D b -> (holds L useTZ BEq a b <-> holds L useTZ BEq b a).
Proof. exact C12_eq_sym. Qed.
Print Assumptions C12_eq_symmetric.

Theorem C12_reflexive :
  forall (L : ExecLib) (useTZ : bool) (D : json -> Prop), OrdClass L useTZ D ->
  forall (a : json) (c : Z), D a -> item_cmp L useTZ a a = Some c ->
    holds L useTZ BEq a a /\ holds L useTZ BLe a a /\ holds L useTZ BGe a a.
Proof. exact C12_refl. Qed.
Print Assumptions C12_reflexive.

(* transitivity of <=, strict as soon as one step is strict *)
Theorem C12_le_transitive :
  forall (L : ExecLib) (useTZ : bool) (D : json -> Prop), OrdClass L useTZ D ->
  forall a b c : json, D a -> D b -> D c ->
    holds L useTZ BLe a b -> holds L useTZ BLe b c ->
    holds L useTZ BLe a c /\ (holds L useTZ BLt a b \/ holds L useTZ BLt b c -> holds L useTZ BLt a c).
Proof. exact C12_le_trans. Qed.
Print Assumptions C12_le_transitive.

Theorem C12_lt_transitive :
  forall (L : ExecLib) (useTZ : bool) (D : json -> Prop), OrdClass L useTZ D ->
  forall a b c : json, D a -> D b -> D c ->
    holds L useTZ BLt a b -> holds L useTZ BLt b c -> holds L useTZ BLt a c.
Proof. exact C12_lt_trans. Qed.
Print Assumptions C12_lt_transitive.

Theorem C12_eq_transitive :
  forall (L : ExecLib) (useTZ : bool) (D : json -> Prop), OrdClass L useTZ D ->
  forall a b c : json, D a -> D b -> D c ->
    holds L useTZ BEq a b -> holds L useTZ BEq b c -> holds L useTZ BEq a c.
Proof. exact C12_eq_trans. Qed.
Print Assumptions C12_eq_transitive.

Theorem C12_gt_transitive :
  forall (L : ExecLib) (useTZ : bool) (D : json -> Prop), OrdClass L useTZ D ->
  forall a b c : json, D a -> D b -> D c ->
    holds L useTZ BGt a b -> holds L useTZ BGt b c -> holds L useTZ BGt a c.
Proof. exact C12_gt_trans. Qed.
Print Assumptions C12_gt_transitive.

(* ---- the classes: one total order per type ---- *)

Theorem C12_class_null :
  forall (L : ExecLib) (useTZ : bool), OrdClass L useTZ (fun v => v = JNull).
Proof. exact class_null. Qed.
Print Assumptions C12_class_null.

(* booleans: false < true *)
Theorem C12_class_booleans :
  forall (L : ExecLib) (useTZ : bool), OrdClass L useTZ (fun v => exists b, v = JBool b).
Proof. exact class_bool. Qed.
Print Assumptions C12_class_booleans.

Theorem C12_booleans_comparable :
  forall (L : ExecLib) (useTZ x y : bool), exists c, item_cmp L useTZ (JBool x) (JBool y) = Some c.
Proof. exact bool_comparable. Qed.
Print Assumptions C12_booleans_comparable.

Theorem C12_false_less_than_true :
  forall (L : ExecLib) (useTZ : bool),
    holds L useTZ BLt (JBool false) (JBool true) /\ fails L useTZ BLt (JBool true) (JBool false).
Proof. exact C12_false_lt_true. Qed.
Print Assumptions C12_false_less_than_true.

(* strings: byte order.  str_compare (lib/Base.v) is the comparison the model uses *)
Theorem C12_class_strings :
  forall (L : ExecLib) (useTZ : bool), OrdClass L useTZ (fun v => exists s, v = JStr s).
Proof. exact class_str. Qed.
Print Assumptions C12_class_strings.

Theorem C12_strings_comparable :
  forall (L : ExecLib) (useTZ : bool) (x y : string),
    item_cmp L useTZ (JStr x) (JStr y) = Some (cmp_of_comparison (str_compare x y)).
Proof. exact str_comparable. Qed.
Print Assumptions C12_strings_comparable.

Theorem C12_string_eq_iff_same :
  forall (L : ExecLib) (useTZ : bool) (x y : string), holds L useTZ BEq (JStr x) (JStr y) <-> x = y.
Proof. exact C12_str_eq_iff. Qed.
Print Assumptions C12_string_eq_iff_same.

Theorem C12_string_lt_iff_str_compare :
  forall (L : ExecLib) (useTZ : bool) (x y : string),
    holds L useTZ BLt (JStr x) (JStr y) <-> str_compare x y = Lt.
Proof. exact C12_str_lt_iff. Qed.
Print Assumptions C12_string_lt_iff_str_compare.

(* byte order: a < b iff a is a proper prefix of b, or at the first difference the byte of a is smaller *)
Theorem C12_str_compare_is_byte_order :
  forall a b : string,
    str_compare a b = Lt <->
    (exists (y : ascii) (t : string), b = (a ++ String y t)%string) \/
    (exists (p : string) (x : ascii) (ta : string) (y : ascii) (tb : string),
       a = (p ++ String x ta)%string /\ b = (p ++ String y tb)%string /\ (N_of_ascii x < N_of_ascii y)%N).
Proof. exact str_compare_lt_iff. Qed.
Print Assumptions C12_str_compare_is_byte_order.

Theorem C12_str_compare_eq_iff : forall a b : string, str_compare a b = Eq <-> a = b.
Proof. exact str_compare_eq. Qed.
Print Assumptions C12_str_compare_eq_iff.

Theorem C12_str_compare_antisymmetric : forall a b : string, str_compare b a = CompOpp (str_compare a b).
Proof. exact str_compare_antisym. Qed.
Print Assumptions C12_str_compare_antisymmetric.

Theorem C12_str_compare_lt_transitive :
  forall a b c : string, str_compare a b = Lt -> str_compare b c = Lt -> str_compare a c = Lt.
Proof. exact str_compare_lt_trans. Qed.
Print Assumptions C12_str_compare_lt_transitive.

(* integers - int64 and integral json.Number, ANY magnitude - are compared exactly, in Z; no law *)
Theorem C12_class_integers :
  forall (L : ExecLib) (useTZ : bool),
    OrdClass L useTZ (fun v => exists n z, v = JNum n /\ int_like L n z).
Proof. exact class_int. Qed.
Print Assumptions C12_class_integers.

Theorem C12_integers_comparable :
  forall (L : ExecLib) (useTZ : bool) (a b : num) (za zb : Z),
    int_like L a za -> int_like L b zb ->
    item_cmp L useTZ (JNum a) (JNum b) = Some (cmp_of_comparison (za ?= zb)).
Proof. exact int_comparable. Qed.
Print Assumptions C12_integers_comparable.

Theorem C12_integers_by_value :
  forall (L : ExecLib) (useTZ : bool) (a b : num) (za zb : Z),
    int_like L a za -> int_like L b zb ->
    (holds L useTZ BLt (JNum a) (JNum b) <-> za < zb) /\
    (holds L useTZ BEq (JNum a) (JNum b) <-> za = zb) /\
    (holds L useTZ BGt (JNum a) (JNum b) <-> za > zb).
Proof. exact C12_int_by_value. Qed.
Print Assumptions C12_integers_by_value.

(* float64 values that are not NaN: ordered by fcmp = SFcompare; no law *)
Theorem C12_class_floats :
  forall (L : ExecLib) (useTZ : bool),
    OrdClass L useTZ (fun v => exists f, v = JNum (NFlt f) /\ notnan f).
Proof. exact class_flt. Qed.
Print Assumptions C12_class_floats.

Theorem C12_floats_comparable :
  forall (L : ExecLib) (useTZ : bool) (a b : f64) (c : comparison),
    fcmp a b = Some c -> item_cmp L useTZ (JNum (NFlt a)) (JNum (NFlt b)) = Some (cmp_of_comparison c).
Proof. exact flt_comparable. Qed.
Print Assumptions C12_floats_comparable.

(* fcmp on non-NaN floats is a total preorder (proofs/LeafLaws.v; no reals) *)
Theorem C12_fcmp_total :
  forall a b : f64, notnan a -> notnan b -> exists c, fcmp a b = Some c.
Proof. exact fcmp_total. Qed.
Print Assumptions C12_fcmp_total.

Theorem C12_fcmp_antisymmetric :
  forall (a b : f64) (c : comparison), fcmp a b = Some c -> fcmp b a = Some (CompOpp c).
Proof. exact fcmp_antisym. Qed.
Print Assumptions C12_fcmp_antisymmetric.

Theorem C12_fcmp_transitive :
  forall (a b c : f64) (x y : comparison),
    fcmp a b = Some x -> fcmp b c = Some y -> x <> Gt -> y <> Gt ->
    exists z, fcmp a c = Some z /\ z <> Gt /\ (x = Lt \/ y = Lt -> z = Lt).
Proof. exact fcmp_le_trans. Qed.
Print Assumptions C12_fcmp_transitive.

(* numbers across the three representations (all nine pairings), under NumLaws, within
   the exclusions: the comparison IS the float comparison of the keys *)
Theorem C12_mixed_numbers_compare_keys :
  forall L : ExecLib, NumLaws L ->
  forall a b : num, good_num L a -> good_num L b ->
    compareNumeric L a b = Ret (compareNumbersF (nkey L a) (nkey L b)).
Proof. exact compareNumeric_good. Qed.
Print Assumptions C12_mixed_numbers_compare_keys.

Theorem C12_class_numbers :
  forall (L : ExecLib) (useTZ : bool), NumLaws L ->
    OrdClass L useTZ (fun v => exists n, v = JNum n /\ good_num L n).
Proof. exact class_num. Qed.
Print Assumptions C12_class_numbers.

Theorem C12_numbers_comparable :
  forall (L : ExecLib) (useTZ : bool), NumLaws L ->
  forall a b : num, good_num L a -> good_num L b ->
    exists c, fcmp (nkey L a) (nkey L b) = Some c /\
              item_cmp L useTZ (JNum a) (JNum b) = Some (cmp_of_comparison c).
Proof. exact num_comparable. Qed.
Print Assumptions C12_numbers_comparable.

Theorem C12_numbers_by_key :
  forall (L : ExecLib) (useTZ : bool), NumLaws L ->
  forall a b : num, good_num L a -> good_num L b ->
    (holds L useTZ BLt (JNum a) (JNum b) <-> fcmp (nkey L a) (nkey L b) = Some Lt) /\
    (holds L useTZ BEq (JNum a) (JNum b) <-> fcmp (nkey L a) (nkey L b) = Some Eq) /\
    (holds L useTZ BGt (JNum a) (JNum b) <-> fcmp (nkey L a) (nkey L b) = Some Gt).
Proof. exact C12_num_by_key. Qed.
Print Assumptions C12_numbers_by_key.

(* the keys of integers within +-2^53 are ordered as the integers *)
Theorem C12_small_integer_keys :
  forall L : ExecLib, NumLaws L ->
  forall za zb : Z, Z.abs za <= two53 -> Z.abs zb <= two53 ->
    fcmp (nkey L (NInt za)) (nkey L (NInt zb)) = Some (za ?= zb).
Proof. exact C12_num_small_ints. Qed.
Print Assumptions C12_small_integer_keys.

(* datetimes, under the laws of the datetime oracle on a domain Dd *)
Theorem C12_class_datetimes :
  forall (L : ExecLib) (useTZ : bool) (Dd : datetime -> Prop), DtLaws L Dd ->
    OrdClass L useTZ (fun v => exists d, v = JDt d /\ Dd d).
Proof. exact class_dt. Qed.
Print Assumptions C12_class_datetimes.

(* the four answers of the datetime oracle read through the operator *)
Theorem C12_datetime_answers :
  forall (L : ExecLib) (useTZ : bool) (op : binop) (a b : datetime),
    is_cmp op = true ->
    compareItems L useTZ op (JDt a) (JDt b) =
    match xl_dt_compare L useTZ a b with
    | ExecLib.CmpOk c => Ret (predFrom (truth op c), None)
    | ExecLib.CmpIncomparable => Ret (PUnknown, None)
    | ExecLib.CmpTZRequired => Ret (PUnknown, Some (EExec "tzRequiredCast"))
    | ExecLib.CmpInvalid => Ret (PUnknown, Some (EInvalid "unknownDateTime"))
    end.
Proof. exact C12_dt_results. Qed.
Print Assumptions C12_datetime_answers.

(* by instant, equal instants of time-with-zone values by offset: under WithTZ the
   result is lex3 of the keys (seconds, nanoseconds, tie), tie = - offset in the time
   family, 0 otherwise; zone-less values through their cast into the context zone *)
Theorem C12_datetimes_by_key :
  forall (ctx : dctx) (a b : datetime),
    comparable (dt_kind a) (dt_kind b) = true -> conv_embeds ctx a b ->
    compare_datetime true ctx a b = CmpOk (lex3 (cmp_key ctx a) (cmp_key ctx b)).
Proof. exact compare_by_key. Qed.
Print Assumptions C12_datetimes_by_key.

Theorem C12_datetime_key_order :
  forall s1 n1 p1 s2 n2 p2 : Z,
    (lex3 (s1, n1, p1) (s2, n2, p2) <= 0 <-> s1 < s2 \/ (s1 = s2 /\ (n1 < n2 \/ (n1 = n2 /\ p1 <= p2)))) /\
    (lex3 (s1, n1, p1) (s2, n2, p2) < 0 <-> s1 < s2 \/ (s1 = s2 /\ (n1 < n2 \/ (n1 = n2 /\ p1 < p2)))).
Proof. exact lex3_triples. Qed.
Print Assumptions C12_datetime_key_order.

Theorem C12_datetime_key :
  forall (ctx : dctx) (d : datetime),
    cmp_key ctx d =
    match dt_kind d with
    | KTimestampTZ => (dt_sec d, dt_nsec d, 0)
    | KDate | KTimestamp => (dt_sec (dt_to_timestamptz ctx d), dt_nsec (dt_to_timestamptz ctx d), 0)
    | KTimeTZ => (dt_sec d, dt_nsec d, - dt_off d)
    | KTime => (dt_sec (dt_to_timetz ctx d), dt_nsec (dt_to_timetz ctx d), - dt_off (dt_to_timetz ctx d))
    end.
Proof. exact cmp_key_def. Qed.
Print Assumptions C12_datetime_key.

(* ---- all items at once: ONE class, and the order theorems at that class ---- *)

Theorem C12_all_items_one_class :
  forall (L : ExecLib) (useTZ : bool) (Dd : datetime -> Prop), NumLaws L -> DtLaws L Dd ->
    OrdClass L useTZ (fun v => match v with JNum n => good_num L n | JDt d => Dd d | _ => True end).
Proof. exact class_all. Qed.
Print Assumptions C12_all_items_one_class.

Theorem C12_all_duality :
  forall (L : ExecLib) (useTZ : bool) (Dd : datetime -> Prop), NumLaws L -> DtLaws L Dd ->
  let dom := fun v => match v with JNum n => good_num L n | JDt d => Dd d | _ => True end in
  forall (op : binop) (a b : json), dom a -> dom b -> is_cmp op = true ->
    (holds L useTZ op a b <-> holds L useTZ (flip op) b a).
Proof. exact all_duality. Qed.
Print Assumptions C12_all_duality.

Theorem C12_all_duality_whole_answer :
  forall (L : ExecLib) (useTZ : bool) (Dd : datetime -> Prop), NumLaws L -> DtLaws L Dd ->
  let dom := fun v => match v with JNum n => good_num L n | JDt d => Dd d | _ => True end in
  forall (op : binop) (a b : json) (c : Z), dom a -> dom b -> is_cmp op = true ->
    item_cmp L useTZ a b = Some c ->
    compareItems L useTZ op a b = compareItems L useTZ (flip op) b a.
Proof. exact all_duality_eq. Qed.
Print Assumptions C12_all_duality_whole_answer.

Theorem C12_all_lt_gt_le_ge_eq_ne :
  forall (L : ExecLib) (useTZ : bool) (Dd : datetime -> Prop), NumLaws L -> DtLaws L Dd ->
  let dom := fun v => match v with JNum n => good_num L n | JDt d => Dd d | _ => True end in
  forall a b : json, dom a -> dom b ->
    (holds L useTZ BLt a b <-> holds L useTZ BGt b a) /\
    (holds L useTZ BLe a b <-> holds L useTZ BGe b a) /\
    (holds L useTZ BEq a b <-> holds L useTZ BEq b a) /\
    (holds L useTZ BNe a b <-> holds L useTZ BNe b a).
Proof. exact all_lt_gt_le_ge_eq. Qed.
Print Assumptions C12_all_lt_gt_le_ge_eq_ne.

Theorem C12_all_reflexive :
  forall (L : ExecLib) (useTZ : bool) (Dd : datetime -> Prop), NumLaws L -> DtLaws L Dd ->
  let dom := fun v => match v with JNum n => good_num L n | JDt d => Dd d | _ => True end in
  forall (a : json) (c : Z), dom a -> item_cmp L useTZ a a = Some c ->
    holds L useTZ BEq a a /\ holds L useTZ BLe a a /\ holds L useTZ BGe a a.
Proof. exact all_refl. Qed.
Print Assumptions C12_all_reflexive.

Theorem C12_all_le_transitive :
  forall (L : ExecLib) (useTZ : bool) (Dd : datetime -> Prop), NumLaws L -> DtLaws L Dd ->
  let dom := fun v => match v with JNum n => good_num L n | JDt d => Dd d | _ => True end in
  forall a b c : json, dom a -> dom b -> dom c ->
    holds L useTZ BLe a b -> holds L useTZ BLe b c ->
    holds L useTZ BLe a c /\ (holds L useTZ BLt a b \/ holds L useTZ BLt b c -> holds L useTZ BLt a c).
Proof. exact all_le_trans. Qed.
Print Assumptions C12_all_le_transitive.

Theorem C12_all_transitive :
  forall (L : ExecLib) (useTZ : bool) (Dd : datetime -> Prop), NumLaws L -> DtLaws L Dd ->
  let dom := fun v => match v with JNum n => good_num L n | JDt d => Dd d | _ => True end in
  forall a b c : json, dom a -> dom b -> dom c ->
    (holds L useTZ BLt a b -> holds L useTZ BLt b c -> holds L useTZ BLt a c) /\
    (holds L useTZ BEq a b -> holds L useTZ BEq b c -> holds L useTZ BEq a c) /\
    (holds L useTZ BGt a b -> holds L useTZ BGt b c -> holds L useTZ BGt a c) /\
    (holds L useTZ BGe a b -> holds L useTZ BGe b c -> holds L useTZ BGe a c).
Proof. exact all_trans. Qed.
Print Assumptions C12_all_transitive.

(* ---- the laws are satisfiable; witnesses of the side conditions ---- *)

Theorem C12_numlaws_satisfiable : exists L : ExecLib, NumLaws L.
Proof. exact numlaws_satisfiable. Qed.
Print Assumptions C12_numlaws_satisfiable.

(* the extracted library: the seven fields proved outright (comparison uses the first three) *)
Theorem C12_numlaws_concrete_proved_fields :
  forall (ctx : dctx) (re : string -> Z -> string -> bool) (members : list (string * json) -> list json),
  let L := mk_lib ctx re members in
    xl_of_Z L 0 = S754_zero false /\
    (forall a b, Z.abs a <= two53 -> Z.abs b <= two53 -> fcmp (xl_of_Z L a) (xl_of_Z L b) = Some (a ?= b)) /\
    (forall s z, js_int64 L s = Some z ->
       js_float64 L s = Some (xl_of_Z L z, false) \/ (z = 0 /\ js_float64 L s = Some (S754_zero true, false))) /\
    (forall s z, xl_parse_int L 10 64 s = Some z -> in_int64 z = true) /\
    (forall f, in_int64 (xl_to_int64 L f) = true) /\
    (forall z, in_int64 z = true -> xl_parse_int L 10 64 (xl_format_int L z) = Some z) /\
    (forall z, in_int32 z = true -> xl_parse_int L 10 32 (xl_format_int L z) = Some z).
Proof. exact numlaws_concrete_proved. Qed.
Print Assumptions C12_numlaws_concrete_proved_fields.

(* ... and the whole record, under the one trusted fact about lib/Strconv.v (a hypothesis, not an axiom) *)
Theorem C12_numlaws_concrete :
  forall (ctx : dctx) (re : string -> Z -> string -> bool) (members : list (string * json) -> list json),
    StrconvTrusted -> NumLaws (mk_lib ctx re members).
Proof. exact numlaws_concrete. Qed.
Print Assumptions C12_numlaws_concrete.

Theorem C12_dtlaws_concrete :
  forall (ctx : dctx) (re : string -> Z -> string -> bool) (members : list (string * json) -> list json) (o : Z),
    tz ctx = ZFixed o -> DtLaws (mk_lib ctx re members) wf_dt.
Proof. exact dtlaws_concrete. Qed.
Print Assumptions C12_dtlaws_concrete.

Example C12_class_witnesses :
  (exists n z, JNum (NInt 9223372036854775807) = JNum n /\ int_like lib0 n z) /\
  (exists n z, JNum (NJs "-12") = JNum n /\ int_like lib0 n z) /\
  (exists s, JStr "a" = JStr s) /\ (exists b, JBool true = JBool b) /\ JNull = JNull /\
  wf_dt (mkdt KTimestampTZ 0 0 3600).
Proof. exact class_examples. Qed.
Print Assumptions C12_class_witnesses.

Example C12_good_num_witnesses :
  good_num lib0 (NInt (-9007199254740992)) /\ good_num lib0 (NFlt (S754_finite false 4503599627370496 1)) /\
  good_num lib0 (NJs "12") /\ good_num lib0 (NJs "1.5") /\ good_num lib0 (NJs "1e400") /\
  ~ good_num lib0 (NInt 9007199254740993) /\ ~ good_num lib0 (NFlt S754_nan) /\ ~ good_num lib0 (NJs "abc").
Proof. exact good_num_examples. Qed.
Print Assumptions C12_good_num_witnesses.

(* ---- null rules, different types, containers (no law: any L) ---- *)

Theorem C12_null_against_null :
  forall (L : ExecLib) (useTZ : bool) (op : binop),
    is_cmp op = true -> compareItems L useTZ op JNull JNull = Ret (predFrom (truth op 0), None).
Proof. exact C12_null_null. Qed.
Print Assumptions C12_null_against_null.

(* null equals only null *)
Theorem C12_null_equals_only_null :
  forall (L : ExecLib) (useTZ : bool) (v : json),
    compareItems L useTZ BEq JNull v = Ret (PTrue, None) <-> v = JNull.
Proof. exact C12_null_eq_iff. Qed.
Print Assumptions C12_null_equals_only_null.

Theorem C12_null_against_non_null :
  forall (L : ExecLib) (useTZ : bool) (op : binop) (v : json),
    is_cmp op = true -> is_null v = false ->
    compareItems L useTZ op JNull v = Ret (predFrom (binop_eqb op BNe), None) /\
    compareItems L useTZ op v JNull = Ret (predFrom (binop_eqb op BNe), None).
Proof. exact C12_null_vs_other. Qed.
Print Assumptions C12_null_against_non_null.

Theorem C12_null_against_non_null_table :
  forall (L : ExecLib) (useTZ : bool) (v : json), is_null v = false ->
    compareItems L useTZ BEq JNull v = Ret (PFalse, None) /\ compareItems L useTZ BNe JNull v = Ret (PTrue, None) /\
    compareItems L useTZ BLt JNull v = Ret (PFalse, None) /\ compareItems L useTZ BLe JNull v = Ret (PFalse, None) /\
    compareItems L useTZ BGt JNull v = Ret (PFalse, None) /\ compareItems L useTZ BGe JNull v = Ret (PFalse, None).
Proof. exact C12_null_vs_other_table. Qed.
Print Assumptions C12_null_against_non_null_table.

(* items of different types, and all arrays and objects, are unknown for every operator
   (kind_of: the JSON type of an item; is_container: array or object) *)
Theorem C12_different_types_unknown :
  forall (L : ExecLib) (useTZ : bool) (op : binop) (a b : json),
    is_null a = false -> is_null b = false ->
    kind_of a <> kind_of b \/ is_container a = true ->
    kind_of a <> KdDt ->
    compareItems L useTZ op a b = Ret (PUnknown, None).
Proof. exact C12_incomparable. Qed.
Print Assumptions C12_different_types_unknown.

Theorem C12_container_on_the_left_unknown :
  forall (L : ExecLib) (useTZ : bool) (op : binop) (a b : json),
    is_container a = true -> is_null b = false -> compareItems L useTZ op a b = Ret (PUnknown, None).
Proof. exact C12_containers_unknown. Qed.
Print Assumptions C12_container_on_the_left_unknown.

Theorem C12_container_on_the_right_unknown :
  forall (L : ExecLib) (useTZ : bool) (op : binop) (a b : json),
    is_container b = true -> is_null a = false -> kind_of a <> KdDt ->
    compareItems L useTZ op a b = Ret (PUnknown, None).
Proof. exact C12_containers_unknown_r. Qed.
Print Assumptions C12_container_on_the_right_unknown.

(* known finding KF-C05-errinvalid-datetime-compare: a datetime on the left of a
   non-null non-datetime item is ErrInvalid, not unknown - why kind_of a <> KdDt above *)
Theorem C12_refuted_datetime_vs_other :
  forall (L : ExecLib) (useTZ : bool) (op : binop) (d : datetime) (b : json),
    is_null b = false -> kind_of b <> KdDt ->
    compareItems L useTZ op (JDt d) b = Ret (PUnknown, Some (EInvalid "unknownDateTime")).
Proof. exact C12_dt_vs_other_invalid. Qed.
Print Assumptions C12_refuted_datetime_vs_other.

Theorem C12_other_vs_datetime_unknown :
  forall (L : ExecLib) (useTZ : bool) (op : binop) (a : json) (d : datetime),
    is_null a = false -> kind_of a <> KdDt -> compareItems L useTZ op a (JDt d) = Ret (PUnknown, None).
Proof. exact C12_other_vs_dt. Qed.
Print Assumptions C12_other_vs_datetime_unknown.

(* ---- sequences: the double loop spairs, for ANY callback cb; pairs in row-major order ---- *)

(* lax mode is existential: true iff some pair is true and no pair before it raised an error *)
Theorem C12_lax_true_iff_some_pair :
  forall (cb : json -> json -> pout * option err) (ls rs : list json),
    spairs false cb ls rs false false = (PTrue, None) <->
    exists pre p post,
      flat_map (fun l => map (pair l) rs) ls = pre ++ p :: post /\
      cb (fst p) (snd p) = (PTrue, None) /\
      Forall (fun q => snd (cb (fst q) (snd q)) = None) pre.
Proof. exact spairs_lax_true_iff. Qed.
Print Assumptions C12_lax_true_iff_some_pair.

(* lax: an error iff some pair raises it and every pair before is false or unknown *)
Theorem C12_lax_error_iff :
  forall (cb : json -> json -> pout * option err) (ls rs : list json) (e : err),
    spairs false cb ls rs false false = (PUnknown, Some e) <->
    exists pre p post,
      flat_map (fun l => map (pair l) rs) ls = pre ++ p :: post /\
      snd (cb (fst p) (snd p)) = Some e /\
      Forall (fun q => cb (fst q) (snd q) = (PFalse, None) \/ cb (fst q) (snd q) = (PUnknown, None)) pre.
Proof. exact spairs_lax_error_iff. Qed.
Print Assumptions C12_lax_error_iff.

(* lax: false iff every pair is false *)
Theorem C12_lax_false_iff_all_false :
  forall (cb : json -> json -> pout * option err) (ls rs : list json),
    spairs false cb ls rs false false = (PFalse, None) <->
    Forall (fun q => cb (fst q) (snd q) = (PFalse, None)) (flat_map (fun l => map (pair l) rs) ls).
Proof. exact spairs_lax_false_iff. Qed.
Print Assumptions C12_lax_false_iff_all_false.

(* strict: unknown iff the first pair that is not plainly true/false is an unknown one -
   one incomparable pair spoils the result even after a true pair *)
Theorem C12_strict_unknown_iff :
  forall (cb : json -> json -> pout * option err) (ls rs : list json),
    spairs true cb ls rs false false = (PUnknown, None) <->
    exists pre p post,
      flat_map (fun l => map (pair l) rs) ls = pre ++ p :: post /\
      cb (fst p) (snd p) = (PUnknown, None) /\
      Forall (fun q => cb (fst q) (snd q) = (PTrue, None) \/ cb (fst q) (snd q) = (PFalse, None)) pre.
Proof. exact spairs_strict_unknown_iff. Qed.
Print Assumptions C12_strict_unknown_iff.

Theorem C12_strict_error_iff :
  forall (cb : json -> json -> pout * option err) (ls rs : list json) (e : err),
    spairs true cb ls rs false false = (PUnknown, Some e) <->
    exists pre p post,
      flat_map (fun l => map (pair l) rs) ls = pre ++ p :: post /\
      snd (cb (fst p) (snd p)) = Some e /\
      Forall (fun q => cb (fst q) (snd q) = (PTrue, None) \/ cb (fst q) (snd q) = (PFalse, None)) pre.
Proof. exact spairs_strict_error_iff. Qed.
Print Assumptions C12_strict_error_iff.

(* strict, every pair decided: true iff some pair is true *)
Theorem C12_strict_all_comparable :
  forall (cb : json -> json -> pout * option err) (ls rs : list json),
    Forall (fun q => cb (fst q) (snd q) = (PTrue, None) \/ cb (fst q) (snd q) = (PFalse, None))
           (flat_map (fun l => map (pair l) rs) ls) ->
    spairs true cb ls rs false false =
    if existsb (fun q => match cb (fst q) (snd q) with (PTrue, None) => true | _ => false end)
               (flat_map (fun l => map (pair l) rs) ls)
    then (PTrue, None) else (PFalse, None).
Proof. exact spairs_strict_all_comparable. Qed.
Print Assumptions C12_strict_all_comparable.

(* the difference between the modes: [1, "a"] == 1 *)
Example C12_modes_differ :
  forall L : ExecLib,
  let cb := fun a b => total_cb (compareItems L false BEq a b) in
  let ls := [JNum (NInt 1); JStr "a"] in
  let rs := [JNum (NInt 1)] in
    spairs false cb ls rs false false = (PTrue, None) /\
    spairs true cb ls rs false false = (PUnknown, None).
Proof. exact spairs_modes_differ. Qed.
Print Assumptions C12_modes_differ.

(* ---- the specification S: the predicates ARE this loop on the operand sequences ---- *)

Theorem C12_operand_means :
  forall (L : ExecLib) (C : cenv) (Q : quirks) (n : chain) (unwrap : bool) (c : json) (z : Z) (ig : bool) (v : json),
    KleeneProofs.operand L C Q n unwrap c z ig v =
    let t := sem_chain L C Q n c z ig (laxm C) v in
    match snd t with
    | Some e => inr (hard e)
    | None => inl (if unwrap && laxm C then unwrapSeq (fst t) else fst t)
    end.
Proof. exact operand_def. Qed.
Print Assumptions C12_operand_means.

Theorem C12_spec_comparison :
  forall (L : ExecLib) (C : cenv) (Q : quirks) (op : binop) (l r : chain) (c : json) (z : Z) (ig : bool)
         (v : json) (ls rs : list json),
    is_cmp op = true ->
    KleeneProofs.operand L C Q l true c z ig v = inl ls ->
    KleeneProofs.operand L C Q r true c z ig v = inl rs ->
    sem_pred L C Q (SBin op l r) c z ig v =
    spairs (negb (laxm C)) (fun a b => total_cb (compareItems L (c_useTZ C) op a b)) ls rs false false.
Proof. exact C12_sem_cmp. Qed.
Print Assumptions C12_spec_comparison.

(* an operand whose evaluation fails makes the comparison unknown, with that error
   (none when it is a structural error, which predicates absorb) *)
Theorem C12_spec_comparison_operand_fails :
  forall (L : ExecLib) (C : cenv) (Q : quirks) (op : binop) (l r : chain) (c : json) (z : Z) (ig : bool)
         (v : json) (e : option err),
    is_cmp op = true ->
    KleeneProofs.operand L C Q l true c z ig v = inr e \/
    (exists ls, KleeneProofs.operand L C Q l true c z ig v = inl ls /\
                KleeneProofs.operand L C Q r true c z ig v = inr e) ->
    sem_pred L C Q (SBin op l r) c z ig v = (PUnknown, e).
Proof. exact operand_error. Qed.
Print Assumptions C12_spec_comparison_operand_fails.

(* the model M: what its predicate evaluation answers for l op r is the loop with
   compareItems as the callback (verdict and error class) *)
Theorem C12_comparison_on_the_model :
  forall (L : ExecLib) (E : env) (C : cenv),
    agrees E C -> e_cancel_at E = None -> members_canon L ->
    forall fuel op l r next v c s p s' ls rs,
      is_cmp op = true ->
      run L E fuel (RBool (SBin op l r :: next) v c) s = Ret (ABool p, s') ->
      no_kv (SBin op l r :: next) = true -> exists_ok (SBin op l r :: next) = true ->
      ne_ops (SBin op l r :: next) = true -> (c = false -> next = []) ->
      KleeneProofs.operand L C quirks_code l true (cur s) (last_size s) (ign s) v = inl ls ->
      KleeneProofs.operand L C quirks_code r true (cur s) (last_size s) (ign s) v = inl rs ->
      (p_out p, option_map eclass (p_err p)) =
      (fst (spairs (negb (laxm C)) (fun a b => total_cb (compareItems L (c_useTZ C) op a b)) ls rs false false),
       option_map eclass
         (snd (spairs (negb (laxm C)) (fun a b => total_cb (compareItems L (c_useTZ C) op a b)) ls rs false false))).
Proof. exact model_cmp. Qed.
Print Assumptions C12_comparison_on_the_model.

(* Query of the predicate check  $[*] == 1  on [1, "a"]: true in lax mode, null (unknown) in strict mode *)
Example C12_modes_differ_on_the_model :
  let p := fun laxm => mkpath laxm true [SBin BEq [SConst CRoot; SConst CAnyArray] [SInteger 1]] in
  let doc := JArr 1 [JNum (NInt 1); JStr "a"] in
    Query L0 20 (p true) doc (o0 false) = Ret (QItems [JBool true]) /\
    Query L0 20 (p false) doc (o0 false) = Ret (QItems [JNull]) /\
    p_query false (sem_of L0 quirks_code (p true) doc (o0 false)) = QItems [JBool true] /\
    p_query false (sem_of L0 quirks_code (p false) doc (o0 false)) = QItems [JNull].
Proof. exact model_modes_differ. Qed.
Print Assumptions C12_modes_differ_on_the_model.

(* ---- starts with ---- *)

Theorem C12_str_prefix_iff :
  forall p s : string, str_prefix p s = true <-> exists r, s = (p ++ r)%string.
Proof. exact str_prefix_iff. Qed.
Print Assumptions C12_str_prefix_iff.

Theorem C12_starts_with_answer :
  forall whole initial : json,
    executeStartsWith whole initial =
    match whole, initial with
    | JStr s, JStr p => (predFrom (str_prefix p s), None)
    | _, _ => (PUnknown, None)
    end.
Proof. exact C12_starts_with. Qed.
Print Assumptions C12_starts_with_answer.

(* true exactly for string prefixes *)
Theorem C12_starts_with_true_iff_prefix :
  forall whole initial : json,
    executeStartsWith whole initial = (PTrue, None) <->
    exists p r : string, initial = JStr p /\ whole = JStr (p ++ r).
Proof. exact C12_starts_with_true_iff. Qed.
Print Assumptions C12_starts_with_true_iff_prefix.

Theorem C12_starts_with_no_error :
  forall whole initial : json, snd (executeStartsWith whole initial) = None.
Proof. exact C12_starts_with_never_errors. Qed.
Print Assumptions C12_starts_with_no_error.

(* in S: the loop over the operand sequences (the right operand is not unwrapped) *)
Theorem C12_spec_starts_with :
  forall (L : ExecLib) (C : cenv) (Q : quirks) (l r : chain) (c : json) (z : Z) (ig : bool) (v : json)
         (ls rs : list json),
    KleeneProofs.operand L C Q l true c z ig v = inl ls ->
    KleeneProofs.operand L C Q r false c z ig v = inl rs ->
    sem_pred L C Q (SBin BStartsWith l r) c z ig v =
    spairs (negb (laxm C)) executeStartsWith ls rs false false.
Proof. exact sem_startswith. Qed.
Print Assumptions C12_spec_starts_with.

(* ---- like_regex: the regexp oracle on strings, unknown on everything else ---- *)

Theorem C12_like_regex_answer :
  forall (L : ExecLib) (pat : string) (flags : Z) (v : json),
    executeLikeRegex L pat flags v =
    match v with
    | JStr s => (predFrom (xl_re_match L pat flags s), None)
    | _ => (PUnknown, None)
    end.
Proof. exact C12_like_regex. Qed.
Print Assumptions C12_like_regex_answer.

Theorem C12_like_regex_true_iff_oracle_matches :
  forall (L : ExecLib) (pat : string) (flags : Z) (v : json),
    executeLikeRegex L pat flags v = (PTrue, None) <->
    exists s, v = JStr s /\ xl_re_match L pat flags s = true.
Proof. exact C12_like_regex_true_iff. Qed.
Print Assumptions C12_like_regex_true_iff_oracle_matches.

Theorem C12_spec_like_regex :
  forall (L : ExecLib) (C : cenv) (Q : quirks) (a : chain) (pat : string) (flags : Z) (c : json) (z : Z)
         (ig : bool) (v : json) (ls : list json),
    KleeneProofs.operand L C Q a true c z ig v = inl ls ->
    sem_pred L C Q (SRegex a pat flags) c z ig v =
    spairs (negb (laxm C)) (fun x _ => executeLikeRegex L pat flags x) ls [JNull] false false.
Proof. exact sem_like_regex. Qed.
Print Assumptions C12_spec_like_regex.

(* ---- refuted: the excluded classes are real (lib0: the extracted library, UTC context) ---- *)

(* KF-C12-mixed-number-precision: int64 2^53+1 == float64 2^53 == int64 2^53, but 2^53+1 > 2^53 *)
Example C12_refuted_transitivity_beyond_2p53 :
  let a := JNum (NInt 9007199254740993) in
  let b := JNum (NFlt (S754_finite false 4503599627370496 1)) in
  let c := JNum (NInt 9007199254740992) in
    compareItems lib0 false BEq a b = Ret (PTrue, None) /\
    compareItems lib0 false BEq b c = Ret (PTrue, None) /\
    compareItems lib0 false BEq a c = Ret (PFalse, None) /\
    compareItems lib0 false BGt a c = Ret (PTrue, None).
Proof. exact C12_refuted_trans_2p53. Qed.
Print Assumptions C12_refuted_transitivity_beyond_2p53.

(* two json.Numbers beyond the float64 range both compare as +Inf *)
Example C12_refuted_json_number_out_of_range :
  compareItems lib0 false BEq (JNum (NJs "1e400")) (JNum (NJs "1e401")) = Ret (PTrue, None).
Proof. exact C12_refuted_js_out_of_range. Qed.
Print Assumptions C12_refuted_json_number_out_of_range.

(* NaN compares equal to everything: 1 == NaN == 2 although 1 < 2 *)
Example C12_refuted_nan_equals_everything :
  compareItems lib0 false BEq (JNum (NFlt S754_nan)) (JNum (NInt 1)) = Ret (PTrue, None) /\
  compareItems lib0 false BEq (JNum (NFlt S754_nan)) (JNum (NInt 2)) = Ret (PTrue, None) /\
  compareItems lib0 false BLt (JNum (NInt 1)) (JNum (NInt 2)) = Ret (PTrue, None).
Proof. exact C12_refuted_nan. Qed.
Print Assumptions C12_refuted_nan_equals_everything.

(* a json.Number text that parses neither as int64 nor as float makes compareNumeric panic *)
Example C12_invalid_json_number_panics :
  compareItems lib0 false BEq (JNum (NJs "abc")) (JNum (NInt 1)) = Panic "compareNumeric: invalid json.Number".
Proof. exact C12_invalid_js_panics. Qed.
Print Assumptions C12_invalid_json_number_panics.

(* ---- LAST, and the only theorem that is NOT closed under the global context: on valid
   finite float64 values fcmp is the order of the real values (axioms of the reals) ---- *)
Theorem C12_floats_by_real_value :
  forall a b : f64,
    valid_binary 53 1024 a = true -> valid_binary 53 1024 b = true ->
    BinarySingleNaN.is_finite_SF a = true -> BinarySingleNaN.is_finite_SF b = true ->
    fcmp a b = Some (Raux.Rcompare (BinarySingleNaN.SF2R Zaux.radix2 a) (BinarySingleNaN.SF2R Zaux.radix2 b)).
Proof. exact fcmp_by_value. Qed.
Print Assumptions C12_floats_by_real_value.
