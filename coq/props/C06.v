(* C06 — Query, First, Exists, Match and ExistsOrMatch tell one story.

   All five entry points of the model M are projections (spec/Proj.v) of the ONE
   trace spec/Sem.v assigns to (path, document, options): First = head of the
   items, Match = the sole boolean, Exists = the first event of the trace in lax
   mode / error-freedom and non-emptiness in strict mode, ExistsOrMatch
   dispatches on the predicate flag.  Proved for all inputs (proofs/Refine.v).
   The corollaries restate the property's clauses on the projections.

   Excluded class (known finding KF-C06-unary-exists): in lax mode a path whose
   last step is a unary + or - (Exists hands a non-numeric operand on as a
   result; inherited from PostgreSQL).  [C06_refuted_unary_exists] exhibits it. *)
From SJ Require Import lib.Base model.Json model.Ast model.ExecLib model.Leaf model.Exec
     spec.Sem spec.Proj proofs.RefineDefs proofs.Refine proofs.RefineClosed proofs.RefineWitness
     proofs.ProjProofs.

Theorem C06_first_is_the_trace :
  forall (L : ExecLib) (p : path) (doc : json) (o : opts),
    o_cancel_at o = None -> members_canon L -> p_root p <> [] ->
    no_kv (p_root p) = true -> exists_ok (p_root p) = true -> ne_ops (p_root p) = true ->
    forall fuel q, First L fuel p doc o = Ret q ->
    fres_sim q (p_first (o_silent o) (sem_of L quirks_code p doc o)).
Proof. exact first_is_trace. Qed.
Print Assumptions C06_first_is_the_trace.

Theorem C06_match_is_the_trace :
  forall (L : ExecLib) (p : path) (doc : json) (o : opts),
    o_cancel_at o = None -> members_canon L -> p_root p <> [] ->
    no_kv (p_root p) = true -> exists_ok (p_root p) = true -> ne_ops (p_root p) = true ->
    forall fuel q, Match L fuel p doc o = Ret q ->
    bres_sim q (p_match (o_silent o) (sem_of L quirks_code p doc o)).
Proof. exact match_is_trace. Qed.
Print Assumptions C06_match_is_the_trace.

Theorem C06_exists_is_the_trace :
  forall (L : ExecLib) (p : path) (doc : json) (o : opts),
    o_cancel_at o = None -> members_canon L -> p_root p <> [] ->
    no_kv (p_root p) = true -> exists_ok (p_root p) = true -> ne_ops (p_root p) = true ->
    forall fuel b, Exists L fuel p doc o = Ret b ->
    (p_lax p = true -> unary_tail_free (p_root p) = true) ->
    bres_sim b (p_exists (p_lax p) (o_silent o) (sem_of L quirks_code p doc o)).
Proof. exact exists_is_trace. Qed.
Print Assumptions C06_exists_is_the_trace.

Theorem C06_eom_is_the_trace :
  forall (L : ExecLib) (p : path) (doc : json) (o : opts),
    o_cancel_at o = None -> members_canon L -> p_root p <> [] ->
    no_kv (p_root p) = true -> exists_ok (p_root p) = true -> ne_ops (p_root p) = true ->
    forall fuel b, ExistsOrMatch L fuel p doc o = Ret b ->
    (p_pred p = false -> p_lax p = true -> unary_tail_free (p_root p) = true) ->
    bres_sim b (p_eom (p_lax p) (p_pred p) (o_silent o) (sem_of L quirks_code p doc o)).
Proof. exact eom_is_trace. Qed.
Print Assumptions C06_eom_is_the_trace.

(* the property's clauses, on the projections of any trace *)
Theorem C06_first_is_head_of_query :
  forall silent t, p_first silent t = first_of_query (p_query silent t).
Proof. exact p_first_of_query. Qed.
Print Assumptions C06_first_is_head_of_query.

Theorem C06_match_is_sole_boolean_of_query :
  forall silent t, p_match silent t = match_of_query silent (p_query silent t).
Proof. exact p_match_of_query. Qed.
Print Assumptions C06_match_is_sole_boolean_of_query.

Theorem C06_query_succeeds_exists_is_nonempty :
  forall laxm t l, p_query false t = QItems l ->
    p_exists laxm false t = BVal (negb (match l with [] => true | _ => false end)).
Proof. exact p_exists_of_successful_query. Qed.
Print Assumptions C06_query_succeeds_exists_is_nonempty.

Theorem C06_exists_true_means_an_item :
  forall laxm silent t, p_exists laxm silent t = BVal true -> fst t <> [].
Proof. exact p_exists_true_item. Qed.
Print Assumptions C06_exists_true_means_an_item.

Theorem C06_strict_exists_reports_query_error :
  forall silent t e, p_query silent t = QErr e -> p_exists false silent t = BErr e.
Proof. exact p_exists_strict_error. Qed.
Print Assumptions C06_strict_exists_reports_query_error.

Theorem C06_eom_dispatch :
  forall laxm pred silent t,
    p_eom laxm pred silent t = if pred then p_match silent t else p_exists laxm silent t.
Proof. exact p_eom_dispatch. Qed.
Print Assumptions C06_eom_dispatch.

Example C06_refuted_unary_exists :
  unary_tail_free (p_root p_um) = false /\
  no_kv (p_root p_um) = true /\ exists_ok (p_root p_um) = true /\ ne_ops (p_root p_um) = true /\
  Exists L0 10 p_um JNull (o0 false) = Ret (BVal true) /\
  p_exists true false (sem_of L0 quirks_code p_um JNull (o0 false)) =
    BErr (AErr (EVerbose "operand of unary jsonpath operator is not a numeric value")) /\
  Query L0 10 p_um JNull (o0 false) =
    Ret (QErr (AErr (EVerbose "operand of unary jsonpath operator is not a numeric value"))).
Proof. exact unary_tail_free_needed. Qed.
Print Assumptions C06_refuted_unary_exists.
