(* C04 — Parse is total and sound with respect to the syntax.

   "Parse terminates on every byte string and returns a path xor an error; it
   rejects what the syntax forbids; what it accepts is well formed (@ only under
   a filter, last only inside a subscript, every like_regex compiles, literals
   are in range); MustParse panics exactly when Parse fails; Scan / Unmarshal*
   report exactly Parse's failures, under ErrScan."

   Model M: model/Lexer.v (lex.go), model/Parser.v (reference parser for
   grammar.y, ast constructors, validateNode, parser.Parse incl. the recovered
   constructor panics), model/PathAPI.v (path.go).  M is tied to the Go code by
   tools/parsevec (38,888 inputs: accept/reject, trees, String(), wrappers all
   agree; the 36 residual differences are error MESSAGES only, Parser.v note (e)).
   [parse_total]/[lex_total] hold for EVERY oracle record L (no Laws): neither the
   lexer's nor the parser's fuel is ever exhausted.  [wf_path] (model/Parser.v) is
   the parser image: chain shapes, operand sorts, @/last placement
   (validate_chain = None), .decimal()/.datetime()/.time() argument shapes, int64
   literals, finite numerics, .** bounds, regex flag mask within {i,s,m,x,q} with x
   only beside q and regex_ok (= regexp/syntax.Parse succeeds) for every SRegex,
   p_pred = "the top level is a predicate".
   Repaired findings found through this property: 7fbd6d8 (private-use runes
   U+E002..U+E031 were taken for grammar tokens), 509e423 (constructor panics).
   Known finding kept: -9223372036854775808 is rejected (the magnitude is parsed
   first), see [C04_min_int64_unwritable]. *)
From SJ Require Import lib.Base lib.Utf8 lib.GoLib model.Json model.Ast model.Lexer model.Parser
  model.Printer model.PathAPI proofs.LexProofs proofs.ParseProofs proofs.ParseWf proofs.LexText
  proofs.RoundTrip proofs.ParserMain.
Local Open Scope string_scope.

Theorem C04_lex_total : forall (L : GoLib) (s : string), ~ has_fuel_err (lex L s).
Proof. exact lex_total. Qed.
Print Assumptions C04_lex_total.

Theorem C04_parse_total : forall (L : GoLib) (s : string),
  (exists p : path, parse L s = POk p) \/
  (exists k : err_kind, parse L s = PErr k /\ k <> EFuel /\ k <> ELex EOutOfFuel).
Proof. exact parse_total. Qed.
Print Assumptions C04_parse_total.

Theorem C04_parse_ok_wf : forall L : GoLib, Laws L ->
  forall (s : string) (p : path), parse L s = POk p -> wf_path L p.
Proof. exact parse_ok_wf. Qed.
Print Assumptions C04_parse_ok_wf.

Theorem C04_tokens_wf : forall L : GoLib, Laws L ->
  forall (ts : list token) (p : path),
    Forall ParseWf.tok_ok ts -> parse_tokens L ts = POk p -> wf_path L p.
Proof. exact parse_tokens_wf. Qed.
Print Assumptions C04_tokens_wf.

Theorem C04_lexer_texts : forall (L : GoLib) (s : string), Forall LexText.tok_ok (lex L s).
Proof. exact lex_tok_ok. Qed.
Print Assumptions C04_lexer_texts.

Theorem C04_at_and_last_placement : forall (L : GoLib) (s : string) (p : path),
  parse L s = POk p -> validate_chain (p_root p) 0 false = None.
Proof. exact parse_ok_validate. Qed.
Print Assumptions C04_at_and_last_placement.

Theorem C04_pred_flag : forall L : GoLib, Laws L ->
  forall (s : string) (p : path), parse L s = POk p -> p_pred p = is_pred_chain (p_root p).
Proof. exact parse_pred_flag. Qed.
Print Assumptions C04_pred_flag.

Theorem C04_must_parse_panics_iff : forall (L : GoLib) (s : string),
  (exists w, must_parse L s = Panic w) <-> (exists k, parse L s = PErr k).
Proof. exact must_parse_panics_iff. Qed.
Print Assumptions C04_must_parse_panics_iff.

Theorem C04_must_parse_ret_iff : forall (L : GoLib) (s : string) (p : path),
  must_parse L s = Ret p <-> parse L s = POk p.
Proof. exact must_parse_ret_iff. Qed.
Print Assumptions C04_must_parse_ret_iff.

Theorem C04_parse_api_err : forall (L : GoLib) (s : string) (e : api_err),
  parse_api L s = inr e <-> exists k, parse L s = PErr k /\ e = ApiPathParse k.
Proof. exact parse_api_err. Qed.
Print Assumptions C04_parse_api_err.

Theorem C04_scan_err_class : forall (L : GoLib) (cur : option path) (src : scan_src) (e : api_err),
  scan L cur src = inr e ->
  is_err_scan e = true /\ is_err_path e = false /\
  (forall k, wraps_parse e = Some k ->
     exists s, (src = SrcString s \/ src = SrcBytes s) /\ parse L s = PErr k).
Proof. exact scan_err_class. Qed.
Print Assumptions C04_scan_err_class.

Theorem C04_scan_nonempty : forall (L : GoLib) (cur : option path) (s : string),
  s <> EmptyString ->
  scan L cur (SrcString s) =
    match parse L s with POk p => inl (Some p) | PErr k => inr (ApiScanParse k) end.
Proof. exact scan_nonempty. Qed.
Print Assumptions C04_scan_nonempty.

Theorem C04_unmarshal_mirror : forall (L : GoLib) (data : string),
  unmarshal_text L data = unmarshal_binary L data /\
  unmarshal_binary L data =
    match parse L data with POk p => inl p | PErr k => inr (ApiScanParse k) end.
Proof. exact unmarshal_mirror. Qed.
Print Assumptions C04_unmarshal_mirror.

(* rejections of what the syntax forbids, on the concrete library CL *)
Example C04_at_outside_filter : parse CL "@.a" = PErr ECurrentRoot.
Proof. vm_compute. reflexivity. Qed.
Print Assumptions C04_at_outside_filter.
Example C04_last_outside_subscript : parse CL "$.a ? (last == 1)" = PErr ELastSubscript.
Proof. vm_compute. reflexivity. Qed.
Print Assumptions C04_last_outside_subscript.
Example C04_x_flag_rejected : parse CL "$ ? (@ like_regex ""a"" flag ""x"")" = PErr ERegexX.
Proof. vm_compute. reflexivity. Qed.
Print Assumptions C04_x_flag_rejected.
Example C04_private_use_rune_rejected :
  parse CL (string_of_runes [36; 91; 49; 32; 57346; 32; 50; 93]) = PErr (ELex EInvalidChar).
Proof. vm_compute. reflexivity. Qed.
Print Assumptions C04_private_use_rune_rejected.
Example C04_int_range : parse CL "9223372036854775808" = PErr EIntParse.
Proof. vm_compute. reflexivity. Qed.
Print Assumptions C04_int_range.
Example C04_min_int64_unwritable : parse CL "-9223372036854775808" = PErr EIntParse.
Proof. vm_compute. reflexivity. Qed.
Print Assumptions C04_min_int64_unwritable.
Example C04_any_level_forms :
  parse CL "$.**{0x10 to 1_0}" = POk (mkpath true false [SConst CRoot; SAny 16 10]).
Proof. vm_compute. reflexivity. Qed.
Print Assumptions C04_any_level_forms.
