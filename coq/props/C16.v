(* C16 — Item methods convert within their documented domains and ranges.

   ".type() names the JSON or datetime type of any item and .size() the array length (1 for
   a non-array in lax mode); .double(), .number(), .decimal(p,s), .integer(), .bigint(),
   .boolean(), .string(), .abs(), .floor() and .ceiling() accept their documented input
   types, reject the others with a suppressible error, return the correctly rounded value,
   and return an error rather than a value outside int32 (.integer()), int64 (.bigint()),
   the declared precision and scale (.decimal()) or the finite doubles.  .string() output
   converts back to an equal value with the matching method, and .keyvalue() yields one
   {key, value, id} object per member, ids equal within an object, distinct across objects
   and stable over repeated executions."

   What the statements are about.  Every item method except .keyvalue() is ONE leaf function
   of model/Leaf.v (leaf_type, leaf_size, leaf_double, leaf_number, leaf_integer, leaf_bigint,
   leaf_boolean, leaf_string, leaf_numeric, leaf_datetime: json -> LItem item | LErr error),
   a transliteration of the Go functions execMethodXxx / executeNumberMethod /
   executeDecimalMethod / executeNumericItemMethod.  The SAME leaf function is used by the
   executor model M and by the specification S, so a theorem about leaf_xxx is a theorem
   about both: [C16_methods_are_leaf_functions] is the table method -> leaf function;
   [C16_spec_method_step], [C16_spec_decimal_step], [C16_spec_datetime_step] say that a method
   step of S applies the leaf function to the item (to each element when an array is
   unwrapped in lax mode) and hands the result to the rest of the path k;
   [C16_model_method_step] says the same of M (Exec.execLeaf), [C16_model_suppressible] that
   an error e with is_verbose e = true (class ErrVerbose) is reported only when the executor
   is verbose, i.e. dropped under WithSilent - this is what "suppressible" means; and
   [C16_query_method], [C16_query_decimal] compute M's Query of $.m() and $.decimal(p,s) from
   the leaf function, for every library, document, option set and mode.  For longer paths the
   transfer is proofs/RefineClosed.v [query_is_trace] (props/C01.v): M's Query returns the
   projection p_query of S's trace, S taken with [quirks_code], side condition no_kv.
   The sections below then state, per method: the accepted input kinds ([_rejects]: every
   other kind gives the ErrVerbose error quoted), the class of all its errors
   ([_errors_suppressible]), the shape and range of every result ([_range], [_result]), and
   the table of what is computed on each accepted representation (int64 NInt, float64 NFlt,
   json.Number NJs, string JStr) in terms of the library oracles of ExecLib (xl_parse_float =
   strconv.ParseFloat, xl_parse_int = ParseInt, xl_round = math.Round, xl_to_int64 = int64(f),
   xl_of_Z = float64(i), xl_trunc, xl_floor, xl_ceil, xl_pow10, xl_format_int/_float =
   FormatInt / FormatFloat(f,'f',-1,64); js_int64 / js_float64 = json.Number.Int64 / Float64).
   Vocabulary of spec/Sem.v: [unwrap_over u v one] = one applied to each element of v when v is
   an array and u (unwrap) is set, else one v; [leaf_k lf k x] = k y when lf x = LItem y, the
   failing trace tfail e when lf x = LErr e (both unfolded in [C16_spec_method_step]);
   SemBasics.keyvalue_one is unfolded in [C16_spec_keyvalue_step].
   Vocabulary from proofs/MethodProofs.v: [count_digits_before_dot s] = number of characters
   0..9 of s before the first '.', [no_zero_digit_before_dot s] = no character 0 there,
   [MethodProofs.assoc] = lookup in an association list; Leaf.count_nonzero_before_dot counts
   the characters 1..9 (what the Go code counts); str_lower (fold_special s) is Go's
   strings.EqualFold folding against an ASCII word (ASCII upper case to lower case, U+017F to
   s, U+212A to k).

   Hypotheses, all satisfiable:
     NumLaws L   (proofs/LeafLaws.v) eight laws of the numeric oracles; used only by
                 [C16_bigint_range] (ParseInt(s,10,64) and int64(f) return an int64) and by
                 the .string() round trips (ParseInt o FormatInt = id on int32 / int64,
                 ParseFloat o FormatFloat = id on finite float64).  A library satisfying all
                 eight exists ([C16_numlaws_satisfiable]); the extracted instance satisfies
                 seven outright ([C16_numlaws_of_the_instance]) and the eighth (Go's shortest
                 float formatting round-trips) under the explicit hypothesis StrconvTrusted,
                 which is validated against Go by test vectors, not proved.
     in_int64 z for an input item NInt z ([C16_bigint_range]): an int64 item of the document
                 is an int64 - the model's Z is wider than the Go type.
     1 <= p <= 1000, -1000 <= scale <= 1000 ([C16_decimal_valid_args] ...): the arguments
                 .decimal() accepts; outside them the four validation errors are theorems.
     o_cancel_at o = None, 2 <= fuel ([C16_query_...]): no cancellation; enough fuel for two steps.
   Witnesses use lib0 (LeafLaws: the concrete library of extract/Instance.v, UTC) and L0, o0
   (RefineWitness: an inert library, the default options with o_next_tag = 100).

   Excluded classes (known findings), each with its witness:
     KF-C16-decimal-zero-digits (open): .decimal(p,s) counts only the digits 1..9, so the
       declared precision holds for the NONZERO digits ([C16_decimal_nonzero_digit_count]) and
       for all digits only when the integral part has no zero digit
       ([C16_decimal_digits_when_no_zero_digit]); [C16_refuted_decimal_zero_digits]:
       .decimal(2,0) of 100 returns 100 (three digits).
     KF-C16-decimal-nan (open): [C16_refuted_decimal_nan]: .decimal(1000,1000) of 1.5 returns
       NaN - so "never outside the finite doubles" is a theorem for .double(), .number() and
       .decimal() without arguments ([C16_double_result], [C16_number_result],
       [C16_decimal_without_arguments_is_number]) and NOT for .decimal(p,s).
     KF-C13-int64-wrap (open, recorded under C13): .abs() of MinInt64 is MinInt64
       ([C16_refuted_abs_of_min_int64]); [C16_abs_of_int64] excludes that one input.
     KF-C05-float-overflow-inf (open): concerns arithmetic, not a method; but .abs(), .floor()
       and .ceiling() apply their callback to a float item without a finiteness check
       ([C16_numeric_conversion_table]), so an infinite or NaN item produced by that class is
       not rejected by them; no finiteness claim is made for these three methods below.
     KF-C16-keyvalue-generated-ids (open): ids of objects that .keyvalue() itself generated
       depend on fresh heap addresses; on the model the address of the first generated object
       is the option o_next_tag, and [C16_refuted_keyvalue_generated_ids] shows two runs of
       $.keyvalue().value.keyvalue().id that differ only in it and return different ids.
     KF-C14-null-subscript, KF-C11-isunknown-hard-error, KF-C06-unary-exists (open, listed for
       every property that goes through Query): not about methods; they are part of
       [quirks_code] resp. the side condition exists_ok of the transfer theorem (props/C01.v).
     Repaired: b5726e7 (.bigint() of the double 2^63 returned MinInt64 -
       [C16_bigint_float_guard], [C16_bigint_two63_example]) and 94a7325 (.double() of an
       unparsable string raised ErrExecution - last clause of [C16_double_table] and
       [C16_double_errors_suppressible]); the model is of the repaired code.

   .keyvalue().  S leaves the ids abstract (one marker value Sem.kv_abstract_id,
   [C16_spec_keyvalue_step]) and the transfer theorem excludes .keyvalue() (no_kv), so the
   statements are about M: when .keyvalue() is the last step, one call of
   Exec.executeKeyValueMethod on an object appends exactly one {id, key, value} object per key
   of the sorted key list, in that order, all carrying the SAME id = |address of the object -
   base address| + base id * 10^10 ([C16_keyvalue_loop], [C16_keyvalue_on_object]); the sorted
   key list is a permutation of the member keys and ascending in byte order
   ([C16_keyvalue_keys_permutation], [C16_keyvalue_keys_sorted]; Sem.sort_keys of S is the same
   function, [C16_keyvalue_keys_same_in_spec]) - hence one triple per member;
   [C16_query_keyvalue] is Query of $.keyvalue(); non-objects are rejected with a suppressible
   error ([C16_keyvalue_rejects]).

   Not covered: "the correctly rounded value" - the tables reduce each method to the library
   oracles (math.Round, ParseFloat, int64(f) ...) and do not say that those are correctly
   rounded (that is the subject of lib/F64.v, lib/Strconv.v and the vectors against Go; only
   the integral-input cases of floor / ceiling are stated for the concrete f64_floor /
   f64_ceil); the declared SCALE of .decimal() (only the precision side, via the digit count,
   is stated; the rounding to s fractional digits is the formula [C16_decimal_valid_args]
   without a theorem about its decimal expansion); .keyvalue() when it is NOT the last step
   (each triple is then handed to the rest of the path one at a time; the id is the same
   constant of the loop, but no theorem here follows it through the continuation), ids
   "distinct across objects" (shown on [C16_keyvalue_two_objects_example] only: the id is an
   absolute address difference, so two objects at equal distance on either side of the base
   would collide) and "stable over repeated executions" (M is a function of its inputs, which
   include the addresses; stability for document objects and its failure for generated ones
   are otherwise checked on the implementation only); the datetime methods beyond input kind
   and result kind (props/C17.v, C18.v). *)
From Coq Require Import Floats.SpecFloat Sorting.Permutation Sorting.Sorted.
From SJ Require Import lib.Base lib.F64 lib.Strconv model.Json model.Ast model.ExecLib model.Leaf model.Exec
     extract.Instance spec.Sem proofs.SemBasics proofs.LeafLaws proofs.RefineWitness
     proofs.MethodProofs proofs.PropGlue_MT.

(* ---- methods are leaf functions, in S and in M ---- *)

Theorem C16_methods_are_leaf_functions :
  forall (L : ExecLib) (lx ig : bool),
    method_leaf L lx ig MType = Some (false, leaf_type) /\
    method_leaf L lx ig MSize = Some (false, leaf_size lx ig) /\
    method_leaf L lx ig MDouble = Some (true, leaf_double L) /\
    method_leaf L lx ig MNumber = Some (true, leaf_number L None) /\
    method_leaf L lx ig MInteger = Some (true, leaf_integer L) /\
    method_leaf L lx ig MBigInt = Some (true, leaf_bigint L) /\
    method_leaf L lx ig MBoolean = Some (true, leaf_boolean L) /\
    method_leaf L lx ig MString = Some (true, leaf_string L) /\
    method_leaf L lx ig MAbs = Some (true, leaf_numeric L intAbs fabs) /\
    method_leaf L lx ig MFloor = Some (true, leaf_numeric L (fun x => x) (xl_floor L)) /\
    method_leaf L lx ig MCeiling = Some (true, leaf_numeric L (fun x => x) (xl_ceil L)) /\
    method_leaf L lx ig MKeyValue = None.
Proof. exact method_leaf_table. Qed.
Print Assumptions C16_methods_are_leaf_functions.

(* S: a method step applies the leaf function (to each element of an array it unwraps) *)
Theorem C16_spec_method_step :
  forall (L : ExecLib) (C : cenv) (Q : quirks) (m : meth) (k : Z -> bool -> json -> trace)
         (cur : json) (l : Z) (ig u : bool) (v : json),
    sem_step L C Q (SMeth m) k cur l ig u v =
    match method_leaf L (c_lax C) ig m with
    | Some (unwraps, lf) =>
        if unwraps
        then match v with
             | JArr _ es => if u then tbind_list es (fun x => match lf x with LItem y => k l ig y | LErr e => tfail e end)
                            else match lf v with LItem y => k l ig y | LErr e => tfail e end
             | _ => match lf v with LItem y => k l ig y | LErr e => tfail e end
             end
        else match lf v with LItem y => k l ig y | LErr e => tfail e end
    | None => unwrap_over u v (keyvalue_one (k l ig))
    end.
Proof. exact sem_step_meth. Qed.
Print Assumptions C16_spec_method_step.

Theorem C16_spec_decimal_step :
  forall (L : ExecLib) (C : cenv) (Q : quirks) (p sc : option Z) (k : Z -> bool -> json -> trace)
         (cur : json) (l : Z) (ig u : bool) (v : json),
    sem_step L C Q (SDecimal p sc) k cur l ig u v =
    unwrap_over u v (leaf_k (leaf_number L (Some (p, sc))) (k l ig)).
Proof. exact sem_step_decimal. Qed.
Print Assumptions C16_spec_decimal_step.

Theorem C16_spec_datetime_step :
  forall (L : ExecLib) (C : cenv) (Q : quirks) (op : dtop) (tmpl : option string) (prec : option Z)
         (k : Z -> bool -> json -> trace) (cur : json) (l : Z) (ig u : bool) (v : json),
    sem_step L C Q (SDt op tmpl prec) k cur l ig u v =
    unwrap_over u v (leaf_k (leaf_datetime L (c_useTZ C) op tmpl prec) (k l ig)).
Proof. exact sem_step_dt. Qed.
Print Assumptions C16_spec_datetime_step.

(* M: the same, on an item that is not unwrapped *)
Theorem C16_model_method_step :
  forall (E : env) (self : req -> st -> outcome (ans * st)) (unwraps : bool) (lf : json -> leaf)
         (n next : chain) (v : json) (found : found_t) (unwrap : bool),
    unwraps && unwrap && is_array v = false ->
    execLeaf E self unwraps lf n next v found unwrap =
    match lf v with
    | LItem x => executeNextItem E self next x found
    | LErr e => returnError e found
    end.
Proof. exact execLeaf_item. Qed.
Print Assumptions C16_model_method_step.

(* "suppressible" *)
Theorem C16_model_suppressible :
  forall (e : err) (found : found_t) (s : st),
    is_verbose e = true ->
    returnError e found s = Ret (mkr SFailed (if verbose s then Some e else None) found, s).
Proof. exact returnError_suppressible. Qed.
Print Assumptions C16_model_suppressible.

(* M's Query of $.m() *)
Theorem C16_query_method :
  forall (L : ExecLib) (lx pr : bool) (m : meth) (doc : json) (o : opts) (fuel : nat)
         (unwraps : bool) (lf : json -> leaf),
    o_cancel_at o = None -> (2 <= fuel)%nat ->
    method_leaf L lx lx m = Some (unwraps, lf) -> unwraps && lx && is_array doc = false ->
    Query L fuel (mkpath lx pr [SConst CRoot; SMeth m]) doc o =
    Ret (match lf doc with
         | LItem x => QItems [x]
         | LErr e => if negb (o_silent o) || negb (is_verbose e) then QErr (AErr e) else QItems []
         end).
Proof. exact query_method. Qed.
Print Assumptions C16_query_method.

(* M's Query of $.decimal(p,s) *)
Theorem C16_query_decimal :
  forall (L : ExecLib) (lx pr : bool) (dp ds : option Z) (doc : json) (o : opts) (fuel : nat),
    o_cancel_at o = None -> (2 <= fuel)%nat -> lx && is_array doc = false ->
    Query L fuel (mkpath lx pr [SConst CRoot; SDecimal dp ds]) doc o =
    Ret (match leaf_number L (Some (dp, ds)) doc with
         | LItem x => QItems [x]
         | LErr e => if negb (o_silent o) || negb (is_verbose e) then QErr (AErr e) else QItems []
         end).
Proof. exact query_decimal. Qed.
Print Assumptions C16_query_decimal.

(* ---- .type() ---- *)

Theorem C16_type_of_any_item : forall v : json, leaf_type v = LItem (JStr (type_name v)).
Proof. exact C16_type_total. Qed.
Print Assumptions C16_type_of_any_item.

Theorem C16_type_name_table :
  (type_name JNull = "null" /\
   (forall b, type_name (JBool b) = "boolean") /\
   (forall n, type_name (JNum n) = "number") /\
   (forall s, type_name (JStr s) = "string") /\
   (forall t l, type_name (JArr t l) = "array") /\
   (forall t l, type_name (JObj t l) = "object") /\
   (forall s n o, type_name (JDt (mkdt KDate s n o)) = "date") /\
   (forall s n o, type_name (JDt (mkdt KTime s n o)) = "time without time zone") /\
   (forall s n o, type_name (JDt (mkdt KTimeTZ s n o)) = "time with time zone") /\
   (forall s n o, type_name (JDt (mkdt KTimestamp s n o)) = "timestamp without time zone") /\
   (forall s n o, type_name (JDt (mkdt KTimestampTZ s n o)) = "timestamp with time zone"))%string.
Proof. exact C16_type_names. Qed.
Print Assumptions C16_type_name_table.

(* ---- .size() ---- *)

Theorem C16_size_of_array :
  forall (lx ig : bool) (t : Z) (es : list json),
    leaf_size lx ig (JArr t es) = LItem (JNum (NInt (Z.of_nat (List.length es)))).
Proof. exact C16_size_array. Qed.
Print Assumptions C16_size_of_array.

(* ig: structural errors are ignored (below a lax-mode recursive descent) *)
Theorem C16_size_of_non_array :
  forall (lx ig : bool) (v : json),
    is_array v = false ->
    leaf_size lx ig v =
    if negb lx && negb ig then LErr (EVerbose ".size() can only be applied to an array")
    else LItem (JNum (NInt 1)).
Proof. exact C16_size_non_array. Qed.
Print Assumptions C16_size_of_non_array.

Theorem C16_size_of_non_array_lax :
  forall (ig : bool) (v : json), is_array v = false -> leaf_size true ig v = LItem (JNum (NInt 1)).
Proof. exact C16_size_lax_non_array. Qed.
Print Assumptions C16_size_of_non_array_lax.

Theorem C16_size_of_non_array_strict :
  forall v : json,
    is_array v = false -> leaf_size false false v = LErr (EVerbose ".size() can only be applied to an array").
Proof. exact C16_size_strict_non_array. Qed.
Print Assumptions C16_size_of_non_array_strict.

(* ---- .double() ---- *)

Theorem C16_double_rejects_others :
  forall (L : ExecLib) (v : json),
    match v with JNum _ | JStr _ => true | _ => false end = false ->
    leaf_double L v = LErr (EVerbose ".double() can only be applied to a string or numeric value").
Proof. exact C16_double_rejects. Qed.
Print Assumptions C16_double_rejects_others.

Theorem C16_double_errors_suppressible :
  forall (L : ExecLib) (v : json) (e : err), leaf_double L v = LErr e -> is_verbose e = true.
Proof. exact C16_double_errors_verbose. Qed.
Print Assumptions C16_double_errors_suppressible.

(* never a value outside the finite doubles; only numbers and strings are accepted *)
Theorem C16_double_result_is_finite :
  forall (L : ExecLib) (v r : json),
    leaf_double L v = LItem r ->
    match v with JNum _ | JStr _ => true | _ => false end = true /\
    exists d : f64, r = JNum (NFlt d) /\ f_is_inf d || f_is_nan d = false.
Proof. exact C16_double_result. Qed.
Print Assumptions C16_double_result_is_finite.

(* float64(int64), the float64 itself, ParseFloat of the text; then the NaN/Inf check *)
Theorem C16_double_conversion_table :
  forall L : ExecLib,
    (forall z : Z, leaf_double L (JNum (NInt z)) =
       if nan_or_inf (xl_of_Z L z) then LErr (EVerbose "NaN or Infinity is not allowed for .double()")
       else LItem (JNum (NFlt (xl_of_Z L z)))) /\
    (forall f : f64, leaf_double L (JNum (NFlt f)) =
       if nan_or_inf f then LErr (EVerbose "NaN or Infinity is not allowed for .double()")
       else LItem (JNum (NFlt f))) /\
    (forall (t : string) (f : f64),
       xl_parse_float L t = Some (f, false) ->
       leaf_double L (JNum (NJs t)) =
         (if nan_or_inf f then LErr (EVerbose "NaN or Infinity is not allowed for .double()")
          else LItem (JNum (NFlt f))) /\
       leaf_double L (JStr t) =
         (if nan_or_inf f then LErr (EVerbose "NaN or Infinity is not allowed for .double()")
          else LItem (JNum (NFlt f)))) /\
    (forall t : string,
       (forall f : f64, xl_parse_float L t <> Some (f, false)) ->
       leaf_double L (JStr t) = LErr (EVerbose ".double(): invalid for type double precision")).
Proof. exact C16_double_table. Qed.
Print Assumptions C16_double_conversion_table.

(* ---- .number(), and .decimal() without arguments ---- *)

Theorem C16_number_rejects_others :
  forall (L : ExecLib) (dec : option (option Z * option Z)) (v : json),
    match v with JNum _ | JStr _ => true | _ => false end = false ->
    leaf_number L dec v = LErr (EVerbose ".number() can only be applied to a string or numeric value").
Proof. exact C16_number_rejects. Qed.
Print Assumptions C16_number_rejects_others.

Theorem C16_number_errors_suppressible :
  forall (L : ExecLib) (v : json) (e : err), leaf_number L None v = LErr e -> is_verbose e = true.
Proof. exact C16_number_errors_verbose. Qed.
Print Assumptions C16_number_errors_suppressible.

Theorem C16_number_result_is_finite :
  forall (L : ExecLib) (v r : json),
    leaf_number L None v = LItem r ->
    match v with JNum _ | JStr _ => true | _ => false end = true /\
    exists d : f64, r = JNum (NFlt d) /\ f_is_inf d || f_is_nan d = false.
Proof. exact C16_number_result. Qed.
Print Assumptions C16_number_result_is_finite.

Theorem C16_decimal_without_arguments_is_number :
  forall (L : ExecLib) (v : json), leaf_number L (Some (None, None)) v = leaf_number L None v.
Proof. exact C16_decimal_noargs. Qed.
Print Assumptions C16_decimal_without_arguments_is_number.

(* ---- .integer() ---- *)

Theorem C16_integer_rejects_others :
  forall (L : ExecLib) (v : json),
    match v with JNum _ | JStr _ => true | _ => false end = false ->
    leaf_integer L v = LErr (EVerbose ".integer() can only be applied to a string or numeric value").
Proof. exact C16_integer_rejects. Qed.
Print Assumptions C16_integer_rejects_others.

Theorem C16_integer_errors_suppressible :
  forall (L : ExecLib) (v : json) (e : err), leaf_integer L v = LErr e -> is_verbose e = true.
Proof. exact C16_integer_errors_verbose. Qed.
Print Assumptions C16_integer_errors_suppressible.

(* never a value outside int32 *)
Theorem C16_integer_result_in_int32 :
  forall (L : ExecLib) (v r : json),
    leaf_integer L v = LItem r ->
    match v with JNum _ | JStr _ => true | _ => false end = true /\
    exists z : Z, r = JNum (NInt z) /\ in_int32 z = true.
Proof. exact MethodProofs.C16_integer_range. Qed.
Print Assumptions C16_integer_result_in_int32.

(* an integer is kept; a float is rounded by math.Round and converted; a string is read by
   ParseInt(s, 10, 32); then the int32 check *)
Theorem C16_integer_conversion_table :
  forall L : ExecLib,
    (forall z : Z, leaf_integer L (JNum (NInt z)) =
       if in_int32 z then LItem (JNum (NInt z)) else LErr (EVerbose ".integer(): invalid for type integer")) /\
    (forall f : f64, leaf_integer L (JNum (NFlt f)) =
       if in_int32 (xl_to_int64 L (xl_round L f)) then LItem (JNum (NInt (xl_to_int64 L (xl_round L f))))
       else LErr (EVerbose ".integer(): invalid for type integer")) /\
    (forall (t : string) (z : Z),
       js_int64 L t = Some z ->
       leaf_integer L (JNum (NJs t)) =
       if in_int32 z then LItem (JNum (NInt z)) else LErr (EVerbose ".integer(): invalid for type integer")) /\
    (forall (t : string) (f : f64),
       js_int64 L t = None -> js_float64 L t = Some (f, false) ->
       leaf_integer L (JNum (NJs t)) =
       if in_int32 (xl_to_int64 L (xl_round L f)) then LItem (JNum (NInt (xl_to_int64 L (xl_round L f))))
       else LErr (EVerbose ".integer(): invalid for type integer")) /\
    (forall (t : string) (z : Z),
       xl_parse_int L 10 32 t = Some z ->
       leaf_integer L (JStr t) =
       if in_int32 z then LItem (JNum (NInt z)) else LErr (EVerbose ".integer(): invalid for type integer")).
Proof. exact C16_integer_table. Qed.
Print Assumptions C16_integer_conversion_table.

(* ---- .bigint() ---- *)

Theorem C16_bigint_rejects_others :
  forall (L : ExecLib) (v : json),
    match v with JNum _ | JStr _ => true | _ => false end = false ->
    leaf_bigint L v = LErr (EVerbose ".bigint() can only be applied to a string or numeric value").
Proof. exact C16_bigint_rejects. Qed.
Print Assumptions C16_bigint_rejects_others.

Theorem C16_bigint_errors_suppressible :
  forall (L : ExecLib) (v : json) (e : err), leaf_bigint L v = LErr e -> is_verbose e = true.
Proof. exact C16_bigint_errors_verbose. Qed.
Print Assumptions C16_bigint_errors_suppressible.

(* never a value outside int64 *)
Theorem C16_bigint_result_in_int64 :
  forall (L : ExecLib) (v r : json),
    NumLaws L ->
    (forall z : Z, v = JNum (NInt z) -> in_int64 z = true) ->
    leaf_bigint L v = LItem r ->
    match v with JNum _ | JStr _ => true | _ => false end = true /\
    exists z : Z, r = JNum (NInt z) /\ in_int64 z = true.
Proof. exact MethodProofs.C16_bigint_range. Qed.
Print Assumptions C16_bigint_result_in_int64.

(* a float >= 2^63 or < -2^63, an infinity or a NaN is rejected before the conversion *)
Theorem C16_bigint_float_guard :
  forall (L : ExecLib) (f : f64),
    f_geb f two63f || f_ltb f mtwo63f || f_is_inf f || f_is_nan f = true ->
    leaf_bigint L (JNum (NFlt f)) = LErr (EVerbose ".bigint(): invalid for type bigint").
Proof. exact MethodProofs.C16_bigint_float_guard. Qed.
Print Assumptions C16_bigint_float_guard.

Theorem C16_bigint_conversion_table :
  forall L : ExecLib,
    (forall z : Z, leaf_bigint L (JNum (NInt z)) = LItem (JNum (NInt z))) /\
    (forall f : f64,
       bigint_out_of_range f = false ->
       leaf_bigint L (JNum (NFlt f)) = LItem (JNum (NInt (xl_to_int64 L (xl_round L f))))) /\
    (forall (t : string) (z : Z), js_int64 L t = Some z -> leaf_bigint L (JNum (NJs t)) = LItem (JNum (NInt z))) /\
    (forall (t : string) (z : Z), xl_parse_int L 10 64 t = Some z -> leaf_bigint L (JStr t) = LItem (JNum (NInt z))).
Proof. exact C16_bigint_table. Qed.
Print Assumptions C16_bigint_conversion_table.

(* repaired finding b5726e7 on the concrete library: the double 2^63 is rejected, -2^63 is MinInt64 *)
Example C16_bigint_two63_example :
  bigint_out_of_range two63f = true /\ bigint_out_of_range mtwo63f = false /\
  leaf_bigint lib0 (JNum (NFlt two63f)) = LErr (EVerbose ".bigint(): invalid for type bigint") /\
  leaf_bigint lib0 (JNum (NFlt mtwo63f)) = LItem (JNum (NInt min_int64)).
Proof. exact bigint_two63_rejected. Qed.
Print Assumptions C16_bigint_two63_example.

(* ---- .boolean() ---- *)

Theorem C16_boolean_rejects_others :
  forall (L : ExecLib) (v : json),
    match v with JBool _ | JNum _ | JStr _ => true | _ => false end = false ->
    leaf_boolean L v = LErr (EVerbose ".boolean() can only be applied to a boolean, string, or numeric value").
Proof. exact C16_boolean_rejects. Qed.
Print Assumptions C16_boolean_rejects_others.

Theorem C16_boolean_errors_suppressible :
  forall (L : ExecLib) (v : json) (e : err), leaf_boolean L v = LErr e -> is_verbose e = true.
Proof. exact C16_boolean_errors_verbose. Qed.
Print Assumptions C16_boolean_errors_suppressible.

Theorem C16_boolean_result_is_boolean :
  forall (L : ExecLib) (v r : json),
    leaf_boolean L v = LItem r ->
    match v with JBool _ | JNum _ | JStr _ => true | _ => false end = true /\ exists b : bool, r = JBool b.
Proof. exact C16_boolean_result. Qed.
Print Assumptions C16_boolean_result_is_boolean.

(* a boolean is kept; an integer is true iff nonzero; a float must be integral (f == Trunc(f)),
   then true iff nonzero; a string goes through execBooleanString *)
Theorem C16_boolean_conversion_table :
  forall L : ExecLib,
    (forall b : bool, leaf_boolean L (JBool b) = LItem (JBool b)) /\
    (forall z : Z, leaf_boolean L (JNum (NInt z)) = LItem (JBool (negb (z =? 0)))) /\
    (forall f : f64, leaf_boolean L (JNum (NFlt f)) =
       if negb (f_eqb f (xl_trunc L f)) then LErr (EVerbose ".boolean(): invalid for type boolean")
       else LItem (JBool (negb (f_eqb f (S754_zero false))))) /\
    (forall (t : string) (f : f64),
       js_float64 L t = Some (f, false) ->
       leaf_boolean L (JNum (NJs t)) =
       if negb (f_eqb f (xl_trunc L f)) then LErr (EVerbose ".boolean(): invalid for type boolean")
       else LItem (JBool (negb (f_eqb f (S754_zero false))))) /\
    (forall t : string,
       leaf_boolean L (JStr t) =
       match execBooleanString t with
       | Some b => LItem (JBool b)
       | None => LErr (EVerbose ".boolean(): invalid for type boolean")
       end).
Proof. exact C16_boolean_table. Qed.
Print Assumptions C16_boolean_conversion_table.

(* the exact set of accepted strings, for ALL strings: the twelve words up to Go's case folding *)
Theorem C16_boolean_strings :
  forall s : string,
    execBooleanString s =
    MethodProofs.assoc (str_lower (fold_special s))
      [("t", true); ("true", true); ("y", true); ("yes", true); ("on", true); ("1", true);
       ("f", false); ("false", false); ("n", false); ("no", false); ("off", false); ("0", false)]%string.
Proof. exact execBooleanString_spec. Qed.
Print Assumptions C16_boolean_strings.

Theorem C16_boolean_string_accepted_iff :
  forall (s : string) (b : bool),
    execBooleanString s = Some b <->
    In (str_lower (fold_special s), b)
      [("t", true); ("true", true); ("y", true); ("yes", true); ("on", true); ("1", true);
       ("f", false); ("false", false); ("n", false); ("no", false); ("off", false); ("0", false)]%string.
Proof. exact C16_boolean_string_accepts. Qed.
Print Assumptions C16_boolean_string_accepted_iff.

Example C16_boolean_string_examples :
  execBooleanString "TRUE" = Some true /\ execBooleanString "t" = Some true /\
  execBooleanString "Yes" = Some true /\ execBooleanString "oN" = Some true /\ execBooleanString "1" = Some true /\
  execBooleanString "False" = Some false /\ execBooleanString "N" = Some false /\
  execBooleanString "OFF" = Some false /\ execBooleanString "0" = Some false /\
  execBooleanString "tr" = None /\ execBooleanString "o" = None /\ execBooleanString "2" = None /\
  execBooleanString "" = None /\ execBooleanString " true" = None /\ execBooleanString "10" = None.
Proof. exact C16_boolean_examples. Qed.
Print Assumptions C16_boolean_string_examples.

(* observation: like strings.EqualFold, "fal" ++ U+017F (bytes 197 191) ++ "e" is accepted *)
Example C16_boolean_long_s_example :
  execBooleanString (String "f" (String "a" (String "l" (String (ascii_of_Z 197) (String (ascii_of_Z 191) "e"))))) =
  Some false.
Proof. exact C16_boolean_long_s. Qed.
Print Assumptions C16_boolean_long_s_example.

(* ---- .decimal(p, s): Leaf.executeDecimalMethod L precision scale num, num the float64 of the item ---- *)

Theorem C16_decimal_precision_outside_int32 :
  forall (L : ExecLib) (p : Z) (s : option Z) (num : f64),
    in_int32 p = false ->
    executeDecimalMethod L (Some p) s num = inr (EVerbose "precision is out of integer range").
Proof. exact C16_decimal_precision_int32. Qed.
Print Assumptions C16_decimal_precision_outside_int32.

Theorem C16_decimal_precision_outside_1_1000 :
  forall (L : ExecLib) (p : Z) (s : option Z) (num : f64),
    in_int32 p = true -> p < 1 \/ p > 1000 ->
    executeDecimalMethod L (Some p) s num = inr (EExec "NUMERIC precision must be between 1 and 1000").
Proof. exact C16_decimal_precision_range. Qed.
Print Assumptions C16_decimal_precision_outside_1_1000.

Theorem C16_decimal_scale_outside_int32 :
  forall (L : ExecLib) (p sz : Z) (num : f64),
    1 <= p <= 1000 -> in_int32 sz = false ->
    executeDecimalMethod L (Some p) (Some sz) num = inr (EVerbose "scale is out of integer range").
Proof. exact C16_decimal_scale_int32. Qed.
Print Assumptions C16_decimal_scale_outside_int32.

Theorem C16_decimal_scale_outside_1000 :
  forall (L : ExecLib) (p sz : Z) (num : f64),
    1 <= p <= 1000 -> in_int32 sz = true -> sz < -1000 \/ sz > 1000 ->
    executeDecimalMethod L (Some p) (Some sz) num = inr (EExec "NUMERIC scale out of range").
Proof. exact C16_decimal_scale_range. Qed.
Print Assumptions C16_decimal_scale_outside_1000.

(* valid arguments: Round(num * 10^scale) / 10^scale, then the count of the digits 1..9 before the point *)
Theorem C16_decimal_valid_args :
  forall (L : ExecLib) (p : Z) (s : option Z) (num : f64),
    1 <= p <= 1000 -> -1000 <= match s with Some sz => sz | None => 0 end <= 1000 ->
    executeDecimalMethod L (Some p) s num =
    let scale := match s with Some sz => sz | None => 0 end in
    let r := fdiv (xl_round L (fmul num (xl_pow10 L scale))) (xl_pow10 L scale) in
    let count := count_nonzero_before_dot (xl_format_float L r) in
    if (count >? 0) && (count >? p - scale)
    then inr (EVerbose "argument of .decimal() is invalid for type numeric")
    else inl r.
Proof. exact MethodProofs.C16_decimal_valid_args. Qed.
Print Assumptions C16_decimal_valid_args.

(* every error of .decimal(p,s) is suppressible except the two argument-range errors (ErrExecution by design) *)
Theorem C16_decimal_error_classes :
  forall (L : ExecLib) (p : Z) (s : option Z) (num : f64) (e : err),
    executeDecimalMethod L (Some p) s num = inr e ->
    is_verbose e = true \/
    (e = EExec "NUMERIC precision must be between 1 and 1000" /\ (p < 1 \/ p > 1000)) \/
    (e = EExec "NUMERIC scale out of range" /\ exists sz : Z, s = Some sz /\ (sz < -1000 \/ sz > 1000)).
Proof. exact C16_decimal_errors. Qed.
Print Assumptions C16_decimal_error_classes.

(* the same for the item method on any item *)
Theorem C16_decimal_method_error_classes :
  forall (L : ExecLib) (p : Z) (s : option Z) (v : json) (e : err),
    leaf_number L (Some (Some p, s)) v = LErr e ->
    is_verbose e = true \/
    (e = EExec "NUMERIC precision must be between 1 and 1000" /\ (p < 1 \/ p > 1000)) \/
    (e = EExec "NUMERIC scale out of range" /\ exists sz : Z, s = Some sz /\ (sz < -1000 \/ sz > 1000)).
Proof. exact C16_decimal_leaf_errors. Qed.
Print Assumptions C16_decimal_method_error_classes.

(* the guarantee the code gives: at most p - s NONZERO integral digits *)
Theorem C16_decimal_nonzero_digit_count :
  forall (L : ExecLib) (p : Z) (s : option Z) (num r : f64),
    1 <= p <= 1000 -> -1000 <= match s with Some sz => sz | None => 0 end <= 1000 ->
    executeDecimalMethod L (Some p) s num = inl r ->
    r = fdiv (xl_round L (fmul num (xl_pow10 L match s with Some sz => sz | None => 0 end)))
             (xl_pow10 L match s with Some sz => sz | None => 0 end) /\
    count_nonzero_before_dot (xl_format_float L r) <= Z.max 0 (p - match s with Some sz => sz | None => 0 end).
Proof. exact C16_decimal_digit_count. Qed.
Print Assumptions C16_decimal_nonzero_digit_count.

(* the documented guarantee (at most p - s integral digits) outside the excluded class *)
Theorem C16_decimal_digits_when_no_zero_digit :
  forall (L : ExecLib) (p : Z) (s : option Z) (num r : f64),
    1 <= p <= 1000 -> -1000 <= match s with Some sz => sz | None => 0 end <= 1000 ->
    executeDecimalMethod L (Some p) s num = inl r ->
    no_zero_digit_before_dot (xl_format_float L r) = true ->
    count_digits_before_dot (xl_format_float L r) <= Z.max 0 (p - match s with Some sz => sz | None => 0 end).
Proof. exact C16_decimal_digits_excl. Qed.
Print Assumptions C16_decimal_digits_when_no_zero_digit.

(* KF-C16-decimal-zero-digits: .decimal(2,0) of 100 is accepted - three digits, one nonzero *)
Example C16_refuted_decimal_zero_digits :
  match leaf_number lib0 (Some (Some 2, Some 0)) (JNum (NInt 100)) with
  | LItem (JNum (NFlt r)) =>
      format_float_f r = "100"%string /\ count_digits_before_dot (format_float_f r) = 3 /\
      count_nonzero_before_dot (format_float_f r) = 1
  | _ => False
  end.
Proof. exact C16_refuted_decimal_zeros. Qed.
Print Assumptions C16_refuted_decimal_zero_digits.

(* the check does work without zero digits: .decimal(2,0) rejects 123, .decimal(3,0) accepts it *)
Example C16_decimal_digit_examples :
  leaf_number lib0 (Some (Some 2, Some 0)) (JNum (NInt 123)) =
    LErr (EVerbose "argument of .decimal() is invalid for type numeric") /\
  match leaf_number lib0 (Some (Some 3, Some 0)) (JNum (NInt 123)) with
  | LItem (JNum (NFlt r)) => format_float_f r = "123"%string /\ no_zero_digit_before_dot (format_float_f r) = true
  | _ => False
  end.
Proof. exact C16_decimal_examples. Qed.
Print Assumptions C16_decimal_digit_examples.

(* KF-C16-decimal-nan: Pow10(1000) = +Inf, so .decimal(1000,1000) of 1.5 is Inf/Inf = NaN, returned as a value *)
Example C16_refuted_decimal_nan :
  leaf_number lib0 (Some (Some 1000, Some 1000)) (JNum (NFlt (S754_finite false 6755399441055744 (-52)))) =
    LItem (JNum (NFlt S754_nan)) /\
  format_float_f (S754_finite false 6755399441055744 (-52)) = "1.5"%string.
Proof. exact MethodProofs.C16_refuted_decimal_nan. Qed.
Print Assumptions C16_refuted_decimal_nan.

(* ---- .abs() .floor() .ceiling(): Leaf.leaf_numeric L icb fcb, icb on int64, fcb on float64 ---- *)

Theorem C16_numeric_rejects_others :
  forall (L : ExecLib) (icb : Z -> Z) (fcb : f64 -> f64) (v : json),
    match v with JNum _ => true | _ => false end = false ->
    leaf_numeric L icb fcb v = LErr (EVerbose "numeric item method can only be applied to a numeric value").
Proof. exact C16_numeric_rejects. Qed.
Print Assumptions C16_numeric_rejects_others.

Theorem C16_numeric_errors_suppressible :
  forall (L : ExecLib) (icb : Z -> Z) (fcb : f64 -> f64) (v : json) (e : err),
    leaf_numeric L icb fcb v = LErr e -> is_verbose e = true.
Proof. exact C16_numeric_errors_verbose. Qed.
Print Assumptions C16_numeric_errors_suppressible.

Theorem C16_numeric_conversion_table :
  forall (L : ExecLib) (icb : Z -> Z) (fcb : f64 -> f64),
    (forall z : Z, leaf_numeric L icb fcb (JNum (NInt z)) = LItem (JNum (NInt (icb z)))) /\
    (forall f : f64, leaf_numeric L icb fcb (JNum (NFlt f)) = LItem (JNum (NFlt (fcb f)))) /\
    (forall (t : string) (z : Z),
       js_int64 L t = Some z -> leaf_numeric L icb fcb (JNum (NJs t)) = LItem (JNum (NInt (icb z)))) /\
    (forall (t : string) (f : f64),
       js_int64 L t = None -> js_float64 L t = Some (f, false) ->
       leaf_numeric L icb fcb (JNum (NJs t)) = LItem (JNum (NFlt (fcb f)))).
Proof. exact C16_numeric_table. Qed.
Print Assumptions C16_numeric_conversion_table.

Theorem C16_numeric_callbacks :
  forall (L : ExecLib) (lx ig : bool),
    method_leaf L lx ig MAbs = Some (true, leaf_numeric L intAbs fabs) /\
    method_leaf L lx ig MFloor = Some (true, leaf_numeric L (fun x => x) (xl_floor L)) /\
    method_leaf L lx ig MCeiling = Some (true, leaf_numeric L (fun x => x) (xl_ceil L)).
Proof. exact C16_method_callbacks. Qed.
Print Assumptions C16_numeric_callbacks.

(* .abs() of an int64 is its absolute value, except for MinInt64 *)
Theorem C16_abs_of_int64 :
  forall (L : ExecLib) (z : Z),
    in_int64 z = true -> z <> min_int64 ->
    leaf_numeric L intAbs fabs (JNum (NInt z)) = LItem (JNum (NInt (Z.abs z))).
Proof. exact C16_abs_int. Qed.
Print Assumptions C16_abs_of_int64.

(* KF-C13-int64-wrap *)
Theorem C16_refuted_abs_of_min_int64 :
  forall L : ExecLib, leaf_numeric L intAbs fabs (JNum (NInt min_int64)) = LItem (JNum (NInt min_int64)).
Proof. exact C16_refuted_abs_min. Qed.
Print Assumptions C16_refuted_abs_of_min_int64.

(* .abs() of a float clears the sign *)
Theorem C16_abs_of_float :
  forall (L : ExecLib) (f : f64), leaf_numeric L intAbs fabs (JNum (NFlt f)) = LItem (JNum (NFlt (SFabs f))).
Proof. exact C16_abs_float. Qed.
Print Assumptions C16_abs_of_float.

(* .floor() and .ceiling() keep integers *)
Theorem C16_floor_ceiling_of_int64 :
  forall (L : ExecLib) (z : Z),
    leaf_numeric L (fun x => x) (xl_floor L) (JNum (NInt z)) = LItem (JNum (NInt z)) /\
    leaf_numeric L (fun x => x) (xl_ceil L) (JNum (NInt z)) = LItem (JNum (NInt z)).
Proof. exact C16_floor_ceiling_int. Qed.
Print Assumptions C16_floor_ceiling_of_int64.

(* the concrete math.Floor / math.Ceil of lib/F64.v leave integral floats (exponent >= 0) unchanged *)
Theorem C16_floor_of_integral_float :
  forall (s : bool) (m : positive) (e : Z), 0 <= e -> f64_floor (S754_finite s m e) = S754_finite s m e.
Proof. exact C16_floor_integral. Qed.
Print Assumptions C16_floor_of_integral_float.

Theorem C16_ceiling_of_integral_float :
  forall (s : bool) (m : positive) (e : Z), 0 <= e -> f64_ceil (S754_finite s m e) = S754_finite s m e.
Proof. exact C16_ceil_integral. Qed.
Print Assumptions C16_ceiling_of_integral_float.

(* ---- .string(), and the round trips ---- *)

Theorem C16_string_rejects_others :
  forall (L : ExecLib) (v : json),
    match v with JStr _ | JDt _ | JNum _ | JBool _ => true | _ => false end = false ->
    leaf_string L v =
    LErr (EVerbose ".string() can only be applied to a boolean, string, numeric, or datetime value").
Proof. exact C16_string_rejects. Qed.
Print Assumptions C16_string_rejects_others.

Theorem C16_string_accepts_scalars :
  forall (L : ExecLib) (v : json),
    match v with JStr _ | JDt _ | JNum _ | JBool _ => true | _ => false end = true ->
    exists s : string, leaf_string L v = LItem (JStr s).
Proof. exact C16_string_accepts. Qed.
Print Assumptions C16_string_accepts_scalars.

Theorem C16_string_conversion_table :
  forall L : ExecLib,
    (forall t : string, leaf_string L (JStr t) = LItem (JStr t)) /\
    (forall t : string, leaf_string L (JNum (NJs t)) = LItem (JStr t)) /\
    (forall z : Z, leaf_string L (JNum (NInt z)) = LItem (JStr (xl_format_int L z))) /\
    (forall f : f64, leaf_string L (JNum (NFlt f)) = LItem (JStr (xl_format_float L f))) /\
    leaf_string L (JBool true) = LItem (JStr "true") /\
    leaf_string L (JBool false) = LItem (JStr "false") /\
    (forall d : datetime, leaf_string L (JDt d) = LItem (JStr (xl_dt_string L d))).
Proof. exact C16_string_table. Qed.
Print Assumptions C16_string_conversion_table.

(* .string().bigint() gives the int64 back *)
Theorem C16_string_then_bigint :
  forall L : ExecLib, NumLaws L ->
  forall z : Z, in_int64 z = true ->
    exists s : string, leaf_string L (JNum (NInt z)) = LItem (JStr s) /\ leaf_bigint L (JStr s) = LItem (JNum (NInt z)).
Proof. exact C16_string_bigint_roundtrip. Qed.
Print Assumptions C16_string_then_bigint.

(* .string().integer() gives the int32 back *)
Theorem C16_string_then_integer :
  forall L : ExecLib, NumLaws L ->
  forall z : Z, in_int32 z = true ->
    exists s : string, leaf_string L (JNum (NInt z)) = LItem (JStr s) /\ leaf_integer L (JStr s) = LItem (JNum (NInt z)).
Proof. exact C16_string_integer_roundtrip. Qed.
Print Assumptions C16_string_then_integer.

(* .string().double() and .string().number() give the finite float64 back *)
Theorem C16_string_then_double_or_number :
  forall L : ExecLib, NumLaws L ->
  forall f : f64, valid_binary 53 1024 f = true -> f_finite f = true ->
    exists s : string,
      leaf_string L (JNum (NFlt f)) = LItem (JStr s) /\
      leaf_double L (JStr s) = LItem (JNum (NFlt f)) /\
      leaf_number L None (JStr s) = LItem (JNum (NFlt f)).
Proof. exact C16_string_double_roundtrip. Qed.
Print Assumptions C16_string_then_double_or_number.

(* these need no law *)
Theorem C16_string_then_boolean :
  forall (L : ExecLib) (b : bool),
    exists s : string, leaf_string L (JBool b) = LItem (JStr s) /\ leaf_boolean L (JStr s) = LItem (JBool b).
Proof. exact C16_string_boolean_roundtrip. Qed.
Print Assumptions C16_string_then_boolean.

Theorem C16_string_of_string :
  forall (L : ExecLib) (t : string), leaf_string L (JStr t) = LItem (JStr t).
Proof. exact C16_string_string_roundtrip. Qed.
Print Assumptions C16_string_of_string.

(* a json.Number converts through its own text: the same answer on the number and on its .string() *)
Theorem C16_string_of_json_number :
  forall (L : ExecLib) (t : string),
    leaf_string L (JNum (NJs t)) = LItem (JStr t) /\
    leaf_double L (JStr t) = leaf_double L (JNum (NJs t)) /\
    leaf_number L None (JStr t) = leaf_number L None (JNum (NJs t)).
Proof. exact C16_string_jsnumber_roundtrip. Qed.
Print Assumptions C16_string_of_json_number.

(* ---- the datetime methods: input kind and result kind ---- *)

Theorem C16_datetime_rejects_non_strings :
  forall (L : ExecLib) (useTZ : bool) (op : dtop) (tmpl : option string) (prec : option Z) (v : json),
    (forall s : string, v <> JStr s) ->
    leaf_datetime L useTZ op tmpl prec v =
    LErr (EVerbose "jsonpath item datetime method can only be applied to a string").
Proof. exact C16_datetime_rejects. Qed.
Print Assumptions C16_datetime_rejects_non_strings.

Theorem C16_datetime_result_is_datetime :
  forall (L : ExecLib) (useTZ : bool) (op : dtop) (tmpl : option string) (prec : option Z) (v r : json),
    leaf_datetime L useTZ op tmpl prec v = LItem r -> exists d : datetime, r = JDt d.
Proof. exact C16_datetime_result. Qed.
Print Assumptions C16_datetime_result_is_datetime.

(* ---- .keyvalue() ---- *)

(* S: one {id, key, value} object per key of the sorted key list, the id left abstract *)
Theorem C16_spec_keyvalue_step :
  forall (L : ExecLib) (C : cenv) (Q : quirks) (k : Z -> bool -> json -> trace)
         (cur : json) (l : Z) (ig u : bool) (v : json),
    sem_step L C Q (SMeth MKeyValue) k cur l ig u v =
    unwrap_over u v (fun x =>
      match x with
      | JObj _ members =>
          tbind_list
            (map (fun key => JObj 0 [("id", JNum (NInt kv_abstract_id)); ("key", JStr key);
                                     ("value", match lookup key members with Some y => y | None => JNull end)]%string)
                 (Sem.sort_keys (map fst members)))
            (k l ig)
      | _ => tfail (EVerbose ".keyvalue() can only be applied to an object")
      end).
Proof. exact sem_step_keyvalue. Qed.
Print Assumptions C16_spec_keyvalue_step.

(* M, the loop of keyvalue.go with .keyvalue() as last step (next = []): for ANY id and key list,
   one object per key, in the order of the list, all with that id, appended to the results *)
Theorem C16_keyvalue_loop :
  forall (E : env) (self : req -> st -> outcome (ans * st)) (members : list (string * json)) (id : Z)
         (keys : list string) (res : resp) (s : st) (acc : list json),
    r_found res = Some acc ->
    exists (r : resp) (s' : st) (new : list json),
      kvLoop E self keys members id [] res s = Ret (r, s') /\
      r_err r = None /\ r_found r = Some (acc ++ new)%list /\
      Forall2 (fun (k : string) (x : json) => exists tag : Z,
                 x = JObj tag [("id", JNum (NInt id)); ("key", JStr k);
                               ("value", match lookup k members with Some y => y | None => JNull end)]%string)
              keys new.
Proof. exact kvLoop_last. Qed.
Print Assumptions C16_keyvalue_loop.

(* M, one call on an object JObj t members (t its address): the keys are the sorted member keys,
   the id is |t - base address| + base id * 10^10 for every triple *)
Theorem C16_keyvalue_on_object :
  forall (E : env) (self : req -> st -> outcome (ans * st)) (n : chain) (t : Z) (members : list (string * json))
         (acc : list json) (u : bool) (s : st),
    members <> [] ->
    exists (r : resp) (s' : st) (new : list json),
      executeKeyValueMethod E self n [] (JObj t members) (Some acc) u s = Ret (r, s') /\
      r_err r = None /\ r_found r = Some (acc ++ new)%list /\
      Forall2 (fun (k : string) (x : json) => exists tag : Z,
                 x = JObj tag [("id", JNum (NInt (Z.abs (t - base_addr s) + base_id s * 10000000000)));
                               ("key", JStr k);
                               ("value", match lookup k members with Some y => y | None => JNull end)]%string)
              (Exec.sort_keys (map fst members)) new.
Proof. exact executeKeyValueMethod_last. Qed.
Print Assumptions C16_keyvalue_on_object.

(* the sorted key list: exactly the keys, ascending for the byte order str_compare *)
Theorem C16_keyvalue_keys_permutation : forall l : list string, Permutation (Exec.sort_keys l) l.
Proof. exact sort_keys_perm. Qed.
Print Assumptions C16_keyvalue_keys_permutation.

Theorem C16_keyvalue_keys_sorted :
  forall l : list string, Sorted (fun a b : string => str_compare a b <> Gt) (Exec.sort_keys l).
Proof. exact sort_keys_sorted. Qed.
Print Assumptions C16_keyvalue_keys_sorted.

(* the specification's copy of the sort is the same function *)
Theorem C16_keyvalue_keys_same_in_spec : forall l : list string, Sem.sort_keys l = Exec.sort_keys l.
Proof. exact sort_keys_spec_model. Qed.
Print Assumptions C16_keyvalue_keys_same_in_spec.

(* M's Query of $.keyvalue() on a non-empty object: any library, mode, silent or not; the root has id 0 *)
Theorem C16_query_keyvalue :
  forall (L : ExecLib) (lx pr : bool) (t : Z) (members : list (string * json)) (o : opts) (fuel : nat),
    o_cancel_at o = None -> members <> [] -> (2 <= fuel)%nat ->
    exists new : list json,
      Query L fuel (mkpath lx pr [SConst CRoot; SMeth MKeyValue]) (JObj t members) o = Ret (QItems new) /\
      Forall2 (fun (k : string) (x : json) => exists tag : Z,
                 x = JObj tag [("id", JNum (NInt 0)); ("key", JStr k);
                               ("value", match lookup k members with Some y => y | None => JNull end)]%string)
              (Exec.sort_keys (map fst members)) new.
Proof. exact query_keyvalue. Qed.
Print Assumptions C16_query_keyvalue.

(* anything but an object (or an array that is unwrapped) is rejected with a suppressible error *)
Theorem C16_keyvalue_rejects :
  forall (E : env) (self : req -> st -> outcome (ans * st)) (n next : chain) (v : json) (found : found_t) (u : bool),
    match v with JObj _ _ => False | JArr _ _ => u = false | _ => True end ->
    executeKeyValueMethod E self n next v found u =
    returnVerboseError (EVerbose ".keyvalue() can only be applied to an object") found.
Proof. exact executeKeyValueMethod_rejects. Qed.
Print Assumptions C16_keyvalue_rejects.

(* $.keyvalue() on {"b":1, "a":{"c":2}} (8, 16: the addresses of the two maps): sorted key order, one id *)
Example C16_keyvalue_example :
  Query L0 10 (mkpath true false [SConst CRoot; SMeth MKeyValue])
        (JObj 8 [("b", JNum (NInt 1)); ("a", JObj 16 [("c", JNum (NInt 2))])]%string) (o0 false) =
  Ret (QItems [JObj 100 [("id", JNum (NInt 0)); ("key", JStr "a"); ("value", JObj 16 [("c", JNum (NInt 2))])];
               JObj 200 [("id", JNum (NInt 0)); ("key", JStr "b"); ("value", JNum (NInt 1))]]%string).
Proof. exact kv_query_example. Qed.
Print Assumptions C16_keyvalue_example.

(* $[*].keyvalue() on [{"a":1,"z":null}, {"b":2}]: ids equal within an object, distinct across the two *)
Example C16_keyvalue_two_objects_example :
  Query L0 10 (mkpath true false [SConst CRoot; SConst CAnyArray; SMeth MKeyValue])
        (JArr 8 [JObj 16 [("a", JNum (NInt 1)); ("z", JNull)]; JObj 40 [("b", JNum (NInt 2))]]%string) (o0 false) =
  Ret (QItems [JObj 100 [("id", JNum (NInt 8)); ("key", JStr "a"); ("value", JNum (NInt 1))];
               JObj 200 [("id", JNum (NInt 8)); ("key", JStr "z"); ("value", JNull)];
               JObj 400 [("id", JNum (NInt 32)); ("key", JStr "b"); ("value", JNum (NInt 2))]]%string).
Proof. exact kv_two_objects_example. Qed.
Print Assumptions C16_keyvalue_two_objects_example.

(* strict $.keyvalue() on a number: the error, nothing under WithSilent; an empty object: nothing *)
Example C16_keyvalue_reject_example :
  Query L0 10 (mkpath false false [SConst CRoot; SMeth MKeyValue]) (JNum (NInt 1)) (o0 false) =
    Ret (QErr (AErr (EVerbose ".keyvalue() can only be applied to an object"))) /\
  Query L0 10 (mkpath false false [SConst CRoot; SMeth MKeyValue]) (JNum (NInt 1)) (o0 true) = Ret (QItems []) /\
  Query L0 10 (mkpath false false [SConst CRoot; SMeth MKeyValue]) (JObj 8 []) (o0 false) = Ret (QItems []).
Proof. exact kv_reject_example. Qed.
Print Assumptions C16_keyvalue_reject_example.

(* KF-C16-keyvalue-generated-ids: $.keyvalue().value.keyvalue().id on {"a":{"b":1}}; the two option sets
   differ only in o_next_tag, the address of the first object .keyvalue() allocates *)
Example C16_refuted_keyvalue_generated_ids :
  Query L0 10 (mkpath true false [SConst CRoot; SMeth MKeyValue; SKey "value"; SMeth MKeyValue; SKey "id"])
        (JObj 8 [("a", JObj 16 [("b", JNum (NInt 1))])]%string) (mkopts [] 0 false false None 100) =
    Ret (QItems [JNum (NInt 20000000084)]) /\
  Query L0 10 (mkpath true false [SConst CRoot; SMeth MKeyValue; SKey "value"; SMeth MKeyValue; SKey "id"])
        (JObj 8 [("a", JObj 16 [("b", JNum (NInt 1))])]%string) (mkopts [] 0 false false None 300) =
    Ret (QItems [JNum (NInt 20000000284)]).
Proof. exact kv_refuted_generated_ids. Qed.
Print Assumptions C16_refuted_keyvalue_generated_ids.

(* ---- the laws on the library are satisfiable ---- *)

Theorem C16_numlaws_satisfiable : exists L : ExecLib, NumLaws L.
Proof. exact numlaws_satisfiable. Qed.
Print Assumptions C16_numlaws_satisfiable.

(* the extracted instance (any datetime context, regexp oracle and member order): seven of the eight laws *)
Theorem C16_numlaws_of_the_instance :
  forall (ctx : DateTime.dctx) (re : string -> Z -> string -> bool) (members : list (string * json) -> list json),
    let L := mk_lib ctx re members in
    xl_of_Z L 0 = S754_zero false /\
    (forall a b : Z, Z.abs a <= two53 -> Z.abs b <= two53 -> fcmp (xl_of_Z L a) (xl_of_Z L b) = Some (a ?= b)) /\
    (forall (s : string) (z : Z),
       js_int64 L s = Some z ->
       js_float64 L s = Some (xl_of_Z L z, false) \/ (z = 0 /\ js_float64 L s = Some (S754_zero true, false))) /\
    (forall (s : string) (z : Z), xl_parse_int L 10 64 s = Some z -> in_int64 z = true) /\
    (forall f : f64, in_int64 (xl_to_int64 L f) = true) /\
    (forall z : Z, in_int64 z = true -> xl_parse_int L 10 64 (xl_format_int L z) = Some z) /\
    (forall z : Z, in_int32 z = true -> xl_parse_int L 10 32 (xl_format_int L z) = Some z).
Proof. exact numlaws_concrete_proved. Qed.
Print Assumptions C16_numlaws_of_the_instance.

(* ... and the eighth under the explicit hypothesis about Go's float formatting *)
Theorem C16_numlaws_of_the_instance_trusting_strconv :
  forall (ctx : DateTime.dctx) (re : string -> Z -> string -> bool) (members : list (string * json) -> list json),
    (forall f : f64, valid_binary 53 1024 f = true -> f_finite f = true ->
       parse_float (format_float_f f) = Some (f, false)) ->
    NumLaws (mk_lib ctx re members).
Proof. exact numlaws_concrete_explicit. Qed.
Print Assumptions C16_numlaws_of_the_instance_trusting_strconv.
