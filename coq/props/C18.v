(* C18 — Datetime values survive printing, JSON encoding and hostile input.

   The property: for every Date, Time, TimeTZ, Timestamp and TimestampTZ value with
   a year in 1..9999 and a whole-minute zone offset, String() is ISO-8601,
   ParseTime(String(v)) returns an equal value of the same type,
   json.Unmarshal(json.Marshal(v)) returns an equal value, and .string() inside a
   path prints the same text.  UnmarshalJSON on arbitrary JSON — short strings,
   non-strings, null — returns an error instead of panicking.  Conversions commute
   with the context zone: for local times that exist in the zone, date ->
   timestamptz -> date and timestamp -> timestamptz -> timestamp are identities.

   Objects.  Leaf functions of model/DateTime.v over the time.Time model
   model/GoTime.v (time.Date, Format, Parse with the layouts of path/types) and the
   civil calendar model/Civil.v: dt_string (String()), parse_time (types.ParseTime),
   dt_marshal_json / dt_unmarshal_json (MarshalJSON / UnmarshalJSON of the five
   types, on raw bytes, with Go's index and slice run-time checks modelled as Panic),
   dt_to_* (the To* conversions).  Statements are for ALL values of the five types,
   ALL byte strings, ALL contexts.  The model M prints a datetime item through
   extract/Instance.mk_lib: [C18_string_method_prints_String].  The layouts the model
   formats and parses with are tied to the layout constants of the Go sources:
   [C18_layout_*] (the literal strings) and [C18_go_layout_table_*] (the table
   gen/Layouts.v, regenerated from path/types/*.go on every run, so that changing a
   constant there breaks a proof obligation here).

   Hypotheses, all satisfiable ([C18_printable_witnesses]: one value per type):
     wf_dt d       the invariants the New* constructors establish (date: midnight UTC,
                   no nanoseconds; time / timetz: on day 0000-01-01; zone-less types:
                   offset 0; nanoseconds in range) — true of everything ParseTime
                   returns ([C18_parsed_values_are_wf])
     0 <= year <= 9999   for the types that print a date: four digits exactly (the
                   property says 1..9999; year 0 is covered too).  Needed:
                   [C18_year_10000_counterexample]
     -90000 < off < 90000, off mod 60 = 0   for the types that print an offset: "-07:00"
                   drops seconds, Parse accepts zone hours up to 24.  Needed:
                   [C18_offset_seconds_counterexample]
     for the conversions: the context zone is a fixed offset, or (general zones, i.e.
                   transition tables) the instant time.Date picks for the local reading
                   l shows l again when read back in the zone — written out in
                   [C18_date_roundtrip_any_zone]; it implies that l exists in the zone
                   ([C18_readback_means_exists]) and always holds for fixed offsets
                   ([C18_readback_fixed]).
   Excluded class: none open.  Local readings inside a gap of the zone are outside
   the property's clause ("local times that exist"); [C18_date_roundtrip_gap_counterexample]
   shows the identity failing there (a zone that skips a whole day).
   Fixed finding (commit edf72c0: UnmarshalJSON of all five types panicked on a JSON
   number / null, TimeTZ on any string shorter than nine bytes): [C18_unmarshal_total]
   is the general statement, [C18_unmarshal_hostile_witness] the inputs of the report.

   Not covered: "ISO-8601" is not formalised; the printed text is given explicitly,
   digit group by digit group ([C18_string_*]).  Equality is equality of the model's
   record (type, instant, offset) — Go's == on time.Time also compares the Location
   pointer.  encoding/json's own tokenizer is not modelled: dt_unmarshal_json is the
   UnmarshalJSON method on the bytes it is handed, for all byte strings.  For general
   zones the converse of [C18_readback_means_exists] (every existing local time is
   read back, i.e. time.Date's two-lookup heuristic always lands in the right
   transition interval) is not proved; fixed offsets are unconditional.  layout_items
   maps both "05" and "05.999999999" to the same item (Parse accepts a fraction after
   either); that the five OUTPUT constants are of the second form is checked literally
   in [C18_go_layout_table_output]. *)
From SJ Require Import lib.Base model.Json model.Ast model.ExecLib model.Leaf
     model.Civil model.GoTime model.DateTime extract.Instance gen.Layouts
     proofs.DateTimeProofs proofs.PropGlue_DT.
Open Scope Z_scope.

(* ---- the civil calendar ---- *)

Theorem C18_civil_roundtrip :
  (forall z : Z, let '(y, m, d) := civil_from_days z in days_from_civil y m d = z) /\
  (forall y m d : Z, valid_ymd y m d -> civil_from_days (days_from_civil y m d) = (y, m, d)).
Proof. exact civil_roundtrip. Qed.
Print Assumptions C18_civil_roundtrip.

(* ---- String(): the printed form, explicitly ---- *)

(* fmt2 / fmt4 print exactly two / four decimal digits; the fields are in range *)
Theorem C18_field_ranges :
  forall t : gtime,
    1 <= g_month t <= 12 /\ 1 <= g_day t <= 31 /\
    0 <= g_hour t < 24 /\ 0 <= g_minute t < 60 /\ 0 <= g_second t < 60.
Proof. exact g_field_ranges. Qed.
Print Assumptions C18_field_ranges.

(* YYYY-MM-DD *)
Theorem C18_string_date :
  forall d : datetime, dt_kind d = KDate -> 0 <= g_year (to_g d) <= 9999 ->
    let t := to_g d in
    dt_string d
    = (fmt4 (g_year t) ++ String ch_dash (fmt2 (g_month t) ++ String ch_dash (fmt2 (g_day t))))%string.
Proof. exact dt_string_date. Qed.
Print Assumptions C18_string_date.

(* HH:MM:SS[.fffffffff] (append_nano9: nothing for 0, else '.', nine digits, trailing zeros removed) *)
Theorem C18_string_time :
  forall d : datetime, dt_kind d = KTime ->
    let t := to_g d in
    dt_string d
    = (fmt2 (g_hour t) ++ String ch_colon (fmt2 (g_minute t) ++ String ch_colon
         (fmt2 (g_second t) ++ append_nano9 (g_nsec t))))%string.
Proof. exact dt_string_time. Qed.
Print Assumptions C18_string_time.

(* HH:MM:SS[.fffffffff]+HH:MM *)
Theorem C18_string_timetz :
  forall d : datetime, dt_kind d = KTimeTZ ->
    let t := to_g d in
    dt_string d
    = ((fmt2 (g_hour t) ++ String ch_colon (fmt2 (g_minute t) ++ String ch_colon
          (fmt2 (g_second t) ++ append_nano9 (g_nsec t))))
       ++ fmt_numtz true false None (dt_off d))%string.
Proof. exact dt_string_timetz. Qed.
Print Assumptions C18_string_timetz.

(* YYYY-MM-DDTHH:MM:SS[.fffffffff] *)
Theorem C18_string_timestamp :
  forall d : datetime, dt_kind d = KTimestamp -> 0 <= g_year (to_g d) <= 9999 ->
    let t := to_g d in
    dt_string d
    = ((fmt4 (g_year t) ++ String ch_dash (fmt2 (g_month t) ++ String ch_dash (fmt2 (g_day t))))
       ++ String ch_T
          (fmt2 (g_hour t) ++ String ch_colon (fmt2 (g_minute t) ++ String ch_colon
             (fmt2 (g_second t) ++ append_nano9 (g_nsec t)))))%string.
Proof. exact dt_string_ts. Qed.
Print Assumptions C18_string_timestamp.

(* YYYY-MM-DDTHH:MM:SS[.fffffffff]+HH:MM *)
Theorem C18_string_timestamptz :
  forall d : datetime, dt_kind d = KTimestampTZ -> 0 <= g_year (to_g d) <= 9999 ->
    let t := to_g d in
    dt_string d
    = ((fmt4 (g_year t) ++ String ch_dash (fmt2 (g_month t) ++ String ch_dash (fmt2 (g_day t))))
       ++ String ch_T
          ((fmt2 (g_hour t) ++ String ch_colon (fmt2 (g_minute t) ++ String ch_colon
              (fmt2 (g_second t) ++ append_nano9 (g_nsec t))))
           ++ fmt_numtz true false None (dt_off d)))%string.
Proof. exact dt_string_tstz. Qed.
Print Assumptions C18_string_timestamptz.

(* the zone suffix: sign, two digits of hours, ':', two digits of minutes *)
Theorem C18_string_zone_suffix :
  forall off : Z, -90000 < off < 90000 /\ off mod 60 = 0 ->
    fmt_numtz true false None off
    = String (if off <? 0 then ch_dash else ch_plus)
             (fmt2 (Z.abs off / 3600) ++ String ch_colon (fmt2 ((Z.abs off / 60) mod 60)))%string.
Proof. exact fmt_numtz_colon. Qed.
Print Assumptions C18_string_zone_suffix.

(* ---- ParseTime (String v) = v ---- *)

Theorem C18_string_parse_roundtrip :
  forall (ctx : dctx) (d : datetime),
    wf_dt d /\
    match dt_kind d with
    | KDate | KTimestamp => 0 <= g_year (to_g d) <= 9999
    | KTime => True
    | KTimeTZ => -90000 < dt_off d < 90000 /\ dt_off d mod 60 = 0
    | KTimestampTZ => 0 <= g_year (to_g d) <= 9999 /\ (-90000 < dt_off d < 90000 /\ dt_off d mod 60 = 0)
    end ->
    parse_time ctx (dt_string d) (-1) = Some d.
Proof. exact string_parse_roundtrip. Qed.
Print Assumptions C18_string_parse_roundtrip.

(* ---- UnmarshalJSON (MarshalJSON v) = v ---- *)

Theorem C18_marshal_unmarshal_roundtrip :
  forall d : datetime,
    wf_dt d /\
    match dt_kind d with
    | KDate | KTimestamp => 0 <= g_year (to_g d) <= 9999
    | KTime => True
    | KTimeTZ => -90000 < dt_off d < 90000 /\ dt_off d mod 60 = 0
    | KTimestampTZ => 0 <= g_year (to_g d) <= 9999 /\ (-90000 < dt_off d < 90000 /\ dt_off d mod 60 = 0)
    end ->
    dt_unmarshal_json (dt_kind d) (dt_marshal_json d) = Ret (Some d).
Proof. exact marshal_unmarshal_roundtrip. Qed.
Print Assumptions C18_marshal_unmarshal_roundtrip.

(* ---- UnmarshalJSON never panics ---- *)

(* for ALL byte strings and all five types: a value or an error (None), never a
   run-time panic (index / slice out of range), never out of fuel *)
Theorem C18_unmarshal_total :
  forall (k : dtkind) (s : string), exists r : option datetime, dt_unmarshal_json k s = Ret r.
Proof. exact unmarshal_total. Qed.
Print Assumptions C18_unmarshal_total.

(* the inputs of the fixed finding: a number, null, "", a lone quote, nothing *)
Example C18_unmarshal_hostile_witness :
  dt_unmarshal_json KTimeTZ "1" = Ret None /\
  dt_unmarshal_json KTimeTZ "null" = Ret None /\
  dt_unmarshal_json KTimeTZ (String ch_quote (String ch_quote "")) = Ret None /\
  dt_unmarshal_json KTimeTZ (String ch_quote "") = Ret None /\
  dt_unmarshal_json KTimeTZ "" = Ret None /\
  dt_unmarshal_json KTimestampTZ "12" = Ret None /\
  dt_unmarshal_json KDate "20" = Ret None /\
  dt_unmarshal_json KTime "true" = Ret None /\
  dt_unmarshal_json KTimestamp "[]" = Ret None.
Proof. exact unmarshal_hostile_witness. Qed.
Print Assumptions C18_unmarshal_hostile_witness.

(* ---- .string() inside a path ---- *)

Theorem C18_string_method_prints_String :
  forall (ctx : dctx) (re : string -> Z -> string -> bool)
         (members : list (string * json) -> list json) (d : datetime),
    leaf_string (mk_lib ctx re members) (JDt d) = LItem (JStr (dt_string d)).
Proof. exact leaf_string_datetime. Qed.
Print Assumptions C18_string_method_prints_String.

(* .string() followed by .datetime() gives the item back *)
Theorem C18_string_method_then_datetime_method :
  forall (ctx : dctx) (re : string -> Z -> string -> bool)
         (members : list (string * json) -> list json) (u : bool) (d : datetime),
    wf_dt d /\
    match dt_kind d with
    | KDate | KTimestamp => 0 <= g_year (to_g d) <= 9999
    | KTime => True
    | KTimeTZ => -90000 < dt_off d < 90000 /\ dt_off d mod 60 = 0
    | KTimestampTZ => 0 <= g_year (to_g d) <= 9999 /\ (-90000 < dt_off d < 90000 /\ dt_off d mod 60 = 0)
    end ->
    leaf_datetime (mk_lib ctx re members) u DDateTime None None (JStr (dt_string d)) = LItem (JDt d).
Proof. exact leaf_string_datetime_roundtrip. Qed.
Print Assumptions C18_string_method_then_datetime_method.

(* ---- the hypotheses: satisfiable, and needed ---- *)

Theorem C18_parsed_values_are_wf :
  forall (ctx : dctx) (src : string) (p : Z) (d : datetime),
    parse_time ctx src p = Some d -> wf_dt d.
Proof. exact parse_time_wf. Qed.
Print Assumptions C18_parsed_values_are_wf.

(* one value of each type satisfying the hypotheses, its String() and JSON text *)
Example C18_printable_witnesses :
  let ok d :=
    wf_dt d /\
    match dt_kind d with
    | KDate | KTimestamp => 0 <= g_year (to_g d) <= 9999
    | KTime => True
    | KTimeTZ => -90000 < dt_off d < 90000 /\ dt_off d mod 60 = 0
    | KTimestampTZ => 0 <= g_year (to_g d) <= 9999 /\ (-90000 < dt_off d < 90000 /\ dt_off d mod 60 = 0)
    end in
  let d1 := mkdt KDate 1438473600 0 0 in
  let d2 := mkdt KTime (-62167176000) 250000000 0 in
  let d3 := mkdt KTimeTZ (-62167156200) 0 (-19800) in
  let d4 := mkdt KTimestamp 1438516800 120000000 0 in
  let d5 := mkdt KTimestampTZ 1438531200 500000000 (-14400) in
  (ok d1 /\ ok d2 /\ ok d3 /\ ok d4 /\ ok d5) /\
  dt_string d1 = "2015-08-02"%string /\
  dt_string d2 = "12:00:00.25"%string /\
  dt_string d3 = "12:00:00-05:30"%string /\
  dt_string d4 = "2015-08-02T12:00:00.12"%string /\
  dt_string d5 = "2015-08-02T12:00:00.5-04:00"%string /\
  dt_marshal_json d5 = String ch_quote ("2015-08-02T12:00:00.5-04:00" ++ String ch_quote "")%string.
Proof. exact printable_witnesses. Qed.
Print Assumptions C18_printable_witnesses.

(* year 10000 prints five digits and is not read back *)
Example C18_year_10000_counterexample :
  let d := mkdt KDate 253402300800 0 0 in
  wf_dt d /\ dt_string d = "10000-01-01"%string /\
  parse_time (mkctx (ZFixed 0) 0 0) (dt_string d) (-1) = None.
Proof. exact roundtrip_year_counterexample. Qed.
Print Assumptions C18_year_10000_counterexample.

(* an offset of thirty seconds is dropped by the printer: another instant comes back *)
Example C18_offset_seconds_counterexample :
  let d := mkdt KTimestampTZ 0 0 30 in
  wf_dt d /\ dt_string d = "1970-01-01T00:00:30+00:00"%string /\
  parse_time (mkctx (ZFixed 0) 0 0) (dt_string d) (-1) = Some (mkdt KTimestampTZ 30 0 0) /\
  dt_unmarshal_json KTimestampTZ (dt_marshal_json d) = Ret (Some (mkdt KTimestampTZ 30 0 0)).
Proof. exact roundtrip_offset_counterexample. Qed.
Print Assumptions C18_offset_seconds_counterexample.

(* ---- conversions commute with the context zone ---- *)

(* fixed-offset context zones: unconditional *)
Theorem C18_date_timestamp_roundtrip_fixed_zone :
  forall (ctx : dctx) (o : Z) (d : datetime),
    tz ctx = ZFixed o -> wf_dt d ->
    (dt_kind d = KDate -> dt_to_date ctx (dt_to_timestamptz ctx d) = d) /\
    (dt_kind d = KTimestamp -> dt_to_timestamp ctx (dt_to_timestamptz ctx d) = d).
Proof. exact date_tstz_date_roundtrip. Qed.
Print Assumptions C18_date_timestamp_roundtrip_fixed_zone.

(* any zone (fixed or transition table), when the instant time.Date picks for the
   local reading shows that reading again in the zone *)
Theorem C18_date_roundtrip_any_zone :
  forall (ctx : dctx) (d : datetime),
    dt_kind d = KDate -> wf_dt d ->
    zone_local_to_unix (tz ctx) (dt_sec d)
      + zone_offset_at (tz ctx) (zone_local_to_unix (tz ctx) (dt_sec d)) = dt_sec d ->
    dt_to_date ctx (dt_to_timestamptz ctx d) = d.
Proof. exact date_tstz_date_roundtrip_gen. Qed.
Print Assumptions C18_date_roundtrip_any_zone.

Theorem C18_timestamp_roundtrip_any_zone :
  forall (ctx : dctx) (d : datetime),
    dt_kind d = KTimestamp -> wf_dt d ->
    zone_local_to_unix (tz ctx) (dt_sec d)
      + zone_offset_at (tz ctx) (zone_local_to_unix (tz ctx) (dt_sec d)) = dt_sec d ->
    dt_to_timestamp ctx (dt_to_timestamptz ctx d) = d.
Proof. exact timestamp_tstz_timestamp_roundtrip_gen. Qed.
Print Assumptions C18_timestamp_roundtrip_any_zone.

(* that hypothesis always holds for a fixed offset ... *)
Theorem C18_readback_fixed :
  forall o l : Z,
    zone_local_to_unix (ZFixed o) l + zone_offset_at (ZFixed o) (zone_local_to_unix (ZFixed o) l) = l.
Proof. exact readback_fixed. Qed.
Print Assumptions C18_readback_fixed.

(* ... and it says in particular that the local time l exists in the zone *)
Theorem C18_readback_means_exists :
  forall (z : zone) (l : Z),
    zone_local_to_unix z l + zone_offset_at z (zone_local_to_unix z l) = l ->
    exists u : Z, u + zone_offset_at z u = l.
Proof. exact readback_exists. Qed.
Print Assumptions C18_readback_means_exists.

(* it is needed: in a zone that skips a whole day (like Pacific/Apia on 2011-12-30:
   -10h -> +14h at local midnight) the skipped date comes back as the previous day *)
Example C18_date_roundtrip_gap_counterexample :
  let ctx := mkctx (ZTable (-36000) [(8676000, 50400)]) 0 0 in
  let d := mkdt KDate 8640000 0 0 in
  wf_dt d /\ dt_to_date ctx (dt_to_timestamptz ctx d) = mkdt KDate 8553600 0 0.
Proof. exact date_roundtrip_gap_counterexample. Qed.
Print Assumptions C18_date_roundtrip_gap_counterexample.

(* ---- the layouts: every layout string of path/types is the model's item list ---- *)

Example C18_layout_dateFormat : layout_items "2006-01-02" = Some lay_date.
Proof. exact lay_dateFormat. Qed.
Print Assumptions C18_layout_dateFormat.

Example C18_layout_timeFormat : layout_items "15:04:05.999999999" = Some lay_time.
Proof. exact lay_timeFormat. Qed.
Print Assumptions C18_layout_timeFormat.

Example C18_layout_time_plain : layout_items "15:04:05" = Some lay_time.
Proof. exact lay_time_plain. Qed.
Print Assumptions C18_layout_time_plain.

Example C18_layout_timeTZSecondFormat :
  layout_items "15:04:05.999999999Z07:00:00" = Some (lay_timetz TZColonSec).
Proof. exact lay_timeTZSecondFormat. Qed.
Print Assumptions C18_layout_timeTZSecondFormat.

Example C18_layout_timeTZMinuteFormat :
  layout_items "15:04:05.999999999Z07:00" = Some (lay_timetz TZColon).
Proof. exact lay_timeTZMinuteFormat. Qed.
Print Assumptions C18_layout_timeTZMinuteFormat.

Example C18_layout_timeTZHourFormat :
  layout_items "15:04:05.999999999Z07" = Some (lay_timetz TZShort).
Proof. exact lay_timeTZHourFormat. Qed.
Print Assumptions C18_layout_timeTZHourFormat.

Example C18_layout_timeTZOutputFormat :
  layout_items "15:04:05.999999999-07:00" = Some lay_timetz_out.
Proof. exact lay_timeTZOutputFormat. Qed.
Print Assumptions C18_layout_timeTZOutputFormat.

Example C18_layout_timetz_parse1 : layout_items "15:04:05Z07" = Some (lay_timetz TZShort).
Proof. exact lay_timetz_parse1. Qed.
Print Assumptions C18_layout_timetz_parse1.

Example C18_layout_timetz_parse2 : layout_items "15:04:05Z07:00" = Some (lay_timetz TZColon).
Proof. exact lay_timetz_parse2. Qed.
Print Assumptions C18_layout_timetz_parse2.

Example C18_layout_timestampFormat :
  layout_items "2006-01-02T15:04:05.999999999" = Some (lay_ts ch_T).
Proof. exact lay_timestampFormat. Qed.
Print Assumptions C18_layout_timestampFormat.

Example C18_layout_ts_parse1 : layout_items "2006-01-02T15:04:05" = Some (lay_ts ch_T).
Proof. exact lay_ts_parse1. Qed.
Print Assumptions C18_layout_ts_parse1.

Example C18_layout_ts_parse2 : layout_items "2006-01-02 15:04:05" = Some (lay_ts ch_space).
Proof. exact lay_ts_parse2. Qed.
Print Assumptions C18_layout_ts_parse2.

Example C18_layout_timestampTZSecondFormat :
  layout_items "2006-01-02T15:04:05.999999999Z07:00:00" = Some (lay_tstz ch_T TZColonSec).
Proof. exact lay_timestampTZSecondFormat. Qed.
Print Assumptions C18_layout_timestampTZSecondFormat.

Example C18_layout_timestampTZMinuteFormat :
  layout_items "2006-01-02T15:04:05.999999999Z07:00" = Some (lay_tstz ch_T TZColon).
Proof. exact lay_timestampTZMinuteFormat. Qed.
Print Assumptions C18_layout_timestampTZMinuteFormat.

Example C18_layout_timestampTZHourFormat :
  layout_items "2006-01-02T15:04:05.999999999Z07" = Some (lay_tstz ch_T TZShort).
Proof. exact lay_timestampTZHourFormat. Qed.
Print Assumptions C18_layout_timestampTZHourFormat.

Example C18_layout_timestampTZOutputFormat :
  layout_items "2006-01-02T15:04:05.999999999-07:00" = Some lay_tstz_out.
Proof. exact lay_timestampTZOutputFormat. Qed.
Print Assumptions C18_layout_timestampTZOutputFormat.

Example C18_layout_tstz_parse1 :
  layout_items "2006-01-02T15:04:05Z07" = Some (lay_tstz ch_T TZShort).
Proof. exact lay_tstz_parse1. Qed.
Print Assumptions C18_layout_tstz_parse1.

Example C18_layout_tstz_parse2 :
  layout_items "2006-01-02 15:04:05Z07" = Some (lay_tstz ch_space TZShort).
Proof. exact lay_tstz_parse2. Qed.
Print Assumptions C18_layout_tstz_parse2.

Example C18_layout_tstz_parse3 :
  layout_items "2006-01-02T15:04:05Z07:00" = Some (lay_tstz ch_T TZColon).
Proof. exact lay_tstz_parse3. Qed.
Print Assumptions C18_layout_tstz_parse3.

Example C18_layout_tstz_parse4 :
  layout_items "2006-01-02 15:04:05Z07:00" = Some (lay_tstz ch_space TZColon).
Proof. exact lay_tstz_parse4. Qed.
Print Assumptions C18_layout_tstz_parse4.

(* ---- the same, against the table generated from the Go sources ---- *)

(* every entry of gen/Layouts.time_layouts (the named constants of path/types, then
   the literals of the ParseTime cascade in source order) is an item list of the model *)
Example C18_go_layout_table_items :
  map (fun p => (fst p, layout_items (snd p))) time_layouts =
  [("dateFormat", Some lay_date);
   ("timeFormat", Some lay_time);
   ("timestampFormat", Some (lay_ts ch_T));
   ("timestampTZSecondFormat", Some (lay_tstz ch_T TZColonSec));
   ("timestampTZMinuteFormat", Some (lay_tstz ch_T TZColon));
   ("timestampTZHourFormat", Some (lay_tstz ch_T TZShort));
   ("timestampTZOutputFormat", Some lay_tstz_out);
   ("timeTZSecondFormat", Some (lay_timetz TZColonSec));
   ("timeTZMinuteFormat", Some (lay_timetz TZColon));
   ("timeTZHourFormat", Some (lay_timetz TZShort));
   ("timeTZOutputFormat", Some lay_timetz_out);
   ("ParseTime_00", Some lay_date);
   ("ParseTime_01", Some (lay_timetz TZShort));
   ("ParseTime_02", Some (lay_timetz TZColon));
   ("ParseTime_03", Some lay_time);
   ("ParseTime_04", Some (lay_tstz ch_T TZShort));
   ("ParseTime_05", Some (lay_tstz ch_space TZShort));
   ("ParseTime_06", Some (lay_tstz ch_T TZColon));
   ("ParseTime_07", Some (lay_tstz ch_space TZColon));
   ("ParseTime_08", Some (lay_ts ch_T));
   ("ParseTime_09", Some (lay_ts ch_space))]%string.
Proof. exact layouts_table_items. Qed.
Print Assumptions C18_go_layout_table_items.

(* the cascade of ParseTime, in source order, is the cascade of parse_raw
   (date; timetz forms; time; timestamptz forms; timestamp forms) *)
Example C18_go_layout_table_cascade :
  map (fun p => layout_items (snd p))
      (filter (fun p => str_prefix "ParseTime_" (fst p)) time_layouts) =
  map Some ([lay_date] ++ timetz_layouts ++ [lay_time] ++ tstz_layouts ++ ts_layouts).
Proof. exact layouts_cascade. Qed.
Print Assumptions C18_go_layout_table_cascade.

(* String() / MarshalJSON: the constant each type formats with is literally the
   ISO-8601 layout with the optional nine-digit fraction, and is the layout dt_string
   uses for that type *)
Example C18_go_layout_table_output :
  let lookup n := match find (fun p => String.eqb (fst p) n) time_layouts with
                  | Some p => Some (snd p) | None => None end in
  let names := ["dateFormat"; "timeFormat"; "timeTZOutputFormat"; "timestampFormat";
                "timestampTZOutputFormat"]%string in
  map lookup names =
    [Some "2006-01-02"; Some "15:04:05.999999999"; Some "15:04:05.999999999-07:00";
     Some "2006-01-02T15:04:05.999999999"; Some "2006-01-02T15:04:05.999999999-07:00"]%string /\
  map (fun n => match lookup n with Some s => layout_items s | None => None end) names =
    map (fun k => Some (out_layout k)) [KDate; KTime; KTimeTZ; KTimestamp; KTimestampTZ].
Proof. exact layouts_output. Qed.
Print Assumptions C18_go_layout_table_output.

(* UnmarshalJSON: the constant each type (and each detected zone form: seconds,
   minutes, hours) parses with is the layout dt_unmarshal_json uses *)
Example C18_go_layout_table_unmarshal :
  let lookup n := match find (fun p => String.eqb (fst p) n) time_layouts with
                  | Some p => layout_items (snd p) | None => None end in
  map lookup ["dateFormat"; "timeFormat"; "timestampFormat";
              "timeTZSecondFormat"; "timeTZMinuteFormat"; "timeTZHourFormat";
              "timestampTZSecondFormat"; "timestampTZMinuteFormat"; "timestampTZHourFormat"]%string =
  map Some ([lay_date; lay_time; lay_ts ch_T] ++
            map lay_timetz [TZColonSec; TZColon; TZShort] ++
            map (lay_tstz ch_T) [TZColonSec; TZColon; TZShort]).
Proof. exact layouts_unmarshal. Qed.
Print Assumptions C18_go_layout_table_unmarshal.
