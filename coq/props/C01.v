(* C01 — Query results conform to SQL/JSON path semantics in lax and strict mode.

   The semantics is spec/Sem.v (trace semantics, DESIGN.md appendix D); the entry
   point is its projection spec/Proj.p_query.  The theorem below says that the
   executor model M (model/Exec.v, the function-by-function transliteration of
   path/exec that the correspondence check compares with the implementation)
   returns exactly that projection — items in order, and the error class — for
   EVERY path, document, variable map and option set, by induction (proofs/Refine.v,
   2,700 lines), with no bound on sizes or depths.

   Side conditions, all syntactic, all satisfied by parser output except where a
   known finding is recorded:
     p_root p <> [], ne_ops   operand chains evaluated as paths are non-empty — true
                              of every parser-produced path ([C01_parser_image_side])
     no_kv                    no .keyvalue(): its ids depend on heap identity; the
                              specification leaves them abstract (C16 states their laws)
     exists_ok                no exists(e) whose e ends in a unary + or -  (known
                              finding KF-C06-unary-exists; witness below)
     members_canon L          the specification fixes the iteration order of object
                              members to list order; the property leaves it open
   The specification is taken with [quirks_code]: two behaviours the unedited test
   suite pins (KF-C14-null-subscript, KF-C11-isunknown-hard-error) are part of it;
   props/C14.v and props/C11.v state the documented rule and refute it for the code.

   For paths that contain neither an array subscript nor "is unknown" ([quirk_free],
   proofs/QuirkFree.v) the two switches are never read, so for them the theorem holds
   with the DOCUMENTED semantics [quirks_ideal] ([C01_query_conforms_to_documented_semantics]);
   both exclusions are needed ([C01_subscript_exclusion_needed],
   [C01_isunknown_exclusion_needed]). *)
From SJ Require Import lib.Base model.Json model.Ast model.ExecLib model.Leaf model.Exec
     spec.Sem spec.Proj model.Parser proofs.RefineDefs proofs.Refine proofs.RefineClosed
     proofs.RefineWf proofs.RefineWitness proofs.QuirkFree.

Theorem C01_query_is_the_trace :
  forall (L : ExecLib) (p : path) (doc : json) (o : opts),
    o_cancel_at o = None -> members_canon L -> p_root p <> [] ->
    no_kv (p_root p) = true -> exists_ok (p_root p) = true -> ne_ops (p_root p) = true ->
    forall fuel q, Query L fuel p doc o = Ret q ->
    qres_sim q (p_query (o_silent o) (sem_of L quirks_code p doc o)).
Proof. exact query_is_trace. Qed.
Print Assumptions C01_query_is_the_trace.

(* the refinement itself, for every request of the executor (item, wildcard loop, predicate) *)
Theorem C01_refinement :
  forall (L : ExecLib) (E : env) (C : cenv),
  agrees E C -> e_cancel_at E = None -> members_canon L ->
  forall fuel,
  (forall n v found u s r s',
      run L E fuel (RItem n v found u) s = Ret (AItem r, s') ->
      n <> [] -> no_kv n = true -> exists_ok n = true -> ne_ops n = true ->
      (found = None -> unary_tail_free n = true) ->
      R found (sem_chain L C quirks_code n (cur s) (last_size s) (ign s) u v) (verbose s) r) /\
  (forall n vs found level first last ignFlag un s r s',
      run L E fuel (RAny n vs found level first last ignFlag un) s = Ret (AItem r, s') ->
      no_kv n = true -> exists_ok n = true -> ne_ops n = true ->
      (found = None -> unary_tail_free n = true) ->
      R found (descend (fun x => sem_chain L C quirks_code n (cur s) (last_size s) (ignFlag || ign s) un x)
                 vs level first last) (verbose s) r) /\
  (forall q next v c s p s',
      run L E fuel (RBool (q :: next) v c) s = Ret (ABool p, s') ->
      no_kv (q :: next) = true -> exists_ok (q :: next) = true -> ne_ops (q :: next) = true ->
      (c = false -> next = []) ->
      (p_out p, option_map eclass (p_err p)) =
      (fst (sem_pred L C quirks_code q (cur s) (last_size s) (ign s) v),
       option_map eclass (snd (sem_pred L C quirks_code q (cur s) (last_size s) (ign s) v)))).
Proof. exact refine_run. Qed.
Print Assumptions C01_refinement.

(* parser output satisfies the two shape conditions *)
Theorem C01_parser_image_side :
  forall G p, wf_path G p -> ne_ops (p_root p) = true /\ p_root p <> [].
Proof. exact wf_path_side. Qed.
Print Assumptions C01_parser_image_side.

(* non-vacuity: a concrete path and document on which all hypotheses hold *)
Example C01_hypotheses_satisfiable :
  no_kv (p_root p_wit) = true /\ exists_ok (p_root p_wit) = true /\ ne_ops (p_root p_wit) = true /\
  unary_tail_free (p_root p_wit) = true /\
  Query L0 20 p_wit doc_wit (o0 false) = Ret (QItems [JNum (NInt 2); JNum (NInt 3)]) /\
  p_query false (sem_of L0 quirks_code p_wit doc_wit (o0 false)) = QItems [JNum (NInt 2); JNum (NInt 3)] /\
  Exists L0 20 p_wit doc_wit (o0 false) = Ret (BVal true) /\
  p_exists true false (sem_of L0 quirks_code p_wit doc_wit (o0 false)) = BVal true.
Proof. exact refinement_witness. Qed.
Print Assumptions C01_hypotheses_satisfiable.

(* the excluded class is real (known finding KF-C06-unary-exists reaches Query through exists()) *)
Example C01_refuted_exists_unary :
  exists_ok (p_root p_ex) = false /\
  no_kv (p_root p_ex) = true /\ ne_ops (p_root p_ex) = true /\
  Query L0 10 p_ex JNull (o0 false) = Ret (QItems [JBool true]) /\
  p_query false (sem_of L0 quirks_code p_ex JNull (o0 false)) = QItems [JNull].
Proof. exact exists_ok_needed. Qed.
Print Assumptions C01_refuted_exists_unary.

(* ---- conformance to the documented semantics (quirks_ideal) on quirk-free paths ---- *)

(* the executor model returns the projection of the IDEAL trace for every path that
   contains neither an array subscript nor "is unknown" *)
Theorem C01_query_conforms_to_documented_semantics :
  forall (L : ExecLib) (p : path) (doc : json) (o : opts),
    o_cancel_at o = None -> members_canon L -> p_root p <> [] ->
    no_kv (p_root p) = true -> exists_ok (p_root p) = true -> ne_ops (p_root p) = true ->
    quirk_free (p_root p) = true ->
    forall fuel q, Query L fuel p doc o = Ret q ->
    qres_sim q (p_query (o_silent o) (sem_of L quirks_ideal p doc o)).
Proof. exact query_conforms_ideal. Qed.
Print Assumptions C01_query_conforms_to_documented_semantics.

(* the semantics does not read the quirk switches on such paths *)
Theorem C01_quirk_switches_irrelevant :
  forall (L : ExecLib) (Q Q' : quirks) (p : path) (doc : json) (o : opts),
    quirk_free (p_root p) = true -> sem_of L Q p doc o = sem_of L Q' p doc o.
Proof. exact sem_of_quirk_free. Qed.
Print Assumptions C01_quirk_switches_irrelevant.

(* each switch on its own: subscript-free paths do not depend on q_skip_null,
   "is unknown"-free paths do not depend on q_iu_swallow *)
Theorem C01_skip_null_switch_irrelevant :
  forall (L : ExecLib) (Q Q' : quirks) (p : path) (doc : json) (o : opts),
    q_iu_swallow Q = q_iu_swallow Q' -> index_free (p_root p) = true ->
    sem_of L Q p doc o = sem_of L Q' p doc o.
Proof. exact sem_of_index_free. Qed.
Print Assumptions C01_skip_null_switch_irrelevant.

Theorem C01_iu_swallow_switch_irrelevant :
  forall (L : ExecLib) (Q Q' : quirks) (p : path) (doc : json) (o : opts),
    q_skip_null Q = q_skip_null Q' -> isunknown_free (p_root p) = true ->
    sem_of L Q p doc o = sem_of L Q' p doc o.
Proof. exact sem_of_isunknown_free. Qed.
Print Assumptions C01_iu_swallow_switch_irrelevant.

(* non-vacuity: all hypotheses of C01_query_conforms_to_documented_semantics hold of
   lax $.a ? (@ > 1) on {"a": [1,2,3]} *)
Example C01_quirk_free_satisfiable :
  quirk_free (p_root p_wit) = true /\
  no_kv (p_root p_wit) = true /\ exists_ok (p_root p_wit) = true /\ ne_ops (p_root p_wit) = true /\
  unary_tail_free (p_root p_wit) = true /\
  o_cancel_at (o0 false) = None /\ members_canon L0 /\ p_root p_wit <> [] /\
  Query L0 20 p_wit doc_wit (o0 false) = Ret (QItems [JNum (NInt 2); JNum (NInt 3)]) /\
  p_query false (sem_of L0 quirks_ideal p_wit doc_wit (o0 false)) = QItems [JNum (NInt 2); JNum (NInt 3)].
Proof. exact quirk_free_witness. Qed.
Print Assumptions C01_quirk_free_satisfiable.

(* the subscript exclusion is needed: lax $[0 to 1] on [null, 1] (KF-C14-null-subscript) *)
Example C01_subscript_exclusion_needed :
  index_free (p_root p_sub) = false /\ isunknown_free (p_root p_sub) = true /\
  quirk_free (p_root p_sub) = false /\
  no_kv (p_root p_sub) = true /\ exists_ok (p_root p_sub) = true /\ ne_ops (p_root p_sub) = true /\
  sem_of L0 quirks_code p_sub doc_sub (o0 false) = ([JNum (NInt 1)], None) /\
  sem_of L0 quirks_ideal p_sub doc_sub (o0 false) = ([JNull; JNum (NInt 1)], None) /\
  sem_of L0 quirks_code p_sub doc_sub (o0 false) <> sem_of L0 quirks_ideal p_sub doc_sub (o0 false) /\
  Query L0 20 p_sub doc_sub (o0 false) = Ret (QItems [JNum (NInt 1)]) /\
  ~ qres_sim (QItems [JNum (NInt 1)]) (p_query false (sem_of L0 quirks_ideal p_sub doc_sub (o0 false))).
Proof. exact subscript_exclusion_needed. Qed.
Print Assumptions C01_subscript_exclusion_needed.

(* the "is unknown" exclusion is needed: lax ($missing == 1) is unknown with no
   variable bound (KF-C11-isunknown-hard-error) *)
Example C01_isunknown_exclusion_needed :
  isunknown_free (p_root p_iu) = false /\ index_free (p_root p_iu) = true /\
  quirk_free (p_root p_iu) = false /\
  no_kv (p_root p_iu) = true /\ exists_ok (p_root p_iu) = true /\ ne_ops (p_root p_iu) = true /\
  sem_of L0 quirks_code p_iu JNull (o0 false) = ([JBool true], None) /\
  sem_of L0 quirks_ideal p_iu JNull (o0 false) = ([], Some (EExec "could not find jsonpath variable")) /\
  sem_of L0 quirks_code p_iu JNull (o0 false) <> sem_of L0 quirks_ideal p_iu JNull (o0 false) /\
  Query L0 20 p_iu JNull (o0 false) = Ret (QItems [JBool true]) /\
  ~ qres_sim (QItems [JBool true]) (p_query false (sem_of L0 quirks_ideal p_iu JNull (o0 false))).
Proof. exact isunknown_exclusion_needed. Qed.
Print Assumptions C01_isunknown_exclusion_needed.
