(* C03 — Every documented spelling parses to the grammar's tree; the value of a
   token never depends on what follows it.

   Token level (one Lex call of a fresh lexer, [lex_one L (w ++ rest)], returns the
   token and leaves exactly [rest] as its one-rune look-ahead view [view rest]):
   identifiers in every spelling (raw XID runes, \b \f \n \r \t \v, \xHH, \uHHHH,
   surrogate pairs, \u{H..H}, \c), end of input included ([C03_identifier_at_eof] is
   the case repaired by 14fb914); quoted strings and quoted variables in the
   printer's spelling; every operator and punctuation spelling incl. <> vs !=; every
   number form (0, decimal, 0x 0o 0b, single underscores, D.D .D D. DeD De+D D.DeD ...);
   keywords in any ASCII letter case (true false null are case-sensitive in lex.go).
   Numbers denote their mathematical value: the decimal case from Laws; for the
   prefixed / underscored / fractional forms the value statement takes the
   corresponding fact about strconv.ParseInt / ParseFloat as an explicit premise
   (candidates for Laws; lib/Strconv.v agrees with them on the probes of
   proofs/LexTokens.v).
   White space and /* */ comments: a filler in front of any token, hence between any
   two tokens, does not change the token list ([C03_filler_*]); parse is a function
   of the token list.
   Precedence / associativity: the text WITHOUT the outer parentheses that String()
   adds parses to the same tree by the levels OR < AND < comparison < + - < * / % <
   unary alone ([C03_precedence_no_outer_parens]); a redundant pair of parentheses
   around the whole expression is ignored ([C03_redundant_parens]); p_pred is true
   iff the top level is a predicate ([C03_pred_flag]).
   Keyword and precedence tables are pinned to the tables generated from /repo
   (gen/Keywords.v, gen/Priorities.v): a change to identToken or to the %left lines
   of grammar.y breaks [C03_keywords_match_source] / [C03_grammar_precedence_matches].
   Known finding kept, (d): strings.ToLower is Unicode-aware, so U+212A KELVIN SIGN
   and U+0130 fold onto ASCII letters and make keywords ([C03_kelvin_sign_keyword],
   [C03_dotted_capital_I_keyword]); the all-ASCII theorem is unaffected.
   Repaired finding found through this property: 7b213f1 (.**{0x10} meant .**{0}).
   Hypotheses: Laws L (lib/GoLib.v) where stated; wf_path / excl_C02 as in props/C02.v
   for the precedence theorems. *)
From SJ Require Import lib.Base lib.Utf8 lib.GoLib model.Json model.Ast model.Lexer model.Parser
  model.Printer proofs.LexProofs proofs.QuoteProofs proofs.RoundTrip proofs.Tokens proofs.LexFuel
  proofs.LexTokens proofs.ParserMain proofs.ParserTables gen.Keywords gen.Priorities.
Local Open Scope Z_scope.
Local Open Scope list_scope.

Theorem C03_operators : forall L : GoLib, Laws L -> Forall (op_entry_independent L) op_table.
Proof. exact operators_independent. Qed.
Print Assumptions C03_operators.

Theorem C03_keyword_case_insensitive : forall L : GoLib, Laws L ->
  forall (v w : string) (k : kw),
    In (w, k) kw_table -> all_ascii v = true -> str_lower v = w -> ident_token L v = TKw k.
Proof. exact kw_case_insensitive. Qed.
Print Assumptions C03_keyword_case_insensitive.

Theorem C03_identifier : forall L : GoLib, Laws L ->
  forall (it : item) (items : list item) (rest : list Z),
    item_ok L true it -> Forall (item_ok L false) items -> ident_boundary L rest = true ->
    let txt := string_of_runes (map value (it :: items)) in
    lex_one L (flat_map spell (it :: items) ++ rest) =
      LOk (Some (mktok (ident_token L txt) txt), fst (view rest), snd (view rest)).
Proof. exact ident_token_independent1. Qed.
Print Assumptions C03_identifier.

Theorem C03_identifier_at_eof : forall L : GoLib, Laws L ->
  forall (it : item) (items : list item),
    item_ok L true it -> Forall (item_ok L false) items ->
    let txt := string_of_runes (map value (it :: items)) in
    lex_one L (flat_map spell (it :: items)) = LOk (Some (mktok (ident_token L txt) txt), -1, []).
Proof. exact ident_escape_at_eof. Qed.
Print Assumptions C03_identifier_at_eof.

Theorem C03_quoted_string : forall L : GoLib, Laws L ->
  forall rs rest : list Z,
    forallb good_rune rs = true -> readable_head rest = true ->
    lex_one L (34 :: flat_map (qr_runes L) rs ++ 34 :: rest) =
      LOk (Some (mktok TString (string_of_runes rs)), fst (view rest), snd (view rest)).
Proof. exact string_token_independent. Qed.
Print Assumptions C03_quoted_string.

Theorem C03_quoted_variable : forall L : GoLib, Laws L ->
  forall rs rest : list Z,
    forallb good_rune rs = true -> readable_head rest = true ->
    lex_one L (36 :: 34 :: flat_map (qr_runes L) rs ++ 34 :: rest) =
      LOk (Some (mktok TVariable (string_of_runes rs)), fst (view rest), snd (view rest)).
Proof. exact variable_token_independent. Qed.
Print Assumptions C03_quoted_variable.

Theorem C03_integer : forall L : GoLib, Laws L ->
  forall ip rest : list Z,
    ipart_ok ip = true -> int_boundary L rest = true ->
    lex_one L (ip ++ rest) = LOk (Some (mktok TInt (str_of_bytes ip)), fst (view rest), snd (view rest)).
Proof. exact int_independent. Qed.
Print Assumptions C03_integer.

Theorem C03_prefixed_integer : forall L : GoLib, Laws L ->
  forall (p base : Z) (run rest : list Z),
    prefix_base p = Some base -> sep_ok (bdigit base) false run = true -> num_boundary L rest = true ->
    lex_one L (48 :: p :: run ++ rest) =
      LOk (Some (mktok TInt (str_of_bytes (48 :: p :: run))), fst (view rest), snd (view rest)).
Proof. exact prefixed_int_independent. Qed.
Print Assumptions C03_prefixed_integer.

Theorem C03_numeric_dot : forall L : GoLib, Laws L ->
  forall (ip frac : list Z) (x : expo) (rest : list Z),
    ipart_ok ip = true -> frac_ok frac = true -> exp_ok x = true -> num_boundary L rest = true ->
    let text := ip ++ 46 :: frac ++ exp_text x in
    lex_one L (text ++ rest) =
      LOk (Some (mktok TNumeric (str_of_bytes text)), fst (view rest), snd (view rest)).
Proof. exact numeric_dot_independent. Qed.
Print Assumptions C03_numeric_dot.

Theorem C03_numeric_leading_dot : forall L : GoLib, Laws L ->
  forall (frac : list Z) (x : expo) (rest : list Z),
    drun frac = true -> exp_ok x = true -> num_boundary L rest = true ->
    let text := 46 :: frac ++ exp_text x in
    lex_one L (text ++ rest) =
      LOk (Some (mktok TNumeric (str_of_bytes text)), fst (view rest), snd (view rest)).
Proof. exact numeric_leading_dot_independent. Qed.
Print Assumptions C03_numeric_leading_dot.

Theorem C03_numeric_exponent : forall L : GoLib, Laws L ->
  forall (ip : list Z) (e : Z) (s run rest : list Z),
    ipart_ok ip = true -> exp_ok (Exp e s run) = true -> num_boundary L rest = true ->
    let text := ip ++ e :: s ++ run in
    lex_one L (text ++ rest) =
      LOk (Some (mktok TNumeric (str_of_bytes text)), fst (view rest), snd (view rest)).
Proof. exact numeric_exp_independent. Qed.
Print Assumptions C03_numeric_exponent.

Theorem C03_decimal_value : forall L : GoLib, Laws L ->
  forall ip : list Z,
    ipart_ok ip = true -> has_us ip = false ->
    parse_int0 L (str_of_bytes ip) =
      (if run_value 10 ip <=? max_int64 then Some (run_value 10 ip) else None).
Proof. exact int_value_nosep. Qed.
Print Assumptions C03_decimal_value.

Theorem C03_prefixed_value : forall L : GoLib, Laws L ->
  (forall (p base : Z) (run : list Z),
     prefix_base p = Some base -> sep_ok (bdigit base) false run = true ->
     parse_int0 L (str_of_bytes (48 :: p :: run)) =
       (if run_value base run <=? max_int64 then Some (run_value base run) else None)) ->
  forall (p base : Z) (run rest : list Z),
    prefix_base p = Some base -> sep_ok (bdigit base) false run = true -> num_boundary L rest = true ->
    exists t : string,
      lex_one L (48 :: p :: run ++ rest) = LOk (Some (mktok TInt t), fst (view rest), snd (view rest)) /\
      new_integer L t = int_result (run_value base run).
Proof. exact prefixed_int_token_value. Qed.
Print Assumptions C03_prefixed_value.

Theorem C03_numeric_value : forall L : GoLib, Laws L ->
  (forall (ip frac : list Z) (x : expo),
     ipart_ok ip = true -> frac_ok frac = true -> exp_ok x = true ->
     parse_float L (str_of_bytes (ip ++ 46 :: frac ++ exp_text x)) =
       Some (numeric_value ip frac x, f64_inf (numeric_value ip frac x))) ->
  forall (ip frac : list Z) (x : expo) (rest : list Z),
    ipart_ok ip = true -> frac_ok frac = true -> exp_ok x = true -> num_boundary L rest = true ->
    exists t : string,
      lex_one L ((ip ++ 46 :: frac ++ exp_text x) ++ rest) =
        LOk (Some (mktok TNumeric t), fst (view rest), snd (view rest)) /\
      new_numeric L t = num_result (numeric_value ip frac x).
Proof. exact numeric_dot_token_value. Qed.
Print Assumptions C03_numeric_value.

Theorem C03_whitespace_insensitive : forall (L : GoLib) (ws l : list Z),
  forallb is_ws ws = true -> lex_runes L (ws ++ l) = lex_runes L l.
Proof. exact ws_insensitive. Qed.
Print Assumptions C03_whitespace_insensitive.

Theorem C03_comment_insensitive : forall L : GoLib, Laws L ->
  forall body l : list Z,
    comment_body body = true -> lex_runes L ([47; 42] ++ body ++ [42; 47] ++ l) = lex_runes L l.
Proof. exact comment_insensitive. Qed.
Print Assumptions C03_comment_insensitive.

Theorem C03_filler_insensitive : forall L : GoLib, Laws L ->
  forall g l : list Z, filler g -> lex_runes L (g ++ l) = lex_runes L l.
Proof. exact filler_insensitive. Qed.
Print Assumptions C03_filler_insensitive.

Theorem C03_filler_before_token : forall L : GoLib, Laws L ->
  forall (g w : list Z) (t : token) (rest : list Z),
    filler g -> readable_head rest = true ->
    lex_one L (w ++ rest) = LOk (Some t, fst (view rest), snd (view rest)) ->
    lex_runes L (g ++ w ++ rest) = t :: lex_runes L rest.
Proof. exact filler_token. Qed.
Print Assumptions C03_filler_before_token.

Theorem C03_filler_between_tokens : forall L : GoLib, Laws L ->
  forall (w : list Z) (t : token) (g rest : list Z),
    filler g -> readable_head (g ++ rest) = true ->
    lex_one L (w ++ g ++ rest) = LOk (Some t, fst (view (g ++ rest)), snd (view (g ++ rest))) ->
    lex_runes L (w ++ g ++ rest) = t :: lex_runes L rest.
Proof. exact filler_between. Qed.
Print Assumptions C03_filler_between_tokens.

Theorem C03_precedence_no_outer_parens : forall L : GoLib, Laws L ->
  forall p : path, wf_path L p -> excl_C02 p = false ->
    parse L (mode_string p ++ print_chain L (p_root p) false false)%string = POk p.
Proof. exact parse_noparen. Qed.
Print Assumptions C03_precedence_no_outer_parens.

Theorem C03_redundant_parens : forall L : GoLib, Laws L ->
  forall (p : path) (wp : bool), wf_path L p -> excl_C02 p = false ->
    parse L (mode_string p ++ "(" ++ print_chain L (p_root p) false wp ++ ")")%string = POk p.
Proof. exact parse_extra_paren. Qed.
Print Assumptions C03_redundant_parens.

Theorem C03_pred_flag : forall L : GoLib, Laws L ->
  forall (s : string) (p : path), parse L s = POk p -> p_pred p = is_pred_chain (p_root p).
Proof. exact parse_pred_flag. Qed.
Print Assumptions C03_pred_flag.

(* the model's tables are the ones in /repo *)
Example C03_keywords_match_source : model_keywords_ci = keywords_case_insensitive.
Proof. vm_compute. reflexivity. Qed.
Print Assumptions C03_keywords_match_source.
Example C03_case_sensitive_keywords_match_source :
  forall L, model_keywords_cs L = keywords_case_sensitive.
Proof. reflexivity. Qed.
Print Assumptions C03_case_sensitive_keywords_match_source.
Example C03_grammar_precedence_matches : model_grammar_precedence = grammar_precedence.
Proof. vm_compute. reflexivity. Qed.
Print Assumptions C03_grammar_precedence_matches.
Example C03_parser_levels : parser_levels_ok = true.
Proof. vm_compute. reflexivity. Qed.
Print Assumptions C03_parser_levels.

(* finding (d), with the real Unicode tables *)
Example C03_kelvin_sign_keyword :
  ident_token CL (string_of_runes [8490; 101; 121; 118; 97; 108; 117; 101]) = TKw KKeyvalue.
Proof. exact kelvin_keyvalue. Qed.
Print Assumptions C03_kelvin_sign_keyword.
Example C03_dotted_capital_I_keyword : ident_token CL (string_of_runes [304; 115]) = TKw KIs.
Proof. exact dotted_I_is. Qed.
Print Assumptions C03_dotted_capital_I_keyword.

(* spellings, on the concrete library *)
Example C03_spellings_same_tree :
  map (parse CL)
      ["$.a != 1"; "$.a<>1"; "$ . a /* c */ <> 0x1"; "$.""a"" != 0b1"; "$.a != 0o1";
       "$.\x61!=1_0 - 9"]%string
  = map (fun _ => POk (mkpath true true [SBin BNe [SConst CRoot; SKey "a"] [SInteger 1]]))
        [1; 2; 3; 4; 5] ++
    [POk (mkpath true true [SBin BNe [SConst CRoot; SKey "a"] [SBin BSub [SInteger 10] [SInteger 9]]])].
Proof. vm_compute. reflexivity. Qed.
Print Assumptions C03_spellings_same_tree.
