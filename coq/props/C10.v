(* C10 — A filter keeps exactly the items for which its condition is true.

   "The result of P ? (C) is the order-preserving subsequence of P's items (after one
   level of array unwrapping in lax mode) for which C evaluates to true with @ bound
   to the item; items for which C is false or unknown - including unknown caused by a
   suppressible error inside C - are dropped without aborting the query, and no item
   is altered or duplicated.  An item is kept exactly when C, rewritten as a predicate
   check expression over that item, yields true, and in strict mode consecutive
   filters (free of non-suppressible errors) equal one filter on their conjunction."

   What is stated about which object.
   (1) The filter STEP of the specification S (spec/Sem.v), for all libraries,
       environments, quirk settings, conditions c, continuations, @, last, flags:
       [C10_filter_step] — ? (c) on a value v runs over candidates u v (v itself, or
       the elements of v when v is an array and u, the lax-mode unwrap flag, is set:
       [C10_candidates_*] — one level, never more) and does with each candidate x what
       [C10_filter_item_is] says: c is evaluated with @ := x (sem_pred c x l ig x);
       a non-suppressible error aborts, true hands x itself to the rest of the path,
       false/unknown hand on nothing.  Consequences: [C10_filter_items] (no hard
       error: the result is List.filter of the candidates), [C10_filter_never_aborts],
       [C10_filter_sublist] / [C10_filter_sublist_always] (order-preserving
       subsequence — sublist: built by keeping or skipping each element, so nothing
       altered, duplicated or reordered: [C10_sublist_*]; unconditionally, also when
       a hard error cuts the result short), [C10_filter_keeps_iff],
       [C10_unknown_drops], [C10_filter_ignores_outer_cur].
   (2) The PATH P ? (c) against the path P: [C10_filter_of_prefix] — the trace of
       P ? (c) is the filter run over the items of P in order, P's own failure last
       ([C09_bind_is] in props/C09.v); [C10_filter_of_prefix_items] — P succeeded, no
       hard error: exactly filter over the candidates of P's items;
       [C10_filter_of_prefix_sublist] — always a subsequence, every returned item
       made c true.
   (3) "unknown caused by a suppressible error inside C": [C10_*_suppressed_*] for
       comparisons, starts with, like_regex, exists (strict: any failure of the
       operand; lax: a failure before the first item, [C10_exists_lax_first_item]
       says a first item answers true whatever follows); [C10_cmp_hard_left]: a
       NON-suppressible one is passed on.  Connectives (&&, ||, !, is unknown) over
       unknown are props/C11.v.
   (4) "rewritten as a predicate check expression": subst_step replaces @ by $ outside
       nested filters (which rebind @; [C10_subst_examples]).  [C10_subst_cur_root],
       [C10_subst_sound]: c on item x = subst_step c with x as the document, whatever
       @ then is; [C10_kept_iff_predicate_check]: kept <-> the path [subst_step c] on
       document x returns exactly [true].
   (5) [C10_filters_fuse]: strict mode, no hard error in either condition on any
       candidate: ? (c1) ? (c2) rest = ? (c1 && c2) rest.  Both side conditions are
       needed: [C10_fuse_needs_strict], [C10_fuse_needs_no_hard_error].
   (6) The executor model M, through RefineClosed.query_is_trace (props/C01.v; S taken
       with quirks_code): [C10_model_filter] — M's Query on P ? (c) returns the
       projection of the trace of (2); [C10_model_predicate_check] — M's Query on the
       predicate check expression, run on the item, answers [true] exactly when the
       filter keeps the item.  That @ is the outer item again after a nested filter is
       props/C09.v ([C09_model_context_restored], [C09_after_filter]).

   Hypotheses, all satisfiable ([C10_witness_strict], [C10_subst_hypotheses_witness],
   [C10_model_hypotheses_satisfiable]):
     forall x in candidates, snd (sem_pred c x l ig x) = None   no non-suppressible
                          error in the condition; without it the query aborts
                          ([C10_hard_error_aborts]) and only _sublist_always holds
     last_closed [? (c)]  c has no last outside its own subscripts (the parser rejects such a
                          last; no lemma links Parser.validate_chain to this predicate)
     c_lax C = true \/ any_free P = true   no .** in P in strict mode (props/C09.v)
     indep c true false true / false   c does not mention $ (and no free last): the
                          rewriting turns @ into $, a $ already there would change meaning
     SemBasics.is_pred_step c   c is a predicate (what the parser puts in a filter)
     for M: o_cancel_at o = None, members_canon L, no_kv, exists_ok, ne_ops (props/C01.v)

   Known findings naming C10.
   - fixed in c714021 (a filter returned (NotFound, err) for a non-suppressible error
     of its condition, losing the error): S never had it (first case of
     [C10_filter_item_is]); M is the repaired code: [C10_model_hard_error_aborts].
   - KF-C11-isunknown-hard-error (open, in S through quirks_code): "(c) is unknown"
     turns a hard error of c into true, so ? ((c) is unknown) KEEPS the item where the
     documented rule aborts: [C10_isunknown_quirk_in_filter].  All statements here are
     for every Q : quirks and speak of the value sem_pred gives, so none is restricted;
     the finding changes which conditions count as hard-error-free.
   - KF-C14-null-subscript (open, quirks_code): concerns the items a subscript in P or
     in C selects, not the filter; statements hold for every Q.
   - KF-C06-unary-exists (open): exists(e) with e ending in unary +/- in lax mode, M
     differs from S; excluded from (6) by exists_ok, does not touch (1)-(5).

   Not covered: M's Query(P ? (C)) against M's Query(P) as two executions ((6) relates
   it to the specification's trace of P; the correspondence leg runs both); First /
   Exists / Match on filtered paths (props/C06.v on the trace); fusion of filters in
   lax mode is false ([C10_fuse_needs_strict]); conditions that are not a single
   predicate step fail with ErrInvalid ([C10_filter_bad_condition]; the parser builds none). *)
From SJ Require Import lib.Base model.Json model.Ast model.ExecLib model.Leaf model.Exec
     spec.Sem spec.Proj proofs.SemBasics proofs.RefineDefs proofs.Refine proofs.RefineWitness
     proofs.DescendProofs proofs.ComposeProofs proofs.FilterProofs proofs.PropGlue_CF.

(* ---------- (1) the filter step ---------- *)

Theorem C10_filter_step :
  forall (L : ExecLib) (C : cenv) (Q : quirks) (c : step) (k : Z -> bool -> json -> trace)
         (cur : json) (l : Z) (ig u : bool) (v : json),
    sem_step L C Q (SUn UFilter [c]) k cur l ig u v =
    tbind_list (candidates u v) (filter_item L C Q c l ig (k l ig)).
Proof. exact filter_spec. Qed.
Print Assumptions C10_filter_step.

(* what the filter does with one candidate x: @ is bound to x *)
Theorem C10_filter_item_is :
  forall (L : ExecLib) (C : cenv) (Q : quirks) (c : step) (l : Z) (ig : bool) (k : json -> trace) (x : json),
    filter_item L C Q c l ig k x =
    match sem_pred L C Q c x l ig x with
    | (_, Some e) => tfail e
    | (PTrue, None) => k x
    | (_, None) => tnil
    end.
Proof. exact filter_item_eq. Qed.
Print Assumptions C10_filter_item_is.

(* the candidates: one level of unwrapping when u (lax mode), never more *)
Theorem C10_candidates_array : forall (t : Z) (es : list json), candidates true (JArr t es) = es.
Proof. exact candidates_array. Qed.
Print Assumptions C10_candidates_array.

Theorem C10_candidates_strict : forall v : json, candidates false v = [v].
Proof. exact candidates_strict. Qed.
Print Assumptions C10_candidates_strict.

Theorem C10_candidates_non_array : forall (u : bool) (v : json), is_array v = false -> candidates u v = [v].
Proof. exact candidates_non_array. Qed.
Print Assumptions C10_candidates_non_array.

(* the filter does not depend on the outer @ *)
Theorem C10_filter_ignores_outer_cur :
  forall (L : ExecLib) (C : cenv) (Q : quirks) (c : step) (k : Z -> bool -> json -> trace)
         (cur cur' : json) (l : Z) (ig u : bool) (v : json),
    sem_step L C Q (SUn UFilter [c]) k cur l ig u v = sem_step L C Q (SUn UFilter [c]) k cur' l ig u v.
Proof. exact filter_ignores_outer_cur. Qed.
Print Assumptions C10_filter_ignores_outer_cur.

(* no hard error: the rest of the path runs on the filtered candidate list *)
Theorem C10_filter_no_hard_error :
  forall (L : ExecLib) (C : cenv) (Q : quirks) (c : step) (k : Z -> bool -> json -> trace)
         (cur : json) (l : Z) (ig u : bool) (v : json),
    (forall x, In x (candidates u v) -> snd (sem_pred L C Q c x l ig x) = None) ->
    sem_step L C Q (SUn UFilter [c]) k cur l ig u v =
    tbind_list (filter (fun x => match fst (sem_pred L C Q c x l ig x) with PTrue => true | _ => false end)
                       (candidates u v))
               (k l ig).
Proof. exact filter_no_hard_error. Qed.
Print Assumptions C10_filter_no_hard_error.

Theorem C10_filter_items :
  forall (L : ExecLib) (C : cenv) (Q : quirks) (c : step) (cur : json) (l : Z) (ig u : bool) (v : json),
    (forall x, In x (candidates u v) -> snd (sem_pred L C Q c x l ig x) = None) ->
    sem_step L C Q (SUn UFilter [c]) (fun _ _ x => tone x) cur l ig u v =
    (filter (fun x => match fst (sem_pred L C Q c x l ig x) with PTrue => true | _ => false end)
            (candidates u v), None).
Proof. exact filter_items. Qed.
Print Assumptions C10_filter_items.

(* false and unknown drop the item without aborting *)
Theorem C10_filter_never_aborts :
  forall (L : ExecLib) (C : cenv) (Q : quirks) (c : step) (cur : json) (l : Z) (ig u : bool) (v : json),
    (forall x, In x (candidates u v) -> snd (sem_pred L C Q c x l ig x) = None) ->
    snd (sem_step L C Q (SUn UFilter [c]) (fun _ _ x => tone x) cur l ig u v) = None.
Proof. exact filter_never_aborts. Qed.
Print Assumptions C10_filter_never_aborts.

(* order-preserving subsequence; no item altered or duplicated *)
Theorem C10_filter_sublist :
  forall (L : ExecLib) (C : cenv) (Q : quirks) (c : step) (cur : json) (l : Z) (ig u : bool) (v : json),
    (forall x, In x (candidates u v) -> snd (sem_pred L C Q c x l ig x) = None) ->
    sublist (fst (sem_step L C Q (SUn UFilter [c]) (fun _ _ x => tone x) cur l ig u v)) (candidates u v).
Proof. exact filter_sublist. Qed.
Print Assumptions C10_filter_sublist.

(* ... unconditionally: even when a hard error aborts, what was returned before is
   such a subsequence and each returned item made the condition true *)
Theorem C10_filter_sublist_always :
  forall (L : ExecLib) (C : cenv) (Q : quirks) (c : step) (cur : json) (l : Z) (ig u : bool) (v : json),
    sublist (fst (sem_step L C Q (SUn UFilter [c]) (fun _ _ x => tone x) cur l ig u v)) (candidates u v) /\
    Forall (fun x => match fst (sem_pred L C Q c x l ig x) with PTrue => true | _ => false end = true)
           (fst (sem_step L C Q (SUn UFilter [c]) (fun _ _ x => tone x) cur l ig u v)).
Proof. exact filter_sublist_always. Qed.
Print Assumptions C10_filter_sublist_always.

(* what sublist means *)
Theorem C10_sublist_of_filter : forall (A : Type) (p : A -> bool) (l : list A), sublist (filter p l) l.
Proof. exact @sublist_filter. Qed.
Print Assumptions C10_sublist_of_filter.

Theorem C10_sublist_in : forall (A : Type) (l1 l2 : list A) (x : A), sublist l1 l2 -> In x l1 -> In x l2.
Proof. exact @sublist_in. Qed.
Print Assumptions C10_sublist_in.

Theorem C10_sublist_length :
  forall (A : Type) (l1 l2 : list A), sublist l1 l2 -> (List.length l1 <= List.length l2)%nat.
Proof. exact @sublist_length. Qed.
Print Assumptions C10_sublist_length.

(* an item is kept exactly when its condition is true *)
Theorem C10_filter_keeps_iff :
  forall (L : ExecLib) (C : cenv) (Q : quirks) (c : step) (cur : json) (l : Z) (ig u : bool) (v y : json),
    (forall x, In x (candidates u v) -> snd (sem_pred L C Q c x l ig x) = None) ->
    (In y (fst (sem_step L C Q (SUn UFilter [c]) (fun _ _ x => tone x) cur l ig u v)) <->
     In y (candidates u v) /\ sem_pred L C Q c y l ig y = (PTrue, None)).
Proof. exact filter_keeps_iff. Qed.
Print Assumptions C10_filter_keeps_iff.

(* an unknown condition drops the item; the query goes on with the others *)
Theorem C10_unknown_drops :
  forall (L : ExecLib) (C : cenv) (Q : quirks) (c : step) (k : Z -> bool -> json -> trace)
         (cur : json) (l : Z) (ig u : bool) (v : json) (pre : list json) (x : json) (post : list json),
    candidates u v = pre ++ x :: post ->
    sem_pred L C Q c x l ig x = (PUnknown, None) ->
    sem_step L C Q (SUn UFilter [c]) k cur l ig u v =
    tapp (tbind_list pre (filter_item L C Q c l ig (k l ig)))
         (tbind_list post (filter_item L C Q c l ig (k l ig))).
Proof. exact unknown_drops. Qed.
Print Assumptions C10_unknown_drops.

(* a condition chain that is not a single step "should not happen" *)
Theorem C10_filter_bad_condition :
  forall (L : ExecLib) (C : cenv) (Q : quirks) (a : chain) (k : Z -> bool -> json -> trace)
         (cur : json) (l : Z) (ig u : bool) (v : json),
    (forall c, a <> [c]) -> candidates u v <> [] ->
    snd (sem_step L C Q (SUn UFilter a) k cur l ig u v) = Some (EInvalid "boolean jsonpath item").
Proof. exact filter_bad_condition. Qed.
Print Assumptions C10_filter_bad_condition.

(* ---------- (2) P ? (c) against P ---------- *)

Theorem C10_filter_of_prefix :
  forall (L : ExecLib) (C : cenv) (Q : quirks) (P : chain) (c : step),
    last_closed [SUn UFilter [c]] = true ->
    (c_lax C = true \/ any_free P = true) ->
    sem_path L C Q (P ++ [SUn UFilter [c]]) =
    tbind_trace (sem_path L C Q P)
      (fun v => tbind_list (candidates (c_lax C) v) (filter_item L C Q c (-1) (c_lax C) tone)).
Proof. exact filter_of_prefix. Qed.
Print Assumptions C10_filter_of_prefix.

Theorem C10_filter_of_prefix_items :
  forall (L : ExecLib) (C : cenv) (Q : quirks) (P : chain) (c : step) (xs : list json),
    last_closed [SUn UFilter [c]] = true ->
    (c_lax C = true \/ any_free P = true) ->
    sem_path L C Q P = (xs, None) ->
    (forall v x, In v xs -> In x (candidates (c_lax C) v) ->
                 snd (sem_pred L C Q c x (-1) (c_lax C) x) = None) ->
    sem_path L C Q (P ++ [SUn UFilter [c]]) =
    (filter (fun x => match fst (sem_pred L C Q c x (-1) (c_lax C) x) with PTrue => true | _ => false end)
            (flat_map (candidates (c_lax C)) xs), None).
Proof. exact filter_of_prefix_items. Qed.
Print Assumptions C10_filter_of_prefix_items.

Theorem C10_filter_of_prefix_sublist :
  forall (L : ExecLib) (C : cenv) (Q : quirks) (P : chain) (c : step),
    last_closed [SUn UFilter [c]] = true ->
    (c_lax C = true \/ any_free P = true) ->
    sublist (fst (sem_path L C Q (P ++ [SUn UFilter [c]])))
            (flat_map (candidates (c_lax C)) (fst (sem_path L C Q P))) /\
    Forall (fun x => sem_pred L C Q c x (-1) (c_lax C) x = (PTrue, None) \/
                     exists e, sem_pred L C Q c x (-1) (c_lax C) x = (PTrue, Some e))
           (fst (sem_path L C Q (P ++ [SUn UFilter [c]]))).
Proof. exact filter_of_prefix_sublist. Qed.
Print Assumptions C10_filter_of_prefix_sublist.

(* ---------- (3) a suppressible error inside the condition is "unknown" ---------- *)

Theorem C10_cmp_suppressed_left :
  forall (L : ExecLib) (C : cenv) (Q : quirks) (op : binop) (lc rc : chain) (cur : json) (l : Z)
         (ig : bool) (v : json) (e : err),
    is_cmp op = true ->
    snd (sem_chain L C Q lc cur l ig (laxm C) v) = Some e -> is_verbose e = true ->
    sem_pred L C Q (SBin op lc rc) cur l ig v = (PUnknown, None).
Proof. exact cmp_suppressed_left. Qed.
Print Assumptions C10_cmp_suppressed_left.

Theorem C10_cmp_suppressed_right :
  forall (L : ExecLib) (C : cenv) (Q : quirks) (op : binop) (lc rc : chain) (cur : json) (l : Z)
         (ig : bool) (v : json) (e : err),
    is_cmp op = true ->
    snd (sem_chain L C Q lc cur l ig (laxm C) v) = None ->
    snd (sem_chain L C Q rc cur l ig (laxm C) v) = Some e -> is_verbose e = true ->
    sem_pred L C Q (SBin op lc rc) cur l ig v = (PUnknown, None).
Proof. exact cmp_suppressed_right. Qed.
Print Assumptions C10_cmp_suppressed_right.

(* ... whereas a non-suppressible one is passed on (and aborts the query: filter_item) *)
Theorem C10_cmp_hard_left :
  forall (L : ExecLib) (C : cenv) (Q : quirks) (op : binop) (lc rc : chain) (cur : json) (l : Z)
         (ig : bool) (v : json) (e : err),
    is_cmp op = true ->
    snd (sem_chain L C Q lc cur l ig (laxm C) v) = Some e -> is_verbose e = false ->
    sem_pred L C Q (SBin op lc rc) cur l ig v = (PUnknown, Some e).
Proof. exact cmp_hard_left. Qed.
Print Assumptions C10_cmp_hard_left.

Theorem C10_starts_suppressed_left :
  forall (L : ExecLib) (C : cenv) (Q : quirks) (lc rc : chain) (cur : json) (l : Z) (ig : bool)
         (v : json) (e : err),
    snd (sem_chain L C Q lc cur l ig (laxm C) v) = Some e -> is_verbose e = true ->
    sem_pred L C Q (SBin BStartsWith lc rc) cur l ig v = (PUnknown, None).
Proof. exact starts_suppressed_left. Qed.
Print Assumptions C10_starts_suppressed_left.

Theorem C10_starts_suppressed_right :
  forall (L : ExecLib) (C : cenv) (Q : quirks) (lc rc : chain) (cur : json) (l : Z) (ig : bool)
         (v : json) (e : err),
    snd (sem_chain L C Q lc cur l ig (laxm C) v) = None ->
    snd (sem_chain L C Q rc cur l ig (laxm C) v) = Some e -> is_verbose e = true ->
    sem_pred L C Q (SBin BStartsWith lc rc) cur l ig v = (PUnknown, None).
Proof. exact starts_suppressed_right. Qed.
Print Assumptions C10_starts_suppressed_right.

Theorem C10_regex_suppressed :
  forall (L : ExecLib) (C : cenv) (Q : quirks) (a : chain) (pat : string) (flags : Z) (cur : json)
         (l : Z) (ig : bool) (v : json) (e : err),
    snd (sem_chain L C Q a cur l ig (laxm C) v) = Some e -> is_verbose e = true ->
    sem_pred L C Q (SRegex a pat flags) cur l ig v = (PUnknown, None).
Proof. exact regex_suppressed. Qed.
Print Assumptions C10_regex_suppressed.

(* exists: strict mode needs the whole operand to evaluate; lax mode answers from the first item *)
Theorem C10_exists_suppressed_strict :
  forall (L : ExecLib) (C : cenv) (Q : quirks) (a : chain) (cur : json) (l : Z) (ig : bool)
         (v : json) (e : err),
    c_lax C = false ->
    snd (sem_chain L C Q a cur l ig (laxm C) v) = Some e -> is_verbose e = true ->
    sem_pred L C Q (SUn UExists a) cur l ig v = (PUnknown, None).
Proof. exact exists_suppressed_strict. Qed.
Print Assumptions C10_exists_suppressed_strict.

Theorem C10_exists_suppressed_lax :
  forall (L : ExecLib) (C : cenv) (Q : quirks) (a : chain) (cur : json) (l : Z) (ig : bool)
         (v : json) (e : err),
    c_lax C = true ->
    sem_chain L C Q a cur l ig (laxm C) v = ([], Some e) -> is_verbose e = true ->
    sem_pred L C Q (SUn UExists a) cur l ig v = (PUnknown, None).
Proof. exact exists_suppressed_lax. Qed.
Print Assumptions C10_exists_suppressed_lax.

Theorem C10_exists_lax_first_item :
  forall (L : ExecLib) (C : cenv) (Q : quirks) (a : chain) (cur : json) (l : Z) (ig : bool)
         (v x : json) (r : list json) (e : option err),
    c_lax C = true ->
    sem_chain L C Q a cur l ig (laxm C) v = (x :: r, e) ->
    sem_pred L C Q (SUn UExists a) cur l ig v = (PTrue, None).
Proof. exact exists_lax_first_item. Qed.
Print Assumptions C10_exists_lax_first_item.

(* the whole picture for a comparison whose left operand fails with a suppressible
   error on every candidate: nothing is returned, nothing fails *)
Theorem C10_filter_cmp_all_suppressed :
  forall (L : ExecLib) (C : cenv) (Q : quirks) (op : binop) (lc rc : chain)
         (k : Z -> bool -> json -> trace) (cur : json) (l : Z) (ig u : bool) (v : json),
    is_cmp op = true ->
    (forall x, In x (candidates u v) ->
       exists e, snd (sem_chain L C Q lc x l ig (laxm C) x) = Some e /\ is_verbose e = true) ->
    sem_step L C Q (SUn UFilter [SBin op lc rc]) k cur l ig u v = tnil.
Proof. exact filter_cmp_all_suppressed. Qed.
Print Assumptions C10_filter_cmp_all_suppressed.

(* ---------- (4) the predicate check expression ---------- *)

(* the condition of a filter on item x is the rewritten condition evaluated with x as
   the document — whatever @ (cur') then is *)
Theorem C10_subst_cur_root :
  forall (L : ExecLib) (C : cenv) (Q : quirks) (c : step) (x cur' : json) (l : Z) (ig : bool),
    indep c true false false = true ->
    sem_pred L C Q c x l ig x = sem_pred L (set_root C x) Q (subst_step c) cur' l ig x.
Proof. exact subst_cur_root. Qed.
Print Assumptions C10_subst_cur_root.

(* the substitution lemma in general: as a path step and as a predicate, on any value v *)
Theorem C10_subst_sound :
  forall (L : ExecLib) (C : cenv) (Q : quirks) (x cur' : json) (s : step)
         (fl : bool) (l : Z) (ig u : bool) (v : json),
    indep s true false fl = true ->
    sem_step L C Q s (fun _ _ y => tone y) x l ig u v =
      sem_step L (set_root C x) Q (subst_step s) (fun _ _ y => tone y) cur' l ig u v /\
    sem_pred L C Q s x l ig v = sem_pred L (set_root C x) Q (subst_step s) cur' l ig v.
Proof. exact subst_step_sound. Qed.
Print Assumptions C10_subst_sound.

Theorem C10_kept_iff_predicate_check :
  forall (L : ExecLib) (C : cenv) (Q : quirks) (c : step) (x : json) (l : Z),
    SemBasics.is_pred_step c = true ->
    indep c true false true = true ->
    (sem_pred L C Q c x l (laxm C) x = (PTrue, None) <->
     sem_path L (set_root C x) Q [subst_step c] = ([JBool true], None)).
Proof. exact kept_iff_predicate_check. Qed.
Print Assumptions C10_kept_iff_predicate_check.

(* @.a > 1 becomes $.a > 1; a nested filter keeps its own @ *)
Example C10_subst_examples :
  subst_step (SBin BGt [SConst CCurrent; SKey "a"] [SInteger 1]) = SBin BGt [SConst CRoot; SKey "a"] [SInteger 1]
  /\ subst_step (SUn UExists [SConst CCurrent; SUn UFilter [SBin BGt [SConst CCurrent] [SInteger 1]]])
     = SUn UExists [SConst CRoot; SUn UFilter [SBin BGt [SConst CCurrent] [SInteger 1]]].
Proof. exact ex_subst. Qed.
Print Assumptions C10_subst_examples.

Example C10_subst_hypotheses_witness :
  indep (SBin BGt [SConst CCurrent; SKey "a"] [SInteger 1]) true false true = true /\
  SemBasics.is_pred_step (SBin BGt [SConst CCurrent; SKey "a"] [SInteger 1]) = true.
Proof. exact ex_subst_hyps. Qed.
Print Assumptions C10_subst_hypotheses_witness.

(* ---------- (5) consecutive filters = one filter on the conjunction (strict) ---------- *)

Theorem C10_filters_fuse :
  forall (L : ExecLib) (C : cenv) (Q : quirks) (c1 c2 : step) (rest : chain) (cur : json) (l : Z)
         (ig u : bool) (v : json),
    c_lax C = false ->
    (forall x, In x (candidates u v) ->
       snd (sem_pred L C Q c1 x l ig x) = None /\ snd (sem_pred L C Q c2 x l ig x) = None) ->
    sem_chain L C Q (SUn UFilter [c1] :: SUn UFilter [c2] :: rest) cur l ig u v =
    sem_chain L C Q (SUn UFilter [SBin BAnd [c1] [c2]] :: rest) cur l ig u v.
Proof. exact filters_fuse. Qed.
Print Assumptions C10_filters_fuse.

(* ---------- (6) the executor model ---------- *)

Theorem C10_model_filter :
  forall (L : ExecLib) (lax pred : bool) (P : chain) (c : step) (doc : json) (o : opts),
    o_cancel_at o = None -> members_canon L ->
    no_kv (P ++ [SUn UFilter [c]]) = true -> exists_ok (P ++ [SUn UFilter [c]]) = true ->
    ne_ops (P ++ [SUn UFilter [c]]) = true ->
    last_closed [SUn UFilter [c]] = true ->
    (lax = true \/ any_free P = true) ->
    forall fuel q, Query L fuel (mkpath lax pred (P ++ [SUn UFilter [c]])) doc o = Ret q ->
    qres_sim q (p_query (o_silent o)
                  (tbind_trace (sem_of L quirks_code (mkpath lax pred P) doc o)
                     (fun v => tbind_list (candidates lax v)
                        (filter_item L (mkcenv lax doc (o_vars o) (o_useTZ o)) quirks_code c (-1) lax tone)))).
Proof. exact filter_model. Qed.
Print Assumptions C10_model_filter.

Theorem C10_model_predicate_check :
  forall (L : ExecLib) (lax : bool) (c : step) (doc x : json) (l : Z) (o : opts),
    o_cancel_at o = None -> members_canon L ->
    no_kv [subst_step c] = true -> exists_ok [subst_step c] = true -> ne_ops [subst_step c] = true ->
    SemBasics.is_pred_step c = true -> indep c true false true = true ->
    forall fuel q, Query L fuel (mkpath lax true [subst_step c]) x o = Ret q ->
    (q = QItems [JBool true] <->
     sem_pred L (mkcenv lax doc (o_vars o) (o_useTZ o)) quirks_code c x l lax x = (PTrue, None)).
Proof. exact predicate_check_model. Qed.
Print Assumptions C10_model_predicate_check.

(* ---------- witnesses.  fL: a library whose oracles are all trivial (FilterProofs);
   L0, o0 as in props/C01.v ---------- *)

(* strict $[*] ? (@ > 0) ? (@ < 3) on [0,1,2,3,2]: the subsequence 1 2 2 — the
   document's duplicate kept, nothing else duplicated — and the fused filter agrees *)
Example C10_witness_strict :
  sem_path fL (mkcenv false (JArr 0 [JNum (NInt 0); JNum (NInt 1); JNum (NInt 2); JNum (NInt 3); JNum (NInt 2)])
                      [] false) quirks_ideal
    [SConst CRoot; SConst CAnyArray; SUn UFilter [SBin BGt [SConst CCurrent] [SInteger 0]];
     SUn UFilter [SBin BLt [SConst CCurrent] [SInteger 3]]]
  = ([JNum (NInt 1); JNum (NInt 2); JNum (NInt 2)], None)
  /\
  sem_path fL (mkcenv false (JArr 0 [JNum (NInt 0); JNum (NInt 1); JNum (NInt 2); JNum (NInt 3); JNum (NInt 2)])
                      [] false) quirks_ideal
    [SConst CRoot; SConst CAnyArray;
     SUn UFilter [SBin BAnd [SBin BGt [SConst CCurrent] [SInteger 0]] [SBin BLt [SConst CCurrent] [SInteger 3]]]]
  = ([JNum (NInt 1); JNum (NInt 2); JNum (NInt 2)], None).
Proof. exact ex_filter_strict. Qed.
Print Assumptions C10_witness_strict.

(* "strict" is needed for fusion: lax $ ? (@ > 0) ? (@ < 3) on [[1,2]] — the second
   filter unwraps the item the first one kept *)
Example C10_fuse_needs_strict :
  sem_path fL (mkcenv true (JArr 0 [JArr 1 [JNum (NInt 1); JNum (NInt 2)]]) [] false) quirks_ideal
    [SConst CRoot; SUn UFilter [SBin BGt [SConst CCurrent] [SInteger 0]];
     SUn UFilter [SBin BLt [SConst CCurrent] [SInteger 3]]]
  = ([JNum (NInt 1); JNum (NInt 2)], None)
  /\
  sem_path fL (mkcenv true (JArr 0 [JArr 1 [JNum (NInt 1); JNum (NInt 2)]]) [] false) quirks_ideal
    [SConst CRoot;
     SUn UFilter [SBin BAnd [SBin BGt [SConst CCurrent] [SInteger 0]] [SBin BLt [SConst CCurrent] [SInteger 3]]]]
  = ([JArr 1 [JNum (NInt 1); JNum (NInt 2)]], None).
Proof. exact ex_filter_lax_differs. Qed.
Print Assumptions C10_fuse_needs_strict.

(* a suppressible error inside the condition (strict .a on a number) is unknown: the
   item is dropped and the query goes on.  Strict $[*] ? (@.a == 5) on [1,{"a":5},2] *)
Example C10_suppressed_error_drops :
  sem_path fL (mkcenv false (JArr 0 [JNum (NInt 1); JObj 1 [("a", JNum (NInt 5))]%string; JNum (NInt 2)])
                      [] false) quirks_ideal
    [SConst CRoot; SConst CAnyArray; SUn UFilter [SBin BEq [SConst CCurrent; SKey "a"] [SInteger 5]]]
  = ([JObj 1 [("a", JNum (NInt 5))]%string], None).
Proof. exact ex_suppressed. Qed.
Print Assumptions C10_suppressed_error_drops.

(* a non-suppressible error (unbound variable) aborts: strict $[*] ? (@ == $x) *)
Example C10_hard_error_aborts :
  sem_path fL (mkcenv false (JArr 0 [JNum (NInt 1); JObj 1 [("a", JNum (NInt 5))]%string; JNum (NInt 2)])
                      [] false) quirks_ideal
    [SConst CRoot; SConst CAnyArray; SUn UFilter [SBin BEq [SConst CCurrent] [SVar "x"]]]
  = ([], Some (EExec "could not find jsonpath variable")).
Proof. exact ex_hard. Qed.
Print Assumptions C10_hard_error_aborts.

(* "free of non-suppressible errors" is needed for fusion: strict $ ? (@.a == 5) ? (@ == $x)
   on 1 — the first filter drops the item (unknown) before the second is evaluated *)
Example C10_fuse_needs_no_hard_error :
  sem_path fL (mkcenv false (JNum (NInt 1)) [] false) quirks_ideal
    [SConst CRoot; SUn UFilter [SBin BEq [SConst CCurrent; SKey "a"] [SInteger 5]];
     SUn UFilter [SBin BEq [SConst CCurrent] [SVar "x"]]]
  = ([], None)
  /\
  sem_path fL (mkcenv false (JNum (NInt 1)) [] false) quirks_ideal
    [SConst CRoot;
     SUn UFilter [SBin BAnd [SBin BEq [SConst CCurrent; SKey "a"] [SInteger 5]]
                            [SBin BEq [SConst CCurrent] [SVar "x"]]]]
  = ([], Some (EExec "could not find jsonpath variable")).
Proof. exact ex_fuse_needs_no_hard_error. Qed.
Print Assumptions C10_fuse_needs_no_hard_error.

(* the hypotheses of (6) hold of a concrete input and the model answers accordingly:
   strict $[*] ? (@ > 0) on [0,1,2,3,2]; the predicate check expression $ > 0 on 0 and on 1 *)
Example C10_model_hypotheses_satisfiable :
  members_canon L0 /\ o_cancel_at (o0 false) = None /\
  no_kv ([SConst CRoot; SConst CAnyArray] ++ [SUn UFilter [SBin BGt [SConst CCurrent] [SInteger 0]]]) = true /\
  exists_ok ([SConst CRoot; SConst CAnyArray] ++ [SUn UFilter [SBin BGt [SConst CCurrent] [SInteger 0]]]) = true /\
  ne_ops ([SConst CRoot; SConst CAnyArray] ++ [SUn UFilter [SBin BGt [SConst CCurrent] [SInteger 0]]]) = true /\
  last_closed [SUn UFilter [SBin BGt [SConst CCurrent] [SInteger 0]]] = true /\
  any_free [SConst CRoot; SConst CAnyArray] = true /\
  SemBasics.is_pred_step (SBin BGt [SConst CCurrent] [SInteger 0]) = true /\
  indep (SBin BGt [SConst CCurrent] [SInteger 0]) true false true = true /\
  subst_step (SBin BGt [SConst CCurrent] [SInteger 0]) = SBin BGt [SConst CRoot] [SInteger 0] /\
  Query L0 40 (mkpath false false ([SConst CRoot; SConst CAnyArray] ++
                                   [SUn UFilter [SBin BGt [SConst CCurrent] [SInteger 0]]]))
        (JArr 0 [JNum (NInt 0); JNum (NInt 1); JNum (NInt 2); JNum (NInt 3); JNum (NInt 2)]) (o0 false) =
    Ret (QItems [JNum (NInt 1); JNum (NInt 2); JNum (NInt 3); JNum (NInt 2)]) /\
  Query L0 40 (mkpath false false [SConst CRoot; SConst CAnyArray])
        (JArr 0 [JNum (NInt 0); JNum (NInt 1); JNum (NInt 2); JNum (NInt 3); JNum (NInt 2)]) (o0 false) =
    Ret (QItems [JNum (NInt 0); JNum (NInt 1); JNum (NInt 2); JNum (NInt 3); JNum (NInt 2)]) /\
  Query L0 40 (mkpath false true [subst_step (SBin BGt [SConst CCurrent] [SInteger 0])]) (JNum (NInt 0)) (o0 false) =
    Ret (QItems [JBool false]) /\
  Query L0 40 (mkpath false true [subst_step (SBin BGt [SConst CCurrent] [SInteger 0])]) (JNum (NInt 1)) (o0 false) =
    Ret (QItems [JBool true]).
Proof. exact filter_model_witness. Qed.
Print Assumptions C10_model_hypotheses_satisfiable.

(* the repaired defect (c714021) stays repaired in M: a non-suppressible error in the
   condition aborts Query (also with WithSilent) and strict Exists; a suppressible one
   drops the item.  Document [1,{"a":5},2]; conditions @ == $x (x unbound), @.a == 5 *)
Example C10_model_hard_error_aborts :
  Query L0 40 (mkpath false false [SConst CRoot; SConst CAnyArray;
                                   SUn UFilter [SBin BEq [SConst CCurrent] [SVar "x"]]])
        (JArr 0 [JNum (NInt 1); JObj 1 [("a", JNum (NInt 5))]%string; JNum (NInt 2)]) (o0 false) =
    Ret (QErr (AErr (EExec "could not find jsonpath variable"))) /\
  Query L0 40 (mkpath false false [SConst CRoot; SConst CAnyArray;
                                   SUn UFilter [SBin BEq [SConst CCurrent] [SVar "x"]]])
        (JArr 0 [JNum (NInt 1); JObj 1 [("a", JNum (NInt 5))]%string; JNum (NInt 2)]) (o0 true) =
    Ret (QErr (AErr (EExec "could not find jsonpath variable"))) /\
  Exists L0 40 (mkpath false false [SConst CRoot; SUn UFilter [SBin BEq [SConst CCurrent] [SVar "x"]]])
         (JNum (NInt 1)) (o0 false) =
    Ret (BErr (AErr (EExec "could not find jsonpath variable"))) /\
  Query L0 40 (mkpath false false [SConst CRoot; SConst CAnyArray;
                                   SUn UFilter [SBin BEq [SConst CCurrent; SKey "a"] [SInteger 5]]])
        (JArr 0 [JNum (NInt 1); JObj 1 [("a", JNum (NInt 5))]%string; JNum (NInt 2)]) (o0 false) =
    Ret (QItems [JObj 1 [("a", JNum (NInt 5))]%string]).
Proof. exact filter_hard_error_model_witness. Qed.
Print Assumptions C10_model_hard_error_aborts.

(* known finding KF-C11-isunknown-hard-error inside a filter: strict
   $[*] ? ((@ == $x) is unknown) on [1,{"a":5},2] — the code, and S with quirks_code,
   keep every item; the documented rule (quirks_ideal) aborts the query *)
Example C10_isunknown_quirk_in_filter :
  Query L0 40 (mkpath false false [SConst CRoot; SConst CAnyArray;
                                   SUn UFilter [SUn UIsUnknown [SBin BEq [SConst CCurrent] [SVar "x"]]]])
        (JArr 0 [JNum (NInt 1); JObj 1 [("a", JNum (NInt 5))]%string; JNum (NInt 2)]) (o0 false) =
    Ret (QItems [JNum (NInt 1); JObj 1 [("a", JNum (NInt 5))]%string; JNum (NInt 2)]) /\
  sem_path L0 (mkcenv false (JArr 0 [JNum (NInt 1); JObj 1 [("a", JNum (NInt 5))]%string; JNum (NInt 2)]) [] false)
           quirks_code
           [SConst CRoot; SConst CAnyArray; SUn UFilter [SUn UIsUnknown [SBin BEq [SConst CCurrent] [SVar "x"]]]] =
    ([JNum (NInt 1); JObj 1 [("a", JNum (NInt 5))]%string; JNum (NInt 2)], None) /\
  sem_path L0 (mkcenv false (JArr 0 [JNum (NInt 1); JObj 1 [("a", JNum (NInt 5))]%string; JNum (NInt 2)]) [] false)
           quirks_ideal
           [SConst CRoot; SConst CAnyArray; SUn UFilter [SUn UIsUnknown [SBin BEq [SConst CCurrent] [SVar "x"]]]] =
    ([], Some (EExec "could not find jsonpath variable")).
Proof. exact filter_isunknown_quirk_witness. Qed.
Print Assumptions C10_isunknown_quirk_in_filter.
