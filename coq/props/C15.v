(* C15 — Wildcards and recursive descent visit exactly the right nodes once.

   ".* returns every member value of an object exactly once, [*] every element of an
   array in order, and .**{a to b} every node whose depth below the current item lies
   in a..b (depth 0 is the item itself; last as upper bound means unbounded, and
   .**{last} selects the scalar leaves below the item) in document pre-order, each
   exactly once; .** equals .**{0 to last} and .**{k} equals k applications of 'any
   child'.  In strict mode, member accessors following .** skip the nodes they do not
   apply to instead of failing."

   The statements are about the specification S (spec/Sem.v): [sem_step s k cur l ig u v]
   is the trace of step s on item v, [k] the rest of the path (k l ig x: innermost array
   size, "structural errors are ignored", item), and [sem_chain] that of a list of
   steps; they hold for every library L, environment C (either mode) and both settings
   Q of the pinned behaviours.  SAny a b is .**{a to b} with last encoded as
   max_uint32 = 2^32-1 (path/ast NewAny; [C15_parser_bounds]).
   They compare S with a tree walk written without the semantics (proofs/DescendProofs.v):
     all_nodes d v        every node of v with its depth, root at depth d, a node before
                          its children, children in order ([C15_all_nodes_is_preorder])
     nodes_at_depth a b v = map snd (filter (depth in a..b) (all_nodes 0 v))
     leaves_below v       = the non-collections among nodes_at_depth 1 max_uint32 v
     kfold n v            n applications of "any child" ([children]: the elements of an
                          array, the member values of an object)
     all_pos v, node_at p v, get p v   positions (lists of child indices): all_pos lists
                          exactly the valid ones, in lexicographic = document pre-order
                          [lex_lt], without repetition; pos_in_range a b v = those of
                          length a..b.  "Each node exactly once, in pre-order" is
                          [C15_descend_exactly_once_in_preorder].
   Transfer to the executor model M: proofs/RefineClosed.v [query_is_trace] (props/C01.v)
   - M's Query returns the projection p_query of S's trace, S taken with [quirks_code].
   [C15_query_on_the_model] is that composition for the path $.**{a to b}, in either mode.

   Hypotheses, all satisfiable:
     0 <= a, 0 <= b, ~ (a = max_uint32 /\ b = max_uint32)   level bounds as the parser
                          produces them, .**{last} apart (it has its own theorems)
     Z.of_nat (json_depth v) < max_uint32 (<= for the plain form)   the level counter of the
                          implementation is a uint32: documents less than 2^32-1 deep
                          ([C15_ex_depth_hypothesis])
     c_lax C = false      strict mode, for the skipping clause
     o_cancel_at o = None, members_canon L   those of props/C01.v; members_canon is where
                          "member order" is fixed: S enumerates the member values of an
                          object in list order, the property leaves the order open
   The examples use [dummyL] (DescendProofs: an inert library; no statement here depends on L).
   Excluded classes: none open.  Repaired findings this property found: fb184ca (.**{last}
   returned empty objects but not empty arrays; now neither is a leaf:
   [C15_ex_empty_collections_are_not_leaves]) and ddb4f85 (with WithSilent .** carried on
   after a failure at its own level) - the model is of the repaired code.
   KF-C14-null-subscript does not touch these statements (they hold for every Q).
   Not covered: .* on a non-object and [*] on a non-array are stated for strict mode
   below .** only (they skip), not the lax-mode wrapping/unwrapping; "k applications of
   'any child'" is [kfold] over [children] - its identification with the accessors .*
   and [*] is proved for one application on the matching kind of collection
   ([C15_anykey_is_any_child], [C15_anyarray_is_any_child]), no theorem composes k
   accessor steps; the skipping clause is a theorem for .key, .* and [*] immediately
   after .** as the last step, and through [C15_any_chain] (the rest of the path runs
   with ig = true) plus the one-step skipping lemmas for longer paths, not as one
   statement over all continuations. *)
From Coq Require Import Floats.SpecFloat Sorting.Sorted.
From SJ Require Import lib.Base model.Json model.Ast model.ExecLib model.Leaf model.Exec
     spec.Sem spec.Proj proofs.SemBasics proofs.RefineDefs proofs.Refine
     proofs.DescendProofs proofs.PropGlue_SD.
From SJ Require model.Parser.

(* ---- .* and [*] ---- *)

(* .* on an object: every member value, once, in member order, handed to the rest of the path *)
Theorem C15_anykey_object :
  forall (L : ExecLib) (C : cenv) (Q : quirks) (k : Z -> bool -> json -> trace) (cur : json) (l : Z)
         (ig u : bool) (t : Z) (m : list (string * json)),
    sem_step L C Q (SConst CAnyKey) k cur l ig u (JObj t m) = tbind_list (map snd m) (k l ig).
Proof. exact anykey_object. Qed.
Print Assumptions C15_anykey_object.

Theorem C15_anykey_object_items :
  forall (L : ExecLib) (C : cenv) (Q : quirks) (cur : json) (l : Z) (ig u : bool) (t : Z) (m : list (string * json)),
    sem_step L C Q (SConst CAnyKey) (fun _ _ x => tone x) cur l ig u (JObj t m) = (map snd m, None).
Proof. exact anykey_object_items. Qed.
Print Assumptions C15_anykey_object_items.

(* [*] on an array: every element, in order *)
Theorem C15_anyarray_array :
  forall (L : ExecLib) (C : cenv) (Q : quirks) (k : Z -> bool -> json -> trace) (cur : json) (l : Z)
         (ig u : bool) (t : Z) (es : list json),
    sem_step L C Q (SConst CAnyArray) k cur l ig u (JArr t es) = tbind_list es (k l ig).
Proof. exact anyarray_array. Qed.
Print Assumptions C15_anyarray_array.

Theorem C15_anyarray_array_items :
  forall (L : ExecLib) (C : cenv) (Q : quirks) (cur : json) (l : Z) (ig u : bool) (t : Z) (es : list json),
    sem_step L C Q (SConst CAnyArray) (fun _ _ x => tone x) cur l ig u (JArr t es) = (es, None).
Proof. exact anyarray_array_items. Qed.
Print Assumptions C15_anyarray_array_items.

(* both are one application of "any child" on the matching kind of collection *)
Theorem C15_anykey_is_any_child :
  forall (L : ExecLib) (C : cenv) (Q : quirks) (cur : json) (l : Z) (ig u : bool) (t : Z) (m : list (string * json)),
    fst (sem_step L C Q (SConst CAnyKey) (fun _ _ x => tone x) cur l ig u (JObj t m)) = kfold 1 (JObj t m).
Proof. exact anykey_children. Qed.
Print Assumptions C15_anykey_is_any_child.

Theorem C15_anyarray_is_any_child :
  forall (L : ExecLib) (C : cenv) (Q : quirks) (cur : json) (l : Z) (ig u : bool) (t : Z) (es : list json),
    fst (sem_step L C Q (SConst CAnyArray) (fun _ _ x => tone x) cur l ig u (JArr t es)) = kfold 1 (JArr t es).
Proof. exact anyarray_children. Qed.
Print Assumptions C15_anyarray_is_any_child.

(* ---- the tree walk says what it should ---- *)

Theorem C15_all_nodes_is_preorder :
  forall (d : Z) (v : json), all_nodes d v = (d, v) :: flat_map (all_nodes (d + 1)) (children v).
Proof. exact all_nodes_eq. Qed.
Print Assumptions C15_all_nodes_is_preorder.

Theorem C15_all_nodes_depths :
  forall (v : json) (d d' : Z) (x : json),
    In (d', x) (all_nodes d v) -> d <= d' <= d + Z.of_nat (json_depth v).
Proof. exact all_nodes_depth. Qed.
Print Assumptions C15_all_nodes_depths.

(* ---- .**{a to b} ---- *)

(* whatever the rest k of the path: the nodes at depth a..b are handed to it in order, and it
   runs with structural errors ignored (ig = true) whatever ig was *)
Theorem C15_any_bind :
  forall (L : ExecLib) (C : cenv) (Q : quirks) (a b : Z) (k : Z -> bool -> json -> trace) (cur : json) (l : Z)
         (ig u : bool) (v : json),
    0 <= a -> 0 <= b -> ~ (a = max_uint32 /\ b = max_uint32) ->
    sem_step L C Q (SAny a b) k cur l ig u v = tbind_list (nodes_at_depth a b v) (k l true).
Proof. exact any_bind. Qed.
Print Assumptions C15_any_bind.

(* as the last step: the items are exactly the specified nodes, and no failure *)
Theorem C15_any_is_nodes :
  forall (L : ExecLib) (C : cenv) (Q : quirks) (a b : Z) (cur : json) (l : Z) (ig u : bool) (v : json),
    0 <= a -> 0 <= b -> ~ (a = max_uint32 /\ b = max_uint32) ->
    sem_step L C Q (SAny a b) (fun _ _ x => tone x) cur l ig u v = (nodes_at_depth a b v, None).
Proof. exact any_is_nodes. Qed.
Print Assumptions C15_any_is_nodes.

(* chains: the steps after .** run on each selected node with ig = true *)
Theorem C15_any_chain :
  forall (L : ExecLib) (C : cenv) (Q : quirks) (a b : Z) (rest : chain) (cur : json) (l : Z) (ig u : bool) (v : json),
    0 <= a -> 0 <= b -> ~ (a = max_uint32 /\ b = max_uint32) ->
    sem_chain L C Q (SAny a b :: rest) cur l ig u v =
    tbind_list (nodes_at_depth a b v) (fun x => sem_chain L C Q rest cur l true (c_lax C) x).
Proof. exact any_chain. Qed.
Print Assumptions C15_any_chain.

(* ---- each node exactly once, in document pre-order: positions ---- *)

(* the enumerated positions are exactly the valid ones *)
Theorem C15_positions_complete :
  forall (p : list nat) (v : json), In p (all_pos v) <-> node_at p v <> None.
Proof. exact all_pos_complete. Qed.
Print Assumptions C15_positions_complete.

(* in document pre-order: a node before its descendants, earlier siblings first *)
Theorem C15_positions_sorted : forall v : json, StronglySorted lex_lt (all_pos v).
Proof. exact all_pos_sorted. Qed.
Print Assumptions C15_positions_sorted.

Theorem C15_preorder_is_strict : forall p : list nat, ~ lex_lt p p.
Proof. exact lex_lt_irrefl. Qed.
Print Assumptions C15_preorder_is_strict.

Theorem C15_positions_nodup : forall v : json, NoDup (all_pos v).
Proof. exact all_pos_nodup. Qed.
Print Assumptions C15_positions_nodup.

(* the node list of the tree walk is the image of the position list; depth = length of the position *)
Theorem C15_all_nodes_by_position :
  forall (v : json) (d : Z),
    all_nodes d v = map (fun p : list nat => (d + Z.of_nat (List.length p), get p v)) (all_pos v).
Proof. exact all_nodes_pos. Qed.
Print Assumptions C15_all_nodes_by_position.

Theorem C15_nodes_at_depth_by_position :
  forall (a b : Z) (v : json), nodes_at_depth a b v = map (fun p : list nat => get p v) (pos_in_range a b v).
Proof. exact nodes_at_depth_pos. Qed.
Print Assumptions C15_nodes_at_depth_by_position.

Theorem C15_positions_in_range :
  forall (a b : Z) (v : json) (p : list nat),
    In p (pos_in_range a b v) <-> node_at p v <> None /\ a <= Z.of_nat (List.length p) <= b.
Proof. exact pos_in_range_spec. Qed.
Print Assumptions C15_positions_in_range.

(* each valid position with depth in range is enumerated exactly once *)
Theorem C15_position_exactly_once :
  forall (a b : Z) (v : json) (p : list nat),
    node_at p v <> None -> a <= Z.of_nat (List.length p) <= b ->
    count_occ (list_eq_dec Nat.eq_dec) (pos_in_range a b v) p = 1%nat.
Proof. exact pos_in_range_once. Qed.
Print Assumptions C15_position_exactly_once.

Theorem C15_positions_in_range_nodup : forall (a b : Z) (v : json), NoDup (pos_in_range a b v).
Proof. exact pos_in_range_nodup. Qed.
Print Assumptions C15_positions_in_range_nodup.

Theorem C15_positions_in_range_sorted : forall (a b : Z) (v : json), StronglySorted lex_lt (pos_in_range a b v).
Proof. exact pos_in_range_sorted. Qed.
Print Assumptions C15_positions_in_range_sorted.

(* the number of items .**{a to b} returns is the number of in-range positions *)
Theorem C15_item_count :
  forall (a b : Z) (v : json), List.length (nodes_at_depth a b v) = List.length (pos_in_range a b v).
Proof. exact nodes_at_depth_length. Qed.
Print Assumptions C15_item_count.

(* assembled: .**{a to b} hands to the rest of the path the nodes at the positions ps, where ps is
   sorted in document pre-order, repetition-free, and consists exactly of the valid positions of
   length a..b *)
Theorem C15_descend_exactly_once_in_preorder :
  forall (L : ExecLib) (C : cenv) (Q : quirks) (a b : Z) (k : Z -> bool -> json -> trace) (cur : json) (l : Z)
         (ig u : bool) (v : json),
    0 <= a -> 0 <= b -> ~ (a = max_uint32 /\ b = max_uint32) ->
    sem_step L C Q (SAny a b) k cur l ig u v =
      tbind_list (map (fun p : list nat => get p v) (pos_in_range a b v)) (k l true)
    /\ StronglySorted lex_lt (pos_in_range a b v)
    /\ NoDup (pos_in_range a b v)
    /\ (forall p : list nat,
          In p (pos_in_range a b v) <-> node_at p v <> None /\ a <= Z.of_nat (List.length p) <= b).
Proof. exact DescendProofs.C15_descend. Qed.
Print Assumptions C15_descend_exactly_once_in_preorder.

(* ---- last as upper bound means unbounded; .** is .**{0 to last} ---- *)

Theorem C15_last_is_unbounded :
  forall (a : Z) (v : json), Z.of_nat (json_depth v) <= max_uint32 ->
    nodes_at_depth a max_uint32 v = sel_gen (fun (d : Z) (_ : json) => a <=? d) 0 v.
Proof. exact nodes_unbounded. Qed.
Print Assumptions C15_last_is_unbounded.

(* .** returns every node, the item itself first *)
Theorem C15_plain_is_all_nodes :
  forall v : json, Z.of_nat (json_depth v) <= max_uint32 ->
    nodes_at_depth 0 max_uint32 v = map snd (all_nodes 0 v).
Proof. exact nodes_all. Qed.
Print Assumptions C15_plain_is_all_nodes.

Theorem C15_plain_sem :
  forall (L : ExecLib) (C : cenv) (Q : quirks) (cur : json) (l : Z) (ig u : bool) (v : json),
    Z.of_nat (json_depth v) <= max_uint32 ->
    sem_step L C Q (SAny 0 max_uint32) (fun _ _ x => tone x) cur l ig u v = (map snd (all_nodes 0 v), None).
Proof. exact any_plain_sem. Qed.
Print Assumptions C15_plain_sem.

(* the parser (model/Parser.v): .** not followed by '{' (character 123) is SAny 0 max_uint32 *)
Theorem C15_parser_plain :
  forall (G : GoLib.GoLib) (ts : list Lexer.token),
    match ts with Lexer.mktok (Lexer.TChar 123) _ :: _ => False | _ => True end ->
    Parser.p_any G ts = Parser.ROk (SAny 0 max_uint32, ts).
Proof. exact parser_any_plain. Qed.
Print Assumptions C15_parser_plain.

(* ... and NewAny encodes last (-1) as max_uint32: {0 to last}, {last}, {k} *)
Theorem C15_parser_bounds :
  forall a b : Z,
    Parser.new_any a b = SAny (Parser.any_bound a) (Parser.any_bound b) /\
    Parser.new_any 0 (-1) = SAny 0 max_uint32 /\
    Parser.new_any (-1) (-1) = SAny max_uint32 max_uint32 /\
    (0 <= a < max_uint32 -> Parser.new_any a a = SAny a a).
Proof. exact parser_any_bounds. Qed.
Print Assumptions C15_parser_bounds.

(* ---- .**{last}: the scalar leaves strictly below the item ---- *)

Theorem C15_any_last_bind :
  forall (L : ExecLib) (C : cenv) (Q : quirks) (k : Z -> bool -> json -> trace) (cur : json) (l : Z)
         (ig u : bool) (v : json),
    Z.of_nat (json_depth v) < max_uint32 ->
    sem_step L C Q (SAny max_uint32 max_uint32) k cur l ig u v = tbind_list (leaves_below v) (k l true).
Proof. exact any_last_bind. Qed.
Print Assumptions C15_any_last_bind.

Theorem C15_any_last_is_leaves :
  forall (L : ExecLib) (C : cenv) (Q : quirks) (cur : json) (l : Z) (ig u : bool) (v : json),
    Z.of_nat (json_depth v) < max_uint32 ->
    sem_step L C Q (SAny max_uint32 max_uint32) (fun _ _ x => tone x) cur l ig u v = (leaves_below v, None).
Proof. exact any_last_is_leaves. Qed.
Print Assumptions C15_any_last_is_leaves.

(* ---- .**{k} is k applications of "any child" ---- *)

Theorem C15_exact_level_is_kfold :
  forall (n : nat) (v : json), nodes_at_depth (Z.of_nat n) (Z.of_nat n) v = kfold n v.
Proof. exact any_exact_kfold. Qed.
Print Assumptions C15_exact_level_is_kfold.

Theorem C15_exact_level_sem :
  forall (L : ExecLib) (C : cenv) (Q : quirks) (n : nat) (cur : json) (l : Z) (ig u : bool) (v : json),
    Z.of_nat n < max_uint32 ->
    sem_step L C Q (SAny (Z.of_nat n) (Z.of_nat n)) (fun _ _ x => tone x) cur l ig u v = (kfold n v, None).
Proof. exact any_exact_sem. Qed.
Print Assumptions C15_exact_level_sem.

(* one more application, at the far end *)
Theorem C15_kfold_step :
  forall (n : nat) (v : json), kfold (S n) v = flat_map children (kfold n v).
Proof. exact kfold_snoc. Qed.
Print Assumptions C15_kfold_step.

(* ---- strict mode: member accessors following .** skip instead of failing ---- *)

(* with ig = true (what .** sets) an accessor contributes nothing on a node it does not apply to *)
Theorem C15_key_skips_non_object :
  forall (L : ExecLib) (C : cenv) (Q : quirks) (key : string) (k : Z -> bool -> json -> trace) (cur : json)
         (l : Z) (x : json),
    is_object x = false -> sem_step L C Q (SKey key) k cur l true false x = tnil.
Proof. exact key_skips. Qed.
Print Assumptions C15_key_skips_non_object.

Theorem C15_key_skips_missing_member :
  forall (L : ExecLib) (C : cenv) (Q : quirks) (key : string) (k : Z -> bool -> json -> trace) (cur : json)
         (l t : Z) (m : list (string * json)),
    lookup key m = None -> sem_step L C Q (SKey key) k cur l true false (JObj t m) = tnil.
Proof. exact key_skips_missing. Qed.
Print Assumptions C15_key_skips_missing_member.

Theorem C15_anykey_skips_non_object :
  forall (L : ExecLib) (C : cenv) (Q : quirks) (k : Z -> bool -> json -> trace) (cur : json) (l : Z) (x : json),
    is_object x = false -> sem_step L C Q (SConst CAnyKey) k cur l true false x = tnil.
Proof. exact anykey_skips. Qed.
Print Assumptions C15_anykey_skips_non_object.

Theorem C15_anyarray_skips_non_array :
  forall (L : ExecLib) (C : cenv) (Q : quirks) (k : Z -> bool -> json -> trace) (cur : json) (l : Z) (x : json),
    c_lax C = false -> is_array x = false -> sem_step L C Q (SConst CAnyArray) k cur l true false x = tnil.
Proof. exact anyarray_skips. Qed.
Print Assumptions C15_anyarray_skips_non_array.

(* ... whereas without .** in front (ig = false) the same accessor fails *)
Theorem C15_key_fails_without_descent :
  forall (L : ExecLib) (C : cenv) (Q : quirks) (key : string) (k : Z -> bool -> json -> trace) (cur : json)
         (l : Z) (x : json),
    is_object x = false -> is_array x = false ->
    sem_step L C Q (SKey key) k cur l false false x =
    tfail (EVerbose "jsonpath member accessor can only be applied to an object").
Proof. exact key_fails_strict. Qed.
Print Assumptions C15_key_fails_without_descent.

(* strict .**{a to b}.key : the members named key of the selected nodes that are objects having one; no failure *)
Theorem C15_any_then_key_strict :
  forall (L : ExecLib) (C : cenv) (Q : quirks) (a b : Z) (key : string) (cur : json) (l : Z) (ig u : bool) (v : json),
    c_lax C = false -> 0 <= a -> 0 <= b -> ~ (a = max_uint32 /\ b = max_uint32) ->
    sem_chain L C Q [SAny a b; SKey key] cur l ig u v =
    (flat_map (fun x => match x with
                        | JObj _ m => match lookup key m with Some y => [y] | None => [] end
                        | _ => []
                        end) (nodes_at_depth a b v), None).
Proof. exact any_then_key_strict. Qed.
Print Assumptions C15_any_then_key_strict.

(* strict .**{a to b}.* *)
Theorem C15_any_then_anykey_strict :
  forall (L : ExecLib) (C : cenv) (Q : quirks) (a b : Z) (cur : json) (l : Z) (ig u : bool) (v : json),
    c_lax C = false -> 0 <= a -> 0 <= b -> ~ (a = max_uint32 /\ b = max_uint32) ->
    sem_chain L C Q [SAny a b; SConst CAnyKey] cur l ig u v =
    (flat_map (fun x => match x with JObj _ m => map snd m | _ => [] end) (nodes_at_depth a b v), None).
Proof. exact any_then_anykey_strict. Qed.
Print Assumptions C15_any_then_anykey_strict.

(* strict .**{a to b}[*] *)
Theorem C15_any_then_anyarray_strict :
  forall (L : ExecLib) (C : cenv) (Q : quirks) (a b : Z) (cur : json) (l : Z) (ig u : bool) (v : json),
    c_lax C = false -> 0 <= a -> 0 <= b -> ~ (a = max_uint32 /\ b = max_uint32) ->
    sem_chain L C Q [SAny a b; SConst CAnyArray] cur l ig u v =
    (flat_map (fun x => match x with JArr _ es => es | _ => [] end) (nodes_at_depth a b v), None).
Proof. exact any_then_anyarray_strict. Qed.
Print Assumptions C15_any_then_anyarray_strict.

(* ---- transfer to the executor model M: Query of $.**{a to b} ---- *)

Theorem C15_query_on_the_model :
  forall (L : ExecLib) (p : path) (doc : json) (o : opts) (a b : Z),
    o_cancel_at o = None -> members_canon L ->
    p_root p = [SConst CRoot; SAny a b] ->
    0 <= a -> 0 <= b -> ~ (a = max_uint32 /\ b = max_uint32) ->
    forall fuel q, Query L fuel p doc o = Ret q -> q = QItems (nodes_at_depth a b doc).
Proof. exact C15_query_model. Qed.
Print Assumptions C15_query_on_the_model.

(* ---- concrete instances (non-vacuity) on {"a": [1, {"b": null}], "c": "x"} ---- *)

Example C15_ex_all_nodes :
  nodes_at_depth 0 max_uint32
    (JObj 0 [("a", JArr 1 [JNum (NInt 1); JObj 2 [("b", JNull)]]); ("c", JStr "x")]%string) =
  [JObj 0 [("a", JArr 1 [JNum (NInt 1); JObj 2 [("b", JNull)]]); ("c", JStr "x")]%string;
   JArr 1 [JNum (NInt 1); JObj 2 [("b", JNull)]%string]; JNum (NInt 1);
   JObj 2 [("b", JNull)]%string; JNull; JStr "x"].
Proof. exact ex_nodes_all. Qed.
Print Assumptions C15_ex_all_nodes.

Example C15_ex_levels_1_to_2 :
  nodes_at_depth 1 2
    (JObj 0 [("a", JArr 1 [JNum (NInt 1); JObj 2 [("b", JNull)]]); ("c", JStr "x")]%string) =
  [JArr 1 [JNum (NInt 1); JObj 2 [("b", JNull)]%string]; JNum (NInt 1); JObj 2 [("b", JNull)]%string; JStr "x"].
Proof. exact ex_nodes_1_2. Qed.
Print Assumptions C15_ex_levels_1_to_2.

Example C15_ex_positions_1_to_2 :
  pos_in_range 1 2
    (JObj 0 [("a", JArr 1 [JNum (NInt 1); JObj 2 [("b", JNull)]]); ("c", JStr "x")]%string) =
  [[0]; [0; 0]; [0; 1]; [1]]%nat.
Proof. exact ex_positions. Qed.
Print Assumptions C15_ex_positions_1_to_2.

Example C15_ex_leaves :
  leaves_below (JObj 0 [("a", JArr 1 [JNum (NInt 1); JObj 2 [("b", JNull)]]); ("c", JStr "x")]%string) =
  [JNum (NInt 1); JNull; JStr "x"].
Proof. exact ex_leaves. Qed.
Print Assumptions C15_ex_leaves.

(* the specification on it: strict .**{1 to 2}, .**{last} *)
Example C15_ex_sem_levels :
  let d := JObj 0 [("a", JArr 1 [JNum (NInt 1); JObj 2 [("b", JNull)]]); ("c", JStr "x")]%string in
  sem_step dummyL (mkcenv false d [] false) quirks_ideal (SAny 1 2) (fun _ _ x => tone x) d (-1) false false d
  = (nodes_at_depth 1 2 d, None).
Proof. exact ex_any_sem. Qed.
Print Assumptions C15_ex_sem_levels.

Example C15_ex_sem_last :
  let d := JObj 0 [("a", JArr 1 [JNum (NInt 1); JObj 2 [("b", JNull)]]); ("c", JStr "x")]%string in
  sem_step dummyL (mkcenv false d [] false) quirks_ideal (SAny max_uint32 max_uint32) (fun _ _ x => tone x)
           d (-1) false false d
  = (leaves_below d, None).
Proof. exact ex_any_last_sem. Qed.
Print Assumptions C15_ex_sem_last.

(* strict $.**.b skips the nodes that are not objects or lack the member; strict $.a.b fails *)
Example C15_ex_strict_skip :
  let d := JObj 0 [("a", JArr 1 [JNum (NInt 1); JObj 2 [("b", JNull)]]); ("c", JStr "x")]%string in
  sem_chain dummyL (mkcenv false d [] false) quirks_ideal [SAny 0 max_uint32; SKey "b"] d (-1) false false d
  = ([JNull], None).
Proof. exact ex_strict_skip. Qed.
Print Assumptions C15_ex_strict_skip.

Example C15_ex_strict_fail :
  let d := JObj 0 [("a", JArr 1 [JNum (NInt 1); JObj 2 [("b", JNull)]]); ("c", JStr "x")]%string in
  snd (sem_chain dummyL (mkcenv false d [] false) quirks_ideal [SKey "a"; SKey "b"] d (-1) false false d)
  = Some (EVerbose "jsonpath member accessor can only be applied to an object").
Proof. exact ex_strict_fail. Qed.
Print Assumptions C15_ex_strict_fail.

(* the depth hypothesis holds of it (as of any real document) *)
Example C15_ex_depth_hypothesis :
  Z.of_nat (json_depth (JObj 0 [("a", JArr 1 [JNum (NInt 1); JObj 2 [("b", JNull)]]); ("c", JStr "x")]%string))
  < max_uint32.
Proof. exact ex_depth_hyp. Qed.
Print Assumptions C15_ex_depth_hypothesis.

(* .**{last} on [[], {}, null, ["x"]]: empty arrays and empty objects alike are not leaves (fb184ca) *)
Example C15_ex_empty_collections_are_not_leaves :
  leaves_below (JArr 0 [JArr 1 []; JObj 2 []; JNull; JArr 3 [JStr "x"]]) = [JNull; JStr "x"] /\
  sem_step dummyL (mkcenv false JNull [] false) quirks_code (SAny max_uint32 max_uint32) (fun _ _ x => tone x)
           JNull (-1) false false (JArr 0 [JArr 1 []; JObj 2 []; JNull; JArr 3 [JStr "x"]])
  = ([JNull; JStr "x"], None).
Proof. exact leaves_empty_collections. Qed.
Print Assumptions C15_ex_empty_collections_are_not_leaves.
