(* Extract.v — extraction of the executable model and specification to OCaml.
   Directives used: ExtrOcamlBasic and ExtrOcamlString only (bool, option,
   unit, list, prod, sumbool, sumor; ascii -> char, string -> char list).
   Numbers (nat, positive, Z, N) and spec_float stay the extracted inductives. *)
From Coq Require Import Extraction ExtrOcamlBasic ExtrOcamlString.
From SJ Require Import lib.Base lib.F64 lib.Strconv model.Json model.Ast model.ExecLib model.Leaf model.Exec
     model.GoTime model.DateTime spec.Sem spec.Proj spec.ArithSpec spec.Obs extract.Instance extract.Api proofs.RefineDefs proofs.QuirkFree proofs.Total.
Extraction Language OCaml.

Extraction "model.ml"
  api_query api_first api_exists api_match api_eom api_polls
  api_spec_query api_spec_first api_spec_exists api_spec_match api_spec_eom api_sem_of api_accessor_chain
  quirks_code quirks_ideal mkq
  no_kv exists_ok ne_ops unary_tail_free quirk_free fuel_for
  arith_spec neg_spec abs_spec f64_pow10 f64_cmp f64_abs f64_of_Z Z.abs
  mk_lib members_in_order ctx_fixed
  obs_eqb obs_of_q obs_of_f obs_of_b canon_list
  f64_of_bits f64_to_bits
  Z.add Z.mul Z.opp Z.div_eucl Z.of_nat Z.to_nat Z.compare Z.eqb Z.ltb.
