(* Instance.v — the concrete ExecLib used by the extracted model: Go's strconv,
   math and float64 behaviour from lib/F64.v + lib/Strconv.v, the datetime layer
   from model/DateTime.v.  Two things stay parameters supplied per case by the
   driver: the regexp oracle (a table computed by Go's regexp on the harness
   side) and the iteration order of map members. *)
From SJ Require Import lib.Base lib.F64 lib.Strconv model.Json model.Ast model.ExecLib model.GoTime model.DateTime.

Definition target_of (op : dtop) : dttarget :=
  match op with
  | DDate => TDate | DTime => TTime | DTimeTZ => TTimeTZ
  | DTimestamp => TTimestamp | DTimestampTZ => TTimestampTZ
  | DDateTime => TDate (* not used: .datetime() does not cast *)
  end.

Definition conv_cast (r : DateTime.cast_result) : ExecLib.cast_result :=
  match r with
  | DateTime.CastOk d => ExecLib.CastOk d
  | DateTime.CastNotRecognized => ExecLib.CastNotRecognized
  | DateTime.CastTZRequired => ExecLib.CastTZRequired
  | DateTime.CastInvalid => ExecLib.CastInvalid
  end.

Definition conv_cmp (r : DateTime.cmp_result) : ExecLib.cmp_result :=
  match r with
  | DateTime.CmpOk c => ExecLib.CmpOk c
  | DateTime.CmpIncomparable => ExecLib.CmpIncomparable
  | DateTime.CmpTZRequired => ExecLib.CmpTZRequired
  end.

Definition mk_lib (ctx : dctx)
           (re : string -> Z -> string -> bool)
           (members : list (string * json) -> list json) : ExecLib :=
  mkExecLib
    parse_float
    parse_int
    format_float_f
    format_int
    f64_of_Z
    f64_to_int64
    f64_mod
    f64_floor
    f64_ceil
    f64_trunc
    f64_round
    f64_pow10
    re
    (parse_time ctx)
    (fun op useTZ d => conv_cast (exec_cast (target_of op) useTZ ctx d))
    (fun useTZ a b => conv_cmp (compare_datetime useTZ ctx a b))
    dt_string
    members.

Definition members_in_order (l : list (string * json)) : list json := map snd l.

Definition ctx_fixed (off : Z) (now : Z) : dctx := mkctx (ZFixed off) now 0.
