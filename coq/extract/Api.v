(* Api.v — stable names for the extracted entry points. *)
From SJ Require Import lib.Base model.Json model.Ast model.ExecLib model.Leaf model.Exec.
Definition api_query := Query.
Definition api_first := First.
Definition api_exists := Exists.
Definition api_match := Match.
Definition api_eom := ExistsOrMatch.
Definition api_polls := polls_of.
