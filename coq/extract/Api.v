(* Api.v — stable names for the extracted entry points. *)
From SJ Require Import lib.Base model.Json model.Ast model.ExecLib model.Leaf model.Exec spec.Sem spec.Proj spec.ArithSpec.
Definition api_query := Query.
Definition api_first := First.
Definition api_exists := Exists.
Definition api_match := Match.
Definition api_eom := ExistsOrMatch.
Definition api_polls := polls_of.
Definition api_spec_query := spec_query.
Definition api_spec_first := spec_first.
Definition api_spec_exists := spec_exists.
Definition api_spec_match := spec_match.
Definition api_spec_eom := spec_eom.
Definition api_sem_of := sem_of.
Definition api_accessor_chain := accessor_chain.
Definition api_arith_spec := arith_spec.
Definition api_neg_spec := neg_spec.
Definition api_abs_spec := abs_spec.
