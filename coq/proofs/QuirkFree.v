(* QuirkFree.v — the two quirk switches of spec/Sem.v are irrelevant for paths
   that contain neither an array subscript nor "is unknown"; hence for such
   paths the executor model conforms to the IDEAL (documented) semantics.

   [quirks] has two switches:
     q_skip_null    read only by the rule of SIndex (array subscripts),
     q_iu_swallow   read only by the rule of SUn UIsUnknown ("is unknown").

   1. [sem_chain_insensitive] (master lemma): if every subscript step of a chain
      (nested ones included) sits under equal q_skip_null and every "is unknown"
      step under equal q_iu_swallow, the two semantics coincide — on item
      functions, predicate functions and chains.
   2. the two independent statements: subscript-free chains do not depend on
      q_skip_null, "is unknown"-free chains do not depend on q_iu_swallow;
      their combination [sem_chain_quirk_free] / [sem_of_quirk_free].
   3. corollaries of proofs/RefineClosed.v: Query/First/Match/Exists/
      ExistsOrMatch of the model are the projections of the trace taken with
      [quirks_ideal].
   4. witnesses: the hypotheses are satisfiable; each exclusion is needed.

   Stdlib only, no axioms, no functional extensionality. *)
From Coq Require Import Floats.SpecFloat.
From SJ Require Import lib.Base model.Json model.Ast model.ExecLib model.Leaf model.Exec
     spec.Sem spec.Proj proofs.RefineDefs proofs.Refine proofs.RefineClosed proofs.RefineWitness.
(* the characterising equations of [ev] (these shadow the like-named ones of RefineDefs) *)
From SJ Require Import proofs.SemBasics.
From SJ Require proofs.ComposeProofs.

(* ------------------------------------------------------------------ *)
(* Syntactic classes                                                   *)
(* ------------------------------------------------------------------ *)

Definition noidx1 (s : step) : bool := match s with SIndex _ => false | _ => true end.
Definition noiu1 (s : step) : bool := match s with SUn UIsUnknown _ => false | _ => true end.
Definition qf1 (s : step) : bool :=
  match s with SIndex _ => false | SUn UIsUnknown _ => false | _ => true end.

Definition index_free (c : chain) : bool := all_chain noidx1 c.
Definition isunknown_free (c : chain) : bool := all_chain noiu1 c.
Definition quirk_free (c : chain) : bool := all_chain qf1 c.

(* the shallow test of the master lemma: a step that reads a switch sees the same value *)
Definition ins1 (Q Q' : quirks) (s : step) : bool :=
  match s with
  | SIndex _ => Bool.eqb (q_skip_null Q) (q_skip_null Q')
  | SUn UIsUnknown _ => Bool.eqb (q_iu_swallow Q) (q_iu_swallow Q')
  | _ => true
  end.

(* [all_chain] is monotone in the shallow test *)
Lemma all_chain_mono (P P' : step -> bool) :
  (forall s, P s = true -> P' s = true) ->
  forall c, all_chain P c = true -> all_chain P' c = true.
Proof.
  intros HPP.
  apply (chain_ind'
           (fun s => all_steps P s = true -> all_steps P' s = true)
           (fun c => all_chain P c = true -> all_chain P' c = true)).
  - intros _. reflexivity.
  - intros s c IHs IHc. rewrite !all_chain_cons, !andb_true_iff.
    intros [H1 H2]. split; [apply IHs; exact H1 | apply IHc; exact H2].
  - intros k. rewrite !all_steps_eq, !andb_true_iff. intros [H1 H2]. split; [apply HPP; exact H1 | exact H2].
  - intros x. rewrite !all_steps_eq, !andb_true_iff. intros [H1 H2]. split; [apply HPP; exact H1 | exact H2].
  - intros x. rewrite !all_steps_eq, !andb_true_iff. intros [H1 H2]. split; [apply HPP; exact H1 | exact H2].
  - intros x. rewrite !all_steps_eq, !andb_true_iff. intros [H1 H2]. split; [apply HPP; exact H1 | exact H2].
  - intros x. rewrite !all_steps_eq, !andb_true_iff. intros [H1 H2]. split; [apply HPP; exact H1 | exact H2].
  - intros x. rewrite !all_steps_eq, !andb_true_iff. intros [H1 H2]. split; [apply HPP; exact H1 | exact H2].
  - intros op l r IHl IHr. rewrite !all_steps_eq, !andb_true_iff. intros [H1 [H2 H3]].
    split; [apply HPP; exact H1 | split; [apply IHl; exact H2 | apply IHr; exact H3]].
  - intros op a IHa. rewrite !all_steps_eq, !andb_true_iff. intros [H1 H2].
    split; [apply HPP; exact H1 | apply IHa; exact H2].
  - intros a p f IHa. rewrite !all_steps_eq, !andb_true_iff. intros [H1 H2].
    split; [apply HPP; exact H1 | apply IHa; exact H2].
  - intros m. rewrite !all_steps_eq, !andb_true_iff. intros [H1 H2]. split; [apply HPP; exact H1 | exact H2].
  - intros p s. rewrite !all_steps_eq, !andb_true_iff. intros [H1 H2]. split; [apply HPP; exact H1 | exact H2].
  - intros op t p. rewrite !all_steps_eq, !andb_true_iff. intros [H1 H2]. split; [apply HPP; exact H1 | exact H2].
  - intros f l. rewrite !all_steps_eq, !andb_true_iff. intros [H1 H2]. split; [apply HPP; exact H1 | exact H2].
  - intros subs Hsubs. rewrite !all_steps_eq, !andb_true_iff. intros [H1 H2].
    split; [apply HPP; exact H1 |].
    clear H1. revert H2. induction Hsubs as [|[a b] r [Ha Hb] _ IHr]; [reflexivity|].
    cbn [all_subs]. unfold all_sub. cbn [fst snd] in *. rewrite !andb_true_iff.
    intros [[Ka Kb] Kr]. split; [split|].
    + apply Ha; exact Ka.
    + destruct b as [c|]; [apply Hb; exact Kb | reflexivity].
    + apply IHr; exact Kr.
Qed.

Lemma all_chain_ext (P P' : step -> bool) :
  (forall s, P s = P' s) -> forall c, all_chain P c = all_chain P' c.
Proof.
  intros HPP c.
  destruct (all_chain P c) eqn:E1, (all_chain P' c) eqn:E2; try reflexivity.
  - assert (H : all_chain P' c = true).
    { apply (all_chain_mono P P'); [intros s Hs; rewrite <- HPP; exact Hs | exact E1]. }
    rewrite H in E2. discriminate E2.
  - assert (H : all_chain P c = true).
    { apply (all_chain_mono P' P); [intros s Hs; rewrite HPP; exact Hs | exact E2]. }
    rewrite H in E1. discriminate E1.
Qed.

(* quirk-free = subscript-free and "is unknown"-free *)
Lemma quirk_free_split c : quirk_free c = index_free c && isunknown_free c.
Proof.
  unfold quirk_free, index_free, isunknown_free.
  rewrite <- (all_and noidx1 noiu1 c).
  apply all_chain_ext. intros s.
  destruct s as [| | | | | | |op a| | | | | |]; try reflexivity; destruct op; reflexivity.
Qed.

(* ------------------------------------------------------------------ *)
(* 1. The master lemma                                                 *)
(* ------------------------------------------------------------------ *)
Section Master.
Variables (L : ExecLib) (C : cenv) (Q Q' : quirks).

Notation T := (ins1 Q Q').
Notation SS := (sem_step L C Q).
Notation SS' := (sem_step L C Q').
Notation SP := (sem_pred L C Q).
Notation SP' := (sem_pred L C Q').
Notation SC := (sem_chain L C Q).
Notation SC' := (sem_chain L C Q').
Notation lx := (laxm C).

Definition step_same (s : step) : Prop :=
  (forall k cur l ig u v, SS s k cur l ig u v = SS' s k cur l ig u v) /\
  (forall cur l ig v, SP s cur l ig v = SP' s cur l ig v).

Definition chain_same (n : chain) : Prop :=
  (forall cur l ig u v, SC n cur l ig u v = SC' n cur l ig u v) /\
  (forall cur l ig v, pred_chain L C Q n cur l ig v = pred_chain L C Q' n cur l ig v).

Lemma operand_same n : chain_same n ->
  forall uw cur l ig v, operand L C Q n uw cur l ig v = operand L C Q' n uw cur l ig v.
Proof.
  intros [Hc _] uw cur l ig v. unfold operand. cbv zeta. rewrite Hc. reflexivity.
Qed.

Lemma predicate_same lc rc : chain_same lc ->
  match rc with Some r => chain_same r | None => True end ->
  forall uw cb cur l ig v,
    predicate L C Q lc rc uw cb cur l ig v = predicate L C Q' lc rc uw cb cur l ig v.
Proof.
  intros Hl Hr uw cb cur l ig v. unfold predicate.
  rewrite (operand_same lc Hl).
  destruct rc as [r|]; [rewrite (operand_same r Hr)|]; reflexivity.
Qed.

Lemma unwrap_over_ext u v one one' :
  (forall x, one x = one' x) -> unwrap_over u v one = unwrap_over u v one'.
Proof. intros H. rewrite !unwrap_over_bind. apply tbind_ext_all. exact H. Qed.

(* steps whose rule mentions neither a sub-chain nor a switch *)
Lemma leaf_same s :
  match s with SBin _ _ _ | SUn _ _ | SRegex _ _ _ | SIndex _ => False | _ => True end ->
  step_same s.
Proof.
  (* the rule of such a step does not mention Q at all: both sides are convertible *)
  intros Hs. split.
  - intros k cur l ig u v. destruct s as [c| | | | | | | | | | | | |]; try (now elim Hs); try destruct c; reflexivity.
  - intros cur l ig v. destruct s as [c| | | | | | | | | | | | |]; try (now elim Hs); try destruct c; reflexivity.
Qed.

Lemma index_go_same es k cur ig v subs :
  q_skip_null Q = q_skip_null Q' ->
  Forall (fun ab => (all_chain T (fst ab) = true -> chain_same (fst ab)) /\
                    match snd ab with
                    | Some c => all_chain T c = true -> chain_same c
                    | None => True
                    end) subs ->
  all_subs T subs = true ->
  index_go L C Q es k cur ig v subs = index_go L C Q' es k cur ig v subs.
Proof.
  intros Hq Hsubs. induction Hsubs as [|[a b] r [Ha Hb] _ IHr]; intros Hall; [reflexivity|].
  cbn [all_subs] in Hall. unfold all_sub in Hall. cbn [fst snd] in *.
  apply andb_true_iff in Hall. destruct Hall as [Hab Hr].
  apply andb_true_iff in Hab. destruct Hab as [Ka Kb].
  cbn [index_go]. cbv zeta.
  destruct (Ha Ka) as [Hca _]. rewrite Hca.
  destruct (index_of L _) as [from|e]; [|reflexivity].
  assert (Hto : match b with
                | Some bn => index_of L (SC bn cur (Z.of_nat (Datatypes.length es)) ig lx v)
                | None => inl from
                end =
                match b with
                | Some bn => index_of L (SC' bn cur (Z.of_nat (Datatypes.length es)) ig lx v)
                | None => inl from
                end).
  { destruct b as [bn|]; [|reflexivity]. destruct (Hb Kb) as [Hcb _]. rewrite Hcb. reflexivity. }
  rewrite Hto. rewrite (IHr Hr), Hq. reflexivity.
Qed.

Lemma same_nil : all_chain T [] = true -> chain_same [].
Proof. intros _. split; intros; reflexivity. Qed.

Lemma same_cons s c :
  (all_steps T s = true -> step_same s) -> (all_chain T c = true -> chain_same c) ->
  all_chain T (s :: c) = true -> chain_same (s :: c).
Proof.
  intros IHs IHc Hall. rewrite all_chain_cons in Hall.
  apply andb_true_iff in Hall. destruct Hall as [H1 H2].
  destruct (IHs H1) as [Hss Hsp]. destruct (IHc H2) as [Hcc _]. split.
  - intros cur l ig u v. rewrite !sem_chain_cons, Hss.
    apply ComposeProofs.sem_step_ext. intros l' ig' x. apply Hcc.
  - intros cur l ig v. unfold pred_chain. destruct c; [apply Hsp | reflexivity].
Qed.

Lemma same_bin op lc rc :
  (all_chain T lc = true -> chain_same lc) -> (all_chain T rc = true -> chain_same rc) ->
  all_steps T (SBin op lc rc) = true -> step_same (SBin op lc rc).
Proof.
  intros IHl IHr Hall. rewrite all_steps_eq in Hall. cbn [ins1] in Hall.
  apply andb_true_iff in Hall. destruct Hall as [_ Hall].
  apply andb_true_iff in Hall. destruct Hall as [H1 H2].
  pose proof (IHl H1) as Hl. pose proof (IHr H2) as Hr.
  assert (Hp : forall cur l ig v, SP (SBin op lc rc) cur l ig v = SP' (SBin op lc rc) cur l ig v).
  { intros cur l ig v. destruct Hl as [Hcl Hpl]. destruct Hr as [Hcr Hpr].
    destruct op.
    - rewrite !sem_pred_and, Hpl, Hpr. reflexivity.
    - rewrite !sem_pred_or, Hpl, Hpr. reflexivity.
    - rewrite !sem_pred_cmp by reflexivity. apply (predicate_same lc (Some rc)); split; assumption.
    - rewrite !sem_pred_cmp by reflexivity. apply (predicate_same lc (Some rc)); split; assumption.
    - rewrite !sem_pred_cmp by reflexivity. apply (predicate_same lc (Some rc)); split; assumption.
    - rewrite !sem_pred_cmp by reflexivity. apply (predicate_same lc (Some rc)); split; assumption.
    - rewrite !sem_pred_cmp by reflexivity. apply (predicate_same lc (Some rc)); split; assumption.
    - rewrite !sem_pred_cmp by reflexivity. apply (predicate_same lc (Some rc)); split; assumption.
    - rewrite !sem_pred_starts. apply (predicate_same lc (Some rc)); split; assumption.
    - rewrite !sem_pred_arith by reflexivity. reflexivity.
    - rewrite !sem_pred_arith by reflexivity. reflexivity.
    - rewrite !sem_pred_arith by reflexivity. reflexivity.
    - rewrite !sem_pred_arith by reflexivity. reflexivity.
    - rewrite !sem_pred_arith by reflexivity. reflexivity. }
  split; [|exact Hp].
  intros k cur l ig u v. destruct (is_bool_binop op) eqn:E.
  - rewrite !sem_step_boolbin by exact E. rewrite Hp. reflexivity.
  - rewrite !sem_step_arith by exact E. unfold arith_step. cbv zeta.
    destruct Hl as [Hcl _]. destruct Hr as [Hcr _]. rewrite !Hcl, !Hcr. reflexivity.
Qed.

Lemma same_un op a :
  (all_chain T a = true -> chain_same a) ->
  all_steps T (SUn op a) = true -> step_same (SUn op a).
Proof.
  intros IHa Hall. rewrite all_steps_eq in Hall.
  apply andb_true_iff in Hall. destruct Hall as [HT Ha].
  destruct (IHa Ha) as [Hca Hpa].
  destruct op.
  - (* exists *)
    assert (Hp : forall cur l ig v, SP (SUn UExists a) cur l ig v = SP' (SUn UExists a) cur l ig v).
    { intros cur l ig v. rewrite !sem_pred_exists. cbv zeta. rewrite Hca. reflexivity. }
    split; [|exact Hp]. intros k cur l ig u v.
    rewrite !sem_step_pred_un by exact I. rewrite Hp. reflexivity.
  - (* not *)
    assert (Hp : forall cur l ig v, SP (SUn UNot a) cur l ig v = SP' (SUn UNot a) cur l ig v).
    { intros cur l ig v. rewrite !sem_pred_not, Hpa. reflexivity. }
    split; [|exact Hp]. intros k cur l ig u v.
    rewrite !sem_step_pred_un by exact I. rewrite Hp. reflexivity.
  - (* is unknown: the only reader of q_iu_swallow *)
    cbn [ins1] in HT. apply Bool.eqb_prop in HT.
    assert (Hp : forall cur l ig v, SP (SUn UIsUnknown a) cur l ig v = SP' (SUn UIsUnknown a) cur l ig v).
    { intros cur l ig v. rewrite !sem_pred_isunknown, Hpa, HT. reflexivity. }
    split; [|exact Hp]. intros k cur l ig u v.
    rewrite !sem_step_pred_un by exact I. rewrite Hp. reflexivity.
  - (* unary plus *)
    split.
    + intros k cur l ig u v. rewrite !sem_step_plus. unfold sign_step. cbv zeta. rewrite Hca. reflexivity.
    + intros cur l ig v. rewrite !sem_pred_other by exact I. reflexivity.
  - (* unary minus *)
    split.
    + intros k cur l ig u v. rewrite !sem_step_minus. unfold sign_step. cbv zeta. rewrite Hca. reflexivity.
    + intros cur l ig v. rewrite !sem_pred_other by exact I. reflexivity.
  - (* filter *)
    split.
    + intros k cur l ig u v. rewrite !sem_step_filter. apply unwrap_over_ext. intros x.
      unfold filter_one. rewrite Hpa. reflexivity.
    + intros cur l ig v. rewrite !sem_pred_other by exact I. reflexivity.
Qed.

Lemma same_regex a pat flags :
  (all_chain T a = true -> chain_same a) ->
  all_steps T (SRegex a pat flags) = true -> step_same (SRegex a pat flags).
Proof.
  intros IHa Hall. rewrite all_steps_eq in Hall. cbn [ins1] in Hall.
  apply andb_true_iff in Hall. destruct Hall as [_ Ha].
  pose proof (IHa Ha) as Hsa.
  assert (Hp : forall cur l ig v, SP (SRegex a pat flags) cur l ig v = SP' (SRegex a pat flags) cur l ig v).
  { intros cur l ig v. rewrite !sem_pred_regex. apply (predicate_same a None); [exact Hsa | exact I]. }
  split; [|exact Hp]. intros k cur l ig u v.
  rewrite !sem_step_regex. rewrite Hp. reflexivity.
Qed.

(* SIndex: the only reader of q_skip_null *)
Lemma same_index subs :
  Forall (fun ab => (all_chain T (fst ab) = true -> chain_same (fst ab)) /\
                    match snd ab with
                    | Some c => all_chain T c = true -> chain_same c
                    | None => True
                    end) subs ->
  all_steps T (SIndex subs) = true -> step_same (SIndex subs).
Proof.
  intros Hsubs Hall. rewrite all_steps_eq in Hall. cbn [ins1] in Hall.
  apply andb_true_iff in Hall. destruct Hall as [HT Hs]. apply Bool.eqb_prop in HT.
  split.
  - intros k cur l ig u v. rewrite !sem_step_index.
    destruct (index_target C v) as [es|]; [|reflexivity].
    apply index_go_same; assumption.
  - intros cur l ig v. rewrite !sem_pred_other by exact I. reflexivity.
Qed.

Theorem insensitive_step : forall s, all_steps T s = true -> step_same s.
Proof.
  apply (step_ind' (fun s => all_steps T s = true -> step_same s)
                   (fun n => all_chain T n = true -> chain_same n)).
  - exact same_nil.
  - exact same_cons.
  - intros k _. apply leaf_same. exact I.
  - intros x _. apply leaf_same. exact I.
  - intros x _. apply leaf_same. exact I.
  - intros x _. apply leaf_same. exact I.
  - intros x _. apply leaf_same. exact I.
  - intros x _. apply leaf_same. exact I.
  - exact same_bin.
  - exact same_un.
  - exact same_regex.
  - intros m _. apply leaf_same. exact I.
  - intros p s _. apply leaf_same. exact I.
  - intros op t p _. apply leaf_same. exact I.
  - intros f l _. apply leaf_same. exact I.
  - exact same_index.
Qed.

Theorem insensitive_chain : forall n, all_chain T n = true -> chain_same n.
Proof.
  induction n as [|s c IHc]; [exact same_nil|].
  apply same_cons; [apply insensitive_step | exact IHc].
Qed.

End Master.

(* The master lemma, spelled out. *)
Theorem sem_step_insensitive L C Q Q' s :
  all_steps (ins1 Q Q') s = true ->
  forall k cur l ig u v, sem_step L C Q s k cur l ig u v = sem_step L C Q' s k cur l ig u v.
Proof. intros H. exact (proj1 (insensitive_step L C Q Q' s H)). Qed.

Theorem sem_pred_insensitive L C Q Q' s :
  all_steps (ins1 Q Q') s = true ->
  forall cur l ig v, sem_pred L C Q s cur l ig v = sem_pred L C Q' s cur l ig v.
Proof. intros H. exact (proj2 (insensitive_step L C Q Q' s H)). Qed.

Theorem sem_chain_insensitive L C Q Q' n :
  all_chain (ins1 Q Q') n = true ->
  forall cur l ig u v, sem_chain L C Q n cur l ig u v = sem_chain L C Q' n cur l ig u v.
Proof. intros H. exact (proj1 (insensitive_chain L C Q Q' n H)). Qed.

(* ------------------------------------------------------------------ *)
(* 2. The two switches, independently                                  *)
(* ------------------------------------------------------------------ *)

Lemma noidx_ins Q Q' : q_iu_swallow Q = q_iu_swallow Q' ->
  forall s, noidx1 s = true -> ins1 Q Q' s = true.
Proof.
  intros Hq s. destruct s as [| | | | | | |op a| | | | | |]; try reflexivity; try discriminate.
  intros _. destruct op; try reflexivity. cbn [ins1]. rewrite Hq. apply Bool.eqb_reflx.
Qed.

Lemma noiu_ins Q Q' : q_skip_null Q = q_skip_null Q' ->
  forall s, noiu1 s = true -> ins1 Q Q' s = true.
Proof.
  intros Hq s. destruct s as [| | | | | | |op a| | | | | |]; try reflexivity.
  - destruct op; try reflexivity; discriminate.
  - intros _. cbn [ins1]. rewrite Hq. apply Bool.eqb_reflx.
Qed.

Lemma qf_ins Q Q' : forall s, qf1 s = true -> ins1 Q Q' s = true.
Proof.
  intros s. destruct s as [| | | | | | |op a| | | | | |]; try reflexivity; try discriminate.
  destruct op; try reflexivity; discriminate.
Qed.

(* subscript-free chains do not depend on q_skip_null *)
Theorem sem_chain_index_free L C Q Q' n :
  q_iu_swallow Q = q_iu_swallow Q' -> index_free n = true ->
  forall cur l ig u v, sem_chain L C Q n cur l ig u v = sem_chain L C Q' n cur l ig u v.
Proof.
  intros Hq Hn. apply sem_chain_insensitive.
  exact (all_chain_mono noidx1 (ins1 Q Q') (noidx_ins Q Q' Hq) n Hn).
Qed.

(* "is unknown"-free chains do not depend on q_iu_swallow *)
Theorem sem_chain_isunknown_free L C Q Q' n :
  q_skip_null Q = q_skip_null Q' -> isunknown_free n = true ->
  forall cur l ig u v, sem_chain L C Q n cur l ig u v = sem_chain L C Q' n cur l ig u v.
Proof.
  intros Hq Hn. apply sem_chain_insensitive.
  exact (all_chain_mono noiu1 (ins1 Q Q') (noiu_ins Q Q' Hq) n Hn).
Qed.

(* the combined statement follows from the two independent ones, by changing
   one switch at a time *)
Theorem sem_chain_quirk_free L C Q Q' n :
  quirk_free n = true ->
  forall cur l ig u v, sem_chain L C Q n cur l ig u v = sem_chain L C Q' n cur l ig u v.
Proof.
  intros Hn cur l ig u v. rewrite quirk_free_split in Hn.
  apply andb_true_iff in Hn. destruct Hn as [Hi Hu].
  transitivity (sem_chain L C (mkq (q_skip_null Q') (q_iu_swallow Q)) n cur l ig u v).
  - apply sem_chain_index_free; [reflexivity | exact Hi].
  - apply sem_chain_isunknown_free; [reflexivity | exact Hu].
Qed.

Theorem sem_step_quirk_free L C Q Q' s :
  all_steps qf1 s = true ->
  forall k cur l ig u v, sem_step L C Q s k cur l ig u v = sem_step L C Q' s k cur l ig u v.
Proof.
  intros Hs. apply sem_step_insensitive.
  assert (H : all_chain (ins1 Q Q') [s] = true).
  { apply (all_chain_mono qf1 (ins1 Q Q') (qf_ins Q Q')). rewrite all_chain_cons, Hs. reflexivity. }
  rewrite all_chain_cons in H. apply andb_true_iff in H. exact (proj1 H).
Qed.

Theorem sem_pred_quirk_free L C Q Q' s :
  all_steps qf1 s = true ->
  forall cur l ig v, sem_pred L C Q s cur l ig v = sem_pred L C Q' s cur l ig v.
Proof.
  intros Hs. apply sem_pred_insensitive.
  assert (H : all_chain (ins1 Q Q') [s] = true).
  { apply (all_chain_mono qf1 (ins1 Q Q') (qf_ins Q Q')). rewrite all_chain_cons, Hs. reflexivity. }
  rewrite all_chain_cons in H. apply andb_true_iff in H. exact (proj1 H).
Qed.

(* whole paths *)
Theorem sem_of_index_free L Q Q' p doc o :
  q_iu_swallow Q = q_iu_swallow Q' -> index_free (p_root p) = true ->
  sem_of L Q p doc o = sem_of L Q' p doc o.
Proof. intros Hq H. unfold sem_of, sem_path. apply sem_chain_index_free; assumption. Qed.

Theorem sem_of_isunknown_free L Q Q' p doc o :
  q_skip_null Q = q_skip_null Q' -> isunknown_free (p_root p) = true ->
  sem_of L Q p doc o = sem_of L Q' p doc o.
Proof. intros Hq H. unfold sem_of, sem_path. apply sem_chain_isunknown_free; assumption. Qed.

Theorem sem_of_quirk_free L Q Q' p doc o :
  quirk_free (p_root p) = true -> sem_of L Q p doc o = sem_of L Q' p doc o.
Proof. intros H. unfold sem_of, sem_path. apply sem_chain_quirk_free. exact H. Qed.

(* ------------------------------------------------------------------ *)
(* 3. The executor model conforms to the ideal semantics               *)
(* ------------------------------------------------------------------ *)
Section Conform.
Variables (L : ExecLib) (p : path) (doc : json) (o : opts).
Hypothesis Hnc : o_cancel_at o = None.
Hypothesis Hmc : members_canon L.
Hypothesis Hne : p_root p <> [].
Hypothesis Hkv : no_kv (p_root p) = true.
Hypothesis Hex : exists_ok (p_root p) = true.
Hypothesis Hno : ne_ops (p_root p) = true.
Hypothesis Hqf : quirk_free (p_root p) = true.

Theorem query_conforms_ideal fuel q :
  Query L fuel p doc o = Ret q ->
  qres_sim q (p_query (o_silent o) (sem_of L quirks_ideal p doc o)).
Proof.
  intros H. rewrite (sem_of_quirk_free L quirks_ideal quirks_code p doc o Hqf).
  exact (query_is_trace L p doc o Hnc Hmc Hne Hkv Hex Hno fuel q H).
Qed.

Theorem first_conforms_ideal fuel q :
  First L fuel p doc o = Ret q ->
  fres_sim q (p_first (o_silent o) (sem_of L quirks_ideal p doc o)).
Proof.
  intros H. rewrite (sem_of_quirk_free L quirks_ideal quirks_code p doc o Hqf).
  exact (first_is_trace L p doc o Hnc Hmc Hne Hkv Hex Hno fuel q H).
Qed.

Theorem match_conforms_ideal fuel q :
  Match L fuel p doc o = Ret q ->
  bres_sim q (p_match (o_silent o) (sem_of L quirks_ideal p doc o)).
Proof.
  intros H. rewrite (sem_of_quirk_free L quirks_ideal quirks_code p doc o Hqf).
  exact (match_is_trace L p doc o Hnc Hmc Hne Hkv Hex Hno fuel q H).
Qed.

Theorem exists_conforms_ideal fuel b :
  Exists L fuel p doc o = Ret b ->
  (p_lax p = true -> unary_tail_free (p_root p) = true) ->
  bres_sim b (p_exists (p_lax p) (o_silent o) (sem_of L quirks_ideal p doc o)).
Proof.
  intros H Hu. rewrite (sem_of_quirk_free L quirks_ideal quirks_code p doc o Hqf).
  exact (exists_is_trace L p doc o Hnc Hmc Hne Hkv Hex Hno fuel b H Hu).
Qed.

Theorem eom_conforms_ideal fuel b :
  ExistsOrMatch L fuel p doc o = Ret b ->
  (p_pred p = false -> p_lax p = true -> unary_tail_free (p_root p) = true) ->
  bres_sim b (p_eom (p_lax p) (p_pred p) (o_silent o) (sem_of L quirks_ideal p doc o)).
Proof.
  intros H Hu. rewrite (sem_of_quirk_free L quirks_ideal quirks_code p doc o Hqf).
  exact (eom_is_trace L p doc o Hnc Hmc Hne Hkv Hex Hno fuel b H Hu).
Qed.
End Conform.

(* ------------------------------------------------------------------ *)
(* 4. Witnesses                                                        *)
(* ------------------------------------------------------------------ *)

(* the hypotheses of the conformance theorems hold of a path with a member
   accessor and a filter ([p_wit] = lax $.a ? (@ > 1)) *)
Example quirk_free_witness :
  quirk_free (p_root p_wit) = true /\
  no_kv (p_root p_wit) = true /\ exists_ok (p_root p_wit) = true /\ ne_ops (p_root p_wit) = true /\
  unary_tail_free (p_root p_wit) = true /\
  o_cancel_at (o0 false) = None /\ members_canon L0 /\ p_root p_wit <> [] /\
  Query L0 20 p_wit doc_wit (o0 false) = Ret (QItems [JNum (NInt 2); JNum (NInt 3)]) /\
  p_query false (sem_of L0 quirks_ideal p_wit doc_wit (o0 false)) = QItems [JNum (NInt 2); JNum (NInt 3)].
Proof.
  repeat match goal with |- _ /\ _ => split end;
    try exact L0_canon; try discriminate; vm_compute; reflexivity.
Qed.

(* a second one, with a wildcard, a recursive descent, a method and exists():
   strict $.*.** ? (exists(@.b) && @.b >= 2).b.type() *)
Definition p_wit2 : path :=
  mkpath false false
    [SConst CRoot; SConst CAnyKey; SAny 0 max_uint32;
     SUn UFilter [SBin BAnd [SUn UExists [SConst CCurrent; SKey "b"]]
                            [SBin BGe [SConst CCurrent; SKey "b"] [SInteger 2]]];
     SKey "b"; SMeth MType].
Definition doc_wit2 : json :=
  JObj 1 [("x"%string, JObj 2 [("b"%string, JNum (NInt 1)); ("c"%string, JObj 3 [("b"%string, JNum (NInt 5))])]);
          ("y"%string, JObj 4 [("b"%string, JNum (NInt 2))])].
Example quirk_free_witness2 :
  quirk_free (p_root p_wit2) = true /\
  no_kv (p_root p_wit2) = true /\ exists_ok (p_root p_wit2) = true /\ ne_ops (p_root p_wit2) = true /\
  unary_tail_free (p_root p_wit2) = true /\ p_root p_wit2 <> [] /\
  Query L0 40 p_wit2 doc_wit2 (o0 false) = Ret (QItems [JStr "number"; JStr "number"]) /\
  p_query false (sem_of L0 quirks_ideal p_wit2 doc_wit2 (o0 false)) = QItems [JStr "number"; JStr "number"].
Proof.
  repeat match goal with |- _ /\ _ => split end;
    try discriminate; vm_compute; reflexivity.
Qed.

(* the subscript exclusion is needed: lax $[0 to 1] on [null, 1].
   All other hypotheses hold; the two semantics differ, and the model follows
   quirks_code (known finding KF-C14-null-subscript). *)
Definition p_sub : path :=
  mkpath true false [SConst CRoot; SIndex [([SInteger 0], Some [SInteger 1])]].
Definition doc_sub : json := JArr 1 [JNull; JNum (NInt 1)].
Example subscript_exclusion_needed :
  index_free (p_root p_sub) = false /\ isunknown_free (p_root p_sub) = true /\
  quirk_free (p_root p_sub) = false /\
  no_kv (p_root p_sub) = true /\ exists_ok (p_root p_sub) = true /\ ne_ops (p_root p_sub) = true /\
  sem_of L0 quirks_code p_sub doc_sub (o0 false) = ([JNum (NInt 1)], None) /\
  sem_of L0 quirks_ideal p_sub doc_sub (o0 false) = ([JNull; JNum (NInt 1)], None) /\
  sem_of L0 quirks_code p_sub doc_sub (o0 false) <> sem_of L0 quirks_ideal p_sub doc_sub (o0 false) /\
  Query L0 20 p_sub doc_sub (o0 false) = Ret (QItems [JNum (NInt 1)]) /\
  ~ qres_sim (QItems [JNum (NInt 1)]) (p_query false (sem_of L0 quirks_ideal p_sub doc_sub (o0 false))).
Proof.
  repeat match goal with |- _ /\ _ => split end;
    try (vm_compute; reflexivity); vm_compute; intros H; first [discriminate H | exact H].
Qed.

(* the "is unknown" exclusion is needed: lax ($missing == 1) is unknown, no
   variable bound.  The operand fails with a non-suppressible error; the code
   answers true, the documented rule propagates the error (known finding
   KF-C11-isunknown-hard-error). *)
Definition p_iu : path :=
  mkpath true true [SUn UIsUnknown [SBin BEq [SVar "missing"] [SInteger 1]]].
Example isunknown_exclusion_needed :
  isunknown_free (p_root p_iu) = false /\ index_free (p_root p_iu) = true /\
  quirk_free (p_root p_iu) = false /\
  no_kv (p_root p_iu) = true /\ exists_ok (p_root p_iu) = true /\ ne_ops (p_root p_iu) = true /\
  sem_of L0 quirks_code p_iu JNull (o0 false) = ([JBool true], None) /\
  sem_of L0 quirks_ideal p_iu JNull (o0 false) = ([], Some (EExec "could not find jsonpath variable")) /\
  sem_of L0 quirks_code p_iu JNull (o0 false) <> sem_of L0 quirks_ideal p_iu JNull (o0 false) /\
  Query L0 20 p_iu JNull (o0 false) = Ret (QItems [JBool true]) /\
  ~ qres_sim (QItems [JBool true]) (p_query false (sem_of L0 quirks_ideal p_iu JNull (o0 false))).
Proof.
  repeat match goal with |- _ /\ _ => split end;
    try (vm_compute; reflexivity); vm_compute; intros H; first [discriminate H | exact H].
Qed.

Print Assumptions sem_chain_insensitive.
Print Assumptions sem_of_quirk_free.
Print Assumptions query_conforms_ideal.
Print Assumptions eom_conforms_ideal.
Print Assumptions quirk_free_witness.
Print Assumptions subscript_exclusion_needed.
Print Assumptions isunknown_exclusion_needed.
