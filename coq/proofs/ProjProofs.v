(* ProjProofs.v — the clauses of C06 and C08 as lemmas about the projections of
   spec/Proj.v: whatever the trace, the five entry points (and the silent and
   verbose runs) are related as the properties say. *)
From SJ Require Import lib.Base model.Json model.Ast model.ExecLib model.Leaf model.Exec spec.Sem spec.Proj.

Lemma p_first_of_query silent t : p_first silent t = first_of_query (p_query silent t).
Proof. unfold p_first, first_of_query. destruct (p_query silent t) as [[|x l]|e]; reflexivity. Qed.

Lemma p_match_of_query silent t : p_match silent t = match_of_query silent (p_query silent t).
Proof. reflexivity. Qed.

Lemma p_exists_of_successful_query laxm t l :
  p_query false t = QItems l ->
  p_exists laxm false t = BVal (negb (match l with [] => true | _ => false end)).
Proof.
  destruct t as [items [e|]]; unfold p_query, p_exists, vis; cbn [fst snd].
  - rewrite andb_false_r. discriminate.
  - intros H. injection H as <-. destruct laxm; destruct items; reflexivity.
Qed.

Lemma p_exists_true_item laxm silent t : p_exists laxm silent t = BVal true -> fst t <> [].
Proof.
  destruct t as [items f]; unfold p_exists; cbn [fst snd].
  destruct laxm.
  - destruct items; [|discriminate]. destruct f as [e|]; [|discriminate].
    destruct (vis silent e); discriminate.
  - destruct f as [e|].
    + destruct (vis silent e); discriminate.
    + destruct items; [discriminate|]. discriminate.
Qed.

Lemma p_exists_strict_error silent t e : p_query silent t = QErr e -> p_exists false silent t = BErr e.
Proof.
  destruct t as [items [x|]]; unfold p_query, p_exists; cbn [fst snd]; [|discriminate].
  destruct (vis silent x); [|discriminate]. intros H. injection H as <-. reflexivity.
Qed.

Lemma p_eom_dispatch laxm pred silent t :
  p_eom laxm pred silent t = if pred then p_match silent t else p_exists laxm silent t.
Proof. reflexivity. Qed.

(* ---- C08: silent versus verbose projections of the same trace ---- *)

(* a verbose success is returned unchanged by the silent run *)
Lemma p_query_success_same t l : p_query false t = QItems l -> p_query true t = QItems l.
Proof.
  destruct t as [items [e|]]; unfold p_query, vis; cbn [fst snd]; [|auto].
  rewrite andb_false_r. discriminate.
Qed.

(* a suppressible failure: the silent Query returns the items found before it *)
Lemma p_query_suppressed t e :
  snd t = Some e -> is_verbose e = true -> p_query true t = QItems (fst t).
Proof. destruct t as [items f]; cbn [fst snd]; intros -> He. unfold p_query, vis; cbn [fst snd]. rewrite He. reflexivity. Qed.

(* a non-suppressible failure is returned unchanged *)
Lemma p_query_hard t e :
  snd t = Some e -> is_verbose e = false -> p_query true t = QErr (AErr e) /\ p_query false t = QErr (AErr e).
Proof. destruct t as [items f]; cbn [fst snd]; intros -> He. unfold p_query, vis; cbn [fst snd]. rewrite He. split; reflexivity. Qed.

(* no projection of a silent run is a suppressible error object *)
Lemma p_query_silent_never_verbose t e : p_query true t = QErr (AErr e) -> is_verbose e = false.
Proof.
  destruct t as [items [x|]]; unfold p_query, vis; cbn [fst snd]; [|discriminate].
  destruct (is_verbose x) eqn:Hx; cbn; [discriminate|]. intros H. injection H as <-. exact Hx.
Qed.

Lemma p_exists_silent_never_verbose laxm t e : p_exists laxm true t = BErr (AErr e) -> is_verbose e = false.
Proof.
  destruct t as [items [x|]]; unfold p_exists, vis; cbn [fst snd]; destruct laxm; destruct items;
    try discriminate; destruct (is_verbose x) eqn:Hx; cbn; try discriminate;
    intros H; injection H as <-; exact Hx.
Qed.

(* Exists under WithSilent: NULL unless the answer was already established *)
Lemma p_exists_suppressed laxm t e :
  snd t = Some e -> is_verbose e = true ->
  p_exists laxm true t = if laxm && negb (match fst t with [] => true | _ => false end) then BVal true else BErr ANull.
Proof.
  destruct t as [items f]; cbn [fst snd]; intros -> He. unfold p_exists, vis; cbn [fst snd]. rewrite He.
  destruct laxm, items; reflexivity.
Qed.
