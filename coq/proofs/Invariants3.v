(* Invariants3.v — cancellation is never mistaken for a result: if, when a call
   returns, the context has been observed done, then either the call did not
   poll at all or its result is the cancellation error.  Stdlib only, no axioms. *)
From SJ Require Import lib.Base model.Json model.Ast model.ExecLib model.Leaf model.Exec
     proofs.RunBasics proofs.InvTac.

Definition canc_i (x : resp) : Prop := r_st x = SFailed /\ r_err x = Some ECancel.
Definition canc_b (p : presp) : Prop := p_out p = PUnknown /\ p_err p = Some ECancel.

Definition cpost_i (E : env) (s : st) (x : resp) (s' : st) : Prop :=
  ctx_err E s' = true -> polls s' = polls s \/ canc_i x.
Definition cpost_b (E : env) (s : st) (p : presp) (s' : st) : Prop :=
  ctx_err E s' = true -> polls s' = polls s \/ canc_b p.
(* the subscript evaluators return a sum *)
Definition cpost_e {A} (E : env) (s : st) (x : A + err) (s' : st) : Prop :=
  ctx_err E s' = true -> polls s' = polls s \/ x = inr ECancel.

Definition cpost (E : env) (r : req) (s : st) (a : ans) (s' : st) : Prop :=
  match a with AItem x => cpost_i E s x s' | ABool p => cpost_b E s p s' end.

Definition cancels (E : env) (self : req -> st -> outcome (ans * st)) : Prop :=
  forall r s a s', self r s = Ret (a, s') -> cpost E r s a s'.

Lemma ctx_err_polls E a b : polls a = polls b -> ctx_err E a = ctx_err E b.
Proof. unfold ctx_err; intros ->; reflexivity. Qed.
Lemma ctx_err_set_cur E s v : ctx_err E (set_cur s v) = ctx_err E s. Proof. reflexivity. Qed.
Lemma ctx_err_set_last_size E s v : ctx_err E (set_last_size s v) = ctx_err E s. Proof. reflexivity. Qed.
Lemma ctx_err_set_ign E s v : ctx_err E (set_ign s v) = ctx_err E s. Proof. reflexivity. Qed.
Lemma ctx_err_set_verbose E s v : ctx_err E (set_verbose s v) = ctx_err E s. Proof. reflexivity. Qed.
Lemma ctx_err_set_base E s a i : ctx_err E (set_base s a i) = ctx_err E s. Proof. reflexivity. Qed.
Lemma ctx_err_set_last_id E s v : ctx_err E (set_last_id s v) = ctx_err E s. Proof. reflexivity. Qed.
Lemma ctx_err_set_next_tag E s v : ctx_err E (set_next_tag s v) = ctx_err E s. Proof. reflexivity. Qed.

(* the poll at the top of executeItemOptUnwrapTarget *)
Lemma cpost_tick E s x s' : done_now E s = false -> cpost_i E (tick s) x s' -> cpost_i E s x s'.
Proof.
  unfold cpost_i; intros DN P Hh. destruct (P Hh) as [Heq|Hc]; [exfalso|right; exact Hc].
  unfold ctx_err, done_now in *. cbn [polls tick] in Heq.
  destruct (e_cancel_at E) as [k|]; [|discriminate Hh].
  apply Nat.ltb_lt in Hh. apply Nat.leb_gt in DN. lia.
Qed.

(* One call, seen from the end: the context is known done at its final state
   (Hh); either the call did not poll — then the context was already done at its
   initial state — or its result is the cancellation, which is propagated into
   the path conditions. *)
Ltac cstep :=
  match goal with
  | P : ctx_err ?E ?sj = true -> _, Hh : ctx_err ?E ?sj = true |- _ =>
      specialize (P Hh); destruct P as [P | P];
      [ match type of P with
        | polls _ = polls ?si =>
            let Hh' := fresh "Hh" in
            assert (Hh' : ctx_err E si = true) by (rewrite <- (ctx_err_polls E _ _ P); exact Hh)
        end
      | first [ discriminate P
              | match type of P with
                | _ /\ _ =>
                    let Hst := fresh "Hst" in let Her := fresh "Her" in
                    destruct P as [Hst Her]; try rewrite Hst in *; try rewrite Her in *
                | inr _ = inr _ => injection P as P; try subst
                end ] ]
  end.

Ltac cfin :=
  repeat match goal with Hh : ctx_err _ _ = true |- _ => rewrite Hh in *; clear Hh end;
  bool_norm;
  first [ solve [exfalso; congruence]
        | left; congruence
        | right; first [ congruence | split; congruence ] ].

Ltac ctac :=
  repeat match goal with Hi : ?a = ?a -> _ |- _ => specialize (Hi eq_refl) end;
  unfold cpost_i, cpost_b, cpost_e, canc_i, canc_b, exit_now in *;
  cbn [r_st r_err r_found p_out p_err] in *;
  let Hh := fresh "Hh" in intros Hh;
  rewrite ?ctx_err_set_cur, ?ctx_err_set_last_size, ?ctx_err_set_ign, ?ctx_err_set_verbose,
          ?ctx_err_set_base, ?ctx_err_set_last_id, ?ctx_err_set_next_tag in *;
  cbn [polls set_cur set_last_size set_ign set_verbose set_base set_last_id set_next_tag] in *;
  repeat cstep;
  cfin.

Section CancBody.
Variable L : ExecLib.
Variable E : env.
Variable self : req -> st -> outcome (ans * st).
Hypothesis Hself : cancels E self.

Lemma c_callItem n v found u s x s' : callItem self n v found u s = Ret (x, s') -> cpost_i E s x s'.
Proof using Hself. intros H. apply callItem_Ret in H. apply Hself in H. exact H. Qed.
Lemma c_callAny n vs found lv f l ig un s x s' :
  callAny self n vs found lv f l ig un s = Ret (x, s') -> cpost_i E s x s'.
Proof using Hself. intros H. apply callAny_Ret in H. apply Hself in H. exact H. Qed.
Lemma c_callBool n v c s x s' : callBool self n v c s = Ret (x, s') -> cpost_b E s x s'.
Proof using Hself. intros H. apply callBool_Ret in H. apply Hself in H. exact H. Qed.

Ltac k0 H := first [ apply c_callItem in H | apply c_callAny in H | apply c_callBool in H ].

Lemma c_returnVerboseError e found s x s' : returnVerboseError e found s = Ret (x, s') -> cpost_i E s x s'.
Proof. unfold returnVerboseError; intros H; steps H; ctac. Qed.
Lemma c_returnError e found s x s' : returnError e found s = Ret (x, s') -> cpost_i E s x s'.
Proof. unfold returnError; intros H; steps H; ctac. Qed.

Lemma c_executeItem n v found s x s' : executeItem E self n v found s = Ret (x, s') -> cpost_i E s x s'.
Proof using Hself. unfold executeItem; apply c_callItem. Qed.

Ltac k1 H := first [ k0 H | apply c_returnVerboseError in H | apply c_returnError in H | apply c_executeItem in H ].
Ltac calls1 := repeat match goal with H : _ = Ret _ |- _ => k1 H end.

Lemma c_executeNextItem next v found s x s' : executeNextItem E self next v found s = Ret (x, s') -> cpost_i E s x s'.
Proof using Hself. unfold executeNextItem; intros H; steps H; calls1; ctac. Qed.

Lemma c_executeItemOptUnwrapResult n v u found s x s' :
  executeItemOptUnwrapResult E self n v u found s = Ret (x, s') -> cpost_i E s x s'.
Proof using Hself. unfold executeItemOptUnwrapResult; intros H; steps H; calls1; ctac. Qed.

Lemma c_executeItemOptUnwrapResultSilent n v u found s x s' :
  executeItemOptUnwrapResultSilent E self n v u found s = Ret (x, s') -> cpost_i E s x s'.
Proof using Hself.
  unfold executeItemOptUnwrapResultSilent; intros H; steps H.
  apply c_executeItemOptUnwrapResult in H0. ctac.
Qed.

Ltac k2 H := first [ k1 H | apply c_executeNextItem in H | apply c_executeItemOptUnwrapResult in H
                   | apply c_executeItemOptUnwrapResultSilent in H ].
Ltac calls2 := repeat match goal with H : _ = Ret _ |- _ => k2 H end.

Lemma c_executePredicate l r v u cb s x s' :
  executePredicate E self l r v u cb s = Ret (x, s') -> cpost_b E s x s'.
Proof using Hself. unfold executePredicate; intros H; steps H; calls2; ctac. Qed.

Ltac k3 H := first [ k2 H | apply c_executePredicate in H ].
Ltac calls3 := repeat match goal with H : _ = Ret _ |- _ => k3 H end.

Lemma c_executeBinaryBoolItem op l r v s x s' :
  executeBinaryBoolItem L E self op l r v s = Ret (x, s') -> cpost_b E s x s'.
Proof using Hself. unfold executeBinaryBoolItem; intros H; steps H; calls3; ctac. Qed.

Lemma c_executeUnaryBoolItem op a v s x s' :
  executeUnaryBoolItem E self op a v s = Ret (x, s') -> cpost_b E s x s'.
Proof using Hself. unfold executeUnaryBoolItem; intros H; steps H; calls3; ctac. Qed.


Ltac k4 H := first [ k3 H | apply c_executeBinaryBoolItem in H | apply c_executeUnaryBoolItem in H ].
Ltac calls4 := repeat match goal with H : _ = Ret _ |- _ => k4 H end.

Lemma c_executeBoolItem n v c s x s' :
  executeBoolItem L E self n v c s = Ret (x, s') -> cpost_b E s x s'.
Proof using Hself. unfold executeBoolItem; intros H; steps H; calls4; ctac. Qed.

Lemma c_executeNestedBoolItem n v s x s' :
  executeNestedBoolItem self n v s = Ret (x, s') -> cpost_b E s x s'.
Proof using Hself. unfold executeNestedBoolItem; intros H; steps H; calls4; ctac. Qed.

Ltac k5 H := first [ k4 H | apply c_executeBoolItem in H | apply c_executeNestedBoolItem in H ].
Ltac calls5 := repeat match goal with H : _ = Ret _ |- _ => k5 H end.

Lemma c_anyLoop n level first last ignFlag un : forall vs res dirty s r dirty' s',
  anyLoop L self n vs level first last ignFlag un res dirty s = Ret (r, dirty', s') ->
  cpost_i E s r s'.
Proof using Hself.
  induction vs as [|v rest IH]; intros res dirty s r dirty' s' H; cbn [anyLoop] in H; steps H.
  all: try match goal with H : anyLoop _ _ _ _ _ _ _ _ _ _ _ _ = Ret _ |- _ => apply IH in H end.
  all: calls5; split_ifs; ctac.
Qed.

Lemma c_executeAnyItem n vs found level first last ignFlag un s x s' :
  executeAnyItem L self n vs found level first last ignFlag un s = Ret (x, s') -> cpost_i E s x s'.
Proof using Hself.
  unfold executeAnyItem; intros H; steps H.
  all: try match goal with H : anyLoop _ _ _ _ _ _ _ _ _ _ _ _ = Ret _ |- _ => apply c_anyLoop in H end.
  all: split_ifs; ctac.
Qed.

Lemma c_executeItemUnwrapTargetArray n v found s x s' :
  executeItemUnwrapTargetArray self n v found s = Ret (x, s') -> cpost_i E s x s'.
Proof using Hself. unfold executeItemUnwrapTargetArray; intros H; steps H; calls5; ctac. Qed.

Ltac k6 H := first [ k5 H | apply c_executeAnyItem in H | apply c_executeItemUnwrapTargetArray in H ].
Ltac calls6 := repeat match goal with H : _ = Ret _ |- _ => k6 H end.

Lemma c_execLiteral next v found s x s' : execLiteral E self next v found s = Ret (x, s') -> cpost_i E s x s'.
Proof using Hself. unfold execLiteral; intros H; steps H; calls6; ctac. Qed.

Lemma c_execVariable name next found s x s' : execVariable E self name next found s = Ret (x, s') -> cpost_i E s x s'.
Proof using Hself. unfold execVariable; intros H; steps H; calls6; ctac. Qed.

Lemma c_execKeyNode key n next v found u s x s' :
  execKeyNode E self key n next v found u s = Ret (x, s') -> cpost_i E s x s'.
Proof using Hself. unfold execKeyNode; intros H; steps H; calls6; ctac. Qed.

Lemma c_execAnyKey n next v found u s x s' :
  execAnyKey L E self n next v found u s = Ret (x, s') -> cpost_i E s x s'.
Proof using Hself. unfold execAnyKey; intros H; steps H; calls6; ctac. Qed.

Lemma c_execAnyArray next v found s x s' :
  execAnyArray E self next v found s = Ret (x, s') -> cpost_i E s x s'.
Proof using Hself. unfold execAnyArray; intros H; steps H; calls6; ctac. Qed.

Lemma c_execLastConst next found s x s' :
  execLastConst E self next found s = Ret (x, s') -> cpost_i E s x s'.
Proof using Hself. unfold execLastConst; intros H; steps H; calls6; ctac. Qed.

Ltac k7 H := first [ k6 H | apply c_execLiteral in H | apply c_execVariable in H | apply c_execKeyNode in H
                   | apply c_execAnyKey in H | apply c_execAnyArray in H | apply c_execLastConst in H ].
Ltac calls7 := repeat match goal with H : _ = Ret _ |- _ => k7 H end.

Lemma c_execConstNode k n next v found u s x s' :
  execConstNode L E self k n next v found u s = Ret (x, s') -> cpost_i E s x s'.
Proof using Hself. unfold execConstNode; intros H; steps H; calls7; ctac. Qed.

Lemma c_execAnyNode first last next v found s x s' :
  execAnyNode L E self first last next v found s = Ret (x, s') -> cpost_i E s x s'.
Proof using Hself. unfold execAnyNode; intros H; steps H; calls7; split_ifs; ctac. Qed.

Lemma c_getArrayIndex n v s x s' : getArrayIndex L E self n v s = Ret (x, s') -> cpost_e E s x s'.
Proof using Hself. unfold getArrayIndex; intros H; steps H; calls7; ctac. Qed.

Ltac k8 H := first [ k7 H | apply c_execConstNode in H | apply c_execAnyNode in H | apply c_getArrayIndex in H ].
Ltac calls8 := repeat match goal with H : _ = Ret _ |- _ => k8 H end.

Lemma c_execSubscript sub v size s x s' : execSubscript L E self sub v size s = Ret (x, s') -> cpost_e E s x s'.
Proof using Hself. unfold execSubscript; intros H; steps H; calls8; ctac. Qed.

Lemma noexit_nofail r g : exit_now r g = false -> st_failed (r_st r) = false.
Proof. unfold exit_now; intros H; apply orb_false_iff in H; tauto. Qed.

Lemma c_indexLoop next : forall els res s r stop s',
  st_failed (r_st res) = false ->
  indexLoop E self next els res s = Ret (r, stop, s') ->
  cpost_i E s r s' /\ (stop = false -> st_failed (r_st r) = false).
Proof using Hself.
  induction els as [|v rest IH]; intros res s r stop s' Hn H; cbn [indexLoop] in H; steps H.
  all: try match goal with H : indexLoop _ _ _ _ _ _ = Ret _ |- _ =>
         apply IH in H; [destruct H as [H Hst] | first [assumption | eapply noexit_nofail; eassumption] ] end.
  all: calls8.
  all: split; [ctac | first [assumption | discriminate | auto] ].
Qed.

Ltac k9 H := first [ k8 H | apply c_execSubscript in H ].
Ltac calls9 := repeat match goal with H : _ = Ret _ |- _ => k9 H end.

Lemma c_subsLoop next v arr size : forall subs res s r s',
  st_failed (r_st res) = false ->
  subsLoop L E self subs next v arr size res s = Ret (r, s') -> cpost_i E s r s'.
Proof using Hself.
  induction subs as [|sub rest IH]; intros res s r s' Hn H; cbn [subsLoop] in H; unfold returnError in H; steps H.
  all: try match goal with H : indexLoop _ _ _ _ _ _ = Ret _ |- _ =>
         apply c_indexLoop in H; [destruct H as [H Hst] | assumption ] end.
  all: try match goal with H : subsLoop _ _ _ _ _ _ _ _ _ _ = Ret _ |- _ => apply IH in H; [|auto] end.
  all: calls9; ctac.
Qed.

Lemma c_execArrayIndex subs next v found s x s' :
  execArrayIndex L E self subs next v found s = Ret (x, s') -> cpost_i E s x s'.
Proof using Hself.
  unfold execArrayIndex; intros H; steps H.
  all: try match goal with H : subsLoop _ _ _ _ _ _ _ _ _ _ = Ret _ |- _ => apply c_subsLoop in H; [|reflexivity] end.
  all: calls9; ctac.
Qed.

Lemma c_unaryLoop minus next : forall seq found res s r s',
  unaryLoop L E self minus next seq found res s = Ret (r, s') -> cpost_i E s r s'.
Proof using Hself.
  induction seq as [|v rest IH]; intros found res s r s' H; cbn [unaryLoop] in H; steps H.
  all: try match goal with H : unaryLoop _ _ _ _ _ _ _ _ _ = Ret _ |- _ => apply IH in H end.
  all: calls9; ctac.
Qed.

Ltac k10 H := first [ k9 H | apply c_execArrayIndex in H | apply c_unaryLoop in H ].
Ltac calls10 := repeat match goal with H : _ = Ret _ |- _ => k10 H end.

Lemma c_execUnaryMathExpr minus a next v found s x s' :
  execUnaryMathExpr L E self minus a next v found s = Ret (x, s') -> cpost_i E s x s'.
Proof using Hself. unfold execUnaryMathExpr; intros H; steps H; calls10; ctac. Qed.

Lemma c_execBinaryMathExpr op l r next v found s x s' :
  execBinaryMathExpr L E self op l r next v found s = Ret (x, s') -> cpost_i E s x s'.
Proof using Hself. unfold execBinaryMathExpr; intros H; steps H; calls10; ctac. Qed.

Lemma c_execLeaf unwraps lf n next v found u s x s' :
  execLeaf E self unwraps lf n next v found u s = Ret (x, s') -> cpost_i E s x s'.
Proof using Hself. unfold execLeaf; intros H; steps H; calls10; ctac. Qed.

Lemma c_kvLoop members id next : forall keys res s r s',
  kvLoop E self keys members id next res s = Ret (r, s') -> cpost_i E s r s'.
Proof using Hself.
  induction keys as [|k rest IH]; intros res s r s' H; cbn [kvLoop] in H; steps H.
  all: try match goal with H : kvLoop _ _ _ _ _ _ _ _ = Ret _ |- _ => apply IH in H end.
  all: calls10; ctac.
Qed.

Lemma c_executeKeyValueMethod n next v found u s x s' :
  executeKeyValueMethod E self n next v found u s = Ret (x, s') -> cpost_i E s x s'.
Proof using Hself.
  unfold executeKeyValueMethod; intros H; steps H.
  all: try match goal with H : kvLoop _ _ _ _ _ _ _ _ = Ret _ |- _ => apply c_kvLoop in H end.
  all: calls10; ctac.
Qed.

Ltac k11 H := first [ k10 H | apply c_execUnaryMathExpr in H | apply c_execBinaryMathExpr in H
                    | apply c_execLeaf in H | apply c_executeKeyValueMethod in H ].
Ltac calls11 := repeat match goal with H : _ = Ret _ |- _ => k11 H end.

Lemma c_execMethodNode m n next v found u s x s' :
  execMethodNode L E self m n next v found u s = Ret (x, s') -> cpost_i E s x s'.
Proof using Hself. unfold execMethodNode; intros H; steps H; calls11; ctac. Qed.

Lemma c_execBoolNode n next v found s x s' :
  execBoolNode E self n next v found s = Ret (x, s') -> cpost_i E s x s'.
Proof using Hself.
  unfold execBoolNode; intros H; unfold appendBoolResult in H; steps H; calls11; ctac.
Qed.

Ltac k12 H := first [ k11 H | apply c_execMethodNode in H | apply c_execBoolNode in H ].
Ltac calls12 := repeat match goal with H : _ = Ret _ |- _ => k12 H end.

Lemma c_execBinaryNode op l r n next v found s x s' :
  execBinaryNode L E self op l r n next v found s = Ret (x, s') -> cpost_i E s x s'.
Proof using Hself. unfold execBinaryNode; intros H; steps H; calls12; ctac. Qed.

Lemma c_execUnaryNode op a n next v found u s x s' :
  execUnaryNode L E self op a n next v found u s = Ret (x, s') -> cpost_i E s x s'.
Proof using Hself. unfold execUnaryNode; intros H; steps H; calls12; ctac. Qed.

Ltac k13 H := first [ k12 H | apply c_execBinaryNode in H | apply c_execUnaryNode in H ].
Ltac calls13 := repeat match goal with H : _ = Ret _ |- _ => k13 H end.

Lemma c_executeItemOptUnwrapTarget n v found u s x s' :
  executeItemOptUnwrapTarget L E self n v found u s = Ret (x, s') -> cpost_i E s x s'.
Proof using Hself.
  unfold executeItemOptUnwrapTarget; intros H; steps H.
  1: unfold cpost_i, canc_i; intros _; right; split; reflexivity.
  all: apply cpost_tick; [assumption|]; calls13; try assumption; ctac.
Qed.

Lemma c_body : cancels E (body L E self).
Proof using Hself.
  intros r s a s' H. destruct r; cbn [body] in H; steps H; cbn [cpost].
  - apply c_executeItemOptUnwrapTarget in H0; exact H0.
  - apply c_executeAnyItem in H0; exact H0.
  - apply c_executeBoolItem in H0; exact H0.
Qed.

End CancBody.

Theorem cancels_run : forall L E fuel, cancels E (run L E fuel).
Proof.
  intros L E fuel r s a s'. revert fuel r s a s'. apply (run_inv L E (cpost E)).
  intros self Hself. apply (c_body L E self). exact Hself.
Qed.
Print Assumptions cancels_run.
