(* CompareReal.v — the one C12 fact that is about real numbers: on valid
   (canonical) finite float64 values the order [fcmp] = SFcompare used by the
   comparison operators is the order of the real values.  This is Flocq's
   [Bcompare_correct], transported to [spec_float].

   Uses Flocq's real-number semantics, hence the standard library's axioms for
   the reals (see Print Assumptions at the end).  Nothing else in the
   development depends on this file. *)
From Coq Require Import ZArith Reals Floats.SpecFloat.
From Flocq Require Import Core.Raux Core.Defs Core.Zaux IEEE754.BinarySingleNaN.
From SJ Require Import lib.Base model.Json model.ExecLib.

Theorem fcmp_by_value (a b : f64) :
  valid_binary 53 1024 a = true -> valid_binary 53 1024 b = true ->
  is_finite_SF a = true -> is_finite_SF b = true ->
  fcmp a b = Some (Rcompare (SF2R radix2 a) (SF2R radix2 b)).
Proof.
  intros Va Vb Fa Fb.
  pose proof (Bcompare_correct 53 1024 (SF2B a Va) (SF2B b Vb)) as H.
  rewrite !is_finite_SF2B in H. specialize (H Fa Fb).
  unfold Bcompare in H. rewrite !B2SF_SF2B, !B2R_SF2B in H. exact H.
Qed.

Print Assumptions fcmp_by_value.
