(* TotalWf.v — bridge: a path in the parser image [Parser.wf_path] that uses no
   datetime method satisfies [wf_exec_path], the hypothesis of the
   classification theorems of Total.v.  Stdlib only, no axioms. *)
From SJ Require Import lib.Base lib.GoLib model.Json model.Ast model.Exec model.Parser proofs.TotalBase.

Definition not_sdt (s : step) : bool := match s with SDt _ _ _ => false | _ => true end.
(* no .datetime() / .date() / .time() / .time_tz() / .timestamp() / .timestamp_tz() anywhere *)
Definition no_sdt_chain (c : chain) : bool := ch_all not_sdt (fun _ => true) c.

Lemma pred_step_same s : Parser.is_pred_step s = TotalBase.is_pred_step s.
Proof. destruct s; try reflexivity; destruct op; reflexivity. Qed.

Lemma pred_chain_same c : Parser.is_pred_chain c = TotalBase.is_pred_chain c.
Proof. destruct c as [|x [|y r]]; try reflexivity; apply pred_step_same. Qed.

Lemma shape_nonempty c : chain_shape c = true -> nonempty c = true.
Proof. destruct c; [discriminate|reflexivity]. Qed.

Lemma ca_eq P Q : forall c,
  (fix ca (c : list step) {struct c} : bool :=
     match c with [] => true | x :: r => st_all P Q x && ca r end) c = ch_all P Q c.
Proof. induction c as [|x r IH]; [reflexivity|]. cbn [ch_all]. rewrite <- IH. reflexivity. Qed.

Definition sub_all (P : step -> bool) (Q : list step -> bool) (ab : list step * option (list step)) : bool :=
  Q (fst ab) && ch_all P Q (fst ab) &&
  match snd ab with Some c => Q c && ch_all P Q c | None => true end.

Lemma st_all_bin P Q op l r :
  st_all P Q (SBin op l r) = P (SBin op l r) && (Q l && ch_all P Q l && (Q r && ch_all P Q r)).
Proof. cbn [st_all]. rewrite !ca_eq. reflexivity. Qed.
Lemma st_all_un P Q op a : st_all P Q (SUn op a) = P (SUn op a) && (Q a && ch_all P Q a).
Proof. cbn [st_all]. rewrite !ca_eq. reflexivity. Qed.
Lemma st_all_regex P Q a p f : st_all P Q (SRegex a p f) = P (SRegex a p f) && (Q a && ch_all P Q a).
Proof. cbn [st_all]. rewrite !ca_eq. reflexivity. Qed.
Lemma st_all_index P Q subs :
  st_all P Q (SIndex subs) = P (SIndex subs) && forallb (sub_all P Q) subs.
Proof.
  cbn [st_all]. f_equal. induction subs as [|[a b] r IH]; [reflexivity|].
  cbn [forallb]. rewrite <- IH. unfold sub_all. cbn [fst snd]. rewrite !ca_eq.
  destruct b; rewrite ?ca_eq; reflexivity.
Qed.

Ltac bools :=
  repeat match goal with
         | H : _ && _ = true |- _ => apply andb_true_iff in H; destruct H
         end.

Section Bridge.
Variable G : GoLib.

Definition Pst (s : step) : Prop :=
  st_all (step_ok G) chain_shape s = true -> st_all not_sdt (fun _ => true) s = true -> wf_step s = true.
Definition Pch (c : chain) : Prop :=
  ch_all (step_ok G) chain_shape c = true -> ch_all not_sdt (fun _ => true) c = true -> wf_chainb c = true.

Lemma index_wf subs :
  Forall (fun ab => Pch (fst ab) /\ match snd ab with Some c => Pch c | None => True end) subs ->
  forallb (sub_all (step_ok G) chain_shape) subs = true ->
  forallb (sub_all not_sdt (fun _ => true)) subs = true ->
  forallb wf_sub subs = true.
Proof.
  induction 1 as [|[a b] r [Ha Hb] Hr IH]; intros H1 H2; [reflexivity|].
  cbn [forallb] in *. unfold sub_all in H1, H2. cbn [fst snd] in *. bools.
  rewrite IH by assumption. rewrite andb_true_r.
  unfold wf_sub. cbn [fst snd].
  rewrite (shape_nonempty a) by assumption. rewrite Ha by assumption. cbn [andb].
  destruct b as [c|]; [|reflexivity]. bools.
  rewrite (shape_nonempty c) by assumption. rewrite Hb by assumption. reflexivity.
Qed.

Lemma bridge_chain : forall c, Pch c.
Proof.
  apply (chain_ind' Pst Pch); unfold Pst, Pch.
  - reflexivity.
  - intros s c Hs Hc H1 H2. cbn [ch_all wf_chainb] in *. bools. rewrite Hs, Hc by assumption. reflexivity.
  - reflexivity.
  - reflexivity.
  - reflexivity.
  - reflexivity.
  - reflexivity.
  - reflexivity.
  - intros op l r Hl Hr H1 H2. rewrite st_all_bin in H1, H2. bools.
    rewrite wf_step_bin. rewrite Hl, Hr by assumption. rewrite andb_true_r.
    match goal with H : step_ok G _ = true |- _ => cbn [step_ok] in H end.
    destruct op; bools; rewrite ?pred_chain_same in *;
      repeat (apply andb_true_iff; split);
      first [assumption|apply shape_nonempty; assumption].
  - intros op a Ha H1 H2. rewrite st_all_un in H1, H2. bools.
    rewrite wf_step_un. rewrite Ha by assumption. rewrite andb_true_r.
    match goal with H : step_ok G _ = true |- _ => cbn [step_ok] in H end.
    destruct op; bools; rewrite ?pred_chain_same in *;
      repeat (apply andb_true_iff; split);
      first [assumption|apply shape_nonempty; assumption].
  - intros a p f Ha H1 H2. rewrite st_all_regex in H1, H2. bools.
    rewrite wf_step_regex. rewrite Ha by assumption. rewrite shape_nonempty by assumption. reflexivity.
  - reflexivity.
  - reflexivity.
  - intros op t p H1 H2. cbn [st_all not_sdt] in H2. discriminate H2.
  - reflexivity.
  - intros subs HF H1 H2. rewrite wf_step_index.
    rewrite st_all_index in H1, H2. bools. eapply index_wf; eauto.
Qed.

Theorem wf_path_exec p :
  wf_path G p -> no_sdt_chain (p_root p) = true -> wf_exec_path p.
Proof.
  intros (H1 & _ & _) H2. unfold wf_chain in H1. apply andb_true_iff in H1 as [Hs Ha].
  split; [apply shape_nonempty; exact Hs|]. apply bridge_chain; assumption.
Qed.

End Bridge.

Print Assumptions wf_path_exec.
