(* CancelStop.v — first half of CancelMore.v (C20).

   Part 1, [polls_stop]: once a poll has seen the context done, no later poll
   happens.  (The statement as first proposed is false for calls entered after
   the cancellation point — see [polls_stop_refuted]; the true statements are
   [polls_stop_partial] / [polls_stop_entry_done] / [polls_bound].)

   Part 2, prefix determinism: see the second half of this file.
   Stdlib only, no axioms. *)
From SJ Require Import lib.Base model.Json model.Ast model.ExecLib model.Leaf model.Exec
     proofs.RunBasics proofs.InvTac proofs.Invariants.

(* ====================================================================== *)
(* Part 1: polls stop                                                      *)
(* ====================================================================== *)

(* k is the cancellation point.  A call (i) only adds polls, (ii) ends with at
   most max (polls s + 1) (k + 1) polls, (iii) if it ends past the cancellation
   point it either did not poll or returns the cancellation. *)
Definition ppost_i (k : nat) (s : st) (x : resp) (s' : st) : Prop :=
  (polls s <= polls s')%nat /\ (polls s' <= Nat.max (S (polls s)) (S k))%nat /\
  ((k < polls s')%nat -> polls s' = polls s \/ canc_i x).
Definition ppost_b (k : nat) (s : st) (p : presp) (s' : st) : Prop :=
  (polls s <= polls s')%nat /\ (polls s' <= Nat.max (S (polls s)) (S k))%nat /\
  ((k < polls s')%nat -> polls s' = polls s \/ canc_b p).
Definition ppost_e {A} (k : nat) (s : st) (x : A + err) (s' : st) : Prop :=
  (polls s <= polls s')%nat /\ (polls s' <= Nat.max (S (polls s)) (S k))%nat /\
  ((k < polls s')%nat -> polls s' = polls s \/ x = inr ECancel).

Definition ppost (k : nat) (r : req) (s : st) (a : ans) (s' : st) : Prop :=
  match a with AItem x => ppost_i k s x s' | ABool p => ppost_b k s p s' end.

Definition pstops (k : nat) (self : req -> st -> outcome (ans * st)) : Prop :=
  forall r s a s', self r s = Ret (a, s') -> ppost k r s a s'.

Lemma ctx_err_k E k s : e_cancel_at E = Some k -> ctx_err E s = (k <? polls s)%nat.
Proof. unfold ctx_err; intros ->; reflexivity. Qed.
Lemma done_now_k E k s : e_cancel_at E = Some k -> done_now E s = (k <=? polls s)%nat.
Proof. unfold done_now; intros ->; reflexivity. Qed.

Lemma ppost_tick E k s x s' :
  e_cancel_at E = Some k -> done_now E s = false -> ppost_i k (tick s) x s' -> ppost_i k s x s'.
Proof.
  unfold ppost_i; intros Hk DN (P1 & P2 & P3). rewrite (done_now_k _ _ _ Hk) in DN.
  apply Nat.leb_gt in DN. cbn [polls tick] in *. repeat split; try lia.
  intros Hlt. destruct (P3 Hlt) as [P|P]; [lia|right; exact P].
Qed.

(* one call: case split on whether it ended past the cancellation point *)
Ltac psplit :=
  match goal with
  | Hi : (?k < polls ?si)%nat -> _ |- _ =>
      let Hge := fresh "Hge" in let Hlt := fresh "Hlt" in
      destruct (le_lt_dec (polls si) k) as [Hge|Hlt];
      [ clear Hi; try rewrite (proj2 (Nat.ltb_ge k (polls si)) Hge) in *
      | specialize (Hi Hlt); try rewrite (proj2 (Nat.ltb_lt k (polls si)) Hlt) in *;
        destruct Hi as [Hi|Hi];
        [ | first [ discriminate Hi
                  | match type of Hi with
                    | _ /\ _ =>
                        let Hst := fresh "Hst" in let Her := fresh "Her" in
                        destruct Hi as [Hst Her]; try rewrite Hst in *; try rewrite Her in *
                    | inr _ = inr _ => injection Hi as Hi; try subst
                    end ] ] ]
  end.

Ltac pfin :=
  bool_norm;
  first [ solve [exfalso; first [congruence | lia]]
        | repeat split;
          [ lia | lia
          | let Hfin := fresh "Hfin" in intros Hfin;
            first [ exfalso; lia | left; lia | right; first [ congruence | split; congruence ] ] ] ].

Section StopBody.
Variable L : ExecLib.
Variable E : env.
Variable self : req -> st -> outcome (ans * st).
Variable k : nat.
Hypothesis Hk : e_cancel_at E = Some k.
Hypothesis Hself : pstops k self.

Ltac ptac :=
  repeat match goal with Hi : ?a = ?a -> _ |- _ => specialize (Hi eq_refl) end;
  unfold ppost_i, ppost_b, ppost_e, canc_i, canc_b, exit_now in *;
  rewrite ?(ctx_err_k _ _ _ Hk) in *;
  cbn [r_st r_err r_found p_out p_err
       polls set_cur set_last_size set_ign set_verbose set_base set_last_id set_next_tag tick] in *;
  repeat match goal with H : _ /\ _ |- _ => destruct H end;
  repeat psplit;
  pfin.


Lemma p_callItem n v found u s x s' : callItem self n v found u s = Ret (x, s') -> ppost_i k s x s'.
Proof using Hself Hk. intros H. apply callItem_Ret in H. apply Hself in H. exact H. Qed.
Lemma p_callAny n vs found lv f l ig un s x s' :
  callAny self n vs found lv f l ig un s = Ret (x, s') -> ppost_i k s x s'.
Proof using Hself Hk. intros H. apply callAny_Ret in H. apply Hself in H. exact H. Qed.
Lemma p_callBool n v c s x s' : callBool self n v c s = Ret (x, s') -> ppost_b k s x s'.
Proof using Hself Hk. intros H. apply callBool_Ret in H. apply Hself in H. exact H. Qed.

Ltac k0 H := first [ apply p_callItem in H | apply p_callAny in H | apply p_callBool in H ].

Lemma p_returnVerboseError e found s x s' : returnVerboseError e found s = Ret (x, s') -> ppost_i k s x s'.
Proof. unfold returnVerboseError; intros H; steps H; ptac. Qed.
Lemma p_returnError e found s x s' : returnError e found s = Ret (x, s') -> ppost_i k s x s'.
Proof. unfold returnError; intros H; steps H; ptac. Qed.

Lemma p_executeItem n v found s x s' : executeItem E self n v found s = Ret (x, s') -> ppost_i k s x s'.
Proof using Hself Hk. unfold executeItem; apply p_callItem. Qed.

Ltac k1 H := first [ k0 H | apply p_returnVerboseError in H | apply p_returnError in H | apply p_executeItem in H ].
Ltac calls1 := repeat match goal with H : _ = Ret _ |- _ => k1 H end.

Lemma p_executeNextItem next v found s x s' : executeNextItem E self next v found s = Ret (x, s') -> ppost_i k s x s'.
Proof using Hself Hk. unfold executeNextItem; intros H; steps H; calls1; ptac. Qed.

Lemma p_executeItemOptUnwrapResult n v u found s x s' :
  executeItemOptUnwrapResult E self n v u found s = Ret (x, s') -> ppost_i k s x s'.
Proof using Hself Hk. unfold executeItemOptUnwrapResult; intros H; steps H; calls1; ptac. Qed.

Lemma p_executeItemOptUnwrapResultSilent n v u found s x s' :
  executeItemOptUnwrapResultSilent E self n v u found s = Ret (x, s') -> ppost_i k s x s'.
Proof using Hself Hk.
  unfold executeItemOptUnwrapResultSilent; intros H; steps H.
  apply p_executeItemOptUnwrapResult in H0. ptac.
Qed.

Ltac k2 H := first [ k1 H | apply p_executeNextItem in H | apply p_executeItemOptUnwrapResult in H
                   | apply p_executeItemOptUnwrapResultSilent in H ].
Ltac calls2 := repeat match goal with H : _ = Ret _ |- _ => k2 H end.

Lemma p_executePredicate l r v u cb s x s' :
  executePredicate E self l r v u cb s = Ret (x, s') -> ppost_b k s x s'.
Proof using Hself Hk. unfold executePredicate; intros H; steps H; calls2; ptac. Qed.

Ltac k3 H := first [ k2 H | apply p_executePredicate in H ].
Ltac calls3 := repeat match goal with H : _ = Ret _ |- _ => k3 H end.

Lemma p_executeBinaryBoolItem op l r v s x s' :
  executeBinaryBoolItem L E self op l r v s = Ret (x, s') -> ppost_b k s x s'.
Proof using Hself Hk. unfold executeBinaryBoolItem; intros H; steps H; calls3; ptac. Qed.

Lemma p_executeUnaryBoolItem op a v s x s' :
  executeUnaryBoolItem E self op a v s = Ret (x, s') -> ppost_b k s x s'.
Proof using Hself Hk. unfold executeUnaryBoolItem; intros H; steps H; calls3; ptac. Qed.


Ltac k4 H := first [ k3 H | apply p_executeBinaryBoolItem in H | apply p_executeUnaryBoolItem in H ].
Ltac calls4 := repeat match goal with H : _ = Ret _ |- _ => k4 H end.

Lemma p_executeBoolItem n v c s x s' :
  executeBoolItem L E self n v c s = Ret (x, s') -> ppost_b k s x s'.
Proof using Hself Hk. unfold executeBoolItem; intros H; steps H; calls4; ptac. Qed.

Lemma p_executeNestedBoolItem n v s x s' :
  executeNestedBoolItem self n v s = Ret (x, s') -> ppost_b k s x s'.
Proof using Hself Hk. unfold executeNestedBoolItem; intros H; steps H; calls4; ptac. Qed.

Ltac k5 H := first [ k4 H | apply p_executeBoolItem in H | apply p_executeNestedBoolItem in H ].
Ltac calls5 := repeat match goal with H : _ = Ret _ |- _ => k5 H end.

Lemma p_anyLoop n level first last ignFlag un : forall vs res dirty s r dirty' s',
  anyLoop L self n vs level first last ignFlag un res dirty s = Ret (r, dirty', s') ->
  ppost_i k s r s'.
Proof using Hself Hk.
  induction vs as [|v rest IH]; intros res dirty s r dirty' s' H; cbn [anyLoop] in H; steps H.
  all: try match goal with H : anyLoop _ _ _ _ _ _ _ _ _ _ _ _ = Ret _ |- _ => apply IH in H end.
  all: calls5; split_ifs; ptac.
Qed.

Lemma p_executeAnyItem n vs found level first last ignFlag un s x s' :
  executeAnyItem L self n vs found level first last ignFlag un s = Ret (x, s') -> ppost_i k s x s'.
Proof using Hself Hk.
  unfold executeAnyItem; intros H; steps H.
  all: try match goal with H : anyLoop _ _ _ _ _ _ _ _ _ _ _ _ = Ret _ |- _ => apply p_anyLoop in H end.
  all: split_ifs; ptac.
Qed.

Lemma p_executeItemUnwrapTargetArray n v found s x s' :
  executeItemUnwrapTargetArray self n v found s = Ret (x, s') -> ppost_i k s x s'.
Proof using Hself Hk. unfold executeItemUnwrapTargetArray; intros H; steps H; calls5; ptac. Qed.

Ltac k6 H := first [ k5 H | apply p_executeAnyItem in H | apply p_executeItemUnwrapTargetArray in H ].
Ltac calls6 := repeat match goal with H : _ = Ret _ |- _ => k6 H end.

Lemma p_execLiteral next v found s x s' : execLiteral E self next v found s = Ret (x, s') -> ppost_i k s x s'.
Proof using Hself Hk. unfold execLiteral; intros H; steps H; calls6; ptac. Qed.

Lemma p_execVariable name next found s x s' : execVariable E self name next found s = Ret (x, s') -> ppost_i k s x s'.
Proof using Hself Hk. unfold execVariable; intros H; steps H; calls6; ptac. Qed.

Lemma p_execKeyNode key n next v found u s x s' :
  execKeyNode E self key n next v found u s = Ret (x, s') -> ppost_i k s x s'.
Proof using Hself Hk. unfold execKeyNode; intros H; steps H; calls6; ptac. Qed.

Lemma p_execAnyKey n next v found u s x s' :
  execAnyKey L E self n next v found u s = Ret (x, s') -> ppost_i k s x s'.
Proof using Hself Hk. unfold execAnyKey; intros H; steps H; calls6; ptac. Qed.

Lemma p_execAnyArray next v found s x s' :
  execAnyArray E self next v found s = Ret (x, s') -> ppost_i k s x s'.
Proof using Hself Hk. unfold execAnyArray; intros H; steps H; calls6; ptac. Qed.

Lemma p_execLastConst next found s x s' :
  execLastConst E self next found s = Ret (x, s') -> ppost_i k s x s'.
Proof using Hself Hk. unfold execLastConst; intros H; steps H; calls6; ptac. Qed.

Ltac k7 H := first [ k6 H | apply p_execLiteral in H | apply p_execVariable in H | apply p_execKeyNode in H
                   | apply p_execAnyKey in H | apply p_execAnyArray in H | apply p_execLastConst in H ].
Ltac calls7 := repeat match goal with H : _ = Ret _ |- _ => k7 H end.

Lemma p_execConstNode ck n next v found u s x s' :
  execConstNode L E self ck n next v found u s = Ret (x, s') -> ppost_i k s x s'.
Proof using Hself Hk. unfold execConstNode; intros H; steps H; calls7; ptac. Qed.

Lemma p_execAnyNode first last next v found s x s' :
  execAnyNode L E self first last next v found s = Ret (x, s') -> ppost_i k s x s'.
Proof using Hself Hk. unfold execAnyNode; intros H; steps H; calls7; split_ifs; ptac. Qed.

Lemma p_getArrayIndex n v s x s' : getArrayIndex L E self n v s = Ret (x, s') -> ppost_e k s x s'.
Proof using Hself Hk. unfold getArrayIndex; intros H; steps H; calls7; ptac. Qed.

Ltac k8 H := first [ k7 H | apply p_execConstNode in H | apply p_execAnyNode in H | apply p_getArrayIndex in H ].
Ltac calls8 := repeat match goal with H : _ = Ret _ |- _ => k8 H end.

Lemma p_execSubscript sub v size s x s' : execSubscript L E self sub v size s = Ret (x, s') -> ppost_e k s x s'.
Proof using Hself Hk. unfold execSubscript; intros H; steps H; calls8; ptac. Qed.

Lemma noexit_nofail r g : exit_now r g = false -> st_failed (r_st r) = false.
Proof. unfold exit_now; intros H; apply orb_false_iff in H; tauto. Qed.

Lemma p_indexLoop next : forall els res s r stop s',
  st_failed (r_st res) = false ->
  indexLoop E self next els res s = Ret (r, stop, s') ->
  ppost_i k s r s' /\ (stop = false -> st_failed (r_st r) = false).
Proof using Hself Hk.
  induction els as [|v rest IH]; intros res s r stop s' Hn H; cbn [indexLoop] in H; steps H.
  all: try match goal with H : indexLoop _ _ _ _ _ _ = Ret _ |- _ =>
         apply IH in H; [destruct H as [H Hst] | first [assumption | eapply noexit_nofail; eassumption] ] end.
  all: calls8.
  all: split; [ptac | first [assumption | discriminate | auto] ].
Qed.

Ltac k9 H := first [ k8 H | apply p_execSubscript in H ].
Ltac calls9 := repeat match goal with H : _ = Ret _ |- _ => k9 H end.

Lemma p_subsLoop next v arr size : forall subs res s r s',
  st_failed (r_st res) = false ->
  subsLoop L E self subs next v arr size res s = Ret (r, s') -> ppost_i k s r s'.
Proof using Hself Hk.
  induction subs as [|sub rest IH]; intros res s r s' Hn H; cbn [subsLoop] in H; unfold returnError in H; steps H.
  all: try match goal with H : indexLoop _ _ _ _ _ _ = Ret _ |- _ =>
         apply p_indexLoop in H; [destruct H as [H Hst] | assumption ] end.
  all: try match goal with H : subsLoop _ _ _ _ _ _ _ _ _ _ = Ret _ |- _ => apply IH in H; [|auto] end.
  all: calls9; ptac.
Qed.

Lemma p_execArrayIndex subs next v found s x s' :
  execArrayIndex L E self subs next v found s = Ret (x, s') -> ppost_i k s x s'.
Proof using Hself Hk.
  unfold execArrayIndex; intros H; steps H.
  all: try match goal with H : subsLoop _ _ _ _ _ _ _ _ _ _ = Ret _ |- _ => apply p_subsLoop in H; [|reflexivity] end.
  all: calls9; ptac.
Qed.

Lemma p_unaryLoop minus next : forall seq found res s r s',
  unaryLoop L E self minus next seq found res s = Ret (r, s') -> ppost_i k s r s'.
Proof using Hself Hk.
  induction seq as [|v rest IH]; intros found res s r s' H; cbn [unaryLoop] in H; steps H.
  all: try match goal with H : unaryLoop _ _ _ _ _ _ _ _ _ = Ret _ |- _ => apply IH in H end.
  all: calls9; ptac.
Qed.

Ltac k10 H := first [ k9 H | apply p_execArrayIndex in H | apply p_unaryLoop in H ].
Ltac calls10 := repeat match goal with H : _ = Ret _ |- _ => k10 H end.

Lemma p_execUnaryMathExpr minus a next v found s x s' :
  execUnaryMathExpr L E self minus a next v found s = Ret (x, s') -> ppost_i k s x s'.
Proof using Hself Hk. unfold execUnaryMathExpr; intros H; steps H; calls10; ptac. Qed.

Lemma p_execBinaryMathExpr op l r next v found s x s' :
  execBinaryMathExpr L E self op l r next v found s = Ret (x, s') -> ppost_i k s x s'.
Proof using Hself Hk. unfold execBinaryMathExpr; intros H; steps H; calls10; ptac. Qed.

Lemma p_execLeaf unwraps lf n next v found u s x s' :
  execLeaf E self unwraps lf n next v found u s = Ret (x, s') -> ppost_i k s x s'.
Proof using Hself Hk. unfold execLeaf; intros H; steps H; calls10; ptac. Qed.

Lemma p_kvLoop members id next : forall keys res s r s',
  kvLoop E self keys members id next res s = Ret (r, s') -> ppost_i k s r s'.
Proof using Hself Hk.
  induction keys as [|key rest IH]; intros res s r s' H; cbn [kvLoop] in H; steps H.
  all: try match goal with H : kvLoop _ _ _ _ _ _ _ _ = Ret _ |- _ => apply IH in H end.
  all: calls10; ptac.
Qed.

Lemma p_executeKeyValueMethod n next v found u s x s' :
  executeKeyValueMethod E self n next v found u s = Ret (x, s') -> ppost_i k s x s'.
Proof using Hself Hk.
  unfold executeKeyValueMethod; intros H; steps H.
  all: try match goal with H : kvLoop _ _ _ _ _ _ _ _ = Ret _ |- _ => apply p_kvLoop in H end.
  all: calls10; ptac.
Qed.

Ltac k11 H := first [ k10 H | apply p_execUnaryMathExpr in H | apply p_execBinaryMathExpr in H
                    | apply p_execLeaf in H | apply p_executeKeyValueMethod in H ].
Ltac calls11 := repeat match goal with H : _ = Ret _ |- _ => k11 H end.

Lemma p_execMethodNode m n next v found u s x s' :
  execMethodNode L E self m n next v found u s = Ret (x, s') -> ppost_i k s x s'.
Proof using Hself Hk. unfold execMethodNode; intros H; steps H; calls11; ptac. Qed.

Lemma p_execBoolNode n next v found s x s' :
  execBoolNode E self n next v found s = Ret (x, s') -> ppost_i k s x s'.
Proof using Hself Hk.
  unfold execBoolNode; intros H; unfold appendBoolResult in H; steps H; calls11; ptac.
Qed.

Ltac k12 H := first [ k11 H | apply p_execMethodNode in H | apply p_execBoolNode in H ].
Ltac calls12 := repeat match goal with H : _ = Ret _ |- _ => k12 H end.

Lemma p_execBinaryNode op l r n next v found s x s' :
  execBinaryNode L E self op l r n next v found s = Ret (x, s') -> ppost_i k s x s'.
Proof using Hself Hk. unfold execBinaryNode; intros H; steps H; calls12; ptac. Qed.

Lemma p_execUnaryNode op a n next v found u s x s' :
  execUnaryNode L E self op a n next v found u s = Ret (x, s') -> ppost_i k s x s'.
Proof using Hself Hk. unfold execUnaryNode; intros H; steps H; calls12; ptac. Qed.

Ltac k13 H := first [ k12 H | apply p_execBinaryNode in H | apply p_execUnaryNode in H ].
Ltac calls13 := repeat match goal with H : _ = Ret _ |- _ => k13 H end.

Lemma p_executeItemOptUnwrapTarget n v found u s x s' :
  executeItemOptUnwrapTarget L E self n v found u s = Ret (x, s') -> ppost_i k s x s'.
Proof using Hself Hk.
  unfold executeItemOptUnwrapTarget; intros H; steps H.
  1: unfold ppost_i, canc_i; cbn [polls tick r_st r_err]; repeat split; try lia; intros _; right; split; reflexivity.
  all: apply (ppost_tick E); [assumption|assumption|]; calls13; try assumption; ptac.
Qed.

Lemma p_body : pstops k (body L E self).
Proof using Hself Hk.
  intros r s a s' H. destruct r; cbn [body] in H; steps H; cbn [ppost].
  - apply p_executeItemOptUnwrapTarget in H0; exact H0.
  - apply p_executeAnyItem in H0; exact H0.
  - apply p_executeBoolItem in H0; exact H0.
Qed.

End StopBody.

Theorem pstops_run : forall L E k fuel, e_cancel_at E = Some k -> pstops k (run L E fuel).
Proof.
  intros L E k fuel Hk r s a s'. revert fuel r s a s'. apply (run_inv L E (ppost k)).
  intros self Hself. apply (p_body L E self k Hk). exact Hself.
Qed.
Print Assumptions pstops_run.
