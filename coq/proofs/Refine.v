(* Refine.v — the executor model (model/Exec.v) refines the trace specification
   (spec/Sem.v): for every request the three mutually recursive entry points of
   the executor answer what the trace of the specification says, in both modes
   of [found] (collecting / early exit), for all paths, documents and option
   sets without cancellation.  Induction on fuel through [self]; one lemma per
   Go function, in the order of Exec.v.

   Stdlib only, no axioms. *)
From Coq Require Import Floats.SpecFloat.
From SJ Require Import lib.Base model.Json model.Ast model.ExecLib model.Leaf model.Exec
  spec.Sem spec.Proj proofs.RunBasics proofs.RefineDefs.

(* ------------------------------------------------------------------ *)
(* Frame                                                               *)
(* ------------------------------------------------------------------ *)
Definition frame (s s' : st) : Prop :=
  cur s' = cur s /\ last_size s' = last_size s /\ ign s' = ign s /\ verbose s' = verbose s /\
  base_addr s' = base_addr s /\ base_id s' = base_id s /\ last_id s <= last_id s' /\ (polls s <= polls s')%nat.

Definition frames (self : req -> st -> outcome (ans * st)) : Prop :=
  forall r s a s', self r s = Ret (a, s') -> frame s s'.

(* the part of the frame the refinement needs *)
Definition ctx (s s' : st) : Prop :=
  cur s' = cur s /\ last_size s' = last_size s /\ ign s' = ign s /\ verbose s' = verbose s.

Lemma frame_ctx s s' : frame s s' -> ctx s s'.
Proof. unfold frame, ctx. intuition. Qed.
Lemma ctx_refl s : ctx s s.
Proof. repeat split. Qed.
Lemma ctx_trans a b c : ctx a b -> ctx b c -> ctx a c.
Proof. unfold ctx. intuition congruence. Qed.

Ltac ctx_solve :=
  repeat match goal with H : ctx _ _ |- _ => unfold ctx in H; cbn [cur last_size ign verbose set_cur set_last_size set_ign set_verbose set_base tick] in H; decompose [and] H; clear H end;
  unfold ctx; cbn [cur last_size ign verbose set_cur set_last_size set_ign set_verbose set_base tick];
  repeat split; congruence.

(* ------------------------------------------------------------------ *)
(* Tactics                                                             *)
(* ------------------------------------------------------------------ *)
(* H : Ret (a, b) = Ret (r, s'): substitute the result variables only *)
Ltac ret_in H :=
  let m := fresh "mark" in
  pose proof I as m; revert m; injection H; clear H;
  repeat lazymatch goal with
    | |- True -> _ => fail
    | |- _ = _ -> _ =>
        let e := fresh "Heq" in intro e;
        try (match type of e with _ = ?x => is_var x; subst x end)
    end;
  intros _.
Ltac ret := match goal with H : Ret _ = Ret _ |- _ => ret_in H end.
Ltac uret := unfold Exec.ret in *; ret.

(* ------------------------------------------------------------------ *)
(* The lemma kit for R                                                 *)
(* ------------------------------------------------------------------ *)
Lemma R_notfound found vb : R found tnil vb (mkr SNotFound None found).
Proof. destruct found; cbn; [rewrite app_nil_r|]; repeat split; congruence. Qed.

Lemma R_ret found vb v : R found (tone v) vb (mkr SOK None (fappend found v)).
Proof. destruct found; cbn; repeat split; congruence. Qed.

Lemma R_early vb t x l : fst t = x :: l -> R None t vb (mkr SOK None None).
Proof. intros H. unfold R. rewrite H. cbn. auto. Qed.

Lemma R_fail_gen found vb e (oe : option err) :
  option_map eclass oe = vis vb e -> R found (tfail e) vb (mkr SFailed oe found).
Proof. intros H. destruct found; cbn; rewrite ?app_nil_r; auto. Qed.

Lemma R_hardfail found vb e e' :
  is_verbose e' = false -> eclass e = eclass e' -> R found (tfail e') vb (mkr SFailed (Some e) found).
Proof. intros V H. apply R_fail_gen. rewrite (vis_hard _ _ V). cbn. congruence. Qed.

Lemma returnVerboseError_R e e' found s r s' :
  returnVerboseError e found s = Ret (r, s') -> is_verbose e' = true ->
  eclass e = eclass e' -> R found (tfail e') (verbose s) r.
Proof.
  unfold returnVerboseError, vis. intros H V Hc.
  destruct (verbose s); uret; apply R_fail_gen; unfold vis; rewrite V; cbn; congruence.
Qed.

Lemma returnVerboseError_st e found s r s' : returnVerboseError e found s = Ret (r, s') -> s' = s.
Proof. unfold returnVerboseError. destruct (verbose s); intros; uret; reflexivity. Qed.

Lemma returnError_R e e' found s r s' :
  returnError e found s = Ret (r, s') -> eclass e = eclass e' -> R found (tfail e') (verbose s) r.
Proof.
  unfold returnError. intros H Hc. rewrite (is_verbose_class _ _ Hc) in H.
  destruct (verbose s) eqn:VB; cbn [orb] in H.
  - uret. apply R_fail_gen. rewrite vis_true. cbn. congruence.
  - destruct (is_verbose e') eqn:V; cbn [negb] in H; uret; apply R_fail_gen; unfold vis; rewrite V; cbn; congruence.
Qed.

Lemma returnError_st e found s r s' : returnError e found s = Ret (r, s') -> s' = s.
Proof. unfold returnError. destruct (verbose s || negb (is_verbose e)); intros; uret; reflexivity. Qed.

Lemma R_fnil found t vb r : R found t vb r -> fnil (r_found r) = fnil found.
Proof. destruct found; intros [F _]; rewrite F; reflexivity. Qed.

Lemma exit_now_fnil r f f' : fnil f = fnil f' -> exit_now r f = exit_now r f'.
Proof. unfold exit_now. intros ->. reflexivity. Qed.

Lemma R_exit found t1 t2 vb r1 :
  R found t1 vb r1 -> exit_now r1 found = true -> R found (tapp t1 t2) vb r1.
Proof.
  unfold exit_now, R, tapp. destruct t1 as [a1 f1], t2 as [a2 f2]; cbn [fst snd].
  destruct found as [acc|]; intros [F S0] X.
  - destruct f1 as [e|]; [cbn; auto|]. destruct S0 as [S0 _]. cbn [fnil] in X.
    rewrite andb_false_r, orb_false_r in X. destruct (r_st r1); try discriminate. congruence.
  - destruct a1 as [|x a1].
    + destruct f1 as [e|]; [cbn; auto|]. destruct S0 as [S0 _]. rewrite S0 in X. discriminate.
    + destruct f1; cbn; auto.
Qed.

Lemma R_cont found t1 t2 vb r1 r :
  R found t1 vb r1 -> exit_now r1 found = false -> R (r_found r1) t2 vb r -> R found (tapp t1 t2) vb r.
Proof.
  unfold exit_now, R, tapp. destruct t1 as [a1 f1], t2 as [a2 f2]; cbn [fst snd].
  destruct found as [acc|]; intros [F S0] X.
  - destruct f1 as [e|]; [destruct S0 as [S0 _]; rewrite S0 in X; discriminate|].
    rewrite F. cbn [fst snd]. intros [F2 S2]. rewrite app_assoc. auto.
  - rewrite F. destruct a1 as [|x a1].
    + destruct f1 as [e|]; [destruct S0 as [S0 _]; rewrite S0 in X; discriminate|]. cbn. auto.
    + destruct S0 as [S0 _]. rewrite S0 in X. discriminate.
Qed.

(* what is known about the carried result when a loop goes on *)
Lemma R_noexit found t vb r : R found t vb r -> exit_now r found = false ->
  r_err r = None /\ r_st r <> SFailed /\ (fnil found = true -> r_st r = SNotFound) /\ snd t = None /\
  (fnil found = true -> fst t = []).
Proof.
  unfold exit_now, R. destruct t as [a f]; cbn [fst snd]. destruct found as [acc|]; intros [F S0] X.
  - destruct f as [e|]; [destruct S0 as [S0 _]; rewrite S0 in X; discriminate|].
    destruct S0 as [S0 S1]. repeat split; auto; discriminate.
  - destruct a as [|x a].
    + destruct f as [e|]; [destruct S0 as [S0 _]; rewrite S0 in X; discriminate|].
      destruct S0 as [S0 S1]. repeat split; auto; congruence.
    + destruct S0 as [S0 _]. rewrite S0 in X. discriminate.
Qed.

Lemma R_same found vb r :
  r_found r = found -> r_err r = None -> r_st r <> SFailed -> (fnil found = true -> r_st r = SNotFound) ->
  R found tnil vb r.
Proof. intros F E0 S0 N. destruct found; cbn; rewrite ?app_nil_r; auto. Qed.

Lemma R_upgrade found t vb r :
  R found t vb r -> r_st r <> SFailed -> r_err r = None -> fnil found = false ->
  R found t vb (mkr SOK (r_err r) (r_found r)).
Proof.
  destruct found as [acc|]; [|discriminate]. unfold R. destruct t as [a [e|]]; cbn [fst snd];
    intros [F [S1 S2]] NS NE _.
  - congruence.
  - cbn. rewrite NE. split; [exact F|split; [discriminate|reflexivity]].
Qed.

(* R does not look at the response beyond its three fields *)
Lemma R_eta found t vb r : R found t vb (mkr (r_st r) (r_err r) (r_found r)) <-> R found t vb r.
Proof. destruct r; reflexivity. Qed.



(* side conditions of a step, taken apart *)
Ltac andb_split :=
  repeat match goal with H : _ && _ = true |- _ => apply andb_true_iff in H; destruct H end.

Lemma side_bin op l r :
  all_steps side1 (SBin op l r) = true -> ok l = true /\ ok r = true /\ ne1 (SBin op l r) = true.
Proof.
  rewrite all_steps_eq. unfold ok. intros H. andb_split. unfold side1 in *. andb_split. auto.
Qed.
Lemma side_un op a :
  all_steps side1 (SUn op a) = true ->
  ok a = true /\ ne1 (SUn op a) = true /\ exok1 (SUn op a) = true.
Proof.
  rewrite all_steps_eq. unfold ok. intros H. andb_split. unfold side1 in *. andb_split. auto.
Qed.
Lemma side_regex a p f :
  all_steps side1 (SRegex a p f) = true -> ok a = true /\ a <> [].
Proof.
  rewrite all_steps_eq. unfold ok. intros H. andb_split. unfold side1 in *. andb_split.
  split; [assumption|]. destruct a; [discriminate|discriminate].
Qed.
Lemma side_index subs :
  all_steps side1 (SIndex subs) = true -> all_subs side1 subs = true /\ forallb ne_sub subs = true.
Proof.
  rewrite all_steps_eq. intros H. andb_split. unfold side1 in H. andb_split. auto.
Qed.
Lemma side_meth m : all_steps side1 (SMeth m) = true -> m <> MKeyValue.
Proof. rewrite all_steps_eq. unfold side1. destruct m; cbn; congruence. Qed.

Lemma cnil_ne (c : chain) : negb (cnil c) = true -> c <> [].
Proof. destruct c; [discriminate|discriminate]. Qed.


(* ------------------------------------------------------------------ *)
(* The error of a predicate is never a suppressible one                *)
(* ------------------------------------------------------------------ *)
Section PredHard.
Variables (L : ExecLib) (C : cenv) (Q : quirks).

Lemma spairs_inner_err st cb l rs h f p e h' f' :
  spairs_inner st cb l rs h f = (Some (p, Some e), h', f') -> exists a b q, cb a b = (q, Some e).
Proof.
  revert h f. induction rs as [|r rs IH]; intros h f H; cbn [spairs_inner] in H; [discriminate|].
  destruct (cb l r) as [q [e0|]] eqn:Hc; cbn iota beta in H.
  - destruct q; injection H; intros; subst; eauto.
  - destruct q; destruct st; cbn [negb] in H; try discriminate H; eauto.
Qed.

Lemma spairs_err st cb ls rs h f e :
  snd (spairs st cb ls rs h f) = Some e -> exists a b q, cb a b = (q, Some e).
Proof.
  revert h f. induction ls as [|l ls IH]; intros h f H; cbn [spairs] in H.
  - destruct f; [discriminate|]. destruct h; discriminate.
  - destruct (spairs_inner st cb l rs h f) as [[[[p0 [e0|]]|] h'] f'] eqn:Hi; cbn [snd] in H.
    + injection H as ->. eapply spairs_inner_err; eauto.
    + discriminate.
    + eauto.
Qed.

Lemma predicate_hard l r uw cb c z ig v e :
  (forall a b q e, cb a b = (q, Some e) -> is_verbose e = false) ->
  snd (predicate L C Q l r uw cb c z ig v) = Some e -> is_verbose e = false.
Proof.
  intros Hcb. unfold predicate, operand.
  destruct (snd (sem_chain L C Q l c z ig (laxm C) v)) as [e1|].
  - cbn [snd]. apply hard_nv.
  - destruct r as [rn|].
    + destruct (snd (sem_chain L C Q rn c z ig (laxm C) v)) as [e2|].
      * cbn [snd]. apply hard_nv.
      * intros H. apply spairs_err in H. destruct H as [a [b [q H]]]. eauto.
    + intros H. apply spairs_err in H. destruct H as [a [b [q H]]]. eauto.
Qed.

Lemma applyCompare_hard op c e : snd (applyCompare op c) = Some e -> is_verbose e = false.
Proof. destruct op; cbn; intros H; try discriminate H; injection H as <-; reflexivity. Qed.

Lemma compareItems_hard tz op a b q e :
  total_cb (compareItems L tz op a b) = (q, Some e) -> is_verbose e = false.
Proof.
  unfold compareItems.
  destruct ((is_null a && negb (is_null b)) || (is_null b && negb (is_null a))).
  { cbn. intros H. discriminate H. }
  assert (AC : forall c, total_cb (Ret (applyCompare op c)) = (q, Some e) -> is_verbose e = false).
  { intros c H. cbn in H. apply (applyCompare_hard op c). rewrite H. reflexivity. }
  destruct a; try (apply AC); try (cbn; intros H; discriminate H);
    destruct b; try (apply AC); try (cbn; intros H; first [discriminate H | injection H as _ <-; reflexivity]).
  - destruct (compareNumeric L n n0); cbn [bindo]; try apply AC; cbn; intros H; injection H as _ <-; reflexivity.
  - destruct (xl_dt_compare L tz d d0); try apply AC; cbn; intros H;
      first [discriminate H | injection H as _ <-; reflexivity].
Qed.

Definition nv_pred (x : pout * option err) : Prop := forall e, snd x = Some e -> is_verbose e = false.

Lemma sem_pred_hard_all :
  forall n c z ig v, nv_pred (pred_chain L C Q n c z ig v).
Proof.
  apply (chain_ind'
           (fun s => forall c z ig v, nv_pred (sem_pred L C Q s c z ig v))
           (fun n => forall c z ig v, nv_pred (pred_chain L C Q n c z ig v)));
    unfold nv_pred; intros;
    try (rewrite sem_pred_other in * by reflexivity;
         match goal with H : snd _ = Some _ |- _ => cbn in H; injection H as <-; reflexivity end).
  - cbn in H. injection H as <-. reflexivity.
  - destruct c; cbn [pred_chain] in *; [eauto|].
    cbn in H1. injection H1 as <-. reflexivity.
  - (* binary *)
    destruct op;
      try (rewrite sem_pred_arith in * by reflexivity;
           match goal with H : snd _ = Some _ |- _ => cbn in H; injection H as <-; reflexivity end);
      try (rewrite sem_pred_cmp in * by reflexivity;
           eapply predicate_hard; [|eassumption]; intros a b q e0; apply compareItems_hard).
    + rewrite sem_pred_and in H1.
      specialize (H c z ig v). specialize (H0 c z ig v).
      destruct (pred_chain L C Q l c z ig v) as [pl [el|]];
        destruct (pred_chain L C Q r c z ig v) as [pr er]; cbn [snd] in *.
      * destruct pl; cbn [snd] in H1; eauto.
      * destruct pl; cbn [snd] in H1; try discriminate H1; destruct pr; cbn [snd] in H1; eauto.
    + rewrite sem_pred_or in H1.
      specialize (H c z ig v). specialize (H0 c z ig v).
      destruct (pred_chain L C Q l c z ig v) as [pl [el|]];
        destruct (pred_chain L C Q r c z ig v) as [pr er]; cbn [snd] in *.
      * destruct pl; cbn [snd] in H1; eauto.
      * destruct pl; cbn [snd] in H1; try discriminate H1; destruct pr; cbn [snd] in H1; eauto; discriminate.
    + rewrite sem_pred_startswith in H1.
      eapply predicate_hard; [|eassumption]. intros a b q e0. unfold executeStartsWith.
      destruct a; try discriminate; destruct b; discriminate.
  - (* unary *)
    destruct op;
      try (rewrite sem_pred_other in * by reflexivity;
           match goal with H : snd _ = Some _ |- _ => cbn in H; injection H as <-; reflexivity end).
    + rewrite sem_pred_exists in H0. cbn zeta in H0.
      destruct (sem_chain L C Q a c z ig (laxm C) v) as [items [fl|]]; cbn [fst snd] in H0;
        destruct (laxm C); destruct items; cbn [snd] in H0; try discriminate H0;
        eapply hard_nv; eauto.
    + rewrite sem_pred_not in H0. specialize (H c z ig v).
      destruct (pred_chain L C Q a c z ig v) as [pa ea]. destruct pa; cbn [snd] in *; try discriminate H0; eauto.
    + rewrite sem_pred_isunknown in H0. specialize (H c z ig v).
      destruct (pred_chain L C Q a c z ig v) as [pa [ea|]]; [|discriminate H0].
      destruct (q_iu_swallow Q); [discriminate H0|]. cbn [snd] in *. eauto.
  - (* regex *)
    rewrite sem_pred_regex in H0.
    eapply predicate_hard; [|eassumption]. intros a0 b q e0. unfold executeLikeRegex.
    destruct a0; discriminate.
Qed.

Lemma sem_pred_hard s c z ig v : nv_pred (sem_pred L C Q s c z ig v).
Proof. exact (sem_pred_hard_all [s] c z ig v). Qed.

End PredHard.


(* ------------------------------------------------------------------ *)
(* One subscript of the specification, as a function                   *)
(* ------------------------------------------------------------------ *)
Section SubRange.
Variables (L : ExecLib) (C : cenv) (Q : quirks).

Definition sub_range (ab : chain * option chain) (c : json) (size : Z) (ig : bool) (v : json)
  : (Z * Z) + err :=
  match index_of L (sem_chain L C Q (fst ab) c size ig (laxm C) v) with
  | inr e => inr e
  | inl from =>
      match (match snd ab with
             | Some bn => index_of L (sem_chain L C Q bn c size ig (laxm C) v)
             | None => inl from
             end) with
      | inr e => inr e
      | inl to =>
          if negb ig && ((from <? 0) || (from >? to) || (to >=? size))
          then inr (EVerbose "jsonpath array subscript is out of bounds")
          else inl (if from <? 0 then 0 else from, if to >=? size then size - 1 else to)
      end
  end.

Lemma sem_subs_cons k c ig v es size ab rest :
  sem_subs L C Q k c ig v es size (ab :: rest) =
  match sub_range ab c size ig v with
  | inr e => tfail e
  | inl (f, t) =>
      tapp (tbind_list (if q_skip_null Q then filter (fun x => negb (is_null x)) (Sem.slice es f t)
                        else Sem.slice es f t) (k size ig))
           (sem_subs L C Q k c ig v es size rest)
  end.
Proof.
  destruct ab as [a b]. cbn [sem_subs]. unfold sub_range. cbn [fst snd].
  destruct (index_of L (sem_chain L C Q a c size ig (laxm C) v)) as [from|e]; [|reflexivity].
  destruct (match b with
            | Some bn => index_of L (sem_chain L C Q bn c size ig (laxm C) v)
            | None => inl from
            end) as [to|e]; [|reflexivity].
  destruct (negb ig && ((from <? 0) || (from >? to) || (to >=? size))); reflexivity.
Qed.
End SubRange.

(* model and specification results of a subscript bound / a subscript, up to the class of the error *)
Definition zsim {A} (x y : A + err) : Prop :=
  match x, y with
  | inl a, inl b => a = b
  | inr e, inr e' => eclass e = eclass e'
  | _, _ => False
  end.
Lemma zsim_refl {A} (x : A + err) : zsim x x.
Proof. destruct x; reflexivity. Qed.


(* ------------------------------------------------------------------ *)
(* Arithmetic only raises suppressible errors                          *)
(* ------------------------------------------------------------------ *)
Lemma is_bool_binop_eq op : Exec.is_bool_binop op = Sem.is_bool_binop op.
Proof. destruct op; reflexivity. Qed.

Lemma intmath_verbose a b op e :
  Sem.is_bool_binop op = false -> executeIntegerMath a b op = MErr e -> is_verbose e = true.
Proof.
  destruct op; intros Hop; try discriminate Hop; cbn; try discriminate;
    destruct (b =? 0); intros H; try discriminate H; injection H as <-; reflexivity.
Qed.
Lemma floatmath_verbose L a b op e :
  Sem.is_bool_binop op = false -> executeFloatMath L a b op = MErr e -> is_verbose e = true.
Proof.
  destruct op; intros Hop; try discriminate Hop; cbn; try discriminate;
    destruct (f_eqb b (S754_zero false)); intros H; try discriminate H; injection H as <-; reflexivity.
Qed.
Lemma execMathOp_verbose L lv rv op e :
  Sem.is_bool_binop op = false -> execMathOp L lv rv op = MErr e -> is_verbose e = true.
Proof.
  intros Hop H. unfold execMathOp in H. cbv beta zeta in H.
  repeat (match type of H with context[match ?x with _ => _ end] => destruct x eqn:? end);
    try discriminate H;
    try (injection H as <-; reflexivity);
    first [eapply intmath_verbose; eassumption | eapply floatmath_verbose; eassumption].
Qed.

(* ------------------------------------------------------------------ *)
(* Setting                                                             *)
(* ------------------------------------------------------------------ *)
Definition cenv_of (E : env) : cenv := mkcenv (e_lax E) (e_root E) (e_vars E) (e_useTZ E).

Definition agrees (E : env) (C : cenv) : Prop :=
  e_lax E = c_lax C /\ e_root E = c_root C /\ e_vars E = c_vars C /\ e_useTZ E = c_useTZ C.

Lemma agrees_cenv_of E C : agrees E C -> C = cenv_of E.
Proof. destruct C; unfold agrees, cenv_of; cbn. intros [-> [-> [-> ->]]]. reflexivity. Qed.

Definition members_canon (L : ExecLib) : Prop := forall l, xl_members L l = map snd l.

(* the predicate value a boolean request must produce *)
Definition pred_spec (L : ExecLib) (C : cenv) (n : chain) (canHaveNext : bool)
           (c : json) (z : Z) (ig : bool) (v : json) : pout * option err :=
  if canHaveNext
  then match n with
       | q :: _ => sem_pred L C quirks_code q c z ig v
       | [] => (PUnknown, Some (EInvalid "invalid boolean jsonpath item type"))
       end
  else pred_chain L C quirks_code n c z ig v.

Section Refinement.
Variables (L : ExecLib) (E : env).
Hypothesis Hnc : e_cancel_at E = None.
Hypothesis Hmc : members_canon L.

Notation C := (cenv_of E).
Notation lx := (e_lax E).
Notation SC := (sem_chain L C quirks_code).
Notation SS := (sem_step L C quirks_code).
Notation SP := (sem_pred L C quirks_code).

Definition refines (self : req -> st -> outcome (ans * st)) : Prop :=
  (forall n v found u s r s',
      self (RItem n v found u) s = Ret (AItem r, s') ->
      n <> [] -> ok n = true -> (fnil found = true -> unary_tail_free n = true) ->
      R found (SC n (cur s) (last_size s) (ign s) u v) (verbose s) r) /\
  (forall n vs found level first last ignFlag un s r s',
      self (RAny n vs found level first last ignFlag un) s = Ret (AItem r, s') ->
      ok n = true -> (fnil found = true -> unary_tail_free n = true) ->
      R found (descend (fun x => SC n (cur s) (last_size s) (ignFlag || ign s) un x) vs level first last)
        (verbose s) r) /\
  (forall n v c s p s',
      self (RBool n v c) s = Ret (ABool p, s') ->
      ok n = true ->
      PR p (pred_spec L C n c (cur s) (last_size s) (ign s) v)).

Lemma lax_eq : lax E = lx. Proof. reflexivity. Qed.
Lemma laxm_eq : laxm C = lx. Proof. reflexivity. Qed.

Lemma collection_children v : collection L v = children v.
Proof. destruct v; try reflexivity. cbn. apply Hmc. Qed.

Lemma isCollection_eq v : Exec.isCollection v = Sem.isCollection v.
Proof. destruct v; reflexivity. Qed.

Lemma done_now_false s : done_now E s = false.
Proof. unfold done_now. rewrite Hnc. reflexivity. Qed.
Lemma ctx_err_false s : ctx_err E s = false.
Proof. unfold ctx_err. rewrite Hnc. reflexivity. Qed.

Section WithSelf.
Variable self : req -> st -> outcome (ans * st).
Hypothesis Hfr : frames self.
Hypothesis Hrf : refines self.

Lemma callItem_ctx n v found u s r s' : callItem self n v found u s = Ret (r, s') -> ctx s s'.
Proof. intros H. apply callItem_Ret in H. apply frame_ctx. eapply Hfr; eauto. Qed.
Lemma callAny_ctx n vs found level first last ig un s r s' :
  callAny self n vs found level first last ig un s = Ret (r, s') -> ctx s s'.
Proof. intros H. apply callAny_Ret in H. apply frame_ctx. eapply Hfr; eauto. Qed.
Lemma callBool_ctx n v c s p s' : callBool self n v c s = Ret (p, s') -> ctx s s'.
Proof. intros H. apply callBool_Ret in H. apply frame_ctx. eapply Hfr; eauto. Qed.

Lemma callItem_ok n v found u s r s' :
  callItem self n v found u s = Ret (r, s') ->
  n <> [] -> ok n = true -> (fnil found = true -> unary_tail_free n = true) ->
  R found (SC n (cur s) (last_size s) (ign s) u v) (verbose s) r.
Proof. intros H. apply callItem_Ret in H. destruct Hrf as [H1 _]. eapply H1; eauto. Qed.

Lemma callAny_ok n vs found level first last ignFlag un s r s' :
  callAny self n vs found level first last ignFlag un s = Ret (r, s') ->
  ok n = true -> (fnil found = true -> unary_tail_free n = true) ->
  R found (descend (fun x => SC n (cur s) (last_size s) (ignFlag || ign s) un x) vs level first last)
    (verbose s) r.
Proof. intros H. apply callAny_Ret in H. destruct Hrf as [_ [H2 _]]. eapply H2; eauto. Qed.

Lemma callBool_ok n v c s p s' :
  callBool self n v c s = Ret (p, s') -> ok n = true ->
  PR p (pred_spec L C n c (cur s) (last_size s) (ign s) v).
Proof. intros H. apply callBool_Ret in H. destruct Hrf as [_ [_ H3]]. eapply H3; eauto. Qed.

(* ---------- execution.go ---------- *)
Lemma executeNextItem_ctx next v found s r s' :
  executeNextItem E self next v found s = Ret (r, s') -> ctx s s'.
Proof.
  unfold executeNextItem, executeItem. destruct next; intros H.
  - uret. apply ctx_refl.
  - eapply callItem_ctx; eauto.
Qed.

Lemma executeNextItem_ok next v found s r s' :
  executeNextItem E self next v found s = Ret (r, s') ->
  ok next = true -> (fnil found = true -> unary_tail_free next = true) ->
  R found (SC next (cur s) (last_size s) (ign s) lx v) (verbose s) r.
Proof.
  unfold executeNextItem, executeItem. destruct next as [|x next']; intros H Hok Hu.
  - uret. rewrite sem_chain_nil. apply R_ret.
  - eapply callItem_ok; eauto. discriminate.
Qed.

(* operands: executeItemOptUnwrapResult collecting into an empty list *)
Definition opR (t : trace) (unw : bool) (vb : bool) (r : resp) : Prop :=
  match snd t with
  | Some e => r_st r = SFailed /\ option_map eclass (r_err r) = vis vb e
  | None => r_st r <> SFailed /\ r_err r = None /\
            r_found r = Some (if unw then unwrapSeq (fst t) else fst t)
  end.

Lemma optUnwrap_ok n v unwrap s r s' :
  executeItemOptUnwrapResult E self n v unwrap (Some []) s = Ret (r, s') ->
  n <> [] -> ok n = true ->
  opR (SC n (cur s) (last_size s) (ign s) lx v) (unwrap && lx) (verbose s) r /\ ctx s s'.
Proof.
  unfold executeItemOptUnwrapResult, executeItem, lax. intros H Hne Hok.
  destruct (unwrap && lx) eqn:UL.
  - bind_inv H r1 s1 H1.
    pose proof (callItem_ctx _ _ _ _ _ _ _ H1) as K.
    apply callItem_ok in H1; auto; [|discriminate].
    unfold opR. destruct H1 as [F S0]. cbn [app] in F.
    destruct (snd (SC n (cur s) (last_size s) (ign s) lx v)) as [e|].
    + destruct S0 as [S0 S1]. rewrite S0 in H. cbn [st_failed] in H. ret. cbn. auto.
    + destruct S0 as [S0 S1].
      destruct (st_failed (r_st r1)) eqn:SF; [destruct (r_st r1); try discriminate; congruence|].
      ret. cbn. rewrite F. cbn [option_map]. rewrite fold_unwrapInto. cbn [app].
      split; [|exact K]. split; [discriminate|]. split; reflexivity.
  - pose proof (callItem_ctx _ _ _ _ _ _ _ H) as K.
    apply callItem_ok in H; auto; [|discriminate].
    unfold opR. destruct H as [F S0]. cbn [app] in F.
    destruct (snd (SC n (cur s) (last_size s) (ign s) lx v)) as [e|]; (split; [|exact K]).
    + exact S0.
    + destruct S0 as [S0 S1]. auto.
Qed.

Lemma optUnwrapSilent_ok n v unwrap s r s' :
  executeItemOptUnwrapResultSilent E self n v unwrap (Some []) s = Ret (r, s') ->
  n <> [] -> ok n = true ->
  opR (SC n (cur s) (last_size s) (ign s) lx v) (unwrap && lx) false r /\ ctx s s'.
Proof.
  unfold executeItemOptUnwrapResultSilent. intros H Hne Hok.
  bind_inv H r1 s1 H1. ret.
  apply optUnwrap_ok in H1; auto. cbn [cur last_size ign verbose set_verbose] in H1.
  destruct H1 as [H1 K]. split; [exact H1|]. ctx_solve.
Qed.

Lemma silent_nounwrap_ok n v found s r s' :
  executeItemOptUnwrapResultSilent E self n v false found s = Ret (r, s') ->
  n <> [] -> ok n = true -> (fnil found = true -> unary_tail_free n = true) ->
  R found (SC n (cur s) (last_size s) (ign s) lx v) false r /\ ctx s s'.
Proof.
  unfold executeItemOptUnwrapResultSilent, executeItemOptUnwrapResult, executeItem, lax.
  cbn [andb]. intros H Hne Hok Hu.
  bind_inv H r1 s1 H1. ret.
  pose proof (callItem_ctx _ _ _ _ _ _ _ H1) as K.
  apply callItem_ok in H1; auto. cbn [cur last_size ign verbose set_verbose] in H1.
  split; [exact H1|]. ctx_solve.
Qed.

(* ---------- predicate.go ---------- *)
Section PairsOk.
Variable cb : json -> json -> outcome (pout * option err).
Variable cb' : json -> json -> pout * option err.
Hypothesis Hcb : forall a b x, cb a b = Ret x -> cb' a b = x.

Lemma pairs_inner_ok l rs h f x :
  pairs_inner E cb l rs h f = Ret x ->
  spairs_inner (negb lx) cb' l rs h f =
  (option_map (fun p => (p_out p, p_err p)) (fst (fst x)), snd (fst x), snd x).
Proof.
  revert h f. induction rs as [|r rs IH]; intros h f H; cbn [pairs_inner spairs_inner] in *.
  - ret. reflexivity.
  - apply bindo_Ret in H. destruct H as [[res e] [H1 H]].
    rewrite (Hcb _ _ _ H1). unfold strict in H.
    destruct e as [e|]; [destruct res; ret; reflexivity|].
    destruct res; destruct (negb lx); cbn [negb] in *; try (ret; reflexivity); try (apply IH; exact H).
Qed.

Lemma pairs_outer_ok ls rs h f p :
  pairs_outer E cb ls rs h f = Ret p ->
  spairs (negb lx) cb' ls rs h f = (p_out p, p_err p).
Proof.
  revert h f. induction ls as [|l ls IH]; intros h f H; cbn [pairs_outer spairs] in *.
  - ret. destruct f; [reflexivity|]. destruct h; reflexivity.
  - apply bindo_Ret in H. destruct H as [[[early h'] f'] [H1 H]].
    rewrite (pairs_inner_ok _ _ _ _ _ H1). cbn [fst snd].
    destruct early as [p0|]; cbn [option_map].
    + ret. reflexivity.
    + apply IH. exact H.
Qed.
End PairsOk.

Lemma executePredicate_ok l ro v uw cb cb' s p s' :
  executePredicate E self l ro v uw cb s = Ret (p, s') ->
  (forall a b x, cb a b = Ret x -> cb' a b = x) ->
  l <> [] -> ok l = true ->
  match ro with Some rn => rn <> [] /\ ok rn = true | None => True end ->
  PR p (predicate L C quirks_code l ro uw cb' (cur s) (last_size s) (ign s) v) /\ ctx s s'.
Proof.
  unfold executePredicate. intros H Hcb Hne Hok Hr.
  bind_inv H rl s1 H1.
  apply optUnwrapSilent_ok in H1; auto. destruct H1 as [OL KL].
  unfold predicate, operand. rewrite laxm_eq. unfold opR in OL. cbn [andb] in OL |- *.
  destruct (snd (SC l (cur s) (last_size s) (ign s) lx v)) as [e|].
  - destruct OL as [O1 O2]. rewrite O1 in H. cbn [st_failed] in H. ret.
    split; [|exact KL]. split; cbn [p_out p_err fst snd]; [reflexivity|].
    rewrite O2. apply vis_false.
  - destruct OL as [O1 [O2 O3]].
    destruct (st_failed (r_st rl)) eqn:SF; [destruct (r_st rl); try discriminate; congruence|].
    rewrite O3 in H.
    bind_inv H rr s2 H2.
    destruct ro as [rn|].
    + destruct Hr as [Hrne Hrok].
      apply optUnwrapSilent_ok in H2; auto. destruct H2 as [OR KR].
      destruct KL as [K1 [K2 [K3 K4]]]. rewrite K1, K2, K3 in OR.
      unfold opR in OR.
      destruct (snd (SC rn (cur s) (last_size s) (ign s) lx v)) as [e|].
      * destruct OR as [P1 P2]. rewrite P1 in H. cbn [st_failed] in H. ret.
        split; [|ctx_solve]. split; cbn [p_out p_err fst snd]; [reflexivity|].
        rewrite P2. apply vis_false.
      * destruct OR as [P1 [P2 P3]].
        destruct (st_failed (r_st rr)) eqn:SF2; [destruct (r_st rr); try discriminate; congruence|].
        rewrite P3 in H.
        apply bindo_Ret in H. destruct H as [p0 [H3 H]]. ret.
        rewrite (pairs_outer_ok _ _ Hcb _ _ _ _ _ H3).
        split; [|ctx_solve]. split; reflexivity.
    + ret. cbn [st_failed r_st r_found] in H.
      apply bindo_Ret in H. destruct H as [p0 [H3 H]]. ret.
      rewrite (pairs_outer_ok _ _ Hcb _ _ _ _ _ H3).
      split; [|exact KL]. split; reflexivity.
Qed.

(* ---------- boolean.go ---------- *)
Lemma PR_invalid s1 s2 : PR (mkp PUnknown (Some (EInvalid s1))) (PUnknown, Some (EInvalid s2)).
Proof. split; reflexivity. Qed.

Lemma step_bool_ok stp v s p s' :
  match stp with
  | SBin op l r => executeBinaryBoolItem L E self op l r v
  | SUn op a => executeUnaryBoolItem E self op a v
  | SRegex a pat flags =>
      executePredicate E self a None v false (fun x _ => Ret (executeLikeRegex L pat flags x))
  | _ => Exec.ret (mkp PUnknown (Some (EInvalid "invalid boolean jsonpath item type")))
  end s = Ret (p, s') ->
  all_steps side1 stp = true ->
  PR p (SP stp (cur s) (last_size s) (ign s) v).
Proof.
  intros H Hs.
  destruct stp as [k|x|x|x|x|x|op l r|op a|a pat flags|m|pp sc|op tmpl prec|f l0|subs];
    try (uret; rewrite sem_pred_other by reflexivity; apply PR_invalid).
  - (* binary *)
    apply side_bin in Hs. destruct Hs as [Hl [Hr Hne]].
    destruct op; cbn [executeBinaryBoolItem] in H;
      try (uret; rewrite sem_pred_arith by reflexivity; apply PR_invalid).
    + (* and *)
      rewrite sem_pred_and.
      bind_inv H p1 s1 H1.
      pose proof (callBool_ctx _ _ _ _ _ _ H1) as K. apply callBool_ok in H1; auto.
      unfold pred_spec in H1.
      destruct (pred_chain L C quirks_code l (cur s) (last_size s) (ign s) v) as [pl el].
      destruct H1 as [A B]. cbn [fst snd] in A, B.
      assert (CONT : forall p s', (do (p2, s2) <- callBool self r v false s1;
                  match p_out p2 with
                  | PTrue => Ret (mkp (p_out p1) (p_err p2), s2)
                  | _ => Ret (p2, s2)
                  end) = Ret (p, s') ->
                PR p (match pred_chain L C quirks_code r (cur s) (last_size s) (ign s) v with
                      | (PTrue, e2) => (pl, e2)
                      | x => x
                      end)).
      { clear H. intros p0 s0 H. bind_inv H p2 s2 H2. apply callBool_ok in H2; auto.
        unfold pred_spec in H2. destruct K as [K1 [K2 [K3 K4]]]. rewrite K1, K2, K3 in H2.
        destruct (pred_chain L C quirks_code r (cur s) (last_size s) (ign s) v) as [pr er].
        destruct H2 as [A2 B2]. cbn [fst snd] in A2, B2. rewrite A2 in H.
        destruct pr; ret; split; cbn [p_out p_err fst snd]; auto. }
      rewrite A in H, CONT.
      destruct pl; destruct (p_err p1) as [e1|] eqn:E1; destruct el as [e1'|]; try discriminate B;
        cbn [orb is_some] in H; try (ret; split; cbn [fst snd]; rewrite ?E1; auto; fail);
        apply (CONT _ _ H).
    + (* or *)
      rewrite sem_pred_or.
      bind_inv H p1 s1 H1.
      pose proof (callBool_ctx _ _ _ _ _ _ H1) as K. apply callBool_ok in H1; auto.
      unfold pred_spec in H1.
      destruct (pred_chain L C quirks_code l (cur s) (last_size s) (ign s) v) as [pl el].
      destruct H1 as [A B]. cbn [fst snd] in A, B.
      assert (CONT : p_err p1 = None -> forall p s', (do (p2, s2) <- callBool self r v false s1;
                  match p_out p2 with
                  | PFalse => Ret (mkp (p_out p1) (p_err p1), s2)
                  | _ => Ret (p2, s2)
                  end) = Ret (p, s') ->
                PR p (match pred_chain L C quirks_code r (cur s) (last_size s) (ign s) v with
                      | (PFalse, _) => (pl, None)
                      | x => x
                      end)).
      { clear H. intros E1 p0 s0 H. bind_inv H p2 s2 H2. apply callBool_ok in H2; auto.
        unfold pred_spec in H2. destruct K as [K1 [K2 [K3 K4]]]. rewrite K1, K2, K3 in H2.
        destruct (pred_chain L C quirks_code r (cur s) (last_size s) (ign s) v) as [pr er].
        destruct H2 as [A2 B2]. cbn [fst snd] in A2, B2. rewrite A2 in H.
        destruct pr; ret; split; cbn [p_out p_err fst snd]; auto. rewrite E1. reflexivity. }
      rewrite A in H, CONT.
      destruct pl; destruct (p_err p1) as [e1|] eqn:E1; destruct el as [e1'|]; try discriminate B;
        cbn [orb is_some] in H; try (ret; split; cbn [fst snd]; rewrite ?E1; auto; fail);
        apply (CONT eq_refl _ _ H).
    + rewrite sem_pred_cmp by reflexivity.
      cbn in Hne. apply andb_true_iff in Hne. destruct Hne as [N1 N2].
      apply cnil_ne in N1. apply cnil_ne in N2.
      eapply executePredicate_ok in H; [apply H| |auto|auto|auto].
      intros a b x Hx. cbn [c_useTZ cenv_of]. rewrite Hx. reflexivity.
    + rewrite sem_pred_cmp by reflexivity.
      cbn in Hne. apply andb_true_iff in Hne. destruct Hne as [N1 N2].
      apply cnil_ne in N1. apply cnil_ne in N2.
      eapply executePredicate_ok in H; [apply H| |auto|auto|auto].
      intros a b x Hx. cbn [c_useTZ cenv_of]. rewrite Hx. reflexivity.
    + rewrite sem_pred_cmp by reflexivity.
      cbn in Hne. apply andb_true_iff in Hne. destruct Hne as [N1 N2].
      apply cnil_ne in N1. apply cnil_ne in N2.
      eapply executePredicate_ok in H; [apply H| |auto|auto|auto].
      intros a b x Hx. cbn [c_useTZ cenv_of]. rewrite Hx. reflexivity.
    + rewrite sem_pred_cmp by reflexivity.
      cbn in Hne. apply andb_true_iff in Hne. destruct Hne as [N1 N2].
      apply cnil_ne in N1. apply cnil_ne in N2.
      eapply executePredicate_ok in H; [apply H| |auto|auto|auto].
      intros a b x Hx. cbn [c_useTZ cenv_of]. rewrite Hx. reflexivity.
    + rewrite sem_pred_cmp by reflexivity.
      cbn in Hne. apply andb_true_iff in Hne. destruct Hne as [N1 N2].
      apply cnil_ne in N1. apply cnil_ne in N2.
      eapply executePredicate_ok in H; [apply H| |auto|auto|auto].
      intros a b x Hx. cbn [c_useTZ cenv_of]. rewrite Hx. reflexivity.
    + rewrite sem_pred_cmp by reflexivity.
      cbn in Hne. apply andb_true_iff in Hne. destruct Hne as [N1 N2].
      apply cnil_ne in N1. apply cnil_ne in N2.
      eapply executePredicate_ok in H; [apply H| |auto|auto|auto].
      intros a b x Hx. cbn [c_useTZ cenv_of]. rewrite Hx. reflexivity.
    + rewrite sem_pred_startswith.
      cbn in Hne. apply andb_true_iff in Hne. destruct Hne as [N1 N2].
      apply cnil_ne in N1. apply cnil_ne in N2.
      eapply executePredicate_ok in H; [apply H| |auto|auto|auto].
      intros a b x Hx. congruence.
  - (* unary *)
    apply side_un in Hs. destruct Hs as [Ha [Hne Hex]].
    destruct op; cbn [executeUnaryBoolItem] in H;
      try (uret; rewrite sem_pred_other by reflexivity; apply PR_invalid).
    + (* exists *)
      rewrite sem_pred_exists. cbn zeta. rewrite laxm_eq.
      cbn in Hne. apply cnil_ne in Hne. cbn in Hex.
      unfold strict in H. destruct (e_lax E) eqn:LX; cbn [negb] in H.
      * bind_inv H r1 s1 H1. apply silent_nounwrap_ok in H1; auto. destruct H1 as [H1 _].
        rewrite LX in H1. destruct H1 as [F S0].
        destruct (SC a (cur s) (last_size s) (ign s) true v) as [items fl]. cbn [fst snd] in S0 |- *.
        destruct items as [|x items].
        -- destruct fl as [e|]; destruct S0 as [S1 S2]; rewrite S1 in H; ret; split; cbn [p_out p_err fst snd]; auto.
           rewrite S2. apply vis_false.
        -- destruct S0 as [S1 S2]; rewrite S1 in H; ret; split; reflexivity.
      * bind_inv H r1 s1 H1. apply silent_nounwrap_ok in H1; auto. destruct H1 as [H1 _].
        rewrite LX in H1. destruct H1 as [F S0]. cbn [app] in F.
        destruct (SC a (cur s) (last_size s) (ign s) false v) as [items fl]. cbn [fst snd] in S0, F |- *.
        destruct fl as [e|].
        -- destruct S0 as [S1 S2]. rewrite S1 in H. cbn [st_failed] in H. ret.
           split; cbn [p_out p_err fst snd]; auto. rewrite S2. apply vis_false.
        -- destruct S0 as [S1 S2].
           destruct (st_failed (r_st r1)) eqn:SF; [destruct (r_st r1); try discriminate; congruence|].
           rewrite F in H. destruct items; ret; split; reflexivity.
    + (* not *)
      rewrite sem_pred_not.
      bind_inv H p1 s1 H1. apply callBool_ok in H1; auto. unfold pred_spec in H1.
      destruct (pred_chain L C quirks_code a (cur s) (last_size s) (ign s) v) as [pa ea].
      destruct H1 as [A B]. cbn [fst snd] in A, B. rewrite A in H.
      destruct pa; ret; split; cbn [p_out p_err fst snd]; auto.
    + (* is unknown *)
      rewrite sem_pred_isunknown.
      bind_inv H p1 s1 H1. apply callBool_ok in H1; auto. unfold pred_spec in H1.
      destruct (pred_chain L C quirks_code a (cur s) (last_size s) (ign s) v) as [pa ea].
      destruct H1 as [A B]. cbn [fst snd] in A, B.
      rewrite ctx_err_false, andb_false_r, A in H. ret. cbn [q_iu_swallow quirks_code].
      destruct ea; split; reflexivity.
  - (* like_regex *)
    apply side_regex in Hs. destruct Hs as [Ha Hne].
    rewrite sem_pred_regex.
    eapply executePredicate_ok in H; [apply H| |auto|auto|auto].
    intros a0 b x Hx. congruence.
Qed.

Lemma executeBoolItem_ok n v c s p s' :
  executeBoolItem L E self n v c s = Ret (p, s') -> ok n = true ->
  PR p (pred_spec L C n c (cur s) (last_size s) (ign s) v).
Proof.
  unfold executeBoolItem, pred_spec. intros H Hok.
  destruct n as [|stp next].
  - uret. destruct c; apply PR_invalid.
  - apply ok_cons in Hok. destruct Hok as [Hs Hn].
    destruct c; cbn [negb andb] in H.
    + eapply step_bool_ok; eauto.
    + destruct next as [|y next']; cbn [cnil negb] in H.
      * cbn [pred_chain]. eapply step_bool_ok; eauto.
      * uret. apply PR_invalid.
Qed.

Lemma appendBoolResult_ok next found p x s r s' :
  appendBoolResult E self next found p s = Ret (r, s') ->
  PR p x -> (forall e, snd x = Some e -> is_verbose e = false) ->
  ok next = true -> (fnil found = true -> unary_tail_free next = true) ->
  R found (bool_sem x (fun y => SC next (cur s) (last_size s) (ign s) lx y)) (verbose s) r.
Proof.
  unfold appendBoolResult, bool_sem. intros H [A B] Hh Hok Hu. destruct x as [po pe]. cbn [fst snd] in *.
  destruct (p_err p) as [e|]; destruct pe as [e'|]; try discriminate B.
  - uret. apply R_hardfail; [apply Hh; reflexivity|]. cbn in B. congruence.
  - assert (V : match p_out p with PUnknown => JNull | PTrue => JBool true | PFalse => JBool false end
                = bool_item po) by (rewrite A; reflexivity).
    rewrite V in H.
    destruct (cnil next && fnil found) eqn:EX.
    + uret. apply andb_true_iff in EX. destruct EX as [X1 X2].
      destruct next; [|discriminate]. destruct found; [discriminate|].
      rewrite sem_chain_nil. eapply R_early. reflexivity.
    + eapply executeNextItem_ok; eauto.
Qed.

Lemma utf_next s c : unary_tail_free (s :: c) = true -> unary_tail_free c = true.
Proof. destruct c; [reflexivity|]. intros H. apply (utf_tail s); [exact H|discriminate]. Qed.

Lemma execBoolNode_ok stp next v found s r s' :
  execBoolNode E self (stp :: next) next v found s = Ret (r, s') ->
  ok (stp :: next) = true -> (fnil found = true -> unary_tail_free next = true) ->
  R found (bool_sem (SP stp (cur s) (last_size s) (ign s) v)
             (fun y => SC next (cur s) (last_size s) (ign s) lx y)) (verbose s) r.
Proof.
  unfold execBoolNode. intros H Hok Hu.
  bind_inv H p s1 H1.
  pose proof (callBool_ctx _ _ _ _ _ _ H1) as K.
  apply callBool_ok in H1; auto. unfold pred_spec in H1.
  apply ok_cons in Hok. destruct Hok as [_ Hn].
  eapply appendBoolResult_ok in H; eauto; [|apply sem_pred_hard].
  destruct K as [K1 [K2 [K3 K4]]]. rewrite K1, K2, K3, K4 in H. exact H.
Qed.

(* ---------- op.go: executeAnyItem ---------- *)
Definition inv_st (ignFlag : bool) (c0 : json) (z0 : Z) (ig0 vb0 : bool) (s : st) : Prop :=
  cur s = c0 /\ last_size s = z0 /\ verbose s = vb0 /\ (ignFlag = true \/ ign s = ig0).

Lemma inv_st_ign ignFlag c0 z0 ig0 vb0 s :
  inv_st ignFlag c0 z0 ig0 vb0 s -> ignFlag || ign s = ignFlag || ig0.
Proof. intros [_ [_ [_ [I|I]]]]; [rewrite I; reflexivity|rewrite I; reflexivity]. Qed.

Lemma inv_st_ctx ignFlag c0 z0 ig0 vb0 s s' :
  inv_st ignFlag c0 z0 ig0 vb0 s -> ctx s s' -> inv_st ignFlag c0 z0 ig0 vb0 s'.
Proof.
  intros [I1 [I2 [I3 I4]]] [K1 [K2 [K3 K4]]]. unfold inv_st. rewrite K1, K2, K3, K4. auto.
Qed.

Lemma exit_now_res res :
  r_st res <> SFailed -> (fnil (r_found res) = true -> r_st res = SNotFound) ->
  exit_now res (r_found res) = false.
Proof.
  unfold exit_now. intros H1 H2. destruct (r_st res) eqn:S0; cbn; try congruence.
  destruct (fnil (r_found res)); [|reflexivity]. specialize (H2 eq_refl). discriminate.
Qed.

Lemma anyloop_ok n level first last ignFlag un c0 z0 ig0 vb0 :
  ok n = true ->
  forall vs res dirty s r d' s',
  anyLoop L self n vs level first last ignFlag un res dirty s = Ret (r, d', s') ->
  inv_st ignFlag c0 z0 ig0 vb0 s ->
  r_err res = None -> r_st res <> SFailed -> (fnil (r_found res) = true -> r_st res = SNotFound) ->
  (fnil (r_found res) = true -> unary_tail_free n = true) ->
  R (r_found res)
    (tbind_list vs (desc_v (fun x => SC n c0 z0 (ignFlag || ig0) un x) first last level)) vb0 r.
Proof.
  intros Hok. induction vs as [|v rest IH]; intros res dirty s r d' s' H I Er Sr Nr Ur.
  - cbn [anyLoop] in H. ret. cbn [tbind_list]. apply R_same; auto.
  - cbn [anyLoop] in H. cbn [tbind_list]. rewrite desc_v_unfold, tapp_assoc.
    set (k := fun x => SC n c0 z0 (ignFlag || ig0) un x) in *.
    bind_inv H x1 s1 HA. destruct x1 as [[r1 dirty1] stop1].
    rewrite isCollection_eq in HA.
    set (cond := (level >=? first) || ((first =? max_uint32) && (last =? max_uint32) && negb (Sem.isCollection v))) in *.
    assert (A : R (r_found res) (if cond then k v else tnil) vb0 r1 /\ inv_st ignFlag c0 z0 ig0 vb0 s1 /\
                stop1 = exit_now r1 (r_found res)).
    { destruct cond.
      - destruct n as [|x n'].
        + destruct (r_found res) as [acc|] eqn:F; ret.
          * rewrite Er. split; [|split; [exact I|reflexivity]].
            unfold k. rewrite sem_chain_nil. apply (R_ret (Some acc)).
          * split; [|split; [exact I|reflexivity]].
            unfold k. rewrite sem_chain_nil. apply (R_ret None).
        + bind_inv HA r1' s1' HA1. ret.
          pose proof (callItem_ctx _ _ _ _ _ _ _ HA1) as K.
          apply callItem_ok in HA1; auto; [|discriminate].
          destruct I as [I1 [I2 [I3 I4]]].
          assert (C1 : cur (if ignFlag then set_ign s true else s) = c0) by (destruct ignFlag; exact I1).
          assert (C2 : last_size (if ignFlag then set_ign s true else s) = z0) by (destruct ignFlag; exact I2).
          assert (C3 : verbose (if ignFlag then set_ign s true else s) = vb0) by (destruct ignFlag; exact I3).
          assert (C4 : ign (if ignFlag then set_ign s true else s) = ignFlag || ig0).
          { destruct ignFlag; cbn; [reflexivity|]. destruct I4 as [I4|I4]; [discriminate|exact I4]. }
          rewrite C1, C2, C3, C4 in HA1. split; [exact HA1|]. split; [|reflexivity].
          destruct K as [K1 [K2 [K3 K4]]]. unfold inv_st. rewrite K1, K2, K3, K4, C1, C2, C3, C4.
          repeat split. destruct ignFlag; [left; reflexivity|right; reflexivity].
      - ret. split; [|split; [exact I|]].
        + apply R_same; auto.
        + symmetry. apply exit_now_res; auto. }
    destruct A as [A [I1 X1]]. subst stop1.
    destruct (exit_now r1 (r_found res)) eqn:X.
    + ret. apply R_exit; assumption.
    + pose proof (R_noexit _ _ _ _ A X) as [Er1 [Sr1 [N1 _]]].
      pose proof (R_fnil _ _ _ _ A) as F1.
      eapply R_cont; [exact A|exact X|]. clear A.
      bind_inv H x2 s2 HB. destruct x2 as [r2 stop2].
      assert (B : R (r_found r1)
                    (if level <? last then tbind_list (children v) (desc_v k first last (level + 1)) else tnil)
                    vb0 r2 /\ inv_st ignFlag c0 z0 ig0 vb0 s2 /\ stop2 = exit_now r2 (r_found r1)).
      { destruct (level <? last) eqn:LL.
        - bind_inv HB r2' s2' HB1. ret.
          pose proof (callAny_ctx _ _ _ _ _ _ _ _ _ _ _ HB1) as K.
          apply callAny_ok in HB1; auto; [|rewrite F1; exact Ur].
          rewrite (inv_st_ign _ _ _ _ _ _ I1) in HB1.
          destruct I1 as [J1 [J2 [J3 J4]]]. rewrite J1, J2, J3 in HB1.
          unfold descend in HB1.
          assert (LT : (level + 1 >? last) = false).
          { apply Z.ltb_lt in LL. rewrite Z.gtb_ltb. apply Z.ltb_ge. lia. }
          rewrite LT, collection_children in HB1.
          split; [exact HB1|]. split.
          + eapply inv_st_ctx; [|exact K]. repeat split; assumption.
          + apply exit_now_fnil. symmetry. exact F1.
        - ret. split; [|split; [exact I1|]].
          + apply R_same; auto. rewrite F1. exact N1.
          + symmetry. apply exit_now_res; auto. rewrite F1. exact N1. }
      destruct B as [B [I2 X2]]. subst stop2.
      destruct (exit_now r2 (r_found r1)) eqn:X'.
      * ret. apply R_exit; assumption.
      * pose proof (R_noexit _ _ _ _ B X') as [Er2 [Sr2 [N2 _]]].
        pose proof (R_fnil _ _ _ _ B) as F2.
        eapply R_cont; [exact B|exact X'|].
        eapply IH; eauto.
Qed.

Lemma executeAnyItem_ok n vs found level first last ignFlag un s r s' :
  executeAnyItem L self n vs found level first last ignFlag un s = Ret (r, s') ->
  ok n = true -> (fnil found = true -> unary_tail_free n = true) ->
  R found (descend (fun x => SC n (cur s) (last_size s) (ignFlag || ign s) un x) vs level first last)
    (verbose s) r.
Proof.
  unfold executeAnyItem, descend. intros H Hok Hu.
  destruct (level >? last); [ret; apply R_notfound|].
  bind_inv H x s1 HL. destruct x as [res dirty].
  eapply anyloop_ok with (c0 := cur s) (z0 := last_size s) (ig0 := ign s) (vb0 := verbose s) in HL;
    auto; cbn [r_found r_err r_st]; try congruence.
  2:{ repeat split. right; reflexivity. }
  match type of H with (if ?c then _ else _) = _ => destruct c eqn:GR end; ret; [|exact HL].
  andb_split.
  apply R_upgrade; auto.
  - destruct (r_st res); try discriminate; cbn in *; congruence.
  - destruct (r_err res); [discriminate|reflexivity].
  - destruct (fnil found); [discriminate|reflexivity].
Qed.

Lemma executeItemUnwrapTargetArray_ok n v found s r s' :
  executeItemUnwrapTargetArray self n v found s = Ret (r, s') ->
  is_array v = true ->
  ok n = true -> (fnil found = true -> unary_tail_free n = true) ->
  R found (tbind_list (match v with JArr _ l => l | _ => [] end)
             (fun x => SC n (cur s) (last_size s) (ign s) false x)) (verbose s) r.
Proof.
  unfold executeItemUnwrapTargetArray. intros H Ha Hok Hu.
  destruct v; try discriminate Ha.
  apply callAny_ok in H; auto. rewrite descend_flat in H. cbn [orb] in H. exact H.
Qed.

(* ---------- const.go / literal.go ---------- *)
Lemma execLiteral_ok next x found s r s' :
  execLiteral E self next x found s = Ret (r, s') ->
  ok next = true -> (fnil found = true -> unary_tail_free next = true) ->
  R found (SC next (cur s) (last_size s) (ign s) lx x) (verbose s) r.
Proof.
  unfold execLiteral. intros H Hok Hu.
  destruct (cnil next && fnil found) eqn:EX.
  - uret. apply andb_true_iff in EX. destruct EX as [X1 X2].
    destruct next; [|discriminate]. destruct found; [discriminate|].
    rewrite sem_chain_nil. eapply R_early. reflexivity.
  - eapply executeNextItem_ok; eauto.
Qed.

Lemma execVariable_ok name next found s r s' :
  execVariable E self name next found s = Ret (r, s') ->
  ok next = true -> (fnil found = true -> unary_tail_free next = true) ->
  R found (match lookup name (e_vars E) with
           | Some val => SC next (cur s) (last_size s) (ign s) lx val
           | None => tfail (EExec "could not find jsonpath variable")
           end) (verbose s) r.
Proof.
  unfold execVariable. intros H Hok Hu.
  destruct (lookup name (e_vars E)) as [val|].
  - bind_inv H r1 s1 H1. ret. eapply executeNextItem_ok in H1; eauto.
  - uret. apply R_hardfail; reflexivity.
Qed.

Lemma structural_R what what' found s r s' :
  (if negb (ign s) then returnVerboseError (EVerbose what) found s
   else Ret (mkr SNotFound None found, s)) = Ret (r, s') ->
  R found (structural (ign s) what') (verbose s) r.
Proof.
  unfold structural. destruct (ign s); cbn [negb]; intros H.
  - ret. apply R_notfound.
  - eapply returnVerboseError_R; eauto.
Qed.

Lemma chain_unwrap_false stp next c z ig x one :
  (forall u v, SS stp (kont L C quirks_code next c) c z ig u v = unwrap_over u v one) ->
  SC (stp :: next) c z ig false x = one x.
Proof. intros H. rewrite sem_chain_cons, H, unwrap_over_false. reflexivity. Qed.

(* a step that unwraps its target: the array case *)
Lemma unwrap_target_ok stp next v found s r s' one :
  (forall u v, SS stp (kont L C quirks_code next (cur s)) (cur s) (last_size s) (ign s) u v = unwrap_over u v one) ->
  executeItemUnwrapTargetArray self (stp :: next) v found s = Ret (r, s') ->
  is_array v = true ->
  ok (stp :: next) = true -> (fnil found = true -> unary_tail_free (stp :: next) = true) ->
  R found (SC (stp :: next) (cur s) (last_size s) (ign s) true v) (verbose s) r.
Proof.
  intros Hone H Ha Hok Hu.
  apply executeItemUnwrapTargetArray_ok in H; auto.
  rewrite sem_chain_cons, Hone. destruct v; try discriminate Ha.
  rewrite unwrap_over_arr.
  erewrite tbind_ext; [exact H|]. intros x. cbn beta.
  symmetry. apply chain_unwrap_false. exact Hone.
Qed.

Lemma execKeyNode_ok key next v found u s r s' :
  execKeyNode E self key (SKey key :: next) next v found u s = Ret (r, s') ->
  ok (SKey key :: next) = true -> (fnil found = true -> unary_tail_free (SKey key :: next) = true) ->
  R found (SC (SKey key :: next) (cur s) (last_size s) (ign s) u v) (verbose s) r.
Proof.
  unfold execKeyNode. intros H Hok Hu.
  pose proof (ok_cons _ _ Hok) as [_ Hn].
  assert (Hun : fnil found = true -> unary_tail_free next = true) by (intros F; eapply utf_next; eauto).
  assert (Hone : forall u v, SS (SKey key) (kont L C quirks_code next (cur s)) (cur s) (last_size s) (ign s) u v
                             = unwrap_over u v (key_one key (ign s) (kont L C quirks_code next (cur s) (last_size s) (ign s)))).
  { intros. apply sem_step_key. }
  destruct v;
    try (rewrite sem_chain_cons, Hone, unwrap_over_nonarr by reflexivity; cbn [key_one];
         eapply structural_R; exact H).
  - destruct u.
    + eapply unwrap_target_ok; eauto.
    + rewrite sem_chain_cons, Hone, unwrap_over_false. cbn [key_one]. eapply structural_R; exact H.
  - rewrite sem_chain_cons, Hone, unwrap_over_nonarr by reflexivity. cbn [key_one].
    destruct (lookup key l) as [val|].
    + eapply executeNextItem_ok; eauto.
    + unfold structural. destruct (ign s) eqn:IG; cbn [negb] in H.
      * ret. apply R_notfound.
      * destruct (verbose s) eqn:VB; cbn [negb] in H; ret; apply R_fail_gen; reflexivity.
Qed.

Lemma execAnyKey_ok next v found u s r s' :
  execAnyKey L E self (SConst CAnyKey :: next) next v found u s = Ret (r, s') ->
  ok (SConst CAnyKey :: next) = true ->
  (fnil found = true -> unary_tail_free (SConst CAnyKey :: next) = true) ->
  R found (SC (SConst CAnyKey :: next) (cur s) (last_size s) (ign s) u v) (verbose s) r.
Proof.
  unfold execAnyKey. intros H Hok Hu.
  pose proof (ok_cons _ _ Hok) as [_ Hn].
  assert (Hun : fnil found = true -> unary_tail_free next = true) by (intros F; eapply utf_next; eauto).
  assert (Hone : forall u v, SS (SConst CAnyKey) (kont L C quirks_code next (cur s)) (cur s) (last_size s) (ign s) u v
                             = unwrap_over u v (anykey_one (ign s) (kont L C quirks_code next (cur s) (last_size s) (ign s)))).
  { intros. apply sem_step_anykey. }
  destruct v;
    try (rewrite sem_chain_cons, Hone, unwrap_over_nonarr by reflexivity; cbn [anykey_one];
         eapply structural_R; exact H).
  - destruct u.
    + eapply unwrap_target_ok; eauto.
    + rewrite sem_chain_cons, Hone, unwrap_over_false. cbn [anykey_one]. eapply structural_R; exact H.
  - rewrite sem_chain_cons, Hone, unwrap_over_nonarr by reflexivity. cbn [anykey_one].
    apply callAny_ok in H; auto. rewrite descend_flat, Hmc in H. cbn [orb] in H. exact H.
Qed.

Lemma execAnyArray_ok next v found u s r s' :
  execAnyArray E self next v found s = Ret (r, s') ->
  ok next = true -> (fnil found = true -> unary_tail_free next = true) ->
  R found (SC (SConst CAnyArray :: next) (cur s) (last_size s) (ign s) u v) (verbose s) r.
Proof.
  unfold execAnyArray, lax. intros H Hok Hu.
  rewrite sem_chain_cons, sem_step_anyarray, laxm_eq.
  assert (NA : forall r s', (if lx then executeNextItem E self next v found s
                  else if negb (ign s)
                       then returnVerboseError (EVerbose "jsonpath wildcard array accessor can only be applied to an array") found s
                       else Ret (mkr SNotFound None found, s)) = Ret (r, s') ->
               R found (if lx then kont L C quirks_code next (cur s) (last_size s) (ign s) v
                        else structural (ign s) "jsonpath wildcard array accessor can only be applied to an array")
                 (verbose s) r).
  { clear H. intros r0 s0 H. destruct (e_lax E) eqn:LX.
    - eapply executeNextItem_ok in H; eauto.
    - eapply structural_R; exact H. }
  destruct v; try (apply NA in H; exact H).
  apply callAny_ok in H; auto. rewrite descend_flat in H. cbn [orb] in H. exact H.
Qed.

Lemma execLastConst_ok next found s r s' :
  execLastConst E self next found s = Ret (r, s') ->
  ok next = true -> (fnil found = true -> unary_tail_free next = true) ->
  R found (if last_size s <? 0 then tfail (EExec "evaluating jsonpath LAST outside of array subscript")
           else SC next (cur s) (last_size s) (ign s) lx (JNum (NInt (last_size s - 1)))) (verbose s) r.
Proof.
  unfold execLastConst. intros H Hok Hu.
  destruct (last_size s <? 0).
  - ret. apply R_hardfail; reflexivity.
  - destruct (cnil next && fnil found) eqn:EX.
    + ret. apply andb_true_iff in EX. destruct EX as [X1 X2].
      destruct next; [|discriminate]. destruct found; [discriminate|].
      rewrite sem_chain_nil. eapply R_early. reflexivity.
    + eapply executeNextItem_ok; eauto.
Qed.

Lemma execConstNode_ok k next v found u s r s' :
  execConstNode L E self k (SConst k :: next) next v found u s = Ret (r, s') ->
  ok (SConst k :: next) = true -> (fnil found = true -> unary_tail_free (SConst k :: next) = true) ->
  R found (SC (SConst k :: next) (cur s) (last_size s) (ign s) u v) (verbose s) r.
Proof.
  intros H Hok Hu.
  pose proof (ok_cons _ _ Hok) as [_ Hn].
  assert (Hun : fnil found = true -> unary_tail_free next = true) by (intros F; eapply utf_next; eauto).
  destruct k; cbn [execConstNode] in H.
  - (* root *)
    rewrite sem_chain_cons, sem_step_root.
    bind_inv H r1 s1 H1. ret. eapply executeNextItem_ok in H1; eauto.
  - rewrite sem_chain_cons, sem_step_current. eapply executeNextItem_ok in H; eauto.
  - rewrite sem_chain_cons, sem_step_last. eapply execLastConst_ok in H; eauto.
  - eapply execAnyArray_ok; eauto.
  - eapply execAnyKey_ok; eauto.
  - rewrite sem_chain_cons, sem_step_true. eapply execLiteral_ok in H; eauto.
  - rewrite sem_chain_cons, sem_step_false. eapply execLiteral_ok in H; eauto.
  - rewrite sem_chain_cons, sem_step_null. eapply execLiteral_ok in H; eauto.
Qed.

(* ---------- op.go: .** ---------- *)
Lemma execAnyNode_ok first last next v found u s r s' :
  execAnyNode L E self first last next v found s = Ret (r, s') ->
  ok next = true -> (fnil found = true -> unary_tail_free next = true) ->
  R found (SC (SAny first last :: next) (cur s) (last_size s) (ign s) u v) (verbose s) r.
Proof.
  unfold execAnyNode. intros H Hok Hu.
  rewrite sem_chain_cons, sem_step_any.
  set (k := kont L C quirks_code next (cur s) (last_size s) true).
  bind_inv H x s1 HA. destruct x as [r0 stop].
  assert (A : R found (if first =? 0 then k v else tnil) (verbose s) r0 /\
              cur s1 = cur s /\ last_size s1 = last_size s /\ verbose s1 = verbose s /\
              stop = exit_now r0 found).
  { destruct (first =? 0).
    - bind_inv HA r0' s1' HA1. ret.
      pose proof (executeNextItem_ctx _ _ _ _ _ _ HA1) as K.
      eapply executeNextItem_ok in HA1; eauto. cbn [cur last_size ign verbose set_ign] in HA1.
      split; [exact HA1|]. destruct K as [K1 [K2 [K3 K4]]]. cbn [cur last_size ign verbose set_ign] in *. auto.
    - ret. split; [apply R_notfound|]. auto. }
  destruct A as [A [C1 [C2 [C3 X]]]]. subst stop.
  destruct (exit_now r0 found) eqn:EX.
  - ret. apply R_exit; assumption.
  - eapply R_cont; [exact A|exact EX|].
    pose proof (R_fnil _ _ _ _ A) as F0.
    assert (CO : forall r s', (do (r', s2) <- callAny self next (collection L v) (r_found r0) 1 first last true (lax E) s1;
                     Ret (r', if first =? 0 then set_ign s2 (ign s) else s2)) = Ret (r, s') ->
                 R (r_found r0) (descend k (children v) 1 first last) (verbose s) r).
    { clear H. intros r1 s2 H. bind_inv H r' s2' HC. ret.
      apply callAny_ok in HC; auto; [|rewrite F0; exact Hu].
      cbn [orb] in HC. rewrite C1, C2, C3, collection_children in HC. exact HC. }
    destruct v; cbn [Sem.isCollection]; try (ret; apply R_notfound); eapply CO; exact H.
Qed.

(* ---------- array.go ---------- *)
Lemma getArrayIndex_ok n v s x s' :
  getArrayIndex L E self n v s = Ret (x, s') ->
  n <> [] -> ok n = true ->
  zsim x (index_of L (SC n (cur s) (last_size s) (ign s) lx v)) /\ ctx s s'.
Proof.
  unfold getArrayIndex, executeItem, lax. intros H Hne Hok.
  bind_inv H r s1 H1.
  pose proof (callItem_ctx _ _ _ _ _ _ _ H1) as K.
  apply callItem_ok in H1; auto; [|discriminate].
  destruct H1 as [F S0]. cbn [app] in F. unfold index_of.
  destruct (snd (SC n (cur s) (last_size s) (ign s) lx v)) as [e|].
  - destruct S0 as [S1 S2]. rewrite S1 in H. cbn [st_failed] in H.
    destruct (r_err r) as [e0|]; ret; (split; [|exact K]); cbn [zsim].
    + cbn in S2. unfold vis in S2. destruct (is_verbose e && negb (verbose s)); congruence.
    + cbn in S2. unfold vis in S2. destruct (is_verbose e) eqn:V; cbn [andb] in S2; [|discriminate].
      destruct e; try discriminate V. reflexivity.
  - destruct S0 as [S1 S2].
    destruct (st_failed (r_st r)) eqn:SF; [destruct (r_st r); try discriminate; congruence|].
    rewrite F in H.
    destruct (fst (SC n (cur s) (last_size s) (ign s) lx v)) as [|y [|y' l]]; ret;
      (split; [apply zsim_refl|exact K]).
Qed.

Lemma execSubscript_ok sub v size s b s' :
  execSubscript L E self sub v size s = Ret (b, s') ->
  ne_sub sub = true -> all_sub side1 sub = true -> last_size s = size ->
  zsim b (sub_range L C quirks_code sub (cur s) (last_size s) (ign s) v) /\ ctx s s'.
Proof.
  unfold execSubscript, sub_range. intros H Hne Hok Hz.
  destruct sub as [a bo]. cbn [fst snd] in *. unfold ne_sub, all_sub in *. cbn [fst snd] in *.
  andb_split.
  bind_inv H fr s1 HG1. apply getArrayIndex_ok in HG1; auto; [|apply cnil_ne; assumption].
  destruct HG1 as [Z1 K1]. rewrite laxm_eq.
  destruct fr as [indexFrom|e];
    destruct (index_of L (SC a (cur s) (last_size s) (ign s) lx v)) as [from|e']; cbn [zsim] in Z1; try contradiction.
  2:{ ret. split; [exact Z1|exact K1]. }
  subst from.
  bind_inv H tr s2 HG2.
  assert (B : zsim tr (match bo with
                       | Some bn => index_of L (SC bn (cur s) (last_size s) (ign s) lx v)
                       | None => inl indexFrom
                       end) /\ ctx s s2).
  { destruct bo as [bn|].
    - apply getArrayIndex_ok in HG2; auto; [|apply cnil_ne; assumption].
      destruct HG2 as [Z2 K2]. destruct K1 as [A1 [A2 [A3 A4]]]. rewrite A1, A2, A3 in Z2.
      split; [exact Z2|ctx_solve].
    - ret. split; [reflexivity|exact K1]. }
  destruct B as [Z2 K2].
  destruct tr as [indexTo|e];
    destruct (match bo with
              | Some bn => index_of L (SC bn (cur s) (last_size s) (ign s) lx v)
              | None => inl indexFrom
              end) as [to|e']; cbn [zsim] in Z2; try contradiction.
  2:{ ret. split; [exact Z2|exact K2]. }
  subst to.
  assert (IG : ign s2 = ign s) by apply K2. rewrite IG, <- Hz in H.
  destruct (negb (ign s) && ((indexFrom <? 0) || (indexFrom >? indexTo) || (indexTo >=? last_size s)));
    ret; (split; [reflexivity|exact K2]).
Qed.

Lemma indexLoop_cons next v rest res s :
  indexLoop E self next (v :: rest) res s =
  if is_null v then indexLoop E self next rest res s
  else
    let found := r_found res in
    if cnil next && fnil found then Ret (mkr SOK None found, true, s)
    else
      do (r, s1) <- executeNextItem E self next v found s;
      if exit_now r found then Ret (r, true, s1)
      else indexLoop E self next rest r s1.
Proof. destruct v; reflexivity. Qed.

Lemma indexLoop_ok next :
  ok next = true ->
  forall els res s r stop s',
  indexLoop E self next els res s = Ret (r, stop, s') ->
  r_err res = None -> r_st res <> SFailed -> (fnil (r_found res) = true -> r_st res = SNotFound) ->
  (fnil (r_found res) = true -> unary_tail_free next = true) ->
  R (r_found res)
    (tbind_list els (fun x => if is_null x then tnil else SC next (cur s) (last_size s) (ign s) lx x))
    (verbose s) r /\ ctx s s' /\ stop = exit_now r (r_found res).
Proof.
  intros Hok. induction els as [|v rest IH]; intros res s r stop s' H Er Sr Nr Ur.
  - cbn [indexLoop] in H. ret. cbn [tbind_list].
    split; [apply R_same; auto|]. split; [apply ctx_refl|]. symmetry. apply exit_now_res; auto.
  - rewrite indexLoop_cons in H. cbn [tbind_list].
    destruct (is_null v).
    + rewrite tapp_nil_l. apply IH; auto.
    + cbn zeta in H. destruct (cnil next && fnil (r_found res)) eqn:EX.
      * ret. apply andb_true_iff in EX. destruct EX as [X1 X2].
        destruct next; [|discriminate]. destruct (r_found res); [discriminate|].
        rewrite sem_chain_nil. split; [|split; [apply ctx_refl|reflexivity]].
        eapply R_early. reflexivity.
      * bind_inv H r1 s1 H1.
        pose proof (executeNextItem_ctx _ _ _ _ _ _ H1) as K.
        eapply executeNextItem_ok in H1; eauto.
        destruct (exit_now r1 (r_found res)) eqn:X.
        -- ret. split; [apply R_exit; assumption|]. split; [exact K|]. symmetry; exact X.
        -- pose proof (R_noexit _ _ _ _ H1 X) as [Er1 [Sr1 [N1 _]]].
           pose proof (R_fnil _ _ _ _ H1) as F1.
           apply IH in H; auto; [|rewrite F1; exact N1|rewrite F1; exact Ur].
           destruct H as [H [K' X']].
           destruct K as [K1 [K2 [K3 K4]]]. rewrite K1, K2, K3, K4 in H.
           split; [eapply R_cont; eauto|]. split; [ctx_solve|].
           rewrite X'. apply exit_now_fnil. exact F1.
Qed.

Lemma slice_eq arr f t : Exec.slice arr f t = Sem.slice arr f t.
Proof. reflexivity. Qed.

Lemma subsLoop_ok next v arr size :
  ok next = true ->
  forall subs res s r s',
  subsLoop L E self subs next v arr size res s = Ret (r, s') ->
  last_size s = size ->
  all_subs side1 subs = true -> forallb ne_sub subs = true ->
  r_err res = None -> r_st res <> SFailed -> (fnil (r_found res) = true -> r_st res = SNotFound) ->
  (fnil (r_found res) = true -> unary_tail_free next = true) ->
  R (r_found res)
    (sem_subs L C quirks_code (kont L C quirks_code next (cur s)) (cur s) (ign s) v arr (last_size s) subs)
    (verbose s) r.
Proof.
  intros Hok. induction subs as [|sub rest IH]; intros res s r s' H Hz Hs Hne Er Sr Nr Ur.
  - cbn [subsLoop] in H. ret. cbn [sem_subs]. apply R_same; auto.
  - cbn [subsLoop] in H. rewrite sem_subs_cons.
    cbn [all_subs forallb] in Hs, Hne. andb_split.
    bind_inv H b s1 HG1. apply execSubscript_ok in HG1; auto. destruct HG1 as [Z1 K1].
    destruct b as [[from to]|e];
      destruct (sub_range L C quirks_code sub (cur s) (last_size s) (ign s) v) as [[f t]|e'];
      cbn [zsim] in Z1; try contradiction.
    + injection Z1 as -> ->.
      bind_inv H x s2 HG2. destruct x as [r1 stop].
      apply indexLoop_ok in HG2; auto. destruct HG2 as [A [K2 X]].
      destruct K1 as [A1 [A2 [A3 A4]]]. rewrite A1, A2, A3, A4 in A.
      cbn [q_skip_null quirks_code]. rewrite tbind_filter_null, <- slice_eq.
      subst stop. destruct (exit_now r1 (r_found res)) eqn:X.
      * ret. apply R_exit; assumption.
      * pose proof (R_noexit _ _ _ _ A X) as [Er1 [Sr1 [N1 _]]].
        pose proof (R_fnil _ _ _ _ A) as F1.
        eapply R_cont; [exact A|exact X|].
        apply IH in H; auto; [| |rewrite F1; exact N1|rewrite F1; exact Ur].
        -- destruct K2 as [B1 [B2 [B3 B4]]]. rewrite B1, B2, B3, B4, A1, A2, A3, A4 in H. exact H.
        -- destruct K2 as [B1 [B2 [B3 B4]]]. congruence.
    + destruct K1 as [A1 [A2 [A3 A4]]].
      eapply returnError_R in H; eauto. rewrite A4 in H. exact H.
Qed.

Lemma execArrayIndex_ok subs next v found u s r s' :
  execArrayIndex L E self subs next v found s = Ret (r, s') ->
  ok (SIndex subs :: next) = true -> (fnil found = true -> unary_tail_free next = true) ->
  R found (SC (SIndex subs :: next) (cur s) (last_size s) (ign s) u v) (verbose s) r.
Proof.
  unfold execArrayIndex, lax. intros H Hok Hu.
  apply ok_cons in Hok. destruct Hok as [Hs Hn]. apply side_index in Hs. destruct Hs as [Hs Hne].
  rewrite sem_chain_cons, sem_step_index, laxm_eq.
  assert (GO : forall arr r s',
             (do (r0, s1) <- subsLoop L E self subs next v arr (Z.of_nat (List.length arr))
                               (mkr SNotFound None found) (set_last_size s (Z.of_nat (List.length arr)));
              Ret (r0, set_last_size s1 (last_size s))) = Ret (r, s') ->
             R found (sem_subs L C quirks_code (kont L C quirks_code next (cur s)) (cur s) (ign s) v arr
                        (Z.of_nat (List.length arr)) subs) (verbose s) r).
  { clear H. intros arr r0 s0 H. bind_inv H r1 s1 H1. ret.
    eapply subsLoop_ok in H1; auto; cbn [r_found r_err r_st]; try congruence. }
  destruct v; try (destruct (e_lax E); [eapply GO; exact H|eapply returnVerboseError_R; eauto]).
  eapply GO; exact H.
Qed.

(* ---------- math.go ---------- *)
Lemma R_ok_early t t2 vb r1 :
  R None t vb r1 -> st_ok (r_st r1) = true -> R None (tapp t t2) vb (mkr SOK None (r_found r1)).
Proof.
  unfold R, tapp. destruct t as [a f], t2 as [a2 f2]. cbn [fst snd]. intros [F S0] SO.
  destruct a as [|x a].
  - destruct f; destruct S0 as [S0 _]; rewrite S0 in SO; discriminate.
  - destruct f; cbn; auto.
Qed.

Lemma unaryLoop_ok minus next :
  ok next = true ->
  forall seq found res s r s',
  unaryLoop L E self minus next seq found res s = Ret (r, s') ->
  (fnil found = true -> next <> [] /\ unary_tail_free next = true) ->
  res <> SFailed -> (fnil found = true -> res = SNotFound) ->
  R found (tbind_list seq (unary_one L minus (fun y => SC next (cur s) (last_size s) (ign s) lx y)))
    (verbose s) r.
Proof.
  intros Hok. induction seq as [|v rest IH]; intros found res s r s' H Hu Sr Nr.
  - cbn [unaryLoop] in H. ret. cbn [tbind_list]. apply R_same; auto.
  - cbn [unaryLoop] in H. cbn [tbind_list].
    assert (EARLY : fnil found && cnil next = false).
    { destruct (fnil found) eqn:FN; [|reflexivity]. destruct (Hu eq_refl) as [Hn _].
      destruct next; [congruence|reflexivity]. }
    rewrite EARLY in H.
    set (k := fun y => SC next (cur s) (last_size s) (ign s) lx y) in *.
    assert (STEP : forall val r s',
      (do (r1, s1) <- executeNextItem E self next val found s;
       if st_failed (r_st r1) then Ret (r1, s1)
       else if st_ok (r_st r1) then
         if fnil found then Ret (mkr SOK None (r_found r1), s1)
         else unaryLoop L E self minus next rest (r_found r1) SOK s1
       else unaryLoop L E self minus next rest (r_found r1) res s1) = Ret (r, s') ->
      R found (tapp (k val) (tbind_list rest (unary_one L minus k))) (verbose s) r).
    { clear H. intros val r0 s0 H. bind_inv H r1 s1 H1.
      pose proof (executeNextItem_ctx _ _ _ _ _ _ H1) as K.
      eapply executeNextItem_ok in H1; eauto; [|intros F; apply Hu; exact F].
      pose proof (R_fnil _ _ _ _ H1) as F1.
      destruct K as [K1 [K2 [K3 K4]]].
      destruct (st_failed (r_st r1)) eqn:SF.
      - ret. apply R_exit; [exact H1|]. unfold exit_now. rewrite SF. reflexivity.
      - destruct (st_ok (r_st r1)) eqn:SO.
        + destruct (fnil found) eqn:FN.
          * ret. destruct found; [discriminate|]. apply R_ok_early; assumption.
          * eapply R_cont; [exact H1|unfold exit_now; rewrite SF, SO, FN; reflexivity|].
            apply IH in H; [|rewrite F1; discriminate|discriminate|rewrite F1; discriminate].
            rewrite K1, K2, K3, K4 in H. exact H.
        + eapply R_cont; [exact H1|unfold exit_now; rewrite SF, SO; reflexivity|].
          apply IH in H; [|rewrite F1; exact Hu|exact Sr|rewrite F1; exact Nr].
          rewrite K1, K2, K3, K4 in H. exact H. }
    assert (BAD : forall r s',
      returnVerboseError (EVerbose "operand of unary jsonpath operator is not a numeric value") found s = Ret (r, s') ->
      R found (tapp (tfail (EVerbose "operand of unary jsonpath operator is not a numeric value"))
                 (tbind_list rest (unary_one L minus k))) (verbose s) r).
    { intros r0 s0 H0. rewrite tapp_fail_l. eapply returnVerboseError_R; eauto. }
    destruct v; try (apply BAD in H; exact H).
    destruct n as [z|f|t].
    + apply STEP in H. cbn [unary_one]. destruct minus; exact H.
    + apply STEP in H. cbn [unary_one]. destruct minus; exact H.
    + cbn [unary_one].
      destruct (castJSONNumber L t (if minus then intUMinus else fun x => x) (if minus then fneg else fun x => x)) as [nn|].
      * apply STEP in H. exact H.
      * apply BAD in H. exact H.
Qed.

Lemma execUnaryMathExpr_ok (minus : bool) a next v found u s r s' :
  execUnaryMathExpr L E self minus a next v found s = Ret (r, s') ->
  ok (SUn (if minus then UMinus else UPlus) a :: next) = true ->
  (fnil found = true -> unary_tail_free (SUn (if minus then UMinus else UPlus) a :: next) = true) ->
  R found (SC (SUn (if minus then UMinus else UPlus) a :: next) (cur s) (last_size s) (ign s) u v) (verbose s) r.
Proof.
  unfold execUnaryMathExpr. intros H Hok Hu.
  apply ok_cons in Hok. destruct Hok as [Hs Hn]. apply side_un in Hs. destruct Hs as [Ha [Hne _]].
  assert (Hane : a <> []) by (apply cnil_ne; destruct minus; exact Hne).
  rewrite sem_chain_cons, sem_step_unary. cbn zeta. rewrite laxm_eq.
  bind_inv H r1 s1 H1. apply optUnwrap_ok in H1; auto. destruct H1 as [O K].
  unfold opR in O. cbn [andb] in O.
  destruct (snd (SC a (cur s) (last_size s) (ign s) lx v)) as [e|].
  - destruct O as [O1 O2]. rewrite O1 in H. cbn [st_failed] in H. ret. apply R_fail_gen. exact O2.
  - destruct O as [O1 [O2 O3]].
    destruct (st_failed (r_st r1)) eqn:SF; [destruct (r_st r1); try discriminate; congruence|].
    rewrite O3 in H.
    apply unaryLoop_ok in H; auto; try discriminate.
    + destruct K as [K1 [K2 [K3 K4]]]. rewrite K1, K2, K3, K4 in H. exact H.
    + intros F. specialize (Hu F). destruct next as [|y next'].
      * exfalso. unfold unary_tail_free in Hu. cbn in Hu. destruct minus; discriminate Hu.
      * split; [discriminate|]. eapply utf_next; eauto.
Qed.

Lemma execBinaryMathExpr_ok op l r0 next v found u s r s' :
  execBinaryMathExpr L E self op l r0 next v found s = Ret (r, s') ->
  Sem.is_bool_binop op = false ->
  ok (SBin op l r0 :: next) = true -> (fnil found = true -> unary_tail_free next = true) ->
  R found (SC (SBin op l r0 :: next) (cur s) (last_size s) (ign s) u v) (verbose s) r.
Proof.
  unfold execBinaryMathExpr. intros H Hop Hok Hu.
  apply ok_cons in Hok. destruct Hok as [Hs Hn]. apply side_bin in Hs. destruct Hs as [Hl [Hr Hne]].
  assert (Hlr : l <> [] /\ r0 <> []).
  { destruct op; try discriminate Hop; cbn in Hne; apply andb_true_iff in Hne; destruct Hne as [N1 N2];
      split; apply cnil_ne; assumption. }
  destruct Hlr as [Hlne Hrne].
  rewrite sem_chain_cons, sem_step_arith by exact Hop. unfold arith_sem. cbn zeta. rewrite laxm_eq.
  bind_inv H rl s1 H1. apply optUnwrap_ok in H1; auto. destruct H1 as [OL KL].
  unfold opR in OL. cbn [andb] in OL.
  destruct (snd (SC l (cur s) (last_size s) (ign s) lx v)) as [e|].
  { destruct OL as [O1 O2]. rewrite O1 in H. cbn [st_failed] in H. ret. apply R_fail_gen. exact O2. }
  destruct OL as [O1 [O2 O3]].
  destruct (st_failed (r_st rl)) eqn:SF; [destruct (r_st rl); try discriminate; congruence|].
  rewrite O3 in H.
  destruct KL as [K1 [K2 [K3 K4]]].
  destruct (if lx then unwrapSeq (fst (SC l (cur s) (last_size s) (ign s) lx v))
            else fst (SC l (cur s) (last_size s) (ign s) lx v)) as [|lv [|lv' ls]];
    try (rewrite <- K4; eapply returnVerboseError_R; [exact H|reflexivity|reflexivity]).
  bind_inv H rr s2 H2. apply optUnwrap_ok in H2; auto. destruct H2 as [OR KR].
  rewrite K1, K2, K3, K4 in OR. unfold opR in OR. cbn [andb] in OR.
  destruct (snd (SC r0 (cur s) (last_size s) (ign s) lx v)) as [e|].
  { destruct OR as [P1 P2]. rewrite P1 in H. cbn [st_failed] in H. ret. apply R_fail_gen. exact P2. }
  destruct OR as [P1 [P2 P3]].
  destruct (st_failed (r_st rr)) eqn:SF2; [destruct (r_st rr); try discriminate; congruence|].
  rewrite P3 in H.
  destruct KR as [J1 [J2 [J3 J4]]].
  assert (V2 : verbose s2 = verbose s) by congruence.
  destruct (if lx then unwrapSeq (fst (SC r0 (cur s) (last_size s) (ign s) lx v))
            else fst (SC r0 (cur s) (last_size s) (ign s) lx v)) as [|rv [|rv' rs]];
    try (rewrite <- V2; eapply returnVerboseError_R; [exact H|reflexivity|reflexivity]).
  destruct (execMathOp L lv rv op) as [n|e] eqn:MO.
  - destruct (cnil next && fnil found) eqn:EX.
    + ret. apply andb_true_iff in EX. destruct EX as [X1 X2].
      destruct next; [|discriminate]. destruct found; [discriminate|].
      unfold kont. rewrite sem_chain_nil. eapply R_early. reflexivity.
    + eapply executeNextItem_ok in H; eauto.
      assert (C2 : cur s2 = cur s) by congruence.
      assert (Z2 : last_size s2 = last_size s) by congruence.
      assert (I2 : ign s2 = ign s) by congruence.
      rewrite C2, Z2, I2, V2 in H. exact H.
  - rewrite <- V2. eapply returnVerboseError_R; [exact H| |reflexivity].
    eapply execMathOp_verbose; eauto.
Qed.

(* ---------- method.go: leaf steps ---------- *)
Lemma execLeaf_ok unwraps lf stp next v found u s r s' :
  execLeaf E self unwraps lf (stp :: next) next v found u s = Ret (r, s') ->
  (forall u v, SS stp (kont L C quirks_code next (cur s)) (cur s) (last_size s) (ign s) u v =
               if unwraps
               then unwrap_over u v (leaf_k lf (kont L C quirks_code next (cur s) (last_size s) (ign s)))
               else leaf_k lf (kont L C quirks_code next (cur s) (last_size s) (ign s)) v) ->
  ok (stp :: next) = true -> (fnil found = true -> unary_tail_free (stp :: next) = true) ->
  R found (SC (stp :: next) (cur s) (last_size s) (ign s) u v) (verbose s) r.
Proof.
  unfold execLeaf. intros H Hone Hok Hu.
  pose proof (ok_cons _ _ Hok) as [_ Hn].
  assert (Hun : fnil found = true -> unary_tail_free next = true) by (intros F; eapply utf_next; eauto).
  destruct (unwraps && u && is_array v) eqn:UA.
  - apply andb_true_iff in UA. destruct UA as [UA A3]. apply andb_true_iff in UA. destruct UA as [A1 A2].
    subst unwraps u. eapply unwrap_target_ok; eauto.
  - rewrite sem_chain_cons, Hone.
    assert (EQ : (if unwraps
                  then unwrap_over u v (leaf_k lf (kont L C quirks_code next (cur s) (last_size s) (ign s)))
                  else leaf_k lf (kont L C quirks_code next (cur s) (last_size s) (ign s)) v)
                 = leaf_k lf (kont L C quirks_code next (cur s) (last_size s) (ign s)) v).
    { destruct unwraps; [|reflexivity]. destruct u; [|apply unwrap_over_false].
      apply unwrap_over_nonarr. cbn [andb] in UA. exact UA. }
    rewrite EQ. unfold leaf_k.
    destruct (lf v) as [x|e].
    + eapply executeNextItem_ok in H; eauto.
    + eapply returnError_R; eauto.
Qed.

Lemma execMethodNode_ok m next v found u s r s' :
  execMethodNode L E self m (SMeth m :: next) next v found u s = Ret (r, s') ->
  ok (SMeth m :: next) = true -> (fnil found = true -> unary_tail_free (SMeth m :: next) = true) ->
  R found (SC (SMeth m :: next) (cur s) (last_size s) (ign s) u v) (verbose s) r.
Proof.
  unfold execMethodNode, lax. intros H Hok Hu.
  destruct (method_leaf L lx (ign s) m) as [[uw lf]|] eqn:ML.
  - eapply execLeaf_ok; eauto. intros u0 v0. apply sem_step_meth. exact ML.
  - apply ok_cons in Hok. destruct Hok as [Hs _]. apply side_meth in Hs.
    destruct m; try discriminate ML. congruence.
Qed.

(* ---------- op.go: filter ---------- *)
Lemma executeNestedBoolItem_ok a v s p s' :
  executeNestedBoolItem self a v s = Ret (p, s') -> ok a = true ->
  PR p (pred_chain L C quirks_code a v (last_size s) (ign s) v) /\ ctx s s'.
Proof.
  unfold executeNestedBoolItem. intros H Hok.
  bind_inv H p1 s1 H1. ret.
  pose proof (callBool_ctx _ _ _ _ _ _ H1) as K.
  apply callBool_ok in H1; auto. unfold pred_spec in H1. cbn [cur last_size ign set_cur] in H1.
  split; [exact H1|]. ctx_solve.
Qed.

Lemma execFilter_ok a next v found u s r s' :
  execUnaryNode L E self UFilter a (SUn UFilter a :: next) next v found u s = Ret (r, s') ->
  ok (SUn UFilter a :: next) = true ->
  (fnil found = true -> unary_tail_free (SUn UFilter a :: next) = true) ->
  R found (SC (SUn UFilter a :: next) (cur s) (last_size s) (ign s) u v) (verbose s) r.
Proof.
  cbn [execUnaryNode]. intros H Hok Hu.
  pose proof (ok_cons _ _ Hok) as [Hs Hn]. apply side_un in Hs. destruct Hs as [Ha _].
  assert (Hun : fnil found = true -> unary_tail_free next = true) by (intros F; eapply utf_next; eauto).
  assert (Hone : forall u v, SS (SUn UFilter a) (kont L C quirks_code next (cur s)) (cur s) (last_size s) (ign s) u v
                             = unwrap_over u v (filter_one L C quirks_code a (last_size s) (ign s)
                                                  (kont L C quirks_code next (cur s) (last_size s) (ign s)))).
  { intros. apply sem_step_filter. }
  destruct (u && is_array v) eqn:UA.
  - apply andb_true_iff in UA. destruct UA as [A1 A2]. subst u. eapply unwrap_target_ok; eauto.
  - rewrite sem_chain_cons, Hone.
    assert (EQ : forall one, unwrap_over u v one = one v).
    { intros one. destruct u; [|apply unwrap_over_false]. apply unwrap_over_nonarr. exact UA. }
    rewrite EQ. unfold filter_one.
    bind_inv H p s1 H1. apply executeNestedBoolItem_ok in H1; auto. destruct H1 as [[A B] K].
    pose proof (sem_pred_hard_all L C quirks_code a v (last_size s) (ign s) v) as HH.
    destruct (pred_chain L C quirks_code a v (last_size s) (ign s) v) as [po pe]. cbn [fst snd] in A, B, HH.
    destruct K as [K1 [K2 [K3 K4]]].
    destruct (p_err p) as [e|]; destruct pe as [e'|]; try discriminate B.
    + ret. destruct po; (apply R_hardfail; [apply HH; reflexivity|]; cbn in B; congruence).
    + rewrite A in H. destruct po; try (ret; apply R_notfound).
      eapply executeNextItem_ok in H; eauto. rewrite K1, K2, K3, K4 in H. exact H.
Qed.

(* ---------- op.go: dispatch ---------- *)
Lemma executeItemOptUnwrapTarget_ok n v found u s0 r s' :
  executeItemOptUnwrapTarget L E self n v found u s0 = Ret (r, s') ->
  n <> [] -> ok n = true -> (fnil found = true -> unary_tail_free n = true) ->
  R found (SC n (cur s0) (last_size s0) (ign s0) u v) (verbose s0) r.
Proof.
  unfold executeItemOptUnwrapTarget. intros H Hne Hok Hu.
  rewrite done_now_false in H.
  change (cur s0) with (cur (tick s0)); change (last_size s0) with (last_size (tick s0));
    change (ign s0) with (ign (tick s0)); change (verbose s0) with (verbose (tick s0)).
  generalize dependent (tick s0). clear s0. intros s H.
  destruct n as [|stp next]; [congruence|]. clear Hne.
  pose proof (ok_cons _ _ Hok) as [Hs Hn].
  assert (Hun : fnil found = true -> unary_tail_free next = true) by (intros F; eapply utf_next; eauto).
  destruct stp as [k|x|x|x|x|x|op l r0|op a|a pat flags|m|pp sc|op tmpl prec|f l0|subs].
  - eapply execConstNode_ok; eauto.
  - rewrite sem_chain_cons, sem_step_str. eapply execLiteral_ok in H; eauto.
  - rewrite sem_chain_cons, sem_step_integer. eapply execLiteral_ok in H; eauto.
  - rewrite sem_chain_cons, sem_step_numeric. eapply execLiteral_ok in H; eauto.
  - rewrite sem_chain_cons, sem_step_var. eapply execVariable_ok in H; eauto.
  - eapply execKeyNode_ok; eauto.
  - (* binary *)
    unfold execBinaryNode in H. rewrite is_bool_binop_eq in H.
    destruct (Sem.is_bool_binop op) eqn:BO.
    + rewrite sem_chain_cons, sem_step_boolbin by exact BO. eapply execBoolNode_ok in H; eauto.
    + eapply execBinaryMathExpr_ok; eauto.
  - (* unary *)
    destruct op.
    + rewrite sem_chain_cons, sem_step_boolun by reflexivity. cbn [execUnaryNode] in H.
      eapply execBoolNode_ok in H; eauto.
    + rewrite sem_chain_cons, sem_step_boolun by reflexivity. cbn [execUnaryNode] in H.
      eapply execBoolNode_ok in H; eauto.
    + rewrite sem_chain_cons, sem_step_boolun by reflexivity. cbn [execUnaryNode] in H.
      eapply execBoolNode_ok in H; eauto.
    + cbn [execUnaryNode] in H. eapply (execUnaryMathExpr_ok false); eauto.
    + cbn [execUnaryNode] in H. eapply (execUnaryMathExpr_ok true); eauto.
    + eapply execFilter_ok; eauto.
  - rewrite sem_chain_cons, sem_step_regex. eapply execBoolNode_ok in H; eauto.
  - eapply execMethodNode_ok; eauto.
  - eapply execLeaf_ok; eauto; intros u0 v0; apply sem_step_decimal.
  - eapply execLeaf_ok; eauto; intros u0 v0; apply sem_step_dt.
  - eapply execAnyNode_ok; eauto.
  - eapply execArrayIndex_ok; eauto.
Qed.

Theorem refine_body : refines (body L E self).
Proof.
  unfold refines. split; [|split].
  - intros n v found u s r s' H Hne Hok Hu. cbn [body] in H. bind_inv H x s1 H1. ret.
    eapply executeItemOptUnwrapTarget_ok; eauto.
  - intros n vs found level first last ignFlag un s r s' H Hok Hu. cbn [body] in H. bind_inv H x s1 H1. ret.
    eapply executeAnyItem_ok; eauto.
  - intros n v c s p s' H Hok. cbn [body] in H. bind_inv H x s1 H1. ret.
    eapply executeBoolItem_ok; eauto.
Qed.

End WithSelf.

(* the Frame lemma for [run] (proved in proofs/Invariants1.v; instantiated in
   proofs/RefineClosed.v) *)
Hypothesis Hframe : forall fuel r s a s', run L E fuel r s = Ret (a, s') -> frame s s'.

Theorem refine_run_core : forall fuel, refines (run L E fuel).
Proof.
  induction fuel as [|k IH].
  - split; [|split]; intros; discriminate.
  - pose proof (refine_body (run L E k) (Hframe k) IH) as [B1 [B2 B3]].
    split; [|split]; intros *; rewrite run_S; [apply B1|apply B2|apply B3].
Qed.

End Refinement.

(* ------------------------------------------------------------------ *)
(* The public statement                                                *)
(* ------------------------------------------------------------------ *)
Definition frame_law : Prop :=
  forall L E fuel r s a s', run L E fuel r s = Ret (a, s') -> frame s s'.

Lemma fnil_none (found : found_t) : fnil found = true <-> found = None.
Proof. destruct found; cbn; split; congruence. Qed.

Section Public.
Hypothesis Hframe : frame_law.
Variables (L : ExecLib) (E : env) (C : cenv).
Hypothesis Hag : agrees E C.
Hypothesis Hnc : e_cancel_at E = None.
Hypothesis Hmc : members_canon L.

Theorem refine_run_f : forall fuel,
  (forall n v found u s r s',
      run L E fuel (RItem n v found u) s = Ret (AItem r, s') ->
      n <> [] -> no_kv n = true -> exists_ok n = true -> ne_ops n = true ->
      (found = None -> unary_tail_free n = true) ->
      R found (sem_chain L C quirks_code n (cur s) (last_size s) (ign s) u v) (verbose s) r) /\
  (forall n vs found level first last ignFlag un s r s',
      run L E fuel (RAny n vs found level first last ignFlag un) s = Ret (AItem r, s') ->
      no_kv n = true -> exists_ok n = true -> ne_ops n = true ->
      (found = None -> unary_tail_free n = true) ->
      R found (descend (fun x => sem_chain L C quirks_code n (cur s) (last_size s) (ignFlag || ign s) un x)
                 vs level first last) (verbose s) r) /\
  (forall q next v c s p s',
      run L E fuel (RBool (q :: next) v c) s = Ret (ABool p, s') ->
      no_kv (q :: next) = true -> exists_ok (q :: next) = true -> ne_ops (q :: next) = true ->
      (c = false -> next = []) ->
      (p_out p, option_map eclass (p_err p)) =
      (fst (sem_pred L C quirks_code q (cur s) (last_size s) (ign s) v),
       option_map eclass (snd (sem_pred L C quirks_code q (cur s) (last_size s) (ign s) v)))).
Proof.
  intros fuel. rewrite (agrees_cenv_of _ _ Hag).
  pose proof (refine_run_core L E Hnc Hmc (Hframe L E) fuel) as [B1 [B2 B3]].
  split; [|split].
  - intros n v found u s r s' H Hne K1 K2 K3 Hu. eapply B1; eauto.
    + apply ok_intro; assumption.
    + intros F. apply Hu. apply fnil_none. exact F.
  - intros n vs found level first last ignFlag un s r s' H K1 K2 K3 Hu. eapply B2; eauto.
    + apply ok_intro; assumption.
    + intros F. apply Hu. apply fnil_none. exact F.
  - intros q next v c s p s' H K1 K2 K3 Hc.
    apply B3 in H; [|apply ok_intro; assumption].
    unfold pred_spec in H. destruct c.
    + destruct H as [A B]. rewrite A, B. reflexivity.
    + rewrite (Hc eq_refl) in H. cbn [pred_chain] in H. destruct H as [A B]. rewrite A, B. reflexivity.
Qed.
End Public.

(* ------------------------------------------------------------------ *)
(* Entry points                                                        *)
(* ------------------------------------------------------------------ *)
Definition apierr_sim (a b : apierr) : Prop :=
  match a, b with
  | AErr e, AErr e' => eclass e = eclass e'
  | ANull, ANull => True
  | _, _ => False
  end.
Definition qres_sim (a b : qres) : Prop :=
  match a, b with
  | QItems l, QItems l' => l = l'
  | QErr e, QErr e' => apierr_sim e e'
  | _, _ => False
  end.
Definition fres_sim (a b : fres) : Prop :=
  match a, b with
  | FItem x, FItem x' => x = x'
  | FErr e, FErr e' => apierr_sim e e'
  | _, _ => False
  end.
Definition bres_sim (a b : bres) : Prop :=
  match a, b with
  | BVal x, BVal x' => x = x'
  | BErr e, BErr e' => apierr_sim e e'
  | _, _ => False
  end.

Section Entry.
Hypothesis Hframe : frame_law.
Variables (L : ExecLib) (p : path) (doc : json) (o : opts).
Hypothesis Hnc : o_cancel_at o = None.
Hypothesis Hmc : members_canon L.
Hypothesis Hne : p_root p <> [].
Hypothesis Hkv : no_kv (p_root p) = true.
Hypothesis Hex : exists_ok (p_root p) = true.
Hypothesis Hno : ne_ops (p_root p) = true.

Let E := mkEnv p doc o.
Let t := sem_of L quirks_code p doc o.

Lemma sem_of_eq :
  t = sem_chain L (cenv_of E) quirks_code (p_root p) doc (-1) (p_lax p) (p_lax p) doc.
Proof. reflexivity. Qed.

Lemma run_root_R fuel found r s' :
  executeItem E (run L E fuel) (p_root p) doc found (newExec p doc o) = Ret (r, s') ->
  (found = None -> unary_tail_free (p_root p) = true) ->
  R found t (negb (o_silent o)) r.
Proof.
  unfold executeItem. intros H Hu. apply callItem_Ret in H.
  pose proof (refine_run_core L E Hnc Hmc (Hframe L E) fuel) as [B1 _].
  apply B1 in H; [exact H|exact Hne| |].
  - apply ok_intro; assumption.
  - intros F. apply Hu. apply fnil_none. exact F.
Qed.

(* the collecting entry points *)
Lemma query_collect fuel r s' :
  query L fuel p doc o (Some []) = Ret (r, s') -> R (Some []) t (negb (o_silent o)) r.
Proof.
  unfold query. cbn [fnil]. rewrite andb_false_r. intros H.
  eapply run_root_R; eauto. discriminate.
Qed.

Lemma vis_proj silent e :
  RefineDefs.vis (negb silent) e = option_map eclass (Proj.vis silent e).
Proof. unfold RefineDefs.vis, Proj.vis. rewrite negb_involutive. destruct (is_verbose e && silent); reflexivity. Qed.

Lemma collect_query_sim r :
  R (Some []) t (negb (o_silent o)) r ->
  qres_sim (match r_err r with
            | Some e => QErr (AErr e)
            | None => QItems (match r_found r with Some l => l | None => [] end)
            end) (p_query (o_silent o) t).
Proof.
  intros [F S0]. cbn [app] in F. unfold p_query.
  destruct (snd t) as [e|].
  - destruct S0 as [S1 S2]. rewrite vis_proj in S2.
    destruct (r_err r) as [e0|]; destruct (Proj.vis (o_silent o) e) as [e'|]; try discriminate S2.
    + cbn in S2. cbn. congruence.
    + rewrite F. reflexivity.
  - destruct S0 as [S1 S2]. rewrite S2, F. reflexivity.
Qed.

Theorem query_is_trace_f fuel q :
  Query L fuel p doc o = Ret q -> qres_sim q (p_query (o_silent o) t).
Proof.
  unfold Query. intros H. bind_inv H r s1 H1. apply query_collect in H1.
  apply collect_query_sim in H1.
  destruct (r_err r); injection H as <-; exact H1.
Qed.

Theorem first_is_trace_f fuel q :
  First L fuel p doc o = Ret q -> fres_sim q (p_first (o_silent o) t).
Proof.
  unfold First. intros H. bind_inv H r s1 H1. apply query_collect in H1.
  apply collect_query_sim in H1. unfold p_first.
  destruct (p_query (o_silent o) t) as [l|e'];
    destruct (r_err r) as [e|]; cbn [qres_sim] in H1; try contradiction; injection H as <-.
  - destruct (r_found r) as [l0|]; subst l; [destruct l0|]; reflexivity.
  - exact H1.
Qed.

Theorem match_is_trace_f fuel q :
  Match L fuel p doc o = Ret q -> bres_sim q (p_match (o_silent o) t).
Proof.
  unfold Match. intros H. bind_inv H r s1 H1. apply query_collect in H1.
  apply collect_query_sim in H1. unfold p_match.
  destruct (p_query (o_silent o) t) as [l|e'];
    destruct (r_err r) as [e|]; cbn [qres_sim] in H1; try contradiction.
  - destruct (r_found r) as [l0|]; subst l.
    + destruct l0 as [|x [|y l0]]; try destruct x; try (destruct (o_silent o); cbn [negb] in H);
        injection H as <-; cbn; auto.
    + destruct (o_silent o); cbn [negb] in H; injection H as <-; cbn; auto.
  - injection H as <-. exact H1.
Qed.

(* Exists *)
Theorem exists_is_trace_f fuel b :
  Exists L fuel p doc o = Ret b ->
  (p_lax p = true -> unary_tail_free (p_root p) = true) ->
  bres_sim b (p_exists (p_lax p) (o_silent o) t).
Proof.
  unfold Exists, query. cbn [fnil]. rewrite andb_true_r. intros H Hu.
  bind_inv H r s1 H1. unfold p_exists.
  destruct (p_lax p) eqn:LX; cbn [negb] in H1.
  - eapply run_root_R in H1; [|intros _; apply Hu; reflexivity].
    destruct H1 as [F S0].
    destruct (fst t) as [|x l].
    + destruct (snd t) as [e|]; destruct S0 as [S1 S2].
      * rewrite vis_proj in S2. rewrite S1 in H. cbn [st_failed] in H.
        destruct (r_err r) as [e0|]; destruct (Proj.vis (o_silent o) e) as [e'|]; try discriminate S2;
          injection H as <-; cbn; auto. cbn in S2. congruence.
      * rewrite S1, S2 in H. injection H as <-. reflexivity.
    + destruct S0 as [S1 S2]. rewrite S1, S2 in H. injection H as <-. reflexivity.
  - bind_inv H1 r0 s0 H0.
    eapply run_root_R in H0; [|discriminate].
    destruct H0 as [F S0]. cbn [app] in F.
    destruct (snd t) as [e|].
    + destruct S0 as [S1 S2]. rewrite vis_proj in S2. rewrite S1 in H1. cbn [st_failed] in H1. ret.
      cbn [r_err r_st st_failed] in H.
      destruct (r_err r0) as [e0|]; destruct (Proj.vis (o_silent o) e) as [e'|]; try discriminate S2;
        injection H as <-; cbn; auto. cbn in S2. congruence.
    + destruct S0 as [S1 S2].
      destruct (st_failed (r_st r0)) eqn:SF; [destruct (r_st r0); try discriminate; congruence|].
      rewrite F in H1. destruct (fst t); ret; cbn in H; injection H as <-; reflexivity.
Qed.

Theorem eom_is_trace_f fuel b :
  ExistsOrMatch L fuel p doc o = Ret b ->
  (p_pred p = false -> p_lax p = true -> unary_tail_free (p_root p) = true) ->
  bres_sim b (p_eom (p_lax p) (p_pred p) (o_silent o) t).
Proof.
  unfold ExistsOrMatch, p_eom. intros H Hu. destruct (p_pred p).
  - eapply match_is_trace_f; eauto.
  - eapply exists_is_trace_f; eauto.
Qed.

End Entry.
