(* PropGlue_MT.v — the few statements props/C16.v cites that are not in
   proofs/MethodProofs.v: the table of leaf functions behind the item methods
   (one reflexivity), and .keyvalue() on the executor model M when it is the
   last step of the path: one {id, key, value} object per key, in the order of
   the sorted key list, all with the id of the object they come from; the sort
   is a permutation of the keys and ascending for byte order; Query of
   $.keyvalue(), of $.m() and of $.decimal(p,s) computed from the leaf function;
   how Exec.execLeaf / returnError use a leaf result; two restatements with a
   definition unfolded (sem_step_keyvalue, numlaws_concrete_explicit);
   vm_compute witnesses.  Stdlib only, no axioms. *)
From Coq Require Import ZArith Bool List Lia String Sorting.Permutation Sorting.Sorted Floats.SpecFloat.
From SJ Require Import lib.Base lib.F64 lib.Strconv extract.Instance model.Json model.Ast model.ExecLib model.Leaf model.Exec
     spec.Sem proofs.SemBasics proofs.RunBasics proofs.CompareProofs proofs.RefineWitness proofs.LeafLaws.
Import ListNotations.
Local Open Scope string_scope.
Local Open Scope Z_scope.

(* which leaf function each method is (keyvalue has none) *)
Lemma method_leaf_table (L : ExecLib) (laxm ign : bool) :
  method_leaf L laxm ign MType = Some (false, leaf_type) /\
  method_leaf L laxm ign MSize = Some (false, leaf_size laxm ign) /\
  method_leaf L laxm ign MDouble = Some (true, leaf_double L) /\
  method_leaf L laxm ign MNumber = Some (true, leaf_number L None) /\
  method_leaf L laxm ign MInteger = Some (true, leaf_integer L) /\
  method_leaf L laxm ign MBigInt = Some (true, leaf_bigint L) /\
  method_leaf L laxm ign MBoolean = Some (true, leaf_boolean L) /\
  method_leaf L laxm ign MString = Some (true, leaf_string L) /\
  method_leaf L laxm ign MAbs = Some (true, leaf_numeric L intAbs fabs) /\
  method_leaf L laxm ign MFloor = Some (true, leaf_numeric L (fun x => x) (xl_floor L)) /\
  method_leaf L laxm ign MCeiling = Some (true, leaf_numeric L (fun x => x) (xl_ceil L)) /\
  method_leaf L laxm ign MKeyValue = None.
Proof. repeat split. Qed.

(* the .keyvalue() step of the specification, [keyvalue_one] unfolded *)
Lemma sem_step_keyvalue (L : ExecLib) (C : cenv) (Q : quirks) (k : Z -> bool -> json -> trace)
      (cur : json) (l : Z) (ig u : bool) (v : json) :
  sem_step L C Q (SMeth MKeyValue) k cur l ig u v =
  unwrap_over u v (fun x =>
    match x with
    | JObj _ members =>
        tbind_list
          (map (fun key => JObj 0 [("id", JNum (NInt kv_abstract_id)); ("key", JStr key);
                                   ("value", match lookup key members with Some y => y | None => JNull end)])
               (Sem.sort_keys (map fst members)))
          (k l ig)
    | _ => tfail (EVerbose ".keyvalue() can only be applied to an object")
    end).
Proof. exact (sem_step_meth L C Q MKeyValue k cur l ig u v). Qed.

(* LeafLaws.numlaws_concrete with the record StrconvTrusted spelled out *)
Lemma numlaws_concrete_explicit ctx re members :
  (forall f : f64, valid_binary 53 1024 f = true -> f_finite f = true ->
     parse_float (format_float_f f) = Some (f, false)) ->
  NumLaws (mk_lib ctx re members).
Proof. intros H. apply numlaws_concrete. constructor. exact H. Qed.

(* ---------- the key sort of keyvalue.go ---------- *)
Lemma insert_key_perm k l : Permutation (Exec.insert_key k l) (k :: l).
Proof.
  induction l as [|x r IH]; cbn [Exec.insert_key]; [reflexivity|].
  destruct (str_compare k x); try reflexivity.
  eapply perm_trans; [apply perm_skip, IH | apply perm_swap].
Qed.

Lemma sort_keys_perm l : Permutation (Exec.sort_keys l) l.
Proof.
  induction l as [|k r IH]; cbn [Exec.sort_keys fold_right]; [constructor|].
  eapply perm_trans; [apply insert_key_perm | apply perm_skip, IH].
Qed.

Lemma insert_key_sorted k l :
  Sorted (fun a b => str_compare a b <> Gt) l -> Sorted (fun a b => str_compare a b <> Gt) (Exec.insert_key k l).
Proof.
  induction l as [|x r IH]; cbn [Exec.insert_key]; intros Hs; [repeat constructor|].
  destruct (str_compare k x) eqn:E;
    try (constructor; [exact Hs | constructor; rewrite E; discriminate]).
  inversion Hs as [|? ? Hr Hh]; subst. constructor; [apply IH; exact Hr|].
  destruct r as [|y r']; cbn [Exec.insert_key].
  - constructor. rewrite str_compare_antisym, E. discriminate.
  - destruct (str_compare k y); constructor;
      try (rewrite str_compare_antisym, E; discriminate); inversion Hh; assumption.
Qed.

Lemma sort_keys_sorted l : Sorted (fun a b => str_compare a b <> Gt) (Exec.sort_keys l).
Proof.
  induction l as [|k r IH]; cbn [Exec.sort_keys fold_right]; [constructor|]. apply insert_key_sorted, IH.
Qed.

(* spec/Sem.v has its own copy of the sort; it is the same function *)
Lemma sort_keys_spec_model l : Sem.sort_keys l = Exec.sort_keys l.
Proof. reflexivity. Qed.

(* ---------- .keyvalue() as the last step ---------- *)
Section KV.
Variable E : env.
Variable self : req -> st -> outcome (ans * st).

Lemma kvLoop_last members id : forall keys res s acc,
  r_found res = Some acc ->
  exists r s' new,
    kvLoop E self keys members id [] res s = Ret (r, s') /\
    r_err r = None /\ r_found r = Some (acc ++ new)%list /\
    Forall2 (fun k x => exists tag,
               x = JObj tag [("id", JNum (NInt id)); ("key", JStr k);
                             ("value", match lookup k members with Some y => y | None => JNull end)])
            keys new.
Proof.
  induction keys as [|k rest IH]; intros res s acc Hf; cbn [kvLoop].
  - exists (mkr (r_st res) None (r_found res)), s, []. rewrite app_nil_r. repeat split; [exact Hf|constructor].
  - unfold executeNextItem, ret. rewrite Hf. cbn [bindo fappend r_st r_found st_failed st_ok fnil andb].
    match goal with |- context [kvLoop _ _ rest _ _ [] ?res1 ?s1] =>
      destruct (IH res1 s1 _ eq_refl) as (r & s' & new & H1 & H2 & H3 & H4) end.
    exists r, s'. eexists (_ :: new). split; [exact H1|]. split; [exact H2|].
    split; [rewrite H3, <- app_assoc; reflexivity|]. constructor; [eexists; reflexivity|exact H4].
Qed.

Lemma executeKeyValueMethod_last n t members acc u s :
  members <> [] ->
  exists r s' new,
    executeKeyValueMethod E self n [] (JObj t members) (Some acc) u s = Ret (r, s') /\
    r_err r = None /\ r_found r = Some (acc ++ new)%list /\
    Forall2 (fun k x => exists tag,
               x = JObj tag [("id", JNum (NInt (Z.abs (t - base_addr s) + base_id s * 10000000000)));
                             ("key", JStr k);
                             ("value", match lookup k members with Some y => y | None => JNull end)])
            (Exec.sort_keys (map fst members)) new.
Proof.
  intros Hne. unfold executeKeyValueMethod. destruct members as [|m ms]; [contradiction|].
  cbn [cnil fnil andb]. cbv zeta.
  edestruct (kvLoop_last (m :: ms) (offset_of s (JObj t (m :: ms)) + base_id s * tenTen)
               (Exec.sort_keys (map fst (m :: ms))) (mkr SOK None (Some acc)) s acc) as (r & s' & new & H1 & H2 & H3 & H4);
    [reflexivity|].
  rewrite H1. cbn [bindo]. exists r, (set_base s' (base_addr s) (base_id s)), new. repeat split; assumption.
Qed.
End KV.

(* Query of $.keyvalue() on a non-empty object (lax or strict, silent or not, any library) *)
Theorem query_keyvalue (L : ExecLib) (lx pr : bool) (t : Z) (members : list (string * json)) (o : opts) (fuel : nat) :
  o_cancel_at o = None -> members <> [] -> (2 <= fuel)%nat ->
  exists new,
    Query L fuel (mkpath lx pr [SConst CRoot; SMeth MKeyValue]) (JObj t members) o = Ret (QItems new) /\
    Forall2 (fun k x => exists tag,
               x = JObj tag [("id", JNum (NInt 0)); ("key", JStr k);
                             ("value", match lookup k members with Some y => y | None => JNull end)])
            (Exec.sort_keys (map fst members)) new.
Proof.
  intros Hc Hne Hfuel. destruct fuel as [|[|k]]; try lia.
  unfold Query, query. cbn [fnil andb negb p_lax p_root]. rewrite andb_false_r.
  unfold executeItem, callItem. rewrite run_S. unfold body at 1, executeItemOptUnwrapTarget at 1, done_now.
  cbn [mkEnv e_cancel_at]. rewrite Hc. cbv zeta. unfold execConstNode, executeNextItem, executeItem, callItem.
  rewrite run_S. unfold body at 1, executeItemOptUnwrapTarget at 1, done_now. cbn [mkEnv e_cancel_at]. rewrite Hc. cbv zeta.
  unfold execMethodNode. cbn [method_leaf e_root mkEnv].
  match goal with |- context [executeKeyValueMethod ?E ?sf ?n [] (JObj t members) (Some []) ?u ?s] =>
    destruct (executeKeyValueMethod_last E sf n t members [] u s Hne) as (r & s' & new & H1 & H2 & H3 & H4);
    rewrite H1 end.
  cbn [bindo]. rewrite H2, H3. exists new. split; [reflexivity|].
  cbn in H4. replace (Z.abs (t - t) + 0) with 0 in H4 by lia.
  exact H4.
Qed.

(* anything but an object (or, when unwrapping, an array) is rejected with a suppressible error *)
Lemma executeKeyValueMethod_rejects E self n next v found u :
  match v with JObj _ _ => False | JArr _ _ => u = false | _ => True end ->
  executeKeyValueMethod E self n next v found u =
  returnVerboseError (EVerbose ".keyvalue() can only be applied to an object") found.
Proof. destruct v; intros H; try contradiction; try reflexivity. cbn. rewrite H. reflexivity. Qed.

(* ---------- witnesses on the model (inert library L0, options o0 of RefineWitness) ---------- *)

(* $.keyvalue() on {"b":1, "a":{"c":2}} (the numbers 8, 16 stand for the addresses of the two maps):
   sorted key order, one id *)
Example kv_query_example :
  Query L0 10 (mkpath true false [SConst CRoot; SMeth MKeyValue])
        (JObj 8 [("b", JNum (NInt 1)); ("a", JObj 16 [("c", JNum (NInt 2))])]) (o0 false) =
  Ret (QItems [JObj 100 [("id", JNum (NInt 0)); ("key", JStr "a"); ("value", JObj 16 [("c", JNum (NInt 2))])];
               JObj 200 [("id", JNum (NInt 0)); ("key", JStr "b"); ("value", JNum (NInt 1))]]).
Proof. vm_compute. reflexivity. Qed.

(* $[*].keyvalue() on [{"a":1,"z":null}, {"b":2}]: ids equal within an object, distinct across objects *)
Example kv_two_objects_example :
  Query L0 10 (mkpath true false [SConst CRoot; SConst CAnyArray; SMeth MKeyValue])
        (JArr 8 [JObj 16 [("a", JNum (NInt 1)); ("z", JNull)]; JObj 40 [("b", JNum (NInt 2))]]) (o0 false) =
  Ret (QItems [JObj 100 [("id", JNum (NInt 8)); ("key", JStr "a"); ("value", JNum (NInt 1))];
               JObj 200 [("id", JNum (NInt 8)); ("key", JStr "z"); ("value", JNull)];
               JObj 400 [("id", JNum (NInt 32)); ("key", JStr "b"); ("value", JNum (NInt 2))]]).
Proof. vm_compute. reflexivity. Qed.

(* a non-object in strict mode; an empty object *)
Example kv_reject_example :
  Query L0 10 (mkpath false false [SConst CRoot; SMeth MKeyValue]) (JNum (NInt 1)) (o0 false) =
    Ret (QErr (AErr (EVerbose ".keyvalue() can only be applied to an object"))) /\
  Query L0 10 (mkpath false false [SConst CRoot; SMeth MKeyValue]) (JNum (NInt 1)) (o0 true) = Ret (QItems []) /\
  Query L0 10 (mkpath false false [SConst CRoot; SMeth MKeyValue]) (JObj 8 []) (o0 false) = Ret (QItems []).
Proof. vm_compute. repeat split; reflexivity. Qed.

(* Known finding KF-C16-keyvalue-generated-ids on the model: $.keyvalue().value.keyvalue().id on
   {"a":{"b":1}}; the two runs differ ONLY in the address (o_next_tag) given to the first object
   .keyvalue() allocates, and return different ids *)
Example kv_refuted_generated_ids :
  Query L0 10 (mkpath true false [SConst CRoot; SMeth MKeyValue; SKey "value"; SMeth MKeyValue; SKey "id"])
        (JObj 8 [("a", JObj 16 [("b", JNum (NInt 1))])]) (mkopts [] 0 false false None 100) =
    Ret (QItems [JNum (NInt 20000000084)]) /\
  Query L0 10 (mkpath true false [SConst CRoot; SMeth MKeyValue; SKey "value"; SMeth MKeyValue; SKey "id"])
        (JObj 8 [("a", JObj 16 [("b", JNum (NInt 1))])]) (mkopts [] 0 false false None 300) =
    Ret (QItems [JNum (NInt 20000000284)]).
Proof. vm_compute. split; reflexivity. Qed.

(* ---------- how the model uses a leaf function ---------- *)

(* a method step on an item that is not unwrapped: the leaf function decides; an item goes to the
   rest of the path, an error to returnError *)
Lemma execLeaf_item (E : env) self (unwraps : bool) (lf : json -> leaf) n next v found (unwrap : bool) :
  unwraps && unwrap && is_array v = false ->
  execLeaf E self unwraps lf n next v found unwrap =
  match lf v with
  | LItem x => executeNextItem E self next x found
  | LErr e => returnError e found
  end.
Proof. intros H. unfold execLeaf. rewrite H. reflexivity. Qed.

(* "suppressible": an ErrVerbose error is reported only when the executor is verbose (no WithSilent) *)
Lemma returnError_suppressible e found s :
  is_verbose e = true ->
  returnError e found s = Ret (mkr SFailed (if verbose s then Some e else None) found, s).
Proof. intros H. unfold returnError, ret. rewrite H, orb_false_r. destruct (verbose s); reflexivity. Qed.

(* Query of $.m() for a method with a leaf function, and of $.decimal(p,s): the leaf function's
   item, or its error unless it is suppressible and WithSilent is set (the document is not an
   array that the method unwraps) *)
Theorem query_method (L : ExecLib) (lx pr : bool) (m : meth) (doc : json) (o : opts) (fuel : nat)
        (unwraps : bool) (lf : json -> leaf) :
  o_cancel_at o = None -> (2 <= fuel)%nat ->
  method_leaf L lx lx m = Some (unwraps, lf) -> unwraps && lx && is_array doc = false ->
  Query L fuel (mkpath lx pr [SConst CRoot; SMeth m]) doc o =
  Ret (match lf doc with
       | LItem x => QItems [x]
       | LErr e => if negb (o_silent o) || negb (is_verbose e) then QErr (AErr e) else QItems []
       end).
Proof.
  intros Hc Hfuel Hm Hu. destruct fuel as [|[|k]]; try lia.
  unfold Query, query. cbn [fnil andb negb p_lax p_root]. rewrite andb_false_r.
  unfold executeItem, callItem. rewrite run_S. unfold body at 1, executeItemOptUnwrapTarget at 1, done_now.
  cbn [mkEnv e_cancel_at]. rewrite Hc. cbv zeta. unfold execConstNode, executeNextItem, executeItem, callItem.
  rewrite run_S. unfold body at 1, executeItemOptUnwrapTarget at 1, done_now. cbn [mkEnv e_cancel_at]. rewrite Hc. cbv zeta.
  unfold execMethodNode, lax. cbn [e_lax e_root ign tick set_base newExec mkEnv p_lax]. rewrite Hm.
  rewrite execLeaf_item by exact Hu.
  destruct (lf doc) as [x|e].
  - reflexivity.
  - unfold returnError, ret. cbn [verbose tick set_base newExec].
    destruct (negb (o_silent o) || negb (is_verbose e)); reflexivity.
Qed.

Theorem query_decimal (L : ExecLib) (lx pr : bool) (dp ds : option Z) (doc : json) (o : opts) (fuel : nat)
        :
  o_cancel_at o = None -> (2 <= fuel)%nat ->
  lx && is_array doc = false ->
  Query L fuel (mkpath lx pr [SConst CRoot; SDecimal dp ds]) doc o =
  Ret (match leaf_number L (Some (dp, ds)) doc with
       | LItem x => QItems [x]
       | LErr e => if negb (o_silent o) || negb (is_verbose e) then QErr (AErr e) else QItems []
       end).
Proof.
  intros Hc Hfuel Hu. destruct fuel as [|[|k]]; try lia.
  unfold Query, query. cbn [fnil andb negb p_lax p_root]. rewrite andb_false_r.
  unfold executeItem, callItem. rewrite run_S. unfold body at 1, executeItemOptUnwrapTarget at 1, done_now.
  cbn [mkEnv e_cancel_at]. rewrite Hc. cbv zeta. unfold execConstNode, executeNextItem, executeItem, callItem.
  rewrite run_S. unfold body at 1, executeItemOptUnwrapTarget at 1, done_now. cbn [mkEnv e_cancel_at]. rewrite Hc. cbv zeta.
  unfold lax. cbn [e_lax e_root ign tick set_base newExec mkEnv p_lax].
  rewrite execLeaf_item by exact Hu.
  destruct (leaf_number L (Some (dp, ds)) doc) as [x|e].
  - reflexivity.
  - unfold returnError, ret. cbn [verbose tick set_base newExec].
    destruct (negb (o_silent o) || negb (is_verbose e)); reflexivity.
Qed.

(* repaired finding b5726e7: the double 2^63 is outside int64 for .bigint() (concrete library lib0) *)
Example bigint_two63_rejected :
  bigint_out_of_range two63f = true /\ bigint_out_of_range mtwo63f = false /\
  leaf_bigint LeafLaws.lib0 (JNum (NFlt two63f)) = LErr (EVerbose ".bigint(): invalid for type bigint") /\
  leaf_bigint LeafLaws.lib0 (JNum (NFlt mtwo63f)) = LItem (JNum (NInt min_int64)).
Proof. vm_compute. repeat split; reflexivity. Qed.

Print Assumptions method_leaf_table.
Print Assumptions sort_keys_perm.
Print Assumptions sort_keys_sorted.
Print Assumptions kvLoop_last.
Print Assumptions executeKeyValueMethod_last.
Print Assumptions query_keyvalue.
Print Assumptions executeKeyValueMethod_rejects.
Print Assumptions kv_refuted_generated_ids.
Print Assumptions execLeaf_item.
Print Assumptions returnError_suppressible.
Print Assumptions bigint_two63_rejected.
Print Assumptions query_method.
Print Assumptions query_decimal.
Print Assumptions sem_step_keyvalue.
Print Assumptions numlaws_concrete_explicit.
Print Assumptions sort_keys_spec_model.
