(* FilterProofs.v — C10: filters.

   "The result of P ? (C) is the order-preserving subsequence of P's items
    (after one level of array unwrapping in lax mode) for which C evaluates to
    true with @ bound to the item; items for which C is false or unknown -
    including unknown caused by a suppressible error inside C - are dropped
    without aborting the query, and no item is altered or duplicated.  An item
    is kept exactly when C, rewritten as a predicate check expression over that
    item, yields true, and in strict mode consecutive filters (free of
    non-suppressible errors) equal one filter on their conjunction."

   Stdlib only, no axioms. *)
From Coq Require Import Floats.SpecFloat.
From SJ Require Import lib.Base model.Json model.Ast model.ExecLib model.Leaf spec.Sem proofs.SemBasics
     proofs.DescendProofs proofs.ComposeProofs.

(* order-preserving subsequence: nothing altered, nothing duplicated, nothing reordered *)
Inductive sublist {A} : list A -> list A -> Prop :=
| sub_nil l : sublist [] l
| sub_keep x l1 l2 : sublist l1 l2 -> sublist (x :: l1) (x :: l2)
| sub_skip x l1 l2 : sublist l1 l2 -> sublist l1 (x :: l2).

Lemma sublist_refl {A} (l : list A) : sublist l l.
Proof. induction l; constructor; assumption. Qed.

Lemma sublist_filter {A} (p : A -> bool) l : sublist (filter p l) l.
Proof. induction l as [|x r IH]; simpl; [constructor|]. destruct (p x); constructor; exact IH. Qed.

Lemma sublist_length {A} (l1 l2 : list A) : sublist l1 l2 -> (List.length l1 <= List.length l2)%nat.
Proof. induction 1; simpl; lia. Qed.

Lemma sublist_in {A} (l1 l2 : list A) x : sublist l1 l2 -> In x l1 -> In x l2.
Proof. induction 1; simpl; intros H'; [contradiction| |]; intuition. Qed.

Lemma sublist_app_l {A} (l1 l2 l3 : list A) : sublist l1 l2 -> sublist l1 (l2 ++ l3).
Proof. induction 1; simpl; constructor; assumption. Qed.

Definition is_ptrue (p : pout) : bool := match p with PTrue => true | _ => false end.

Section Filter.
Variable L : ExecLib.
Variable C : cenv.
Variable Q : quirks.
Notation sem_step := (sem_step L C Q).
Notation sem_pred := (sem_pred L C Q).
Notation sem_chain := (sem_chain L C Q).
Notation laxm := (laxm C).
Notation pred_chain := (pred_chain L C Q).
Notation predicate := (predicate L C Q).
Notation operand := (operand L C Q).

(* what the filter does with one candidate x: @ is bound to x *)
Definition filter_item (c : step) (l : Z) (ig : bool) (k : json -> trace) (x : json) : trace :=
  match sem_pred c x l ig x with
  | (_, Some e) => tfail e          (* a non-suppressible error inside C aborts *)
  | (PTrue, None) => k x            (* kept, unaltered *)
  | (_, None) => tnil               (* false or unknown: dropped *)
  end.

(* C10, general form *)
Theorem filter_spec c k cur l ig u v :
  sem_step (SUn UFilter [c]) k cur l ig u v =
  tbind_list (candidates u v) (filter_item c l ig (k l ig)).
Proof. rewrite sem_step_filter, unwrap_over_bind. reflexivity. Qed.

(* the candidates: one level of unwrapping in lax mode (u = laxm), never more *)
Lemma candidates_array t es : candidates true (JArr t es) = es.
Proof. reflexivity. Qed.
Lemma candidates_strict v : candidates false v = [v].
Proof. destruct v; reflexivity. Qed.
Lemma candidates_non_array u v : is_array v = false -> candidates u v = [v].
Proof. destruct v; intros H; try discriminate H; reflexivity. Qed.

(* the filter does not depend on the outer @ *)
Theorem filter_ignores_outer_cur c k cur cur' l ig u v :
  sem_step (SUn UFilter [c]) k cur l ig u v = sem_step (SUn UFilter [c]) k cur' l ig u v.
Proof. now rewrite !filter_spec. Qed.

(* hard-error-free conditions: the result is the filtered candidate list *)
Definition keeps (c : step) (l : Z) (ig : bool) (x : json) : bool := is_ptrue (fst (sem_pred c x l ig x)).

Theorem filter_no_hard_error c k cur l ig u v :
  (forall x, In x (candidates u v) -> snd (sem_pred c x l ig x) = None) ->
  sem_step (SUn UFilter [c]) k cur l ig u v =
  tbind_list (filter (keeps c l ig) (candidates u v)) (k l ig).
Proof.
  intros H. rewrite filter_spec. induction (candidates u v) as [|x r IH]; [reflexivity|].
  cbn [tbind_list filter]. rewrite IH by (intros; apply H; now right).
  unfold filter_item, keeps. specialize (H x (or_introl eq_refl)).
  destruct (sem_pred c x l ig x) as [p e]. cbn [snd fst] in *. subst e.
  destruct p; cbn [is_ptrue tbind_list]; now rewrite ?tapp_nil_l.
Qed.

Theorem filter_items c cur l ig u v :
  (forall x, In x (candidates u v) -> snd (sem_pred c x l ig x) = None) ->
  sem_step (SUn UFilter [c]) (fun _ _ x => tone x) cur l ig u v =
  (filter (keeps c l ig) (candidates u v), None).
Proof. intros H. rewrite filter_no_hard_error by exact H. apply tbind_tone. Qed.

(* false and unknown drop the item without aborting: no failure *)
Corollary filter_never_aborts c cur l ig u v :
  (forall x, In x (candidates u v) -> snd (sem_pred c x l ig x) = None) ->
  snd (sem_step (SUn UFilter [c]) (fun _ _ x => tone x) cur l ig u v) = None.
Proof. intros H. now rewrite filter_items. Qed.

(* order-preserving subsequence; no item altered or duplicated *)
Corollary filter_sublist c cur l ig u v :
  (forall x, In x (candidates u v) -> snd (sem_pred c x l ig x) = None) ->
  sublist (fst (sem_step (SUn UFilter [c]) (fun _ _ x => tone x) cur l ig u v)) (candidates u v).
Proof. intros H. rewrite filter_items by exact H. apply sublist_filter. Qed.

(* ... and even when a hard error aborts the query, what was returned before is
   such a subsequence, each item having made its condition true *)
Theorem filter_sublist_always c cur l ig u v :
  sublist (fst (sem_step (SUn UFilter [c]) (fun _ _ x => tone x) cur l ig u v)) (candidates u v) /\
  Forall (fun x => keeps c l ig x = true) (fst (sem_step (SUn UFilter [c]) (fun _ _ x => tone x) cur l ig u v)).
Proof.
  rewrite filter_spec. unfold filter_item.
  induction (candidates u v) as [|x r [IH1 IH2]]; [split; constructor|].
  cbn [tbind_list].
  destruct (sem_pred c x l ig x) as [[] [e|]] eqn:E;
    rewrite ?tapp_tfail, ?tapp_tone, ?tapp_nil_l; cbn [fst]; try (split; constructor; fail).
  - split; constructor; try assumption. unfold keeps. now rewrite E.
  - split; [now constructor | exact IH2].
  - split; [now constructor | exact IH2].
Qed.

(* an item is kept exactly when its condition is true *)
Theorem filter_keeps_iff c cur l ig u v y :
  (forall x, In x (candidates u v) -> snd (sem_pred c x l ig x) = None) ->
  In y (fst (sem_step (SUn UFilter [c]) (fun _ _ x => tone x) cur l ig u v)) <->
  In y (candidates u v) /\ sem_pred c y l ig y = (PTrue, None).
Proof.
  intros H. rewrite filter_items by exact H. cbn [fst]. rewrite filter_In. unfold keeps.
  split; intros [Hin Hk]; split; try exact Hin.
  - specialize (H y Hin). destruct (sem_pred c y l ig y) as [p e]. cbn [fst snd] in *. subst e.
    destruct p; try discriminate Hk. reflexivity.
  - now rewrite Hk.
Qed.

(* a condition chain that is not a single step is "should not happen" *)
Lemma filter_bad_condition a k cur l ig u v :
  (forall c, a <> [c]) -> candidates u v <> [] ->
  snd (sem_step (SUn UFilter a) k cur l ig u v) = Some (EInvalid "boolean jsonpath item").
Proof.
  intros Ha Hc. rewrite sem_step_filter, unwrap_over_bind.
  destruct (candidates u v) as [|x r]; [congruence|]. cbn [tbind_list]. unfold filter_one, SemBasics.pred_chain.
  destruct a as [|c [|c' a']]; try reflexivity. now elim (Ha c).
Qed.

(* ------------------------------------------------------------------ *)
(* a suppressible error inside C is "unknown" *)

Lemma hard_verbose e : is_verbose e = true -> hard e = None.
Proof. unfold hard. now intros ->. Qed.
Lemma hard_hard e : is_verbose e = false -> hard e = Some e.
Proof. unfold hard. now intros ->. Qed.

Lemma operand_fail c un cur l ig v e :
  snd (sem_chain c cur l ig laxm v) = Some e -> operand c un cur l ig v = inr (hard e).
Proof. unfold SemBasics.operand. cbv zeta. now intros ->. Qed.

Lemma operand_ok c un cur l ig v :
  snd (sem_chain c cur l ig laxm v) = None ->
  operand c un cur l ig v =
  inl (if un && laxm then unwrapSeq (fst (sem_chain c cur l ig laxm v)) else fst (sem_chain c cur l ig laxm v)).
Proof. unfold SemBasics.operand. cbv zeta. now intros ->. Qed.

(* the failure of the left operand decides *)
Lemma predicate_left_fail lc rc ur cb cur l ig v e :
  snd (sem_chain lc cur l ig laxm v) = Some e ->
  predicate lc rc ur cb cur l ig v = (PUnknown, hard e).
Proof. intros H. unfold SemBasics.predicate. now rewrite (operand_fail _ _ _ _ _ _ _ H). Qed.

Lemma predicate_right_fail lc rc ur cb cur l ig v e :
  snd (sem_chain lc cur l ig laxm v) = None ->
  snd (sem_chain rc cur l ig laxm v) = Some e ->
  predicate lc (Some rc) ur cb cur l ig v = (PUnknown, hard e).
Proof.
  intros Hl Hr. unfold SemBasics.predicate.
  now rewrite (operand_ok _ _ _ _ _ _ Hl), (operand_fail _ _ _ _ _ _ _ Hr).
Qed.

(* comparisons *)
Theorem cmp_suppressed_left op lc rc cur l ig v e :
  is_cmp op = true ->
  snd (sem_chain lc cur l ig laxm v) = Some e -> is_verbose e = true ->
  sem_pred (SBin op lc rc) cur l ig v = (PUnknown, None).
Proof.
  intros Hop H Hv. rewrite sem_pred_cmp by exact Hop.
  now rewrite (predicate_left_fail _ _ _ _ _ _ _ _ _ H), hard_verbose.
Qed.

Theorem cmp_suppressed_right op lc rc cur l ig v e :
  is_cmp op = true ->
  snd (sem_chain lc cur l ig laxm v) = None ->
  snd (sem_chain rc cur l ig laxm v) = Some e -> is_verbose e = true ->
  sem_pred (SBin op lc rc) cur l ig v = (PUnknown, None).
Proof.
  intros Hop Hl H Hv. rewrite sem_pred_cmp by exact Hop.
  now rewrite (predicate_right_fail _ _ _ _ _ _ _ _ _ Hl H), hard_verbose.
Qed.

(* ... whereas a non-suppressible one is passed on *)
Theorem cmp_hard_left op lc rc cur l ig v e :
  is_cmp op = true ->
  snd (sem_chain lc cur l ig laxm v) = Some e -> is_verbose e = false ->
  sem_pred (SBin op lc rc) cur l ig v = (PUnknown, Some e).
Proof.
  intros Hop H Hv. rewrite sem_pred_cmp by exact Hop.
  now rewrite (predicate_left_fail _ _ _ _ _ _ _ _ _ H), hard_hard.
Qed.

(* starts with *)
Theorem starts_suppressed_left lc rc cur l ig v e :
  snd (sem_chain lc cur l ig laxm v) = Some e -> is_verbose e = true ->
  sem_pred (SBin BStartsWith lc rc) cur l ig v = (PUnknown, None).
Proof.
  intros H Hv. rewrite sem_pred_starts.
  now rewrite (predicate_left_fail _ _ _ _ _ _ _ _ _ H), hard_verbose.
Qed.

Theorem starts_suppressed_right lc rc cur l ig v e :
  snd (sem_chain lc cur l ig laxm v) = None ->
  snd (sem_chain rc cur l ig laxm v) = Some e -> is_verbose e = true ->
  sem_pred (SBin BStartsWith lc rc) cur l ig v = (PUnknown, None).
Proof.
  intros Hl H Hv. rewrite sem_pred_starts.
  now rewrite (predicate_right_fail _ _ _ _ _ _ _ _ _ Hl H), hard_verbose.
Qed.

(* like_regex *)
Theorem regex_suppressed a pat flags cur l ig v e :
  snd (sem_chain a cur l ig laxm v) = Some e -> is_verbose e = true ->
  sem_pred (SRegex a pat flags) cur l ig v = (PUnknown, None).
Proof.
  intros H Hv. rewrite sem_pred_regex.
  now rewrite (predicate_left_fail _ _ _ _ _ _ _ _ _ H), hard_verbose.
Qed.

(* exists: strict mode needs the whole operand to evaluate; lax mode answers
   from the first item *)
Theorem exists_suppressed_strict a cur l ig v e :
  c_lax C = false ->
  snd (sem_chain a cur l ig laxm v) = Some e -> is_verbose e = true ->
  sem_pred (SUn UExists a) cur l ig v = (PUnknown, None).
Proof.
  intros Hs H Hv. rewrite sem_pred_exists. cbv zeta. unfold Sem.laxm in *. rewrite Hs in *.
  now rewrite H, hard_verbose.
Qed.

Theorem exists_suppressed_lax a cur l ig v e :
  c_lax C = true ->
  sem_chain a cur l ig laxm v = ([], Some e) -> is_verbose e = true ->
  sem_pred (SUn UExists a) cur l ig v = (PUnknown, None).
Proof.
  intros Hs H Hv. rewrite sem_pred_exists. cbv zeta. unfold Sem.laxm in *. rewrite Hs in *.
  rewrite H. cbn [fst snd]. now rewrite hard_verbose.
Qed.

Theorem exists_lax_first_item a cur l ig v x r e :
  c_lax C = true ->
  sem_chain a cur l ig laxm v = (x :: r, e) ->
  sem_pred (SUn UExists a) cur l ig v = (PTrue, None).
Proof.
  intros Hs H. rewrite sem_pred_exists. cbv zeta. unfold Sem.laxm in *. rewrite Hs in *.
  now rewrite H.
Qed.

(* an unknown condition drops the item; the query goes on *)
Theorem unknown_drops c k cur l ig u v pre x post :
  candidates u v = pre ++ x :: post ->
  sem_pred c x l ig x = (PUnknown, None) ->
  sem_step (SUn UFilter [c]) k cur l ig u v =
  tapp (tbind_list pre (filter_item c l ig (k l ig))) (tbind_list post (filter_item c l ig (k l ig))).
Proof.
  intros Hc Hp. rewrite filter_spec, Hc, tbind_app. cbn [tbind_list].
  unfold filter_item at 2. rewrite Hp. now rewrite tapp_nil_l.
Qed.

(* the whole picture for a filter on a comparison whose left operand fails
   with a suppressible error on every candidate: nothing is returned, nothing fails *)
Corollary filter_cmp_all_suppressed op lc rc k cur l ig u v :
  is_cmp op = true ->
  (forall x, In x (candidates u v) ->
     exists e, snd (sem_chain lc x l ig laxm x) = Some e /\ is_verbose e = true) ->
  sem_step (SUn UFilter [SBin op lc rc]) k cur l ig u v = tnil.
Proof.
  intros Hop H. rewrite filter_spec.
  rewrite (tbind_ext _ _ (fun _ => tnil)); [apply tbind_tnil|].
  intros x Hx. destruct (H x Hx) as [e [He Hv]]. unfold filter_item.
  now rewrite (cmp_suppressed_left op lc rc x l ig x e Hop He Hv).
Qed.

(* ------------------------------------------------------------------ *)
(* consecutive filters = one filter on the conjunction (strict mode) *)

Theorem filters_fuse c1 c2 rest cur l ig u v :
  c_lax C = false ->
  (forall x, In x (candidates u v) ->
     snd (sem_pred c1 x l ig x) = None /\ snd (sem_pred c2 x l ig x) = None) ->
  sem_chain (SUn UFilter [c1] :: SUn UFilter [c2] :: rest) cur l ig u v =
  sem_chain (SUn UFilter [SBin BAnd [c1] [c2]] :: rest) cur l ig u v.
Proof.
  intros Hs H. rewrite !sem_chain_cons with (s := SUn UFilter [c1]).
  rewrite sem_chain_cons with (s := SUn UFilter [SBin BAnd [c1] [c2]]).
  rewrite !filter_spec. apply tbind_ext. intros x Hx. destruct (H x Hx) as [H1 H2].
  unfold filter_item at 1 2. rewrite sem_pred_and. unfold SemBasics.pred_chain.
  destruct (sem_pred c1 x l ig x) as [p1 e1]. cbn [snd] in H1. subst e1.
  destruct (sem_pred c2 x l ig x) as [p2 e2] eqn:E2. cbn [snd] in H2. subst e2.
  destruct p1; try reflexivity.
  - (* c1 true: the second filter sees x itself (strict: no unwrapping) *)
    rewrite sem_chain_cons, filter_spec. unfold Sem.laxm. rewrite Hs, candidates_strict, tbind_single.
    unfold filter_item. rewrite E2. destruct p2; reflexivity.
  - destruct p2; reflexivity.
Qed.

Corollary filters_fuse_path c1 c2 cur l ig u v :
  c_lax C = false ->
  (forall x, In x (candidates u v) ->
     snd (sem_pred c1 x l ig x) = None /\ snd (sem_pred c2 x l ig x) = None) ->
  sem_chain [SUn UFilter [c1]; SUn UFilter [c2]] cur l ig u v =
  sem_chain [SUn UFilter [SBin BAnd [c1] [c2]]] cur l ig u v.
Proof. apply filters_fuse. Qed.

End Filter.

(* ------------------------------------------------------------------ *)
(* examples: hypotheses satisfiable; why "strict" and "free of hard errors" are needed *)

Definition fL : ExecLib :=
  mkExecLib (fun _ => None) (fun _ _ _ => None) (fun _ => ""%string) (fun _ => ""%string)
            (fun _ => S754_zero false) (fun _ => 0) (fun a _ => a) (fun a => a) (fun a => a) (fun a => a)
            (fun a => a) (fun _ => S754_zero false) (fun _ _ _ => false) (fun _ _ => None)
            (fun _ _ _ => CastInvalid) (fun _ _ _ => CmpInvalid) (fun _ => ""%string) (fun l => map snd l).

Definition fn_ (z : Z) : json := JNum (NInt z).
Definition gt0 : step := SBin BGt [SConst CCurrent] [SInteger 0].
Definition lt3 : step := SBin BLt [SConst CCurrent] [SInteger 3].
Definition fdoc : json := JArr 0 [fn_ 0; fn_ 1; fn_ 2; fn_ 3; fn_ 2].

(* $[*] ? (@ > 0) ? (@ < 3), strict: the subsequence 1 2 2, duplicates of the document preserved *)
Example ex_filter_strict :
  sem_path fL (mkcenv false fdoc [] false) quirks_ideal
    [SConst CRoot; SConst CAnyArray; SUn UFilter [gt0]; SUn UFilter [lt3]]
  = ([fn_ 1; fn_ 2; fn_ 2], None)
  /\ sem_path fL (mkcenv false fdoc [] false) quirks_ideal
    [SConst CRoot; SConst CAnyArray; SUn UFilter [SBin BAnd [gt0] [lt3]]]
  = ([fn_ 1; fn_ 2; fn_ 2], None).
Proof. vm_compute. split; reflexivity. Qed.

(* lax: the second of two consecutive filters unwraps the item the first one kept *)
Definition ldoc : json := JArr 0 [JArr 1 [fn_ 1; fn_ 2]].
Example ex_filter_lax_differs :
  sem_path fL (mkcenv true ldoc [] false) quirks_ideal
    [SConst CRoot; SUn UFilter [gt0]; SUn UFilter [lt3]]
  = ([fn_ 1; fn_ 2], None)
  /\ sem_path fL (mkcenv true ldoc [] false) quirks_ideal
    [SConst CRoot; SUn UFilter [SBin BAnd [gt0] [lt3]]]
  = ([JArr 1 [fn_ 1; fn_ 2]], None).
Proof. vm_compute. split; reflexivity. Qed.

(* a suppressible error inside the condition (strict: .a on a number) is unknown:
   the item is dropped and the query goes on *)
Definition odoc : json := JArr 0 [fn_ 1; JObj 1 [("a", fn_ 5)]%string; fn_ 2].
Example ex_suppressed :
  sem_path fL (mkcenv false odoc [] false) quirks_ideal
    [SConst CRoot; SConst CAnyArray; SUn UFilter [SBin BEq [SConst CCurrent; SKey "a"] [SInteger 5]]]
  = ([JObj 1 [("a", fn_ 5)]%string], None).
Proof. vm_compute. reflexivity. Qed.

(* a non-suppressible error (unknown variable) aborts the query *)
Example ex_hard :
  sem_path fL (mkcenv false odoc [] false) quirks_ideal
    [SConst CRoot; SConst CAnyArray; SUn UFilter [SBin BEq [SConst CCurrent] [SVar "x"]]]
  = ([], Some (EExec "could not find jsonpath variable")).
Proof. vm_compute. reflexivity. Qed.

(* with a hard error in the second condition the fused filter differs: the
   first filter drops the item (unknown) before the second is ever evaluated *)
Definition unk : step := SBin BEq [SConst CCurrent; SKey "a"] [SInteger 5].
Definition boom : step := SBin BEq [SConst CCurrent] [SVar "x"].
Example ex_fuse_needs_no_hard_error :
  sem_path fL (mkcenv false (fn_ 1) [] false) quirks_ideal
    [SConst CRoot; SUn UFilter [unk]; SUn UFilter [boom]]
  = ([], None)
  /\ sem_path fL (mkcenv false (fn_ 1) [] false) quirks_ideal
    [SConst CRoot; SUn UFilter [SBin BAnd [unk] [boom]]]
  = ([], Some (EExec "could not find jsonpath variable")).
Proof. vm_compute. split; reflexivity. Qed.

(* ------------------------------------------------------------------ *)
(* "An item is kept exactly when C, rewritten as a predicate check expression
   over that item, yields true": replace @ by $ (outside nested filters, which
   rebind @) and evaluate with the item as the document. *)

Fixpoint subst_step (s : step) : step :=
  let sch := fix sch (c : list step) : list step :=
    match c with [] => [] | x :: r => subst_step x :: sch r end in
  match s with
  | SConst CCurrent => SConst CRoot
  | SBin op l r => SBin op (sch l) (sch r)
  | SUn UFilter a => SUn UFilter a
  | SUn op a => SUn op (sch a)
  | SRegex a p f => SRegex (sch a) p f
  | SIndex subs =>
      SIndex ((fix go (l : list (list step * option (list step))) : list (list step * option (list step)) :=
                 match l with
                 | [] => []
                 | (a, b) :: r => (sch a, match b with Some c => Some (sch c) | None => None end) :: go r
                 end) subs)
  | _ => s
  end.

Definition subst_chain (c : chain) : chain :=
  (fix sch (c : list step) : list step :=
     match c with [] => [] | x :: r => subst_step x :: sch r end) c.

Fixpoint subst_subs (l : list (chain * option chain)) : list (chain * option chain) :=
  match l with
  | [] => []
  | (a, b) :: r => (subst_chain a, match b with Some c => Some (subst_chain c) | None => None end) :: subst_subs r
  end.

Lemma subst_chain_cons x r : subst_chain (x :: r) = subst_step x :: subst_chain r.
Proof. reflexivity. Qed.
Lemma subst_bin op l r : subst_step (SBin op l r) = SBin op (subst_chain l) (subst_chain r).
Proof. reflexivity. Qed.
Lemma subst_un op a : op <> UFilter -> subst_step (SUn op a) = SUn op (subst_chain a).
Proof. destruct op; intros H; try reflexivity. congruence. Qed.
Lemma subst_regex a p f : subst_step (SRegex a p f) = SRegex (subst_chain a) p f.
Proof. reflexivity. Qed.
Lemma subst_index subs : subst_step (SIndex subs) = SIndex (subst_subs subs).
Proof.
  reflexivity.
Qed.

Section Subst.
Variable L : ExecLib.
Variable C : cenv.
Variable Q : quirks.
Variable x : json.                      (* the item: @ on the left, $ on the right *)
Variable cur' : json.                   (* whatever @ is on the right *)
Let C' := set_root C x.

Definition Ps (s : step) : Prop := forall fl l ig u v,
  indep s true false fl = true ->
  sem_step L C Q s tone_k x l ig u v = sem_step L C' Q (subst_step s) tone_k cur' l ig u v /\
  sem_pred L C Q s x l ig v = sem_pred L C' Q (subst_step s) cur' l ig v.

Definition Qs (c : chain) : Prop := forall fl l ig u v,
  indep_chain c true false fl = true ->
  sem_chain L C Q c x l ig u v = sem_chain L C' Q (subst_chain c) cur' l ig u v /\
  pred_chain L C Q c x l ig v = pred_chain L C' Q (subst_chain c) cur' l ig v.

Lemma step_lsz_subst s l v : step_lsz C' (subst_step s) l v = step_lsz C s l v.
Proof. destruct s as [[]| | | | | | |[]| | | | | |]; reflexivity. Qed.

Lemma step_ig_subst s ig : step_ig (subst_step s) ig = step_ig s ig.
Proof. destruct s as [[]| | | | | | |[]| | | | | |]; reflexivity. Qed.

Lemma Qs_nil : Qs [].
Proof. intros fl l ig u v _. split; reflexivity. Qed.

Lemma Qs_cons s c : Ps s -> Qs c -> Qs (s :: c).
Proof.
  intros Hs Hc fl l ig u v H. rewrite indep_chain_cons in H. apply andb_true_iff in H. destruct H as [H1 H2].
  destruct (Hs fl l ig u v H1) as [E1 E2]. rewrite subst_chain_cons. split.
  - rewrite !sem_chain_cons, (sem_step_param L C Q s), (sem_step_param L C' Q (subst_step s)), E1.
    rewrite step_lsz_subst, step_ig_subst. apply tbind_trace_ext. intros y _.
    change (laxm C') with (laxm C). now apply (Hc fl).
  - rewrite !pred_chain_cons. destruct c; [exact E2 | reflexivity].
Qed.

Lemma sem_pred_other_subst s l ig v :
  match s with SBin _ _ _ | SUn UExists _ | SUn UNot _ | SUn UIsUnknown _ | SRegex _ _ _ => False | _ => True end ->
  sem_pred L C Q s x l ig v = sem_pred L C' Q (subst_step s) cur' l ig v.
Proof.
  intros H. rewrite sem_pred_other by exact H. rewrite sem_pred_other; [reflexivity|].
  destruct s as [[]| | | | | | |[]| | | | | |]; try exact I; try (now elim H).
Qed.

Lemma operand_subst c un fl l ig v :
  Qs c -> indep_chain c true false fl = true ->
  operand L C Q c un x l ig v = operand L C' Q (subst_chain c) un cur' l ig v.
Proof.
  intros Hc H. unfold operand. cbv zeta. change (laxm C') with (laxm C).
  now rewrite (proj1 (Hc fl l ig (laxm C) v H)).
Qed.

Lemma predicate_subst lc rc ur cb fl l ig v :
  Qs lc -> match rc with Some c => Qs c | None => True end ->
  indep_chain lc true false fl = true ->
  match rc with Some c => indep_chain c true false fl = true | None => True end ->
  predicate L C Q lc rc ur cb x l ig v =
  predicate L C' Q (subst_chain lc) (option_map subst_chain rc) ur cb cur' l ig v.
Proof.
  intros Hlc Hrc H1 H2. unfold predicate.
  rewrite (operand_subst lc true fl l ig v Hlc H1).
  destruct rc as [c|]; [|reflexivity]. cbn [option_map].
  now rewrite (operand_subst c ur fl l ig v Hrc H2).
Qed.

Lemma Ps_bin op lc rc : Qs lc -> Qs rc -> Ps (SBin op lc rc).
Proof.
  intros Hlc Hrc fl l ig u v H. rewrite indep_bin in H. apply andb_true_iff in H. destruct H as [H1 H2].
  rewrite subst_bin.
  assert (Epred : sem_pred L C Q (SBin op lc rc) x l ig v =
                  sem_pred L C' Q (SBin op (subst_chain lc) (subst_chain rc)) cur' l ig v).
  { destruct (is_cmp op) eqn:Ecmp.
    - rewrite !sem_pred_cmp by exact Ecmp. change (cmp_cb L C' op) with (cmp_cb L C op).
      now apply (predicate_subst lc (Some rc) true (cmp_cb L C op) fl).
    - destruct op; try discriminate Ecmp.
      + rewrite !sem_pred_and.
        now rewrite (proj2 (Hlc fl l ig u v H1)), (proj2 (Hrc fl l ig u v H2)).
      + rewrite !sem_pred_or.
        now rewrite (proj2 (Hlc fl l ig u v H1)), (proj2 (Hrc fl l ig u v H2)).
      + rewrite !sem_pred_starts.
        now apply (predicate_subst lc (Some rc) false executeStartsWith fl).
      + now rewrite !sem_pred_arith by reflexivity.
      + now rewrite !sem_pred_arith by reflexivity.
      + now rewrite !sem_pred_arith by reflexivity.
      + now rewrite !sem_pred_arith by reflexivity.
      + now rewrite !sem_pred_arith by reflexivity. }
  split; [|exact Epred].
  destruct (is_bool_binop op) eqn:E.
  - rewrite !sem_step_boolbin by exact E. now rewrite Epred.
  - rewrite !sem_step_arith by exact E. unfold arith_step. cbv zeta. change (laxm C') with (laxm C).
    now rewrite (proj1 (Hlc fl l ig (laxm C) v H1)), (proj1 (Hrc fl l ig (laxm C) v H2)).
Qed.

Lemma Ps_un op a : Qs a -> Ps (SUn op a).
Proof.
  intros Ha fl l ig u v H.
  destruct op.
  - rewrite indep_un in H by discriminate. rewrite subst_un by discriminate.
    assert (E : sem_pred L C Q (SUn UExists a) x l ig v = sem_pred L C' Q (SUn UExists (subst_chain a)) cur' l ig v).
    { rewrite !sem_pred_exists. cbv zeta. change (laxm C') with (laxm C).
      now rewrite (proj1 (Ha fl l ig (laxm C) v H)). }
    split; [|exact E]. rewrite !sem_step_pred_un by exact I. now rewrite E.
  - rewrite indep_un in H by discriminate. rewrite subst_un by discriminate.
    assert (E : sem_pred L C Q (SUn UNot a) x l ig v = sem_pred L C' Q (SUn UNot (subst_chain a)) cur' l ig v).
    { rewrite !sem_pred_not. now rewrite (proj2 (Ha fl l ig u v H)). }
    split; [|exact E]. rewrite !sem_step_pred_un by exact I. now rewrite E.
  - rewrite indep_un in H by discriminate. rewrite subst_un by discriminate.
    assert (E : sem_pred L C Q (SUn UIsUnknown a) x l ig v = sem_pred L C' Q (SUn UIsUnknown (subst_chain a)) cur' l ig v).
    { rewrite !sem_pred_isunknown. now rewrite (proj2 (Ha fl l ig u v H)). }
    split; [|exact E]. rewrite !sem_step_pred_un by exact I. now rewrite E.
  - rewrite indep_un in H by discriminate. rewrite subst_un by discriminate.
    split; [|now rewrite !sem_pred_other].
    rewrite !sem_step_plus. unfold sign_step. cbv zeta. change (laxm C') with (laxm C).
    now rewrite (proj1 (Ha fl l ig (laxm C) v H)).
  - rewrite indep_un in H by discriminate. rewrite subst_un by discriminate.
    split; [|now rewrite !sem_pred_other].
    rewrite !sem_step_minus. unfold sign_step. cbv zeta. change (laxm C') with (laxm C).
    now rewrite (proj1 (Ha fl l ig (laxm C) v H)).
  - (* a nested filter rebinds @: untouched by the substitution; it does not
       mention $ and does not see the outer @ *)
    change (subst_step (SUn UFilter a)) with (SUn UFilter a).
    assert (H' : indep (SUn UFilter a) true true fl = true) by exact H.
    exact (indep_step_sound L C Q x (SUn UFilter a) true true fl x cur' l l ig u v H'
             (fun E => ltac:(discriminate E)) (fun E => ltac:(discriminate E)) (fun _ => eq_refl)).
Qed.

Lemma Ps_regex a pat flags : Qs a -> Ps (SRegex a pat flags).
Proof.
  intros Ha fl l ig u v H. rewrite indep_regex in H. rewrite subst_regex.
  assert (E : sem_pred L C Q (SRegex a pat flags) x l ig v =
              sem_pred L C' Q (SRegex (subst_chain a) pat flags) cur' l ig v).
  { rewrite !sem_pred_regex.
    now apply (predicate_subst a None false (fun y _ => executeLikeRegex L pat flags y) fl). }
  split; [|exact E]. rewrite !sem_step_regex. now rewrite E.
Qed.

Lemma Ps_index subs :
  Forall (fun ab => Qs (fst ab) /\ match snd ab with Some c => Qs c | None => True end) subs ->
  Ps (SIndex subs).
Proof.
  intros Hsubs fl l ig u v H. rewrite indep_index in H. rewrite subst_index.
  split; [|now rewrite !sem_pred_other].
  rewrite !sem_step_index. change (index_target C' v) with (index_target C v).
  destruct (index_target C v) as [es|]; [|reflexivity].
  unfold tone_k. revert H. induction Hsubs as [|[a b] r [Ha Hb] _ IH]; intros H; [reflexivity|].
  cbn [indep_subs fst snd subst_subs] in *. apply andb_true_iff in H. destruct H as [H H3].
  apply andb_true_iff in H. destruct H as [H1 H2].
  cbn [index_go]. change (laxm C') with (laxm C).
  rewrite (proj1 (Ha false _ ig (laxm C) v H1)).
  destruct b as [bn|].
  - rewrite (proj1 (Hb false _ ig (laxm C) v H2)).
    destruct (index_of L (sem_chain L C' Q (subst_chain a) _ _ _ _ _)) as [from|e]; [|reflexivity].
    destruct (index_of L (sem_chain L C' Q (subst_chain bn) _ _ _ _ _)) as [to|e]; [|reflexivity].
    destruct (negb ig && _); [reflexivity|]. now rewrite (IH H3).
  - destruct (index_of L (sem_chain L C' Q (subst_chain a) _ _ _ _ _)) as [from|e]; [|reflexivity].
    destruct (negb ig && _); [reflexivity|]. now rewrite (IH H3).
Qed.

Lemma Ps_simple s :
  match s with
  | SConst _ | SBin _ _ _ | SUn _ _ | SRegex _ _ _ | SIndex _ => False
  | _ => True
  end -> Ps s.
Proof.
  intros Hs fl l ig u v _.
  split; [|apply sem_pred_other_subst; destruct s; try exact I; now elim Hs].
  destruct s; try (elim Hs; fail); cbn [subst_step];
    rewrite ?sem_step_str, ?sem_step_integer, ?sem_step_numeric, ?sem_step_var, ?sem_step_key,
            ?sem_step_meth, ?sem_step_decimal, ?sem_step_dt, ?sem_step_any; reflexivity.
Qed.

Lemma Ps_const k : Ps (SConst k).
Proof.
  intros fl l ig u v H. split; [|apply sem_pred_other_subst; exact I].
  destruct k; cbn [indep] in H; cbn [subst_step]; try discriminate H.
  - now rewrite sem_step_current, sem_step_root.
  - now rewrite !sem_step_last.
  - now rewrite !sem_step_anyarray.
  - now rewrite !sem_step_anykey.
  - now rewrite !sem_step_true.
  - now rewrite !sem_step_false.
  - now rewrite !sem_step_null.
Qed.

Theorem subst_step_sound s : Ps s.
Proof.
  induction s using step_ind' with (Q := Qs).
  - apply Qs_nil.
  - now apply Qs_cons.
  - apply Ps_const.
  - now apply Ps_simple.
  - now apply Ps_simple.
  - now apply Ps_simple.
  - now apply Ps_simple.
  - now apply Ps_simple.
  - now apply Ps_bin.
  - now apply Ps_un.
  - now apply Ps_regex.
  - now apply Ps_simple.
  - now apply Ps_simple.
  - now apply Ps_simple.
  - now apply Ps_simple.
  - now apply Ps_index.
Qed.

End Subst.

(* the substitution lemma: the condition of a filter on item x is the
   substituted condition evaluated with x as the document — whatever @ then is *)
Theorem subst_cur_root L C Q c x cur' l ig :
  indep c true false false = true ->          (* c does not mention $ *)
  sem_pred L C Q c x l ig x = sem_pred L (set_root C x) Q (subst_step c) cur' l ig x.
Proof. intros H. exact (proj2 (subst_step_sound L C Q x cur' c false l ig false x H)). Qed.

Lemma sem_step_of_pred L C Q s k cur l ig u v :
  is_pred_step s = true ->
  sem_step L C Q s k cur l ig u v = pred_item (sem_pred L C Q s cur l ig v) (k l ig).
Proof.
  destruct s as [| | | | | |op lc rc|op a|a p f| | | | |]; try discriminate; cbn [is_pred_step]; intros H.
  - now apply sem_step_boolbin.
  - destruct op; try discriminate H; now apply sem_step_pred_un.
  - apply sem_step_regex.
Qed.

Lemma subst_pred_step s : is_pred_step s = true -> is_pred_step (subst_step s) = true.
Proof.
  destruct s as [| | | | | |op lc rc|op a|a p f| | | | |]; try discriminate; try (intros H; exact H).
  destruct op; try discriminate; intros _; reflexivity.
Qed.

(* the rewritten condition as a predicate check expression (a path whose root
   chain is the predicate itself), run on the item as document *)
Theorem kept_iff_predicate_check L C Q c x l :
  is_pred_step c = true ->
  indep c true false true = true ->           (* no $, no free last *)
  (sem_pred L C Q c x l (laxm C) x = (PTrue, None) <->
   sem_path L (set_root C x) Q [subst_step c] = ([JBool true], None)).
Proof.
  intros Hp Hi.
  assert (Hi' : indep c true false false = true)
    by (eapply indep_weaken_step; [| | |exact Hi]; auto).
  (* last is not free in c: its value does not matter *)
  assert (El : sem_pred L C Q c x l (laxm C) x = sem_pred L C Q c x (-1) (laxm C) x).
  { pose proof (indep_step_sound L C Q (c_root C) c false false true x x l (-1) (laxm C) false x) as Hs.
    assert (Hi2 : indep c false false true = true) by (eapply indep_weaken_step; [| | |exact Hi]; auto).
    destruct (Hs Hi2 (fun _ => eq_refl) (fun _ => eq_refl) (fun E => ltac:(discriminate E))) as [_ E].
    now rewrite set_root_same in E. }
  rewrite El, (subst_cur_root L C Q c x x (-1) (laxm C) Hi').
  rewrite sem_path_eq, sem_chain_cons. cbn [c_root set_root]. change (laxm (set_root C x)) with (laxm C).
  rewrite sem_step_of_pred by (now apply subst_pred_step).
  destruct (sem_pred L (set_root C x) Q (subst_step c) x (-1) (laxm C) x) as [p [e|]]; cbn [pred_item].
  - split; intros H; discriminate H.
  - rewrite sem_chain_nil. destruct p; cbn [bool_item tone]; split; intros H; try discriminate H; reflexivity.
Qed.

(* example: @.a > 1 becomes $.a > 1 *)
Example ex_subst :
  subst_step (SBin BGt [SConst CCurrent; SKey "a"] [SInteger 1]) = SBin BGt [SConst CRoot; SKey "a"] [SInteger 1]
  /\ subst_step (SUn UExists [SConst CCurrent; SUn UFilter [SBin BGt [SConst CCurrent] [SInteger 1]]])
     = SUn UExists [SConst CRoot; SUn UFilter [SBin BGt [SConst CCurrent] [SInteger 1]]].
Proof. split; reflexivity. Qed.

Example ex_subst_hyps :
  indep (SBin BGt [SConst CCurrent; SKey "a"] [SInteger 1]) true false true = true /\
  is_pred_step (SBin BGt [SConst CCurrent; SKey "a"] [SInteger 1]) = true.
Proof. split; reflexivity. Qed.
