(* LexProofs.v — facts about model/Lexer.v.
   Part 1: lex_total — the fuel given to the fuelled loops always suffices
   (EOutOfFuel is unreachable), for every GoLib and every byte string. *)
From SJ Require Import lib.Base lib.Utf8 lib.GoLib model.Lexer.
Local Open Scope list_scope.
Notation length := List.length (only parsing).

(* measure of a lexer state: runes not yet consumed, look-ahead included *)
Definition msr (ch : Z) (rest : list Z) : nat :=
  ((if (ch <? 0)%Z then 0 else 1) + length rest)%nat.

(* [good proj n x]: x is not the out-of-fuel error, and if it is a success its
   final lexer state has measure at most n *)
Definition good {A} (proj : A -> Z * list Z) (n : nat) (x : lres A) : Prop :=
  match x with
  | LOk a => (msr (fst (proj a)) (snd (proj a)) <= n)%nat
  | LErr e => e <> EOutOfFuel
  end.

Lemma good_weaken {A} (proj : A -> Z * list Z) n n' x :
  good proj n x -> (n <= n')%nat -> good proj n' x.
Proof. destruct x; cbn; intros; [lia|assumption]. Qed.

Lemma good_bind {A B} (pa : A -> Z * list Z) (pb : B -> Z * list Z) na nb
      (x : lres A) (f : A -> lres B) :
  good pa na x ->
  (forall a, (msr (fst (pa a)) (snd (pa a)) <= na)%nat -> good pb nb (f a)) ->
  good pb nb (lbind x f).
Proof. destruct x as [a|e]; cbn; intros H1 H2; [apply H2; exact H1|exact H1]. Qed.

Lemma good_err {A} (proj : A -> Z * list Z) n e : e <> EOutOfFuel -> good proj n (@LErr A e).
Proof. intro H; exact H. Qed.

Definition p2 (a : Z * list Z) : Z * list Z := a.
Definition p3 {B} (a : Z * list Z * B) : Z * list Z := fst a.
Definition p5 {B C D} (a : Z * list Z * B * C * D) : Z * list Z := fst (fst (fst a)).
Definition pn {B C} (a : B * C * Z * list Z) : Z * list Z := (snd (fst a), snd a).
Definition pt {B} (a : B * Z * list Z) : Z * list Z := (snd (fst a), snd a).

Lemma check_pos c : check c = LOk tt -> 0 < c.
Proof. unfold check. destruct (c =? 0) eqn:E; [discriminate|]. destruct (c <? 0) eqn:F; [discriminate|]. lia. Qed.

Lemma check_cases c : (check c = LOk tt /\ 0 < c) \/ (exists e, check c = LErr e /\ e <> EOutOfFuel).
Proof.
  unfold check. destruct (c =? 0) eqn:E; [right; eexists; split; [reflexivity|discriminate]|].
  destruct (c <? 0) eqn:F; [right; eexists; split; [reflexivity|discriminate]|].
  left. split; [reflexivity|lia].
Qed.

Lemma msr_cons c r : 0 < c -> msr c r = S (length r).
Proof. intros H. unfold msr. replace (c <? 0) with false by lia. reflexivity. Qed.

Lemma msr_nonneg ch rest : 0 <= ch -> msr ch rest = S (length rest).
Proof. intros H. unfold msr. replace (ch <? 0) with false by lia. reflexivity. Qed.

Lemma msr_eof : msr (-1) [] = 0%nat.
Proof. reflexivity. Qed.

Lemma next_good rest : good p2 (length rest) (next rest).
Proof.
  destruct rest as [|c r]; cbn; [lia|].
  destruct (check_cases c) as [[E P]|[e [E N]]]; rewrite E; cbn.
  - rewrite msr_cons by exact P. lia.
  - exact N.
Qed.

(* step of a structural loop: consume ch (ch >= 0 not required), look at rest *)
Ltac loop_step IH :=
  match goal with
  | |- good _ _ (match ?rest with [] => _ | c :: r => _ end) =>
      destruct rest as [|c r];
      [ cbn; try lia
      | cbn [lbind]; destruct (check_cases c) as [[E P]|[e [E N]]]; rewrite E; cbn [lbind];
        [ | exact N ] ]
  end.

Lemma skip_ws_good ch rest : good p2 (msr ch rest) (skip_ws ch rest).
Proof.
  revert ch. induction rest as [|c r IH]; intros ch; cbn [skip_ws].
  - destruct (is_ws ch) eqn:W; cbn; [unfold msr; cbn; lia|lia].
  - destruct (is_ws ch) eqn:W; [|cbn; lia].
    destruct (check_cases c) as [[E P]|[e [E N]]]; rewrite E; cbn [lbind]; [|exact N].
    eapply good_weaken; [apply IH|].
    rewrite msr_cons by exact P.
    assert (0 <= ch) by (unfold is_ws in W; lia). rewrite msr_nonneg by assumption. cbn. lia.
Qed.

Lemma digits_good base ch rest acc ds inv :
  good p5 (msr ch rest) (digits base ch rest acc ds inv).
Proof.
  revert ch acc ds inv. induction rest as [|c r IH]; intros ch acc ds inv; cbn [digits].
  - destruct ((if base <=? 10 then is_decimal ch else is_hex ch) || (ch =? 95)) eqn:W; cbn; [unfold msr; cbn; lia|lia].
  - destruct ((if base <=? 10 then is_decimal ch else is_hex ch) || (ch =? 95)) eqn:W; [|cbn; lia].
    destruct (check_cases c) as [[E P]|[e [E N]]]; rewrite E; cbn [lbind]; [|exact N].
    eapply good_weaken; [apply IH|].
    rewrite msr_cons by exact P.
    assert (0 <= ch).
    { unfold is_decimal, is_hex, lower in W. destruct (base <=? 10); [lia|].
      destruct (0 <=? ch) eqn:Z0; [lia|]. exfalso.
      assert (ch < 0) by lia. assert (Z.lor 32 ch < 0) by (apply Z.lor_neg; lia). lia. }
    rewrite msr_nonneg by assumption. cbn. lia.
Qed.

(* ---- a small tactic for straight-line code ---- *)
Ltac gsplit :=
  repeat match goal with
  | p : (_ * _)%type |- _ => destruct p
  end; cbn [fst snd p2 p3 p5 pn pt] in *.

Ltac gnext :=
  match goal with
  | |- good _ _ (lbind (next ?r) _) =>
      eapply good_bind; [apply next_good|]; intros ? ?; gsplit
  | |- good _ _ (lbind (digits _ _ _ _ _ _) _) =>
      eapply good_bind; [apply digits_good|]; intros ? ?; gsplit
  | |- good _ _ (if ?c then _ else _) => destruct c eqn:?
  | |- good _ _ (LErr _) => apply good_err; discriminate
  | |- good _ _ (LOk _) => cbn [good fst snd p2 p3 p5 pn pt]; try lia
  end.

Section L.
Variable L : GoLib.

Lemma scan_number_tail_good tok base prefix ch rest acc digSep inv sd :
  good pn (msr ch rest) (scan_number_tail L tok base prefix ch rest acc digSep inv sd).
Proof.
  unfold scan_number_tail.
  eapply good_bind with (pa := fun a : tkind * Z * list Z * list Z * Z * Z =>
                                 (snd (fst (fst (fst (fst a)))), snd (fst (fst (fst a))))) (na := msr ch rest).
  { destruct sd; [|cbn; lia].
    eapply good_bind; [apply digits_good|]. intros a Ha. gsplit. cbn. exact Ha. }
  intros a Ha. gsplit.
  eapply good_bind with (pa := fun a : tkind * Z * list Z * list Z * Z =>
                                 (snd (fst (fst (fst a))), snd (fst (fst a)))) (na := msr z1 l0).
  { destruct (lower z1 =? 101) eqn:E1.
    - destruct (negb (prefix =? 0) && negb (prefix =? 48)); [apply good_err; discriminate|].
      assert (0 <= z1).
      { destruct (0 <=? z1) eqn:Z0; [lia|]. unfold lower in E1.
        assert (Z.lor 32 z1 < 0) by (apply Z.lor_neg; lia). lia. }
      eapply good_bind; [apply next_good|]. intros a1 Ha1. gsplit.
      eapply good_bind with (pa := @p3 (list Z)) (na := length l0).
      { destruct ((z2 =? 43) || (z2 =? 45)) eqn:E2.
        - eapply good_bind; [apply next_good|]. intros a2 Ha2. gsplit. cbn.
          assert (0 <= z2) by lia. rewrite msr_nonneg in Ha1 by assumption. lia.
        - cbn. exact Ha1. }
      intros a2 Ha2. gsplit.
      eapply good_bind; [apply digits_good|]. intros a3 Ha3. gsplit.
      destruct (Z.land z5 1 =? 0); [apply good_err; discriminate|].
      cbn. rewrite msr_nonneg by assumption. lia.
    - destruct (is_ident_rune L (lower z1) true); [apply good_err; discriminate|]. cbn. lia. }
  intros a1 Ha1. gsplit.
  repeat gnext.
Qed.

Lemma scan_number_good ch rest sd :
  0 <= ch -> good pn (msr ch rest) (scan_number L ch rest sd).
Proof.
  intros Hch. unfold scan_number. destruct sd; [apply scan_number_tail_good|].
  eapply good_bind with (pa := fun a : Z * Z * Z * Z * list Z * list Z =>
                                 (snd (fst (fst a)), snd (fst a))) (na := msr ch rest).
  { destruct (ch =? 48) eqn:E0; [|cbn; lia].
    eapply good_bind; [apply next_good|]. intros a Ha. gsplit.
    rewrite msr_nonneg by assumption.
    assert (NX: forall (k : Z * Z * Z) , good (fun a : Z * Z * Z * Z * list Z * list Z =>
                 (snd (fst (fst a)), snd (fst a))) (S (length rest))
                 (lbind (next l) (fun '(c, r) => LOk (k, c, r, [48] ++ [z])))).
    { intros k. eapply good_bind; [apply next_good|]. intros a1 Ha1. gsplit. cbn.
      destruct (z <? 0) eqn:Zn.
      - unfold msr in Ha. rewrite Zn in Ha. cbn in Ha. lia.
      - unfold msr in Ha. rewrite Zn in Ha. cbn in Ha. lia. }
    destruct (lower z =? 120); [apply (NX (16, 120, 0))|].
    destruct (lower z =? 111); [apply (NX (8, 111, 0))|].
    destruct (lower z =? 98); [apply (NX (2, 98, 0))|].
    destruct (lower z =? 46); [cbn; lia|].
    destruct (z =? 95); [apply good_err; discriminate|].
    destruct (is_decimal z); [apply good_err; discriminate|].
    cbn. lia. }
  intros a Ha. gsplit.
  destruct (z1 =? 95); [apply good_err; discriminate|].
  eapply good_bind; [apply digits_good|]. intros a1 Ha1. gsplit.
  destruct (Z.land (Z.lor z2 z6) 1 =? 0); [apply good_err; discriminate|].
  destruct (z7 =? 46) eqn:E46.
  - destruct (negb (z3 =? 0) && negb (z3 =? 48)).
    + cbn. assert (z7 = 46) by lia. subst z7. rewrite msr_nonneg in Ha1 by lia.
      rewrite msr_nonneg by lia. lia.
    + eapply good_bind; [apply next_good|]. intros a2 Ha2. gsplit.
      eapply good_weaken; [apply scan_number_tail_good|].
      rewrite msr_nonneg in Ha1 by lia. lia.
  - eapply good_weaken; [apply scan_number_tail_good|]. lia.
Qed.

Lemma braces_good n rr c rest : good p2 (length rest) (braces n rr c rest).
Proof.
  revert rr c rest. induction n as [|n IH]; intros rr c rest; cbn [braces].
  - destruct (c =? 125); [cbn; unfold msr; destruct (rr <? 0); cbn; lia|apply good_err; discriminate].
  - destruct (c =? 125); [cbn; unfold msr; destruct (rr <? 0); cbn; lia|].
    destruct (hex_char c <? 0); [apply good_err; discriminate|].
    eapply good_bind; [apply next_good|]. intros a Ha. gsplit.
    eapply good_weaken; [apply IH|]. unfold msr in Ha. destruct (z <? 0); cbn in Ha; lia.
Qed.
End L.
