(* LexProofs.v — facts about model/Lexer.v.
   Part 1: lex_total — the fuel given to the fuelled loops always suffices
   (EOutOfFuel is unreachable), for every GoLib and every byte string. *)
From SJ Require Import lib.Base lib.Utf8 lib.GoLib model.Lexer.
Local Open Scope list_scope.
Notation length := List.length (only parsing).

(* measure of a lexer state: runes not yet consumed, look-ahead included *)
Definition msr (ch : Z) (rest : list Z) : nat :=
  ((if (ch <? 0)%Z then 0 else 1) + length rest)%nat.

(* [good proj n x]: x is not the out-of-fuel error, and if it is a success its
   final lexer state has measure at most n *)
Definition good {A} (proj : A -> Z * list Z) (n : nat) (x : lres A) : Prop :=
  match x with
  | LOk a => (msr (fst (proj a)) (snd (proj a)) <= n)%nat
  | LErr e => e <> EOutOfFuel
  end.

Lemma good_weaken {A} (proj : A -> Z * list Z) n n' x :
  good proj n x -> (n <= n')%nat -> good proj n' x.
Proof. destruct x; cbn; intros; [lia|assumption]. Qed.

Lemma good_bind {A B} (pa : A -> Z * list Z) (pb : B -> Z * list Z) na nb
      (x : lres A) (f : A -> lres B) :
  good pa na x ->
  (forall a, (msr (fst (pa a)) (snd (pa a)) <= na)%nat -> good pb nb (f a)) ->
  good pb nb (lbind x f).
Proof. destruct x as [a|e]; cbn; intros H1 H2; [apply H2; exact H1|exact H1]. Qed.

Lemma good_err {A} (proj : A -> Z * list Z) n e : e <> EOutOfFuel -> good proj n (@LErr A e).
Proof. intro H; exact H. Qed.

Definition p2 (a : Z * list Z) : Z * list Z := a.
Definition p3 {B} (a : Z * list Z * B) : Z * list Z := fst a.
Definition p5 {B C D} (a : Z * list Z * B * C * D) : Z * list Z := fst (fst (fst a)).
Definition pn {B C} (a : B * C * Z * list Z) : Z * list Z := (snd (fst a), snd a).
Definition pt {B} (a : B * Z * list Z) : Z * list Z := (snd (fst a), snd a).
(* for results that carry no look-ahead: only the rest counts *)
Definition pr {B} (a : B * list Z) : Z * list Z := (-1, snd a).

Lemma check_pos c : check c = LOk tt -> 0 < c.
Proof. unfold check. destruct (c =? 0) eqn:E; [discriminate|]. destruct (c <? 0) eqn:F; [discriminate|]. lia. Qed.

Lemma check_cases c : (check c = LOk tt /\ 0 < c) \/ (exists e, check c = LErr e /\ e <> EOutOfFuel).
Proof.
  unfold check. destruct (c =? 0) eqn:E; [right; eexists; split; [reflexivity|discriminate]|].
  destruct (c <? 0) eqn:F; [right; eexists; split; [reflexivity|discriminate]|].
  left. split; [reflexivity|lia].
Qed.

Lemma msr_cons c r : 0 < c -> msr c r = S (length r).
Proof. intros H. unfold msr. replace (c <? 0) with false by lia. reflexivity. Qed.

Lemma msr_nonneg ch rest : 0 <= ch -> msr ch rest = S (length rest).
Proof. intros H. unfold msr. replace (ch <? 0) with false by lia. reflexivity. Qed.

Lemma msr_eof : msr (-1) [] = 0%nat.
Proof. reflexivity. Qed.

Lemma next_good rest : good p2 (length rest) (next rest).
Proof.
  destruct rest as [|c r]; cbn; [lia|].
  destruct (check_cases c) as [[E P]|[e [E N]]]; rewrite E; cbn.
  - rewrite msr_cons by exact P. lia.
  - exact N.
Qed.

(* step of a structural loop: consume ch (ch >= 0 not required), look at rest *)
Ltac loop_step IH :=
  match goal with
  | |- good _ _ (match ?rest with [] => _ | c :: r => _ end) =>
      destruct rest as [|c r];
      [ cbn; try lia
      | cbn [lbind]; destruct (check_cases c) as [[E P]|[e [E N]]]; rewrite E; cbn [lbind];
        [ | exact N ] ]
  end.

Lemma skip_ws_good ch rest : good p2 (msr ch rest) (skip_ws ch rest).
Proof.
  revert ch. induction rest as [|c r IH]; intros ch; cbn [skip_ws].
  - destruct (is_ws ch) eqn:W; cbn; [unfold msr; cbn; lia|lia].
  - destruct (is_ws ch) eqn:W; [|cbn; lia].
    destruct (check_cases c) as [[E P]|[e [E N]]]; rewrite E; cbn [lbind]; [|exact N].
    eapply good_weaken; [apply IH|].
    rewrite msr_cons by exact P.
    assert (0 <= ch) by (unfold is_ws in W; lia). rewrite msr_nonneg by assumption. cbn. lia.
Qed.

Lemma digits_good base ch rest acc ds inv :
  good p5 (msr ch rest) (digits base ch rest acc ds inv).
Proof.
  revert ch acc ds inv. induction rest as [|c r IH]; intros ch acc ds inv; cbn [digits].
  - destruct ((if base <=? 10 then is_decimal ch else is_hex ch) || (ch =? 95)) eqn:W; cbn; [unfold msr; cbn; lia|lia].
  - destruct ((if base <=? 10 then is_decimal ch else is_hex ch) || (ch =? 95)) eqn:W; [|cbn; lia].
    destruct (check_cases c) as [[E P]|[e [E N]]]; rewrite E; cbn [lbind]; [|exact N].
    eapply good_weaken; [apply IH|].
    rewrite msr_cons by exact P.
    assert (0 <= ch).
    { unfold is_decimal, is_hex, lower in W. destruct (base <=? 10); [lia|].
      destruct (0 <=? ch) eqn:Z0; [lia|]. exfalso.
      assert (ch < 0) by lia. assert (Z.lor 32 ch < 0) by (apply Z.lor_neg; lia). lia. }
    rewrite msr_nonneg by assumption. cbn. lia.
Qed.

(* ---- tactics for straight-line code ---- *)
Lemma lbind_assoc {A B C} (x : lres A) (g : A -> lres B) (f : B -> lres C) :
  lbind (lbind x g) f = lbind x (fun a => lbind (g a) f).
Proof. destruct x; reflexivity. Qed.

Ltac msr_lia :=
  unfold msr in *; cbn [fst snd p2 p3 p5 pn pt pr] in *;
  repeat match goal with
  | H : context [(?c <? 0)] |- _ => destruct (Z.ltb_spec c 0)
  | |- context [(?c <? 0)] => destruct (Z.ltb_spec c 0)
  end; cbn [Nat.add length] in *; try lia.

Lemma digits_good_strict base ch rest acc ds inv :
  (if base <=? 10 then is_decimal ch else is_hex ch) || (ch =? 95) = true ->
  good p5 (length rest) (digits base ch rest acc ds inv).
Proof.
  intros W. destruct rest as [|c r]; cbn [digits]; rewrite W.
  - cbn. lia.
  - destruct (check_cases c) as [[E P]|[e [E N]]]; rewrite E; cbn [lbind]; [|exact N].
    eapply good_weaken; [apply digits_good|]. rewrite msr_cons by exact P. cbn. lia.
Qed.

Ltac gstep :=
  match goal with
  | |- good _ _ (lbind (next _) _) => eapply good_bind; [apply next_good|]; intros [? ?] ?
  | |- good _ _ (lbind (digits _ _ _ _ _ _) _) =>
      eapply good_bind; [apply digits_good|]; intros [[[[? ?] ?] ?] ?] ?
  | |- good _ _ (lbind (if ?c then _ else _) _) => destruct c eqn:?
  | |- good _ _ (lbind (LOk _) _) => cbn [lbind]
  | |- good _ _ (lbind (LErr _) _) => cbn [lbind]
  | |- good _ _ (lbind (lbind _ _) _) => rewrite lbind_assoc
  | |- good _ _ (lbind (let (_, _) := ?p in _) _) => destruct p
  | |- good _ _ (if ?c then _ else _) => destruct c eqn:?
  | |- good _ _ (let (_, _) := ?p in _) => destruct p
  | |- good _ _ (LErr _) => apply good_err; discriminate
  | |- good _ _ (LOk _) => cbn [good]; msr_lia
  end.

Section L.
Variable L : GoLib.

Lemma scan_number_tail_good tok base prefix ch rest acc digSep inv sd :
  good pn (msr ch rest) (scan_number_tail L tok base prefix ch rest acc digSep inv sd).
Proof.
  unfold scan_number_tail. repeat gstep.
Qed.

Lemma scan_number_good ch rest sd :
  (sd = false -> is_decimal ch = true) ->
  good pn (if sd then msr ch rest else length rest) (scan_number L ch rest sd).
Proof.
  intros Hd. unfold scan_number. destruct sd; [apply scan_number_tail_good|].
  specialize (Hd eq_refl).
  destruct (ch =? 48) eqn:E0.
  - (* leading 0: the next() after it already brings the measure down *)
    repeat first
      [ match goal with
        | |- good _ _ (scan_number_tail _ _ _ _ _ _ _ _ _ _) =>
            eapply good_weaken; [apply scan_number_tail_good|msr_lia]
        end
      | gstep ].
  - cbn [lbind].
    destruct (ch =? 95) eqn:E1; [apply good_err; discriminate|].
    eapply good_bind.
    { apply digits_good_strict. cbn. rewrite Hd. reflexivity. }
    intros [[[[c r] acc] ds] inv] H.
    repeat first
      [ match goal with
        | |- good _ _ (scan_number_tail _ _ _ _ _ _ _ _ _ _) =>
            eapply good_weaken; [apply scan_number_tail_good|msr_lia]
        end
      | gstep ].
Qed.

Lemma braces_good n rr c rest : good pr (length rest) (braces n rr c rest).
Proof.
  revert rr c rest. induction n as [|n IH]; intros rr c rest; cbn [braces].
  - destruct (c =? 125); [cbn; lia|apply good_err; discriminate].
  - destruct (c =? 125); [cbn; lia|].
    destruct (hex_char c <? 0); [apply good_err; discriminate|].
    eapply good_bind; [apply next_good|]. intros [c' r'] H.
    eapply good_weaken; [apply IH|]. cbn [fst snd p2] in H. unfold msr in H.
    destruct (c' <? 0); cbn in H; lia.
Qed.

Lemma decode_unicode_good rest : good pr (length rest) (decode_unicode rest).
Proof.
  unfold decode_unicode.
  eapply good_bind; [apply next_good|]. intros [ch r] H.
  destruct (ch =? 123).
  - rewrite lbind_assoc. eapply good_bind; [apply next_good|]. intros [c r1] H1.
    rewrite lbind_assoc. eapply good_bind; [apply braces_good|]. intros [rr r2] H2.
    cbn [fst snd pr p2] in *.
    repeat gstep.
  - repeat gstep.
Qed.

Lemma scan_unicode_good rest buf : good p3 (length rest) (scan_unicode rest buf).
Proof.
  unfold scan_unicode.
  eapply good_bind; [apply decode_unicode_good|]. intros [rr r] H. cbn [fst snd pr] in H.
  destruct (is_surrogate rr).
  - eapply good_bind; [apply next_good|]. intros [c1 r1] H1.
    destruct (negb (c1 =? 92)); [apply good_err; discriminate|].
    eapply good_bind; [apply next_good|]. intros [c2 r2] H2.
    destruct (negb (c2 =? 117)); [apply good_err; discriminate|].
    eapply good_bind; [apply decode_unicode_good|]. intros [rr1 r3] H3. cbn [fst snd pr] in H3.
    destruct (utf16_pair rr rr1); [|apply good_err; discriminate].
    repeat gstep.
  - repeat gstep.
Qed.

Lemma scan_hex_good rest buf : good p3 (length rest) (scan_hex rest buf).
Proof. unfold scan_hex. repeat gstep. Qed.

Lemma scan_escape_good rest buf : good p3 (length rest) (scan_escape rest buf).
Proof.
  unfold scan_escape.
  eapply good_bind; [apply next_good|]. intros [ch r] H.
  repeat first
    [ match goal with
      | |- good _ _ (scan_hex _ _) => eapply good_weaken; [apply scan_hex_good|msr_lia]
      | |- good _ _ (scan_unicode _ _) => eapply good_weaken; [apply scan_unicode_good|msr_lia]
      end
    | gstep ].
Qed.

(* ---- the two fuelled loops ---- *)
Lemma string_loop_good fuel ch rest buf :
  (msr ch rest < fuel)%nat -> good p3 (msr ch rest) (string_loop fuel ch rest buf).
Proof.
  revert ch rest buf. induction fuel as [|f IH]; intros ch rest buf Hf; [lia|].
  cbn [string_loop].
  destruct (ch =? 34) eqn:E1.
  { repeat gstep. }
  destruct ((ch =? 10) || (ch <? 0)) eqn:E2; [apply good_err; discriminate|].
  assert (Hch: 0 <= ch) by lia. rewrite msr_nonneg in * by exact Hch.
  destruct (ch =? 92) eqn:E3.
  - eapply good_bind; [apply scan_escape_good|]. intros [[c r] b] H. cbn [fst snd p3] in H.
    eapply good_weaken; [apply IH; lia|lia].
  - eapply good_bind; [apply next_good|]. intros [c r] H. cbn [fst snd p2] in H.
    eapply good_weaken; [apply IH; lia|lia].
Qed.

Lemma scan_string_good rest : good p3 (length rest) (scan_string rest).
Proof.
  unfold scan_string. eapply good_bind; [apply next_good|]. intros [c r] H. cbn [fst snd p2] in H.
  eapply good_weaken; [apply string_loop_good; lia|lia].
Qed.

Lemma is_ident_rune_nonneg ch b : is_ident_rune L ch b = true -> 0 <= ch.
Proof. unfold is_ident_rune. lia. Qed.

Lemma ident_loop_good fuel ch rest buf :
  (msr ch rest < fuel)%nat -> good p3 (msr ch rest) (ident_loop L fuel ch rest buf).
Proof.
  revert ch rest buf. induction fuel as [|f IH]; intros ch rest buf Hf; [lia|].
  cbn [ident_loop].
  destruct (is_ident_rune L ch false) eqn:E1; [|cbn; lia].
  pose proof (is_ident_rune_nonneg _ _ E1) as Hch. rewrite msr_nonneg in * by exact Hch.
  destruct (ch =? 92) eqn:E3.
  - eapply good_bind; [apply scan_escape_good|]. intros [[c r] b] H. cbn [fst snd p3] in H.
    eapply good_weaken; [apply IH; lia|lia].
  - eapply good_bind; [apply next_good|]. intros [c r] H. cbn [fst snd p2] in H.
    eapply good_weaken; [apply IH; lia|lia].
Qed.

Lemma scan_ident_good ch rest : good pt (length rest) (scan_ident L ch rest).
Proof.
  unfold scan_ident.
  eapply good_bind with (pa := @p3 (list Z)) (na := length rest).
  { destruct (ch =? 92); [apply scan_escape_good|]. repeat gstep. }
  intros [[c r] b] H. cbn [fst snd p3] in H.
  eapply good_bind with (pa := @p3 (list Z)) (na := length rest).
  { eapply good_weaken; [apply ident_loop_good|exact H]. unfold msr. destruct (c <? 0); cbn; lia. }
  intros [[c' r'] b'] H'. cbn [fst snd p3] in H'. cbn. exact H'.
Qed.

Lemma var_loop_good ch rest buf : good p3 (msr ch rest) (var_loop L ch rest buf).
Proof.
  revert ch buf. induction rest as [|c r IH]; intros ch buf; cbn [var_loop].
  - destruct (is_variable_rune L ch); cbn; [unfold msr; cbn; lia|lia].
  - destruct (is_variable_rune L ch) eqn:W; [|cbn; lia].
    destruct (check_cases c) as [[E P]|[e [E N]]]; rewrite E; cbn [lbind]; [|exact N].
    eapply good_weaken; [apply IH|].
    rewrite msr_cons by exact P.
    assert (0 <= ch) by (unfold is_variable_rune in W; lia).
    rewrite msr_nonneg by assumption. cbn. lia.
Qed.

Lemma scan_variable_good rest : good pt (length rest) (scan_variable L rest).
Proof.
  unfold scan_variable.
  eapply good_bind; [apply next_good|]. intros [ch r] H. cbn [fst snd p2] in H.
  destruct (ch =? 34).
  - eapply good_bind; [apply scan_string_good|]. intros [[c r'] b] H'. cbn [fst snd p3] in H'.
    cbn. msr_lia.
  - destruct (is_variable_rune L ch).
    + eapply good_bind; [apply var_loop_good|]. intros [[c r'] b] H'. cbn [fst snd p3] in H'.
      cbn. lia.
    + cbn. exact H.
Qed.

Lemma comment_loop_good ch rest : good p2 (msr ch rest) (comment_loop ch rest).
Proof.
  revert ch. induction rest as [|c r IH]; intros ch; cbn [comment_loop].
  - destruct (ch <? 0); apply good_err; discriminate.
  - destruct (ch <? 0) eqn:E0; [apply good_err; discriminate|].
    destruct (check_cases c) as [[E P]|[e [E N]]]; rewrite E; cbn [lbind]; [|exact N].
    rewrite msr_nonneg by lia.
    destruct ((ch =? 42) && (c =? 47)).
    + eapply good_weaken; [apply next_good|]. cbn. lia.
    + eapply good_weaken; [apply IH|]. rewrite msr_cons by exact P. cbn. lia.
Qed.

Lemma scan_comment_good rest : good p2 (length rest) (scan_comment rest).
Proof.
  unfold scan_comment. eapply good_bind; [apply next_good|]. intros [c r] H. cbn [fst snd p2] in H.
  eapply good_weaken; [apply comment_loop_good|exact H].
Qed.

Lemma scan_operator_good ch rest : good pt (length rest) (scan_operator ch rest).
Proof.
  unfold scan_operator.
  eapply good_bind; [apply next_good|]. intros [nx r] H. cbn [fst snd p2] in H.
  repeat gstep.
Qed.

(* ---- Lex ---- *)
Definition po3 (a : option token * Z * list Z) : Z * list Z := (snd (fst a), snd a).

(* a token-producing call strictly decreases the measure *)
Definition tok_good (n : nat) (x : lres (option token * Z * list Z)) : Prop :=
  match x with
  | LOk (Some _, c, r) => (msr c r < n)%nat
  | LOk (None, c, r) => (msr c r <= n)%nat
  | LErr e => e <> EOutOfFuel
  end.

Lemma tok_good_bind {A} (proj : A -> Z * list Z) n n' (x : lres A)
      (k : A -> lres (option token * Z * list Z)) :
  good proj n x ->
  (forall a, (msr (fst (proj a)) (snd (proj a)) <= n)%nat -> tok_good n' (k a)) ->
  tok_good n' (lbind x k).
Proof. destruct x as [a|e]; cbn; intros H F; [apply F; exact H|exact H]. Qed.

Lemma tok_good_weaken n n' x : tok_good n x -> (n <= n')%nat -> tok_good n' x.
Proof. destruct x as [[[[t|] c] r]|e]; cbn; intros; try lia; assumption. Qed.

Lemma lex_tok_good f ch rest :
  (msr ch rest <= S f)%nat -> tok_good (msr ch rest) (lex_tok L (S f) ch rest).
Proof.
  revert ch rest. induction f as [|f IH]; intros ch rest Hf.
  2: remember (S f) as g eqn:Hg.
  all: cbn [lex_tok].
  all: pose proof (skip_ws_good ch rest) as Hs.
  all: destruct (skip_ws ch rest) as [[ch1 rest1]|e] eqn:Es; cbn [lbind]; [|exact Hs].
  all: cbn [good fst snd p2] in Hs.
  all: (eapply tok_good_weaken; [|exact Hs]).
  all: clear Es.
  all: match goal with |- tok_good _ ?g =>
         match type of Hf with (_ <= ?b)%nat => assert (Hf1: (msr ch1 rest1 <= b)%nat) by lia end end.
  all: clear Hs Hf ch rest.
  all: destruct (is_ident_rune L ch1 true) eqn:E1;
    [ pose proof (is_ident_rune_nonneg _ _ E1); rewrite msr_nonneg by assumption;
      eapply tok_good_bind; [apply scan_ident_good|]; intros [[t c] r] H0; cbn in *; lia | ].
  all: destruct (is_decimal ch1) eqn:E2;
    [ assert (0 <= ch1) by (unfold is_decimal in E2; lia); rewrite msr_nonneg by assumption;
      eapply tok_good_bind; [apply (scan_number_good ch1 rest1 false); intros _; exact E2|];
      intros [[[k txt] c] r] H0; cbn in *; lia | ].
  all: destruct (ch1 <? 0) eqn:E3; [cbn; lia|].
  all: assert (Hch: 0 <= ch1) by lia; rewrite msr_nonneg in * by exact Hch.
  all: destruct (ch1 =? 34);
    [ eapply tok_good_bind; [apply scan_string_good|]; intros [[c r] b] H0; cbn in *; lia | ].
  all: destruct (ch1 =? 36);
    [ eapply tok_good_bind; [apply scan_variable_good|]; intros [[t c] r] H0; cbn in *; lia | ].
  all: destruct (ch1 =? 46) eqn:E46;
    [ destruct (ch1 =? 47) eqn:E47; [lia|];
      pose proof (next_good rest1) as Hn;
      destruct (next rest1) as [[c r]|e] eqn:En; cbn [lbind]; [|exact Hn];
      cbn [good fst snd p2] in Hn;
      destruct (is_decimal c) eqn:Ed;
      [ eapply tok_good_bind; [apply (scan_number_good c r true); intros; discriminate|];
        intros [[[k txt] c'] r'] H0; cbn in *; lia
      | cbn; lia ]
    | ].
  all: destruct (ch1 =? 47) eqn:E47;
    [ | destruct (57344 <=? ch1); [cbn; discriminate|];
        eapply tok_good_bind; [apply scan_operator_good|]; intros [[t c] r] H0; cbn in *; lia ].
  - (* f = 0: a comment needs at least two runes *)
    pose proof (next_good rest1) as Hn.
    destruct (next rest1) as [[c r]|e] eqn:En; cbn [lbind]; [|exact Hn].
    cbn [good fst snd p2] in Hn.
    destruct (c =? 42) eqn:E42; [|cbn; lia].
    exfalso. rewrite msr_nonneg in Hn by lia. lia.
  - pose proof (next_good rest1) as Hn.
    destruct (next rest1) as [[c r]|e] eqn:En; cbn [lbind]; [|exact Hn].
    cbn [good fst snd p2] in Hn.
    destruct (c =? 42) eqn:E42; [|cbn; lia].
    pose proof (scan_comment_good r) as Hc.
    destruct (scan_comment r) as [[c' r']|e] eqn:Ec; cbn [lbind]; [|exact Hc].
    cbn [good fst snd p2] in Hc.
    rewrite msr_nonneg in Hn by lia.
    assert (Hlt: (msr c' r' <= g)%nat) by lia.
    specialize (IH c' r' Hlt).
    destruct (lex_tok L g c' r') as [[[[t|] c2] r2]|e2]; cbn [tok_good] in *; try lia. exact IH.
Qed.

(* ---- the token loop ---- *)
Definition has_fuel_err (ts : list token) : Prop :=
  exists txt, In (mktok (TErr EOutOfFuel) txt) ts.

(* ---- Lex never returns the pseudo-token TErr ---- *)
Definition kind_ok (k : tkind) : Prop := match k with TErr _ => False | _ => True end.

Definition resP {A} (P : A -> Prop) (x : lres A) : Prop :=
  match x with LOk a => P a | LErr _ => True end.

Lemma resP_bind_any {A B} (P : B -> Prop) (x : lres A) (f : A -> lres B) :
  (forall a, resP P (f a)) -> resP P (lbind x f).
Proof. destruct x; cbn; auto. Qed.

Ltac kstep :=
  match goal with
  | |- resP _ (lbind (if ?c then _ else _) _) => destruct c
  | |- resP _ (lbind (LOk _) _) => cbn [lbind]
  | |- resP _ (lbind (LErr _) _) => exact I
  | |- resP _ (lbind (lbind _ _) _) => rewrite lbind_assoc
  | |- resP _ (lbind (let (_, _) := ?p in _) _) => destruct p
  | |- resP _ (lbind _ _) => apply resP_bind_any; intros ?
  | |- resP _ (if ?c then _ else _) => destruct c
  | |- resP _ (let (_, _) := ?p in _) => destruct p
  | |- resP _ (LErr _) => exact I
  | |- resP _ (LOk _) => cbn [resP fst snd]; try exact I
  end.

Definition nk4 (a : tkind * list Z * Z * list Z) : Prop := kind_ok (fst (fst (fst a))).

Lemma scan_number_tail_kind tok base prefix ch rest acc digSep inv sd :
  kind_ok tok ->
  resP nk4 (scan_number_tail L tok base prefix ch rest acc digSep inv sd).
Proof.
  intros K. unfold scan_number_tail. repeat kstep; unfold nk4; cbn; auto.
Qed.

Lemma scan_number_kind ch rest sd : resP nk4 (scan_number L ch rest sd).
Proof.
  unfold scan_number. destruct sd; [apply scan_number_tail_kind; exact I|].
  repeat first
    [ match goal with
      | |- resP _ (scan_number_tail _ _ _ _ _ _ _ _ _ _) => apply scan_number_tail_kind; exact I
      end
    | kstep ]; unfold nk4; cbn; auto.
Qed.

Lemma ident_token_kind s : kind_ok (ident_token L s).
Proof.
  unfold ident_token.
  repeat match goal with |- context [if ?c then _ else _] => destruct c end; try exact I.
  destruct (assoc_str _ _); exact I.
Qed.

Definition nkt (a : token * Z * list Z) : Prop := kind_ok (tk (fst (fst a))).
Definition nko (a : option token * Z * list Z) : Prop :=
  match fst (fst a) with Some t => kind_ok (tk t) | None => True end.

Lemma scan_ident_kind ch rest : resP nkt (scan_ident L ch rest).
Proof.
  unfold scan_ident. repeat kstep. all: unfold nkt; cbn; try apply ident_token_kind.
Qed.

Lemma scan_variable_kind rest : resP nkt (scan_variable L rest).
Proof. unfold scan_variable. repeat kstep; unfold nkt; cbn; exact I. Qed.

Lemma scan_operator_kind ch rest : resP nkt (scan_operator ch rest).
Proof. unfold scan_operator. repeat kstep; unfold nkt; cbn; exact I. Qed.

Lemma resP_bind {A B} (Q : A -> Prop) (P : B -> Prop) (x : lres A) (f : A -> lres B) :
  resP Q x -> (forall a, Q a -> resP P (f a)) -> resP P (lbind x f).
Proof. destruct x; cbn; auto. Qed.

Lemma lex_tok_kind fuel ch rest : resP nko (lex_tok L fuel ch rest).
Proof.
  revert ch rest. induction fuel as [|f IH]; intros ch rest; [exact I|].
  cbn [lex_tok].
  apply resP_bind_any. intros [ch1 rest1].
  destruct (is_ident_rune L ch1 true).
  { eapply resP_bind; [apply scan_ident_kind|]. intros [[t c] r] K. exact K. }
  destruct (is_decimal ch1).
  { eapply resP_bind; [apply scan_number_kind|]. intros [[[k txt] c] r] K. exact K. }
  destruct (ch1 <? 0); [exact I|].
  destruct (ch1 =? 34).
  { apply resP_bind_any. intros [[c r] b]. exact I. }
  destruct (ch1 =? 36).
  { eapply resP_bind; [apply scan_variable_kind|]. intros [[t c] r] K. exact K. }
  destruct (ch1 =? 47).
  { apply resP_bind_any. intros [c r]. destruct (c =? 42); [|exact I].
    apply resP_bind_any. intros [c' r']. apply IH. }
  destruct (ch1 =? 46).
  { apply resP_bind_any. intros [c r]. destruct (is_decimal c); [|exact I].
    eapply resP_bind; [apply scan_number_kind|]. intros [[[k txt] c'] r'] K. exact K. }
  destruct (57344 <=? ch1); [exact I|].
  eapply resP_bind; [apply scan_operator_kind|]. intros [[t c] r] K. exact K.
Qed.

Lemma lex_all_total fuel ch rest :
  (msr ch rest < fuel)%nat -> ~ has_fuel_err (lex_all L fuel ch rest).
Proof.
  revert ch rest. induction fuel as [|f IH]; intros ch rest Hf; [lia|].
  cbn [lex_all].
  assert (Hm: (msr ch rest <= S (length rest))%nat) by (unfold msr; destruct (ch <? 0); cbn; lia).
  pose proof (lex_tok_good (length rest) ch rest Hm) as Ht.
  destruct (lex_tok L (S (length rest)) ch rest) as [[[[t|] c] r]|e] eqn:El; cbn [tok_good] in Ht.
  - intros [txt [Hin|Hin]].
    + assert (K: tk t <> TErr EOutOfFuel).
      { pose proof (lex_tok_kind (S (length rest)) ch rest) as Kd. rewrite El in Kd.
        cbn in Kd. intro K. rewrite K in Kd. exact Kd. }
      rewrite Hin in K. cbn in K. congruence.
    + apply (IH c r); [lia|]. exists txt. exact Hin.
  - intros [txt []].
  - intros [txt [Hin|[]]]. unfold err_tok in Hin. inversion Hin. congruence.
Qed.

(* C04, lexer half.  The fuel bounds: lex_all gets (2 + number of runes),
   lex_tok gets (1 + runes left), the identifier/string loops get
   (2 + runes left).  None is ever exhausted. *)
Theorem lex_runes_total l : ~ has_fuel_err (lex_runes L l).
Proof.
  unfold lex_runes.
  pose proof (next_good l) as Hn.
  destruct (next l) as [[ch rest]|e] eqn:En.
  - cbn [good fst snd p2] in Hn. apply lex_all_total.
    unfold msr in *. destruct (ch <? 0); cbn in *; lia.
  - cbn in Hn. intros [txt [Hin|[]]]. unfold err_tok in Hin. inversion Hin. congruence.
Qed.

Theorem lex_total s : ~ has_fuel_err (lex L s).
Proof. apply lex_runes_total. Qed.

(* lex_one (a single Lex call on fresh input) never runs out of fuel either *)
Theorem lex_one_total l : lex_one L l <> LErr EOutOfFuel.
Proof.
  unfold lex_one.
  pose proof (next_good l) as Hn.
  destruct (next l) as [[ch rest]|e] eqn:En; cbn [lbind].
  - assert (Hm: (msr ch rest <= S (length rest))%nat) by (unfold msr; destruct (ch <? 0); cbn; lia).
    pose proof (lex_tok_good (length rest) ch rest Hm) as Ht.
    destruct (lex_tok L (S (length rest)) ch rest) as [[[[t|] c] r]|e]; cbn in Ht; congruence.
  - cbn in Hn. congruence.
Qed.
End L.

Print Assumptions lex_total.
Print Assumptions lex_one_total.

(* ================================================================== *)
(* Part 2 (C03): the value of a token does not depend on what follows it.

   [lex_one L (w ++ rest)] is one Lex call of a fresh lexer on the runes
   w ++ rest.  "Leaves exactly rest" means: the returned lexer state (ch, tl)
   is the one-rune look-ahead view of rest. *)

Definition view (rest : list Z) : Z * list Z :=
  match rest with [] => (-1, []) | c :: r => (c, r) end.

(* the first rune of the continuation is something next() can read *)
Definition readable_head (rest : list Z) : bool :=
  match rest with [] => true | c :: _ => 0 <? c end.

Lemma next_view rest : readable_head rest = true -> next rest = LOk (view rest).
Proof.
  destruct rest as [|c r]; cbn; [reflexivity|]. intros H. unfold check.
  replace (c =? 0) with false by lia. replace (c <? 0) with false by lia. reflexivity.
Qed.

Definition head_not (bad : list Z) (rest : list Z) : bool :=
  match rest with [] => true | c :: _ => negb (existsb (Z.eqb c) bad) end.

(* operator and punctuation spellings: (runes, token kind, runes that must
   not follow because they would make a longer operator / a comment) *)
Definition op_table : list (list Z * tkind * list Z) :=
  [ ([61; 61], TEqual, []);            (* == *)
    ([33; 61], TNotEqual, []);         (* != *)
    ([60; 62], TNotEqual, []);         (* <> *)
    ([60], TLess, [61; 62]);           (* <  *)
    ([60; 61], TLessEq, []);           (* <= *)
    ([62], TGreater, [61]);            (* >  *)
    ([62; 61], TGreaterEq, []);        (* >= *)
    ([33], TNot, [61]);                (* !  *)
    ([38; 38], TAnd, []);              (* && *)
    ([124; 124], TOr, []);             (* || *)
    ([42; 42], TAny, []);              (* ** *)
    ([42], TChar 42, [42]);            (* *  *)
    ([43], TChar 43, []);              (* +  *)
    ([45], TChar 45, []);              (* -  *)
    ([37], TChar 37, []);              (* %  *)
    ([47], TChar 47, [42]);            (* /  *)
    ([40], TChar 40, []); ([41], TChar 41, []);
    ([91], TChar 91, []); ([93], TChar 93, []);
    ([123], TChar 123, []); ([125], TChar 125, []);
    ([44], TChar 44, []); ([63], TChar 63, []); ([64], TChar 64, []) ].

Definition op_entry_independent (L : GoLib) (e : list Z * tkind * list Z) : Prop :=
  let '(w, k, bad) := e in
  forall rest, readable_head rest = true -> head_not bad rest = true ->
    lex_one L (w ++ rest) =
      LOk (Some (mktok k (string_of_runes w)), fst (view rest), snd (view rest)).

Section Indep.
Variable L : GoLib.
Hypothesis HL : Laws L.

Lemma not_ident_ascii c b :
  0 <= c < 128 ->
  ((65 <=? c) && (c <=? 90)) || ((97 <=? c) && (c <=? 122)) || (c =? 95) || (c =? 92) = false ->
  is_ident_rune L c b = false \/ b = false.
Proof.
  intros R H. destruct b; [left|right; reflexivity].
  unfold is_ident_rune. rewrite (xid_start_ascii L HL) by exact R.
  destruct (c =? 95) eqn:A; [lia|]. destruct (c =? 92) eqn:B; [lia|]. cbn.
  destruct (0 <=? c); cbn; [|reflexivity]. lia.
Qed.

Lemma ident_start_false c :
  0 <= c < 128 ->
  ((65 <=? c) && (c <=? 90)) || ((97 <=? c) && (c <=? 122)) || (c =? 95) || (c =? 92) = false ->
  is_ident_rune L c true = false.
Proof. intros R H. destruct (not_ident_ascii c true R H); [assumption|discriminate]. Qed.

Lemma skip_ws_not ch rest : is_ws ch = false -> skip_ws ch rest = LOk (ch, rest).
Proof. intros H. destruct rest; cbn [skip_ws]; rewrite H; reflexivity. Qed.

(* Lex dispatches a rune that starts no identifier, number, string, variable,
   comment or ".5" to scanOperator *)
Lemma lex_tok_op f ch rest :
  is_ws ch = false -> is_ident_rune L ch true = false -> is_decimal ch = false ->
  (ch <? 0) = false -> (ch =? 34) = false -> (ch =? 36) = false -> (ch =? 47) = false ->
  (ch =? 46) = false -> (57344 <=? ch) = false ->
  lex_tok L (S f) ch rest = (let* (t, c, r) := scan_operator ch rest in LOk (Some t, c, r)).
Proof.
  intros H1 H2 H3 H4 H5 H6 H7 H8 H9. cbn [lex_tok]. rewrite skip_ws_not by exact H1. cbn [lbind].
  rewrite H2, H3, H4, H5, H6, H7, H8, H9. reflexivity.
Qed.

Lemma lex_tok_slash f rest :
  head_not [42] rest = true -> readable_head rest = true ->
  lex_tok L (S f) 47 rest = LOk (Some (mktok (TChar 47) "/"), fst (view rest), snd (view rest)).
Proof.
  intros Hb Hr. cbn [lex_tok]. rewrite skip_ws_not by reflexivity. cbn [lbind].
  rewrite ident_start_false by (cbn; first [lia|reflexivity]).
  change (is_decimal 47) with false. change (47 <? 0) with false. change (47 =? 34) with false.
  change (47 =? 36) with false. change (47 =? 47) with true. cbn iota.
  rewrite next_view by exact Hr. cbn [lbind].
  destruct rest as [|c r]; cbn [view fst snd]; [reflexivity|].
  cbn [head_not existsb orb negb] in Hb.
  replace (c =? 42) with false by (destruct (c =? 42); [discriminate|reflexivity]). reflexivity.
Qed.

Theorem operators_independent : Forall (op_entry_independent L) op_table.
Proof.
  unfold op_table.
  repeat (apply Forall_cons; [|]); try apply Forall_nil.
  all: unfold op_entry_independent; intros rest Hr Hb.
  all: unfold lex_one; cbn [app next check lbind length].
  all: try (change (check 47) with (LOk tt); cbn [lbind]; apply lex_tok_slash; assumption).
  all: match goal with |- context [check ?c] => change (check c) with (LOk tt) end; cbn [lbind].
  all: rewrite lex_tok_op;
    [ | reflexivity | apply ident_start_false; [lia|reflexivity] | reflexivity | reflexivity
      | reflexivity | reflexivity | reflexivity | reflexivity | reflexivity ].
  all: unfold scan_operator.
  all: destruct rest as [|c r];
    [ cbn; reflexivity
    | cbn [head_not readable_head existsb orb negb] in Hr, Hb;
      assert (Hc: check c = LOk tt)
        by (unfold check; replace (c =? 0) with false by lia; replace (c <? 0) with false by lia; reflexivity);
      cbn [next lbind app];
      repeat match goal with
             | |- context [check c] => rewrite Hc
             | |- context [check ?n] => change (check n) with (LOk tt)
             end;
      cbn [lbind Z.eqb view fst snd Pos.eqb next];
      repeat match goal with
             | |- context [check c] => rewrite Hc; cbn [lbind]
             end;
      repeat match goal with
             | |- context [c =? ?n] => first [ replace (c =? n) with false by lia | destruct (c =? n) eqn:? ]
             end;
      try reflexivity; try lia ].
Qed.
End Indep.

(* ---- decimal integer literals ---- *)
Section IntLit.
Variable L : GoLib.
Hypothesis HL : Laws L.

(* what may follow a decimal integer literal: end of input, or a readable rune
   that is not a digit, '_', '.', 'e'/'E', and does not start an identifier
   (neither itself nor its lower-cased form, which is what scanNumber tests) *)
Definition int_boundary (rest : list Z) : bool :=
  match rest with
  | [] => true
  | c :: _ =>
      (0 <? c) && negb (is_decimal c) && negb (c =? 95) && negb (c =? 46) &&
      negb (lower c =? 101) && negb (is_ident_rune L (lower c) true) && negb (is_ident_rune L c true)
  end.

Lemma digits_step_dec c r ch acc ds inv :
  is_decimal ch = true -> 0 < c ->
  digits 10 ch (c :: r) acc ds inv = digits 10 c r (acc ++ [ch]) (Z.lor ds 1) inv.
Proof.
  intros Hd Hc. cbn [digits]. change (10 <=? 10) with true. cbn iota. rewrite Hd. cbn [orb].
  assert (E95: (ch =? 95) = false) by (unfold is_decimal in Hd; lia). rewrite E95.
  unfold check. replace (c =? 0) with false by lia. replace (c <? 0) with false by lia. cbn [lbind].
  assert ((48 + 10 <=? ch) = false) by (unfold is_decimal in Hd; lia).
  rewrite H. rewrite !andb_false_r. cbn [negb andb]. reflexivity.
Qed.

Lemma digits_stop base ch rest acc ds inv :
  (if base <=? 10 then is_decimal ch else is_hex ch) || (ch =? 95) = false ->
  digits base ch rest acc ds inv = LOk (ch, rest, acc, ds, inv).
Proof. intros H. destruct rest; cbn [digits]; rewrite H; reflexivity. Qed.

Lemma digits10_run ds : forall ch rest acc dsb,
  is_decimal ch = true -> forallb is_decimal ds = true -> int_boundary rest = true ->
  digits 10 ch (ds ++ rest) acc dsb 0 =
    LOk (fst (view rest), snd (view rest), acc ++ ch :: ds, Z.lor dsb 1, 0).
Proof.
  induction ds as [|d ds IH]; intros ch rest acc dsb Hch Hds Hb.
  - cbn [app]. destruct rest as [|c r].
    + cbn [digits]. change (10 <=? 10) with true. cbn iota. rewrite Hch. cbn [orb view fst snd].
      assert (E95: (ch =? 95) = false) by (unfold is_decimal in Hch; lia). rewrite E95.
      assert ((48 + 10 <=? ch) = false) by (unfold is_decimal in Hch; lia).
      rewrite H. rewrite !andb_false_r. reflexivity.
    + cbn [int_boundary] in Hb.
      repeat (apply andb_prop in Hb as [Hb ?]).
      rewrite digits_step_dec by (assumption || lia).
      rewrite digits_stop.
      * cbn [view fst snd]. reflexivity.
      * change (10 <=? 10) with true. cbn iota.
        destruct (is_decimal c); [discriminate|]. destruct (c =? 95); [discriminate|]. reflexivity.
  - cbn [app forallb] in *. apply andb_prop in Hds as [Hd Hds].
    assert (0 < d) by (unfold is_decimal in Hd; lia).
    rewrite digits_step_dec by assumption.
    rewrite IH by assumption.
    rewrite <- app_assoc. cbn [app]. rewrite <- Z.lor_assoc. rewrite Z.lor_diag. reflexivity.
Qed.

Lemma boundary_view rest :
  int_boundary rest = true ->
  let c := fst (view rest) in
  (c =? 46) = false /\ (lower c =? 101) = false /\
  is_ident_rune L (lower c) true = false /\ is_ident_rune L c true = false.
Proof.
  destruct rest as [|c r]; cbn [int_boundary view fst].
  - intros _. repeat split; reflexivity.
  - intros Hb. repeat (apply andb_prop in Hb as [Hb ?]).
    repeat match goal with H : negb _ = true |- _ => apply negb_true_iff in H end.
    repeat split; assumption.
Qed.

Lemma digit_not_ident d : is_decimal d = true -> is_ident_rune L d true = false.
Proof.
  intros Hd. unfold is_decimal in Hd. unfold is_ident_rune.
  rewrite (xid_start_ascii L HL) by lia.
  replace (d =? 95) with false by lia. replace (d =? 92) with false by lia.
  cbn [orb]. replace (0 <=? d) with true by lia. cbn [andb]. lia.
Qed.

(* C03, decimal integers: a literal d1 d2 ... dn without leading zero is the
   INT token with exactly that text, whatever follows it (within the
   boundary), end of input included. *)
Theorem decimal_int_independent d ds rest :
  is_decimal d = true -> d <> 48 -> forallb is_decimal ds = true ->
  int_boundary rest = true ->
  lex_one L ((d :: ds) ++ rest) =
    LOk (Some (mktok TInt (str_of_bytes (d :: ds))), fst (view rest), snd (view rest)).
Proof.
  intros Hd H0 Hds Hb.
  unfold lex_one. cbn [app next].
  assert (Hc: check d = LOk tt).
  { unfold check, is_decimal in *. replace (d =? 0) with false by lia. replace (d <? 0) with false by lia. reflexivity. }
  rewrite Hc. cbn [lbind].
  cbn [lex_tok]. rewrite skip_ws_not by (unfold is_ws, is_decimal in *; lia). cbn [lbind].
  rewrite digit_not_ident by exact Hd. rewrite Hd.
  unfold scan_number. replace (d =? 48) with false by lia. cbn [lbind].
  replace (d =? 95) with false by (unfold is_decimal in Hd; lia).
  rewrite digits10_run by assumption. cbn [lbind app].
  change (Z.land (Z.lor 0 (Z.lor 0 1)) 1 =? 0) with false. cbn iota.
  destruct (boundary_view rest Hb) as [B1 [B2 [B3 B4]]]. cbn zeta in *.
  rewrite B1. unfold scan_number_tail. cbn [lbind].
  rewrite B2, B3. cbn [lbind].
  change (0 =? 0) with true. cbn [negb andb].
  change (Z.land (Z.lor 0 (Z.lor 0 1)) 2 =? 0) with true. cbn [negb andb].
  rewrite B4. reflexivity.
Qed.

(* ... and it denotes its mathematical value: NewInteger of the token text is
   the decimal value of the digits, or a range error iff that exceeds int64 *)
Theorem decimal_int_value l :
  canon_nat_text l = true ->
  parse_int0 L (str_of_bytes l) = if dec_value l <=? max_int64 then Some (dec_value l) else None.
Proof. apply (parse_int0_dec L HL). Qed.
End IntLit.

Print Assumptions operators_independent.
Print Assumptions decimal_int_independent.
