(* ParseMono.v — the parser's result does not depend on the fuel once the
   fuel suffices: more fuel never changes a result other than EFuel. *)
From SJ Require Import lib.Base lib.Utf8 lib.GoLib model.Json model.Ast model.Lexer model.Parser
  proofs.LexProofs proofs.ParseProofs.
Local Open Scope list_scope.
Local Open Scope parse_scope.

Definition le_res {A} (a b : pres A) : Prop := a = RErr EFuel \/ a = b.

Lemma le_refl {A} (a : pres A) : le_res a a.
Proof. right; reflexivity. Qed.

Lemma le_bind {A B} (x x' : pres A) (g g' : A -> pres B) :
  le_res x x' -> (forall a, le_res (g a) (g' a)) -> le_res (rbind x g) (rbind x' g').
Proof.
  intros [E|E] H; subst.
  - left. reflexivity.
  - destruct x' as [a|e]; cbn; [apply H|right; reflexivity].
Qed.

Ltac lstep :=
  match goal with
  | |- le_res ?a ?a => apply le_refl
  | |- le_res (rbind _ _) (rbind _ _) => apply le_bind; [|intros ?]
  | |- le_res (match ?x with _ => _ end) (match ?x with _ => _ end) => destruct x
  | |- le_res (if ?c then _ else _) (if ?c then _ else _) => destruct c
  | |- le_res (let (_, _) := ?p in _) (let (_, _) := ?p in _) => destruct p
  end.

Section L.
Variable L : GoLib.

Definition mono_spec (f : nat) : Prop :=
  (forall po ts, le_res (p_unary L f po ts) (p_unary L (S f) po ts)) /\
  (forall minp po ts, le_res (p_eop L f minp po ts) (p_eop L (S f) minp po ts)) /\
  (forall minp s lhs ts, le_res (p_loop L f minp s lhs ts) (p_loop L (S f) minp s lhs ts)) /\
  (forall ts, le_res (p_accs L f ts) (p_accs L (S f) ts)) /\
  (forall ts, le_res (p_index L f ts) (p_index L (S f) ts)).

Lemma mono_all : forall f, mono_spec f.
Proof.
  induction f as [|f [IHu [IHe [IHl [IHa IHi]]]]].
  { unfold mono_spec. repeat split; intros; left; reflexivity. }
  Ltac mstep IHu IHe IHl IHa IHi :=
    first [ apply IHu | apply IHe | apply IHl | apply IHa | apply IHi | lstep ].
  unfold mono_spec. repeat split; intros.
  - rewrite (p_unary_S L (S f)), (p_unary_S L f). repeat mstep IHu IHe IHl IHa IHi.
  - rewrite (p_eop_S L (S f)), (p_eop_S L f). repeat mstep IHu IHe IHl IHa IHi.
  - rewrite (p_loop_S L (S f)), (p_loop_S L f). repeat mstep IHu IHe IHl IHa IHi.
  - rewrite (p_accs_S L (S f)), (p_accs_S L f). repeat mstep IHu IHe IHl IHa IHi.
  - rewrite (p_index_S L (S f)), (p_index_S L f). repeat mstep IHu IHe IHl IHa IHi.
Qed.

Lemma p_eop_mono f f' minp po ts r :
  (f <= f')%nat -> p_eop L f minp po ts = r -> r <> RErr EFuel -> p_eop L f' minp po ts = r.
Proof.
  intros Hle. induction Hle as [|f' Hle IH]; intros E N; [exact E|].
  specialize (IH E N). destruct (mono_all f') as [_ [He _]].
  destruct (He minp po ts) as [A|A]; congruence.
Qed.
End L.
