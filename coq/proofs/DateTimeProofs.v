(* DateTimeProofs.v — theorems about the datetime model (Civil/GoTime/DateTime).
   Stdlib + lia only.  Every theorem is followed by Print Assumptions. *)
From Coq Require Import ZifyBool.
From SJ Require Import lib.Base model.Json model.Civil model.GoTime model.DateTime.
Open Scope Z_scope.

Ltac Zify.zify_post_hook ::= Z.div_mod_to_equations.

Local Notation "a +++ b" := (String.append a b) (at level 60, right associativity).

(* ================================================================== *)
(* 1. civil_roundtrip                                                  *)
(* ================================================================== *)

Theorem civil_roundtrip :
  (forall z, let '(y, m, d) := civil_from_days z in days_from_civil y m d = z) /\
  (forall y m d, valid_ymd y m d -> civil_from_days (days_from_civil y m d) = (y, m, d)).
Proof. split; [exact days_civil_roundtrip | exact civil_days_roundtrip]. Qed.
Print Assumptions civil_roundtrip.

(* ================================================================== *)
(* 2. Kinds, families                                                  *)
(* ================================================================== *)

Definition zoneless (k : dtkind) : bool :=
  match k with KDate | KTime | KTimestamp => true | KTimeTZ | KTimestampTZ => false end.

Definition time_like (k : dtkind) : bool :=
  match k with KTime | KTimeTZ => true | _ => false end.

Definition target_kind (t : dttarget) : dtkind :=
  match t with
  | TDate => KDate | TTime => KTime | TTimeTZ => KTimeTZ
  | TTimestamp => KTimestamp | TTimestampTZ => KTimestampTZ
  end.

(* PostgreSQL's datetime cast matrix: the target's components must be present
   in the source (date part, time part; a zone can be supplied by the context
   only next to a time of day of the same family). *)
Definition convertible (t : dttarget) (k : dtkind) : bool :=
  match t, k with
  | TDate, (KDate | KTimestamp | KTimestampTZ) => true
  | TTime, (KTime | KTimeTZ | KTimestamp | KTimestampTZ) => true
  | TTimeTZ, (KTime | KTimeTZ | KTimestampTZ) => true
  | TTimestamp, (KDate | KTimestamp | KTimestampTZ) => true
  | TTimestampTZ, (KDate | KTimestamp | KTimestampTZ) => true
  | _, _ => false
  end.

(* one side zone-less, the other zone-aware *)
Definition mixes (a b : dtkind) : bool := xorb (zoneless a) (zoneless b).

Definition comparable (a b : dtkind) : bool := Bool.eqb (time_like a) (time_like b).

(* ================================================================== *)
(* 3. cast_tz_guard                                                    *)
(* ================================================================== *)

Theorem cast_tz_guard :
  (* without WithTZ every convertible pair mixing zone-less and zone-aware is refused *)
  (forall t ctx d,
      convertible t (dt_kind d) = true -> mixes (target_kind t) (dt_kind d) = true ->
      exec_cast t false ctx d = CastTZRequired) /\
  (* with WithTZ no cast asks for it *)
  (forall t ctx d, exec_cast t true ctx d <> CastTZRequired) /\
  (* the other entries of the matrix do not depend on WithTZ *)
  (forall t u ctx d, convertible t (dt_kind d) = false -> exec_cast t u ctx d = CastNotRecognized) /\
  (forall t u ctx d,
      convertible t (dt_kind d) = true -> mixes (target_kind t) (dt_kind d) = false ->
      exists d', exec_cast t u ctx d = CastOk d' /\ exec_cast t true ctx d = CastOk d').
Proof.
  repeat split.
  - intros t ctx [k s n o]; destruct t, k; cbn; intros; try discriminate; reflexivity.
  - intros t ctx [k s n o]; destruct t, k; cbn; discriminate.
  - intros t u ctx [k s n o]; destruct t, k; cbn; intros; try discriminate; reflexivity.
  - intros t u ctx [k s n o]; destruct t, k; cbn; intros; try discriminate;
      eexists; split; reflexivity.
Qed.
Print Assumptions cast_tz_guard.

(* The 5x5 matrix itself, as a finite statement over kinds (the lifting over
   all values and contexts is cast_tz_guard above). *)
Definition all_targets := [TDate; TTime; TTimeTZ; TTimestamp; TTimestampTZ].
Definition all_kinds := [KDate; KTime; KTimeTZ; KTimestamp; KTimestampTZ].

Lemma cast_matrix_tz_pairs :
  filter (fun p => convertible (fst p) (snd p) && mixes (target_kind (fst p)) (snd p))
         (list_prod all_targets all_kinds)
  = [(TDate, KTimestampTZ); (TTime, KTimeTZ); (TTime, KTimestampTZ); (TTimeTZ, KTime);
     (TTimestamp, KTimestampTZ); (TTimestampTZ, KDate); (TTimestampTZ, KTimestamp)].
Proof. reflexivity. Qed.

(* ================================================================== *)
(* 4. compare_tz_guard                                                 *)
(* ================================================================== *)

Theorem compare_tz_guard :
  (forall ctx a b,
      comparable (dt_kind a) (dt_kind b) = true -> mixes (dt_kind a) (dt_kind b) = true ->
      compare_datetime false ctx a b = CmpTZRequired) /\
  (forall u ctx a b,
      comparable (dt_kind a) (dt_kind b) = false -> compare_datetime u ctx a b = CmpIncomparable) /\
  (forall u ctx a b,
      comparable (dt_kind a) (dt_kind b) = true -> mixes (dt_kind a) (dt_kind b) = false ->
      exists c, compare_datetime u ctx a b = CmpOk c /\ compare_datetime true ctx a b = CmpOk c) /\
  (forall u ctx a b, dt_kind a = dt_kind b -> exists c, compare_datetime u ctx a b = CmpOk c) /\
  (forall ctx a b, compare_datetime true ctx a b <> CmpTZRequired).
Proof.
  repeat split.
  - intros ctx [ka sa na oa] [kb sb nb ob]; destruct ka, kb; cbn; intros; try discriminate; reflexivity.
  - intros u ctx [ka sa na oa] [kb sb nb ob]; destruct ka, kb; cbn; intros; try discriminate; reflexivity.
  - intros u ctx [ka sa na oa] [kb sb nb ob]; destruct ka, kb; cbn; intros; try discriminate;
      eexists; split; reflexivity.
  - intros u ctx [ka sa na oa] [kb sb nb ob]; cbn [dt_kind]; intros ->; destruct kb; cbn;
      eexists; reflexivity.
  - intros ctx [ka sa na oa] [kb sb nb ob]; destruct ka, kb; cbn; discriminate.
Qed.
Print Assumptions compare_tz_guard.

(* ================================================================== *)
(* 5. compare_antisym                                                  *)
(* ================================================================== *)

Lemma inst_compare_antisym s1 n1 s2 n2 :
  inst_compare s2 n2 s1 n1 = - inst_compare s1 n1 s2 n2.
Proof.
  unfold inst_compare.
  destruct (Z.ltb_spec s1 s2), (Z.ltb_spec s2 s1), (Z.ltb_spec n1 n2), (Z.ltb_spec n2 n1);
    try reflexivity; lia.
Qed.

Lemma inst_compare_range s1 n1 s2 n2 : -1 <= inst_compare s1 n1 s2 n2 <= 1.
Proof.
  unfold inst_compare.
  destruct (s1 <? s2), (s2 <? s1), (n1 <? n2), (n2 <? n1); lia.
Qed.

Lemma dt_compare_antisym a b : dt_compare b a = - dt_compare a b.
Proof. unfold dt_compare. apply inst_compare_antisym. Qed.

Lemma timetz_compare_antisym a b : timetz_compare b a = - timetz_compare a b.
Proof.
  unfold timetz_compare. rewrite (dt_compare_antisym a b).
  pose proof (inst_compare_range (dt_sec a) (dt_nsec a) (dt_sec b) (dt_nsec b)) as Hr.
  fold (dt_compare a b) in Hr.
  destruct (Z.eqb_spec (dt_compare a b) 0) as [E|E].
  - rewrite E. cbn.
    destruct (Z.ltb_spec (dt_off a) (dt_off b)), (Z.ltb_spec (dt_off b) (dt_off a)); try reflexivity; lia.
  - destruct (Z.eqb_spec (- dt_compare a b) 0); [lia|]. reflexivity.
Qed.

(* No well-formedness hypothesis is needed. *)
Theorem compare_antisym u ctx a b c :
  compare_datetime u ctx a b = CmpOk c -> compare_datetime u ctx b a = CmpOk (- c).
Proof.
  destruct a as [ka sa na oa], b as [kb sb nb ob].
  destruct ka, kb, u; cbn [compare_datetime dt_kind]; intros H; try discriminate;
    injection H as <-;
    rewrite ?Z.opp_involutive;
    first [ rewrite <- dt_compare_antisym; reflexivity
          | rewrite <- timetz_compare_antisym; reflexivity
          | reflexivity ].
Qed.
Print Assumptions compare_antisym.

Theorem compare_result_range u ctx a b c :
  compare_datetime u ctx a b = CmpOk c -> -1 <= c <= 1.
Proof.
  assert (Hd : forall x y, -1 <= dt_compare x y <= 1) by (intros; apply inst_compare_range).
  assert (Ht : forall x y, -1 <= timetz_compare x y <= 1).
  { intros x y. unfold timetz_compare. specialize (Hd x y).
    destruct (negb (dt_compare x y =? 0)); [exact Hd|].
    destruct (dt_off y <? dt_off x); [lia|]. destruct (dt_off x <? dt_off y); lia. }
  destruct a as [ka sa na oa], b as [kb sb nb ob].
  destruct ka, kb, u; cbn [compare_datetime dt_kind]; intros H; try discriminate;
    injection H as <-;
    match goal with
    | |- context [timetz_compare ?x ?y] => specialize (Ht x y); lia
    | |- context [dt_compare ?x ?y] => specialize (Hd x y); lia
    end.
Qed.
Print Assumptions compare_result_range.

(* ================================================================== *)
(* 6. unmarshal_total: UnmarshalJSON never panics                      *)
(* ================================================================== *)

Lemma string_get_some s : forall n, (n < String.length s)%nat -> exists c, String.get n s = Some c.
Proof.
  induction s as [|c s IH]; intros n Hn; simpl in Hn; [lia|].
  destruct n as [|n]; simpl; [eauto|]. apply IH. lia.
Qed.

Lemma go_index_ok s i : 0 <= i < go_len s -> exists c, go_index s i = Ret c.
Proof.
  intros Hi. unfold go_index.
  destruct (Z.ltb_spec i 0); [lia|]. destruct (Z.leb_spec (go_len s) i); [lia|]. cbn.
  destruct (string_get_some s (Z.to_nat i)) as [c Hc]; [unfold go_len in Hi; lia|].
  rewrite Hc. eauto.
Qed.

Lemma go_slice_ok s lo hi : 0 <= lo <= hi -> hi <= go_len s -> exists r, go_slice s lo hi = Ret r.
Proof.
  intros H1 H2. unfold go_slice.
  destruct (Z.ltb_spec lo 0); [lia|]. destruct (Z.ltb_spec hi lo); [lia|].
  destruct (Z.ltb_spec (go_len s) hi); [lia|]. cbn. eauto.
Qed.

Lemma unquote_total data : exists r, unquote data = Ret r.
Proof.
  unfold unquote. destruct (Z.leb_spec 2 (go_len data)) as [H|H]; [|eauto].
  destruct (go_index_ok data 0 ltac:(lia)) as [c0 ->]. cbn [bindo].
  destruct (Ascii.eqb c0 ch_quote); [|eauto].
  destruct (go_index_ok data (go_len data - 1) ltac:(lia)) as [c1 ->]. cbn [bindo].
  destruct (Ascii.eqb c1 ch_quote); [|eauto].
  apply go_slice_ok; lia.
Qed.

Lemma sign_at_total str place : 0 < place -> exists b, sign_at str place = Ret b.
Proof.
  intros Hp. unfold sign_at. destruct (Z.leb_spec place (go_len str)) as [H|H]; [|eauto].
  destruct (go_index_ok str (go_len str - place) ltac:(lia)) as [c ->]. cbn [bindo].
  destruct (Ascii.eqb c ch_dash); eauto.
Qed.

Lemma tz_format_for_total str : exists f, tz_format_for str = Ret f.
Proof.
  unfold tz_format_for.
  destruct (sign_at_total str 9 ltac:(lia)) as [b9 ->]. cbn [bindo].
  destruct b9; [eauto|].
  destruct (sign_at_total str 6 ltac:(lia)) as [b6 ->]. cbn [bindo].
  destruct b6; eauto.
Qed.

(* For ALL byte strings and all five types: a result or an error, never a
   run-time panic (index/slice out of range), never out of fuel. *)
Theorem unmarshal_total k s : exists r, dt_unmarshal_json k s = Ret r.
Proof.
  unfold dt_unmarshal_json.
  destruct (unquote_total s) as [str ->]. cbn [bindo].
  destruct k; try (eexists; reflexivity);
    destruct (tz_format_for_total str) as [f ->]; cbn [bindo]; eexists; reflexivity.
Qed.
Print Assumptions unmarshal_total.

(* ================================================================== *)
(* 7. Normal forms of time.Date and of the constructors                *)
(* ================================================================== *)

Lemma zone_local_to_unix_fixed o l : zone_local_to_unix (ZFixed o) l = l - o.
Proof.
  unfold zone_local_to_unix, zone_offset_at. cbn [zone_lookup].
  destruct (Z.eqb_spec o 0) as [->|_]; [lia|].
  destruct ((l - o <? alpha) || (omega <=? l - o)); reflexivity.
Qed.

Lemma g_off_fixed s n o : g_off (mkg s n (ZFixed o)) = o.
Proof. reflexivity. Qed.

Lemma g_ymd_fields t : g_ymd t = (g_year t, g_month t, g_day t).
Proof. unfold g_year, g_month, g_day. destruct (g_ymd t) as [[y m] d]. reflexivity. Qed.

Lemma g_ymd_valid t : valid_ymd (g_year t) (g_month t) (g_day t).
Proof.
  pose proof (civil_from_days_valid (g_days t)) as H. fold (g_ymd t) in H.
  rewrite g_ymd_fields in H. exact H.
Qed.

Lemma g_ymd_days t : days_from_civil (g_year t) (g_month t) (g_day t) = g_days t.
Proof.
  pose proof (days_civil_roundtrip (g_days t)) as H. fold (g_ymd t) in H.
  rewrite g_ymd_fields in H. exact H.
Qed.

Lemma g_hms_sod t : g_hour t * 3600 + g_minute t * 60 + g_second t = g_sod t.
Proof.
  unfold g_hour, g_minute, g_second.
  pose proof (Z.mod_pos_bound (g_local t) secs_per_day ltac:(unfold secs_per_day; lia)) as Hb.
  fold (g_sod t) in Hb. unfold secs_per_day in Hb. lia.
Qed.

Lemma g_days_sod t : g_days t * 86400 + g_sod t = g_local t.
Proof. unfold g_days, g_sod, secs_per_day. lia. Qed.

Lemma g_sod_range t : 0 <= g_sod t < 86400.
Proof. unfold g_sod, secs_per_day. lia. Qed.

(* time.Date with an in-range month and nanosecond field *)
Lemma go_date_norm y mo d h mi s ns loc :
  1 <= mo <= 12 -> 0 <= ns < 1000000000 ->
  go_date y mo d h mi s ns loc =
  mkg (zone_local_to_unix loc (days_from_civil y mo d * 86400 + h * 3600 + mi * 60 + s)) ns loc.
Proof.
  intros Hm Hn. unfold go_date, nanos_per_sec, secs_per_day. cbv zeta.
  replace ((mo - 1) / 12) with 0 by lia.
  replace ((mo - 1) mod 12 + 1) with mo by lia.
  replace (ns / 1000000000) with 0 by lia.
  replace (ns mod 1000000000) with ns by lia.
  rewrite !Z.add_0_r. reflexivity.
Qed.

(* time.Date(t.Year(), t.Month(), t.Day(), h, mi, s, ns, loc) *)
Lemma go_date_ymd t h mi s ns loc :
  0 <= ns < 1000000000 ->
  go_date (g_year t) (g_month t) (g_day t) h mi s ns loc =
  mkg (zone_local_to_unix loc (g_days t * 86400 + h * 3600 + mi * 60 + s)) ns loc.
Proof.
  intros Hn. destruct (valid_bounds _ _ _ (g_ymd_valid t)) as [Hm _].
  rewrite go_date_norm by assumption. rewrite g_ymd_days. reflexivity.
Qed.

(* time.Date(t.Year(), ..., t.Nanosecond(), loc): the wall clock of t, read in loc *)
Lemma go_date_fields t loc :
  0 <= g_nsec t < 1000000000 ->
  go_date (g_year t) (g_month t) (g_day t) (g_hour t) (g_minute t) (g_second t) (g_nsec t) loc =
  mkg (zone_local_to_unix loc (g_local t)) (g_nsec t) loc.
Proof.
  intros Hn. rewrite go_date_ymd by assumption.
  replace (g_days t * 86400 + g_hour t * 3600 + g_minute t * 60 + g_second t) with (g_local t)
    by (pose proof (g_hms_sod t); pose proof (g_days_sod t); lia).
  reflexivity.
Qed.

Definition nsec_ok (t : gtime) : Prop := 0 <= g_nsec t < 1000000000.

Lemma new_timestamptz_nf t : nsec_ok t ->
  new_timestamptz t = mkdt KTimestampTZ (g_sec t) (g_nsec t) (g_off t).
Proof.
  intros Hn. unfold new_timestamptz, offset_location_for, of_g.
  rewrite go_date_fields by assumption. rewrite zone_local_to_unix_fixed.
  cbn [g_sec g_nsec]. rewrite g_off_fixed. f_equal. unfold g_local. lia.
Qed.

Lemma new_timestamp_nf t : nsec_ok t ->
  new_timestamp t = mkdt KTimestamp (g_local t) (g_nsec t) 0.
Proof.
  intros Hn. unfold new_timestamp, of_g.
  rewrite go_date_fields by assumption. rewrite zone_local_to_unix_fixed.
  cbn [g_sec g_nsec]. rewrite g_off_fixed. f_equal. lia.
Qed.

Lemma new_date_nf t : new_date t = mkdt KDate (g_days t * 86400) 0 0.
Proof.
  unfold new_date, of_g. rewrite go_date_ymd by lia. rewrite zone_local_to_unix_fixed.
  cbn [g_sec g_nsec]. rewrite g_off_fixed. f_equal. lia.
Qed.

Lemma new_time_nf t : nsec_ok t ->
  new_time t = mkdt KTime (day0 * 86400 + g_sod t) (g_nsec t) 0.
Proof.
  intros Hn. unfold new_time, of_g. rewrite go_date_norm by (assumption || lia).
  rewrite zone_local_to_unix_fixed. cbn [g_sec g_nsec]. rewrite g_off_fixed.
  fold day0. f_equal. pose proof (g_hms_sod t). lia.
Qed.

Lemma new_timetz_nf t : nsec_ok t ->
  new_timetz t = mkdt KTimeTZ (day0 * 86400 + g_sod t - g_off t) (g_nsec t) (g_off t).
Proof.
  intros Hn. unfold new_timetz, offset_location_for, of_g. rewrite go_date_norm by (assumption || lia).
  rewrite zone_local_to_unix_fixed. cbn [g_sec g_nsec]. rewrite g_off_fixed.
  fold day0. f_equal. pose proof (g_hms_sod t). lia.
Qed.

(* the accessors of a stored value *)
Lemma to_g_local d : g_local (to_g d) = dt_sec d + dt_off d.
Proof. reflexivity. Qed.
Lemma to_g_off d : g_off (to_g d) = dt_off d.
Proof. reflexivity. Qed.

(* ================================================================== *)
(* 8. Casts in normal form                                             *)
(* ================================================================== *)

(* The instant time.Date picks for the wall clock reading l in zone z, and
   the fixed offset the result is stored with. *)
Definition tstz_of_local (z : zone) (l ns : Z) : datetime :=
  let u := zone_local_to_unix z l in mkdt KTimestampTZ u ns (zone_offset_at z u).

Lemma to_timestamptz_of_timestamp ctx d :
  dt_kind d = KTimestamp -> wf_nsec d ->
  dt_to_timestamptz ctx d = tstz_of_local (tz ctx) (dt_sec d + dt_off d) (dt_nsec d).
Proof.
  intros Hk Hn. unfold dt_to_timestamptz, wall_in_ctx. rewrite Hk.
  rewrite go_date_fields by exact Hn.
  rewrite new_timestamptz_nf by exact Hn. reflexivity.
Qed.

Lemma to_timestamptz_of_date ctx d :
  dt_kind d = KDate ->
  dt_to_timestamptz ctx d =
  tstz_of_local (tz ctx) ((dt_sec d + dt_off d) / 86400 * 86400) 0.
Proof.
  intros Hk. unfold dt_to_timestamptz. rewrite Hk.
  rewrite go_date_ymd by lia.
  rewrite new_timestamptz_nf by (unfold nsec_ok; cbn; lia).
  unfold tstz_of_local. cbn [g_sec g_nsec]. unfold g_off. cbn [g_loc g_sec].
  unfold g_days. rewrite to_g_local. unfold secs_per_day.
  rewrite !Z.add_0_r. reflexivity.
Qed.

Lemma to_timestamptz_kind ctx d : dt_kind (dt_to_timestamptz ctx d) = KTimestampTZ.
Proof. unfold dt_to_timestamptz. destruct (dt_kind d) eqn:E; try reflexivity. exact E. Qed.

Lemma to_timetz_kind ctx d : dt_kind (dt_to_timetz ctx d) = KTimeTZ.
Proof. unfold dt_to_timetz. destruct (dt_kind d) eqn:E; try reflexivity. exact E. Qed.

(* ================================================================== *)
(* 9. compare_cast_coherent                                            *)
(* ================================================================== *)

(* With WithTZ, comparing a date or timestamp with a timestamptz is comparing
   after the explicit cast of the zone-less side to timestamptz in the
   context zone — in both argument orders, for every zone (fixed or table). *)
Theorem compare_cast_coherent ctx a b :
  (dt_kind a = KDate \/ dt_kind a = KTimestamp) -> dt_kind b = KTimestampTZ ->
  compare_datetime true ctx a b = compare_datetime true ctx (dt_to_timestamptz ctx a) b /\
  compare_datetime true ctx b a = compare_datetime true ctx b (dt_to_timestamptz ctx a).
Proof.
  intros Ha Hb.
  pose proof (to_timestamptz_kind ctx a) as Hk.
  unfold compare_datetime. rewrite Hk, Hb.
  destruct Ha as [-> | ->]; split; reflexivity.
Qed.
Print Assumptions compare_cast_coherent.

(* The time family: time vs timetz is timetz vs timetz after Time.ToTimeTZ. *)
Theorem compare_cast_coherent_time ctx a b :
  dt_kind a = KTime -> dt_kind b = KTimeTZ ->
  compare_datetime true ctx a b = compare_datetime true ctx (dt_to_timetz ctx a) b /\
  compare_datetime true ctx b a = compare_datetime true ctx b (dt_to_timetz ctx a).
Proof.
  intros Ha Hb.
  pose proof (to_timetz_kind ctx a) as Hk.
  unfold compare_datetime. rewrite Hk, Ha, Hb. split; [|reflexivity].
  rewrite <- timetz_compare_antisym. reflexivity.
Qed.
Print Assumptions compare_cast_coherent_time.

(* Zone-less pairs: date vs timestamp is timestamp vs timestamp after
   Date.ToTimestamp (needs the stored date to be well formed). *)
Theorem compare_cast_coherent_zoneless u ctx a b :
  dt_kind a = KDate -> dt_kind b = KTimestamp -> wf_dt a ->
  dt_to_timestamp ctx a = mkdt KTimestamp (dt_sec a) (dt_nsec a) 0 /\
  compare_datetime u ctx a b = compare_datetime u ctx (dt_to_timestamp ctx a) b /\
  compare_datetime u ctx b a = compare_datetime u ctx b (dt_to_timestamp ctx a).
Proof.
  intros Ha Hb [Hn Hw]. rewrite Ha in Hw. destruct Hw as (Ho & Hm & Hz).
  assert (E : dt_to_timestamp ctx a = mkdt KTimestamp (dt_sec a) (dt_nsec a) 0).
  { unfold dt_to_timestamp. rewrite Ha. rewrite new_timestamp_nf by exact Hn.
    rewrite to_g_local, Ho. cbn [g_nsec to_g]. f_equal. lia. }
  split; [exact E|]. rewrite E. unfold compare_datetime. rewrite Ha, Hb. cbn [dt_kind].
  split; reflexivity.
Qed.
Print Assumptions compare_cast_coherent_zoneless.

(* ================================================================== *)
(* 10. date -> timestamptz -> date, timestamp -> timestamptz -> timestamp *)
(* ================================================================== *)

(* "The local time l exists in the zone" in the form the code needs it: the
   instant time.Date picks for the wall clock reading l shows l again when
   read back in the zone.  (If no instant shows l — a spring-forward gap —
   this fails; Go then returns an instant showing a shifted reading.  For a
   reading that exists once or twice, Date returns one of its instants
   whenever its two-lookup heuristic lands in the right transition interval;
   [readback] is exactly that condition.) *)
Definition readback (z : zone) (l : Z) : Prop :=
  let u := zone_local_to_unix z l in u + zone_offset_at z u = l.

Lemma readback_fixed o l : readback (ZFixed o) l.
Proof. unfold readback. rewrite zone_local_to_unix_fixed. unfold zone_offset_at. cbn. lia. Qed.

Lemma readback_exists z l : readback z l -> exists u, u + zone_offset_at z u = l.
Proof. intros H. eexists. exact H. Qed.

Theorem date_tstz_date_roundtrip_gen ctx d :
  dt_kind d = KDate -> wf_dt d -> readback (tz ctx) (dt_sec d) ->
  dt_to_date ctx (dt_to_timestamptz ctx d) = d.
Proof.
  intros Hk [Hn Hw] Hr. rewrite Hk in Hw. destruct Hw as (Ho & Hm & Hz).
  rewrite to_timestamptz_of_date by exact Hk.
  rewrite Ho. replace ((dt_sec d + 0) / 86400 * 86400) with (dt_sec d) by lia.
  unfold tstz_of_local, dt_to_date. cbn [dt_kind]. rewrite new_date_nf.
  unfold in_ctx, g_days, g_local, g_off, go_in, to_g. cbn [g_sec g_loc dt_sec].
  unfold readback in Hr. cbv zeta in Hr. rewrite Hr. unfold secs_per_day.
  destruct d as [k s n o]. cbn in *. subst. f_equal. lia.
Qed.
Print Assumptions date_tstz_date_roundtrip_gen.

Theorem timestamp_tstz_timestamp_roundtrip_gen ctx d :
  dt_kind d = KTimestamp -> wf_dt d -> readback (tz ctx) (dt_sec d) ->
  dt_to_timestamp ctx (dt_to_timestamptz ctx d) = d.
Proof.
  intros Hk [Hn Hw] Hr. rewrite Hk in Hw.
  rewrite to_timestamptz_of_timestamp by assumption.
  rewrite Hw, Z.add_0_r.
  unfold tstz_of_local, dt_to_timestamp. cbn [dt_kind].
  rewrite new_timestamp_nf by exact Hn.
  unfold in_ctx, g_local, g_off, go_in, to_g. cbn [g_sec g_loc g_nsec dt_sec dt_nsec].
  unfold readback in Hr. cbv zeta in Hr. rewrite Hr.
  destruct d as [k s n o]. cbn in *. subst. reflexivity.
Qed.
Print Assumptions timestamp_tstz_timestamp_roundtrip_gen.

(* Fixed-offset context zones: unconditional. *)
Theorem date_tstz_date_roundtrip ctx o d :
  tz ctx = ZFixed o -> wf_dt d ->
  (dt_kind d = KDate -> dt_to_date ctx (dt_to_timestamptz ctx d) = d) /\
  (dt_kind d = KTimestamp -> dt_to_timestamp ctx (dt_to_timestamptz ctx d) = d).
Proof.
  intros Hz Hw. split; intros Hk.
  - apply date_tstz_date_roundtrip_gen; try assumption. rewrite Hz. apply readback_fixed.
  - apply timestamp_tstz_timestamp_roundtrip_gen; try assumption. rewrite Hz. apply readback_fixed.
Qed.
Print Assumptions date_tstz_date_roundtrip.

(* The hypothesis is needed: in a zone that skips a whole day (like
   Pacific/Apia on 2011-12-30: offset -10h -> +14h at local midnight), the
   skipped date comes back as the previous day. *)
Example date_roundtrip_gap_counterexample :
  let ctx := mkctx (ZTable (-36000) [(8676000, 50400)]) 0 0 in
  let d := mkdt KDate 8640000 0 0 in
  wf_dt d /\ dt_to_date ctx (dt_to_timestamptz ctx d) = mkdt KDate 8553600 0 0.
Proof. cbv zeta. split; [|vm_compute; reflexivity]. unfold wf_dt, wf_nsec. cbn. lia. Qed.

(* ================================================================== *)
(* 11. compare_trans                                                   *)
(* ================================================================== *)

(* lexicographic comparison of (sec, nsec, tie) *)
Definition lex3 (k1 k2 : Z * Z * Z) : Z :=
  let '(s1, n1, p1) := k1 in let '(s2, n2, p2) := k2 in
  let c := inst_compare s1 n1 s2 n2 in
  if negb (c =? 0) then c
  else if p1 <? p2 then -1 else if p2 <? p1 then 1 else 0.

Definition lexle (k1 k2 : Z * Z * Z) : Prop :=
  let '(s1, n1, p1) := k1 in let '(s2, n2, p2) := k2 in
  s1 < s2 \/ (s1 = s2 /\ (n1 < n2 \/ (n1 = n2 /\ p1 <= p2))).
Definition lexlt (k1 k2 : Z * Z * Z) : Prop :=
  let '(s1, n1, p1) := k1 in let '(s2, n2, p2) := k2 in
  s1 < s2 \/ (s1 = s2 /\ (n1 < n2 \/ (n1 = n2 /\ p1 < p2))).

Lemma lex3_le k1 k2 : lex3 k1 k2 <= 0 <-> lexle k1 k2.
Proof.
  destruct k1 as [[s1 n1] p1], k2 as [[s2 n2] p2]. unfold lex3, lexle, inst_compare.
  destruct (Z.ltb_spec s1 s2), (Z.ltb_spec s2 s1), (Z.ltb_spec n1 n2), (Z.ltb_spec n2 n1);
    cbn; try lia;
    destruct (Z.ltb_spec p1 p2), (Z.ltb_spec p2 p1); lia.
Qed.

Lemma lex3_lt k1 k2 : lex3 k1 k2 < 0 <-> lexlt k1 k2.
Proof.
  destruct k1 as [[s1 n1] p1], k2 as [[s2 n2] p2]. unfold lex3, lexlt, inst_compare.
  destruct (Z.ltb_spec s1 s2), (Z.ltb_spec s2 s1), (Z.ltb_spec n1 n2), (Z.ltb_spec n2 n1);
    cbn; try lia;
    destruct (Z.ltb_spec p1 p2), (Z.ltb_spec p2 p1); lia.
Qed.

Lemma lexle_trans k1 k2 k3 :
  lexle k1 k2 -> lexle k2 k3 -> lexle k1 k3 /\ (lexlt k1 k2 \/ lexlt k2 k3 -> lexlt k1 k3).
Proof.
  destruct k1 as [[s1 n1] p1], k2 as [[s2 n2] p2], k3 as [[s3 n3] p3].
  unfold lexle, lexlt. lia.
Qed.

Lemma dt_compare_lex3 a b :
  dt_compare a b = lex3 (dt_sec a, dt_nsec a, 0) (dt_sec b, dt_nsec b, 0).
Proof. unfold lex3, dt_compare. cbn. destruct (inst_compare _ _ _ _ =? 0) eqn:E; cbn; [lia|reflexivity]. Qed.

Lemma timetz_compare_lex3 a b :
  timetz_compare a b = lex3 (dt_sec a, dt_nsec a, - dt_off a) (dt_sec b, dt_nsec b, - dt_off b).
Proof.
  unfold lex3, timetz_compare, dt_compare.
  destruct (negb (inst_compare _ _ _ _ =? 0)); [reflexivity|].
  destruct (Z.ltb_spec (dt_off b) (dt_off a)), (Z.ltb_spec (- dt_off a) (- dt_off b)); try lia.
  destruct (Z.ltb_spec (dt_off a) (dt_off b)), (Z.ltb_spec (- dt_off b) (- dt_off a)); lia.
Qed.

(* The sort key of a value under WithTZ: zone-less values through their cast
   into the context zone. *)
Definition cmp_key (ctx : dctx) (d : datetime) : Z * Z * Z :=
  match dt_kind d with
  | KTimestampTZ => (dt_sec d, dt_nsec d, 0)
  | KDate | KTimestamp => let c := dt_to_timestamptz ctx d in (dt_sec c, dt_nsec c, 0)
  | KTimeTZ => (dt_sec d, dt_nsec d, - dt_off d)
  | KTime => let c := dt_to_timetz ctx d in (dt_sec c, dt_nsec c, - dt_off c)
  end.

(* What transitivity needs of the context zone: among zone-less values the
   cast into the zone preserves the (zone-less) order.  True for fixed
   offsets; FALSE in general for a transition table (see the counterexample
   below): time.Date maps readings in a gap / overlap non-monotonically. *)
Definition conv_embeds (ctx : dctx) (a b : datetime) : Prop :=
  match dt_kind a, dt_kind b with
  | (KDate | KTimestamp), (KDate | KTimestamp) =>
      dt_compare (dt_to_timestamptz ctx a) (dt_to_timestamptz ctx b) = dt_compare a b
  | KTime, KTime =>
      timetz_compare (dt_to_timetz ctx a) (dt_to_timetz ctx b) = dt_compare a b
  | _, _ => True
  end.

Lemma compare_by_key ctx a b :
  comparable (dt_kind a) (dt_kind b) = true -> conv_embeds ctx a b ->
  compare_datetime true ctx a b = CmpOk (lex3 (cmp_key ctx a) (cmp_key ctx b)).
Proof.
  intros Hc He. unfold conv_embeds in He. unfold compare_datetime, cmp_key.
  destruct (dt_kind a) eqn:Ka, (dt_kind b) eqn:Kb; try discriminate Hc; cbv zeta; f_equal;
    rewrite <- ?He;
    first [ apply dt_compare_lex3
          | apply timetz_compare_lex3
          | rewrite <- timetz_compare_antisym; apply timetz_compare_lex3
          | rewrite dt_compare_lex3; reflexivity ].
Qed.

Lemma compare_false_true ctx a b x :
  compare_datetime false ctx a b = CmpOk x -> compare_datetime true ctx a b = CmpOk x.
Proof.
  unfold compare_datetime. destruct (dt_kind a), (dt_kind b); intros H; try discriminate; exact H.
Qed.

Lemma compare_ok_comparable u ctx a b x :
  compare_datetime u ctx a b = CmpOk x -> comparable (dt_kind a) (dt_kind b) = true.
Proof.
  unfold compare_datetime. destruct (dt_kind a), (dt_kind b); intros H; try discriminate; reflexivity.
Qed.

Lemma compare_false_chain ctx a b c x y :
  compare_datetime false ctx a b = CmpOk x -> compare_datetime false ctx b c = CmpOk y ->
  exists z, compare_datetime false ctx a c = CmpOk z.
Proof.
  unfold compare_datetime.
  destruct (dt_kind a), (dt_kind b), (dt_kind c); intros H1 H2; try discriminate; eexists; reflexivity.
Qed.

(* Transitivity of <=, with strictness, for any useTZ, given that the casts
   into the context zone preserve order on the zone-less values involved. *)
Theorem compare_trans_gen u ctx a b c x y :
  conv_embeds ctx a b -> conv_embeds ctx b c -> conv_embeds ctx a c ->
  compare_datetime u ctx a b = CmpOk x -> compare_datetime u ctx b c = CmpOk y ->
  x <= 0 -> y <= 0 ->
  exists z, compare_datetime u ctx a c = CmpOk z /\ z <= 0 /\ (x < 0 \/ y < 0 -> z < 0).
Proof.
  intros Eab Ebc Eac Hab Hbc Hx Hy.
  assert (Tab : compare_datetime true ctx a b = CmpOk x)
    by (destruct u; [exact Hab | apply compare_false_true; exact Hab]).
  assert (Tbc : compare_datetime true ctx b c = CmpOk y)
    by (destruct u; [exact Hbc | apply compare_false_true; exact Hbc]).
  pose proof (compare_ok_comparable _ _ _ _ _ Tab) as Cab.
  pose proof (compare_ok_comparable _ _ _ _ _ Tbc) as Cbc.
  assert (Cac : comparable (dt_kind a) (dt_kind c) = true).
  { unfold comparable in *. destruct (time_like (dt_kind a)), (time_like (dt_kind b)), (time_like (dt_kind c));
      try discriminate; reflexivity. }
  rewrite compare_by_key in Tab, Tbc by assumption.
  injection Tab as <-. injection Tbc as <-.
  pose proof (compare_by_key ctx a c Cac Eac) as Tac.
  apply lex3_le in Hx. apply lex3_le in Hy.
  destruct (lexle_trans _ _ _ Hx Hy) as [Hle Hlt].
  assert (Hz : lex3 (cmp_key ctx a) (cmp_key ctx c) <= 0 /\
               (lex3 (cmp_key ctx a) (cmp_key ctx b) < 0 \/ lex3 (cmp_key ctx b) (cmp_key ctx c) < 0 ->
                lex3 (cmp_key ctx a) (cmp_key ctx c) < 0)).
  { split; [apply lex3_le; exact Hle|]. intros H. apply lex3_lt. apply Hlt.
    destruct H as [H|H]; [left|right]; apply lex3_lt; exact H. }
  destruct u.
  - eexists. split; [exact Tac|exact Hz].
  - destruct (compare_false_chain _ _ _ _ _ _ Hab Hbc) as [z Hz'].
    pose proof (compare_false_true _ _ _ _ Hz') as Hz''. rewrite Tac in Hz''.
    injection Hz'' as <-. eexists. split; [exact Hz'|exact Hz].
Qed.
Print Assumptions compare_trans_gen.

(* Fixed-offset zones: the casts are translations by the offset. *)
Lemma to_timestamptz_fixed ctx o d :
  tz ctx = ZFixed o -> wf_dt d -> (dt_kind d = KDate \/ dt_kind d = KTimestamp) ->
  dt_to_timestamptz ctx d = mkdt KTimestampTZ (dt_sec d - o) (dt_nsec d) o.
Proof.
  intros Hz [Hn Hw] [Hk|Hk]; rewrite Hk in Hw.
  - destruct Hw as (Ho & Hm & Hns). rewrite to_timestamptz_of_date by exact Hk.
    rewrite Hz, Ho. unfold tstz_of_local. rewrite zone_local_to_unix_fixed.
    unfold zone_offset_at. cbn [zone_lookup]. rewrite Hns. f_equal. lia.
  - rewrite to_timestamptz_of_timestamp by assumption.
    rewrite Hz, Hw. unfold tstz_of_local. rewrite zone_local_to_unix_fixed.
    unfold zone_offset_at. cbn [zone_lookup]. f_equal. lia.
Qed.

Lemma day0_val : day0 = -719528.
Proof. reflexivity. Qed.

Lemma to_timetz_fixed ctx o d :
  tz ctx = ZFixed o -> wf_dt d -> dt_kind d = KTime ->
  dt_to_timetz ctx d = mkdt KTimeTZ (dt_sec d - o) (dt_nsec d) o.
Proof.
  intros Hz [Hn Hw] Hk. rewrite Hk in Hw. destruct Hw as [Ho Hr]. rewrite day0_val in Hr.
  unfold dt_to_timetz, time_to_timetz. rewrite Hk, Hz.
  rewrite go_date_ymd by exact Hn.
  rewrite zone_local_to_unix_fixed.
  rewrite new_timetz_nf by exact Hn.
  set (now := mkg (now_sec ctx) 0 (ZFixed (now_local_off ctx))).
  pose proof (g_hms_sod (to_g d)) as Hs.
  assert (Hsod : g_sod (to_g d) = dt_sec d + 719528 * 86400).
  { unfold g_sod. rewrite to_g_local, Ho. unfold secs_per_day. lia. }
  rewrite Hsod in Hs.
  set (h := g_hour (to_g d)) in *. set (mi := g_minute (to_g d)) in *. set (s := g_second (to_g d)) in *.
  set (dn := g_days now).
  unfold g_sod, g_local, g_off. cbn [g_sec g_nsec g_loc].
  unfold zone_offset_at. cbn [zone_lookup]. cbn [to_g g_nsec].
  rewrite day0_val. unfold secs_per_day.
  f_equal. lia.
Qed.

Lemma conv_embeds_fixed ctx o a b :
  tz ctx = ZFixed o -> wf_dt a -> wf_dt b -> conv_embeds ctx a b.
Proof.
  intros Hz Wa Wb. unfold conv_embeds.
  destruct (dt_kind a) eqn:Ka, (dt_kind b) eqn:Kb; try exact I;
    try (rewrite (to_timestamptz_fixed ctx o a Hz Wa) by (rewrite Ka; auto);
         rewrite (to_timestamptz_fixed ctx o b Hz Wb) by (rewrite Kb; auto);
         unfold dt_compare, inst_compare; cbn [dt_sec dt_nsec];
         destruct (Z.ltb_spec (dt_sec a - o) (dt_sec b - o)), (Z.ltb_spec (dt_sec a) (dt_sec b)); try lia;
         destruct (Z.ltb_spec (dt_sec b - o) (dt_sec a - o)), (Z.ltb_spec (dt_sec b) (dt_sec a)); try lia;
         reflexivity).
  rewrite (to_timetz_fixed ctx o a Hz Wa Ka), (to_timetz_fixed ctx o b Hz Wb Kb).
  unfold timetz_compare, dt_compare, inst_compare. cbn [dt_sec dt_nsec dt_off].
  rewrite Z.ltb_irrefl.
  destruct (Z.ltb_spec (dt_sec a - o) (dt_sec b - o)), (Z.ltb_spec (dt_sec a) (dt_sec b)); try lia;
    destruct (Z.ltb_spec (dt_sec b - o) (dt_sec a - o)), (Z.ltb_spec (dt_sec b) (dt_sec a)); try lia;
    try reflexivity.
  destruct (dt_nsec a <? dt_nsec b); [reflexivity|]. destruct (dt_nsec b <? dt_nsec a); reflexivity.
Qed.

Theorem compare_trans u ctx o a b c x y :
  tz ctx = ZFixed o -> wf_dt a -> wf_dt b -> wf_dt c ->
  compare_datetime u ctx a b = CmpOk x -> compare_datetime u ctx b c = CmpOk y ->
  x <= 0 -> y <= 0 ->
  exists z, compare_datetime u ctx a c = CmpOk z /\ z <= 0 /\ (x < 0 \/ y < 0 -> z < 0).
Proof.
  intros Hz Wa Wb Wc. apply compare_trans_gen; eapply conv_embeds_fixed; eassumption.
Qed.
Print Assumptions compare_trans.

(* With a transition table transitivity FAILS (so the ZTable hypothesis of
   compare_trans_gen is necessary).  Mini zone: -5h, then -4h from Unix second
   25200 (a spring-forward at 02:00 local on 1970-01-01).  Zone-less
   timestamps a = 01:45 < b = 02:30 (in the gap), timestamptz c = 06:40Z:
   a < b and b < c, but a > c. *)
Example compare_trans_ztable_counterexample :
  let ctx := mkctx (ZTable (-18000) [(25200, -14400)]) 0 0 in
  let a := mkdt KTimestamp 6300 0 0 in      (* 1970-01-01T01:45:00 *)
  let b := mkdt KTimestamp 9000 0 0 in      (* 1970-01-01T02:30:00 *)
  let c := mkdt KTimestampTZ 24000 0 0 in   (* 1970-01-01T06:40:00+00:00 *)
  compare_datetime true ctx a b = CmpOk (-1) /\
  compare_datetime true ctx b c = CmpOk (-1) /\
  compare_datetime true ctx a c = CmpOk 1.
Proof. vm_compute. repeat split. Qed.

(* ================================================================== *)
(* 12. precision_rounding                                              *)
(* ================================================================== *)

Definition prec_units : list Z :=
  [1000000000; 100000000; 10000000; 1000000; 100000; 10000; 1000; 100; 10; 1].

(* Time.Round to a unit dividing one second: the result is a multiple of the
   unit, at most half a unit away, halfway cases going up (later). *)
Lemma go_round_unit t d :
  In d prec_units -> nsec_ok t ->
  nsec_ok (go_round t d) /\ g_loc (go_round t d) = g_loc t /\
  g_nsec (go_round t d) mod d = 0 /\
  - d < 2 * ((g_sec (go_round t d) - g_sec t) * 1000000000 + (g_nsec (go_round t d) - g_nsec t)) <= d.
Proof.
  intros Hd Hn. unfold nsec_ok in *. unfold go_round, go_add_ns, nanos_per_sec, unix_to_internal.
  destruct t as [s n l]. cbn [g_sec g_nsec g_loc] in *.
  unfold prec_units in Hd. cbn [In] in Hd.
  repeat (destruct Hd as [<-|Hd]; [
    match goal with |- context [if ?c <=? 0 then _ else _] => destruct (Z.leb_spec c 0); [lia|] end;
    match goal with |- context [if ?a <? ?b then _ else _] => destruct (Z.ltb_spec a b) end;
    cbn [g_sec g_nsec g_loc]; (repeat split; try reflexivity; lia) |]).
  contradiction.
Qed.

Lemma prec_duration_unit p : 0 <= p <= 9 -> prec_duration p = 10 ^ (9 - p) /\ In (10 ^ (9 - p)) prec_units.
Proof.
  intros Hp. assert (H : p = 0 \/ p = 1 \/ p = 2 \/ p = 3 \/ p = 4 \/ p = 5 \/ p = 6 \/ p = 7 \/ p = 8 \/ p = 9) by lia.
  repeat (destruct H as [->|H]; [split; [reflexivity|cbn; tauto]|]). subst. split; [reflexivity|cbn; tauto].
Qed.

(* what time.Parse hands back: nanoseconds in range, offset-only location *)
Definition parsed_ok (t : gtime) : Prop := nsec_ok t /\ exists o, g_loc t = ZFixed o.

Lemma go_parse_ok l s t : go_parse l s = Some t -> parsed_ok t.
Proof.
  unfold go_parse. destruct (parse_items l pf_init s) as [f|]; [|discriminate].
  unfold finish_parse.
  destruct ((_ <? 1) || _); [discriminate|].
  set (t0 := go_date _ _ _ _ _ _ _ zUTC).
  assert (H0 : nsec_ok t0).
  { unfold nsec_ok, t0, go_date, nanos_per_sec. cbn [g_nsec]. lia. }
  destruct (pf_z f); [|destruct (negb (pf_zoff f =? -1))]; intros H; injection H as <-;
    (split; [exact H0 | eexists; reflexivity]).
Qed.

Lemma first_parse_ok ls s t : first_parse ls s = Some t -> parsed_ok t.
Proof.
  induction ls as [|l ls IH]; cbn; [discriminate|].
  destruct (go_parse l s) eqn:E; [|exact IH].
  intros H; injection H as <-. eapply go_parse_ok; exact E.
Qed.

Lemma parse_raw_ok s k v : parse_raw s = Some (k, v) -> parsed_ok v.
Proof.
  unfold parse_raw.
  destruct (go_parse lay_date s) eqn:E1; [intros H; injection H as <- <-; eapply go_parse_ok; exact E1|].
  destruct (first_parse timetz_layouts s) eqn:E2.
  { intros H; injection H as <- <-. destruct (first_parse_ok _ _ _ E2) as [Hn _].
    split; [exact Hn | eexists; reflexivity]. }
  destruct (go_parse lay_time s) eqn:E3; [intros H; injection H as <- <-; eapply go_parse_ok; exact E3|].
  destruct (first_parse tstz_layouts s) eqn:E4; [intros H; injection H as <- <-; eapply first_parse_ok; exact E4|].
  destruct (first_parse ts_layouts s) eqn:E5; [intros H; injection H as <- <-; eapply first_parse_ok; exact E5|].
  discriminate.
Qed.

(* total nanoseconds of the instant *)
Definition dt_ns (d : datetime) : Z := dt_sec d * 1000000000 + dt_nsec d.

Definition day_ns : Z := 86400 * 1000000000.

(* ParseTime with precision p in 0..9 (exec caps at 6): same type and offset
   as without precision; the nanoseconds are a multiple of 10^(9-p); the
   instant moves by at most half a unit (a tie goes up).  For timestamps the
   carry runs into seconds and days; for time/timetz the time of day wraps
   around midnight (the move is half a unit modulo 24h); dates are untouched. *)
Theorem precision_rounding ctx src p d0 :
  0 <= p <= 9 -> parse_time ctx src (-1) = Some d0 ->
  exists d, parse_time ctx src p = Some d /\
    dt_kind d = dt_kind d0 /\ dt_off d = dt_off d0 /\
    0 <= dt_nsec d < 1000000000 /\ dt_nsec d mod 10 ^ (9 - p) = 0 /\
    match dt_kind d0 with
    | KDate => d = d0
    | KTimestamp | KTimestampTZ =>
        - 10 ^ (9 - p) < 2 * (dt_ns d - dt_ns d0) <= 10 ^ (9 - p)
    | KTime | KTimeTZ =>
        exists delta, - 10 ^ (9 - p) < 2 * delta <= 10 ^ (9 - p) /\
                      (dt_ns d - dt_ns d0 - delta) mod day_ns = 0 /\
                      day0 * 86400 <= dt_sec d + dt_off d < (day0 + 1) * 86400
    end.
Proof.
  intros Hp. unfold parse_time. destruct (parse_raw src) as [[k v]|] eqn:E; [|discriminate].
  intros H; injection H as <-.
  destruct (parse_raw_ok _ _ _ E) as [Hn [o Hl]].
  destruct (prec_duration_unit p Hp) as [Hd Hin].
  eexists; split; [reflexivity|].
  unfold build_parsed, adjust_precision.
  replace (-1 <? -1) with false by reflexivity.
  replace (-1 <? p) with true by (symmetry; apply Z.ltb_lt; lia).
  rewrite Hd. set (u := 10 ^ (9 - p)) in *.
  destruct (go_round_unit v u Hin Hn) as (Hn' & Hl' & Hm & Hdelta).
  set (v' := go_round v u) in *.
  assert (Ho : g_off v = o) by (unfold g_off; rewrite Hl; reflexivity).
  assert (Ho' : g_off v' = o) by (unfold g_off; rewrite Hl', Hl; reflexivity).
  assert (Hu : 0 < u) by (unfold prec_units in Hin; cbn [In] in Hin; lia).
  destruct k.
  - (* date *)
    rewrite new_date_nf. cbn. repeat split; try lia; try (apply Z.mod_0_l; lia).
  - (* time *)
    rewrite !new_time_nf by assumption. cbn [dt_kind dt_off dt_nsec dt_sec].
    repeat split; try (apply Hn'); try exact Hm.
    exists ((g_sec v' - g_sec v) * 1000000000 + (g_nsec v' - g_nsec v)).
    split; [exact Hdelta|]. unfold dt_ns, day_ns. cbn [dt_sec dt_nsec].
    pose proof (g_sod_range v'). unfold g_sod, g_local in *. rewrite Ho, Ho' in *.
    unfold secs_per_day in *. rewrite day0_val. split; lia.
  - (* timetz *)
    rewrite !new_timetz_nf by assumption. cbn [dt_kind dt_off dt_nsec dt_sec].
    rewrite Ho, Ho'.
    repeat split; try (apply Hn'); try exact Hm.
    exists ((g_sec v' - g_sec v) * 1000000000 + (g_nsec v' - g_nsec v)).
    split; [exact Hdelta|]. unfold dt_ns, day_ns. cbn [dt_sec dt_nsec].
    pose proof (g_sod_range v'). unfold g_sod, g_local in *. rewrite Ho, Ho' in *.
    unfold secs_per_day in *. rewrite day0_val. split; lia.
  - (* timestamp *)
    rewrite !new_timestamp_nf by assumption. cbn [dt_kind dt_off dt_nsec dt_sec].
    repeat split; try (apply Hn'); try exact Hm;
      unfold dt_ns, g_local; cbn [dt_sec dt_nsec]; rewrite Ho, Ho'; lia.
  - (* timestamptz *)
    rewrite !new_timestamptz_nf by assumption. cbn [dt_kind dt_off dt_nsec dt_sec].
    rewrite Ho, Ho'.
    repeat split; try (apply Hn'); try exact Hm;
      unfold dt_ns; cbn [dt_sec dt_nsec]; lia.
Qed.
Print Assumptions precision_rounding.

(* exec caps the precision at 6 and rejects negative ones; beyond 9 (only
   reachable through types.ParseTime directly) Round(0) leaves the value alone. *)
Lemma exec_precision_cap ctx takes src p :
  6 < p -> exec_parse_datetime ctx true src (Some p) = exec_parse_datetime ctx takes src (Some 6)
           \/ takes = false.
Proof.
  intros Hp. destruct takes; [left|right; reflexivity].
  unfold exec_parse_datetime, max_timestamp_precision.
  replace (p <? 0) with false by (symmetry; apply Z.ltb_ge; lia).
  replace (6 <? p) with true by (symmetry; apply Z.ltb_lt; lia).
  reflexivity.
Qed.

Lemma parse_time_big_precision ctx src p :
  9 < p -> parse_time ctx src p = parse_time ctx src (-1).
Proof.
  intros Hp. unfold parse_time. destruct (parse_raw src) as [[k v]|]; [|reflexivity].
  f_equal. unfold build_parsed, adjust_precision, prec_duration, go_round.
  replace (-1 <? p) with true by (symmetry; apply Z.ltb_lt; lia).
  replace (p <? 0) with false by (symmetry; apply Z.ltb_ge; lia).
  replace (p <=? 9) with false by (symmetry; apply Z.leb_gt; lia).
  reflexivity.
Qed.

(* ================================================================== *)
(* 13. Digit-level lemmas                                              *)
(* ================================================================== *)

Lemma sapp_assoc a b c : (a +++ b) +++ c = a +++ (b +++ c).
Proof. induction a as [|x a IH]; cbn; [reflexivity|]. rewrite IH. reflexivity. Qed.

Lemma sapp_nil_r a : a +++ EmptyString = a.
Proof. induction a as [|x a IH]; cbn; [reflexivity|]. rewrite IH. reflexivity. Qed.

Lemma digit_cases k : 0 <= k <= 9 ->
  k = 0 \/ k = 1 \/ k = 2 \/ k = 3 \/ k = 4 \/ k = 5 \/ k = 6 \/ k = 7 \/ k = 8 \/ k = 9.
Proof. lia. Qed.

Lemma digit_char_ok k : 0 <= k <= 9 ->
  is_digit (digit_char k) = true /\ digit_val (digit_char k) = k.
Proof.
  intros H. destruct (digit_cases k H) as [->|[->|[->|[->|[->|[->|[->|[->|[->| ->]]]]]]]]];
    split; reflexivity.
Qed.

Lemma is_digit_true k : 0 <= k <= 9 -> is_digit (digit_char k) = true.
Proof. intros H. apply (digit_char_ok k H). Qed.
Lemma digit_val_char k : 0 <= k <= 9 -> digit_val (digit_char k) = k.
Proof. intros H. apply (digit_char_ok k H). Qed.

(* a digit is none of the punctuation the layouts use *)
Lemma digit_not c x : is_digit c = true -> is_digit x = false -> Ascii.eqb c x = false.
Proof.
  intros Hc Hx. destruct (Ascii.eqb_spec c x) as [->|]; [|reflexivity]. congruence.
Qed.

Lemma getnum_fmt2 n r fixed : 0 <= n < 100 -> getnum (fmt2 n +++ r) fixed = Some (n, r).
Proof.
  intros Hn. unfold fmt2. cbn [String.append]. unfold getnum.
  rewrite !is_digit_true by lia. rewrite !digit_val_char by lia. f_equal. f_equal. lia.
Qed.

Lemma parse_year_fmt4 y r : 0 <= y < 10000 -> parse_year (fmt4 y +++ r) = Some (y, r).
Proof.
  intros Hy. unfold fmt4. cbn [String.append]. unfold parse_year.
  rewrite !is_digit_true by lia. rewrite !digit_val_char by lia. cbn [andb]. f_equal. f_equal. lia.
Qed.

Lemma append_int_2 n : 0 <= n < 100 -> append_int n 2 = fmt2 n.
Proof.
  intros Hn. unfold append_int. rewrite Z.abs_eq by lia.
  replace (n <? 0) with false by (symmetry; apply Z.ltb_ge; lia).
  replace (n <? 100) with true by (symmetry; apply Z.ltb_lt; lia). reflexivity.
Qed.

Lemma append_int_4 n : 0 <= n < 10000 -> append_int n 4 = fmt4 n.
Proof.
  intros Hn. unfold append_int. rewrite Z.abs_eq by lia.
  replace (n <? 0) with false by (symmetry; apply Z.ltb_ge; lia).
  replace (n <? 10000) with true by (symmetry; apply Z.ltb_lt; lia). reflexivity.
Qed.

(* ---------- fractional seconds ---------- *)

Fixpoint all_digits (s : string) : Prop :=
  match s with EmptyString => True | String c r => is_digit c = true /\ all_digits r end.

(* what may follow a seconds field in a formatted value: nothing, or a byte
   that is neither a digit nor a fraction separator *)
Definition stop (r : string) : Prop :=
  match r with
  | EmptyString => True
  | String c _ => is_digit c = false /\ comma_or_period c = false
  end.

Lemma fixed_digits_all k n : all_digits (fixed_digits k n).
Proof. induction k as [|k IH]; cbn; [exact I|]. split; [apply is_digit_true; lia|exact IH]. Qed.

Lemma strip0_all s : all_digits s -> all_digits (strip0 s).
Proof.
  induction s as [|c s IH]; cbn; [trivial|]. intros [Hc Hs].
  destruct (str_empty (strip0 s) && Ascii.eqb c ch_zero); cbn; auto.
Qed.

Lemma take_digits_stop ds r : all_digits ds -> stop r -> take_digits (ds +++ r) = (ds, r).
Proof.
  intros Hd Hr. induction ds as [|c ds IH]; cbn.
  - destruct r as [|c r]; [reflexivity|]. cbn. destruct Hr as [-> _]. reflexivity.
  - destruct Hd as [Hc Hd]. rewrite Hc. rewrite (IH Hd). reflexivity.
Qed.

Lemma frac_val_nil k : frac_val k EmptyString = 0.
Proof. destruct k; reflexivity. Qed.

Lemma frac_val_strip0 s : forall k, frac_val k (strip0 s) = frac_val k s.
Proof.
  induction s as [|c s IH]; intros k; [reflexivity|]. cbn [strip0].
  destruct k as [|k]; [destruct (_ && _); reflexivity|].
  destruct (str_empty (strip0 s)) eqn:E; cbn [andb].
  - destruct (Ascii.eqb_spec c ch_zero) as [->|Hne].
    + cbn [frac_val]. rewrite <- IH. destruct (strip0 s); [|discriminate].
      rewrite frac_val_nil. reflexivity.
    + cbn [frac_val]. rewrite IH. reflexivity.
  - cbn [frac_val]. rewrite IH. reflexivity.
Qed.

Lemma frac_val_fixed k n : 0 <= n -> frac_val k (fixed_digits k n) = n mod 10 ^ Z.of_nat k.
Proof.
  intros Hn. induction k as [|k IH]; [cbn; rewrite Z.mod_1_r; reflexivity|].
  cbn [fixed_digits frac_val]. rewrite IH.
  rewrite digit_val_char by (pose proof (Z.mod_pos_bound (n / 10 ^ Z.of_nat k) 10 ltac:(lia)); lia).
  replace (Z.of_nat (S k)) with (Z.of_nat k + 1) by lia.
  rewrite Z.pow_add_r by lia. change (10 ^ 1) with 10.
  assert (Hp : 0 < 10 ^ Z.of_nat k) by (apply Z.pow_pos_nonneg; lia).
  rewrite (Z.rem_mul_r n (10 ^ Z.of_nat k) 10) by lia. lia.
Qed.

Lemma parse_frac_stop r : stop r -> parse_frac r = (0, r).
Proof.
  destruct r as [|c0 [|c1 r]]; try reflexivity. cbn. intros [_ ->]. reflexivity.
Qed.

Lemma parse_frac_nano ns r :
  0 <= ns < 1000000000 -> stop r -> parse_frac (append_nano9 ns +++ r) = (ns, r).
Proof.
  intros Hn Hr. unfold append_nano9.
  pose proof (frac_val_fixed 9 ns ltac:(lia)) as Hv.
  change (10 ^ Z.of_nat 9) with 1000000000 in Hv. rewrite Z.mod_small in Hv by lia.
  rewrite <- frac_val_strip0 in Hv.
  pose proof (strip0_all _ (fixed_digits_all 9 ns)) as Hall.
  destruct (Z.eqb_spec ns 0) as [->|Hne]; [cbn [String.append]; apply parse_frac_stop; exact Hr|].
  destruct (strip0 (fixed_digits 9 ns)) as [|c1 ds] eqn:E.
  - cbn [str_empty String.append]. rewrite frac_val_nil in Hv. lia.
  - cbn [str_empty String.append]. unfold parse_frac.
    destruct Hall as [Hc1 Hds].
    replace (comma_or_period ch_dot) with true by reflexivity. rewrite Hc1. cbn [andb].
    change (String c1 (ds +++ r)) with (String c1 ds +++ r).
    rewrite take_digits_stop by (cbn; auto). rewrite Hv. reflexivity.
Qed.

(* ---------- numeric zone "-07:00" ---------- *)

Definition off_ok (off : Z) : Prop := -90000 < off < 90000 /\ off mod 60 = 0.

Lemma fmt_numtz_colon off :
  off_ok off ->
  fmt_numtz true false None off =
  String (if off <? 0 then ch_dash else ch_plus)
         (fmt2 (Z.abs off / 3600) +++ String ch_colon (fmt2 (Z.abs off / 60 mod 60))).
Proof.
  intros [Hr Hm]. unfold fmt_numtz.
  assert (Hq : Z.quot off 60 = off / 60).
  { rewrite Z.quot_div by lia. destruct (Z.sgn_spec off) as [[? ->]|[[? ->]|[? ->]]]; rewrite ?Z.abs_eq, ?Z.abs_neq by lia; lia. }
  rewrite Hq.
  replace (off / 60 <? 0) with (off <? 0) by (destruct (Z.ltb_spec off 0), (Z.ltb_spec (off / 60) 0); lia).
  assert (Hz : Z.abs (off / 60) = Z.abs off / 60) by lia.
  rewrite Hz.
  rewrite Z.quot_div_nonneg by lia. rewrite Z.rem_mod_nonneg by lia.
  rewrite !append_int_2 by lia.
  replace (Z.abs off / 60 / 60) with (Z.abs off / 3600) by lia.
  destruct (off <? 0); cbn [str1 String.append]; rewrite sapp_nil_r;
    unfold fmt2; cbn [String.append]; reflexivity.
Qed.

Lemma parse_numtz_colon off r :
  off_ok off ->
  parse_numtz TZColon (fmt_numtz true false None off +++ r) = Some (off, r).
Proof.
  intros Ho. rewrite fmt_numtz_colon by exact Ho. destruct Ho as [Hr Hm].
  unfold fmt2. cbn [String.append]. unfold parse_numtz.
  replace (Ascii.eqb ch_colon ch_colon) with true by reflexivity.
  unfold two_digits. rewrite !is_digit_true by lia. rewrite !digit_val_char by lia. cbn [andb].
  set (hr := Z.abs off / 3600 / 10 * 10 + Z.abs off / 3600 mod 10).
  set (mm := Z.abs off / 60 mod 60 / 10 * 10 + Z.abs off / 60 mod 60 mod 10).
  assert (Hhr : hr = Z.abs off / 3600) by (unfold hr; lia).
  assert (Hmm : mm = Z.abs off / 60 mod 60) by (unfold mm; lia).
  destruct (Z.ltb_spec off 0).
  - replace (sign_of ch_dash) with (Some (-1)) by reflexivity.
    unfold mk_zoff.
    replace (24 <? hr) with false by (symmetry; apply Z.ltb_ge; lia).
    replace (60 <? mm) with false by (symmetry; apply Z.ltb_ge; lia).
    cbn [orb Z.ltb Z.compare]. f_equal. f_equal. lia.
  - replace (sign_of ch_plus) with (Some 1) by reflexivity.
    unfold mk_zoff.
    replace (24 <? hr) with false by (symmetry; apply Z.ltb_ge; lia).
    replace (60 <? mm) with false by (symmetry; apply Z.ltb_ge; lia).
    cbn [orb Z.ltb Z.compare]. f_equal. f_equal. lia.
Qed.

(* ================================================================== *)
(* 14. Layout-level lemmas                                             *)
(* ================================================================== *)

(* items without the final end-of-input test *)
Fixpoint parse_prefix (l : list litem) (f : pfields) (v : string) : option (pfields * string) :=
  match l with
  | [] => Some (f, v)
  | it :: l' =>
      match parse_item it f v with
      | Some (f', v') => parse_prefix l' f' v'
      | None => None
      end
  end.

Lemma parse_items_app l1 l2 f v :
  parse_items (l1 ++ l2) f v =
  match parse_prefix l1 f v with
  | Some (f', v') => parse_items l2 f' v'
  | None => None
  end.
Proof.
  revert f v. induction l1 as [|it l1 IH]; intros f v; cbn; [reflexivity|].
  destruct (parse_item it f v) as [[f' v']|]; [apply IH|reflexivity].
Qed.

Lemma go_format_app l1 l2 t : go_format (l1 ++ l2) t = go_format l1 t +++ go_format l2 t.
Proof.
  induction l1 as [|it l1 IH]; cbn; [reflexivity|]. rewrite IH, sapp_assoc. reflexivity.
Qed.

(* the fields of a time.Time are in the ranges the formatter prints with
   two digits *)
Lemma g_field_ranges t :
  1 <= g_month t <= 12 /\ 1 <= g_day t <= 31 /\
  0 <= g_hour t < 24 /\ 0 <= g_minute t < 60 /\ 0 <= g_second t < 60.
Proof.
  destruct (valid_bounds _ _ _ (g_ymd_valid t)) as [Hm Hd].
  pose proof (g_sod_range t) as Hs. unfold g_hour, g_minute, g_second. repeat split; lia.
Qed.

Definition year_ok (t : gtime) : Prop := 0 <= g_year t <= 9999.

Definition fmt_date (t : gtime) : string :=
  fmt4 (g_year t) +++ String ch_dash (fmt2 (g_month t) +++ String ch_dash (fmt2 (g_day t))).
Definition fmt_time (t : gtime) : string :=
  fmt2 (g_hour t) +++ String ch_colon (fmt2 (g_minute t) +++ String ch_colon
    (fmt2 (g_second t) +++ append_nano9 (g_nsec t))).

Lemma go_format_date t : year_ok t -> go_format lay_date_items t = fmt_date t.
Proof.
  intros Hy. destruct (g_field_ranges t) as (Hm & Hd & _).
  unfold lay_date_items, fmt_date. cbn [go_format format_item].
  rewrite append_int_4 by (unfold year_ok in Hy; lia). rewrite !append_int_2 by lia.
  cbn [str1 String.append]. rewrite sapp_nil_r. reflexivity.
Qed.

Lemma go_format_time t : go_format lay_time_items t = fmt_time t.
Proof.
  destruct (g_field_ranges t) as (_ & _ & Hh & Hmi & Hs).
  unfold lay_time_items, fmt_time. cbn [go_format format_item].
  rewrite !append_int_2 by lia.
  cbn [str1 String.append]. rewrite sapp_nil_r. reflexivity.
Qed.

Definition set_date (f : pfields) (t : gtime) : pfields :=
  set_day (set_month (set_year f (g_year t)) (g_month t)) (g_day t).
Definition set_clock (f : pfields) (t : gtime) : pfields :=
  set_secfrac (set_min (set_hour f (g_hour t)) (g_minute t)) (g_second t) (g_nsec t).

Lemma skip_char_lit c r :
  Ascii.eqb c ch_space = false -> skip_char c (String c r) = Some r.
Proof. intros H. unfold skip_char. rewrite H, Ascii.eqb_refl. reflexivity. Qed.

Lemma parse_prefix_date f t r :
  year_ok t -> parse_prefix lay_date_items f (fmt_date t +++ r) = Some (set_date f t, r).
Proof.
  intros Hy. destruct (g_field_ranges t) as (Hm & Hd & _). unfold year_ok in Hy.
  unfold lay_date_items, fmt_date.
  rewrite !sapp_assoc. cbn [parse_prefix parse_item].
  rewrite parse_year_fmt4 by lia.
  cbn [String.append]. rewrite skip_char_lit by reflexivity.
  rewrite sapp_assoc. rewrite getnum_fmt2 by lia.
  replace ((g_month t <=? 0) || (12 <? g_month t)) with false
    by (symmetry; apply orb_false_iff; split; [apply Z.leb_gt|apply Z.ltb_ge]; lia).
  cbn [String.append]. rewrite skip_char_lit by reflexivity.
  rewrite getnum_fmt2 by lia. reflexivity.
Qed.

Lemma parse_prefix_time f t r :
  nsec_ok t -> stop r ->
  parse_prefix lay_time_items f (fmt_time t +++ r) = Some (set_clock f t, r).
Proof.
  intros Hn Hr. destruct (g_field_ranges t) as (_ & _ & Hh & Hmi & Hs).
  unfold lay_time_items, fmt_time.
  rewrite !sapp_assoc. cbn [parse_prefix parse_item].
  rewrite getnum_fmt2 by lia.
  replace (24 <=? g_hour t) with false by (symmetry; apply Z.leb_gt; lia).
  cbn [String.append]. rewrite skip_char_lit by reflexivity.
  rewrite sapp_assoc. rewrite getnum_fmt2 by lia.
  replace (60 <=? g_minute t) with false by (symmetry; apply Z.leb_gt; lia).
  cbn [String.append]. rewrite skip_char_lit by reflexivity.
  rewrite sapp_assoc. rewrite getnum_fmt2 by lia.
  replace (60 <=? g_second t) with false by (symmetry; apply Z.leb_gt; lia).
  rewrite parse_frac_nano by assumption. reflexivity.
Qed.

(* a date layout never matches a string whose third byte is ':' *)
Lemma date_items_fail_on_time l f t r :
  parse_items (lay_date_items ++ l) f (fmt_time t +++ r) = None.
Proof.
  unfold lay_date_items, fmt_time, fmt2. cbn [app parse_items parse_item String.append].
  unfold parse_year.
  replace (is_digit ch_colon) with false by reflexivity.
  rewrite !andb_false_r. cbn [andb]. reflexivity.
Qed.

(* a clock layout never matches a string starting with three digits *)
Lemma time_items_fail_on_date l f t r :
  year_ok t -> parse_items (lay_time_items ++ l) f (fmt_date t +++ r) = None.
Proof.
  intros Hy. unfold year_ok in Hy.
  unfold lay_time_items, fmt_date, fmt4. cbn [app parse_items parse_item String.append].
  unfold getnum. rewrite !is_digit_true by lia.
  destruct (24 <=? _); [reflexivity|].
  unfold skip_char. replace (Ascii.eqb ch_colon ch_space) with false by reflexivity.
  rewrite (digit_not _ ch_colon) by (try apply is_digit_true; try reflexivity; lia).
  reflexivity.
Qed.

Lemma stop_nil : stop EmptyString.
Proof. exact I. Qed.

Lemma stop_numtz off r : off_ok off -> stop (fmt_numtz true false None off +++ r).
Proof.
  intros Ho. rewrite fmt_numtz_colon by exact Ho. cbn [String.append].
  destruct (off <? 0); cbn; split; reflexivity.
Qed.

(* ---------- whole layouts on formatted values ---------- *)

Definition tz_str (off : Z) : string := fmt_numtz true false None off.

Lemma parse_items_time l2 f t r :
  nsec_ok t -> stop r ->
  parse_items (lay_time_items ++ l2) f (fmt_time t +++ r) = parse_items l2 (set_clock f t) r.
Proof. intros Hn Hr. rewrite parse_items_app, parse_prefix_time by assumption. reflexivity. Qed.

Lemma parse_items_ts_T l2 f t r :
  year_ok t -> nsec_ok t -> stop r ->
  parse_items (lay_date_items ++ (LLit ch_T :: lay_time_items ++ l2)) f
              (fmt_date t +++ String ch_T (fmt_time t +++ r))
  = parse_items l2 (set_clock (set_date f t) t) r.
Proof.
  intros Hy Hn Hr. rewrite parse_items_app, parse_prefix_date by assumption.
  cbn [parse_items parse_item]. rewrite skip_char_lit by reflexivity.
  apply parse_items_time; assumption.
Qed.

Lemma parse_items_ts_space l f t r :
  year_ok t ->
  parse_items (lay_date_items ++ (LLit ch_space :: l)) f (fmt_date t +++ String ch_T r) = None.
Proof.
  intros Hy. rewrite parse_items_app, parse_prefix_date by assumption. reflexivity.
Qed.

Lemma parse_items_date_extra f t c r :
  year_ok t -> parse_items lay_date_items f (fmt_date t +++ String c r) = None.
Proof.
  intros Hy. rewrite <- (app_nil_r lay_date_items).
  rewrite parse_items_app, parse_prefix_date by assumption. reflexivity.
Qed.

Lemma parse_items_date_exact f t :
  year_ok t -> parse_items lay_date_items f (fmt_date t) = Some (set_date f t).
Proof.
  intros Hy. rewrite <- (app_nil_r lay_date_items). rewrite <- (sapp_nil_r (fmt_date t)).
  rewrite parse_items_app, parse_prefix_date by assumption. reflexivity.
Qed.

Lemma parse_tz_nil fm f : parse_items [LTZ fm] f EmptyString = None.
Proof. reflexivity. Qed.

Lemma tz_str_shape off : off_ok off ->
  exists sg h1 h2 m1 m2,
    tz_str off = String sg (String h1 (String h2 (String ch_colon (String m1 (String m2 EmptyString)))))
    /\ Ascii.eqb sg ch_Z = false.
Proof.
  intros Ho. unfold tz_str. rewrite fmt_numtz_colon by exact Ho. unfold fmt2. cbn [String.append].
  do 5 eexists. split; [reflexivity|]. destruct (off <? 0); reflexivity.
Qed.

Lemma parse_tz_short_fail f off : off_ok off -> parse_items [LTZ TZShort] f (tz_str off) = None.
Proof.
  intros Ho. destruct (tz_str_shape off Ho) as (sg & h1 & h2 & m1 & m2 & -> & Hsg).
  cbn [parse_items parse_item]. rewrite Hsg. unfold parse_numtz.
  destruct (sign_of sg); [|reflexivity]. destruct (two_digits h1 h2); [|reflexivity].
  destruct (mk_zoff _ _ _ _); reflexivity.
Qed.

Lemma parse_tz_colon_ok f off :
  off_ok off -> parse_items [LTZ TZColon] f (tz_str off) = Some (set_zoff f off).
Proof.
  intros Ho. destruct (tz_str_shape off Ho) as (sg & h1 & h2 & m1 & m2 & E & Hsg).
  cbn [parse_items parse_item]. rewrite E, Hsg. rewrite <- E.
  rewrite <- (sapp_nil_r (tz_str off)). unfold tz_str. rewrite parse_numtz_colon by exact Ho.
  reflexivity.
Qed.

(* ---------- finish_parse on complete field records ---------- *)

Lemma day_valid t :
  (g_day t <? 1) || (days_in_month (g_year t) (g_month t) <? g_day t) = false.
Proof.
  pose proof (g_ymd_valid t) as H. unfold valid_ymd, valid_ymdb in H.
  apply andb_true_iff in H. destruct H as [H H4]. apply andb_true_iff in H. destruct H as [H H3].
  apply orb_false_iff. split; [apply Z.ltb_ge|apply Z.ltb_ge]; lia.
Qed.

Lemma month_nonneg t : (g_month t <? 0) = false.
Proof. destruct (g_field_ranges t) as (Hm & _). apply Z.ltb_ge. lia. Qed.
Lemma day_nonneg t : (g_day t <? 0) = false.
Proof. destruct (g_field_ranges t) as (_ & Hd & _). apply Z.ltb_ge. lia. Qed.

Lemma finish_full t zoff :
  nsec_ok t ->
  finish_parse (set_zoff (set_clock (set_date pf_init t) t) zoff) =
  Some (if negb (zoff =? -1)
        then mkg (g_local t - zoff) (g_nsec t) (ZFixed zoff)
        else mkg (g_local t) (g_nsec t) zUTC).
Proof.
  intros Hn. unfold finish_parse.
  cbn [set_zoff set_clock set_date set_secfrac set_min set_hour set_day set_month set_year pf_init
       pf_year pf_month pf_day pf_hour pf_min pf_sec pf_nsec pf_z pf_zoff].
  rewrite month_nonneg, day_nonneg, day_valid.
  rewrite go_date_fields by exact Hn. unfold zUTC. rewrite zone_local_to_unix_fixed.
  cbn [g_sec g_nsec]. rewrite Z.sub_0_r. destruct (negb (zoff =? -1)); reflexivity.
Qed.

Lemma finish_full_nozone t :
  nsec_ok t ->
  finish_parse (set_clock (set_date pf_init t) t) = Some (mkg (g_local t) (g_nsec t) zUTC).
Proof.
  intros Hn. change (set_clock (set_date pf_init t) t)
    with (set_zoff (set_clock (set_date pf_init t) t) (-1)).
  rewrite finish_full by exact Hn. reflexivity.
Qed.

Lemma finish_clock t zoff :
  nsec_ok t ->
  finish_parse (set_zoff (set_clock pf_init t) zoff) =
  Some (if negb (zoff =? -1)
        then mkg (day0 * 86400 + g_sod t - zoff) (g_nsec t) (ZFixed zoff)
        else mkg (day0 * 86400 + g_sod t) (g_nsec t) zUTC).
Proof.
  intros Hn. unfold finish_parse.
  cbn [set_zoff set_clock set_secfrac set_min set_hour pf_init
       pf_year pf_month pf_day pf_hour pf_min pf_sec pf_nsec pf_z pf_zoff].
  replace (-1 <? 0) with true by reflexivity.
  replace ((1 <? 1) || (days_in_month 0 1 <? 1)) with false by reflexivity.
  rewrite go_date_norm by (exact Hn || lia). unfold zUTC. rewrite zone_local_to_unix_fixed.
  cbn [g_sec g_nsec]. fold day0. pose proof (g_hms_sod t) as Hs.
  replace (day0 * 86400 + g_hour t * 3600 + g_minute t * 60 + g_second t - 0)
    with (day0 * 86400 + g_sod t) by lia.
  destruct (negb (zoff =? -1)); reflexivity.
Qed.

Lemma finish_clock_nozone t :
  nsec_ok t ->
  finish_parse (set_clock pf_init t) = Some (mkg (day0 * 86400 + g_sod t) (g_nsec t) zUTC).
Proof.
  intros Hn. change (set_clock pf_init t) with (set_zoff (set_clock pf_init t) (-1)).
  rewrite finish_clock by exact Hn. reflexivity.
Qed.

Lemma finish_date t :
  finish_parse (set_date pf_init t) = Some (mkg (g_days t * 86400) 0 zUTC).
Proof.
  unfold finish_parse.
  cbn [set_date set_day set_month set_year pf_init
       pf_year pf_month pf_day pf_hour pf_min pf_sec pf_nsec pf_z pf_zoff].
  rewrite month_nonneg, day_nonneg, day_valid.
  rewrite go_date_ymd by lia. unfold zUTC. rewrite zone_local_to_unix_fixed.
  replace (-1 =? -1) with true by reflexivity. cbn [negb]. f_equal. f_equal. lia.
Qed.

Lemma stop_tz off : off_ok off -> stop (tz_str off).
Proof. intros Ho. rewrite <- (sapp_nil_r (tz_str off)). apply stop_numtz. exact Ho. Qed.

Lemma off_ok_not_unset off : off_ok off -> negb (off =? -1) = true.
Proof. intros [_ Hm]. destruct (Z.eqb_spec off (-1)) as [->|]; [discriminate Hm|reflexivity]. Qed.

(* ---------- the printed forms ---------- *)

Lemma dt_string_date d : dt_kind d = KDate -> year_ok (to_g d) -> dt_string d = fmt_date (to_g d).
Proof. intros Hk Hy. unfold dt_string. rewrite Hk. apply go_format_date. exact Hy. Qed.

Lemma dt_string_time d : dt_kind d = KTime -> dt_string d = fmt_time (to_g d).
Proof. intros Hk. unfold dt_string. rewrite Hk. apply go_format_time. Qed.

Lemma dt_string_timetz d :
  dt_kind d = KTimeTZ -> dt_string d = fmt_time (to_g d) +++ tz_str (dt_off d).
Proof.
  intros Hk. unfold dt_string. rewrite Hk. unfold out_layout, lay_timetz_out.
  rewrite go_format_app, go_format_time. cbn [go_format format_item]. rewrite sapp_nil_r.
  reflexivity.
Qed.

Lemma dt_string_ts d :
  dt_kind d = KTimestamp -> year_ok (to_g d) ->
  dt_string d = fmt_date (to_g d) +++ String ch_T (fmt_time (to_g d)).
Proof.
  intros Hk Hy. unfold dt_string. rewrite Hk. unfold out_layout, lay_ts.
  rewrite !go_format_app, go_format_time, go_format_date by exact Hy. reflexivity.
Qed.

Lemma dt_string_tstz d :
  dt_kind d = KTimestampTZ -> year_ok (to_g d) ->
  dt_string d = fmt_date (to_g d) +++ String ch_T (fmt_time (to_g d) +++ tz_str (dt_off d)).
Proof.
  intros Hk Hy. unfold dt_string. rewrite Hk. unfold out_layout, lay_tstz_out, lay_ts.
  rewrite !go_format_app, go_format_time, go_format_date by exact Hy.
  cbn [go_format format_item]. rewrite !sapp_nil_r.
  rewrite !sapp_assoc. reflexivity.
Qed.

(* ---------- the cascade on printed forms ---------- *)

Lemma parse_raw_date t :
  year_ok t -> parse_raw (fmt_date t) = Some (KDate, mkg (g_days t * 86400) 0 zUTC).
Proof.
  intros Hy. unfold parse_raw, go_parse, lay_date.
  rewrite parse_items_date_exact by exact Hy. rewrite finish_date. reflexivity.
Qed.

Lemma go_parse_date_on_time t r : go_parse lay_date (fmt_time t +++ r) = None.
Proof.
  unfold go_parse, lay_date. rewrite <- (app_nil_r lay_date_items).
  rewrite date_items_fail_on_time. reflexivity.
Qed.

Lemma parse_raw_time t :
  nsec_ok t -> parse_raw (fmt_time t) = Some (KTime, mkg (day0 * 86400 + g_sod t) (g_nsec t) zUTC).
Proof.
  intros Hn. unfold parse_raw. rewrite <- (sapp_nil_r (fmt_time t)).
  rewrite go_parse_date_on_time.
  cbn [first_parse timetz_layouts]. unfold go_parse, lay_timetz, lay_time.
  rewrite !parse_items_time by (exact Hn || exact stop_nil). rewrite !parse_tz_nil.
  rewrite <- (app_nil_r lay_time_items) at 1.
  rewrite parse_items_time by (exact Hn || exact stop_nil). cbn [parse_items str_empty].
  rewrite finish_clock_nozone by exact Hn. reflexivity.
Qed.

Lemma parse_raw_timetz t off :
  nsec_ok t -> off_ok off ->
  parse_raw (fmt_time t +++ tz_str off) =
  Some (KTimeTZ, mkg (day0 * 86400 + g_sod t - off) (g_nsec t) (ZFixed off)).
Proof.
  intros Hn Ho. unfold parse_raw. rewrite go_parse_date_on_time.
  cbn [first_parse timetz_layouts]. unfold go_parse, lay_timetz.
  rewrite !parse_items_time by (exact Hn || apply stop_tz; exact Ho).
  rewrite parse_tz_short_fail, parse_tz_colon_ok by exact Ho.
  rewrite finish_clock by exact Hn. rewrite off_ok_not_unset by exact Ho.
  unfold offset_only_time_for, go_in. rewrite g_off_fixed. reflexivity.
Qed.

Lemma go_parse_clock_on_date l t r :
  year_ok t -> go_parse (lay_time_items ++ l) (fmt_date t +++ r) = None.
Proof. intros Hy. unfold go_parse. rewrite time_items_fail_on_date by exact Hy. reflexivity. Qed.

Lemma lay_tstz_split sep fm :
  lay_tstz sep fm = lay_date_items ++ (LLit sep :: lay_time_items ++ [LTZ fm]).
Proof. reflexivity. Qed.
Lemma lay_ts_split sep :
  lay_ts sep = lay_date_items ++ (LLit sep :: lay_time_items ++ []).
Proof. reflexivity. Qed.

Lemma parse_raw_ts t :
  year_ok t -> nsec_ok t ->
  parse_raw (fmt_date t +++ String ch_T (fmt_time t)) =
  Some (KTimestamp, mkg (g_local t) (g_nsec t) zUTC).
Proof.
  intros Hy Hn. unfold parse_raw.
  unfold go_parse at 1. unfold lay_date. rewrite parse_items_date_extra by exact Hy.
  cbn [first_parse timetz_layouts]. unfold lay_timetz.
  rewrite !go_parse_clock_on_date by exact Hy.
  unfold lay_time. rewrite <- (app_nil_r lay_time_items) at 1.
  rewrite go_parse_clock_on_date by exact Hy.
  rewrite <- (sapp_nil_r (fmt_time t)).
  cbn [first_parse tstz_layouts ts_layouts]. unfold go_parse.
  rewrite !lay_tstz_split, !lay_ts_split.
  rewrite !parse_items_ts_T by (assumption || exact stop_nil).
  rewrite !parse_items_ts_space by exact Hy.
  rewrite !parse_tz_nil. cbn [parse_items str_empty].
  rewrite finish_full_nozone by exact Hn. reflexivity.
Qed.

Lemma parse_raw_tstz t off :
  year_ok t -> nsec_ok t -> off_ok off ->
  parse_raw (fmt_date t +++ String ch_T (fmt_time t +++ tz_str off)) =
  Some (KTimestampTZ, mkg (g_local t - off) (g_nsec t) (ZFixed off)).
Proof.
  intros Hy Hn Ho. unfold parse_raw.
  unfold go_parse at 1. unfold lay_date. rewrite parse_items_date_extra by exact Hy.
  cbn [first_parse timetz_layouts]. unfold lay_timetz.
  rewrite !go_parse_clock_on_date by exact Hy.
  unfold lay_time. rewrite <- (app_nil_r lay_time_items) at 1.
  rewrite go_parse_clock_on_date by exact Hy.
  cbn [first_parse tstz_layouts]. unfold go_parse.
  rewrite !lay_tstz_split.
  rewrite !parse_items_ts_T by (assumption || apply stop_tz; exact Ho).
  rewrite !parse_items_ts_space by exact Hy.
  rewrite parse_tz_short_fail, parse_tz_colon_ok by exact Ho.
  rewrite finish_full by exact Hn. rewrite off_ok_not_unset by exact Ho. reflexivity.
Qed.

(* ================================================================== *)
(* 15. string_parse_roundtrip                                          *)
(* ================================================================== *)

(* What a value must satisfy to survive String()/ParseTime:
   - the invariants of the constructors (wf_dt),
   - for the kinds that print a date: year 0..9999 (exactly four digits),
   - for the kinds that print an offset: whole minutes, |offset| < 25h
     ("-07:00" drops the seconds; Parse accepts zone hours up to 24). *)
Definition printable (d : datetime) : Prop :=
  wf_dt d /\
  match dt_kind d with
  | KDate | KTimestamp => year_ok (to_g d)
  | KTime => True
  | KTimeTZ => off_ok (dt_off d)
  | KTimestampTZ => year_ok (to_g d) /\ off_ok (dt_off d)
  end.

Lemma adjust_none v : adjust_precision v (-1) = v.
Proof. reflexivity. Qed.

Theorem string_parse_roundtrip ctx d :
  printable d -> parse_time ctx (dt_string d) (-1) = Some d.
Proof.
  intros [[Hn Hw] Hp]. unfold parse_time.
  assert (Hnt : nsec_ok (to_g d)) by exact Hn.
  destruct d as [k s n o]. destruct k; cbn [dt_kind] in Hw, Hp.
  - (* date *)
    destruct Hw as (Ho & Hm & Hz). cbn [dt_off dt_sec dt_nsec] in *. subst o n.
    rewrite dt_string_date by (reflexivity || exact Hp).
    rewrite parse_raw_date by exact Hp.
    unfold build_parsed. rewrite new_date_nf. f_equal. f_equal.
    unfold g_days, g_local, g_off, zone_offset_at, zUTC.
    cbn [g_sec g_loc to_g dt_sec dt_off zone_lookup]. unfold secs_per_day. lia.
  - (* time *)
    destruct Hw as (Ho & Hr). cbn [dt_off dt_sec] in *. subst o. rewrite day0_val in Hr.
    rewrite dt_string_time by reflexivity.
    rewrite parse_raw_time by exact Hnt.
    unfold build_parsed. rewrite adjust_none. rewrite new_time_nf by exact Hnt.
    cbn [g_nsec to_g dt_nsec]. f_equal. f_equal.
    unfold g_sod, g_local, g_off, zone_offset_at, zUTC.
    cbn [g_sec g_loc to_g dt_sec dt_off zone_lookup]. unfold secs_per_day. rewrite day0_val. lia.
  - (* timetz *)
    cbn [dt_off dt_sec] in *. rewrite day0_val in Hw.
    rewrite dt_string_timetz by reflexivity. cbn [dt_off].
    rewrite parse_raw_timetz by assumption.
    unfold build_parsed. rewrite adjust_none. rewrite new_timetz_nf by exact Hnt.
    cbn [g_nsec to_g dt_nsec]. rewrite g_off_fixed. f_equal. f_equal.
    unfold g_sod, g_local, g_off, zone_offset_at, zUTC.
    cbn [g_sec g_loc to_g dt_sec dt_off zone_lookup]. unfold secs_per_day. rewrite day0_val. lia.
  - (* timestamp *)
    cbn [dt_off] in *. subst o.
    rewrite dt_string_ts by (reflexivity || exact Hp).
    rewrite parse_raw_ts by assumption.
    unfold build_parsed. rewrite adjust_none. rewrite new_timestamp_nf by exact Hnt.
    cbn [g_nsec to_g dt_nsec]. f_equal. f_equal.
    unfold g_local, g_off, zone_offset_at, zUTC.
    cbn [g_sec g_loc to_g dt_sec dt_off zone_lookup]. lia.
  - (* timestamptz *)
    destruct Hp as [Hy Ho]. cbn [dt_off] in *.
    rewrite dt_string_tstz by (reflexivity || exact Hy). cbn [dt_off].
    rewrite parse_raw_tstz by assumption.
    unfold build_parsed. rewrite adjust_none. rewrite new_timestamptz_nf by exact Hnt.
    cbn [g_nsec g_sec to_g dt_nsec]. rewrite g_off_fixed. f_equal. f_equal.
    unfold g_local, g_off, zone_offset_at, zUTC.
    cbn [g_sec g_loc to_g dt_sec dt_off zone_lookup]. lia.
Qed.
Print Assumptions string_parse_roundtrip.

(* ================================================================== *)
(* 16. marshal_unmarshal_roundtrip                                     *)
(* ================================================================== *)

Lemma length_sapp a b : String.length (a +++ b) = (String.length a + String.length b)%nat.
Proof. induction a as [|c a IH]; cbn; [reflexivity|]. rewrite IH. reflexivity. Qed.

Lemma go_len_sapp a b : go_len (a +++ b) = go_len a + go_len b.
Proof. unfold go_len. rewrite length_sapp. lia. Qed.

Lemma go_len_cons c s : go_len (String c s) = go_len s + 1.
Proof. unfold go_len. cbn [String.length]. lia. Qed.

Lemma go_len_nonneg s : 0 <= go_len s.
Proof. unfold go_len. lia. Qed.

Lemma get_sapp_r a b : forall j, String.get (String.length a + j) (a +++ b) = String.get j b.
Proof. induction a as [|c a IH]; intros j; cbn; [reflexivity|apply IH]. Qed.

Lemma get_sapp_l a b : forall j, (j < String.length a)%nat -> String.get j (a +++ b) = String.get j a.
Proof.
  induction a as [|c a IH]; intros j Hj; cbn in Hj; [lia|].
  destruct j as [|j]; cbn; [reflexivity|]. apply IH. lia.
Qed.

Lemma go_index_sapp_r a b j : 0 <= j -> go_index (a +++ b) (go_len a + j) = go_index b j.
Proof.
  intros Hj. unfold go_index. rewrite go_len_sapp. pose proof (go_len_nonneg a) as Ha.
  replace (go_len a + j <? 0) with false by (symmetry; apply Z.ltb_ge; lia).
  replace (j <? 0) with false by (symmetry; apply Z.ltb_ge; lia).
  replace (go_len a + go_len b <=? go_len a + j) with (go_len b <=? j)
    by (destruct (Z.leb_spec (go_len b) j), (Z.leb_spec (go_len a + go_len b) (go_len a + j)); lia).
  cbn [orb]. destruct (go_len b <=? j); [reflexivity|].
  unfold go_len. rewrite Z2Nat.inj_add by lia. rewrite Nat2Z.id. rewrite get_sapp_r. reflexivity.
Qed.

Lemma go_index_sapp_l a b j : 0 <= j < go_len a -> go_index (a +++ b) j = go_index a j.
Proof.
  intros Hj. unfold go_index. rewrite go_len_sapp. pose proof (go_len_nonneg b) as Hb.
  replace (j <? 0) with false by (symmetry; apply Z.ltb_ge; lia).
  replace (go_len a + go_len b <=? j) with false by (symmetry; apply Z.leb_gt; lia).
  replace (go_len a <=? j) with false by (symmetry; apply Z.leb_gt; lia).
  cbn [orb]. rewrite get_sapp_l by (unfold go_len in Hj; lia). reflexivity.
Qed.

Lemma go_index_0 c s : go_index (String c s) 0 = Ret c.
Proof.
  unfold go_index. rewrite go_len_cons. pose proof (go_len_nonneg s).
  replace (go_len s + 1 <=? 0) with false by (symmetry; apply Z.leb_gt; lia). reflexivity.
Qed.

Lemma substring_sapp a b : String.substring 0 (String.length a) (a +++ b) = a.
Proof. induction a as [|c a IH]; cbn; [destruct b; reflexivity|]. rewrite IH. reflexivity. Qed.

Lemma unquote_quoted s :
  unquote (String ch_quote (s +++ String ch_quote EmptyString)) = Ret s.
Proof.
  unfold unquote. set (data := String ch_quote (s +++ String ch_quote EmptyString)).
  assert (Hl : go_len data = go_len s + 2).
  { unfold data. rewrite go_len_cons, go_len_sapp, go_len_cons. unfold go_len at 2. cbn. lia. }
  pose proof (go_len_nonneg s) as Hs.
  replace (2 <=? go_len data) with true by (symmetry; apply Z.leb_le; lia).
  unfold data at 1. rewrite go_index_0. cbn [bindo]. rewrite Ascii.eqb_refl.
  assert (Hi : go_index data (go_len data - 1) = Ret ch_quote).
  { unfold data at 1. change (String ch_quote (s +++ String ch_quote EmptyString))
      with ((String ch_quote s) +++ String ch_quote EmptyString).
    replace (go_len data - 1) with (go_len (String ch_quote s) + 0) by (rewrite go_len_cons; lia).
    rewrite go_index_sapp_r by lia. apply go_index_0. }
  rewrite Hi. cbn [bindo]. rewrite Ascii.eqb_refl.
  unfold go_slice. rewrite Hl.
  replace (1 <? 0) with false by reflexivity.
  replace (go_len s + 2 - 1 <? 1) with false by (symmetry; apply Z.ltb_ge; lia).
  replace (go_len s + 2 <? go_len s + 2 - 1) with false by (symmetry; apply Z.ltb_ge; lia).
  cbn [orb]. f_equal. unfold data.
  replace (Z.to_nat (go_len s + 2 - 1 - 1)) with (String.length s) by (unfold go_len; lia).
  change (Z.to_nat 1) with 1%nat. cbn [String.substring]. apply substring_sapp.
Qed.

(* bytes that are neither '-' nor '+' *)
Definition no_sign (c : ascii) : bool := negb (Ascii.eqb c ch_dash) && negb (Ascii.eqb c ch_plus).

Fixpoint all_no_sign (s : string) : Prop :=
  match s with EmptyString => True | String c r => no_sign c = true /\ all_no_sign r end.

Lemma all_no_sign_app a b : all_no_sign a -> all_no_sign b -> all_no_sign (a +++ b).
Proof. induction a as [|c a IH]; cbn; [trivial|]. intros [Hc Ha] Hb. split; auto. Qed.

Lemma digit_no_sign c : is_digit c = true -> no_sign c = true.
Proof.
  intros H. unfold no_sign. rewrite !(digit_not c) by (exact H || reflexivity). reflexivity.
Qed.

Lemma all_digits_no_sign s : all_digits s -> all_no_sign s.
Proof. induction s as [|c s IH]; cbn; [trivial|]. intros [Hc Hs]. split; [apply digit_no_sign; exact Hc|auto]. Qed.

Lemma fmt2_no_sign n : 0 <= n < 100 -> all_no_sign (fmt2 n).
Proof. intros Hn. unfold fmt2. cbn. repeat split; apply digit_no_sign; apply is_digit_true; lia. Qed.

Lemma nano_no_sign ns : all_no_sign (append_nano9 ns).
Proof.
  unfold append_nano9. destruct (ns =? 0); [exact I|].
  destruct (str_empty _) eqn:E; [exact I|]. cbn [all_no_sign]. split; [reflexivity|].
  apply all_digits_no_sign. apply strip0_all. apply fixed_digits_all.
Qed.

Lemma fmt_time_no_sign t : all_no_sign (fmt_time t).
Proof.
  destruct (g_field_ranges t) as (_ & _ & Hh & Hmi & Hs). unfold fmt_time.
  repeat (first [ apply all_no_sign_app | apply fmt2_no_sign; lia | apply nano_no_sign
                | (cbn [all_no_sign]; split; [reflexivity|]) ]).
Qed.

Lemma fmt_time_len t : 8 <= go_len (fmt_time t).
Proof.
  unfold fmt_time, fmt2. repeat (rewrite go_len_sapp || rewrite go_len_cons).
  change (go_len EmptyString) with 0. pose proof (go_len_nonneg (append_nano9 (g_nsec t))). lia.
Qed.

Lemma no_sign_index q j c : all_no_sign q -> go_index q j = Ret c -> no_sign c = true.
Proof.
  unfold go_index. destruct ((j <? 0) || (go_len q <=? j)); [discriminate|].
  generalize (Z.to_nat j). clear j. induction q as [|x q IH]; intros n Hq; cbn; [discriminate|].
  destruct Hq as [Hx Hq]. destruct n as [|n]; [intros H; injection H as <-; exact Hx|].
  apply IH. exact Hq.
Qed.

Lemma tz_str_len off : off_ok off -> go_len (tz_str off) = 6.
Proof. intros Ho. destruct (tz_str_shape off Ho) as (sg & h1 & h2 & m1 & m2 & -> & _). reflexivity. Qed.

(* the format switch of TimeTZ/TimestampTZ.UnmarshalJSON on a printed value *)
Lemma tz_format_printed p t off :
  off_ok off -> tz_format_for (p +++ (fmt_time t +++ tz_str off)) = Ret TZColon.
Proof.
  intros Ho. unfold tz_format_for.
  pose proof (fmt_time_len t) as Hq. pose proof (go_len_nonneg p) as Hp.
  pose proof (tz_str_len off Ho) as Hb.
  assert (H9 : sign_at (p +++ (fmt_time t +++ tz_str off)) 9 = Ret false).
  { unfold sign_at. rewrite !go_len_sapp, Hb.
    replace (9 <=? go_len p + (go_len (fmt_time t) + 6)) with true by (symmetry; apply Z.leb_le; lia).
    replace (go_len p + (go_len (fmt_time t) + 6) - 9) with (go_len p + (go_len (fmt_time t) - 3)) by lia.
    rewrite go_index_sapp_r by lia. rewrite go_index_sapp_l by lia.
    destruct (go_index_ok (fmt_time t) (go_len (fmt_time t) - 3) ltac:(lia)) as [c Hc].
    rewrite Hc. cbn [bindo].
    pose proof (no_sign_index _ _ _ (fmt_time_no_sign t) Hc) as Hns. unfold no_sign in Hns.
    destruct (Ascii.eqb c ch_dash); [discriminate|]. cbn [bindo].
    destruct (Ascii.eqb c ch_plus); [discriminate|]. reflexivity. }
  rewrite H9. cbn [bindo].
  assert (H6 : sign_at (p +++ (fmt_time t +++ tz_str off)) 6 = Ret true).
  { unfold sign_at. rewrite !go_len_sapp, Hb.
    replace (6 <=? go_len p + (go_len (fmt_time t) + 6)) with true by (symmetry; apply Z.leb_le; lia).
    replace (go_len p + (go_len (fmt_time t) + 6) - 6) with (go_len p + (go_len (fmt_time t) + 0)) by lia.
    rewrite go_index_sapp_r by lia. rewrite go_index_sapp_r by lia.
    unfold tz_str. rewrite fmt_numtz_colon by exact Ho. rewrite go_index_0. cbn [bindo].
    destruct (off <? 0); reflexivity. }
  rewrite H6. reflexivity.
Qed.

Theorem marshal_unmarshal_roundtrip d :
  printable d -> dt_unmarshal_json (dt_kind d) (dt_marshal_json d) = Ret (Some d).
Proof.
  intros [[Hn Hw] Hp]. unfold dt_unmarshal_json, dt_marshal_json.
  rewrite unquote_quoted. cbn [bindo].
  assert (Hnt : nsec_ok (to_g d)) by exact Hn.
  destruct d as [k s n o]. destruct k; cbn [dt_kind] in Hw, Hp |- *.
  - (* date *)
    destruct Hw as (Ho & Hm & Hz). cbn [dt_off dt_sec dt_nsec] in *. subst o n.
    rewrite dt_string_date by (reflexivity || exact Hp).
    unfold go_parse, lay_date. rewrite parse_items_date_exact by exact Hp. rewrite finish_date.
    cbn [omap]. rewrite new_date_nf. do 3 f_equal.
    unfold g_days, g_local, g_off, zone_offset_at, zUTC.
    cbn [g_sec g_loc to_g dt_sec dt_off zone_lookup]. unfold secs_per_day. lia.
  - (* time *)
    destruct Hw as (Ho & Hr). cbn [dt_off dt_sec] in *. subst o. rewrite day0_val in Hr.
    rewrite dt_string_time by reflexivity.
    unfold go_parse, lay_time. rewrite <- (app_nil_r lay_time_items).
    rewrite <- (sapp_nil_r (fmt_time _)).
    rewrite parse_items_time by (exact Hnt || exact stop_nil). cbn [parse_items str_empty].
    rewrite finish_clock_nozone by exact Hnt. cbn [omap].
    rewrite new_time_nf by exact Hnt.
    cbn [g_nsec to_g dt_nsec]. do 3 f_equal.
    unfold g_sod, g_local, g_off, zone_offset_at, zUTC.
    cbn [g_sec g_loc to_g dt_sec dt_off zone_lookup]. unfold secs_per_day. rewrite day0_val. lia.
  - (* timetz *)
    cbn [dt_off dt_sec] in *. rewrite day0_val in Hw.
    rewrite dt_string_timetz by reflexivity. cbn [dt_off].
    change (fmt_time (to_g (mkdt KTimeTZ s n o)) +++ tz_str o)
      with (EmptyString +++ (fmt_time (to_g (mkdt KTimeTZ s n o)) +++ tz_str o)) at 1.
    rewrite tz_format_printed by exact Hp. cbn [bindo].
    unfold go_parse, lay_timetz.
    rewrite parse_items_time by (exact Hnt || apply stop_tz; exact Hp).
    rewrite parse_tz_colon_ok by exact Hp.
    rewrite finish_clock by exact Hnt. rewrite off_ok_not_unset by exact Hp.
    cbn [omap]. unfold of_g. cbn [g_sec g_nsec to_g dt_nsec]. rewrite g_off_fixed. do 3 f_equal.
    unfold g_sod, g_local, g_off, zone_offset_at.
    cbn [g_sec g_loc to_g dt_sec dt_off zone_lookup]. unfold secs_per_day. rewrite day0_val. lia.
  - (* timestamp *)
    cbn [dt_off] in *. subst o.
    rewrite dt_string_ts by (reflexivity || exact Hp).
    unfold go_parse. rewrite lay_ts_split.
    rewrite <- (sapp_nil_r (fmt_time _)).
    rewrite parse_items_ts_T by (assumption || exact stop_nil). cbn [parse_items str_empty].
    rewrite finish_full_nozone by exact Hnt. cbn [omap].
    rewrite new_timestamp_nf by exact Hnt.
    cbn [g_nsec to_g dt_nsec]. do 3 f_equal.
    unfold g_local, g_off, zone_offset_at, zUTC.
    cbn [g_sec g_loc to_g dt_sec dt_off zone_lookup]. lia.
  - (* timestamptz *)
    destruct Hp as [Hy Ho]. cbn [dt_off] in *.
    rewrite dt_string_tstz by (reflexivity || exact Hy). cbn [dt_off].
    set (t := to_g (mkdt KTimestampTZ s n o)) in *.
    change (fmt_date t +++ String ch_T (fmt_time t +++ tz_str o))
      with ((fmt_date t +++ String ch_T EmptyString) +++ (fmt_time t +++ tz_str o)) at 1
      || (replace (fmt_date t +++ String ch_T (fmt_time t +++ tz_str o))
            with ((fmt_date t +++ String ch_T EmptyString) +++ (fmt_time t +++ tz_str o)) at 1
            by (rewrite sapp_assoc; reflexivity)).
    rewrite tz_format_printed by exact Ho. cbn [bindo].
    unfold go_parse. rewrite lay_tstz_split.
    rewrite parse_items_ts_T by (assumption || apply stop_tz; exact Ho).
    rewrite parse_tz_colon_ok by exact Ho.
    rewrite finish_full by exact Hnt. rewrite off_ok_not_unset by exact Ho.
    cbn [omap]. unfold of_g. cbn [g_sec g_nsec]. rewrite g_off_fixed. do 3 f_equal.
    unfold t, g_local, g_off, zone_offset_at.
    cbn [g_sec g_loc to_g dt_sec dt_off zone_lookup]. lia.
Qed.
Print Assumptions marshal_unmarshal_roundtrip.
