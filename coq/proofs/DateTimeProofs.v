(* DateTimeProofs.v — theorems about the datetime model (Civil/GoTime/DateTime).
   Stdlib + lia only.  Every theorem is followed by Print Assumptions. *)
From Coq Require Import ZifyBool.
From SJ Require Import lib.Base model.Json model.Civil model.GoTime model.DateTime.
Open Scope Z_scope.

Ltac Zify.zify_post_hook ::= Z.div_mod_to_equations.

Local Notation "a +++ b" := (String.append a b) (at level 60, right associativity).

(* ================================================================== *)
(* 1. civil_roundtrip                                                  *)
(* ================================================================== *)

Theorem civil_roundtrip :
  (forall z, let '(y, m, d) := civil_from_days z in days_from_civil y m d = z) /\
  (forall y m d, valid_ymd y m d -> civil_from_days (days_from_civil y m d) = (y, m, d)).
Proof. split; [exact days_civil_roundtrip | exact civil_days_roundtrip]. Qed.
Print Assumptions civil_roundtrip.

(* ================================================================== *)
(* 2. Kinds, families                                                  *)
(* ================================================================== *)

Definition zoneless (k : dtkind) : bool :=
  match k with KDate | KTime | KTimestamp => true | KTimeTZ | KTimestampTZ => false end.

Definition time_like (k : dtkind) : bool :=
  match k with KTime | KTimeTZ => true | _ => false end.

Definition target_kind (t : dttarget) : dtkind :=
  match t with
  | TDate => KDate | TTime => KTime | TTimeTZ => KTimeTZ
  | TTimestamp => KTimestamp | TTimestampTZ => KTimestampTZ
  end.

(* PostgreSQL's datetime cast matrix: the target's components must be present
   in the source (date part, time part; a zone can be supplied by the context
   only next to a time of day of the same family). *)
Definition convertible (t : dttarget) (k : dtkind) : bool :=
  match t, k with
  | TDate, (KDate | KTimestamp | KTimestampTZ) => true
  | TTime, (KTime | KTimeTZ | KTimestamp | KTimestampTZ) => true
  | TTimeTZ, (KTime | KTimeTZ | KTimestampTZ) => true
  | TTimestamp, (KDate | KTimestamp | KTimestampTZ) => true
  | TTimestampTZ, (KDate | KTimestamp | KTimestampTZ) => true
  | _, _ => false
  end.

(* one side zone-less, the other zone-aware *)
Definition mixes (a b : dtkind) : bool := xorb (zoneless a) (zoneless b).

Definition comparable (a b : dtkind) : bool := Bool.eqb (time_like a) (time_like b).

(* ================================================================== *)
(* 3. cast_tz_guard                                                    *)
(* ================================================================== *)

Theorem cast_tz_guard :
  (* without WithTZ every convertible pair mixing zone-less and zone-aware is refused *)
  (forall t ctx d,
      convertible t (dt_kind d) = true -> mixes (target_kind t) (dt_kind d) = true ->
      exec_cast t false ctx d = CastTZRequired) /\
  (* with WithTZ no cast asks for it *)
  (forall t ctx d, exec_cast t true ctx d <> CastTZRequired) /\
  (* the other entries of the matrix do not depend on WithTZ *)
  (forall t u ctx d, convertible t (dt_kind d) = false -> exec_cast t u ctx d = CastNotRecognized) /\
  (forall t u ctx d,
      convertible t (dt_kind d) = true -> mixes (target_kind t) (dt_kind d) = false ->
      exists d', exec_cast t u ctx d = CastOk d' /\ exec_cast t true ctx d = CastOk d').
Proof.
  repeat split.
  - intros t ctx [k s n o]; destruct t, k; cbn; intros; try discriminate; reflexivity.
  - intros t ctx [k s n o]; destruct t, k; cbn; discriminate.
  - intros t u ctx [k s n o]; destruct t, k; cbn; intros; try discriminate; reflexivity.
  - intros t u ctx [k s n o]; destruct t, k; cbn; intros; try discriminate;
      eexists; split; reflexivity.
Qed.
Print Assumptions cast_tz_guard.

(* The 5x5 matrix itself, as a finite statement over kinds (the lifting over
   all values and contexts is cast_tz_guard above). *)
Definition all_targets := [TDate; TTime; TTimeTZ; TTimestamp; TTimestampTZ].
Definition all_kinds := [KDate; KTime; KTimeTZ; KTimestamp; KTimestampTZ].

Lemma cast_matrix_tz_pairs :
  filter (fun p => convertible (fst p) (snd p) && mixes (target_kind (fst p)) (snd p))
         (list_prod all_targets all_kinds)
  = [(TDate, KTimestampTZ); (TTime, KTimeTZ); (TTime, KTimestampTZ); (TTimeTZ, KTime);
     (TTimestamp, KTimestampTZ); (TTimestampTZ, KDate); (TTimestampTZ, KTimestamp)].
Proof. reflexivity. Qed.

(* ================================================================== *)
(* 4. compare_tz_guard                                                 *)
(* ================================================================== *)

Theorem compare_tz_guard :
  (forall ctx a b,
      comparable (dt_kind a) (dt_kind b) = true -> mixes (dt_kind a) (dt_kind b) = true ->
      compare_datetime false ctx a b = CmpTZRequired) /\
  (forall u ctx a b,
      comparable (dt_kind a) (dt_kind b) = false -> compare_datetime u ctx a b = CmpIncomparable) /\
  (forall u ctx a b,
      comparable (dt_kind a) (dt_kind b) = true -> mixes (dt_kind a) (dt_kind b) = false ->
      exists c, compare_datetime u ctx a b = CmpOk c /\ compare_datetime true ctx a b = CmpOk c) /\
  (forall u ctx a b, dt_kind a = dt_kind b -> exists c, compare_datetime u ctx a b = CmpOk c) /\
  (forall ctx a b, compare_datetime true ctx a b <> CmpTZRequired).
Proof.
  repeat split.
  - intros ctx [ka sa na oa] [kb sb nb ob]; destruct ka, kb; cbn; intros; try discriminate; reflexivity.
  - intros u ctx [ka sa na oa] [kb sb nb ob]; destruct ka, kb; cbn; intros; try discriminate; reflexivity.
  - intros u ctx [ka sa na oa] [kb sb nb ob]; destruct ka, kb; cbn; intros; try discriminate;
      eexists; split; reflexivity.
  - intros u ctx [ka sa na oa] [kb sb nb ob]; cbn [dt_kind]; intros ->; destruct kb; cbn;
      eexists; reflexivity.
  - intros ctx [ka sa na oa] [kb sb nb ob]; destruct ka, kb; cbn; discriminate.
Qed.
Print Assumptions compare_tz_guard.

(* ================================================================== *)
(* 5. compare_antisym                                                  *)
(* ================================================================== *)

Lemma inst_compare_antisym s1 n1 s2 n2 :
  inst_compare s2 n2 s1 n1 = - inst_compare s1 n1 s2 n2.
Proof.
  unfold inst_compare.
  destruct (Z.ltb_spec s1 s2), (Z.ltb_spec s2 s1), (Z.ltb_spec n1 n2), (Z.ltb_spec n2 n1);
    try reflexivity; lia.
Qed.

Lemma inst_compare_range s1 n1 s2 n2 : -1 <= inst_compare s1 n1 s2 n2 <= 1.
Proof.
  unfold inst_compare.
  destruct (s1 <? s2), (s2 <? s1), (n1 <? n2), (n2 <? n1); lia.
Qed.

Lemma dt_compare_antisym a b : dt_compare b a = - dt_compare a b.
Proof. unfold dt_compare. apply inst_compare_antisym. Qed.

Lemma timetz_compare_antisym a b : timetz_compare b a = - timetz_compare a b.
Proof.
  unfold timetz_compare. rewrite (dt_compare_antisym a b).
  pose proof (inst_compare_range (dt_sec a) (dt_nsec a) (dt_sec b) (dt_nsec b)) as Hr.
  fold (dt_compare a b) in Hr.
  destruct (Z.eqb_spec (dt_compare a b) 0) as [E|E].
  - rewrite E. cbn.
    destruct (Z.ltb_spec (dt_off a) (dt_off b)), (Z.ltb_spec (dt_off b) (dt_off a)); try reflexivity; lia.
  - destruct (Z.eqb_spec (- dt_compare a b) 0); [lia|]. reflexivity.
Qed.

(* No well-formedness hypothesis is needed. *)
Theorem compare_antisym u ctx a b c :
  compare_datetime u ctx a b = CmpOk c -> compare_datetime u ctx b a = CmpOk (- c).
Proof.
  destruct a as [ka sa na oa], b as [kb sb nb ob].
  destruct ka, kb, u; cbn [compare_datetime dt_kind]; intros H; try discriminate;
    injection H as <-;
    rewrite ?Z.opp_involutive;
    first [ rewrite <- dt_compare_antisym; reflexivity
          | rewrite <- timetz_compare_antisym; reflexivity
          | reflexivity ].
Qed.
Print Assumptions compare_antisym.

Theorem compare_result_range u ctx a b c :
  compare_datetime u ctx a b = CmpOk c -> -1 <= c <= 1.
Proof.
  assert (Hd : forall x y, -1 <= dt_compare x y <= 1) by (intros; apply inst_compare_range).
  assert (Ht : forall x y, -1 <= timetz_compare x y <= 1).
  { intros x y. unfold timetz_compare. specialize (Hd x y).
    destruct (negb (dt_compare x y =? 0)); [exact Hd|].
    destruct (dt_off y <? dt_off x); [lia|]. destruct (dt_off x <? dt_off y); lia. }
  destruct a as [ka sa na oa], b as [kb sb nb ob].
  destruct ka, kb, u; cbn [compare_datetime dt_kind]; intros H; try discriminate;
    injection H as <-;
    match goal with
    | |- context [timetz_compare ?x ?y] => specialize (Ht x y); lia
    | |- context [dt_compare ?x ?y] => specialize (Hd x y); lia
    end.
Qed.
Print Assumptions compare_result_range.

(* ================================================================== *)
(* 6. unmarshal_total: UnmarshalJSON never panics                      *)
(* ================================================================== *)

Lemma string_get_some s : forall n, (n < String.length s)%nat -> exists c, String.get n s = Some c.
Proof.
  induction s as [|c s IH]; intros n Hn; simpl in Hn; [lia|].
  destruct n as [|n]; simpl; [eauto|]. apply IH. lia.
Qed.

Lemma go_index_ok s i : 0 <= i < go_len s -> exists c, go_index s i = Ret c.
Proof.
  intros Hi. unfold go_index.
  destruct (Z.ltb_spec i 0); [lia|]. destruct (Z.leb_spec (go_len s) i); [lia|]. cbn.
  destruct (string_get_some s (Z.to_nat i)) as [c Hc]; [unfold go_len in Hi; lia|].
  rewrite Hc. eauto.
Qed.

Lemma go_slice_ok s lo hi : 0 <= lo <= hi -> hi <= go_len s -> exists r, go_slice s lo hi = Ret r.
Proof.
  intros H1 H2. unfold go_slice.
  destruct (Z.ltb_spec lo 0); [lia|]. destruct (Z.ltb_spec hi lo); [lia|].
  destruct (Z.ltb_spec (go_len s) hi); [lia|]. cbn. eauto.
Qed.

Lemma unquote_total data : exists r, unquote data = Ret r.
Proof.
  unfold unquote. destruct (Z.leb_spec 2 (go_len data)) as [H|H]; [|eauto].
  destruct (go_index_ok data 0 ltac:(lia)) as [c0 ->]. cbn [bindo].
  destruct (Ascii.eqb c0 ch_quote); [|eauto].
  destruct (go_index_ok data (go_len data - 1) ltac:(lia)) as [c1 ->]. cbn [bindo].
  destruct (Ascii.eqb c1 ch_quote); [|eauto].
  apply go_slice_ok; lia.
Qed.

Lemma sign_at_total str place : 0 < place -> exists b, sign_at str place = Ret b.
Proof.
  intros Hp. unfold sign_at. destruct (Z.leb_spec place (go_len str)) as [H|H]; [|eauto].
  destruct (go_index_ok str (go_len str - place) ltac:(lia)) as [c ->]. cbn [bindo].
  destruct (Ascii.eqb c ch_dash); eauto.
Qed.

Lemma tz_format_for_total str : exists f, tz_format_for str = Ret f.
Proof.
  unfold tz_format_for.
  destruct (sign_at_total str 9 ltac:(lia)) as [b9 ->]. cbn [bindo].
  destruct b9; [eauto|].
  destruct (sign_at_total str 6 ltac:(lia)) as [b6 ->]. cbn [bindo].
  destruct b6; eauto.
Qed.

(* For ALL byte strings and all five types: a result or an error, never a
   run-time panic (index/slice out of range), never out of fuel. *)
Theorem unmarshal_total k s : exists r, dt_unmarshal_json k s = Ret r.
Proof.
  unfold dt_unmarshal_json.
  destruct (unquote_total s) as [str ->]. cbn [bindo].
  destruct k; try (eexists; reflexivity);
    destruct (tz_format_for_total str) as [f ->]; cbn [bindo]; eexists; reflexivity.
Qed.
Print Assumptions unmarshal_total.

(* ================================================================== *)
(* 7. Normal forms of time.Date and of the constructors                *)
(* ================================================================== *)

Lemma zone_local_to_unix_fixed o l : zone_local_to_unix (ZFixed o) l = l - o.
Proof.
  unfold zone_local_to_unix, zone_offset_at. cbn [zone_lookup].
  destruct (Z.eqb_spec o 0) as [->|_]; [lia|].
  destruct ((l - o <? alpha) || (omega <=? l - o)); reflexivity.
Qed.

Lemma g_off_fixed s n o : g_off (mkg s n (ZFixed o)) = o.
Proof. reflexivity. Qed.

Lemma g_ymd_fields t : g_ymd t = (g_year t, g_month t, g_day t).
Proof. unfold g_year, g_month, g_day. destruct (g_ymd t) as [[y m] d]. reflexivity. Qed.

Lemma g_ymd_valid t : valid_ymd (g_year t) (g_month t) (g_day t).
Proof.
  pose proof (civil_from_days_valid (g_days t)) as H. fold (g_ymd t) in H.
  rewrite g_ymd_fields in H. exact H.
Qed.

Lemma g_ymd_days t : days_from_civil (g_year t) (g_month t) (g_day t) = g_days t.
Proof.
  pose proof (days_civil_roundtrip (g_days t)) as H. fold (g_ymd t) in H.
  rewrite g_ymd_fields in H. exact H.
Qed.

Lemma g_hms_sod t : g_hour t * 3600 + g_minute t * 60 + g_second t = g_sod t.
Proof.
  unfold g_hour, g_minute, g_second.
  pose proof (Z.mod_pos_bound (g_local t) secs_per_day ltac:(unfold secs_per_day; lia)) as Hb.
  fold (g_sod t) in Hb. unfold secs_per_day in Hb. lia.
Qed.

Lemma g_days_sod t : g_days t * 86400 + g_sod t = g_local t.
Proof. unfold g_days, g_sod, secs_per_day. lia. Qed.

Lemma g_sod_range t : 0 <= g_sod t < 86400.
Proof. unfold g_sod, secs_per_day. lia. Qed.

(* time.Date with an in-range month and nanosecond field *)
Lemma go_date_norm y mo d h mi s ns loc :
  1 <= mo <= 12 -> 0 <= ns < 1000000000 ->
  go_date y mo d h mi s ns loc =
  mkg (zone_local_to_unix loc (days_from_civil y mo d * 86400 + h * 3600 + mi * 60 + s)) ns loc.
Proof.
  intros Hm Hn. unfold go_date, nanos_per_sec, secs_per_day. cbv zeta.
  replace ((mo - 1) / 12) with 0 by lia.
  replace ((mo - 1) mod 12 + 1) with mo by lia.
  replace (ns / 1000000000) with 0 by lia.
  replace (ns mod 1000000000) with ns by lia.
  rewrite !Z.add_0_r. reflexivity.
Qed.

(* time.Date(t.Year(), t.Month(), t.Day(), h, mi, s, ns, loc) *)
Lemma go_date_ymd t h mi s ns loc :
  0 <= ns < 1000000000 ->
  go_date (g_year t) (g_month t) (g_day t) h mi s ns loc =
  mkg (zone_local_to_unix loc (g_days t * 86400 + h * 3600 + mi * 60 + s)) ns loc.
Proof.
  intros Hn. destruct (valid_bounds _ _ _ (g_ymd_valid t)) as [Hm _].
  rewrite go_date_norm by assumption. rewrite g_ymd_days. reflexivity.
Qed.

(* time.Date(t.Year(), ..., t.Nanosecond(), loc): the wall clock of t, read in loc *)
Lemma go_date_fields t loc :
  0 <= g_nsec t < 1000000000 ->
  go_date (g_year t) (g_month t) (g_day t) (g_hour t) (g_minute t) (g_second t) (g_nsec t) loc =
  mkg (zone_local_to_unix loc (g_local t)) (g_nsec t) loc.
Proof.
  intros Hn. rewrite go_date_ymd by assumption.
  replace (g_days t * 86400 + g_hour t * 3600 + g_minute t * 60 + g_second t) with (g_local t)
    by (pose proof (g_hms_sod t); pose proof (g_days_sod t); lia).
  reflexivity.
Qed.

Definition nsec_ok (t : gtime) : Prop := 0 <= g_nsec t < 1000000000.

Lemma new_timestamptz_nf t : nsec_ok t ->
  new_timestamptz t = mkdt KTimestampTZ (g_sec t) (g_nsec t) (g_off t).
Proof.
  intros Hn. unfold new_timestamptz, offset_location_for, of_g.
  rewrite go_date_fields by assumption. rewrite zone_local_to_unix_fixed.
  cbn [g_sec g_nsec]. rewrite g_off_fixed. f_equal. unfold g_local. lia.
Qed.

Lemma new_timestamp_nf t : nsec_ok t ->
  new_timestamp t = mkdt KTimestamp (g_local t) (g_nsec t) 0.
Proof.
  intros Hn. unfold new_timestamp, of_g.
  rewrite go_date_fields by assumption. rewrite zone_local_to_unix_fixed.
  cbn [g_sec g_nsec]. rewrite g_off_fixed. f_equal. lia.
Qed.

Lemma new_date_nf t : new_date t = mkdt KDate (g_days t * 86400) 0 0.
Proof.
  unfold new_date, of_g. rewrite go_date_ymd by lia. rewrite zone_local_to_unix_fixed.
  cbn [g_sec g_nsec]. rewrite g_off_fixed. f_equal. lia.
Qed.

Lemma new_time_nf t : nsec_ok t ->
  new_time t = mkdt KTime (day0 * 86400 + g_sod t) (g_nsec t) 0.
Proof.
  intros Hn. unfold new_time, of_g. rewrite go_date_norm by (assumption || lia).
  rewrite zone_local_to_unix_fixed. cbn [g_sec g_nsec]. rewrite g_off_fixed.
  fold day0. f_equal. pose proof (g_hms_sod t). lia.
Qed.

Lemma new_timetz_nf t : nsec_ok t ->
  new_timetz t = mkdt KTimeTZ (day0 * 86400 + g_sod t - g_off t) (g_nsec t) (g_off t).
Proof.
  intros Hn. unfold new_timetz, offset_location_for, of_g. rewrite go_date_norm by (assumption || lia).
  rewrite zone_local_to_unix_fixed. cbn [g_sec g_nsec]. rewrite g_off_fixed.
  fold day0. f_equal. pose proof (g_hms_sod t). lia.
Qed.

(* the accessors of a stored value *)
Lemma to_g_local d : g_local (to_g d) = dt_sec d + dt_off d.
Proof. reflexivity. Qed.
Lemma to_g_off d : g_off (to_g d) = dt_off d.
Proof. reflexivity. Qed.

(* ================================================================== *)
(* 8. Casts in normal form                                             *)
(* ================================================================== *)

(* The instant time.Date picks for the wall clock reading l in zone z, and
   the fixed offset the result is stored with. *)
Definition tstz_of_local (z : zone) (l ns : Z) : datetime :=
  let u := zone_local_to_unix z l in mkdt KTimestampTZ u ns (zone_offset_at z u).

Lemma to_timestamptz_of_timestamp ctx d :
  dt_kind d = KTimestamp -> wf_nsec d ->
  dt_to_timestamptz ctx d = tstz_of_local (tz ctx) (dt_sec d + dt_off d) (dt_nsec d).
Proof.
  intros Hk Hn. unfold dt_to_timestamptz, wall_in_ctx. rewrite Hk.
  rewrite go_date_fields by exact Hn.
  rewrite new_timestamptz_nf by exact Hn. reflexivity.
Qed.

Lemma to_timestamptz_of_date ctx d :
  dt_kind d = KDate ->
  dt_to_timestamptz ctx d =
  tstz_of_local (tz ctx) ((dt_sec d + dt_off d) / 86400 * 86400) 0.
Proof.
  intros Hk. unfold dt_to_timestamptz. rewrite Hk.
  rewrite go_date_ymd by lia.
  rewrite new_timestamptz_nf by (unfold nsec_ok; cbn; lia).
  unfold tstz_of_local. cbn [g_sec g_nsec]. unfold g_off. cbn [g_loc g_sec].
  unfold g_days. rewrite to_g_local. unfold secs_per_day.
  rewrite !Z.add_0_r. reflexivity.
Qed.

Lemma to_timestamptz_kind ctx d : dt_kind (dt_to_timestamptz ctx d) = KTimestampTZ.
Proof. unfold dt_to_timestamptz. destruct (dt_kind d) eqn:E; try reflexivity. exact E. Qed.

Lemma to_timetz_kind ctx d : dt_kind (dt_to_timetz ctx d) = KTimeTZ.
Proof. unfold dt_to_timetz. destruct (dt_kind d) eqn:E; try reflexivity. exact E. Qed.

(* ================================================================== *)
(* 9. compare_cast_coherent                                            *)
(* ================================================================== *)

(* With WithTZ, comparing a date or timestamp with a timestamptz is comparing
   after the explicit cast of the zone-less side to timestamptz in the
   context zone — in both argument orders, for every zone (fixed or table). *)
Theorem compare_cast_coherent ctx a b :
  (dt_kind a = KDate \/ dt_kind a = KTimestamp) -> dt_kind b = KTimestampTZ ->
  compare_datetime true ctx a b = compare_datetime true ctx (dt_to_timestamptz ctx a) b /\
  compare_datetime true ctx b a = compare_datetime true ctx b (dt_to_timestamptz ctx a).
Proof.
  intros Ha Hb.
  pose proof (to_timestamptz_kind ctx a) as Hk.
  unfold compare_datetime. rewrite Hk, Hb.
  destruct Ha as [-> | ->]; split; reflexivity.
Qed.
Print Assumptions compare_cast_coherent.

(* The time family: time vs timetz is timetz vs timetz after Time.ToTimeTZ. *)
Theorem compare_cast_coherent_time ctx a b :
  dt_kind a = KTime -> dt_kind b = KTimeTZ ->
  compare_datetime true ctx a b = compare_datetime true ctx (dt_to_timetz ctx a) b /\
  compare_datetime true ctx b a = compare_datetime true ctx b (dt_to_timetz ctx a).
Proof.
  intros Ha Hb.
  pose proof (to_timetz_kind ctx a) as Hk.
  unfold compare_datetime. rewrite Hk, Ha, Hb. split; [|reflexivity].
  rewrite <- timetz_compare_antisym. reflexivity.
Qed.
Print Assumptions compare_cast_coherent_time.

(* Zone-less pairs: date vs timestamp is timestamp vs timestamp after
   Date.ToTimestamp (needs the stored date to be well formed). *)
Theorem compare_cast_coherent_zoneless u ctx a b :
  dt_kind a = KDate -> dt_kind b = KTimestamp -> wf_dt a ->
  dt_to_timestamp ctx a = mkdt KTimestamp (dt_sec a) (dt_nsec a) 0 /\
  compare_datetime u ctx a b = compare_datetime u ctx (dt_to_timestamp ctx a) b /\
  compare_datetime u ctx b a = compare_datetime u ctx b (dt_to_timestamp ctx a).
Proof.
  intros Ha Hb [Hn Hw]. rewrite Ha in Hw. destruct Hw as (Ho & Hm & Hz).
  assert (E : dt_to_timestamp ctx a = mkdt KTimestamp (dt_sec a) (dt_nsec a) 0).
  { unfold dt_to_timestamp. rewrite Ha. rewrite new_timestamp_nf by exact Hn.
    rewrite to_g_local, Ho. cbn [g_nsec to_g]. f_equal. lia. }
  split; [exact E|]. rewrite E. unfold compare_datetime. rewrite Ha, Hb. cbn [dt_kind].
  split; reflexivity.
Qed.
Print Assumptions compare_cast_coherent_zoneless.

(* ================================================================== *)
(* 10. date -> timestamptz -> date, timestamp -> timestamptz -> timestamp *)
(* ================================================================== *)

(* "The local time l exists in the zone" in the form the code needs it: the
   instant time.Date picks for the wall clock reading l shows l again when
   read back in the zone.  (If no instant shows l — a spring-forward gap —
   this fails; Go then returns an instant showing a shifted reading.  For a
   reading that exists once or twice, Date returns one of its instants
   whenever its two-lookup heuristic lands in the right transition interval;
   [readback] is exactly that condition.) *)
Definition readback (z : zone) (l : Z) : Prop :=
  let u := zone_local_to_unix z l in u + zone_offset_at z u = l.

Lemma readback_fixed o l : readback (ZFixed o) l.
Proof. unfold readback. rewrite zone_local_to_unix_fixed. unfold zone_offset_at. cbn. lia. Qed.

Lemma readback_exists z l : readback z l -> exists u, u + zone_offset_at z u = l.
Proof. intros H. eexists. exact H. Qed.

Theorem date_tstz_date_roundtrip_gen ctx d :
  dt_kind d = KDate -> wf_dt d -> readback (tz ctx) (dt_sec d) ->
  dt_to_date ctx (dt_to_timestamptz ctx d) = d.
Proof.
  intros Hk [Hn Hw] Hr. rewrite Hk in Hw. destruct Hw as (Ho & Hm & Hz).
  rewrite to_timestamptz_of_date by exact Hk.
  rewrite Ho. replace ((dt_sec d + 0) / 86400 * 86400) with (dt_sec d) by lia.
  unfold tstz_of_local, dt_to_date. cbn [dt_kind]. rewrite new_date_nf.
  unfold in_ctx, g_days, g_local, g_off, go_in, to_g. cbn [g_sec g_loc dt_sec].
  unfold readback in Hr. cbv zeta in Hr. rewrite Hr. unfold secs_per_day.
  destruct d as [k s n o]. cbn in *. subst. f_equal. lia.
Qed.
Print Assumptions date_tstz_date_roundtrip_gen.

Theorem timestamp_tstz_timestamp_roundtrip_gen ctx d :
  dt_kind d = KTimestamp -> wf_dt d -> readback (tz ctx) (dt_sec d) ->
  dt_to_timestamp ctx (dt_to_timestamptz ctx d) = d.
Proof.
  intros Hk [Hn Hw] Hr. rewrite Hk in Hw.
  rewrite to_timestamptz_of_timestamp by assumption.
  rewrite Hw, Z.add_0_r.
  unfold tstz_of_local, dt_to_timestamp. cbn [dt_kind].
  rewrite new_timestamp_nf by exact Hn.
  unfold in_ctx, g_local, g_off, go_in, to_g. cbn [g_sec g_loc g_nsec dt_sec dt_nsec].
  unfold readback in Hr. cbv zeta in Hr. rewrite Hr.
  destruct d as [k s n o]. cbn in *. subst. reflexivity.
Qed.
Print Assumptions timestamp_tstz_timestamp_roundtrip_gen.

(* Fixed-offset context zones: unconditional. *)
Theorem date_tstz_date_roundtrip ctx o d :
  tz ctx = ZFixed o -> wf_dt d ->
  (dt_kind d = KDate -> dt_to_date ctx (dt_to_timestamptz ctx d) = d) /\
  (dt_kind d = KTimestamp -> dt_to_timestamp ctx (dt_to_timestamptz ctx d) = d).
Proof.
  intros Hz Hw. split; intros Hk.
  - apply date_tstz_date_roundtrip_gen; try assumption. rewrite Hz. apply readback_fixed.
  - apply timestamp_tstz_timestamp_roundtrip_gen; try assumption. rewrite Hz. apply readback_fixed.
Qed.
Print Assumptions date_tstz_date_roundtrip.

(* The hypothesis is needed: in a zone that skips a whole day (like
   Pacific/Apia on 2011-12-30: offset -10h -> +14h at local midnight), the
   skipped date comes back as the previous day. *)
Example date_roundtrip_gap_counterexample :
  let ctx := mkctx (ZTable (-36000) [(8676000, 50400)]) 0 0 in
  let d := mkdt KDate 8640000 0 0 in
  wf_dt d /\ dt_to_date ctx (dt_to_timestamptz ctx d) = mkdt KDate 8553600 0 0.
Proof. cbv zeta. split; [|vm_compute; reflexivity]. unfold wf_dt, wf_nsec. cbn. lia. Qed.

(* ================================================================== *)
(* 11. compare_trans                                                   *)
(* ================================================================== *)

(* lexicographic comparison of (sec, nsec, tie) *)
Definition lex3 (k1 k2 : Z * Z * Z) : Z :=
  let '(s1, n1, p1) := k1 in let '(s2, n2, p2) := k2 in
  let c := inst_compare s1 n1 s2 n2 in
  if negb (c =? 0) then c
  else if p1 <? p2 then -1 else if p2 <? p1 then 1 else 0.

Definition lexle (k1 k2 : Z * Z * Z) : Prop :=
  let '(s1, n1, p1) := k1 in let '(s2, n2, p2) := k2 in
  s1 < s2 \/ (s1 = s2 /\ (n1 < n2 \/ (n1 = n2 /\ p1 <= p2))).
Definition lexlt (k1 k2 : Z * Z * Z) : Prop :=
  let '(s1, n1, p1) := k1 in let '(s2, n2, p2) := k2 in
  s1 < s2 \/ (s1 = s2 /\ (n1 < n2 \/ (n1 = n2 /\ p1 < p2))).

Lemma lex3_le k1 k2 : lex3 k1 k2 <= 0 <-> lexle k1 k2.
Proof.
  destruct k1 as [[s1 n1] p1], k2 as [[s2 n2] p2]. unfold lex3, lexle, inst_compare.
  destruct (Z.ltb_spec s1 s2), (Z.ltb_spec s2 s1), (Z.ltb_spec n1 n2), (Z.ltb_spec n2 n1);
    cbn; try lia;
    destruct (Z.ltb_spec p1 p2), (Z.ltb_spec p2 p1); lia.
Qed.

Lemma lex3_lt k1 k2 : lex3 k1 k2 < 0 <-> lexlt k1 k2.
Proof.
  destruct k1 as [[s1 n1] p1], k2 as [[s2 n2] p2]. unfold lex3, lexlt, inst_compare.
  destruct (Z.ltb_spec s1 s2), (Z.ltb_spec s2 s1), (Z.ltb_spec n1 n2), (Z.ltb_spec n2 n1);
    cbn; try lia;
    destruct (Z.ltb_spec p1 p2), (Z.ltb_spec p2 p1); lia.
Qed.

Lemma lexle_trans k1 k2 k3 :
  lexle k1 k2 -> lexle k2 k3 -> lexle k1 k3 /\ (lexlt k1 k2 \/ lexlt k2 k3 -> lexlt k1 k3).
Proof.
  destruct k1 as [[s1 n1] p1], k2 as [[s2 n2] p2], k3 as [[s3 n3] p3].
  unfold lexle, lexlt. lia.
Qed.

Lemma dt_compare_lex3 a b :
  dt_compare a b = lex3 (dt_sec a, dt_nsec a, 0) (dt_sec b, dt_nsec b, 0).
Proof. unfold lex3, dt_compare. cbn. destruct (inst_compare _ _ _ _ =? 0) eqn:E; cbn; [lia|reflexivity]. Qed.

Lemma timetz_compare_lex3 a b :
  timetz_compare a b = lex3 (dt_sec a, dt_nsec a, - dt_off a) (dt_sec b, dt_nsec b, - dt_off b).
Proof.
  unfold lex3, timetz_compare, dt_compare.
  destruct (negb (inst_compare _ _ _ _ =? 0)); [reflexivity|].
  destruct (Z.ltb_spec (dt_off b) (dt_off a)), (Z.ltb_spec (- dt_off a) (- dt_off b)); try lia.
  destruct (Z.ltb_spec (dt_off a) (dt_off b)), (Z.ltb_spec (- dt_off b) (- dt_off a)); lia.
Qed.

(* The sort key of a value under WithTZ: zone-less values through their cast
   into the context zone. *)
Definition cmp_key (ctx : dctx) (d : datetime) : Z * Z * Z :=
  match dt_kind d with
  | KTimestampTZ => (dt_sec d, dt_nsec d, 0)
  | KDate | KTimestamp => let c := dt_to_timestamptz ctx d in (dt_sec c, dt_nsec c, 0)
  | KTimeTZ => (dt_sec d, dt_nsec d, - dt_off d)
  | KTime => let c := dt_to_timetz ctx d in (dt_sec c, dt_nsec c, - dt_off c)
  end.

(* What transitivity needs of the context zone: among zone-less values the
   cast into the zone preserves the (zone-less) order.  True for fixed
   offsets; FALSE in general for a transition table (see the counterexample
   below): time.Date maps readings in a gap / overlap non-monotonically. *)
Definition conv_embeds (ctx : dctx) (a b : datetime) : Prop :=
  match dt_kind a, dt_kind b with
  | (KDate | KTimestamp), (KDate | KTimestamp) =>
      dt_compare (dt_to_timestamptz ctx a) (dt_to_timestamptz ctx b) = dt_compare a b
  | KTime, KTime =>
      timetz_compare (dt_to_timetz ctx a) (dt_to_timetz ctx b) = dt_compare a b
  | _, _ => True
  end.

Lemma compare_by_key ctx a b :
  comparable (dt_kind a) (dt_kind b) = true -> conv_embeds ctx a b ->
  compare_datetime true ctx a b = CmpOk (lex3 (cmp_key ctx a) (cmp_key ctx b)).
Proof.
  intros Hc He. unfold conv_embeds in He. unfold compare_datetime, cmp_key.
  destruct (dt_kind a) eqn:Ka, (dt_kind b) eqn:Kb; try discriminate Hc; cbv zeta; f_equal;
    rewrite <- ?He;
    first [ apply dt_compare_lex3
          | apply timetz_compare_lex3
          | rewrite <- timetz_compare_antisym; apply timetz_compare_lex3
          | rewrite dt_compare_lex3; reflexivity ].
Qed.

Lemma compare_false_true ctx a b x :
  compare_datetime false ctx a b = CmpOk x -> compare_datetime true ctx a b = CmpOk x.
Proof.
  unfold compare_datetime. destruct (dt_kind a), (dt_kind b); intros H; try discriminate; exact H.
Qed.

Lemma compare_ok_comparable u ctx a b x :
  compare_datetime u ctx a b = CmpOk x -> comparable (dt_kind a) (dt_kind b) = true.
Proof.
  unfold compare_datetime. destruct (dt_kind a), (dt_kind b); intros H; try discriminate; reflexivity.
Qed.

Lemma compare_false_chain ctx a b c x y :
  compare_datetime false ctx a b = CmpOk x -> compare_datetime false ctx b c = CmpOk y ->
  exists z, compare_datetime false ctx a c = CmpOk z.
Proof.
  unfold compare_datetime.
  destruct (dt_kind a), (dt_kind b), (dt_kind c); intros H1 H2; try discriminate; eexists; reflexivity.
Qed.

(* Transitivity of <=, with strictness, for any useTZ, given that the casts
   into the context zone preserve order on the zone-less values involved. *)
Theorem compare_trans_gen u ctx a b c x y :
  conv_embeds ctx a b -> conv_embeds ctx b c -> conv_embeds ctx a c ->
  compare_datetime u ctx a b = CmpOk x -> compare_datetime u ctx b c = CmpOk y ->
  x <= 0 -> y <= 0 ->
  exists z, compare_datetime u ctx a c = CmpOk z /\ z <= 0 /\ (x < 0 \/ y < 0 -> z < 0).
Proof.
  intros Eab Ebc Eac Hab Hbc Hx Hy.
  assert (Tab : compare_datetime true ctx a b = CmpOk x)
    by (destruct u; [exact Hab | apply compare_false_true; exact Hab]).
  assert (Tbc : compare_datetime true ctx b c = CmpOk y)
    by (destruct u; [exact Hbc | apply compare_false_true; exact Hbc]).
  pose proof (compare_ok_comparable _ _ _ _ _ Tab) as Cab.
  pose proof (compare_ok_comparable _ _ _ _ _ Tbc) as Cbc.
  assert (Cac : comparable (dt_kind a) (dt_kind c) = true).
  { unfold comparable in *. destruct (time_like (dt_kind a)), (time_like (dt_kind b)), (time_like (dt_kind c));
      try discriminate; reflexivity. }
  rewrite compare_by_key in Tab, Tbc by assumption.
  injection Tab as <-. injection Tbc as <-.
  pose proof (compare_by_key ctx a c Cac Eac) as Tac.
  apply lex3_le in Hx. apply lex3_le in Hy.
  destruct (lexle_trans _ _ _ Hx Hy) as [Hle Hlt].
  assert (Hz : lex3 (cmp_key ctx a) (cmp_key ctx c) <= 0 /\
               (lex3 (cmp_key ctx a) (cmp_key ctx b) < 0 \/ lex3 (cmp_key ctx b) (cmp_key ctx c) < 0 ->
                lex3 (cmp_key ctx a) (cmp_key ctx c) < 0)).
  { split; [apply lex3_le; exact Hle|]. intros H. apply lex3_lt. apply Hlt.
    destruct H as [H|H]; [left|right]; apply lex3_lt; exact H. }
  destruct u.
  - eexists. split; [exact Tac|exact Hz].
  - destruct (compare_false_chain _ _ _ _ _ _ Hab Hbc) as [z Hz'].
    pose proof (compare_false_true _ _ _ _ Hz') as Hz''. rewrite Tac in Hz''.
    injection Hz'' as <-. eexists. split; [exact Hz'|exact Hz].
Qed.
Print Assumptions compare_trans_gen.

(* Fixed-offset zones: the casts are translations by the offset. *)
Lemma to_timestamptz_fixed ctx o d :
  tz ctx = ZFixed o -> wf_dt d -> (dt_kind d = KDate \/ dt_kind d = KTimestamp) ->
  dt_to_timestamptz ctx d = mkdt KTimestampTZ (dt_sec d - o) (dt_nsec d) o.
Proof.
  intros Hz [Hn Hw] [Hk|Hk]; rewrite Hk in Hw.
  - destruct Hw as (Ho & Hm & Hns). rewrite to_timestamptz_of_date by exact Hk.
    rewrite Hz, Ho. unfold tstz_of_local. rewrite zone_local_to_unix_fixed.
    unfold zone_offset_at. cbn [zone_lookup]. rewrite Hns. f_equal. lia.
  - rewrite to_timestamptz_of_timestamp by assumption.
    rewrite Hz, Hw. unfold tstz_of_local. rewrite zone_local_to_unix_fixed.
    unfold zone_offset_at. cbn [zone_lookup]. f_equal. lia.
Qed.

Lemma day0_val : day0 = -719528.
Proof. reflexivity. Qed.

Lemma to_timetz_fixed ctx o d :
  tz ctx = ZFixed o -> wf_dt d -> dt_kind d = KTime ->
  dt_to_timetz ctx d = mkdt KTimeTZ (dt_sec d - o) (dt_nsec d) o.
Proof.
  intros Hz [Hn Hw] Hk. rewrite Hk in Hw. destruct Hw as [Ho Hr]. rewrite day0_val in Hr.
  unfold dt_to_timetz, time_to_timetz. rewrite Hk, Hz.
  rewrite go_date_ymd by exact Hn.
  rewrite zone_local_to_unix_fixed.
  rewrite new_timetz_nf by exact Hn.
  set (now := mkg (now_sec ctx) 0 (ZFixed (now_local_off ctx))).
  pose proof (g_hms_sod (to_g d)) as Hs.
  assert (Hsod : g_sod (to_g d) = dt_sec d + 719528 * 86400).
  { unfold g_sod. rewrite to_g_local, Ho. unfold secs_per_day. lia. }
  rewrite Hsod in Hs.
  set (h := g_hour (to_g d)) in *. set (mi := g_minute (to_g d)) in *. set (s := g_second (to_g d)) in *.
  set (dn := g_days now).
  unfold g_sod, g_local, g_off. cbn [g_sec g_nsec g_loc].
  unfold zone_offset_at. cbn [zone_lookup]. cbn [to_g g_nsec].
  rewrite day0_val. unfold secs_per_day.
  f_equal. lia.
Qed.

Lemma conv_embeds_fixed ctx o a b :
  tz ctx = ZFixed o -> wf_dt a -> wf_dt b -> conv_embeds ctx a b.
Proof.
  intros Hz Wa Wb. unfold conv_embeds.
  destruct (dt_kind a) eqn:Ka, (dt_kind b) eqn:Kb; try exact I;
    try (rewrite (to_timestamptz_fixed ctx o a Hz Wa) by (rewrite Ka; auto);
         rewrite (to_timestamptz_fixed ctx o b Hz Wb) by (rewrite Kb; auto);
         unfold dt_compare, inst_compare; cbn [dt_sec dt_nsec];
         destruct (Z.ltb_spec (dt_sec a - o) (dt_sec b - o)), (Z.ltb_spec (dt_sec a) (dt_sec b)); try lia;
         destruct (Z.ltb_spec (dt_sec b - o) (dt_sec a - o)), (Z.ltb_spec (dt_sec b) (dt_sec a)); try lia;
         reflexivity).
  rewrite (to_timetz_fixed ctx o a Hz Wa Ka), (to_timetz_fixed ctx o b Hz Wb Kb).
  unfold timetz_compare, dt_compare, inst_compare. cbn [dt_sec dt_nsec dt_off].
  rewrite Z.ltb_irrefl.
  destruct (Z.ltb_spec (dt_sec a - o) (dt_sec b - o)), (Z.ltb_spec (dt_sec a) (dt_sec b)); try lia;
    destruct (Z.ltb_spec (dt_sec b - o) (dt_sec a - o)), (Z.ltb_spec (dt_sec b) (dt_sec a)); try lia;
    try reflexivity.
  destruct (dt_nsec a <? dt_nsec b); [reflexivity|]. destruct (dt_nsec b <? dt_nsec a); reflexivity.
Qed.

Theorem compare_trans u ctx o a b c x y :
  tz ctx = ZFixed o -> wf_dt a -> wf_dt b -> wf_dt c ->
  compare_datetime u ctx a b = CmpOk x -> compare_datetime u ctx b c = CmpOk y ->
  x <= 0 -> y <= 0 ->
  exists z, compare_datetime u ctx a c = CmpOk z /\ z <= 0 /\ (x < 0 \/ y < 0 -> z < 0).
Proof.
  intros Hz Wa Wb Wc. apply compare_trans_gen; eapply conv_embeds_fixed; eassumption.
Qed.
Print Assumptions compare_trans.

(* With a transition table transitivity FAILS (so the ZTable hypothesis of
   compare_trans_gen is necessary).  Mini zone: -5h, then -4h from Unix second
   25200 (a spring-forward at 02:00 local on 1970-01-01).  Zone-less
   timestamps a = 01:45 < b = 02:30 (in the gap), timestamptz c = 06:40Z:
   a < b and b < c, but a > c. *)
Example compare_trans_ztable_counterexample :
  let ctx := mkctx (ZTable (-18000) [(25200, -14400)]) 0 0 in
  let a := mkdt KTimestamp 6300 0 0 in      (* 1970-01-01T01:45:00 *)
  let b := mkdt KTimestamp 9000 0 0 in      (* 1970-01-01T02:30:00 *)
  let c := mkdt KTimestampTZ 24000 0 0 in   (* 1970-01-01T06:40:00+00:00 *)
  compare_datetime true ctx a b = CmpOk (-1) /\
  compare_datetime true ctx b c = CmpOk (-1) /\
  compare_datetime true ctx a c = CmpOk 1.
Proof. vm_compute. repeat split. Qed.

(* ================================================================== *)
(* 12. precision_rounding                                              *)
(* ================================================================== *)

Definition prec_units : list Z :=
  [1000000000; 100000000; 10000000; 1000000; 100000; 10000; 1000; 100; 10; 1].

(* Time.Round to a unit dividing one second: the result is a multiple of the
   unit, at most half a unit away, halfway cases going up (later). *)
Lemma go_round_unit t d :
  In d prec_units -> nsec_ok t ->
  nsec_ok (go_round t d) /\ g_loc (go_round t d) = g_loc t /\
  g_nsec (go_round t d) mod d = 0 /\
  - d < 2 * ((g_sec (go_round t d) - g_sec t) * 1000000000 + (g_nsec (go_round t d) - g_nsec t)) <= d.
Proof.
  intros Hd Hn. unfold nsec_ok in *. unfold go_round, go_add_ns, nanos_per_sec, unix_to_internal.
  destruct t as [s n l]. cbn [g_sec g_nsec g_loc] in *.
  unfold prec_units in Hd. cbn [In] in Hd.
  repeat (destruct Hd as [<-|Hd]; [
    match goal with |- context [if ?c <=? 0 then _ else _] => destruct (Z.leb_spec c 0); [lia|] end;
    match goal with |- context [if ?a <? ?b then _ else _] => destruct (Z.ltb_spec a b) end;
    cbn [g_sec g_nsec g_loc]; (repeat split; try reflexivity; lia) |]).
  contradiction.
Qed.

Lemma prec_duration_unit p : 0 <= p <= 9 -> prec_duration p = 10 ^ (9 - p) /\ In (10 ^ (9 - p)) prec_units.
Proof.
  intros Hp. assert (H : p = 0 \/ p = 1 \/ p = 2 \/ p = 3 \/ p = 4 \/ p = 5 \/ p = 6 \/ p = 7 \/ p = 8 \/ p = 9) by lia.
  repeat (destruct H as [->|H]; [split; [reflexivity|cbn; tauto]|]). subst. split; [reflexivity|cbn; tauto].
Qed.

(* what time.Parse hands back: nanoseconds in range, offset-only location *)
Definition parsed_ok (t : gtime) : Prop := nsec_ok t /\ exists o, g_loc t = ZFixed o.

Lemma go_parse_ok l s t : go_parse l s = Some t -> parsed_ok t.
Proof.
  unfold go_parse. destruct (parse_items l pf_init s) as [f|]; [|discriminate].
  unfold finish_parse.
  destruct ((_ <? 1) || _); [discriminate|].
  set (t0 := go_date _ _ _ _ _ _ _ zUTC).
  assert (H0 : nsec_ok t0).
  { unfold nsec_ok, t0, go_date, nanos_per_sec. cbn [g_nsec]. lia. }
  destruct (pf_z f); [|destruct (negb (pf_zoff f =? -1))]; intros H; injection H as <-;
    (split; [exact H0 | eexists; reflexivity]).
Qed.

Lemma first_parse_ok ls s t : first_parse ls s = Some t -> parsed_ok t.
Proof.
  induction ls as [|l ls IH]; cbn; [discriminate|].
  destruct (go_parse l s) eqn:E; [|exact IH].
  intros H; injection H as <-. eapply go_parse_ok; exact E.
Qed.

Lemma parse_raw_ok s k v : parse_raw s = Some (k, v) -> parsed_ok v.
Proof.
  unfold parse_raw.
  destruct (go_parse lay_date s) eqn:E1; [intros H; injection H as <- <-; eapply go_parse_ok; exact E1|].
  destruct (first_parse timetz_layouts s) eqn:E2.
  { intros H; injection H as <- <-. destruct (first_parse_ok _ _ _ E2) as [Hn _].
    split; [exact Hn | eexists; reflexivity]. }
  destruct (go_parse lay_time s) eqn:E3; [intros H; injection H as <- <-; eapply go_parse_ok; exact E3|].
  destruct (first_parse tstz_layouts s) eqn:E4; [intros H; injection H as <- <-; eapply first_parse_ok; exact E4|].
  destruct (first_parse ts_layouts s) eqn:E5; [intros H; injection H as <- <-; eapply first_parse_ok; exact E5|].
  discriminate.
Qed.

(* total nanoseconds of the instant *)
Definition dt_ns (d : datetime) : Z := dt_sec d * 1000000000 + dt_nsec d.

Definition day_ns : Z := 86400 * 1000000000.

(* ParseTime with precision p in 0..9 (exec caps at 6): same type and offset
   as without precision; the nanoseconds are a multiple of 10^(9-p); the
   instant moves by at most half a unit (a tie goes up).  For timestamps the
   carry runs into seconds and days; for time/timetz the time of day wraps
   around midnight (the move is half a unit modulo 24h); dates are untouched. *)
Theorem precision_rounding ctx src p d0 :
  0 <= p <= 9 -> parse_time ctx src (-1) = Some d0 ->
  exists d, parse_time ctx src p = Some d /\
    dt_kind d = dt_kind d0 /\ dt_off d = dt_off d0 /\
    0 <= dt_nsec d < 1000000000 /\ dt_nsec d mod 10 ^ (9 - p) = 0 /\
    match dt_kind d0 with
    | KDate => d = d0
    | KTimestamp | KTimestampTZ =>
        - 10 ^ (9 - p) < 2 * (dt_ns d - dt_ns d0) <= 10 ^ (9 - p)
    | KTime | KTimeTZ =>
        exists delta, - 10 ^ (9 - p) < 2 * delta <= 10 ^ (9 - p) /\
                      (dt_ns d - dt_ns d0 - delta) mod day_ns = 0 /\
                      day0 * 86400 <= dt_sec d + dt_off d < (day0 + 1) * 86400
    end.
Proof.
  intros Hp. unfold parse_time. destruct (parse_raw src) as [[k v]|] eqn:E; [|discriminate].
  intros H; injection H as <-.
  destruct (parse_raw_ok _ _ _ E) as [Hn [o Hl]].
  destruct (prec_duration_unit p Hp) as [Hd Hin].
  eexists; split; [reflexivity|].
  unfold build_parsed, adjust_precision.
  replace (-1 <? -1) with false by reflexivity.
  replace (-1 <? p) with true by (symmetry; apply Z.ltb_lt; lia).
  rewrite Hd. set (u := 10 ^ (9 - p)) in *.
  destruct (go_round_unit v u Hin Hn) as (Hn' & Hl' & Hm & Hdelta).
  set (v' := go_round v u) in *.
  assert (Ho : g_off v = o) by (unfold g_off; rewrite Hl; reflexivity).
  assert (Ho' : g_off v' = o) by (unfold g_off; rewrite Hl', Hl; reflexivity).
  assert (Hu : 0 < u) by (unfold prec_units in Hin; cbn [In] in Hin; lia).
  destruct k.
  - (* date *)
    rewrite new_date_nf. cbn. repeat split; try lia; try (apply Z.mod_0_l; lia).
  - (* time *)
    rewrite !new_time_nf by assumption. cbn [dt_kind dt_off dt_nsec dt_sec].
    repeat split; try (apply Hn'); try exact Hm.
    exists ((g_sec v' - g_sec v) * 1000000000 + (g_nsec v' - g_nsec v)).
    split; [exact Hdelta|]. unfold dt_ns, day_ns. cbn [dt_sec dt_nsec].
    pose proof (g_sod_range v'). unfold g_sod, g_local in *. rewrite Ho, Ho' in *.
    unfold secs_per_day in *. rewrite day0_val. split; lia.
  - (* timetz *)
    rewrite !new_timetz_nf by assumption. cbn [dt_kind dt_off dt_nsec dt_sec].
    rewrite Ho, Ho'.
    repeat split; try (apply Hn'); try exact Hm.
    exists ((g_sec v' - g_sec v) * 1000000000 + (g_nsec v' - g_nsec v)).
    split; [exact Hdelta|]. unfold dt_ns, day_ns. cbn [dt_sec dt_nsec].
    pose proof (g_sod_range v'). unfold g_sod, g_local in *. rewrite Ho, Ho' in *.
    unfold secs_per_day in *. rewrite day0_val. split; lia.
  - (* timestamp *)
    rewrite !new_timestamp_nf by assumption. cbn [dt_kind dt_off dt_nsec dt_sec].
    repeat split; try (apply Hn'); try exact Hm;
      unfold dt_ns, g_local; cbn [dt_sec dt_nsec]; rewrite Ho, Ho'; lia.
  - (* timestamptz *)
    rewrite !new_timestamptz_nf by assumption. cbn [dt_kind dt_off dt_nsec dt_sec].
    rewrite Ho, Ho'.
    repeat split; try (apply Hn'); try exact Hm;
      unfold dt_ns; cbn [dt_sec dt_nsec]; lia.
Qed.
Print Assumptions precision_rounding.

(* exec caps the precision at 6 and rejects negative ones; beyond 9 (only
   reachable through types.ParseTime directly) Round(0) leaves the value alone. *)
Lemma exec_precision_cap ctx takes src p :
  6 < p -> exec_parse_datetime ctx true src (Some p) = exec_parse_datetime ctx takes src (Some 6)
           \/ takes = false.
Proof.
  intros Hp. destruct takes; [left|right; reflexivity].
  unfold exec_parse_datetime, max_timestamp_precision.
  replace (p <? 0) with false by (symmetry; apply Z.ltb_ge; lia).
  replace (6 <? p) with true by (symmetry; apply Z.ltb_lt; lia).
  reflexivity.
Qed.

Lemma parse_time_big_precision ctx src p :
  9 < p -> parse_time ctx src p = parse_time ctx src (-1).
Proof.
  intros Hp. unfold parse_time. destruct (parse_raw src) as [[k v]|]; [|reflexivity].
  f_equal. unfold build_parsed, adjust_precision, prec_duration, go_round.
  replace (-1 <? p) with true by (symmetry; apply Z.ltb_lt; lia).
  replace (p <? 0) with false by (symmetry; apply Z.ltb_ge; lia).
  replace (p <=? 9) with false by (symmetry; apply Z.leb_gt; lia).
  reflexivity.
Qed.
